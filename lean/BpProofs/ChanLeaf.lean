import BpProofs.ChanInv
/- preservation of the invariant by each kind of atomic action -/
namespace Bp.Chan

theorem g1_set {s s' : Sys} {t : Nat} {x x' : Task} (h : G1 s) (hx : s.tasks[t]? = some x)
    (htasks : s'.tasks = s.tasks.set t x')
    (hdq : ∀ g u, u ≠ t → u ∈ s.dq g → u ∈ s'.dq g)
    (hself : ∀ g, x'.wait = .blocked g .pending → t ∈ s'.dq g) : G1 s' := by
  intro g u y hy hw
  rw [htasks] at hy
  by_cases hut : u = t
  · subst hut
    rw [List.getElem?_set_self (getElem?_lt hx)] at hy
    cases hy
    exact hself g hw
  · rw [List.getElem?_set_ne (fun e => hut e.symm)] at hy
    exact hdq g u hut (h g u y hy hw)

theorem uniq_mono {pl : List Item} {ts ts' : List Task} (h : ∀ a b, Item.data a b ∈ pl → b < nextAt ts a)
    (hm : ∀ a, nextAt ts a ≤ nextAt ts' a) : ∀ a b, Item.data a b ∈ pl → b < nextAt ts' a :=
  fun a b hab => Nat.lt_of_lt_of_le (h a b hab) (hm a)

theorem fl_set {ts : List Task} {t : Nat} {x x' : Task} {P : Prop}
    (h : ∀ (u : Nat) (y : Task), ts[u]? = some y → y.code.isFlusher = true → mCanc y = 0 ∧ P)
    (hx : ts[t]? = some x) (hfl : x'.code.isFlusher = true → mCanc x' = 0 ∧ P) :
    ∀ (u : Nat) (y : Task), (ts.set t x')[u]? = some y → y.code.isFlusher = true → mCanc y = 0 ∧ P := by
  intro u y hy hf
  by_cases hut : u = t
  · subst hut
    rw [List.getElem?_set_self (getElem?_lt hx)] at hy
    cases hy
    exact hfl hf
  · rw [List.getElem?_set_ne (fun e => hut e.symm)] at hy
    exact h u y hy hf

theorem getRecv_set {ts : List Task} {t : Nat} {x x' : Task}
    (h : ∀ (u : Nat) (y : Task), ts[u]? = some y → y.wait.inGet = true → y.code.isReceiver = true)
    (hx : ts[t]? = some x) (hgr : x'.wait.inGet = true → x'.code.isReceiver = true) :
    ∀ (u : Nat) (y : Task), (ts.set t x')[u]? = some y → y.wait.inGet = true → y.code.isReceiver = true := by
  intro u y hy hf
  by_cases hut : u = t
  · subst hut
    rw [List.getElem?_set_self (getElem?_lt hx)] at hy
    cases hy
    exact hgr hf
  · rw [List.getElem?_set_ne (fun e => hut e.symm)] at hy
    exact h u y hy hf

/-- a step that rewrites task `t` and possibly the deques / counters, leaving queue and logs alone -/
theorem sinv_frame {s s' : Sys} {t : Nat} {x x' : Task} (h : SInv s) (hx : s.tasks[t]? = some x)
    (htasks : s'.tasks = s.tasks.set t x') (hq : s'.queue = s.queue) (hpl : s'.putLog = s.putLog)
    (hrl : s'.recvLog = s.recvLog) (hcl : s'.closed = s.closed) (hpc : s'.preClose = s.preClose)
    (hnext : x.code.nextSeq ≤ x'.code.nextSeq)
    (hgr : x'.wait.inGet = true → x'.code.isReceiver = true)
    (hfl : x'.code.isFlusher = true → mCanc x' = 0 ∧ s.closed = true)
    (hdq : ∀ g u, u ≠ t → u ∈ s.dq g → u ∈ s'.dq g)
    (hself : ∀ g, x'.wait = .blocked g .pending → t ∈ s'.dq g) : SInv s' := by
  refine ⟨by rw [hpl, hrl, hq]; exact h.fifo, ?_, by rw [hpl]; exact h.ord, g1_set h.g1 hx htasks hdq hself,
    by rw [hcl, hpc]; exact h.preCl, by rw [htasks]; exact getRecv_set h.getRecv hx hgr,
    by rw [htasks, hcl]; exact fl_set h.fl hx hfl⟩
  rw [hpl, htasks]
  exact uniq_mono h.uniq (nextAt_set_le hx hnext)

theorem sinv_wake {s : Sys} (g : Bool) (h : SInv s) : SInv (wake g s) := by
  have e := wake_eff g s h.g1
  refine ⟨by simpa using h.fifo, ?_, by simpa using h.ord, e.g1, by simpa using h.preCl, ?_, ?_⟩
  · intro a b hab
    rw [e.next a]
    exact h.uniq a b (by simpa using hab)
  · intro t y hy hf
    obtain ⟨hA, hB⟩ := wakeNext_spec g (s.dq g) s.tasks
    rw [wake_tasks] at hy
    rcases hB with ⟨h1, _⟩ | ⟨u, z, _, hz, hp, h4, _⟩
    · rw [h1] at hy; exact h.getRecv t y hy hf
    · rw [h4] at hy
      by_cases htu : t = u
      · subst htu
        rw [List.getElem?_set_self (getElem?_lt hz)] at hy
        cases hy
        exact h.getRecv t z hz (by cases g <;> simp_all [Wait.inGet])
      · rw [List.getElem?_set_ne (fun e => htu e.symm)] at hy
        exact h.getRecv t y hy hf
  · intro t y hy hf
    rw [wake_closed]
    obtain ⟨hA, hB⟩ := wakeNext_spec g (s.dq g) s.tasks
    rw [wake_tasks] at hy
    rcases hB with ⟨h1, _⟩ | ⟨u, z, _, hz, hp, h4, _⟩
    · rw [h1] at hy; exact h.fl t y hy hf
    · rw [h4] at hy
      by_cases htu : t = u
      · subst htu
        rw [List.getElem?_set_self (getElem?_lt hz)] at hy
        cases hy
        have := h.fl t z hz hf
        simp [mCanc, Wait.isCancelled, hp] at this ⊢
        exact this
      · rw [List.getElem?_set_ne (fun e => htu e.symm)] at hy
        exact h.fl t y hy hf

theorem mem_dq_same (s s' : Sys) (hg : s'.getters = s.getters) (hp : s'.putters = s.putters) :
    ∀ (g : Bool) (u : Nat), u ≠ t → u ∈ s.dq g → u ∈ s'.dq g := by
  intro g u _ hu; cases g <;> simp [Sys.dq, hg, hp] at hu ⊢ <;> exact hu

/-- a task leaves the `ready` state by finishing -/
theorem inv_finish {s : Sys} {t : Nat} {x x' : Task} (h : Inv s) (hx : s.tasks[t]? = some x)
    (hw : x.wait = .ready) (hw' : x'.wait = .done) (hc' : x'.code = x.code) (hm' : x'.mustCancel = x.mustCancel)
    (hfresh : mFresh x = 0 ∨ ind s.flushed = 1) (howed : owedOf x.code = 0)
    (hrecv : x.code.isReceiver = true → s.cancels = 0 → ind s.closed = 1 ∧ s.queue.length ≤ s.waiting) :
    Inv (s.setTask t x') := by
  obtain ⟨dP, dW, dI, dO, dF, dR, dC⟩ := delta x' hx
  have dPt := dP true; have dPf := dP false; have dWt := dW true; have dWf := dW false
  have hcx := tsum_ge (f := mCanc) hx
  clear dP dW
  have m1 : mFresh x' = 0 := by simp [mFresh, hw']
  rw [m1] at dF
  constructor
  · refine sinv_frame h.st hx rfl rfl rfl rfl rfl rfl (by rw [hc']; exact Nat.le_refl _) (by simp [hw', Wait.inGet]) ?_ ?_ ?_
    · intro hf
      have := h.st.fl t x hx (by rw [← hc']; exact hf)
      simp [mCanc, Wait.isCancelled, hw, hw', hm'] at this ⊢
      exact this
    · exact mem_dq_same _ _ rfl rfl
    · intro g hg; rw [hw'] at hg; cases hg
  · cases hr : x.code.isReceiver <;>
      simp [mPend, mWok, mInGet, mOwed, mRecvDone, mCanc, Wait.inGet, Wait.isCancelled, hw, hw', hc', hm', howed, hr]
        at dPt dPf dWt dWf dI dO dR dC hcx hrecv <;>
      num_close h

theorem mem_dq_append (s s' : Sys) (g0 : Bool) (t : Nat) (hg : s'.dq g0 = s.dq g0 ++ [t]) (ho : s'.dq (!g0) = s.dq (!g0)) :
    ∀ (g : Bool) (u : Nat), u ≠ t → u ∈ s.dq g → u ∈ s'.dq g := by
  intro g u _ hu
  by_cases hgg : g = g0
  · subst hgg; rw [hg]; exact List.mem_append_left _ hu
  · have : g = !g0 := by cases g <;> cases g0 <;> simp_all
    subst this; rw [ho]; exact hu

/-- `close()` -/
theorem inv_close {s : Sys} (h : Inv s) : Inv (doClose s) := by
  have a1 : tsum (mPend true) (s.tasks ++ [flusherTask]) = tsum (mPend true) s.tasks := by simp [tsum_append, tsum, mPend, flusherTask]
  have a2 : tsum (mPend false) (s.tasks ++ [flusherTask]) = tsum (mPend false) s.tasks := by simp [tsum_append, tsum, mPend, flusherTask]
  have a3 : tsum (mWok true) (s.tasks ++ [flusherTask]) = tsum (mWok true) s.tasks := by simp [tsum_append, tsum, mWok, flusherTask]
  have a4 : tsum (mWok false) (s.tasks ++ [flusherTask]) = tsum (mWok false) s.tasks := by simp [tsum_append, tsum, mWok, flusherTask]
  have a5 : tsum mInGet (s.tasks ++ [flusherTask]) = tsum mInGet s.tasks := by simp [tsum_append, tsum, mInGet, Wait.inGet, flusherTask]
  have a6 : tsum mOwed (s.tasks ++ [flusherTask]) = tsum mOwed s.tasks := by simp [tsum_append, tsum, mOwed, owedOf, flusherTask]
  have a7 : tsum mFresh (s.tasks ++ [flusherTask]) = tsum mFresh s.tasks + 1 := by simp [tsum_append, tsum, mFresh, flusherTask]
  have a8 : tsum mRecvDone (s.tasks ++ [flusherTask]) = tsum mRecvDone s.tasks := by simp [tsum_append, tsum, mRecvDone, Code.isReceiver, flusherTask]
  have a9 : tsum mCanc (s.tasks ++ [flusherTask]) = tsum mCanc s.tasks := by simp [tsum_append, tsum, mCanc, Wait.isCancelled, flusherTask]
  have hpc := h.st.preCl
  constructor
  · refine ⟨h.st.fifo, ?_, h.st.ord, ?_, ?_, ?_, ?_⟩
    · exact uniq_mono h.st.uniq (nextAt_append_le _ _)
    · intro g u y hy hw
      simp only [doClose] at hy
      rcases Nat.lt_or_ge u s.tasks.length with hl | hl
      · rw [List.getElem?_append_left hl] at hy
        have := h.st.g1 g u y hy hw
        cases g <;> simpa [Sys.dq, doClose] using this
      · rw [List.getElem?_append_right hl] at hy
        cases hu : u - s.tasks.length with
        | zero => simp [hu] at hy; subst hy; simp [flusherTask] at hw
        | succ k => simp [hu] at hy
    · simp only [doClose]
      cases hp : s.preClose <;> simp
    · intro u y hy hf
      simp only [doClose] at hy
      rcases Nat.lt_or_ge u s.tasks.length with hl | hl
      · rw [List.getElem?_append_left hl] at hy
        exact h.st.getRecv u y hy hf
      · rw [List.getElem?_append_right hl] at hy
        cases hu : u - s.tasks.length with
        | zero => simp [hu] at hy; subst hy; simp [flusherTask, Wait.inGet] at hf
        | succ k => simp [hu] at hy
    · intro u y hy hf
      simp only [doClose] at hy ⊢
      rcases Nat.lt_or_ge u s.tasks.length with hl | hl
      · rw [List.getElem?_append_left hl] at hy
        exact ⟨(h.st.fl u y hy hf).1, by simp⟩
      · rw [List.getElem?_append_right hl] at hy
        cases hu : u - s.tasks.length with
        | zero => simp [hu] at hy; subst hy; simp [mCanc, flusherTask, Wait.isCancelled]
        | succ k => simp [hu] at hy
  · have hc0 : ind s.closed = 0 → s.preClose = none := by
      intro hc
      cases hcl : s.closed
      · cases hp : s.preClose
        · rfl
        · rw [hcl, hp] at hpc; simp at hpc
      · rw [hcl] at hc; simp at hc
    have hpn : ind s.closed = 0 → (match s.preClose with | none => some s.putLog.length | some n => some n).getD 0 = s.putLog.length := by
      intro hc; rw [hc0 hc]; rfl
    have hps : ind s.closed = 1 → (match s.preClose with | none => some s.putLog.length | some n => some n).getD 0 = s.preClose.getD 0 := by
      intro hc
      cases hcl : s.closed
      · rw [hcl] at hc; simp at hc
      · cases hp : s.preClose
        · rw [hcl, hp] at hpc; simp at hpc
        · rfl
    have hb := ind_le s.closed
    show NumInv (abs { s with closed := true, tasks := s.tasks ++ [flusherTask],
                              preClose := match s.preClose with | none => some s.putLog.length | some n => some n })
    generalize (match s.preClose with | none => some s.putLog.length | some n => some n) = pc' at hpn hps
    num_close h

/-- a fresh receiver finds the queue empty and suspends on a new getter -/
theorem inv_block_get {s : Sys} {t : Nat} {x x' : Task} (h : Inv s) (hx : s.tasks[t]? = some x)
    (hw : x.wait = .ready) (hw' : x'.wait = .blocked true .pending) (hc' : x'.code = x.code)
    (hm' : x'.mustCancel = x.mustCancel) (hmc : x.mustCancel = false) (hrc : x.code.isReceiver = true)
    (hq : s.queue = []) (hnd : ind s.closed = 1 → s.waiting < s.queue.length) :
    Inv { s.setTask t x' with getters := s.getters ++ [t], waiting := s.waiting + 1 } := by
  obtain ⟨dP, dW, dI, dO, dF, dR, dC⟩ := delta x' hx
  have dPt := dP true; have dPf := dP false; have dWt := dW true; have dWf := dW false
  clear dP dW
  have hnf : x.code ≠ .flusher none := by intro e; rw [e] at hrc; simp [Code.isReceiver] at hrc
  constructor
  · refine sinv_frame h.st hx rfl rfl rfl rfl rfl rfl (by rw [hc']; exact Nat.le_refl _) (by intro _; rw [hc']; exact hrc) ?_ ?_ ?_
    · intro hf; rw [hc'] at hf; cases hcode : x.code <;> simp [hcode, Code.isFlusher, Code.isReceiver] at hf hrc
    · exact mem_dq_append _ _ true t rfl rfl
    · intro g hg; rw [hw'] at hg; cases hg; simp [Sys.dq]
  · simp [mPend, mWok, mInGet, mOwed, mFresh, mRecvDone, mCanc, Wait.inGet, Wait.isCancelled, hw, hw', hc', hm', hmc, hnf]
      at dPt dPf dWt dWf dI dO dF dR dC
    have hq0 : s.queue.length = 0 := by rw [hq]; rfl
    num_close h

/-- a woken waiter finds the queue empty (getter) / full (putter) again and suspends on a new future -/
theorem inv_reblock {s : Sys} {t : Nat} {x x' : Task} (g0 : Bool) (h : Inv s) (hx : s.tasks[t]? = some x)
    (hw : x.wait = .blocked g0 .woken) (hw' : x'.wait = .blocked g0 .pending)
    (hn' : x'.code.nextSeq = x.code.nextSeq) (ho' : owedOf x'.code = owedOf x.code)
    (hf' : x'.code.isFlusher = x.code.isFlusher) (hr' : x'.code.isReceiver = x.code.isReceiver)
    (hm' : x'.mustCancel = x.mustCancel)
    (hq : if g0 then s.queue = [] else (0 < s.maxsize ∧ s.maxsize ≤ s.queue.length)) :
    Inv ((s.setTask t x').setDq g0 (s.dq g0 ++ [t])) := by
  obtain ⟨dP, dW, dI, dO, dF, dR, dC⟩ := delta x' hx
  have dPt := dP true; have dPf := dP false; have dWt := dW true; have dWf := dW false
  clear dP dW
  constructor
  · refine sinv_frame h.st hx ?_ ?_ ?_ ?_ ?_ ?_ (by rw [hn']; exact Nat.le_refl _)
      (by intro hi; rw [hr']; exact h.st.getRecv t x hx (by cases g0 <;> simp_all [Wait.inGet])) ?_ ?_ ?_
    · cases g0 <;> rfl
    · cases g0 <;> rfl
    · cases g0 <;> rfl
    · cases g0 <;> rfl
    · cases g0 <;> rfl
    · cases g0 <;> rfl
    · intro hf
      have := h.st.fl t x hx (by rw [← hf']; exact hf)
      simp [mCanc, Wait.isCancelled, hw, hw', hm'] at this ⊢
      exact this
    · apply mem_dq_append _ _ g0 t <;> cases g0 <;> rfl
    · intro g hg; rw [hw'] at hg; cases hg; cases g0 <;> simp [Sys.dq, Sys.setDq, Sys.setTask]
  · cases g0
    · simp [mPend, mWok, mInGet, mOwed, mFresh, mRecvDone, mCanc, Wait.inGet, Wait.isCancelled, hw, hw', ho', hm']
        at dPt dPf dWt dWf dI dO dF dR dC hq
      simp only [Sys.setDq, Bool.false_eq_true, if_false]
      num_close h
    · simp [mPend, mWok, mInGet, mOwed, mFresh, mRecvDone, mCanc, Wait.inGet, Wait.isCancelled, hw, hw', ho', hm']
        at dPt dPf dWt dWf dI dO dF dR dC hq
      simp only [Sys.setDq, if_true]
      have hq0 : s.queue.length = 0 := by rw [hq]; rfl
      have htw : (List.takeWhile Item.isData s.queue).length = 0 := by rw [hq]; rfl
      num_close h

/-- a sender / flusher finds the queue full and suspends on a new putter -/
theorem inv_block_put {s : Sys} {t : Nat} {x x' : Task} (h : Inv s) (hx : s.tasks[t]? = some x)
    (hw : x.wait = .ready) (hw' : x'.wait = .blocked false .pending)
    (hn' : x'.code.nextSeq = x.code.nextSeq) (ho' : owedOf x'.code = owedOf x.code)
    (hf' : x'.code.isFlusher = x.code.isFlusher) (hr' : x'.code.isReceiver = x.code.isReceiver)
    (hm' : x'.mustCancel = x.mustCancel) (hfr : mFresh x = 0)
    (hfull : 0 < s.maxsize ∧ s.maxsize ≤ s.queue.length) :
    Inv { s.setTask t x' with putters := s.putters ++ [t] } := by
  obtain ⟨dP, dW, dI, dO, dF, dR, dC⟩ := delta x' hx
  have dPt := dP true; have dPf := dP false; have dWt := dW true; have dWf := dW false
  clear dP dW
  have m1 : mFresh x' = 0 := by simp [mFresh, hw']
  rw [m1, hfr] at dF
  constructor
  · refine sinv_frame h.st hx rfl rfl rfl rfl rfl rfl (by rw [hn']; exact Nat.le_refl _) (by simp [hw', Wait.inGet]) ?_ ?_ ?_
    · intro hf
      have := h.st.fl t x hx (by rw [← hf']; exact hf)
      simp [mCanc, Wait.isCancelled, hw, hw', hm'] at this ⊢
      exact this
    · exact mem_dq_append _ _ false t rfl rfl
    · intro g hg; rw [hw'] at hg; cases hg; simp [Sys.dq]
  · simp [mPend, mWok, mInGet, mOwed, mRecvDone, mCanc, Wait.inGet, Wait.isCancelled, hw, hw', ho', hr', hm']
      at dPt dPf dWt dWf dI dO dR dC
    num_close h

/-- `_flush_queue` starts: `_flushed = True`, `max(0, waiting - qsize)` sentinels to put -/
theorem inv_flush_compute {s : Sys} {t : Nat} {x x' : Task} (h : Inv s) (hx : s.tasks[t]? = some x)
    (hw : x.wait = .ready) (hc : x.code = .flusher none) (hmc : x.mustCancel = false)
    (hw' : x'.wait = .ready) (hc' : x'.code = .flusher (some (s.waiting - s.queue.length)))
    (hm' : x'.mustCancel = false) (hfl : s.flushed = false) :
    Inv { s.setTask t x' with flushed := true } := by
  obtain ⟨dP, dW, dI, dO, dF, dR, dC⟩ := delta x' hx
  have dPt := dP true; have dPf := dP false; have dWt := dW true; have dWf := dW false
  clear dP dW
  have hcl := (h.st.fl t x hx (by rw [hc]; rfl)).2
  constructor
  · refine sinv_frame h.st hx rfl rfl rfl rfl rfl rfl (by rw [hc, hc']; exact Nat.le_refl _) (by simp [hw', Wait.inGet]) ?_ ?_ ?_
    · intro _; exact ⟨by simp [mCanc, Wait.isCancelled, hw', hm'], hcl⟩
    · exact mem_dq_same _ _ rfl rfl
    · intro g hg; rw [hw'] at hg; cases hg
  · simp [mPend, mWok, mInGet, mOwed, mFresh, mRecvDone, mCanc, Wait.inGet, Wait.isCancelled, hw, hw', hc, hc', hmc, hm',
      owedOf, Code.isReceiver] at dPt dPf dWt dWf dI dO dF dR dC
    have hcl1 : ind s.closed = 1 := by rw [hcl]; rfl
    have hfl0 : ind s.flushed = 0 := by rw [hfl]; rfl
    num_close h

/-- what `_wakeup_next` does to the numbers -/
theorem abs_wake (g : Bool) (s1 : Sys) (hG : G1 s1) :
    (abs (wake g s1)).ql = (abs s1).ql ∧ (abs (wake g s1)).tw = (abs s1).tw ∧ (abs (wake g s1)).dq = (abs s1).dq ∧
    (abs (wake g s1)).pl = (abs s1).pl ∧ (abs (wake g s1)).rl = (abs s1).rl ∧ (abs (wake g s1)).unf = (abs s1).unf ∧
    (abs (wake g s1)).waiting = (abs s1).waiting ∧ (abs (wake g s1)).maxsize = (abs s1).maxsize ∧
    (abs (wake g s1)).cancels = (abs s1).cancels ∧ (abs (wake g s1)).pcN = (abs s1).pcN ∧
    (abs (wake g s1)).closed = (abs s1).closed ∧ (abs (wake g s1)).flushed = (abs s1).flushed ∧
    (abs (wake g s1)).inGet = (abs s1).inGet ∧ (abs (wake g s1)).owed = (abs s1).owed ∧
    (abs (wake g s1)).fresh = (abs s1).fresh ∧ (abs (wake g s1)).rDone = (abs s1).rDone ∧
    (abs (wake g s1)).canc = (abs s1).canc ∧
    (if g then
      ((abs (wake g s1)).pG + (abs (wake g s1)).wG = (abs s1).pG + (abs s1).wG ∧
       (0 < (abs s1).pG → (abs (wake g s1)).wG = (abs s1).wG + 1) ∧
       (abs s1).wG ≤ (abs (wake g s1)).wG ∧ (abs (wake g s1)).wG ≤ (abs s1).wG + 1 ∧
       (abs (wake g s1)).pP = (abs s1).pP ∧ (abs (wake g s1)).wP = (abs s1).wP)
    else
      ((abs (wake g s1)).pP + (abs (wake g s1)).wP = (abs s1).pP + (abs s1).wP ∧
       (0 < (abs s1).pP → (abs (wake g s1)).wP = (abs s1).wP + 1) ∧
       (abs s1).wP ≤ (abs (wake g s1)).wP ∧ (abs (wake g s1)).wP ≤ (abs s1).wP + 1 ∧
       (abs (wake g s1)).pG = (abs s1).pG ∧ (abs (wake g s1)).wG = (abs s1).wG)) := by
  have e := wake_eff g s1 hG
  obtain ⟨o1, o2, o3, o4, o5, o6, o7⟩ := e.others
  have e1 := e.sumPW; have e2 := e.wokUp; have e3 := e.wokLe
  simp only [abs, wake_queue, wake_maxsize, wake_unfinished, wake_closed, wake_flushed, wake_waiting, wake_putLog,
    wake_recvLog, wake_preClose, wake_cancels]
  refine ⟨trivial, trivial, trivial, trivial, trivial, trivial, trivial, trivial, trivial, trivial, trivial, trivial, o3, o4, o5, o6, o7, ?_⟩
  cases g
  · simp only [Bool.false_eq_true, if_false]
    simp only [Bool.not_false] at o1 o2
    exact ⟨e1, e2, e3.1, e3.2, o1, o2⟩
  · simp only [if_true]
    simp only [Bool.not_true] at o1 o2
    exact ⟨e1, e2, e3.1, e3.2, o1, o2⟩

/-- `put_nowait(item)` by a sender / flusher that found room -/
theorem inv_put {s : Sys} {t : Nat} {x x' : Task} {it : Item} (h : Inv s) (hx : s.tasks[t]? = some x)
    (hwx : x.wait = .ready ∨ x.wait = .blocked false .woken) (hw' : x'.wait = .ready)
    (hm' : x'.mustCancel = x.mustCancel) (hfr : mFresh x = 0) (hnf' : x'.code ≠ .flusher none)
    (hf' : x'.code.isFlusher = x.code.isFlusher)
    (hnext : x.code.nextSeq ≤ x'.code.nextSeq)
    (hdata : ∀ a b, it = .data a b → a = t ∧ b = x.code.nextSeq ∧ x'.code.nextSeq = b + 1 ∧
      owedOf x.code = 0 ∧ owedOf x'.code = 0)
    (hflush : it = .flush → owedOf x.code = owedOf x'.code + 1)
    (hroom : s.maxsize = 0 ∨ s.queue.length < s.maxsize) :
    Inv (putNowait (s.setTask t x') it) := by
  obtain ⟨dP, dW, dI, dO, dF, dR, dC⟩ := delta x' hx
  have dPt := dP true; have dPf := dP false; have dWt := dW true; have dWf := dW false
  clear dP dW
  have hge := tsum_ge (f := mOwed) hx
  have m1 : mFresh x' = 0 := by simp [mFresh, hnf']
  rw [m1, hfr] at dF
  -- the state before the wake-up
  have hs1 : SInv { s.setTask t x' with queue := s.queue ++ [it], unfinished := s.unfinished + 1, putLog := if it.isData then s.putLog ++ [it] else s.putLog } := by
    refine ⟨?_, ?_, ?_, ?_, h.st.preCl, getRecv_set h.st.getRecv hx (by simp [hw', Wait.inGet]), ?_⟩
    · show (if it.isData then s.putLog ++ [it] else s.putLog) = List.map Prod.snd s.recvLog ++ List.filter Item.isData (s.queue ++ [it])
      rw [List.filter_append, h.st.fifo]
      cases it <;> simp [Item.isData, List.filter]
    · show ∀ a b, Item.data a b ∈ (if it.isData then s.putLog ++ [it] else s.putLog) → b < nextAt (s.tasks.set t x') a
      intro a b hab
      cases it with
      | flush => exact uniq_mono h.st.uniq (nextAt_set_le hx hnext) a b (by simpa [Item.isData] using hab)
      | data c d =>
        simp only [Item.isData, if_true, List.mem_append, List.mem_singleton] at hab
        rcases hab with hab | hab
        · exact uniq_mono h.st.uniq (nextAt_set_le hx hnext) a b hab
        · cases hab
          obtain ⟨e1, e2, e3, _⟩ := hdata a b rfl
          subst e1
          rw [nextAt_set_self _ hx, e3]; omega
    · show (if it.isData then s.putLog ++ [it] else s.putLog).Pairwise SendOrd
      cases it with
      | flush => simpa [Item.isData] using h.st.ord
      | data c d =>
        simp only [Item.isData, if_true]
        rw [List.pairwise_append]
        refine ⟨h.st.ord, by simp, ?_⟩
        intro y hy z hz
        simp at hz; subst hz
        cases y with
        | flush => trivial
        | data a b =>
          intro hac
          subst hac
          obtain ⟨e1, e2, _⟩ := hdata a d rfl
          have := h.st.uniq a b hy
          subst e1
          simp only [nextAt, hx] at this
          omega
    · exact g1_set (s := s) h.st.g1 hx rfl (mem_dq_same _ _ rfl rfl) (by intro g hg; rw [hw'] at hg; cases hg)
    · show ∀ (u : Nat) (y : Task), (s.tasks.set t x')[u]? = some y → y.code.isFlusher = true → mCanc y = 0 ∧ s.closed = true
      refine fl_set h.st.fl hx ?_
      intro hf
      have := h.st.fl t x hx (by rw [← hf']; exact hf)
      refine ⟨?_, this.2⟩
      rcases hwx with hw | hw <;> simp [mCanc, Wait.isCancelled, hw, hw', hm'] at this ⊢ <;> exact this.1
  have hql : (s.queue ++ [it]).length = s.queue.length + 1 := by simp
  obtain ⟨t1, t2, t3⟩ := takeWhile_append_len Item.isData s.queue it
  have hdq : (List.filter Item.isData (s.queue ++ [it])).length =
      (List.filter Item.isData s.queue).length + (if it.isData = true then 1 else 0) := by
    rw [List.filter_append]; cases it <;> simp [Item.isData, List.filter]
  have hpl : (if it.isData = true then s.putLog ++ [it] else s.putLog).length =
      s.putLog.length + (if it.isData = true then 1 else 0) := by
    cases it <;> simp [Item.isData]
  generalize hS1 : ({ s.setTask t x' with queue := s.queue ++ [it], unfinished := s.unfinished + 1, putLog := if it.isData then s.putLog ++ [it] else s.putLog } : Sys) = S1 at hs1
  have hgoal : putNowait (s.setTask t x') it = wake true S1 := by rw [← hS1]; rfl
  rw [hgoal]
  constructor
  · exact sinv_wake true hs1
  · have hwk := abs_wake true S1 hs1.g1
    generalize abs (wake true S1) = a' at hwk ⊢
    subst hS1
    simp only [abs, Sys.setTask, if_true] at hwk
    cases it with
    | flush =>
      have hfo := hflush rfl
      simp only [Item.isData, Bool.false_eq_true, if_false, forall_const, false_implies] at t2 t3 hdq hpl hwk
      rcases hwx with hw | hw <;>
        simp [mPend, mWok, mInGet, mOwed, mRecvDone, mCanc, Wait.inGet, Wait.isCancelled, hw, hw', hm']
          at dPt dPf dWt dWf dI dO dR dC hge <;>
        num_close h
    | data a b =>
      obtain ⟨_, _, _, ho1, ho2⟩ := hdata a b rfl
      simp only [Item.isData, if_true, forall_const] at t2 t3 hdq hpl hwk
      rcases hwx with hw | hw <;>
        simp [mPend, mWok, mInGet, mOwed, mRecvDone, mCanc, Wait.inGet, Wait.isCancelled, hw, hw', hm', ho1, ho2]
          at dPt dPf dWt dWf dI dO dR dC hge <;>
        num_close h

/-- a receiver takes the head of the queue (`get_nowait` + `task_done` + sentinel test) -/
theorem inv_take {s : Sys} {t : Nat} {x x' : Task} {it : Item} {rest : List Item} {rl' : List (Nat × Item)}
    (counted : Bool) (h : Inv s) (hx : s.tasks[t]? = some x)
    (hwx : x.wait = if counted then .blocked true .woken else .ready)
    (hq : s.queue = it :: rest) (hc' : x'.code = x.code) (hm' : x'.mustCancel = x.mustCancel)
    (hrc : x.code.isReceiver = true)
    (hfl : it = .flush → x'.wait = .done ∧ rl' = s.recvLog)
    (hdt : ∀ a b, it = .data a b → x'.wait = .ready ∧ rl' = s.recvLog ++ [(t, it)])
    (hnd : counted = false → ind s.closed = 1 → s.waiting < s.queue.length) :
    Inv (wake false { s.setTask t x' with queue := rest, waiting := if counted then s.waiting - 1 else s.waiting, unfinished := s.unfinished - 1, recvLog := rl' }) := by
  obtain ⟨dP, dW, dI, dO, dF, dR, dC⟩ := delta x' hx
  have dPt := dP true; have dPf := dP false; have dWt := dW true; have dWf := dW false
  clear dP dW
  have hgeI := tsum_ge (f := mInGet) hx
  have hgeW := tsum_ge (f := mWok true) hx
  have hnf : x.code ≠ .flusher none := by intro e; rw [e] at hrc; simp [Code.isReceiver] at hrc
  have hnfl : x.code.isFlusher = false := by cases hcode : x.code <;> simp [hcode, Code.isFlusher, Code.isReceiver] at hrc ⊢
  have howed : owedOf x.code = 0 := by cases hcode : x.code <;> simp [hcode, owedOf, Code.isReceiver] at hrc ⊢
  have hw'np : ∀ g, x'.wait ≠ .blocked g .pending := by
    intro g hg
    cases it with
    | flush => rw [(hfl rfl).1] at hg; cases hg
    | data a b => rw [(hdt a b rfl).1] at hg; cases hg
  have hs1 : SInv { s.setTask t x' with queue := rest, waiting := if counted then s.waiting - 1 else s.waiting, unfinished := s.unfinished - 1, recvLog := rl' } := by
    refine ⟨?_, ?_, h.st.ord, ?_, h.st.preCl, getRecv_set h.st.getRecv hx (by intro _; rw [hc']; exact hrc), ?_⟩
    · show s.putLog = List.map Prod.snd rl' ++ List.filter Item.isData rest
      rw [h.st.fifo, hq]
      cases it with
      | flush => rw [(hfl rfl).2]; simp [List.filter, Item.isData]
      | data a b => rw [(hdt a b rfl).2]; simp [List.filter, Item.isData]
    · show ∀ a b, Item.data a b ∈ s.putLog → b < nextAt (s.tasks.set t x') a
      exact uniq_mono h.st.uniq (nextAt_set_le hx (by rw [hc']; exact Nat.le_refl _))
    · exact g1_set (s := s) h.st.g1 hx rfl (mem_dq_same _ _ rfl rfl) (by intro g hg; exact absurd hg (hw'np g))
    · show ∀ (u : Nat) (y : Task), (s.tasks.set t x')[u]? = some y → y.code.isFlusher = true → mCanc y = 0 ∧ s.closed = true
      refine fl_set h.st.fl hx ?_
      intro hf; rw [hc', hnfl] at hf; cases hf
  generalize hS1 : ({ s.setTask t x' with queue := rest, waiting := if counted then s.waiting - 1 else s.waiting, unfinished := s.unfinished - 1, recvLog := rl' } : Sys) = S1 at hs1
  constructor
  · exact sinv_wake false hs1
  · have hwk := abs_wake false S1 hs1.g1
    generalize abs (wake false S1) = a' at hwk ⊢
    subst hS1
    simp only [abs, Sys.setTask, Bool.false_eq_true, if_false] at hwk
    have hql : s.queue.length = rest.length + 1 := by rw [hq]; rfl
    cases it with
    | flush =>
      obtain ⟨hw', hrl⟩ := hfl rfl
      subst hrl
      have htw : (List.takeWhile Item.isData s.queue).length = 0 := by rw [hq]; simp [List.takeWhile, Item.isData]
      have hdq : (List.filter Item.isData s.queue).length = (List.filter Item.isData rest).length := by
        rw [hq]; simp [List.filter, Item.isData]
      have htwr := (List.takeWhile_sublist Item.isData (l := rest)).length_le
      cases counted <;>
        simp [mPend, mWok, mInGet, mOwed, mFresh, mRecvDone, mCanc, Wait.inGet, Wait.isCancelled, hwx, hw', hc', hm', hnf, howed, hrc]
          at dPt dPf dWt dWf dI dO dF dR dC hgeI hgeW hnd hwk <;>
        num_close h
    | data a b =>
      obtain ⟨hw', hrl⟩ := hdt a b rfl
      subst hrl
      have htw : (List.takeWhile Item.isData s.queue).length = (List.takeWhile Item.isData rest).length + 1 := by
        rw [hq]; simp [List.takeWhile, Item.isData]
      have hdq : (List.filter Item.isData s.queue).length = (List.filter Item.isData rest).length + 1 := by
        rw [hq]; simp [List.filter, Item.isData]
      have hrl : (s.recvLog ++ [(t, Item.data a b)]).length = s.recvLog.length + 1 := by simp
      cases counted <;>
        simp [mPend, mWok, mInGet, mOwed, mFresh, mRecvDone, mCanc, Wait.inGet, Wait.isCancelled, hwx, hw', hc', hm', hnf, howed, hrc]
          at dPt dPf dWt dWf dI dO dF dR dC hgeI hgeW hnd hwk <;>
        num_close h

/-- `task.cancel()` / the `wait_for` timer firing -/
theorem inv_cancel_task {s : Sys} (h : Inv s) (tgt : Nat) (timer : Bool) : Inv (cancelTask s tgt timer) := by
  unfold cancelTask
  cases hy : s.tasks[tgt]? with
  | none => exact h
  | some y =>
    simp only
    cases hf : y.code.isFlusher with
    | true => simpa using h
    | false =>
      simp only [Bool.false_eq_true, if_false]
      have hnf : y.code ≠ .flusher none := by intro e; rw [e] at hf; simp [Code.isFlusher] at hf
      have key : ∀ (x' : Task), x'.code = y.code → y.wait ≠ .done →
          ((∃ g, y.wait = .blocked g .pending ∧ x'.wait = .blocked g .cancelled ∧ x'.mustCancel = y.mustCancel) ∨
           ((∀ g, y.wait ≠ .blocked g .pending) ∧ x'.wait = y.wait ∧ x'.mustCancel = true)) →
          Inv { s.setTask tgt x' with cancels := s.cancels + 1 } := by
        intro x' hc' hnd hcase
        obtain ⟨dP, dW, dI, dO, dF, dR, dC⟩ := delta x' hy
        have dPt := dP true; have dPf := dP false; have dWt := dW true; have dWf := dW false
        clear dP dW
        have hw'np : ∀ g, x'.wait ≠ .blocked g .pending := by
          intro g hg
          rcases hcase with ⟨g', _, h2, _⟩ | ⟨h1, h2, _⟩
          · rw [h2] at hg; cases hg
          · rw [h2] at hg; exact h1 g hg
        constructor
        · refine sinv_frame h.st hy rfl rfl rfl rfl rfl rfl (by rw [hc']; exact Nat.le_refl _) ?_ ?_ ?_ ?_
          · intro hi; rw [hc']; apply h.st.getRecv tgt y hy
            rcases hcase with ⟨g', k1, k2, _⟩ | ⟨_, k2, _⟩
            · rw [k2] at hi; rw [k1]; cases g' <;> simp_all [Wait.inGet]
            · rw [k2] at hi; exact hi
          · intro hf'; rw [hc', hf] at hf'; cases hf'
          · exact mem_dq_same _ _ rfl rfl
          · intro g hg; exact absurd hg (hw'np g)
        · rcases hcase with ⟨g, h1, h2, h3⟩ | ⟨h1, h2, h3⟩
          · cases g <;>
              simp [mPend, mWok, mInGet, mOwed, mFresh, mRecvDone, mCanc, Wait.inGet, Wait.isCancelled, h1, h2, h3, hc', hnf]
                at dPt dPf dWt dWf dI dO dF dR dC <;>
              num_close h
          · have e1 : ∀ g, mPend g x' = mPend g y := by intro g; simp [mPend, h2]
            have e2 : ∀ g, mWok g x' = mWok g y := by intro g; simp [mWok, h2]
            have e3 : mInGet x' = mInGet y := by simp [mInGet, h2]
            have e4 : mOwed x' = mOwed y := by simp [mOwed, h2, hc']
            have e5 : mFresh x' = 0 := by simp [mFresh, h3]
            have e5' : mFresh y = 0 := by simp [mFresh, hnf]
            have e6 : mRecvDone x' = mRecvDone y := by simp [mRecvDone, h2, hc']
            rw [e1] at dPt dPf; rw [e2] at dWt dWf; rw [e3] at dI; rw [e4] at dO; rw [e5, e5'] at dF; rw [e6] at dR
            clear dC
            num_close h
      cases hw : y.wait with
      | done => simpa using h
      | ready =>
        exact key _ rfl (fun e => by rw [hw] at e; cases e) (Or.inr ⟨(fun g e => by rw [hw] at e; cases e), hw.symm, rfl⟩)
      | blocked g f =>
        cases f with
        | pending => exact key _ rfl (fun e => by rw [hw] at e; cases e) (Or.inl ⟨g, hw, rfl, rfl⟩)
        | woken => exact key _ rfl (fun e => by rw [hw] at e; cases e) (Or.inr ⟨(fun g' e => by rw [hw] at e; cases e), hw.symm, rfl⟩)
        | cancelled => exact key _ rfl (fun e => by rw [hw] at e; cases e) (Or.inr ⟨(fun g' e => by rw [hw] at e; cases e), hw.symm, rfl⟩)

end Bp.Chan
