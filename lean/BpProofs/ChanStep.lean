import BpProofs.ChanLeaf
/- the cancellation branch of `Queue.get` / `Queue.put`, and the assembly: every atomic action,
   every scheduler step and every run preserves the invariant -/
namespace Bp.Chan

/-- CancelledError thrown into a task suspended in `get()` / `put()` -/
theorem inv_cancel_branch {s : Sys} {t : Nat} {x : Task} (g : Bool) (f : Fut) (h : Inv s) (hx : s.tasks[t]? = some x)
    (hwx : (f = .cancelled ∧ x.wait = .blocked g .cancelled) ∨
           (f = .woken ∧ x.wait = .blocked g .woken ∧ x.mustCancel = true)) :
    Inv (cancelBranch s t x g f) := by
  have hcx : mCanc x = 1 := by
    rcases hwx with ⟨_, hw⟩ | ⟨_, hw, hm⟩ <;> simp [mCanc, Wait.isCancelled, hw, *]
  have hnfl : x.code.isFlusher = false := by
    cases hfl : x.code.isFlusher
    · rfl
    · have := (h.st.fl t x hx hfl).1; omega
  have howed : owedOf x.code = 0 := by cases hcode : x.code <;> simp [hcode, owedOf, Code.isFlusher] at hnfl ⊢
  have hcpos : s.cancels ≠ 0 := by
    intro hc
    have := h.nm.noCanc (by simpa [abs] using hc)
    have h2 := tsum_ge (f := mCanc) hx
    simp only [abs] at this
    omega
  generalize hx' : ({ x with wait := .done, out := cancelOutcome x } : Task) = x'
  have hw' : x'.wait = .done := by rw [← hx']
  have hc' : x'.code = x.code := by rw [← hx']
  have hm' : x'.mustCancel = x.mustCancel := by rw [← hx']
  obtain ⟨dP, dW, dI, dO, dF, dR, dC⟩ := delta x' hx
  have dPt := dP true; have dPf := dP false; have dWt := dW true; have dWf := dW false
  clear dP dW
  have hgeI := tsum_ge (f := mInGet) hx
  have hgeWt := tsum_ge (f := mWok true) hx
  have hgeWf := tsum_ge (f := mWok false) hx
  have m1 : mFresh x' = 0 := by simp [mFresh, hw']
  have m2 : mFresh x = 0 := by
    rcases hwx with ⟨_, hw⟩ | ⟨_, hw, _⟩ <;> simp [mFresh, hw]
  rw [m1, m2] at dF
  -- the state after the bookkeeping, before the possible wake-up
  have hs2 : SInv (if g then { s.setTask t x' with getters := s.getters.erase t, waiting := s.waiting - 1 }
                   else { s.setTask t x' with putters := s.putters.erase t }) := by
    cases g
    · simp only [Bool.false_eq_true, if_false]
      refine sinv_frame h.st hx rfl rfl rfl rfl rfl rfl (by rw [hc']; exact Nat.le_refl _) (by simp [hw', Wait.inGet]) ?_ ?_ ?_
      · intro hf; rw [hc', hnfl] at hf; cases hf
      · intro g' u hu hmem
        cases g' <;> simp only [Sys.dq, Bool.false_eq_true, if_false, if_true] at hmem ⊢
        · exact (List.mem_erase_of_ne hu).mpr hmem
        · exact hmem
      · intro g' hg; rw [hw'] at hg; cases hg
    · simp only [if_true]
      refine sinv_frame h.st hx rfl rfl rfl rfl rfl rfl (by rw [hc']; exact Nat.le_refl _) (by simp [hw', Wait.inGet]) ?_ ?_ ?_
      · intro hf; rw [hc', hnfl] at hf; cases hf
      · intro g' u hu hmem
        cases g' <;> simp only [Sys.dq, Bool.false_eq_true, if_false, if_true] at hmem ⊢
        · exact hmem
        · exact (List.mem_erase_of_ne hu).mpr hmem
      · intro g' hg; rw [hw'] at hg; cases hg
  have hfull : s.full = true → 0 < s.maxsize ∧ s.maxsize ≤ s.queue.length := by
    intro hf; simpa [Sys.full] using hf
  have hnfull : s.full = false → s.maxsize = 0 ∨ s.queue.length < s.maxsize := by
    intro hf; simp [Sys.full] at hf; omega
  have hempty : s.queue.isEmpty = true → s.queue.length = 0 := by
    intro he; simpa using he
  have hnempty : s.queue.isEmpty = false → 0 < s.queue.length := by
    intro he; cases hq : s.queue with
    | nil => simp [hq] at he
    | cons a b => simp
  unfold cancelBranch finish
  rw [hx']
  show Inv (if f ≠ .cancelled ∧ ((if g then !s.queue.isEmpty else !s.full) = true) then
      wake g (if g then { s.setTask t x' with getters := s.getters.erase t, waiting := s.waiting - 1 }
              else { s.setTask t x' with putters := s.putters.erase t })
    else (if g then { s.setTask t x' with getters := s.getters.erase t, waiting := s.waiting - 1 }
              else { s.setTask t x' with putters := s.putters.erase t }))
  by_cases hcond : f ≠ .cancelled ∧ ((if g then !s.queue.isEmpty else !s.full) = true)
  · rw [if_pos hcond]
    obtain ⟨hfne, hroom⟩ := hcond
    rcases hwx with ⟨hf, _⟩ | ⟨_, hw, hm⟩
    · exact absurd hf hfne
    generalize hS2 : (if g then ({ s.setTask t x' with getters := s.getters.erase t, waiting := s.waiting - 1 } : Sys)
              else { s.setTask t x' with putters := s.putters.erase t }) = S2 at hs2
    constructor
    · exact sinv_wake g hs2
    · have hwk := abs_wake g S2 hs2.g1
      generalize abs (wake g S2) = a' at hwk ⊢
      subst hS2
      cases g
      · simp only [Bool.false_eq_true, if_false] at hwk hroom
        simp only [abs, Sys.setTask] at hwk
        have hr := hnfull (by simpa using hroom)
        simp [mPend, mWok, mInGet, mOwed, mRecvDone, mCanc, Wait.inGet, Wait.isCancelled, hw, hw', hc', hm', hm, howed]
          at dPt dPf dWt dWf dI dO dR dC hgeI hgeWt hgeWf
        num_close h
      · simp only [if_true] at hwk hroom
        simp only [abs, Sys.setTask] at hwk
        have hr := hnempty (by simpa using hroom)
        simp [mPend, mWok, mInGet, mOwed, mRecvDone, mCanc, Wait.inGet, Wait.isCancelled, hw, hw', hc', hm', hm, howed]
          at dPt dPf dWt dWf dI dO dR dC hgeI hgeWt hgeWf
        num_close h
  · rw [if_neg hcond]
    constructor
    · exact hs2
    · cases g
      · simp only [Bool.false_eq_true, if_false] at hcond ⊢
        rcases hwx with ⟨hf, hw⟩ | ⟨hf, hw, hm⟩
        · simp [mPend, mWok, mInGet, mOwed, mRecvDone, mCanc, Wait.inGet, Wait.isCancelled, hw, hw', hc', hm', howed]
            at dPt dPf dWt dWf dI dO dR dC hgeI hgeWt hgeWf
          num_close h
        · have hr := hfull (by
            cases hfu : s.full
            · exfalso; apply hcond; exact ⟨(fun e => by rw [hf] at e; cases e), (by simp [hfu])⟩
            · rfl)
          simp [mPend, mWok, mInGet, mOwed, mRecvDone, mCanc, Wait.inGet, Wait.isCancelled, hw, hw', hc', hm', hm, howed]
            at dPt dPf dWt dWf dI dO dR dC hgeI hgeWt hgeWf
          num_close h
      · simp only [if_true] at hcond ⊢
        rcases hwx with ⟨hf, hw⟩ | ⟨hf, hw, hm⟩
        · simp [mPend, mWok, mInGet, mOwed, mRecvDone, mCanc, Wait.inGet, Wait.isCancelled, hw, hw', hc', hm', howed]
            at dPt dPf dWt dWf dI dO dR dC hgeI hgeWt hgeWf
          num_close h
        · have hr := hempty (by
            cases he : s.queue.isEmpty
            · exfalso; apply hcond; exact ⟨(fun e => by rw [hf] at e; cases e), (by simp [he])⟩
            · rfl)
          have htw0 : (List.takeWhile Item.isData s.queue).length = 0 := by
            have := (List.takeWhile_sublist Item.isData (l := s.queue)).length_le; omega
          simp [mPend, mWok, mInGet, mOwed, mRecvDone, mCanc, Wait.inGet, Wait.isCancelled, hw, hw', hc', hm', hm, howed]
            at dPt dPf dWt dWf dI dO dR dC hgeI hgeWt hgeWf
          num_close h

theorem full_iff (s : Sys) : (s.full = true → 0 < s.maxsize ∧ s.maxsize ≤ s.queue.length) ∧
    (s.full = false → s.maxsize = 0 ∨ s.queue.length < s.maxsize) := by
  constructor
  · intro hf; simpa [Sys.full] using hf
  · intro hf; simp [Sys.full] at hf; omega

/-- a sender / flusher about to put (ready after its closed check, or woken from a putter) -/
theorem inv_putStep {s : Sys} {t : Nat} {x : Task} (h : Inv s) (hx : s.tasks[t]? = some x)
    (hwx : x.wait = .ready ∨ x.wait = .blocked false .woken) : Inv (putStep s t x) := by
  unfold putStep
  split
  · rename_i m nx r cl hcode
    unfold putOrBlock
    have hfr : mFresh x = 0 := by simp [mFresh, hcode]
    cases hfull : s.full
    · simp only [Bool.false_eq_true, if_false]
      refine inv_put h hx hwx rfl rfl hfr (by simp) (by simp [hcode, Code.isFlusher]) (by simp [hcode, Code.nextSeq]) ?_ (by intro e; cases e)
        ((full_iff s).2 hfull)
      intro a b e
      cases e
      simp [hcode, Code.nextSeq, owedOf]
    · simp only [if_true]
      have hf := (full_iff s).1 hfull
      rcases hwx with hw | hw
      · exact inv_block_put h hx hw rfl (by simp [hcode, Code.nextSeq]) (by simp [hcode, owedOf])
          (by simp [hcode, Code.isFlusher]) (by simp [hcode, Code.isReceiver]) rfl hfr hf
      · have := inv_reblock (x' := { x with wait := .blocked false .pending, code := .sender m.running nx (r + 1) cl })
          false h hx hw rfl (by simp [hcode, Code.nextSeq]) (by simp [hcode, owedOf])
          (by simp [hcode, Code.isFlusher]) (by simp [hcode, Code.isReceiver]) rfl (by simpa using hf)
        exact this
  · rename_i r hcode
    unfold putOrBlock
    have hfr : mFresh x = 0 := by simp [mFresh, hcode]
    cases hfull : s.full
    · simp only [Bool.false_eq_true, if_false]
      refine inv_put h hx hwx rfl rfl hfr (by simp) (by simp [hcode, Code.isFlusher]) (by simp [hcode, Code.nextSeq]) ?_ ?_
        ((full_iff s).2 hfull)
      · intro a b e; cases e
      · intro _; simp [hcode, owedOf]
    · simp only [if_true]
      have hf := (full_iff s).1 hfull
      rcases hwx with hw | hw
      · exact inv_block_put h hx hw rfl (by simp [hcode, Code.nextSeq]) (by simp [hcode, owedOf])
          (by simp [hcode, Code.isFlusher]) (by simp [hcode, Code.isReceiver]) rfl hfr hf
      · have := inv_reblock (x' := { x with wait := .blocked false .pending, code := .flusher (some (r + 1)) })
          false h hx hw rfl (by simp [hcode, Code.nextSeq]) (by simp [hcode, owedOf])
          (by simp [hcode, Code.isFlusher]) (by simp [hcode, Code.isReceiver]) rfl (by simpa using hf)
        exact this
  · exact h

/-- a receiver takes the head of a non-empty queue -/
theorem inv_takeItem {s : Sys} {t : Nat} {x : Task} {it : Item} {rest : List Item} (counted : Bool) (h : Inv s)
    (hx : s.tasks[t]? = some x) (hwx : x.wait = if counted then .blocked true .woken else .ready)
    (hq : s.queue = it :: rest) (hrc : x.code.isReceiver = true)
    (hnd : counted = false → ind s.closed = 1 → s.waiting < s.queue.length) :
    Inv (takeItem s t x it rest counted) := by
  have hun : s.unfinished ≠ 0 := by
    have := h.nm.unfin; simp only [abs] at this; rw [this, hq]; simp
  unfold takeItem
  simp only [hun, if_false]
  cases it with
  | flush =>
    exact inv_take (x' := { x with wait := .done, out := .ok }) (rl' := s.recvLog) counted h hx hwx hq rfl rfl hrc
      (fun _ => ⟨rfl, rfl⟩) (fun a b e => by cases e) hnd
  | data a b =>
    exact inv_take (x' := { x with wait := .ready }) (rl' := s.recvLog ++ [(t, .data a b)]) counted h hx hwx hq rfl rfl hrc
      (fun e => by cases e) (fun _ _ _ => ⟨rfl, rfl⟩) hnd

theorem inv_finish' {s : Sys} {t : Nat} {x : Task} (h : Inv s) (hx : s.tasks[t]? = some x) (hw : x.wait = .ready)
    (o : Outcome) (hfresh : mFresh x = 0 ∨ ind s.flushed = 1) (howed : owedOf x.code = 0)
    (hrecv : x.code.isReceiver = true → s.cancels = 0 → ind s.closed = 1 ∧ s.queue.length ≤ s.waiting) :
    Inv (finish s t x o) :=
  inv_finish (x' := { x with wait := .done, out := o }) h hx hw rfl rfl rfl hfresh howed hrecv

/-- **every atomic action preserves the invariant** -/
theorem micro_inv {s : Sys} (h : Inv s) (t : Nat) : Inv (micro s t) := by
  unfold micro
  cases hx : s.tasks[t]? with
  | none => exact h
  | some x =>
    simp only
    cases hw : x.wait with
    | done => exact h
    | blocked g f =>
      cases f with
      | pending => exact h
      | cancelled => exact inv_cancel_branch g .cancelled h hx (Or.inl ⟨rfl, hw⟩)
      | woken =>
        simp only
        by_cases hm : x.mustCancel = true
        · rw [if_pos hm]; exact inv_cancel_branch g .woken h hx (Or.inr ⟨rfl, hw, hm⟩)
        · rw [if_neg hm]
          cases g with
          | false => simpa using inv_putStep h hx (Or.inr hw)
          | true =>
            simp only [if_true]
            have hrc : x.code.isReceiver = true := h.st.getRecv t x hx (by rw [hw]; rfl)
            cases hq : s.queue with
            | nil =>
              dsimp only
              exact inv_reblock (x' := { x with wait := .blocked true .pending }) true h hx hw rfl rfl rfl rfl rfl rfl (by simpa using hq)
            | cons it rest =>
              exact inv_takeItem true h hx (by simpa using hw) hq hrc (by intro e; cases e)
    | ready =>
      simp only
      by_cases hm : x.mustCancel = true
      · rw [if_pos hm]
        have hnfl : x.code.isFlusher = false := by
          cases hfl : x.code.isFlusher
          · rfl
          · have := (h.st.fl t x hx hfl).1; simp [mCanc, hm] at this
        have hcp : s.cancels ≠ 0 := by
          intro hc
          have := h.nm.noCanc (by simpa [abs] using hc)
          have h2 := tsum_ge (f := mCanc) hx
          simp [abs, mCanc, hm] at this h2
          omega
        exact inv_finish' h hx hw _ (Or.inl (by simp [mFresh, hm]))
          (by cases hcode : x.code <;> simp [hcode, owedOf, Code.isFlusher] at hnfl ⊢)
          (fun _ hc => absurd hc hcp)
      · rw [if_neg hm]
        have hmf : x.mustCancel = false := by simpa using hm
        cases hcode : x.code with
        | sender m nx r cl =>
          simp only
          have hfin : ∀ o, Inv (finish s t x o) := fun o =>
            inv_finish' h hx hw o (Or.inl (by simp [mFresh, hcode])) (by simp [hcode, owedOf])
              (by intro hr; simp [hcode, Code.isReceiver] at hr)
          have key : ∀ c : Bool, Inv (if (c && s.closed) = true then finish s t x .chanClosed
              else if r = 0 then (if cl = true then doClose (finish s t x .ok) else finish s t x .ok) else putStep s t x) := by
            intro c
            by_cases hcc : (c && s.closed) = true
            · rw [if_pos hcc]; exact hfin _
            · rw [if_neg hcc]
              by_cases hr : r = 0
              · rw [if_pos hr]
                cases cl
                · simpa using hfin .ok
                · simpa using inv_close (hfin .ok)
              · rw [if_neg hr]; exact inv_putStep h hx (Or.inl hw)
          cases m <;> exact key _
        | receiver tm =>
          simp only
          split
          · rename_i hdone
            simp only [Bool.and_eq_true, decide_eq_true_eq] at hdone
            exact inv_finish' h hx hw _ (Or.inl (by simp [mFresh, hcode])) (by simp [hcode, owedOf])
              (fun _ _ => ⟨by rw [hdone.1]; rfl, hdone.2⟩)
          · rename_i hnd
            have hnd' : ind s.closed = 1 → s.waiting < s.queue.length := by
              intro hc
              cases hcl : s.closed
              · rw [hcl] at hc; simp at hc
              · simp [hcl] at hnd; omega
            cases hq : s.queue with
            | nil =>
              dsimp only
              exact inv_block_get (x' := { x with wait := .blocked true .pending, code := .receiver tm }) h hx hw rfl hcode.symm rfl hmf
                (by simp [hcode, Code.isReceiver]) hq hnd'
            | cons it rest =>
              exact inv_takeItem false h hx (by simpa using hw) hq (by simp [hcode, Code.isReceiver]) (fun _ => hnd')
        | closer =>
          simp only
          exact inv_close (inv_finish' h hx hw _ (Or.inl (by simp [mFresh, hcode])) (by simp [hcode, owedOf])
            (by intro hr; simp [hcode, Code.isReceiver] at hr))
        | canceller tg =>
          simp only
          exact inv_cancel_task (inv_finish' h hx hw _ (Or.inl (by simp [mFresh, hcode])) (by simp [hcode, owedOf])
            (by intro hr; simp [hcode, Code.isReceiver] at hr)) tg false
        | flusher r =>
          cases r with
          | none =>
            simp only
            split
            · rename_i hfl
              exact inv_finish' h hx hw _ (Or.inr (by rw [hfl]; rfl)) (by simp [hcode, owedOf])
                (by intro hr; simp [hcode, Code.isReceiver] at hr)
            · rename_i hfl
              exact inv_flush_compute (x' := { x with code := .flusher (some (s.waiting - s.queue.length)), wait := .ready }) h hx hw hcode hmf
                rfl rfl hmf (by simpa using hfl)
          | some k =>
            cases k with
            | zero =>
              simp only
              exact inv_finish' h hx hw _ (Or.inl (by simp [mFresh, hcode])) (by simp [hcode, owedOf])
                (by intro hr; simp [hcode, Code.isReceiver] at hr)
            | succ k =>
              simp only
              exact inv_putStep h hx (Or.inl hw)

theorem runTask_inv {s : Sys} (h : Inv s) (fuel t : Nat) : Inv (runTask fuel s t) := by
  induction fuel generalizing s with
  | zero => exact h
  | succ n ih =>
    simp only [runTask]
    split
    · exact ih (micro_inv h t)
    · exact micro_inv h t

/-- **every scheduler step preserves the invariant** -/
theorem step_inv {s : Sys} (h : Inv s) (c : Choice) : Inv (step s c) := by
  unfold step
  split
  · cases c with
    | run t => exact runTask_inv h _ t
    | fire t => exact inv_cancel_task h t true
  · exact h

theorem run_inv {s : Sys} (h : Inv s) (cs : List Choice) : Inv (run s cs) := by
  induction cs generalizing s with
  | nil => exact h
  | cons c cs ih => exact ih (step_inv h c)

theorem tsum_eq_zero_of_forall {f : Task → Nat} {ts : List Task} (h : ∀ x ∈ ts, f x = 0) : tsum f ts = 0 := by
  induction ts with
  | nil => rfl
  | cons y ys ih =>
    simp only [tsum]
    rw [h y List.mem_cons_self, ih (fun x hx => h x (List.mem_cons_of_mem _ hx))]

theorem toTask_wait (p : Prog) : p.toTask.wait = .ready ∧ p.toTask.mustCancel = false ∧ p.toTask.code.isFlusher = false := by
  cases p <;> simp [Prog.toTask, Code.isFlusher]

/-- the initial state of every configuration satisfies the invariant -/
theorem init_inv (maxsize : Nat) (progs : List Prog) : Inv (init maxsize progs) := by
  have hall : ∀ x ∈ (progs.map Prog.toTask), x.wait = .ready ∧ x.mustCancel = false ∧ x.code.isFlusher = false := by
    intro x hx
    obtain ⟨p, _, rfl⟩ := List.mem_map.mp hx
    exact toTask_wait p
  have z : ∀ f : Task → Nat, (∀ x : Task, x.wait = .ready → x.mustCancel = false → x.code.isFlusher = false → f x = 0) →
      tsum f (progs.map Prog.toTask) = 0 := by
    intro f hf
    exact tsum_eq_zero_of_forall (fun x hx => hf x (hall x hx).1 (hall x hx).2.1 (hall x hx).2.2)
  have hget : ∀ (t : Nat) (x : Task), (progs.map Prog.toTask)[t]? = some x → x ∈ progs.map Prog.toTask :=
    fun t x hx => List.mem_of_getElem? hx
  constructor
  · refine ⟨rfl, ?_, List.Pairwise.nil, ?_, by simp [init], ?_, ?_⟩
    · intro a b hab; simp [init] at hab
    · intro g t x hx hw
      have := (hall x (hget t x hx)).1
      rw [this] at hw; cases hw
    · intro t x hx hi
      have := (hall x (hget t x hx)).1
      rw [this] at hi; simp [Wait.inGet] at hi
    · intro t x hx hf
      have := (hall x (hget t x hx)).2.2
      rw [this] at hf; cases hf
  · have z1 := z (mPend true) (by intro x hw _ _; simp [mPend, hw])
    have z2 := z (mPend false) (by intro x hw _ _; simp [mPend, hw])
    have z3 := z (mWok true) (by intro x hw _ _; simp [mWok, hw])
    have z4 := z (mWok false) (by intro x hw _ _; simp [mWok, hw])
    have z5 := z mInGet (by intro x hw _ _; simp [mInGet, Wait.inGet, hw])
    have z6 := z mOwed (by intro x hw _ hf; cases hc : x.code <;> simp [mOwed, hw, owedOf, hc, Code.isFlusher] at hf ⊢)
    have z7 := z mFresh (by intro x hw _ hf; cases hc : x.code <;> simp [mFresh, hc, Code.isFlusher] at hf ⊢)
    have z8 := z mRecvDone (by intro x hw _ _; simp [mRecvDone, hw])
    have z9 := z mCanc (by intro x hw hm _; simp [mCanc, Wait.isCancelled, hw, hm])
    constructor <;> simp [abs, init, z1, z2, z3, z4, z5, z6, z7, z8, z9]

end Bp.Chan
