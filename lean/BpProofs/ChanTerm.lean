import BpProofs.ChanAux
/-
  Termination of the AsyncChannel model: a measure `mu : Sys → Nat` that every enabled scheduler
  step strictly decreases in every reachable state.  Hence every schedule of enabled choices is
  finite (no fairness assumption is needed for "eventually quiescent").
  (Property statements live in Props/C12Term.lean.)

  The measure is a weighted sum:
    * per live task: 1 if it holds a ready handle (ready / woken / cancelled future), 0 if it is
      suspended on a pending future; +1 for a `_must_cancel` flag; plus what its program can
      still do: 4 per item still to put (sender, flusher), 3 for a future `close()`, 2 for a
      future `cancel()`, 2 for an unfired `wait_for` timer, 1 for a flusher that has not started;
    * 2 per queued item;
    * 4 per live receiver while the channel is not flushed (the sentinels the flush may owe).
-/
namespace Bp.Chan

/-! ### the measure -/

def wWait : Wait → Nat
  | .ready => 1
  | .blocked _ .pending => 0
  | .blocked _ .woken => 1
  | .blocked _ .cancelled => 1
  | .done => 0

def wCode (timedOut : Bool) : Code → Nat
  | .sender _ _ r cl => 4 * r + (if cl then 3 else 0)
  | .receiver _ => if timedOut then 0 else 2
  | .closer => 3
  | .canceller _ => 2
  | .flusher none => 1
  | .flusher (some r) => 4 * r

/-- weight of one task -/
def wt (x : Task) : Nat :=
  if x.wait = .done then 0 else wWait x.wait + (if x.mustCancel then 1 else 0) + wCode x.timedOut x.code

/-- a receiver that has not finished -/
def mNR (x : Task) : Nat := if x.code.isReceiver = true ∧ x.wait ≠ .done then 1 else 0

/-- **the termination measure** -/
def mu (s : Sys) : Nat :=
  tsum wt s.tasks + 2 * s.queue.length + (if s.flushed then 0 else 4 * tsum mNR s.tasks)

/-! ### the extra invariant: only a task with something to put is ever inside `Queue.put()` -/

def canPut : Code → Bool
  | .sender _ _ (_ + 1) _ => true
  | .flusher (some (_ + 1)) => true
  | _ => false

def Wait.inPut : Wait → Bool
  | .blocked false _ => true
  | _ => false

def POk (ts : List Task) : Prop :=
  ∀ (t : Nat) (x : Task), ts[t]? = some x → x.wait.inPut = true → canPut x.code = true

def PutOk (s : Sys) : Prop := POk s.tasks

/-- the reachable-state hypothesis of the termination theorems -/
structure TInv (s : Sys) : Prop where
  inv : Inv s
  put : PutOk s

/-! ### generic facts -/

theorem tsum_le_of {f g : Task → Nat} {ts : List Task}
    (h : ∀ (t : Nat) (x : Task), ts[t]? = some x → f x ≤ g x) : tsum f ts ≤ tsum g ts := by
  induction ts with
  | nil => simp [tsum]
  | cons y ys ih =>
    have h0 := h 0 y (by simp)
    have := ih (fun t x hx => h (t + 1) x (by simpa using hx))
    simp only [tsum]; omega

theorem pOk_set {ts : List Task} {t : Nat} {x' : Task} (h : POk ts)
    (hx' : x'.wait.inPut = true → canPut x'.code = true) : POk (ts.set t x') := by
  intro u y hy hw
  by_cases hut : u = t
  · subst hut
    have hl : u < ts.length := by
      rcases Nat.lt_or_ge u ts.length with hl | hl
      · exact hl
      · rw [List.getElem?_eq_none (by simpa using hl)] at hy; cases hy
    rw [List.getElem?_set_self hl] at hy
    cases hy
    exact hx' hw
  · rw [List.getElem?_set_ne (fun e => hut e.symm)] at hy
    exact h u y hy hw

theorem pOk_append {ts : List Task} {y : Task} (h : POk ts) (hy : y.wait.inPut = false) : POk (ts ++ [y]) := by
  intro u z hz hw
  rcases Nat.lt_or_ge u ts.length with hl | hl
  · rw [List.getElem?_append_left hl] at hz; exact h u z hz hw
  · rw [List.getElem?_append_right hl] at hz
    cases hk : u - ts.length with
    | zero => rw [hk] at hz; simp at hz; subst hz; rw [hy] at hw; cases hw
    | succ k => rw [hk] at hz; simp at hz

theorem pOk_wakeNext (g : Bool) (dq : List Nat) {ts : List Task} (h : POk ts) : POk (wakeNext g dq ts).2 := by
  obtain ⟨_, hB⟩ := wakeNext_spec g dq ts
  rcases hB with ⟨h1, _⟩ | ⟨u, y, _, hy, hp, h4, _⟩
  · rw [h1]; exact h
  · rw [h4]
    apply pOk_set h
    intro hw
    have := h u y hy (by rw [hp]; cases g <;> simp_all [Wait.inPut])
    exact this

theorem putOk_wake (g : Bool) {s : Sys} (h : PutOk s) : PutOk (wake g s) := by
  unfold PutOk; rw [wake_tasks]; exact pOk_wakeNext g _ h

/-! ### effect of the primitives on the measure -/

theorem wakeNext_wt (g : Bool) (dq : List Nat) (ts : List Task) :
    tsum wt (wakeNext g dq ts).2 ≤ tsum wt ts + 1 ∧ tsum mNR (wakeNext g dq ts).2 = tsum mNR ts := by
  obtain ⟨_, hB⟩ := wakeNext_spec g dq ts
  rcases hB with ⟨h1, _⟩ | ⟨u, y, _, hy, hp, h4, _⟩
  · rw [h1]; exact ⟨by omega, rfl⟩
  · rw [h4]
    have a := tsum_set wt { y with wait := .blocked g .woken } hy
    have b := tsum_set mNR { y with wait := .blocked g .woken } hy
    have e1 : wt { y with wait := .blocked g .woken } = wt y + 1 := by
      simp [wt, hp, wWait]; omega
    have e2 : mNR { y with wait := .blocked g .woken } = mNR y := by simp [mNR, hp]
    rw [e1] at a; rw [e2] at b
    exact ⟨by omega, by omega⟩

theorem mu_wake (g : Bool) (s : Sys) : mu (wake g s) ≤ mu s + 1 := by
  obtain ⟨a, b⟩ := wakeNext_wt g (s.dq g) s.tasks
  unfold mu
  rw [wake_tasks, wake_queue, wake_flushed, b]
  omega

/-- rewriting task `t` (and the queue), `flushed` unchanged -/
theorem mu_set {s s2 : Sys} {t : Nat} {x : Task} (x' : Task) (hx : s.tasks[t]? = some x)
    (ht : s2.tasks = s.tasks.set t x') (hf : s2.flushed = s.flushed) (hN : mNR x' ≤ mNR x) :
    mu s2 + wt x + 2 * s.queue.length ≤ mu s + wt x' + 2 * s2.queue.length := by
  have a := tsum_set wt x' hx
  have b := tsum_set mNR x' hx
  unfold mu
  rw [ht, hf]
  cases s.flushed <;> simp only [Bool.false_eq_true, if_false, if_true] <;> omega

theorem mu_doClose (s : Sys) : mu (doClose s) = mu s + 2 := by
  unfold mu doClose
  simp only [tsum_append, tsum]
  have e1 : wt flusherTask = 2 := by decide
  have e2 : mNR flusherTask = 0 := by decide
  rw [e1, e2]
  cases s.flushed <;> simp only [Bool.false_eq_true, if_false, if_true] <;> omega

theorem putOk_doClose {s : Sys} (h : PutOk s) : PutOk (doClose s) := by
  unfold PutOk doClose
  exact pOk_append h (by decide)

/-- `mu_set` in goal direction: the rewritten task and the queue together gain at most `k` -/
theorem mu_set_le {s s2 : Sys} {t : Nat} {x : Task} (x' : Task) (k : Nat) (hx : s.tasks[t]? = some x)
    (ht : s2.tasks = s.tasks.set t x') (hf : s2.flushed = s.flushed) (hN : mNR x' ≤ mNR x)
    (hw : wt x' + 2 * s2.queue.length ≤ wt x + 2 * s.queue.length + k) : mu s2 ≤ mu s + k := by
  have := mu_set x' hx ht hf hN; omega

/-- strict version, with `j` to spare (for a following wake-up / `doClose` / `cancel`) -/
theorem mu_set_lt {s s2 : Sys} {t : Nat} {x : Task} (x' : Task) (j : Nat) (hx : s.tasks[t]? = some x)
    (ht : s2.tasks = s.tasks.set t x') (hf : s2.flushed = s.flushed) (hN : mNR x' ≤ mNR x)
    (hw : wt x' + 2 * s2.queue.length + j < wt x + 2 * s.queue.length) : mu s2 + j < mu s := by
  have := mu_set x' hx ht hf hN; omega

theorem mu_set_lt0 {s s2 : Sys} {t : Nat} {x : Task} (x' : Task) (hx : s.tasks[t]? = some x)
    (ht : s2.tasks = s.tasks.set t x') (hf : s2.flushed = s.flushed) (hN : mNR x' ≤ mNR x)
    (hw : wt x' + 2 * s2.queue.length < wt x + 2 * s.queue.length) : mu s2 < mu s := by
  have := mu_set x' hx ht hf hN; omega

theorem mu_cancelTask (s : Sys) (tgt : Nat) (timer : Bool) : mu (cancelTask s tgt timer) ≤ mu s + 1 := by
  unfold cancelTask
  cases hy : s.tasks[tgt]? with
  | none => simp
  | some y =>
    simp only
    split
    · omega
    · cases hw : y.wait with
      | done => simp
      | ready =>
        simp only
        refine mu_set_le _ 1 hy rfl rfl (by simp [mNR, hw]) ?_
        simp only [wt, hw, Sys.setTask]
        cases y.mustCancel <;> cases y.timedOut <;> cases timer <;> cases y.code <;> simp [wCode] <;> (try split) <;> omega
      | blocked g f =>
        cases f with
        | pending =>
          simp only
          refine mu_set_le _ 1 hy rfl rfl (by simp [mNR, hw]) ?_
          simp only [wt, hw, Sys.setTask]
          cases y.mustCancel <;> cases y.timedOut <;> cases timer <;> cases y.code <;> simp [wCode, wWait] <;> (try split) <;> omega
        | woken =>
          simp only
          refine mu_set_le _ 1 hy rfl rfl (by simp [mNR, hw]) ?_
          simp only [wt, hw, Sys.setTask]
          cases y.mustCancel <;> cases y.timedOut <;> cases timer <;> cases y.code <;> simp [wCode] <;> (try split) <;> omega
        | cancelled =>
          simp only
          refine mu_set_le _ 1 hy rfl rfl (by simp [mNR, hw]) ?_
          simp only [wt, hw, Sys.setTask]
          cases y.mustCancel <;> cases y.timedOut <;> cases timer <;> cases y.code <;> simp [wCode] <;> (try split) <;> omega

theorem putOk_cancelTask {s : Sys} (h : PutOk s) (tgt : Nat) (timer : Bool) : PutOk (cancelTask s tgt timer) := by
  unfold cancelTask
  cases hy : s.tasks[tgt]? with
  | none => exact h
  | some y =>
    simp only
    split
    · exact h
    · have hc := h tgt y hy
      cases hw : y.wait with
      | done => exact h
      | ready => exact pOk_set h (by simp [Wait.inPut])
      | blocked g f =>
        rw [hw] at hc
        cases f with
        | pending => exact pOk_set h (by cases g <;> simp_all [Wait.inPut])
        | woken => exact pOk_set h (by cases g <;> simp_all [Wait.inPut])
        | cancelled => exact pOk_set h (by cases g <;> simp_all [Wait.inPut])

/-- a `wait_for` timer fires at most once: firing it pays for the cancellation it causes -/
theorem mu_fire {s : Sys} {t : Nat} (hl : timerLive s t = true) : mu (cancelTask s t true) < mu s := by
  unfold timerLive at hl
  unfold cancelTask
  cases hy : s.tasks[t]? with
  | none => simp [hy] at hl
  | some y =>
    simp only [hy, Bool.and_eq_true, Bool.not_eq_true'] at hl
    obtain ⟨⟨hc, hw⟩, hto⟩ := hl
    have hcode : y.code = .receiver true := by
      cases hcd : y.code with
      | receiver tm => cases tm <;> simp_all
      | _ => simp_all
    simp only [hcode, Code.isFlusher, Bool.false_eq_true, if_false]
    cases hwt : y.wait with
    | done => simp [hwt] at hw
    | ready => simp [hwt] at hw
    | blocked g f =>
      cases f <;> simp only <;>
        refine mu_set_lt0 _ hy rfl rfl (by simp [mNR, hwt, hcode]) ?_ <;>
        simp only [wt, hwt, Sys.setTask, hcode, hto] <;>
        cases y.mustCancel <;> simp [wCode, wWait]

/-! ### the composite actions of `micro` -/

theorem mu_congr {s s' : Sys} (ht : s'.tasks = s.tasks) (hq : s'.queue = s.queue) (hf : s'.flushed = s.flushed) :
    mu s' = mu s := by
  unfold mu; rw [ht, hq, hf]

theorem term_finish {s : Sys} {t : Nat} {x : Task} (h : PutOk s) (hx : s.tasks[t]? = some x) (o : Outcome) :
    PutOk (finish s t x o) ∧ mu (finish s t x o) + wt x ≤ mu s := by
  constructor
  · exact pOk_set h (by simp [Wait.inPut])
  · have := mu_set (s2 := finish s t x o) { x with wait := .done, out := o } hx rfl rfl (by simp [mNR])
    simp only [wt, finish, Sys.setTask, if_true] at this ⊢
    omega

theorem term_cancelBranch {s : Sys} {t : Nat} {x : Task} (g : Bool) (f : Fut) (h : PutOk s) (hx : s.tasks[t]? = some x)
    (hwx : (f = .cancelled ∧ x.wait = .blocked g .cancelled) ∨
           (f = .woken ∧ x.wait = .blocked g .woken ∧ x.mustCancel = true)) :
    PutOk (cancelBranch s t x g f) ∧ mu (cancelBranch s t x g f) < mu s := by
  obtain ⟨p1, m1⟩ := term_finish h hx (cancelOutcome x)
  have key : ∀ (c : Prop) [Decidable c] (s2 : Sys), s2.tasks = (finish s t x (cancelOutcome x)).tasks →
      s2.queue = s.queue → s2.flushed = s.flushed →
      PutOk (if f ≠ .cancelled ∧ c then wake g s2 else s2) ∧ mu (if f ≠ .cancelled ∧ c then wake g s2 else s2) < mu s := by
    intro c _ s2 ht hq hf
    have p2 : PutOk s2 := by unfold PutOk; rw [ht]; exact p1
    have m2 : mu s2 = mu (finish s t x (cancelOutcome x)) := mu_congr ht hq hf
    rcases hwx with ⟨hf', hw⟩ | ⟨hf', hw, hm⟩
    · subst hf'
      simp only [ne_eq, not_true_eq_false, false_and, if_false]
      refine ⟨p2, ?_⟩
      have : 1 ≤ wt x := by simp [wt, hw, wWait]; omega
      omega
    · have hge : 2 ≤ wt x := by simp [wt, hw, wWait, hm]
      by_cases hcond : f ≠ .cancelled ∧ c
      · rw [if_pos hcond]
        exact ⟨putOk_wake g p2, by have := mu_wake g s2; omega⟩
      · rw [if_neg hcond]
        exact ⟨p2, by omega⟩
  unfold cancelBranch
  cases g
  · exact key _ _ rfl rfl rfl
  · exact key _ _ rfl rfl rfl

theorem canPut_cases {c : Code} (h : canPut c = true) :
    (∃ m nx r cl, c = .sender m nx (r + 1) cl) ∨ (∃ r, c = .flusher (some (r + 1))) := by
  cases c with
  | sender m nx r cl => cases r with
    | zero => simp [canPut] at h
    | succ r => exact Or.inl ⟨m, nx, r, cl, rfl⟩
  | flusher r => cases r with
    | none => simp [canPut] at h
    | some r => cases r with
      | zero => simp [canPut] at h
      | succ r => exact Or.inr ⟨r, rfl⟩
  | receiver _ => simp [canPut] at h
  | closer => simp [canPut] at h
  | canceller _ => simp [canPut] at h

/-- `putOrBlock` for a task whose blocked code keeps what it owes and whose done code owes one item less -/
theorem term_putOrBlock {s : Sys} {t : Nat} {x : Task} (cB cD : Code) (it : Item) (h : PutOk s) (hx : s.tasks[t]? = some x)
    (hwx : x.wait = .ready ∨ x.wait = .blocked false .woken)
    (hB : canPut cB = true) (hcB : ∀ b, wCode b cB = wCode b x.code) (hcD : ∀ b, wCode b cD + 4 = wCode b x.code)
    (hrB : cB.isReceiver = x.code.isReceiver) (hrD : cD.isReceiver = x.code.isReceiver) :
    PutOk (putOrBlock s t x cB cD it) ∧ mu (putOrBlock s t x cB cD it) < mu s := by
  have hw1 : wWait x.wait = 1 ∧ x.wait ≠ .done := by rcases hwx with hw | hw <;> simp [hw, wWait]
  have e0 : wWait (.blocked false .pending) = 0 := rfl
  have e1 : wWait .ready = 1 := rfl
  unfold putOrBlock
  split
  · constructor
    · exact pOk_set h (fun _ => hB)
    · refine mu_set_lt0 _ hx rfl rfl (by simp [mNR, hrB, hw1.2]) ?_
      simp only [wt, hw1.2, if_false, hw1.1, hcB, e0, Sys.setTask]
      simp
  · unfold putNowait
    constructor
    · apply putOk_wake
      exact pOk_set h (by simp [Wait.inPut])
    · refine Nat.lt_of_le_of_lt (mu_wake true _) ?_
      refine mu_set_lt _ 1 hx rfl rfl (by simp [mNR, hrD, hw1.2]) ?_
      have := hcD x.timedOut
      simp only [wt, hw1.2, if_false, hw1.1, e1, Sys.setTask, List.length_append, List.length_singleton]
      simp; omega

theorem term_putStep {s : Sys} {t : Nat} {x : Task} (h : PutOk s) (hx : s.tasks[t]? = some x)
    (hwx : x.wait = .ready ∨ x.wait = .blocked false .woken) (hc : canPut x.code = true) :
    PutOk (putStep s t x) ∧ mu (putStep s t x) < mu s := by
  unfold putStep
  rcases canPut_cases hc with ⟨m, nx, r, cl, hcode⟩ | ⟨r, hcode⟩
  · rw [hcode]
    simp only
    exact term_putOrBlock _ _ _ h hx hwx rfl (by intro b; simp [hcode, wCode]) (by intro b; simp [hcode, wCode]; omega)
      (by simp [hcode, Code.isReceiver]) (by simp [hcode, Code.isReceiver])
  · rw [hcode]
    simp only
    exact term_putOrBlock _ _ _ h hx hwx rfl (by intro b; simp [hcode, wCode]) (by intro b; simp [hcode, wCode]; omega)
      (by simp [hcode, Code.isReceiver]) (by simp [hcode, Code.isReceiver])

/-- a receiver (ready, or woken from a getter) takes the head of the queue -/
theorem term_takeItem {s : Sys} {t : Nat} {x : Task} {it : Item} {rest : List Item} (counted : Bool) (h : PutOk s)
    (hx : s.tasks[t]? = some x) (hw1 : wWait x.wait = 1 ∧ x.wait ≠ .done) (hq : s.queue = it :: rest) :
    PutOk (takeItem s t x it rest counted) ∧ mu (takeItem s t x it rest counted) < mu s := by
  have e1 : wWait .ready = 1 := rfl
  have hl : s.queue.length = rest.length + 1 := by rw [hq]; rfl
  unfold takeItem popQ
  simp only
  split
  · constructor
    · exact putOk_wake _ (pOk_set h (by simp [Wait.inPut]))
    · refine Nat.lt_of_le_of_lt (mu_wake false _) ?_
      refine mu_set_lt _ 1 hx rfl rfl (by simp [mNR]) ?_
      simp only [wt, hw1.2, if_false, hw1.1, if_true, hl]
      omega
  · split
    · constructor
      · exact putOk_wake _ (pOk_set h (by simp [Wait.inPut]))
      · refine Nat.lt_of_le_of_lt (mu_wake false _) ?_
        refine mu_set_lt _ 1 hx rfl rfl (by simp [mNR]) ?_
        simp only [wt, hw1.2, if_false, hw1.1, if_true, hl]
        omega
    · constructor
      · exact putOk_wake _ (pOk_set h (by simp [Wait.inPut]))
      · refine Nat.lt_of_le_of_lt (mu_wake false _) ?_
        refine mu_set_lt _ 1 hx rfl rfl (by simp [mNR, hw1.2]) ?_
        simp only [wt, hw1.2, if_false, hw1.1, e1, hl]
        simp only [reduceCtorEq, if_false]
        omega

theorem inGet_le_NR {s : Sys} (hI : Inv s) : s.waiting ≤ tsum mNR s.tasks := by
  have e := hI.nm.waitingEq
  simp only [abs] at e
  rw [e]
  apply tsum_le_of
  intro t x hx
  unfold mInGet mNR
  by_cases hi : x.wait.inGet = true
  · have hr := hI.st.getRecv t x hx hi
    have : x.wait ≠ .done := by intro hd; rw [hd] at hi; simp [Wait.inGet] at hi
    simp [hi, hr, this]
  · simp [hi]

/-- `_flush_queue` computes how many sentinels it owes: at most one per live receiver -/
theorem term_flush {s s2 : Sys} {t : Nat} {x : Task} (hI : Inv s) (hx : s.tasks[t]? = some x) (hw : x.wait = .ready)
    (hcode : x.code = .flusher none) (hfl : s.flushed = false)
    (ht : s2.tasks = s.tasks.set t { x with code := .flusher (some (s.waiting - s.queue.length)), wait := .ready })
    (hq : s2.queue = s.queue) (hf : s2.flushed = true) : mu s2 < mu s := by
  have a := tsum_set wt { x with code := .flusher (some (s.waiting - s.queue.length)), wait := .ready } hx
  have b := tsum_set mNR { x with code := .flusher (some (s.waiting - s.queue.length)), wait := .ready } hx
  have c := inGet_le_NR hI
  have e1 : mNR { x with code := .flusher (some (s.waiting - s.queue.length)), wait := .ready } = 0 := by simp [mNR, Code.isReceiver]
  have e2 : mNR x = 0 := by simp [mNR, hcode, Code.isReceiver]
  have e3 : wt { x with code := .flusher (some (s.waiting - s.queue.length)), wait := .ready } + 1 = wt x + 4 * (s.waiting - s.queue.length) := by
    simp [wt, hw, hcode, wCode, wWait]; omega
  unfold mu
  rw [ht, hq, hf, hfl]
  simp only [Bool.false_eq_true, if_false, if_true]
  omega

/-- **every atomic action of a runnable task strictly decreases the measure** (and keeps `PutOk`) -/
theorem micro_term {s : Sys} (h : TInv s) (t : Nat) (hr : runnable s t = true) :
    PutOk (micro s t) ∧ mu (micro s t) < mu s := by
  have hP := h.put
  unfold runnable waitOf at hr
  unfold micro
  cases hx : s.tasks[t]? with
  | none => simp [hx] at hr
  | some x =>
    simp only [hx, Option.map_some] at hr
    simp only
    cases hw : x.wait with
    | done => simp [hw] at hr
    | blocked g f =>
      cases f with
      | pending => simp [hw] at hr
      | cancelled => exact term_cancelBranch g .cancelled hP hx (Or.inl ⟨rfl, hw⟩)
      | woken =>
        simp only
        by_cases hm : x.mustCancel = true
        · rw [if_pos hm]; exact term_cancelBranch g .woken hP hx (Or.inr ⟨rfl, hw, hm⟩)
        · rw [if_neg hm]
          cases g with
          | false =>
            simp only [Bool.false_eq_true, if_false]
            exact term_putStep hP hx (Or.inr hw) (hP t x hx (by simp [hw, Wait.inPut]))
          | true =>
            simp only [if_true]
            cases hq : s.queue with
            | nil =>
              dsimp only
              constructor
              · exact pOk_set hP (by simp [Wait.inPut])
              · refine mu_set_lt0 _ hx rfl rfl (by simp [mNR, hw]) ?_
                simp [wt, hw, wWait, Sys.setTask]
            | cons it rest => exact term_takeItem true hP hx (by simp [hw, wWait]) hq
    | ready =>
      simp only
      have hfin : ∀ o, PutOk (finish s t x o) ∧ mu (finish s t x o) + wt x ≤ mu s := fun o => term_finish hP hx o
      have hwt : wt x = 1 + (if x.mustCancel then 1 else 0) + wCode x.timedOut x.code := by simp [wt, hw, wWait]
      by_cases hm : x.mustCancel = true
      · rw [if_pos hm]
        exact ⟨(hfin _).1, by have := (hfin (cancelOutcome x)).2; omega⟩
      · rw [if_neg hm]
        cases hcode : x.code with
        | sender m nx r cl =>
          simp only
          have key : ∀ c : Bool, (PutOk (if (c && s.closed) = true then finish s t x .chanClosed
              else if r = 0 then (if cl = true then doClose (finish s t x .ok) else finish s t x .ok) else putStep s t x)) ∧
              mu (if (c && s.closed) = true then finish s t x .chanClosed
              else if r = 0 then (if cl = true then doClose (finish s t x .ok) else finish s t x .ok) else putStep s t x) < mu s := by
            intro c
            by_cases hcc : (c && s.closed) = true
            · rw [if_pos hcc]; exact ⟨(hfin _).1, by have := (hfin .chanClosed).2; omega⟩
            · rw [if_neg hcc]
              by_cases hr0 : r = 0
              · rw [if_pos hr0]
                cases cl
                · simp only [Bool.false_eq_true, if_false]
                  exact ⟨(hfin _).1, by have := (hfin .ok).2; omega⟩
                · simp only [if_true]
                  refine ⟨putOk_doClose (hfin _).1, ?_⟩
                  have := (hfin .ok).2
                  rw [mu_doClose]
                  simp [hcode, wCode] at hwt
                  omega
              · rw [if_neg hr0]
                exact term_putStep hP hx (Or.inl hw) (by
                  rw [hcode]; cases r with
                  | zero => exact absurd rfl hr0
                  | succ r => rfl)
          cases m <;> exact key _
        | receiver tm =>
          simp only
          split
          · exact ⟨(hfin _).1, by have := (hfin .ok).2; omega⟩
          · cases hq : s.queue with
            | nil =>
              dsimp only
              constructor
              · exact pOk_set hP (by simp [Wait.inPut])
              · refine mu_set_lt0 _ hx rfl rfl (by simp [mNR, hcode, hw]) ?_
                simp [wt, hw, wWait, Sys.setTask, hcode]
            | cons it rest => exact term_takeItem false hP hx (by simp [hw, wWait]) hq
        | closer =>
          simp only
          refine ⟨putOk_doClose (hfin _).1, ?_⟩
          have := (hfin .ok).2
          rw [mu_doClose]
          simp [hcode, wCode] at hwt
          omega
        | canceller tg =>
          simp only
          refine ⟨putOk_cancelTask (hfin _).1 tg false, ?_⟩
          have := (hfin .ok).2
          have := mu_cancelTask (finish s t x .ok) tg false
          simp [hcode, wCode] at hwt
          omega
        | flusher r =>
          cases r with
          | none =>
            simp only
            split
            · exact ⟨(hfin _).1, by have := (hfin .ok).2; omega⟩
            · rename_i hfl
              constructor
              · exact pOk_set hP (by simp [Wait.inPut])
              · exact term_flush h.inv hx hw hcode (by simpa using hfl) rfl rfl rfl
          | some k =>
            cases k with
            | zero =>
              simp only
              exact ⟨(hfin _).1, by have := (hfin .ok).2; omega⟩
            | succ k =>
              simp only
              exact term_putStep hP hx (Or.inl hw) (by rw [hcode]; rfl)

/-! ### tasks runs, scheduler steps, schedules -/

theorem micro_not_runnable {s : Sys} {t : Nat} (hr : runnable s t = false) : micro s t = s := by
  unfold runnable waitOf at hr
  unfold micro
  cases hx : s.tasks[t]? with
  | none => rfl
  | some x =>
    simp only [hx, Option.map_some] at hr
    simp only
    cases hw : x.wait with
    | done => rfl
    | ready => simp [hw] at hr
    | blocked g f => cases f <;> simp [hw] at hr ⊢

theorem micro_tinv {s : Sys} (h : TInv s) (t : Nat) : TInv (micro s t) := by
  refine ⟨micro_inv h.inv t, ?_⟩
  cases hr : runnable s t
  · rw [micro_not_runnable hr]; exact h.put
  · exact (micro_term h t hr).1

theorem runnable_of_ready {s : Sys} {t : Nat} (h : waitOf s t = some .ready) : runnable s t = true := by
  simp [runnable, h]

theorem runTask_term {s : Sys} (h : TInv s) (t : Nat) (fuel : Nat) :
    TInv (runTask fuel s t) ∧ mu (runTask fuel s t) ≤ mu s ∧
    (runnable s t = true → 0 < fuel → mu (runTask fuel s t) < mu s) := by
  induction fuel generalizing s with
  | zero => exact ⟨h, Nat.le_refl _, fun _ h0 => absurd h0 (Nat.lt_irrefl 0)⟩
  | succ n ih =>
    have hm : mu (micro s t) ≤ mu s ∧ (runnable s t = true → mu (micro s t) < mu s) := by
      cases hr : runnable s t
      · rw [micro_not_runnable hr]; exact ⟨Nat.le_refl _, fun e => by cases e⟩
      · have := (micro_term h t hr).2
        exact ⟨Nat.le_of_lt this, fun _ => this⟩
    simp only [runTask]
    split
    · obtain ⟨i1, i2, _⟩ := ih (micro_tinv h t)
      exact ⟨i1, by omega, fun hr _ => by have := hm.2 hr; omega⟩
    · exact ⟨micro_tinv h t, hm.1, fun hr _ => hm.2 hr⟩

theorem step_tinv {s : Sys} (h : TInv s) (c : Choice) : TInv (step s c) := by
  unfold step
  split
  · cases c with
    | run t => exact (runTask_term h t _).1
    | fire t => exact ⟨inv_cancel_task h.inv t true, putOk_cancelTask h.put t true⟩
  · exact h

theorem run_tinv {s : Sys} (h : TInv s) (cs : List Choice) : TInv (run s cs) := by
  induction cs generalizing s with
  | nil => exact h
  | cons c cs ih => exact ih (step_tinv h c)

theorem init_tinv (maxsize : Nat) (progs : List Prog) : TInv (init maxsize progs) := by
  refine ⟨init_inv maxsize progs, ?_⟩
  intro t x hx hw
  have hm : x ∈ progs.map Prog.toTask := List.mem_of_getElem? hx
  obtain ⟨p, _, rfl⟩ := List.mem_map.mp hm
  rw [(toTask_wait p).1] at hw
  cases hw

/-- **every enabled scheduler step strictly decreases the measure** -/
theorem step_term {s : Sys} {c : Choice} (h : TInv s) (he : enabled s c = true) : mu (step s c) < mu s := by
  unfold step
  rw [if_pos he]
  cases c with
  | run t => exact (runTask_term h t _).2.2 he (by unfold fuelFor; omega)
  | fire t => exact mu_fire he

/-- every choice of the schedule is enabled when it is taken -/
def validSched (s : Sys) : List Choice → Bool
  | [] => true
  | c :: cs => enabled s c && validSched (step s c) cs

theorem run_cons (s : Sys) (c : Choice) (cs : List Choice) : run s (c :: cs) = run (step s c) cs := rfl

theorem run_append (s : Sys) (cs cs' : List Choice) : run s (cs ++ cs') = run (run s cs) cs' := by
  unfold run; exact List.foldl_append

theorem validSched_append (s : Sys) (cs cs' : List Choice) :
    validSched s (cs ++ cs') = (validSched s cs && validSched (run s cs) cs') := by
  induction cs generalizing s with
  | nil => simp [validSched, run]
  | cons c cs ih => simp only [List.cons_append, validSched, ih, run_cons, Bool.and_assoc]

/-- a valid schedule of length `n` costs at least `n` units of the measure -/
theorem sched_term {s : Sys} (h : TInv s) (cs : List Choice) (hv : validSched s cs = true) :
    cs.length + mu (run s cs) ≤ mu s := by
  induction cs generalizing s with
  | nil => simp [run]
  | cons c cs ih =>
    simp only [validSched, Bool.and_eq_true] at hv
    have h1 := step_term h hv.1
    have h2 := ih (step_tinv h c) hv.2
    rw [run_cons, List.length_cons]
    omega

theorem not_quiescent {s : Sys} (hq : quiescent s = false) : ∃ t, runnable s t = true := by
  apply Classical.byContradiction
  intro hne
  have : quiescent s = true := by
    unfold quiescent
    rw [List.all_eq_true]
    intro t _
    cases hr : runnable s t
    · rfl
    · exact absurd ⟨t, hr⟩ hne
  rw [this] at hq; cases hq

theorem exists_quiescent_aux (n : Nat) : ∀ {s : Sys}, TInv s → mu s ≤ n →
    ∃ cs, validSched s cs = true ∧ quiescent (run s cs) = true := by
  induction n with
  | zero =>
    intro s h hn
    cases hq : quiescent s
    · obtain ⟨t, ht⟩ := not_quiescent hq
      have he : enabled s (.run t) = true := ht
      have := step_term h he
      omega
    · exact ⟨[], rfl, hq⟩
  | succ n ih =>
    intro s h hn
    cases hq : quiescent s
    · obtain ⟨t, ht⟩ := not_quiescent hq
      have he : enabled s (.run t) = true := ht
      have hlt := step_term h he
      obtain ⟨cs, hv, hq'⟩ := ih (step_tinv h (.run t)) (by omega)
      exact ⟨.run t :: cs, by simp [validSched, he, hv], by rw [run_cons]; exact hq'⟩
    · exact ⟨[], rfl, hq⟩

/-- from every reachable state, running ready handles (in any order) ends in a quiescent state;
    in particular such a schedule exists -/
theorem exists_quiescent {s : Sys} (h : TInv s) : ∃ cs, validSched s cs = true ∧ quiescent (run s cs) = true :=
  exists_quiescent_aux (mu s) h (Nat.le_refl _)

/-! ### the explicit bound -/

/-- what one program of the configuration contributes to the bound -/
def progCost : Prog → Nat
  | .sender _ n cl => 1 + 4 * n + (if cl then 3 else 0)
  | .receiver _ => 7
  | .closer => 4
  | .canceller _ => 3

def schedBound (progs : List Prog) : Nat := (progs.map progCost).sum

theorem mu_init (maxsize : Nat) (progs : List Prog) : mu (init maxsize progs) = schedBound progs := by
  have key : tsum wt (progs.map Prog.toTask) + 4 * tsum mNR (progs.map Prog.toTask) = schedBound progs := by
    unfold schedBound
    induction progs with
    | nil => rfl
    | cons p ps ih =>
      have e : wt p.toTask + 4 * mNR p.toTask = progCost p := by
        cases p with
        | sender sf n cl => cases sf <;> cases cl <;> simp [Prog.toTask, wt, mNR, wWait, wCode, progCost, Code.isReceiver] <;> omega
        | receiver tm => simp [Prog.toTask, wt, mNR, wWait, wCode, progCost, Code.isReceiver]
        | closer => simp [Prog.toTask, wt, mNR, wWait, wCode, progCost, Code.isReceiver]
        | canceller tg => simp [Prog.toTask, wt, mNR, wWait, wCode, progCost, Code.isReceiver]
      simp only [List.map_cons, tsum, List.sum_cons]
      omega
  unfold mu init
  simpa using key

end Bp.Chan
