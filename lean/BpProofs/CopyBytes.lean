import BpModel.All
import BpProofs.Ops
import BpProofs.NestedDefs
/-
  C14, byte-faithfulness of copies: for every well-typed reachable message (`MsgOk`,
  BpProofs/NestedDefs.lean) `copy.deepcopy` and `copy.copy` rebuild a value that

    * encodes to the same bytes as the original (`deepCopy_bytes`, `shallowCopy_bytes`),
    * is again well-typed and reachable (`deepCopy_ok`, `shallowCopy_ok`).

  How: the copy is rebuilt through the constructor from the non-PLACEHOLDER fields.
    (1) a PLACEHOLDER slot is replaced by `None` only for an `optional` field; `MsgOk` admits
        PLACEHOLDER only in non-optional fields (`slotOk_ph_nonopt`), so under `MsgOk` every slot
        is handed over as it is (`deepCopySlots_id`, `shallowSlots_id`) — and should an optional
        field ever hold PLACEHOLDER, both PLACEHOLDER and the `None` replacing it emit no bytes
        (`dumpSlot_ph_optional`, which needs no typing hypothesis at all);
    (2) `__post_init__` re-derives the oneof selection from which members are set.  Under the
        oneof invariant carried by `MsgOk` (a selection points at a member of its group, the
        selected member is set, all other members are PLACEHOLDER, members are not optional) the
        re-derived selection is the original one (`initCur_eq_cur`);
    (3) the copy then receives `_serialized_on_wire` and `_unknown_fields` of the original.
  So in the model (values have no identity) the copy of a `MsgOk` value IS the value
  (`deepCopy_id`, `shallowCopy_id`), at every nesting level, and the three statements follow.
-/
namespace Bp
open Gen

/-! ### leaves: values `deepcopy` returns as they are -/

/-- neither a list, a dict nor a message -/
def isAtom : Val → Bool
  | .list _ | .dict _ _ | .msg _ _ _ _ _ => false
  | _ => true

theorem deepCopy_atom (S : Schema) (v : Val) (h : isAtom v = true) : deepCopy S v = v := by
  cases v <;> first | (simp [deepCopy]; done) | (simp [isAtom] at h)

theorem deepCopyList_atoms (S : Schema) : ∀ (xs : List Val), (∀ x ∈ xs, isAtom x = true) → deepCopyList S xs = xs
  | [], _ => by simp [deepCopyList]
  | x :: xs, h => by
    rw [deepCopyList, deepCopy_atom S x (h x (by simp)),
      deepCopyList_atoms S xs (fun y hy => h y (by simp [hy]))]

theorem scalarOk_atom (t : PType) (v : Val) (h : scalarOk t v = true) : isAtom v = true := by
  cases v <;> first | rfl | (simp [scalarOk] at h)

theorem timeValOk_atom (b : Bool) (v : Val) (h : timeValOk b v = true) : isAtom v = true := by
  cases v <;> first | rfl | (simp [timeValOk] at h)

theorem atoms_of_all (t : PType) (xs : List Val) (h : xs.all (scalarOk t) = true) : ∀ x ∈ xs, isAtom x = true := by
  intro x hx
  exact scalarOk_atom t x (List.all_eq_true.1 h x hx)

/-! ### (1) PLACEHOLDER slots -/

/-- `MsgOk` admits PLACEHOLDER only as the raw value of a non-optional field … -/
theorem slotOk_ph_nonopt (S : Schema) (f : FieldD) (h : SlotOk S f Val.ph) : f.optional = false := by
  cases h with
  | flat _ _ _ hv => simpa [flatSlotOk] using hv
  | unsetAny _ ho => exact ho
  | unsetSub _ _ _ ho => exact ho
  | unsetTime _ _ _ ho => exact ho
  | unsetWrap _ _ _ ho => exact ho
  | wrap _ _ _ _ hv => simp [scalarOk] at hv
  | unsetMapS _ hf => exact hf.opt
  | unsetMapM _ _ hf => exact hf.opt

theorem frame_bytes_nil (num : Nat) : frame num PType.bytes [] false false = .ok [] := by
  have h1 : wireVarintTypes.contains PType.bytes = false := by decide
  have h2 : wireFixed32Types.contains PType.bytes = false := by decide
  have h3 : wireFixed64Types.contains PType.bytes = false := by decide
  have h4 : wireLenDelimTypes.contains PType.bytes = true := by decide
  simp only [frame, h1, h2, h3, h4, Bool.false_eq_true, if_false, if_true]
  rfl

/-- … and for ANY optional field (no typing hypothesis) a PLACEHOLDER slot and the `None` the
    copy's constructor puts in its place both emit nothing: the replacement is invisible on the
    wire even where it does happen -/
theorem dumpSlot_ph_optional (S : Schema) (f : FieldD) (hid sel : Bool) (ho : f.optional = true) :
    dumpSlot S f hid sel Val.ph = .ok [] ∧ dumpSlot S f hid sel Val.none = .ok [] := by
  refine ⟨?_, by rw [dumpSlot]⟩
  rw [dumpSlot]
  cases hid with
  | true => rfl
  | false =>
    simp only [Bool.false_eq_true, if_false]
    unfold dumpDefault FieldD.defKind
    by_cases hr : f.repeated = true
    · simp only [hr, if_true, ho, Bool.or_true, Bool.true_or, Bool.not_true, Bool.false_eq_true, if_false]
      split
      · exact frame_bytes_nil f.num
      · rfl
    · have hr' : f.repeated = false := by simpa using hr
      simp only [hr', Bool.false_eq_true, if_false, ho, Bool.true_or, Bool.or_true, Bool.not_true]
      cases hm : (f.ty == PType.map) with
      | true => simp only [if_true]
      | false => simp only [Bool.false_eq_true, if_false, if_true]

/-! ### (2) the re-derived oneof selection -/

theorem list_ext_getD (xs ys : List (Option Nat)) (hl : xs.length = ys.length)
    (h : ∀ g, xs.getD g Option.none = ys.getD g Option.none) : xs = ys := by
  apply List.ext_getElem hl
  intro g h1 h2
  have := h g
  simpa [List.getD_eq_getElem?_getD, List.getElem?_eq_getElem h1, List.getElem?_eq_getElem h2] using this

/-- **under the oneof invariant `__post_init__` re-derives exactly the stored selection** -/
theorem initCur_eq_cur (fs : List FieldD) (n : Nat) (sl : List Val) (cur : List (Option Nat))
    (hw : WfGroups fs n)
    (hopt : ∀ f ∈ fs, f.group.isSome = true → f.optional = false)
    (hlen : cur.length = n)
    (h5 : ∀ g i, cur.getD g Option.none = some i → ∃ f, fs[i]? = some f ∧ f.group = some g)
    (h6 : ∀ i f g, fs[i]? = some f → f.group = some g → cur.getD g Option.none ≠ some i → sl.getD i .ph = Val.ph)
    (h7 : ∀ g i, cur.getD g Option.none = some i → sl.getD i .ph ≠ Val.ph) :
    initCur fs sl 0 (List.replicate n Option.none) = cur := by
  apply list_ext_getD _ _ (by rw [initCur_length]; simp [hlen])
  intro g
  cases hc : cur.getD g Option.none with
  | none =>
    rw [initCur_untouched]
    · simp [List.getD_eq_getElem?_getD, List.getElem?_replicate]
      split <;> rfl
    · intro k f hf hg
      rw [h6 k f g hf hg (by rw [hc]; simp)]
      rfl
  | some i =>
    obtain ⟨f, hf, hg⟩ := h5 g i hc
    have hmem : f ∈ fs := List.mem_of_getElem? hf
    have hgn : g < n := hw f hmem g hg
    have ho : f.optional = false := hopt f hmem (by simp [hg])
    have hset : isSentinel f (sl.getD i .ph) = false := by
      have hne := h7 g i hc
      cases hv : sl.getD i .ph <;> first | rfl | (simp [isSentinel, ho]; done) | exact absurd hv hne
    have := initCur_last fs sl 0 (List.replicate n Option.none) g i f (by simp [hgn]) hf hg hset
      (by
        intro k' f' hk hf' hg'
        rw [h6 k' f' g hf' hg' (by rw [hc]; intro e; injection e with e; omega)]
        rfl)
    rw [this]; simp

/-! ### shallow copy -/

/-- what the constructor of a shallow copy receives for one field -/
def shallowSlot (p : Val × FieldD) : Val :=
  match p.1 with
  | .ph => if p.2.optional then Val.none else Val.ph
  | v => v

theorem shallowCopy_msg (S : Schema) (c : Nat) (sl : List Val) (ow : Bool) (unk : Bytes) (cur : List (Option Nat)) :
    shallowCopy S (.msg c sl ow unk cur)
      = .msg c ((sl.zip (fieldsOf S c)).map shallowSlot) ow unk cur := rfl

theorem shallowSlots_id (S : Schema) : ∀ (fs : List FieldD) (vs : List Val), SlotsOk S fs vs →
    (vs.zip fs).map shallowSlot = vs
  | [], [], _ => rfl
  | f :: fs, v :: vs, h => by
    cases h with
    | cons _ _ _ _ h1 h2 =>
      simp only [List.zip_cons_cons, List.map_cons]
      rw [shallowSlots_id S fs vs h2]
      cases v with
      | ph => simp only [shallowSlot, slotOk_ph_nonopt S f h1, Bool.false_eq_true, if_false]
      | _ => rfl
  | [], _ :: _, h => by cases h
  | _ :: _, [], h => by cases h

/-- **`copy.copy` of a well-typed reachable message is that message** (same class, same raw
    slots, same flag, same unknown bytes, same selection) -/
theorem shallowCopy_id (S : Schema) (m : Val) (h : MsgOk S m) : shallowCopy S m = m := by
  cases h with
  | mk c d sl ow unk cur hd h1 h2 h3 h4 h5 h6 h7 hsl hunk =>
    have hfs : fieldsOf S c = d.fields := by simp [fieldsOf, hd]
    have hgs : groupsOf S c = d.nGroups := by simp [groupsOf, hd]
    rw [shallowCopy_msg, hfs, shallowSlots_id S d.fields sl hsl]

/-! ### deep copy -/

mutual
/-- **`copy.deepcopy` of a well-typed reachable message is that message**, at every nesting level -/
theorem deepCopy_id (S : Schema) : ∀ (m : Val), MsgOk S m → deepCopy S m = m
  | .msg c sl ow unk cur, h => by
    cases h with
    | mk _ d _ _ _ _ hd h1 h2 h3 h4 h5 h6 h7 hsl hunk =>
      have hfs : fieldsOf S c = d.fields := by simp [fieldsOf, hd]
      have hgs : groupsOf S c = d.nGroups := by simp [groupsOf, hd]
      rw [deepCopy]
      simp only [hfs, hgs]
      rw [deepCopySlots_id S d.fields sl hsl]
  | .ph, h | .none, h | .int _, h | .bool _, h | .f32 _, h | .f64 _, h | .str _, h | .byt _, h
  | .ts _, h | .dur _, h | .list _, h | .dict _ _, h => by cases h

theorem deepCopySlots_id (S : Schema) : ∀ (fs : List FieldD) (vs : List Val), SlotsOk S fs vs →
    deepCopySlots S fs vs = vs
  | [], [], _ => by simp [deepCopySlots]
  | f :: fs, v :: vs, h => by
    cases h with
    | cons _ _ _ _ h1 h2 =>
      rw [deepCopySlots_cons, deepCopySlots_id S fs vs h2]
      have hv := deepCopySlot_id S f v h1
      cases v with
      | ph => simp only [slotOk_ph_nonopt S f h1, Bool.false_eq_true, if_false]
      | _ => simp only [hv]
  | [], _ :: _, h => by cases h
  | _ :: _, [], h => by cases h

theorem deepCopySlot_id (S : Schema) (f : FieldD) : ∀ (v : Val), SlotOk S f v → deepCopy S v = v
  | .msg c sl ow unk cur, h => by
    cases h with
    | flat _ _ hf hv => simp [flatSlotOk, scalarOk] at hv
    | wrap _ w _ hf hv => simp [scalarOk] at hv
    | sub _ _ _ _ _ _ hf hr hm => exact deepCopy_id S (.msg c sl ow unk cur) hm
  | .list xs, h => by
    rw [deepCopy]
    cases h with
    | flat _ _ hf hv =>
      simp only [flatSlotOk, Bool.and_eq_true] at hv
      rw [deepCopyList_atoms S xs (atoms_of_all _ xs hv.2)]
    | wrap _ w _ hf hv => simp [scalarOk] at hv
    | subs _ c _ hf hr hm => rw [deepCopyMsgs_id S c xs hm]
    | tss _ _ hf hv => rw [deepCopyList_atoms S xs (fun x hx => timeValOk_atom _ x (hv x hx))]
    | durs _ _ hf hv => rw [deepCopyList_atoms S xs (fun x hx => timeValOk_atom _ x (hv x hx))]
    | wraps _ w _ hf hv => rw [deepCopyList_atoms S xs (fun x hx => scalarOk_atom _ x (hv x hx))]
  | .dict ks vs, h => by
    rw [deepCopy]
    cases h with
    | flat _ _ hf hv => simp [flatSlotOk, scalarOk] at hv
    | wrap _ w _ hf hv => simp [scalarOk] at hv
    | mapS _ _ _ hf hl hk hv hkd => rw [deepCopyList_atoms S vs (fun x hx => scalarOk_atom _ x (hv x hx))]
    | mapM _ c _ _ hf hl hk hm hkd => rw [deepCopyMsgs_id S c vs hm]
    | mapT _ isDur _ _ hf hl hk hv hkd => rw [deepCopyList_atoms S vs (fun x hx => timeValOk_atom _ x (hv x hx))]
  | .ph, _ => deepCopy_atom S _ rfl
  | .none, _ => deepCopy_atom S _ rfl
  | .int _, _ => deepCopy_atom S _ rfl
  | .bool _, _ => deepCopy_atom S _ rfl
  | .f32 _, _ => deepCopy_atom S _ rfl
  | .f64 _, _ => deepCopy_atom S _ rfl
  | .str _, _ => deepCopy_atom S _ rfl
  | .byt _, _ => deepCopy_atom S _ rfl
  | .ts _, _ => deepCopy_atom S _ rfl
  | .dur _, _ => deepCopy_atom S _ rfl

theorem deepCopyMsgs_id (S : Schema) (c : Nat) : ∀ (xs : List Val), MsgsOk S c xs → deepCopyList S xs = xs
  | [], _ => by simp [deepCopyList]
  | .msg c' sl ow unk cur :: xs, h => by
    rw [deepCopyList]
    cases h with
    | cons _ _ _ _ _ _ hm hms =>
      rw [deepCopy_id S (.msg c sl ow unk cur) hm, deepCopyMsgs_id S c xs hms]
  | .ph :: _, h | .none :: _, h | .int _ :: _, h | .bool _ :: _, h | .f32 _ :: _, h | .f64 _ :: _, h
  | .str _ :: _, h | .byt _ :: _, h | .ts _ :: _, h | .dur _ :: _, h | .list _ :: _, h | .dict _ _ :: _, h => by
    cases h
end

/-! ### the statements of C14 -/

/-- a deep copy encodes to the same bytes as the original -/
theorem deepCopy_bytes (S : Schema) (m : Val) (h : MsgOk S m) : dumpVal S (deepCopy S m) = dumpVal S m := by
  rw [deepCopy_id S m h]

/-- a shallow copy encodes to the same bytes as the original -/
theorem shallowCopy_bytes (S : Schema) (m : Val) (h : MsgOk S m) : dumpVal S (shallowCopy S m) = dumpVal S m := by
  rw [shallowCopy_id S m h]

/-- the deep copy is again a well-typed reachable value -/
theorem deepCopy_ok (S : Schema) (m : Val) (h : MsgOk S m) : MsgOk S (deepCopy S m) := by
  rw [deepCopy_id S m h]; exact h

/-- and so is the shallow copy -/
theorem shallowCopy_ok (S : Schema) (m : Val) (h : MsgOk S m) : MsgOk S (shallowCopy S m) := by
  rw [shallowCopy_id S m h]; exact h

end Bp

#print axioms Bp.deepCopy_id
#print axioms Bp.shallowCopy_id
#print axioms Bp.deepCopy_bytes
#print axioms Bp.shallowCopy_bytes
#print axioms Bp.deepCopy_ok
#print axioms Bp.shallowCopy_ok
#print axioms Bp.dumpSlot_ph_optional
#print axioms Bp.initCur_eq_cur
