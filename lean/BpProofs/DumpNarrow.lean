import BpModel.All
import BpModel.Spec
import BpProofs.RtMain
import BpProofs.SpecLinkNarrow
/-
  C02: the encoder's output satisfies the (weakened) input guard of `load_complete`.

      MsgOk S m → dumpVal S m = .ok bs → bs.length < 2^64 → narrow32U S n d bs = true   (every n)

  Every `uint32` / `sint32` value of an `MsgOk` message is in range (`scalarOk`) and the encoder
  writes the minimal varint of exactly that value (zig-zag image for `sint32`), at every nesting
  level: singular, repeated (packed), map key, map value, wrapper payload.  The unknown fields a
  message carries (`UnkOk`) are records the class does not know, which `narrow32U` skips.

  The proof walks the encoder's output record by record (`Recs`): every `SlotOk` constructor,
  with the `dumpSlot_*` unfolding lemmas of C01 and RtScalar's record lemmas.

  For the ORIGINAL guard `narrow32` the statement is FALSE (it inspects unknown records with a
  declared number and an unfitting wire type; see `BpProofs/SpecLinkNarrow.lean`); it holds for
  messages whose unknown fields themselves satisfy it, which is not proved separately here
  because `load_complete` is available under `narrow32U`.
-/
namespace Bp.Link
open Bp Gen

/-! ### byte strings that split into records with a property -/

/-- `b` is the concatenation of well-framed records, each with property `P` -/
def Recs (P : PField → Prop) (b : Bytes) : Prop :=
  ∃ pfs : List PField, (∀ pf ∈ pfs, Parsed pf ∧ P pf) ∧ joinRaw pfs = b

theorem Recs.nil (P : PField → Prop) : Recs P [] := ⟨[], fun _ h => by simp at h, rfl⟩

theorem Recs.append {P : PField → Prop} {a b : Bytes} (ha : Recs P a) (hb : Recs P b) : Recs P (a ++ b) := by
  obtain ⟨pa, h1, h2⟩ := ha
  obtain ⟨pb, h3, h4⟩ := hb
  refine ⟨pa ++ pb, ?_, by rw [joinRaw_append, h2, h4]⟩
  intro pf hpf
  rcases List.mem_append.mp hpf with h | h
  · exact h1 pf h
  · exact h3 pf h

theorem Recs.single {P : PField → Prop} (pf : PField) (b : Bytes)
    (hl : loadField (b ++ []) = .ok (pf, [])) (hraw : pf.raw = b) (hP : P pf) : Recs P b := by
  refine ⟨[pf], ?_, by simp [joinRaw, hraw]⟩
  intro q hq
  simp at hq; subst hq
  exact ⟨⟨_, _, hl⟩, hP⟩

theorem Recs.mono {P Q : PField → Prop} {b : Bytes} (h : ∀ pf, P pf → Q pf) (hb : Recs P b) : Recs Q b := by
  obtain ⟨pfs, h1, h2⟩ := hb
  exact ⟨pfs, fun pf hpf => ⟨(h1 pf hpf).1, h pf (h1 pf hpf).2⟩, h2⟩

/-- the guard, one level, from the records -/
theorem narrow32U_of_recs (S : Schema) (n : Nat) (d : MsgD) (b : Bytes)
    (h : Recs (fun pf => narrowFieldU S (narrow32U S n) d pf = true) b) : narrow32U S (n + 1) d b = true := by
  obtain ⟨pfs, h1, h2⟩ := h
  have hl := loadFields_join pfs (fun pf hpf => (h1 pf hpf).1)
  rw [h2] at hl
  simp only [narrow32U, hl, List.all_eq_true]
  exact fun pf hpf => (h1 pf hpf).2

theorem narrow32U_zero (S : Schema) (d : MsgD) (b : Bytes) : narrow32U S 0 d b = true := rfl

/-- the unknown fields a message carries -/
theorem recs_unk (S : Schema) (nb : MsgD → Bytes → Bool) (d : MsgD) (unk : Bytes) (h : UnkOk d unk) :
    Recs (fun pf => narrowFieldU S nb d pf = true) unk := by
  obtain ⟨upfs, h1, h2⟩ := h
  refine ⟨upfs, fun pf hpf => ⟨(h1 pf hpf).1, ?_⟩, h2⟩
  show narrowFieldU S nb d pf = true
  unfold narrowFieldU
  rw [(h1 pf hpf).2]; rfl

/-! ### one record of a declared field -/

/-- what `narrowFieldU` asks of a record carrying the number of the declared field `f` -/
theorem narrowFieldU_known (S : Schema) (nb : MsgD → Bytes → Bool) (d : MsgD) (pf : PField) (k : Nat) (f : FieldD)
    (hd : NumsDistinct d.fields) (hk : d.fields[k]? = some f) (hn : pf.num = f.num)
    (h0 : pf.wt = 0 → isNarrowTy f.ty = true → pf.vint < 2 ^ 32)
    (h2 : pf.wt = 2 → (isNarrowTy f.ty = true → narrowElems (pf.payload.length + 1) pf.payload = true)
      ∧ ∀ d', subDesc S f = some d' → nb d' pf.payload = true) :
    narrowFieldU S nb d pf = true := by
  unfold narrowFieldU
  rw [Bool.or_eq_true]
  right
  unfold narrowField
  rw [hn, findField_distinct d.fields k f hd hk]
  simp only [hk]
  by_cases hw0 : pf.wt = 0
  · rw [if_pos (by simp [hw0])]
    cases hnt : isNarrowTy f.ty with
    | false => rfl
    | true => have := h0 hw0 hnt; simp; omega
  · rw [if_neg (by simp [hw0])]
    by_cases hw2 : pf.wt = 2
    · rw [if_pos (by simp [hw2])]
      obtain ⟨ha, hb⟩ := h2 hw2
      rw [Bool.and_eq_true]
      refine ⟨?_, ?_⟩
      · cases hnt : isNarrowTy f.ty with
        | false => rfl
        | true => simp [ha hnt]
      · cases hs : subDesc S f with
        | none => rfl
        | some d' => exact hb d' hs
    · rw [if_neg (by simp [hw2])]

/-- a field of scalar type has no nested descriptor -/
theorem subDesc_scalar (S : Schema) (f : FieldD) (h : isScalarType f.ty = true) : subDesc S f = Option.none := by
  unfold subDesc
  unfold isScalarType at h
  simp only [Bool.and_eq_true, bne_iff_ne, ne_eq] at h
  rw [if_neg (by simp [h.2]), if_neg (by simp [h.1])]

/-! ### a 32-bit value written as a varint is below 2^32 -/

theorem narrow_post (t : PType) (n : Nat) (v : Val) (hn : isNarrowTy t = true)
    (hp : postVarint t n = v) (hv : scalarOk t v = true) : n < 2 ^ 32 := by
  subst hp
  unfold isNarrowTy at hn
  simp only [Bool.or_eq_true, beq_iff_eq] at hn
  rcases hn with rfl | rfl
  · simp [postVarint, scalarOk, intInRange] at hv
    omega
  · simp [postVarint, scalarOk, intInRange, unzig] at hv
    split at hv <;> omega

theorem lenT_not_narrow (t : PType) (h : LenT t) : isNarrowTy t = false := by
  revert h; cases t <;> decide

/-- **the record of a well-typed scalar**: framed, carrying the field number, and, if it is a
    varint of a `uint32` / `sint32` type, below 2^32; a length-delimited record only for
    `string` / `bytes` -/
theorem scalar_rec (S : Schema) (num : Nat) (t : PType) (v : Val) (se : Bool) (out : Bytes)
    (hnum : numOk num = true) (hty : isScalarType t = true) (hv : scalarOk t v = true)
    (hlen : out.length < 2 ^ 64) (h : serializeScalar S num t v se Option.none = .ok out) (hne : out ≠ []) :
    ∃ pf, loadField (out ++ []) = .ok (pf, []) ∧ pf.num = num ∧ pf.raw = out
      ∧ (pf.wt = 0 → isNarrowTy t = true → pf.vint < 2 ^ 32)
      ∧ (pf.wt = 2 → isNarrowTy t = false) := by
  obtain ⟨pre, spec, hs⟩ := serializeScalar_shape S num t v se hty hv
  rw [hs] at h
  rcases spec with ⟨hT, n, hpre, hn, hpost⟩ | ⟨hT, hl, hpost⟩ | ⟨hT, hl, hpost⟩ | ⟨hT, hsb⟩
  · rw [if_pos hT] at h
    injection h with h; subst h; subst hpre
    exact ⟨_, loadField_varint num n hnum hn [], rfl, rfl, fun _ hnt => narrow_post t n v hnt hpost hv,
      fun hc => by simp at hc⟩
  · rw [if_neg (fun hc => bool_tf hc.1 hT.1), if_pos hT] at h
    injection h with h; subst h
    exact ⟨_, loadField_fixed32 num pre hnum hl [], rfl, rfl, fun hc => by simp at hc, fun hc => by simp at hc⟩
  · rw [if_neg (fun hc => bool_tf hc.1 hT.1), if_neg (fun hc => bool_tf hc.2.1 hT.2.1), if_pos hT] at h
    injection h with h; subst h
    exact ⟨_, loadField_fixed64 num pre hnum hl [], rfl, rfl, fun hc => by simp at hc, fun hc => by simp at hc⟩
  · rw [if_neg (fun hc => bool_tf hc.1 hT.1), if_neg (fun hc => bool_tf hc.2.1 hT.2.1),
      if_neg (fun hc => bool_tf hc.2.2.1 hT.2.2.1)] at h
    by_cases hc : (pre.length != 0 || se) = true
    · rw [if_pos hc] at h
      injection h with h; subst h
      have hpl : pre.length < 2 ^ 64 := by
        simp only [List.length_append] at hlen
        omega
      exact ⟨_, loadField_len num pre hnum hpl [], rfl, rfl, fun hc => by simp at hc,
        fun _ => lenT_not_narrow t hT⟩
    · rw [if_neg hc] at h
      injection h with h
      exact absurd h.symm hne

/-- the bytes `serializeScalar` writes for a well-typed value of the scalar-typed declared field
    `f` (`f.ty = t`): no record or one record, accepted by `narrowFieldU` -/
theorem recs_scalar (S : Schema) (nb : MsgD → Bytes → Bool) (d : MsgD) (k : Nat) (f : FieldD) (v : Val) (se : Bool)
    (out : Bytes) (hd : NumsDistinct d.fields) (hk : d.fields[k]? = some f)
    (hnum : numOk f.num = true) (hty : isScalarType f.ty = true) (hv : scalarOk f.ty v = true)
    (hlen : out.length < 2 ^ 64) (h : serializeScalar S f.num f.ty v se Option.none = .ok out) :
    Recs (fun pf => narrowFieldU S nb d pf = true) out := by
  by_cases hne : out = []
  · subst hne; exact Recs.nil _
  · obtain ⟨pf, hl, hn, hraw, h0, h2⟩ := scalar_rec S f.num f.ty v se out hnum hty hv hlen h hne
    apply Recs.single pf out hl hraw
    apply narrowFieldU_known S nb d pf k f hd hk hn h0
    intro hw2
    refine ⟨fun hnt => by rw [h2 hw2] at hnt; simp at hnt, ?_⟩
    intro d' hd'
    rw [subDesc_scalar S f hty] at hd'
    simp at hd'

/-! ### packed payloads -/

theorem narrowElems_ne (fuel : Nat) (p : Bytes) (hp : p ≠ []) :
    narrowElems (fuel + 1) p =
      match loadVarint p with
      | .ok (v, k) => decide (v < 2 ^ 32) && narrowElems fuel (p.drop k)
      | .error _ => true := by
  cases p with
  | nil => exact absurd rfl hp
  | cons a as => rfl

theorem narrowElems_nil (fuel : Nat) : narrowElems fuel [] = true := by
  cases fuel <;> rfl

/-- every element of a packed `uint32` / `sint32` payload is below 2^32 -/
theorem packed_narrow (S : Schema) (t : PType) (ht : isPacked t = true) (hnt : isNarrowTy t = true) :
    ∀ (xs : List Val) (buf : Bytes), (∀ x ∈ xs, scalarOk t x = true) → prepPacked S t xs = .ok buf →
      ∀ fuel, narrowElems fuel buf = true := by
  have hsc : isScalarType t = true := by
    revert hnt; cases t <;> decide
  intro xs
  induction xs with
  | nil =>
    intro buf _ h fuel
    have : buf = [] := by
      have h' : (Except.ok [] : R Bytes) = .ok buf := h
      injection h' with h'; exact h'.symm
    subst this
    exact narrowElems_nil fuel
  | cons x xs ih =>
    intro buf hx h fuel
    rw [prepPacked_cons, prepScalar_packed S t ht] at h
    obtain ⟨pre, hpre, spec⟩ := payload_spec t x hsc (hx x (by simp))
    rw [hpre] at h
    simp only [bind_ok] at h
    cases hr : prepPacked S t xs with
    | error e => rw [hr] at h; simp at h
    | ok r =>
      rw [hr] at h
      simp only [bind_ok] at h
      injection h with h; subst h
      have hV : ∃ n, pre = encNat n ∧ n < 2 ^ 64 ∧ postVarint t n = x := by
        rcases spec with ⟨_, h⟩ | ⟨hT, _⟩ | ⟨hT, _⟩ | ⟨hT, _⟩
        · exact h
        · exfalso; revert hT hnt; cases t <;> decide
        · exfalso; revert hT hnt; cases t <;> decide
        · exfalso; revert hT hnt; cases t <;> decide
      obtain ⟨n, rfl, hn64, hpost⟩ := hV
      have hn32 := narrow_post t n x hnt hpost (hx x (by simp))
      cases fuel with
      | zero => rfl
      | succ fuel =>
        have hne : encNat n ++ r ≠ [] := fun hc => encNat_ne_nil n (List.append_eq_nil_iff.mp hc).1
        rw [narrowElems_ne fuel _ hne, loadVarint_encNat n r hn64]
        simp only [drop_app_len, Bool.and_eq_true, decide_eq_true_eq]
        exact ⟨hn32, ih r (fun y hy => hx y (by simp [hy])) hr fuel⟩

/-! ### a length-delimited record of a declared field -/

/-- tag, length, payload of the declared field `f`: one record, accepted by `narrowFieldU` if
    the payload is (packed `uint32` / `sint32` elements below 2^32, a nested payload accepted
    by `nb`) -/
theorem recs_len (S : Schema) (nb : MsgD → Bytes → Bool) (d : MsgD) (k : Nat) (f : FieldD) (p : Bytes)
    (hd : NumsDistinct d.fields) (hk : d.fields[k]? = some f) (hnum : numOk f.num = true)
    (hpl : p.length < 2 ^ 64)
    (hnt : isNarrowTy f.ty = true → narrowElems (p.length + 1) p = true)
    (hsub : ∀ d', subDesc S f = some d' → nb d' p = true) :
    Recs (fun pf => narrowFieldU S nb d pf = true) (encNat (f.num * 8 + 2) ++ encNat p.length ++ p) := by
  apply Recs.single _ _ (loadField_len f.num p hnum hpl []) rfl
  exact narrowFieldU_known S nb d _ k f hd hk rfl (fun hc => by simp at hc) (fun _ => ⟨hnt, hsub⟩)

/-! ### payloads decoded with a synthetic descriptor -/

theorem narrow32U_nil (S : Schema) (n : Nat) (d : MsgD) : narrow32U S n d [] = true := by
  cases n with
  | zero => rfl
  | succ n => exact narrow32U_of_recs S n d [] (Recs.nil _)

/-- a descriptor without `uint32` / `sint32` fields and without nested fields accepts everything -/
theorem narrow32U_plainD (S : Schema) (d : MsgD)
    (h : ∀ f ∈ d.fields, isNarrowTy f.ty = false ∧ subDesc S f = Option.none) (n : Nat) (p : Bytes) :
    narrow32U S n d p = true := by
  cases n with
  | zero => rfl
  | succ n =>
    simp only [narrow32U]
    cases hp : loadFields p with
    | error e => rfl
    | ok pfs =>
      simp only [List.all_eq_true]
      intro pf _
      unfold narrowFieldU
      rw [Bool.or_eq_true]
      right
      unfold narrowField
      cases hf : findField d.fields pf.num with
      | none => rfl
      | some idx =>
        simp only
        cases hfi : d.fields[idx]? with
        | none => rfl
        | some f =>
          obtain ⟨h1, h2⟩ := h f (List.mem_of_getElem? hfi)
          simp only [h1, h2, Bool.not_false, Bool.true_or, Bool.true_and]
          split
          · rfl
          · split <;> rfl

theorem narrow32U_secNanos (S : Schema) (n : Nat) (p : Bytes) : narrow32U S n secNanosD p = true := by
  apply narrow32U_plainD
  intro f hf
  simp [secNanosD] at hf
  rcases hf with rfl | rfl <;> exact ⟨rfl, rfl⟩

/-- **wrapper payloads**: `bytes(Wrapper(value = v))` for a well-typed `v` -/
theorem narrow32U_wrapper (S : Schema) (w : PType) (v : Val) (p : Bytes) (n : Nat)
    (hw : isScalarType w = true) (hv : scalarOk w v = true) (hp : wrapperBytes S w v = .ok p)
    (hl : p.length < 2 ^ 64) : narrow32U S n (wrapperD w) p = true := by
  cases n with
  | zero => rfl
  | succ n =>
    apply narrow32U_of_recs
    by_cases hdef : scalarIsDefault S w v = true
    · unfold wrapperBytes at hp
      rw [if_pos hdef] at hp
      injection hp with hp; subst hp
      exact Recs.nil _
    · rw [wrapperBytes_nondefault S w v hw hdef] at hp
      exact recs_scalar S _ (wrapperD w) 0 { name := "value", num := 1, ty := w } v false p
        (numsDistinct_single _) rfl rfl hw hv hl hp

/-- the key half of a map entry -/
theorem recs_entry_key (S : Schema) (nb : MsgD → Bytes → Bool) (f : FieldD) (kv : Val) (sk : Bytes)
    (hkt : isMapKeyType f.mapK = true) (hv : scalarOk f.mapK kv = true) (hl : sk.length < 2 ^ 64)
    (h : serializeScalar S 1 f.mapK kv false Option.none = .ok sk) :
    Recs (fun pf => narrowFieldU S nb (entryD f) pf = true) sk :=
  recs_scalar S nb (entryD f) 0 (keyFieldOf f) kv false sk (entry_numsDistinct f) rfl rfl
    (mapKey_scalar f.mapK hkt) hv hl h

/-- the value half of a map entry, scalar value type -/
theorem recs_entry_val_scalar (S : Schema) (nb : MsgD → Bytes → Bool) (f : FieldD) (x : Val) (sv : Bytes)
    (hvt : isScalarType f.mapV = true) (hv : scalarOk f.mapV x = true) (hl : sv.length < 2 ^ 64)
    (h : dumpEntryVal S f x = .ok sv) :
    Recs (fun pf => narrowFieldU S nb (entryD f) pf = true) sv := by
  obtain ⟨_, hnm⟩ := scalarOk_plain f.mapV x hv
  have hde : dumpEntryVal S f x = serializeScalar S 2 f.mapV x false Option.none := by
    cases x <;> first | rfl | (simp [isMsgVal] at hnm)
  rw [hde] at h
  exact recs_scalar S nb (entryD f) 1 (valFieldOf f) x false sv (entry_numsDistinct f) rfl rfl hvt hv hl h

theorem subDesc_entry_val (S : Schema) (f : FieldD) (hvty : f.mapV = PType.message) :
    subDesc S (valFieldOf f) =
      match f.mapVKind with
      | .user c => S[c]?
      | _ => some secNanosD := by
  unfold subDesc
  have h1 : (valFieldOf f).ty = PType.message := hvty
  rw [h1]
  rfl

/-- the value half of a map entry: a tag-#2 record with payload `p`, or nothing -/
theorem recs_entry_val_len (S : Schema) (nb : MsgD → Bytes → Bool) (f : FieldD) (p sv : Bytes)
    (hvty : f.mapV = PType.message) (hl : sv.length < 2 ^ 64)
    (hsub : ∀ d', subDesc S (valFieldOf f) = some d' → nb d' p = true)
    (h : (if (p.length != 0) = true then (Except.ok (encNat (2 * 8 + 2) ++ encNat p.length ++ p) : R Bytes)
          else .ok []) = .ok sv) :
    Recs (fun pf => narrowFieldU S nb (entryD f) pf = true) sv := by
  by_cases hp0 : (p.length != 0) = true
  · rw [if_pos hp0] at h
    injection h with h; subst h
    have hpl : p.length < 2 ^ 64 := by
      simp only [List.length_append] at hl; omega
    exact recs_len S nb (entryD f) 1 (valFieldOf f) p (entry_numsDistinct f) rfl rfl hpl
      (fun hc => by
        have h1 : (valFieldOf f).ty = PType.message := hvty
        rw [h1] at hc; exact absurd hc (by decide))
      hsub
  · rw [if_neg hp0] at h
    injection h with h; subst h
    exact Recs.nil _

/-! ### the nested descriptor of each field kind -/

theorem subDesc_sub (S : Schema) (f : FieldD) (c : Nat) (h : SubField f c) : subDesc S f = S[c]? := by
  unfold subDesc
  rw [h.ty, h.nw, h.kind]
  rfl

theorem subDesc_timeKind (S : Schema) (f : FieldD) (isDur : Bool) (hty : f.ty = PType.message)
    (hnw : f.wraps = Option.none) (hk : f.kind = (if isDur then MsgKind.duration else MsgKind.timestamp)) :
    subDesc S f = some secNanosD := by
  unfold subDesc
  rw [hty, hnw, hk]
  cases isDur <;> rfl

theorem subDesc_wrap (S : Schema) (f : FieldD) (w : PType) (h : WrapField f w) : subDesc S f = some (wrapperD w) := by
  unfold subDesc
  rw [h.ty, h.wr]
  rfl

theorem subDesc_map (S : Schema) (f : FieldD) (h : f.ty = PType.map) : subDesc S f = some (entryD f) := by
  unfold subDesc
  rw [h]
  rfl

/-! ### the statement, per nesting fuel -/

/-- the encoding of every well-typed message of the schema is accepted with fuel `n` -/
def DumpNar (S : Schema) (n : Nat) : Prop :=
  ∀ (c : Nat) (d : MsgD) (sl : List Val) (ow : Bool) (unk : Bytes) (cur : List (Option Nat)) (bs : Bytes),
    MsgOk S (.msg c sl ow unk cur) → S[c]? = some d → dumpVal S (.msg c sl ow unk cur) = .ok bs →
    bs.length < 2 ^ 64 → narrow32U S n d bs = true

/-! ### repeated fields: one record per item -/

theorem dumpItems_nil (S : Schema) (f : FieldD) : dumpItems S f [] = .ok [] := by rw [dumpItems]

theorem recs_items_scalar (S : Schema) (nb : MsgD → Bytes → Bool) (d : MsgD) (k : Nat) (f : FieldD)
    (hd : NumsDistinct d.fields) (hk : d.fields[k]? = some f) (hff : FlatField f) :
    ∀ (xs : List Val) (b : Bytes), (∀ x ∈ xs, scalarOk f.ty x = true) → dumpItems S f xs = .ok b →
      b.length < 2 ^ 64 → Recs (fun pf => narrowFieldU S nb d pf = true) b := by
  intro xs
  induction xs with
  | nil =>
    intro b _ h _
    rw [dumpItems_nil] at h; injection h with h; subst h
    exact Recs.nil _
  | cons x xs ih =>
    intro b hx h hbl
    have hx0 := hx x (by simp)
    obtain ⟨_, hnm⟩ := scalarOk_plain f.ty x hx0
    have hdi : dumpItems S f (x :: xs) =
        (serializeScalar S f.num f.ty x true f.wraps).bind fun a =>
          (dumpItems S f xs).bind fun r => .ok ((if a.isEmpty then [10, 0] else a) ++ r) := by
      cases x <;> first | (simp [isMsgVal] at hnm; done) | (rw [dumpItems]; all_goals (intros; contradiction))
    rw [hdi, hff.nw] at h
    cases ha : serializeScalar S f.num f.ty x true Option.none with
    | error e => rw [ha] at h; simp at h
    | ok a =>
      rw [ha] at h; simp only [bind_ok] at h
      cases hr : dumpItems S f xs with
      | error e => rw [hr] at h; simp at h
      | ok r =>
        rw [hr] at h; simp only [bind_ok] at h
        injection h with h; subst h
        have hane : a ≠ [] := by
          intro hc
          have := (serializeScalar_empty_iff S f.num f.ty x true a hff.sc hx0 ha).mp hc
          exact absurd this.1 (by decide)
        have hae : a.isEmpty = false := by cases a <;> simp_all
        rw [hae] at hbl ⊢
        simp only [Bool.false_eq_true, if_false, List.length_append] at hbl ⊢
        exact Recs.append
          (recs_scalar S nb d k f x true a hd hk hff.num hff.sc hx0 (by omega) ha)
          (ih r (fun y hy => hx y (by simp [hy])) hr (by omega))

theorem recs_items_msg (S : Schema) (n : Nat) (ih : DumpNar S n) (d : MsgD) (k : Nat) (f : FieldD) (c : Nat)
    (hd : NumsDistinct d.fields) (hk : d.fields[k]? = some f) (hsf : SubField f c) :
    ∀ (xs : List Val) (b : Bytes), MsgsOk S c xs → dumpItems S f xs = .ok b →
      b.length < 2 ^ 64 → Recs (fun pf => narrowFieldU S (narrow32U S n) d pf = true) b := by
  intro xs
  induction xs with
  | nil =>
    intro b _ h _
    rw [dumpItems_nil] at h; injection h with h; subst h
    exact Recs.nil _
  | cons x xs ihx =>
    intro b hms h hbl
    cases hms with
    | cons _ sl ow unk cur _ hmo hrest =>
      rw [dumpItems_msg S f c sl ow unk cur xs hsf.ty hsf.nw] at h
      cases hp : dumpVal S (.msg c sl ow unk cur) with
      | error e => rw [hp] at h; simp at h
      | ok p =>
        rw [hp] at h; simp only [bind_ok] at h
        cases hr : dumpItems S f xs with
        | error e => rw [hr] at h; simp at h
        | ok r =>
          rw [hr] at h; simp only [bind_ok] at h
          injection h with h; subst h
          simp only [List.length_append] at hbl
          refine Recs.append (recs_len S _ d k f p hd hk hsf.num (by omega)
            (fun hc => by rw [hsf.ty] at hc; exact absurd hc (by decide)) ?_) (ihx r hrest hr (by omega))
          intro d' hd'
          rw [subDesc_sub S f c hsf] at hd'
          exact ih c d' sl ow unk cur p hmo hd' hp (by omega)

theorem recs_items_time (S : Schema) (n : Nat) (d : MsgD) (k : Nat) (f : FieldD) (isDur : Bool)
    (hd : NumsDistinct d.fields) (hk : d.fields[k]? = some f) (htf : TimesField f isDur) :
    ∀ (xs : List Val) (b : Bytes), (∀ x ∈ xs, timeValOk isDur x = true) → dumpItems S f xs = .ok b →
      b.length < 2 ^ 64 → Recs (fun pf => narrowFieldU S (narrow32U S n) d pf = true) b := by
  intro xs
  induction xs with
  | nil =>
    intro b _ h _
    rw [dumpItems_nil] at h; injection h with h; subst h
    exact Recs.nil _
  | cons x xs ihx =>
    intro b hx h hbl
    have hx0 := hx x (by simp)
    have hxt : isTimeVal x = true := by
      cases x <;> simp [timeValOk] at hx0 <;> rfl
    rw [dumpItems_time S f x xs htf.ty htf.nw hxt] at h
    cases hp : prepScalar S PType.message Option.none x with
    | error e => rw [hp] at h; simp at h
    | ok p =>
      rw [hp] at h; simp only [bind_ok] at h
      cases hr : dumpItems S f xs with
      | error e => rw [hr] at h; simp at h
      | ok r =>
        rw [hr] at h; simp only [bind_ok] at h
        injection h with h; subst h
        simp only [List.length_append] at hbl
        refine Recs.append (recs_len S _ d k f p hd hk htf.num (by omega)
          (fun hc => by rw [htf.ty] at hc; exact absurd hc (by decide)) ?_)
          (ihx r (fun y hy => hx y (by simp [hy])) hr (by omega))
        intro d' hd'
        rw [subDesc_timeKind S f isDur htf.ty htf.nw htf.kind] at hd'
        injection hd' with hd'; subst hd'
        exact narrow32U_secNanos S n p

theorem subDesc_wraps (S : Schema) (f : FieldD) (w : PType) (h : WrapsField f w) : subDesc S f = some (wrapperD w) := by
  unfold subDesc
  rw [h.ty, h.wr]
  rfl

theorem recs_items_wrap (S : Schema) (n : Nat) (d : MsgD) (k : Nat) (f : FieldD) (w : PType)
    (hd : NumsDistinct d.fields) (hk : d.fields[k]? = some f) (hwf : WrapsField f w) :
    ∀ (xs : List Val) (b : Bytes), (∀ x ∈ xs, scalarOk w x = true) → dumpItems S f xs = .ok b →
      b.length < 2 ^ 64 → Recs (fun pf => narrowFieldU S (narrow32U S n) d pf = true) b := by
  intro xs
  induction xs with
  | nil =>
    intro b _ h _
    rw [dumpItems_nil] at h; injection h with h; subst h
    exact Recs.nil _
  | cons x xs ihx =>
    intro b hx h hbl
    have hx0 := hx x (by simp)
    rw [dumpItems_wrap S f w x xs hwf.ty hwf.wr hx0] at h
    cases hp : wrapperBytes S w x with
    | error e => rw [hp] at h; simp at h
    | ok p =>
      rw [hp] at h; simp only [bind_ok] at h
      cases hr : dumpItems S f xs with
      | error e => rw [hr] at h; simp at h
      | ok r =>
        rw [hr] at h; simp only [bind_ok] at h
        injection h with h; subst h
        simp only [List.length_append] at hbl
        refine Recs.append (recs_len S _ d k f p hd hk hwf.num (by omega)
          (fun hc => by rw [hwf.ty] at hc; exact absurd hc (by decide)) ?_)
          (ihx r (fun y hy => hx y (by simp [hy])) hr (by omega))
        intro d' hd'
        rw [subDesc_wraps S f w hwf] at hd'
        injection hd' with hd'; subst hd'
        exact narrow32U_wrapper S w x p n hwf.wty hx0 hp (by omega)

/-! ### map fields: one record per entry -/

theorem dumpEntries_nil_left (S : Schema) (f : FieldD) (vs : List Val) : dumpEntries S f [] vs = .ok [] := by
  rw [dumpEntries]; all_goals (intros; contradiction)

theorem dumpEntries_nil_right (S : Schema) (f : FieldD) (ks : List Val) : dumpEntries S f ks [] = .ok [] := by
  rw [dumpEntries]; all_goals (intros; contradiction)

/-- what the walk needs of one map value: its half of the entry splits into accepted records -/
def ValNar (S : Schema) (n : Nat) (f : FieldD) (x : Val) : Prop :=
  ∀ m, m + 1 = n → ∀ sv, dumpEntryVal S f x = .ok sv → sv.length < 2 ^ 64 →
    Recs (fun pf => narrowFieldU S (narrow32U S m) (entryD f) pf = true) sv

theorem recs_entries (S : Schema) (n : Nat) (d : MsgD) (k : Nat) (f : FieldD)
    (hd : NumsDistinct d.fields) (hk : d.fields[k]? = some f) (hty : f.ty = PType.map)
    (hnum : numOk f.num = true) (hkt : isMapKeyType f.mapK = true) :
    ∀ (ks vs : List Val) (b : Bytes), (∀ x ∈ ks, scalarOk f.mapK x = true) → (∀ x ∈ vs, ValNar S n f x) →
      dumpEntries S f ks vs = .ok b → b.length < 2 ^ 64 →
      Recs (fun pf => narrowFieldU S (narrow32U S n) d pf = true) b := by
  intro ks
  induction ks with
  | nil =>
    intro vs b _ _ h _
    rw [dumpEntries_nil_left] at h; injection h with h; subst h
    exact Recs.nil _
  | cons k0 ks ihk =>
    intro vs b hks hvs h hbl
    cases vs with
    | nil =>
      rw [dumpEntries_nil_right] at h; injection h with h; subst h
      exact Recs.nil _
    | cons v0 vs =>
      rw [dumpEntries_cons] at h
      cases hsk : serializeScalar S 1 f.mapK k0 false Option.none with
      | error e => rw [hsk] at h; simp at h
      | ok sk =>
        rw [hsk] at h; simp only [bind_ok] at h
        cases hsv : dumpEntryVal S f v0 with
        | error e => rw [hsv] at h; simp at h
        | ok sv =>
          rw [hsv] at h; simp only [bind_ok] at h
          rw [hty, frame_map] at h; simp only [bind_ok] at h
          cases hr : dumpEntries S f ks vs with
          | error e => rw [hr] at h; simp at h
          | ok r =>
            rw [hr] at h; simp only [bind_ok] at h
            injection h with h; subst h
            simp only [List.length_append] at hbl
            have hpl : (sk ++ sv).length < 2 ^ 64 := by simp only [List.length_append]; omega
            refine Recs.append (recs_len S _ d k f (sk ++ sv) hd hk hnum hpl
              (fun hc => by rw [hty] at hc; exact absurd hc (by decide)) ?_)
              (ihk vs r (fun y hy => hks y (by simp [hy])) (fun y hy => hvs y (by simp [hy])) hr (by omega))
            intro d' hd'
            rw [subDesc_map S f hty] at hd'
            injection hd' with hd'; subst hd'
            cases n with
            | zero => rfl
            | succ m =>
              apply narrow32U_of_recs
              simp only [List.length_append] at hpl
              exact Recs.append
                (recs_entry_key S _ f k0 sk hkt (hks k0 (by simp)) (by omega) hsk)
                (hvs v0 (by simp) m rfl sv hsv (by omega))

/-! ### one slot -/

theorem recs_flat (S : Schema) (nb : MsgD → Bytes → Bool) (d : MsgD) (k : Nat) (f : FieldD) (cur : List (Option Nat))
    (v : Val) (b : Bytes) (hd : NumsDistinct d.fields) (hk : d.fields[k]? = some f)
    (hff : FlatField f) (hok : flatSlotOk f v = true)
    (hph : v = Val.ph → ∀ g, f.group = some g → cur.getD g Option.none ≠ some k)
    (hb : dumpSlot S f (hidden f k cur) (selectedInGroup f k cur) v = .ok b) (hbl : b.length < 2 ^ 64) :
    Recs (fun pf => narrowFieldU S nb d pf = true) b := by
  have hnil : b = [] → Recs (fun pf => narrowFieldU S nb d pf = true) b := fun h => h ▸ Recs.nil _
  have hsc : ∀ (hr : f.repeated = false) (hv : scalarOk f.ty v = true),
      Recs (fun pf => narrowFieldU S nb d pf = true) b := by
    intro hr hv
    obtain ⟨hpl, _⟩ := scalarOk_plain f.ty v hv
    rw [dumpSlot_plain S f _ _ v hpl] at hb
    split at hb
    · injection hb with hb; exact hnil hb.symm
    · split at hb
      · injection hb with hb; exact hnil hb.symm
      · rw [hff.nw] at hb
        exact recs_scalar S nb d k f v _ b hd hk hff.num hff.sc hv hbl hb
  cases v with
  | ph => exact hnil (ph_emits_nothing S f k cur b (by simpa [flatSlotOk] using hok) (hph rfl) hb)
  | none => rw [dumpSlot] at hb; injection hb with hb; exact hnil hb.symm
  | list xs =>
    simp [flatSlotOk] at hok
    obtain ⟨hr, hx⟩ := hok
    obtain ⟨ho, hg⟩ := hff.rep hr
    have hh : hidden f k cur = false := by unfold hidden; rw [hg]
    have hs : selectedInGroup f k cur = false := by unfold selectedInGroup; rw [hg]
    have hdk : f.defKind = .list := by unfold FieldD.defKind; simp [hr]
    rw [hh, hs, dumpSlot] at hb
    simp only [Bool.false_eq_true, if_false, hg, ho, Option.isSome_none, Bool.or_self, Bool.not_false,
      Bool.and_true, hdk] at hb
    have hed : eqDefault S .list (.list xs) = xs.isEmpty := by rw [eqDefault]; simp
    rw [hed] at hb
    by_cases hxe : xs.isEmpty = true
    · rw [if_pos hxe] at hb; injection hb with hb; exact hnil hb.symm
    · rw [if_neg hxe] at hb
      by_cases hp : isPacked f.ty = true
      · rw [if_pos hp] at hb
        cases hbuf : prepPacked S f.ty xs with
        | error e => rw [hbuf] at hb; simp at hb
        | ok buf =>
          rw [hbuf] at hb; simp only [bind_ok] at hb
          by_cases hbe : buf = []
          · subst hbe
            have : frame f.num PType.bytes [] false false = .ok [] := by
              unfold frame
              rw [if_neg (by decide), if_neg (by decide), if_neg (by decide), if_pos (by decide),
                if_neg (by decide)]
            rw [this] at hb; injection hb with hb; exact hnil hb.symm
          · rw [frame_bytes f.num buf hbe] at hb
            injection hb with hb; subst hb
            simp only [List.length_append] at hbl
            refine recs_len S nb d k f buf hd hk hff.num (by omega) ?_ ?_
            · intro hnt
              exact packed_narrow S f.ty hp hnt xs buf (fun x hx' => hx x hx') hbuf _
            · intro d' hd'
              rw [subDesc_scalar S f hff.sc] at hd'; simp at hd'
      · rw [if_neg hp] at hb
        exact recs_items_scalar S nb d k f hd hk hff xs b (fun x hx' => hx x hx') hb hbl
  | int i => simp [flatSlotOk] at hok; exact hsc hok.1 hok.2
  | bool b' => simp [flatSlotOk] at hok; exact hsc hok.1 hok.2
  | f32 b' => simp [flatSlotOk] at hok; exact hsc hok.1 hok.2
  | f64 b' => simp [flatSlotOk] at hok; exact hsc hok.1 hok.2
  | str s => simp [flatSlotOk] at hok; exact hsc hok.1 hok.2
  | byt s => simp [flatSlotOk] at hok; exact hsc hok.1 hok.2
  | ts us => simp [flatSlotOk, scalarOk] at hok
  | dur us => simp [flatSlotOk, scalarOk] at hok
  | dict ks vs => simp [flatSlotOk, scalarOk] at hok
  | msg c' sl' ow' unk' cur' => simp [flatSlotOk, scalarOk] at hok

/-- a Timestamp / Duration value in a message-typed field: nothing, or one record whose payload
    is decoded with `secNanosD` -/
theorem recs_time (S : Schema) (n : Nat) (d : MsgD) (k : Nat) (f : FieldD) (isDur : Bool) (hid sel : Bool)
    (v : Val) (b : Bytes) (hd : NumsDistinct d.fields) (hk : d.fields[k]? = some f) (htf : TimeField f isDur)
    (hv : isTimeVal v = true) (hb : dumpSlot S f hid sel v = .ok b) (hbl : b.length < 2 ^ 64) :
    Recs (fun pf => narrowFieldU S (narrow32U S n) d pf = true) b := by
  have hnil : b = [] → Recs (fun pf => narrowFieldU S (narrow32U S n) d pf = true) b := fun h => h ▸ Recs.nil _
  rw [dumpSlot_time S f isDur hid sel v htf hv] at hb
  split at hb
  · injection hb with hb; exact hnil hb.symm
  · split at hb
    · injection hb with hb; exact hnil hb.symm
    · cases hp : prepScalar S PType.message Option.none v with
      | error e => rw [hp] at hb; simp at hb
      | ok p =>
        rw [hp] at hb; simp only [bind_ok] at hb
        split at hb
        · injection hb with hb; subst hb
          simp only [List.length_append] at hbl
          refine recs_len S _ d k f p hd hk htf.num (by omega)
            (fun hc => by rw [htf.ty] at hc; exact absurd hc (by decide)) ?_
          intro d' hd'
          rw [subDesc_timeKind S f isDur htf.ty htf.nw htf.kind] at hd'
          injection hd' with hd'; subst hd'
          exact narrow32U_secNanos S n p
        · injection hb with hb; exact hnil hb.symm

/-- a dict in a map field -/
theorem recs_map (S : Schema) (n : Nat) (d : MsgD) (k : Nat) (f : FieldD) (cur : List (Option Nat))
    (ks vs : List Val) (b : Bytes) (hd : NumsDistinct d.fields) (hk : d.fields[k]? = some f)
    (hty : f.ty = PType.map) (hnum : numOk f.num = true) (hkt : isMapKeyType f.mapK = true)
    (hrep : f.repeated = false) (hopt : f.optional = false) (hgrp : f.group = Option.none)
    (hks : ∀ x ∈ ks, scalarOk f.mapK x = true) (hvs : ∀ x ∈ vs, ValNar S n f x)
    (hb : dumpSlot S f (hidden f k cur) (selectedInGroup f k cur) (.dict ks vs) = .ok b)
    (hbl : b.length < 2 ^ 64) :
    Recs (fun pf => narrowFieldU S (narrow32U S n) d pf = true) b := by
  have hh : hidden f k cur = false := by unfold hidden; rw [hgrp]
  have hs : selectedInGroup f k cur = false := by unfold selectedInGroup; rw [hgrp]
  rw [hh, hs, dumpSlot_map S f ks vs hty hrep hopt hgrp] at hb
  split at hb
  · injection hb with hb; subst hb; exact Recs.nil _
  · exact recs_entries S n d k f hd hk hty hnum hkt ks vs b hks hvs hb hbl

/-- **one slot**: the bytes a well-typed slot value contributes split into records that
    `narrowFieldU` accepts, given the statement for the nested messages at every fuel ≤ `n` -/
theorem recs_slot (S : Schema) (n : Nat) (ih : ∀ m, m ≤ n → DumpNar S m)
    (d : MsgD) (k : Nat) (f : FieldD) (cur : List (Option Nat)) (v : Val) (b : Bytes)
    (hd : NumsDistinct d.fields) (hk : d.fields[k]? = some f) (hso : SlotOk S f v)
    (hph : v = Val.ph → ∀ g, f.group = some g → cur.getD g Option.none ≠ some k)
    (hb : dumpSlot S f (hidden f k cur) (selectedInGroup f k cur) v = .ok b) (hbl : b.length < 2 ^ 64) :
    Recs (fun pf => narrowFieldU S (narrow32U S n) d pf = true) b := by
  have hnil : b = [] → Recs (fun pf => narrowFieldU S (narrow32U S n) d pf = true) b := fun h => h ▸ Recs.nil _
  have hnone : v = Val.none → Recs (fun pf => narrowFieldU S (narrow32U S n) d pf = true) b := by
    intro hv; subst hv
    rw [dumpSlot] at hb; injection hb with hb; exact hnil hb.symm
  cases hso with
  | flat _ _ hff hok => exact recs_flat S _ d k f cur v b hd hk hff hok hph hb hbl
  | unsetAny _ ho => exact hnil (ph_emits_nothing S f k cur b ho (hph rfl) hb)
  | noneAny _ _ => exact hnone rfl
  | unsetSub _ _ _ ho => exact hnil (ph_emits_nothing S f k cur b ho (hph rfl) hb)
  | noneSub _ _ _ _ => exact hnone rfl
  | sub _ c' sl' ow' unk' cur' hsf hr hmo =>
    rw [dumpSlot_sub S f c' _ _ sl' ow' unk' cur' hsf] at hb
    split at hb
    · injection hb with hb; exact hnil hb.symm
    · split at hb
      · injection hb with hb; exact hnil hb.symm
      · cases hbody : dumpSlots S (fieldsOf S c') cur' 0 sl' with
        | error e => rw [hbody] at hb; simp at hb
        | ok body =>
          rw [hbody] at hb; simp only [bind_ok] at hb
          split at hb
          · injection hb with hb; subst hb
            simp only [List.length_append] at hbl
            have hdv : dumpVal S (.msg c' sl' ow' unk' cur') = .ok (body ++ unk') := by
              rw [dumpVal_msg, hbody]; rfl
            refine recs_len S _ d k f (body ++ unk') hd hk hsf.num (by simp only [List.length_append]; omega)
              (fun hc => by rw [hsf.ty] at hc; exact absurd hc (by decide)) ?_
            intro d' hd'
            rw [subDesc_sub S f c' hsf] at hd'
            exact ih n (Nat.le_refl n) c' d' sl' ow' unk' cur' _ hmo hd' hdv (by simp only [List.length_append]; omega)
          · injection hb with hb; exact hnil hb.symm
  | subs _ c' xs hsf hr hms =>
    obtain ⟨ho, hg⟩ := hsf.rep hr
    have hh : hidden f k cur = false := by unfold hidden; rw [hg]
    have hs : selectedInGroup f k cur = false := by unfold selectedInGroup; rw [hg]
    rw [hh, hs, dumpSlot_subs S f c' xs hsf hr] at hb
    exact recs_items_msg S n (ih n (Nat.le_refl n)) d k f c' hd hk hsf xs b hms hb hbl
  | unsetTime _ _ _ ho => exact hnil (ph_emits_nothing S f k cur b ho (hph rfl) hb)
  | noneTime _ _ _ _ => exact hnone rfl
  | ts _ us htf _ => exact recs_time S n d k f false _ _ _ b hd hk htf rfl hb hbl
  | dur _ us htf _ => exact recs_time S n d k f true _ _ _ b hd hk htf rfl hb hbl
  | unsetWrap _ _ _ ho => exact hnil (ph_emits_nothing S f k cur b ho (hph rfl) hb)
  | noneWrap _ _ _ _ => exact hnone rfl
  | wrap _ w _ hwf hv =>
    rw [dumpSlot_wrap S f w _ _ v hwf hv] at hb
    split at hb
    · injection hb with hb; exact hnil hb.symm
    · cases hp : wrapperBytes S w v with
      | error e => rw [hp] at hb; simp at hb
      | ok p =>
        rw [hp] at hb; simp only [bind_ok] at hb
        injection hb with hb; subst hb
        simp only [List.length_append] at hbl
        refine recs_len S _ d k f p hd hk hwf.num (by omega)
          (fun hc => by rw [hwf.ty] at hc; exact absurd hc (by decide)) ?_
        intro d' hd'
        rw [subDesc_wrap S f w hwf] at hd'
        injection hd' with hd'; subst hd'
        exact narrow32U_wrapper S w v p n hwf.wty hv hp (by omega)
  | unsetMapS _ hmf => exact hnil (ph_emits_nothing S f k cur b hmf.opt (hph rfl) hb)
  | unsetMapM _ _ hmf => exact hnil (ph_emits_nothing S f k cur b hmf.opt (hph rfl) hb)
  | mapS _ ks vs hmf _ hks hvs _ =>
    refine recs_map S n d k f cur ks vs b hd hk hmf.ty hmf.num hmf.kty hmf.rep hmf.opt hmf.grp hks ?_ hb hbl
    intro x hx m _ sv hsv hsl
    exact recs_entry_val_scalar S _ f x sv hmf.vty (hvs x hx) hsl hsv
  | mapM _ c' ks vs hmf _ hks hms _ =>
    refine recs_map S n d k f cur ks vs b hd hk hmf.ty hmf.num hmf.kty hmf.rep hmf.opt hmf.grp hks ?_ hb hbl
    intro x hx m hm sv hsv hsl
    obtain ⟨⟨sl0, ow0, unk0, cur0, hxe⟩, hmo⟩ := msgsOk_mem S c' vs hms x hx
    subst hxe
    rw [dumpEntryVal_msg S f _ hmf.vty ⟨_, _, _, _, _, rfl⟩] at hsv
    cases hp : dumpVal S (.msg c' sl0 ow0 unk0 cur0) with
    | error e => rw [hp] at hsv; simp at hsv
    | ok p =>
      rw [hp] at hsv; simp only [bind_ok] at hsv
      refine recs_entry_val_len S _ f p sv hmf.vty hsl ?_ hsv
      intro d' hd'
      rw [subDesc_entry_val S f hmf.vty, hmf.vk] at hd'
      have hpl : p.length < 2 ^ 64 := by
        by_cases hp0 : (p.length != 0) = true
        · rw [if_pos hp0] at hsv
          injection hsv with hsv; subst hsv
          simp only [List.length_append] at hsl; omega
        · simp at hp0; rw [hp0]; decide
      exact ih m (by omega) c' d' sl0 ow0 unk0 cur0 p hmo hd' hp hpl
  | tss _ xs htf hxs =>
    have hh : hidden f k cur = false := by unfold hidden; rw [htf.grp]
    have hs : selectedInGroup f k cur = false := by unfold selectedInGroup; rw [htf.grp]
    rw [hh, hs, dumpSlot_times S f false xs htf] at hb
    exact recs_items_time S n d k f false hd hk htf xs b hxs hb hbl
  | durs _ xs htf hxs =>
    have hh : hidden f k cur = false := by unfold hidden; rw [htf.grp]
    have hs : selectedInGroup f k cur = false := by unfold selectedInGroup; rw [htf.grp]
    rw [hh, hs, dumpSlot_times S f true xs htf] at hb
    exact recs_items_time S n d k f true hd hk htf xs b hxs hb hbl
  | wraps _ w xs hwf hxs =>
    have hh : hidden f k cur = false := by unfold hidden; rw [hwf.grp]
    have hs : selectedInGroup f k cur = false := by unfold selectedInGroup; rw [hwf.grp]
    rw [hh, hs, dumpSlot_wraps S f w xs hwf] at hb
    exact recs_items_wrap S n d k f w hd hk hwf xs b hxs hb hbl
  | mapT _ isDur ks vs hmf _ hks hvs _ =>
    refine recs_map S n d k f cur ks vs b hd hk hmf.ty hmf.num hmf.kty hmf.rep hmf.opt hmf.grp hks ?_ hb hbl
    intro x hx m _ sv hsv hsl
    have hxt : isTimeVal x = true := by
      have := hvs x hx
      cases x <;> simp [timeValOk] at this <;> rfl
    rw [dumpEntryVal_time S f x hmf.vty hxt] at hsv
    cases hp : prepScalar S PType.message Option.none x with
    | error e => rw [hp] at hsv; simp at hsv
    | ok p =>
      rw [hp] at hsv; simp only [bind_ok] at hsv
      refine recs_entry_val_len S _ f p sv hmf.vty hsl ?_ hsv
      intro d' hd'
      rw [subDesc_entry_val S f hmf.vty, hmf.vk] at hd'
      have : d' = secNanosD := by
        cases isDur <;> (simp only [Bool.false_eq_true, if_false, if_true] at hd'; injection hd' with hd'; exact hd'.symm)
      subst this
      exact narrow32U_secNanos S m p

/-! ### all slots, the whole message -/

theorem recs_slots (S : Schema) (P : PField → Prop) (fs : List FieldD) (cur : List (Option Nat)) :
    ∀ (vs : List Val) (k : Nat) (out : Bytes), dumpSlots S fs cur k vs = .ok out →
      (∀ j f v b, fs[k + j]? = some f → vs[j]? = some v →
        dumpSlot S f (hidden f (k + j) cur) (selectedInGroup f (k + j) cur) v = .ok b →
        b.length ≤ out.length → Recs P b) →
      Recs P out := by
  intro vs
  induction vs with
  | nil =>
    intro k out h _
    rw [dumpSlots] at h; injection h with h; subst h
    exact Recs.nil _
  | cons v vs ih =>
    intro k out h H
    rw [dumpSlots] at h
    cases hf : fs[k]? with
    | none => rw [hf] at h; simp only at h; injection h with h; subst h; exact Recs.nil _
    | some f =>
      rw [hf] at h; simp only at h
      cases ha : dumpSlot S f (hidden f k cur) (selectedInGroup f k cur) v with
      | error e => rw [ha] at h; simp at h
      | ok a =>
        rw [ha] at h; simp only [bind_ok] at h
        cases hr : dumpSlots S fs cur (k + 1) vs with
        | error e => rw [hr] at h; simp at h
        | ok r =>
          rw [hr] at h; simp only [bind_ok] at h
          injection h with h; subst h
          refine Recs.append (H 0 f v a (by simpa using hf) (by simp) (by simpa using ha) (by simp)) ?_
          apply ih (k + 1) r hr
          intro j g w b hg hw hb hl
          have e : k + 1 + j = k + (j + 1) := by omega
          rw [e] at hg hb
          exact H (j + 1) g w b hg (by simpa using hw) hb (by simp only [List.length_append]; omega)

/-- **the encoder's output satisfies `narrow32U`, at every nesting fuel** -/
theorem dumpNar_all (S : Schema) : ∀ n, DumpNar S n := by
  intro n
  induction n using Nat.strongRecOn with
  | _ n ih =>
  cases n with
  | zero => intro c d sl ow unk cur bs _ _ _ _; rfl
  | succ n =>
    intro c d sl ow unk cur bs hmsg hd hdump hbl
    cases hmsg with
    | mk _ d' _ _ _ _ hd' hdist hwfg hgrpopt hcurlen hcurok hinv hselset hslots hunk =>
    rw [hd] at hd'; injection hd' with hd'; subst hd'
    have hfo : fieldsOf S c = d.fields := by simp [fieldsOf, hd]
    obtain ⟨body, hbody, hbs⟩ : ∃ body, dumpSlots S d.fields cur 0 sl = .ok body ∧ bs = body ++ unk := by
      rw [dumpVal_msg, hfo] at hdump
      cases hb : dumpSlots S d.fields cur 0 sl with
      | error e => rw [hb] at hdump; simp at hdump
      | ok body => rw [hb] at hdump; simp only [bind_ok] at hdump; injection hdump with h; exact ⟨body, rfl, h.symm⟩
    subst hbs
    simp only [List.length_append] at hbl
    apply narrow32U_of_recs
    refine Recs.append ?_ (recs_unk S _ d unk hunk)
    apply recs_slots S _ d.fields cur sl 0 body hbody
    intro j f v b hf hv hb hle
    simp only [Nat.zero_add] at hf hb
    have hvD : sl.getD j .ph = v := by simp [List.getD_eq_getElem?_getD, hv]
    refine recs_slot S n (fun m hm => ih m (by omega)) d j f cur v b hdist hf
      (slotsOk_get S _ _ hslots j f v hf hv) ?_ hb (by omega)
    intro hvp g _ hc
    exact hselset g j hc (by rw [hvD, hvp])

/-- **`dump_narrow`, in the form that is true**: the bytes of a well-typed message satisfy the
    weakened input guard of `load_complete` -/
theorem dump_narrowU (S : Schema) (c : Nat) (d : MsgD) (hd : S[c]? = some d)
    (sl : List Val) (ow : Bool) (unk : Bytes) (cur : List (Option Nat))
    (hm : MsgOk S (.msg c sl ow unk cur)) (bs : Bytes) (hdump : dumpVal S (.msg c sl ow unk cur) = .ok bs)
    (hbl : bs.length < 2 ^ 64) (n : Nat) : narrow32U S n d bs = true :=
  dumpNar_all S n c d sl ow unk cur bs hm hd hdump hbl

end Bp.Link

#print axioms Bp.Link.dump_narrowU
