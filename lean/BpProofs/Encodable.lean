import BpModel.All
import BpProofs.RtMain
/-
  C01, totality of the encoder on the domain of the round-trip theorem: every well-typed
  message value (`MsgOk`, BpProofs/NestedDefs.lean) CAN be encoded — `dumpVal` returns
  `.ok`.  The round-trip theorem `roundtrip_nested_partial` takes the encoding as a
  hypothesis; with `msgOk_encodable` that hypothesis is discharged.

  Structure: leaf lemmas (framing, Timestamp / Duration payloads, wrappers, the
  materialised default of an unset slot, item lists and map entries given encodable
  elements), then one mutual structural recursion over `Val` / `List Val` in the pattern
  of `msgOkB_complete`.
-/
namespace Bp
open Gen

/-! ### framing and the leaf payloads are total -/

/-- `_serialize_single`'s framing half never fails: every proto type has a wire type -/
theorem frame_ok (num : Nat) (t : PType) (pre : Bytes) (se w : Bool) :
    ∃ out, frame num t pre se w = .ok out := by
  unfold frame
  simp only [dumpVarint_nat, bind_ok]
  split
  · exact ⟨_, rfl⟩
  · split
    · exact ⟨_, rfl⟩
    · split
      · exact ⟨_, rfl⟩
      · split
        · split <;> exact ⟨_, rfl⟩
        · rename_i h1 h2 h3 h4
          exfalso
          revert h1 h2 h3 h4
          cases t <;> decide

/-- a varint in the signed 64-bit range (and above) can be written -/
theorem dumpVarint_ok (v : Int) (h : -9223372036854775808 ≤ v) : ∃ b, dumpVarint v = .ok b := by
  unfold dumpVarint two63
  rw [if_neg (by omega)]
  split <;> exact ⟨_, rfl⟩

/-- `bytes(Timestamp(s, ns))` / `bytes(Duration(s, ns))` -/
theorem secNanosBytes_ok (s ns : Int) (hs : -9223372036854775808 ≤ s) (hn : -9223372036854775808 ≤ ns) :
    ∃ p, secNanosBytes s ns = .ok p := by
  unfold secNanosBytes
  have ha : ∃ a, (if s == 0 then (Except.ok [] : R Bytes)
      else (dumpVarint s).bind fun b => frame 1 .int64 b false false) = .ok a := by
    split
    · exact ⟨_, rfl⟩
    · obtain ⟨b, hb⟩ := dumpVarint_ok s hs
      rw [hb]; exact frame_ok _ _ _ _ _
  have hb : ∃ a, (if ns == 0 then (Except.ok [] : R Bytes)
      else (dumpVarint ns).bind fun b => frame 2 .int32 b false false) = .ok a := by
    split
    · exact ⟨_, rfl⟩
    · obtain ⟨b, hb⟩ := dumpVarint_ok ns hn
      rw [hb]; exact frame_ok _ _ _ _ _
  obtain ⟨a, ha⟩ := ha
  obtain ⟨b, hb⟩ := hb
  rw [ha, hb]
  exact ⟨_, rfl⟩

/-- the payload of an in-range datetime / timedelta -/
theorem prepScalar_time_ok (S : Schema) (isDur : Bool) (x : Val) (hx : timeValOk isDur x = true) :
    ∃ p, prepScalar S PType.message Option.none x = .ok p := by
  cases isDur with
  | false =>
    obtain ⟨us, rfl, hus⟩ := timeValOk_ts x hx
    obtain ⟨hs, hn⟩ := tsSplit_range us hus
    exact secNanosBytes_ok _ _ hs.1 (by omega)
  | true =>
    obtain ⟨us, rfl, hus⟩ := timeValOk_dur x hx
    obtain ⟨hs, hn⟩ := durSplit_range us hus
    exact secNanosBytes_ok _ _ hs.1 (by omega)

theorem timeValOk_isTime (isDur : Bool) (x : Val) (hx : timeValOk isDur x = true) : isTimeVal x = true := by
  cases x <;> first | rfl | (simp [timeValOk] at hx)

/-- `bytes(Wrapper(value=v))` for a well-typed scalar -/
theorem wrapperBytes_ok (S : Schema) (w : PType) (v : Val) (hw : isScalarType w = true)
    (hv : scalarOk w v = true) : ∃ p, wrapperBytes S w v = .ok p := by
  by_cases hdef : scalarIsDefault S w v = true
  · unfold wrapperBytes; rw [if_pos hdef]; exact ⟨_, rfl⟩
  · rw [wrapperBytes_nondefault S w v hw hdef]
    exact serializeScalar_ok S 1 w v false hw hv

/-! ### an unset slot: the materialised default can always be written -/

/-- what `_get_field_default_gen` yields, with what it says about the field -/
theorem defKind_cases (f : FieldD) :
    f.defKind = .list ∨ f.defKind = .dict ∨ f.defKind = .none
    ∨ (f.ty = PType.message ∧ f.wraps = Option.none ∧ f.defKind = msgKindDef f.kind)
    ∨ (isScalarType f.ty = true ∧ f.wraps = Option.none ∧ f.defKind = scalarDef f.ty) := by
  unfold FieldD.defKind
  split
  · exact Or.inl rfl
  · split
    · exact Or.inr (Or.inl rfl)
    · split
      · exact Or.inr (Or.inr (Or.inl rfl))
      · rename_i h1 h2 h3
        have hw : f.wraps = Option.none := by
          cases hwr : f.wraps with
          | none => rfl
          | some w => rw [hwr] at h3; simp at h3
        split
        · rename_i h4
          exact Or.inr (Or.inr (Or.inr (Or.inl ⟨by simpa using h4, hw, rfl⟩)))
        · rename_i h4
          refine Or.inr (Or.inr (Or.inr (Or.inr ⟨?_, hw, rfl⟩)))
          unfold isScalarType
          simp only [bne_iff_ne, ne_eq, Bool.and_eq_true]
          exact ⟨by simpa using h4, by simpa using h2⟩

/-- **`Message.dump` on a PLACEHOLDER slot never fails**, whatever the field -/
theorem dumpDefault_ok (S : Schema) (f : FieldD) (sel : Bool) : ∃ bs, dumpDefault S f sel = .ok bs := by
  unfold dumpDefault
  rcases defKind_cases f with h | h | h | ⟨hty, hw, h⟩ | ⟨hty, hw, h⟩
  · rw [h]; dsimp only
    split
    · exact ⟨_, rfl⟩
    · split
      · exact frame_ok _ _ _ _ _
      · exact ⟨_, rfl⟩
  · rw [h]; dsimp only
    split <;> exact ⟨_, rfl⟩
  · rw [h]; exact ⟨_, rfl⟩
  · rw [h]
    cases hk : f.kind with
    | user c =>
      simp only [msgKindDef]
      split
      · exact ⟨_, rfl⟩
      · rw [hty, if_pos (by decide)]; exact frame_ok _ _ _ _ _
    | timestamp =>
      simp only [msgKindDef]
      split
      · exact ⟨_, rfl⟩
      · unfold serializeScalar
        rw [hty, hw]
        simp only [defaultOfKind]
        obtain ⟨p, hp⟩ := prepScalar_time_ok S false (.ts 0) (by decide)
        rw [hp]; exact frame_ok _ _ _ _ _
    | duration =>
      simp only [msgKindDef]
      split
      · exact ⟨_, rfl⟩
      · unfold serializeScalar
        rw [hty, hw]
        simp only [defaultOfKind]
        obtain ⟨p, hp⟩ := prepScalar_time_ok S true (.dur 0) (by decide)
        rw [hp]; exact frame_ok _ _ _ _ _
  · rw [h, hw]
    have hok := scalarOk_default S f.ty hty
    rcases scalarDef_cases f.ty with e | e | e | e | e | e <;> rw [e] at hok ⊢ <;> dsimp only <;>
      (split
       · exact ⟨_, rfl⟩
       · exact serializeScalar_ok S _ _ _ _ hty hok)

/-! ### slot shapes: a list / dict slot is encodable when its payload is -/

theorem dumpSlot_list_ok (S : Schema) (f : FieldD) (hid sel : Bool) (xs : List Val)
    (hp : isPacked f.ty = true → ∃ b, prepPacked S f.ty xs = .ok b)
    (hi : isPacked f.ty = false → ∃ b, dumpItems S f xs = .ok b) :
    ∃ bs, dumpSlot S f hid sel (.list xs) = .ok bs := by
  rw [dumpSlot]
  split
  · exact ⟨_, rfl⟩
  · dsimp only
    split
    · exact ⟨_, rfl⟩
    · split
      · rename_i h
        obtain ⟨b, hb⟩ := hp h
        rw [hb]; exact frame_ok _ _ _ _ _
      · rename_i h
        exact hi (by simpa using h)

theorem dumpSlot_dict_ok (S : Schema) (f : FieldD) (hid sel : Bool) (ks vs : List Val)
    (he : ∃ b, dumpEntries S f ks vs = .ok b) :
    ∃ bs, dumpSlot S f hid sel (.dict ks vs) = .ok bs := by
  rw [dumpSlot]
  split
  · exact ⟨_, rfl⟩
  · dsimp only
    split
    · exact ⟨_, rfl⟩
    · exact he

/-- a scalar / string / bytes value in a flat field -/
theorem dumpSlot_scalar_ok (S : Schema) (f : FieldD) (hid sel : Bool) (v : Val) (hff : FlatField f)
    (hv : scalarOk f.ty v = true) : ∃ bs, dumpSlot S f hid sel v = .ok bs := by
  obtain ⟨hpl, _⟩ := scalarOk_plain f.ty v hv
  rw [dumpSlot_plain S f hid sel v hpl]
  split
  · exact ⟨_, rfl⟩
  · split
    · exact ⟨_, rfl⟩
    · rw [hff.nw]; exact serializeScalar_ok S _ _ _ _ hff.sc hv

/-- a datetime / timedelta in a singular Timestamp / Duration field -/
theorem dumpSlot_time_ok (S : Schema) (f : FieldD) (isDur : Bool) (hid sel : Bool) (v : Val)
    (htf : TimeField f isDur) (hv : timeValOk isDur v = true) : ∃ bs, dumpSlot S f hid sel v = .ok bs := by
  rw [dumpSlot_time S f isDur hid sel v htf (timeValOk_isTime isDur v hv)]
  split
  · exact ⟨_, rfl⟩
  · split
    · exact ⟨_, rfl⟩
    · obtain ⟨p, hp⟩ := prepScalar_time_ok S isDur v hv
      rw [hp, bind_ok]
      split <;> exact ⟨_, rfl⟩

/-- a scalar held by a wrapper field -/
theorem dumpSlot_wrap_ok (S : Schema) (f : FieldD) (w : PType) (hid sel : Bool) (v : Val)
    (hwf : WrapField f w) (hv : scalarOk w v = true) : ∃ bs, dumpSlot S f hid sel v = .ok bs := by
  rw [dumpSlot_wrap S f w hid sel v hwf hv]
  split
  · exact ⟨_, rfl⟩
  · obtain ⟨p, hp⟩ := wrapperBytes_ok S w v hwf.wty hv
    rw [hp]; exact ⟨_, rfl⟩

/-! ### item lists -/

/-- unpacked repeated scalar field (string / bytes — or any scalar type) -/
theorem dumpItems_scalars_ok (S : Schema) (f : FieldD) (hty : isScalarType f.ty = true)
    (hnw : f.wraps = Option.none) :
    ∀ xs : List Val, (∀ x ∈ xs, scalarOk f.ty x = true) → ∃ b, dumpItems S f xs = .ok b
  | [], _ => ⟨[], by rw [dumpItems]⟩
  | x :: xs, hx => by
    have hx0 := hx x (by simp)
    obtain ⟨_, hnm⟩ := scalarOk_plain f.ty x hx0
    have hdi : dumpItems S f (x :: xs) =
        (serializeScalar S f.num f.ty x true f.wraps).bind fun a =>
          (dumpItems S f xs).bind fun r => .ok ((if a.isEmpty then [10, 0] else a) ++ r) := by
      cases x <;> first | (simp [isMsgVal] at hnm; done) | (rw [dumpItems]; all_goals (intros; contradiction))
    obtain ⟨a, ha⟩ := serializeScalar_ok S f.num f.ty x true hty hx0
    obtain ⟨r, hr⟩ := dumpItems_scalars_ok S f hty hnw xs (fun y hy => hx y (by simp [hy]))
    rw [hdi, hnw, ha, hr]
    exact ⟨_, rfl⟩

/-- repeated Timestamp / Duration field -/
theorem dumpItems_times_ok (S : Schema) (f : FieldD) (isDur : Bool) (hty : f.ty = PType.message)
    (hnw : f.wraps = Option.none) :
    ∀ xs : List Val, (∀ x ∈ xs, timeValOk isDur x = true) → ∃ b, dumpItems S f xs = .ok b
  | [], _ => ⟨[], by rw [dumpItems]⟩
  | x :: xs, hx => by
    have hx0 := hx x (by simp)
    obtain ⟨p, hp⟩ := prepScalar_time_ok S isDur x hx0
    obtain ⟨r, hr⟩ := dumpItems_times_ok S f isDur hty hnw xs (fun y hy => hx y (by simp [hy]))
    rw [dumpItems_time S f x xs hty hnw (timeValOk_isTime isDur x hx0), hp, hr]
    exact ⟨_, rfl⟩

/-- repeated wrapper field -/
theorem dumpItems_wraps_ok (S : Schema) (f : FieldD) (w : PType) (hwf : WrapsField f w) :
    ∀ xs : List Val, (∀ x ∈ xs, scalarOk w x = true) → ∃ b, dumpItems S f xs = .ok b
  | [], _ => ⟨[], by rw [dumpItems]⟩
  | x :: xs, hx => by
    have hx0 := hx x (by simp)
    obtain ⟨p, hp⟩ := wrapperBytes_ok S w x hwf.wty hx0
    obtain ⟨r, hr⟩ := dumpItems_wraps_ok S f w hwf xs (fun y hy => hx y (by simp [hy]))
    rw [dumpItems_wrap S f w x xs hwf.ty hwf.wr hx0, hp, hr]
    exact ⟨_, rfl⟩

/-- repeated message field, given that every element is an encodable message -/
theorem dumpItems_msgs_ok (S : Schema) (f : FieldD) (c : Nat) (hty : f.ty = PType.message)
    (hnw : f.wraps = Option.none) :
    ∀ xs : List Val, (∀ x ∈ xs, (∃ sl ow unk cur, x = Val.msg c sl ow unk cur) ∧ ∃ p, dumpVal S x = .ok p) →
      ∃ b, dumpItems S f xs = .ok b
  | [], _ => ⟨[], by rw [dumpItems]⟩
  | x :: xs, hx => by
    obtain ⟨⟨sl, ow, unk, cur, rfl⟩, p, hp⟩ := hx x (by simp)
    obtain ⟨r, hr⟩ := dumpItems_msgs_ok S f c hty hnw xs (fun y hy => hx y (by simp [hy]))
    rw [dumpItems_msg S f c sl ow unk cur xs hty hnw, hp, hr]
    exact ⟨_, rfl⟩

/-! ### map entries -/

/-- a map field, given that every key and every value half can be written -/
theorem dumpEntries_ok (S : Schema) (f : FieldD) (hty : f.ty = PType.map) :
    ∀ ks vs : List Val, (∀ k ∈ ks, ∃ b, serializeScalar S 1 f.mapK k false Option.none = .ok b) →
      (∀ v ∈ vs, ∃ b, dumpEntryVal S f v = .ok b) → ∃ b, dumpEntries S f ks vs = .ok b
  | [], _, _, _ => ⟨[], by rw [dumpEntries]; all_goals (intros; contradiction)⟩
  | _ :: _, [], _, _ => ⟨[], by rw [dumpEntries]; all_goals (intros; contradiction)⟩
  | k :: ks, v :: vs, hk, hv => by
    obtain ⟨sk, hsk⟩ := hk k (by simp)
    obtain ⟨sv, hsv⟩ := hv v (by simp)
    obtain ⟨r, hr⟩ := dumpEntries_ok S f hty ks vs (fun y hy => hk y (by simp [hy])) (fun y hy => hv y (by simp [hy]))
    rw [dumpEntries_cons, hsk, hsv, hty]
    simp only [bind_ok]
    rw [frame_map, hr]
    exact ⟨_, rfl⟩

theorem mapKeys_ok (S : Schema) (f : FieldD) (hkty : isMapKeyType f.mapK = true) (ks : List Val)
    (hks : ∀ x ∈ ks, scalarOk f.mapK x = true) :
    ∀ k ∈ ks, ∃ b, serializeScalar S 1 f.mapK k false Option.none = .ok b :=
  fun k hk => serializeScalar_ok S 1 f.mapK k false (mapKey_scalar _ hkty) (hks k hk)

theorem dumpEntryVal_scalar_ok (S : Schema) (f : FieldD) (hvty : isScalarType f.mapV = true) (v : Val)
    (hv : scalarOk f.mapV v = true) : ∃ b, dumpEntryVal S f v = .ok b := by
  obtain ⟨_, hnm⟩ := scalarOk_plain f.mapV v hv
  have hde : dumpEntryVal S f v = serializeScalar S 2 f.mapV v false Option.none := by
    cases v <;> first | rfl | (simp [isMsgVal] at hnm)
  rw [hde]
  exact serializeScalar_ok S 2 f.mapV v false hvty hv

theorem dumpEntryVal_time_ok (S : Schema) (f : FieldD) (isDur : Bool) (hvty : f.mapV = PType.message) (v : Val)
    (hv : timeValOk isDur v = true) : ∃ b, dumpEntryVal S f v = .ok b := by
  obtain ⟨p, hp⟩ := prepScalar_time_ok S isDur v hv
  rw [dumpEntryVal_time S f v hvty (timeValOk_isTime isDur v hv), hp, bind_ok]
  split <;> exact ⟨_, rfl⟩

theorem dumpEntryVal_msg_ok (S : Schema) (f : FieldD) (c : Nat) (hvty : f.mapV = PType.message) (v : Val)
    (hv : (∃ sl ow unk cur, v = Val.msg c sl ow unk cur) ∧ ∃ p, dumpVal S v = .ok p) :
    ∃ b, dumpEntryVal S f v = .ok b := by
  obtain ⟨⟨sl, ow, unk, cur, rfl⟩, p, hp⟩ := hv
  rw [dumpEntryVal_msg S f _ hvty ⟨_, _, _, _, _, rfl⟩, hp, bind_ok]
  split <;> exact ⟨_, rfl⟩

/-- a scalar / string / bytes value: the field is flat or a wrapper -/
theorem plainSlot_encodable (S : Schema) (f : FieldD) (v : Val) (hp : isPlainVal v = true) (h : SlotOk S f v)
    (hid sel : Bool) : ∃ bs, dumpSlot S f hid sel v = .ok bs := by
  cases h with
  | flat _ _ hf hv =>
    have hv' : (!f.repeated && scalarOk f.ty v) = true := by
      cases v <;> first | exact hv | (simp [isPlainVal] at hp)
    simp only [Bool.and_eq_true] at hv'
    exact dumpSlot_scalar_ok S f hid sel v hf hv'.2
  | wrap _ w _ hf hv => exact dumpSlot_wrap_ok S f w hid sel v hf hv
  | ts _ _ hf hv => exact dumpSlot_time_ok S f false hid sel _ hf (by simpa [timeValOk] using hv)
  | dur _ _ hf hv => exact dumpSlot_time_ok S f true hid sel _ hf (by simpa [timeValOk] using hv)
  | _ => simp [isPlainVal] at hp

/-! ### the recursion over the value -/

theorem msgOk_fields (S : Schema) (c : Nat) (sl : List Val) (ow : Bool) (unk : Bytes) (cur : List (Option Nat))
    (h : MsgOk S (.msg c sl ow unk cur)) : SlotsOk S (fieldsOf S c) sl := by
  cases h with
  | mk _ d _ _ _ _ hd _ _ _ _ _ _ _ hsl _ =>
    have : fieldsOf S c = d.fields := by simp [fieldsOf, hd]
    rw [this]; exact hsl

theorem drop_cons_getElem? {α} (F : List α) (idx : Nat) (f : α) (fs : List α) (h : F.drop idx = f :: fs) :
    F[idx]? = some f ∧ F.drop (idx + 1) = fs := by
  constructor
  · have : (F.drop idx)[0]? = F[idx]? := by rw [List.getElem?_drop]; rfl
    rw [← this, h]; rfl
  · have : F.drop (idx + 1) = (F.drop idx).drop 1 := by rw [List.drop_drop]
    rw [this, h]; rfl

/- `slotOk_encodable` holds for ANY `hid` / `sel`, not only for the values the loop of
   `Message.dump` computes from `_group_current`: no branch of `dumpSlot` fails on a `SlotOk`
   slot (in particular `dumpDefault` is total, `dumpDefault_ok`), so the oneof invariant that
   `MsgOk` carries is not needed for encodability.  `slotsOk_encodable` is stated for a suffix
   `F.drop idx` of the field list, which is what `dumpSlots` walks. -/
mutual
theorem msgOk_encodable_rec (S : Schema) : ∀ (m : Val), MsgOk S m → ∃ bs, dumpVal S m = .ok bs
  | .msg c sl ow unk cur, h => by
    obtain ⟨body, hb⟩ := slotsOk_encodable S sl (fieldsOf S c) (msgOk_fields S c sl ow unk cur h) (fieldsOf S c) cur 0 rfl
    rw [dumpVal_msg, hb]; exact ⟨_, rfl⟩
  | .ph, h | .none, h | .int _, h | .bool _, h | .f32 _, h | .f64 _, h | .str _, h | .byt _, h
  | .ts _, h | .dur _, h | .list _, h | .dict _ _, h => by cases h

theorem slotsOk_encodable (S : Schema) : ∀ (vs : List Val) (fs : List FieldD), SlotsOk S fs vs →
    ∀ (F : List FieldD) (cur : List (Option Nat)) (idx : Nat), F.drop idx = fs →
      ∃ bs, dumpSlots S F cur idx vs = .ok bs
  | [], _, _, F, cur, idx, _ => ⟨[], by rw [dumpSlots]⟩
  | _ :: _, [], h, _, _, _, _ => by cases h
  | v :: vs, f :: fs, h, F, cur, idx, hF => by
    cases h with
    | cons _ _ _ _ h1 h2 =>
      obtain ⟨hf, hF'⟩ := drop_cons_getElem? F idx f fs hF
      obtain ⟨a, ha⟩ := slotOk_encodable S f v h1 (hidden f idx cur) (selectedInGroup f idx cur)
      obtain ⟨b, hb⟩ := slotsOk_encodable S vs fs h2 F cur (idx + 1) hF'
      rw [dumpSlots, hf]
      simp only []
      rw [ha, hb]
      exact ⟨_, rfl⟩

theorem slotOk_encodable (S : Schema) (f : FieldD) : ∀ (v : Val), SlotOk S f v → ∀ (hid sel : Bool),
    ∃ bs, dumpSlot S f hid sel v = .ok bs
  | .ph, _, hid, sel => by
    rw [dumpSlot]
    split
    · exact ⟨_, rfl⟩
    · exact dumpDefault_ok S f sel
  | .none, _, hid, sel => ⟨[], by rw [dumpSlot]⟩
  | .msg c sl ow unk cur, h, hid, sel => by
    cases h with
    | flat _ _ hf hv => simp [flatSlotOk, scalarOk] at hv
    | wrap _ w _ hf hv => simp [scalarOk] at hv
    | sub _ _ _ _ _ _ hf hr hm =>
      rw [dumpSlot_sub S f c hid sel sl ow unk cur hf]
      split
      · exact ⟨_, rfl⟩
      · split
        · exact ⟨_, rfl⟩
        · obtain ⟨body, hb⟩ :=
            slotsOk_encodable S sl (fieldsOf S c) (msgOk_fields S c sl ow unk cur hm) (fieldsOf S c) cur 0 rfl
          rw [hb, bind_ok]
          split <;> exact ⟨_, rfl⟩
  | .list xs, h, hid, sel => by
    cases h with
    | flat _ _ hf hv =>
      simp only [flatSlotOk, Bool.and_eq_true, List.all_eq_true] at hv
      exact dumpSlot_list_ok S f hid sel xs
        (fun hp => by obtain ⟨b, hb, _⟩ := prepPacked_ok S f.ty xs hp hv.2; exact ⟨b, hb⟩)
        (fun _ => dumpItems_scalars_ok S f hf.sc hf.nw xs hv.2)
    | wrap _ w _ hf hv => simp [scalarOk] at hv
    | subs _ c _ hf hr hm =>
      exact dumpSlot_list_ok S f hid sel xs
        (fun hp => by rw [hf.ty] at hp; exact absurd hp (by decide))
        (fun _ => dumpItems_msgs_ok S f c hf.ty hf.nw xs (msgsOk_encodable S c xs hm))
    | tss _ _ hf hv =>
      exact dumpSlot_list_ok S f hid sel xs
        (fun hp => by rw [hf.ty] at hp; exact absurd hp (by decide))
        (fun _ => dumpItems_times_ok S f false hf.ty hf.nw xs hv)
    | durs _ _ hf hv =>
      exact dumpSlot_list_ok S f hid sel xs
        (fun hp => by rw [hf.ty] at hp; exact absurd hp (by decide))
        (fun _ => dumpItems_times_ok S f true hf.ty hf.nw xs hv)
    | wraps _ w _ hf hv =>
      exact dumpSlot_list_ok S f hid sel xs
        (fun hp => by rw [hf.ty] at hp; exact absurd hp (by decide))
        (fun _ => dumpItems_wraps_ok S f w hf xs hv)
  | .dict ks vs, h, hid, sel => by
    cases h with
    | flat _ _ hf hv => simp [flatSlotOk, scalarOk] at hv
    | wrap _ w _ hf hv => simp [scalarOk] at hv
    | mapS _ _ _ hf hl hk hv hkd =>
      exact dumpSlot_dict_ok S f hid sel ks vs
        (dumpEntries_ok S f hf.ty ks vs (mapKeys_ok S f hf.kty ks hk)
          (fun v hvm => dumpEntryVal_scalar_ok S f hf.vty v (hv v hvm)))
    | mapM _ c _ _ hf hl hk hm hkd =>
      exact dumpSlot_dict_ok S f hid sel ks vs
        (dumpEntries_ok S f hf.ty ks vs (mapKeys_ok S f hf.kty ks hk)
          (fun v hvm => dumpEntryVal_msg_ok S f c hf.vty v (msgsOk_encodable S c vs hm v hvm)))
    | mapT _ isDur _ _ hf hl hk hv hkd =>
      exact dumpSlot_dict_ok S f hid sel ks vs
        (dumpEntries_ok S f hf.ty ks vs (mapKeys_ok S f hf.kty ks hk)
          (fun v hvm => dumpEntryVal_time_ok S f isDur hf.vty v (hv v hvm)))
  | .ts us, h, hid, sel => by
    cases h with
    | flat _ _ hf hv => simp [flatSlotOk, scalarOk] at hv
    | wrap _ w _ hf hv => simp [scalarOk] at hv
    | ts _ _ hf hv => exact dumpSlot_time_ok S f false hid sel _ hf (by simpa [timeValOk] using hv)
  | .dur us, h, hid, sel => by
    cases h with
    | flat _ _ hf hv => simp [flatSlotOk, scalarOk] at hv
    | wrap _ w _ hf hv => simp [scalarOk] at hv
    | dur _ _ hf hv => exact dumpSlot_time_ok S f true hid sel _ hf (by simpa [timeValOk] using hv)
  | .int i, h, hid, sel => plainSlot_encodable S f (.int i) rfl h hid sel
  | .bool b, h, hid, sel => plainSlot_encodable S f (.bool b) rfl h hid sel
  | .f32 b, h, hid, sel => plainSlot_encodable S f (.f32 b) rfl h hid sel
  | .f64 b, h, hid, sel => plainSlot_encodable S f (.f64 b) rfl h hid sel
  | .str s, h, hid, sel => plainSlot_encodable S f (.str s) rfl h hid sel
  | .byt s, h, hid, sel => plainSlot_encodable S f (.byt s) rfl h hid sel

theorem msgsOk_encodable (S : Schema) (c : Nat) : ∀ (xs : List Val), MsgsOk S c xs →
    ∀ x ∈ xs, (∃ sl ow unk cur, x = Val.msg c sl ow unk cur) ∧ ∃ p, dumpVal S x = .ok p
  | [], _, x, hx => by simp at hx
  | .msg c' sl ow unk cur :: xs, h, x, hx => by
    cases h with
    | cons _ _ _ _ _ _ hm hms =>
      rcases List.mem_cons.mp hx with e | hx'
      · subst e
        refine ⟨⟨_, _, _, _, rfl⟩, ?_⟩
        obtain ⟨body, hb⟩ :=
          slotsOk_encodable S sl (fieldsOf S c) (msgOk_fields S c sl ow unk cur hm) (fieldsOf S c) cur 0 rfl
        rw [dumpVal_msg, hb]; exact ⟨_, rfl⟩
      · exact msgsOk_encodable S c xs hms x hx'
  | .ph :: _, h, _, _ | .none :: _, h, _, _ | .int _ :: _, h, _, _ | .bool _ :: _, h, _, _
  | .f32 _ :: _, h, _, _ | .f64 _ :: _, h, _, _ | .str _ :: _, h, _, _ | .byt _ :: _, h, _, _
  | .ts _ :: _, h, _, _ | .dur _ :: _, h, _, _ | .list _ :: _, h, _, _ | .dict _ _ :: _, h, _, _ => by
    cases h
end

/-- **every well-typed message value can be encoded** -/
theorem msgOk_encodable (S : Schema) (m : Val) (h : MsgOk S m) : ∃ bs, dumpVal S m = .ok bs :=
  msgOk_encodable_rec S m h

/-- companion: the items of a repeated message field -/
theorem msgsOk_dumpItems (S : Schema) (f : FieldD) (c : Nat) (xs : List Val) (hsf : SubField f c)
    (h : MsgsOk S c xs) : ∃ b, dumpItems S f xs = .ok b :=
  dumpItems_msgs_ok S f c hsf.ty hsf.nw xs (msgsOk_encodable S c xs h)

/-- companion: the entries of a map field with message values -/
theorem msgsOk_dumpEntries (S : Schema) (f : FieldD) (c : Nat) (ks vs : List Val) (hmf : MapFieldM f c)
    (hks : ∀ x ∈ ks, scalarOk f.mapK x = true) (h : MsgsOk S c vs) : ∃ b, dumpEntries S f ks vs = .ok b :=
  dumpEntries_ok S f hmf.ty ks vs (mapKeys_ok S f hmf.kty ks hks)
    (fun v hv => dumpEntryVal_msg_ok S f c hmf.vty v (msgsOk_encodable S c vs h v hv))

/-- companion: the slot loop of `Message.dump` over the whole field list -/
theorem slotsOk_dumpSlots (S : Schema) (fs : List FieldD) (cur : List (Option Nat)) (vs : List Val)
    (h : SlotsOk S fs vs) : ∃ bs, dumpSlots S fs cur 0 vs = .ok bs :=
  slotsOk_encodable S vs fs h fs cur 0 rfl

end Bp

#print axioms Bp.msgOk_encodable
#print axioms Bp.slotOk_encodable
#print axioms Bp.slotsOk_dumpSlots
#print axioms Bp.msgsOk_dumpItems
#print axioms Bp.msgsOk_dumpEntries
