import BpModel.EnumM
/-
  Helper lemmas about the enum model (property statements live in Props/C20.lean):
  how `_value_map_` / `_member_map_` evolve through the declaration loop of
  `EnumType.__new__`, by induction over the member list with the class state generalised.
-/
namespace Bp.EnumM
set_option linter.unusedSectionVars false

variable {ν : Type} [DecidableEq ν]

/-! ### association lists -/

theorem assoc_append_single {κ β : Type} [DecidableEq κ] (k k' : κ) (b : β) (l : List (κ × β)) :
    assoc k (l ++ [(k', b)]) =
      match assoc k l with
      | some x => some x
      | none => if k = k' then some b else none := by
  induction l with
  | nil => simp [assoc]
  | cons hd tl ih =>
    obtain ⟨k1, b1⟩ := hd
    simp only [List.cons_append, assoc]
    by_cases h : k = k1
    · simp [h]
    · simp only [h, if_false]; exact ih

theorem assoc_append_single_some {κ β : Type} [DecidableEq κ] (k k' : κ) (b x : β) (l : List (κ × β))
    (h : assoc k l = some x) : assoc k (l ++ [(k', b)]) = some x := by
  rw [assoc_append_single, h]

theorem assoc_append_single_none {κ β : Type} [DecidableEq κ] (k k' : κ) (b : β) (l : List (κ × β))
    (h : assoc k l = none) : assoc k (l ++ [(k', b)]) = if k = k' then some b else none := by
  rw [assoc_append_single, h]

theorem assoc_isSome_of_mem {κ β : Type} [DecidableEq κ] (k : κ) (b : β) (l : List (κ × β))
    (h : (k, b) ∈ l) : (assoc k l).isSome = true := by
  induction l with
  | nil => simp at h
  | cons hd tl ih =>
    obtain ⟨k1, b1⟩ := hd
    simp only [assoc]
    by_cases hk : k = k1
    · simp [hk]
    · simp only [hk, if_false]
      apply ih
      simp only [List.mem_cons, Prod.mk.injEq] at h
      rcases h with h | h
      · exact absurd h.1 hk
      · exact h

theorem assoc_none_of_forall {κ β : Type} [DecidableEq κ] (k : κ) (l : List (κ × β))
    (h : ∀ p ∈ l, p.1 ≠ k) : assoc k l = none := by
  induction l with
  | nil => rfl
  | cons hd tl ih =>
    obtain ⟨k1, b1⟩ := hd
    simp only [assoc]
    have h1 : k ≠ k1 := fun e => h (k1, b1) (by simp) e.symm
    simp only [h1, if_false]
    exact ih (fun p hp => h p (by simp [hp]))

theorem assoc_mem {κ β : Type} [DecidableEq κ] (k : κ) (b : β) (l : List (κ × β))
    (h : assoc k l = some b) : (k, b) ∈ l := by
  induction l with
  | nil => simp [assoc] at h
  | cons hd tl ih =>
    obtain ⟨k1, b1⟩ := hd
    simp only [assoc] at h
    by_cases hk : k = k1
    · simp only [hk, if_true, Option.some.injEq] at h
      simp [hk, h]
    · simp only [hk, if_false] at h
      simp [ih h]

/-! ### first declared name of a number -/

theorem firstName_head (n : ν) (v : Int) (rest : Decl ν) : FirstName ((n, v) :: rest) v n :=
  ⟨[], rest, rfl, by simp⟩

theorem firstName_tail (n n0 : ν) (v v' : Int) (rest : Decl ν) (hne : v' ≠ v)
    (h : FirstName rest v n0) : FirstName ((n, v') :: rest) v n0 := by
  obtain ⟨pre, post, e, hp⟩ := h
  refine ⟨(n, v') :: pre, post, by simp [e], ?_⟩
  intro p hp'
  simp only [List.mem_cons] at hp'
  rcases hp' with rfl | hp'
  · exact hne
  · exact hp p hp'

theorem firstName_cons_inv (n n0 : ν) (v v' : Int) (rest : Decl ν)
    (h : FirstName ((n, v') :: rest) v n0) :
    (v' = v ∧ n = n0) ∨ (v' ≠ v ∧ FirstName rest v n0) := by
  obtain ⟨pre, post, e, hp⟩ := h
  cases pre with
  | nil =>
    simp only [List.nil_append, List.cons.injEq, Prod.mk.injEq] at e
    exact Or.inl ⟨e.1.2, e.1.1⟩
  | cons p pre' =>
    simp only [List.cons_append, List.cons.injEq] at e
    right
    refine ⟨?_, pre', post, e.2, fun q hq => hp q (by simp [hq])⟩
    have := hp p (by simp)
    rw [← e.1] at this
    exact this

theorem defined_firstName (d : Decl ν) (v : Int) (h : Defined d v) : ∃ n0, FirstName d v n0 := by
  induction d with
  | nil => obtain ⟨n, hn⟩ := h; simp at hn
  | cons hd tl ih =>
    obtain ⟨n1, v1⟩ := hd
    by_cases hv : v1 = v
    · subst hv; exact ⟨n1, firstName_head n1 v1 tl⟩
    · obtain ⟨n, hn⟩ := h
      simp only [List.mem_cons, Prod.mk.injEq] at hn
      rcases hn with hn | hn
      · exact absurd hn.2.symm hv
      · obtain ⟨n0, h0⟩ := ih ⟨n, hn⟩
        exact ⟨n0, firstName_tail n1 n0 v v1 tl hv h0⟩

theorem firstName_mem (d : Decl ν) (v : Int) (n0 : ν) (h : FirstName d v n0) : (n0, v) ∈ d := by
  obtain ⟨pre, post, e, _⟩ := h
  simp [e]

theorem firstName_unique (d : Decl ν) (v : Int) (a b : ν) (ha : FirstName d v a) (hb : FirstName d v b) :
    a = b := by
  induction d with
  | nil => obtain ⟨pre, post, e, _⟩ := ha; simp at e
  | cons hd tl ih =>
    obtain ⟨n1, v1⟩ := hd
    rcases firstName_cons_inv n1 a v v1 tl ha with ⟨h1, h2⟩ | ⟨h1, h2⟩
    · rcases firstName_cons_inv n1 b v v1 tl hb with ⟨h3, h4⟩ | ⟨h3, _⟩
      · rw [← h2, ← h4]
      · exact absurd h1 h3
    · rcases firstName_cons_inv n1 b v v1 tl hb with ⟨h3, _⟩ | ⟨_, h4⟩
      · exact absurd h3 h1
      · exact ih h2 h4

/-! ### one declaration -/

theorem declare_memberMap (c : Cls ν) (n : ν) (v : Int) :
    ∃ m, assoc v (declare c n v).valueMap = some m
      ∧ (declare c n v).memberMap = c.memberMap ++ [(n, m)] := by
  unfold declare
  split
  · next m hm => exact ⟨m, hm, rfl⟩
  · next hm =>
    refine ⟨_, ?_, rfl⟩
    simp only
    rw [assoc_append_single_none _ _ _ _ hm]; simp

theorem declare_valueMap_some (c : Cls ν) (n : ν) (v v' : Int) (m : Member ν)
    (h : assoc v' c.valueMap = some m) : assoc v' (declare c n v).valueMap = some m := by
  unfold declare
  split
  · exact h
  · exact assoc_append_single_some _ _ _ _ _ h

theorem declare_valueMap_new (c : Cls ν) (n : ν) (v : Int) (h : assoc v c.valueMap = none) :
    assoc v (declare c n v).valueMap = some { name := some n, number := v, oid := c.next } := by
  unfold declare
  simp only [h]
  rw [assoc_append_single_none _ _ _ _ h]; simp

theorem declare_valueMap_other (c : Cls ν) (n : ν) (v v' : Int) (hne : v' ≠ v)
    (h : assoc v' c.valueMap = none) : assoc v' (declare c n v).valueMap = none := by
  unfold declare
  split
  · exact h
  · simp only
    rw [assoc_append_single_none _ _ _ _ h]; simp [hne]

theorem declare_next_le (c : Cls ν) (n : ν) (v : Int) : c.next ≤ (declare c n v).next := by
  unfold declare
  split <;> simp

/-! ### the whole loop -/

theorem build_valueMap_some (d : Decl ν) (c : Cls ν) (v : Int) (m : Member ν)
    (h : assoc v c.valueMap = some m) : assoc v (build c d).valueMap = some m := by
  induction d generalizing c with
  | nil => exact h
  | cons hd tl ih =>
    obtain ⟨n1, v1⟩ := hd
    exact ih _ (declare_valueMap_some c n1 v1 v m h)

theorem build_valueMap_first (d : Decl ν) (c : Cls ν) (v : Int) (n0 : ν)
    (hn : assoc v c.valueMap = none) (hf : FirstName d v n0) :
    ∃ oid, assoc v (build c d).valueMap = some { name := some n0, number := v, oid := oid } := by
  induction d generalizing c with
  | nil => obtain ⟨pre, post, e, _⟩ := hf; simp at e
  | cons hd tl ih =>
    obtain ⟨n1, v1⟩ := hd
    rcases firstName_cons_inv n1 n0 v v1 tl hf with ⟨h1, h2⟩ | ⟨h1, h2⟩
    · subst h1; subst h2
      exact ⟨c.next, build_valueMap_some tl _ v1 _ (declare_valueMap_new c n1 v1 hn)⟩
    · exact ih _ (declare_valueMap_other c n1 v1 v (Ne.symm h1) hn) h2

theorem build_valueMap_none (d : Decl ν) (c : Cls ν) (v : Int)
    (hn : assoc v c.valueMap = none) (hu : ∀ p ∈ d, p.2 ≠ v) : assoc v (build c d).valueMap = none := by
  induction d generalizing c with
  | nil => exact hn
  | cons hd tl ih =>
    obtain ⟨n1, v1⟩ := hd
    have h1 : v ≠ v1 := fun e => hu (n1, v1) (by simp) e.symm
    exact ih _ (declare_valueMap_other c n1 v1 v h1 hn) (fun p hp => hu p (by simp [hp]))

theorem build_memberMap_some (d : Decl ν) (c : Cls ν) (n : ν) (m : Member ν)
    (h : assoc n c.memberMap = some m) : assoc n (build c d).memberMap = some m := by
  induction d generalizing c with
  | nil => exact h
  | cons hd tl ih =>
    obtain ⟨n1, v1⟩ := hd
    obtain ⟨m1, _, e⟩ := declare_memberMap c n1 v1
    exact ih (declare c n1 v1) (by rw [e]; exact assoc_append_single_some _ _ _ _ _ h)

theorem build_memberMap_none (d : Decl ν) (c : Cls ν) (n : ν)
    (hk : assoc n c.memberMap = none) (hu : ∀ p ∈ d, p.1 ≠ n) : assoc n (build c d).memberMap = none := by
  induction d generalizing c with
  | nil => exact hk
  | cons hd tl ih =>
    obtain ⟨n1, v1⟩ := hd
    have h1 : n ≠ n1 := fun e => hu (n1, v1) (by simp) e.symm
    obtain ⟨m1, _, e⟩ := declare_memberMap c n1 v1
    exact ih (declare c n1 v1) (by rw [e, assoc_append_single_none _ _ _ _ hk]; simp [h1])
      (fun p hp => hu p (by simp [hp]))

/-- a declared name is bound to the canonical member of its number -/
theorem build_memberMap_decl (d : Decl ν) (c : Cls ν) (n : ν) (v : Int)
    (hk : assoc n c.memberMap = none) (hnd : NamesNodup d = true) (hmem : (n, v) ∈ d) :
    ∃ m, assoc n (build c d).memberMap = some m ∧ assoc v (build c d).valueMap = some m := by
  induction d generalizing c with
  | nil => simp at hmem
  | cons hd tl ih =>
    obtain ⟨n1, v1⟩ := hd
    simp only [NamesNodup, Bool.and_eq_true] at hnd
    obtain ⟨m1, hv1, e⟩ := declare_memberMap c n1 v1
    by_cases hn : n = n1
    · subst hn
      -- the pair is the head: a second pair with this name would contradict NamesNodup
      have hv : v = v1 := by
        simp only [List.mem_cons, Prod.mk.injEq] at hmem
        rcases hmem with h | h
        · exact h.2
        · have := assoc_isSome_of_mem n v tl h
          rw [Option.isNone_iff_eq_none.mp hnd.1] at this; simp at this
      subst hv
      refine ⟨m1, ?_, build_valueMap_some tl _ v _ hv1⟩
      exact build_memberMap_some tl (declare c n v) n m1
        (by rw [e, assoc_append_single_none _ _ _ _ hk]; simp)
    · simp only [List.mem_cons, Prod.mk.injEq] at hmem
      rcases hmem with h | h
      · exact absurd h.1 hn
      · exact ih (declare c n1 v1)
          (by rw [e, assoc_append_single_none _ _ _ _ hk]; simp [hn]) hnd.2 h

theorem build_names (d : Decl ν) (c : Cls ν) :
    (build c d).memberMap.map (·.1) = c.memberMap.map (·.1) ++ d.map (·.1) := by
  induction d generalizing c with
  | nil => simp [build]
  | cons hd tl ih =>
    obtain ⟨n1, v1⟩ := hd
    obtain ⟨m1, _, e⟩ := declare_memberMap c n1 v1
    simp only [build]
    rw [ih, e]; simp

/-- the values of `_member_map_`, in order: what was there, then for every declaration
    the canonical member of its number -/
theorem build_iter (d : Decl ν) (c : Cls ν) :
    (build c d).memberMap.map (fun e => some e.2)
      = c.memberMap.map (fun e => some e.2) ++ d.map (fun p => assoc p.2 (build c d).valueMap) := by
  induction d generalizing c with
  | nil => simp [build]
  | cons hd tl ih =>
    obtain ⟨n1, v1⟩ := hd
    obtain ⟨m1, hv1, e⟩ := declare_memberMap c n1 v1
    simp only [build]
    rw [ih, e]
    simp only [List.map_append, List.map_cons, List.map_nil, List.append_assoc, List.cons_append,
      List.nil_append]
    rw [show assoc v1 (build (declare c n1 v1) tl).valueMap = some m1 from
      build_valueMap_some tl _ v1 m1 hv1]

/-! ### invariant of the class state -/

structure Inv (c : Cls ν) : Prop where
  /-- a value-map entry is filed under its own number -/
  num : ∀ v m, assoc v c.valueMap = some m → m.number = v
  /-- canonical members have a name -/
  named : ∀ v m, assoc v c.valueMap = some m → m.name.isSome = true
  /-- their objects were allocated before `next` -/
  lt : ∀ v m, assoc v c.valueMap = some m → m.oid < c.next
  /-- distinct numbers have distinct canonical objects -/
  inj : ∀ v1 v2 m1 m2, assoc v1 c.valueMap = some m1 → assoc v2 c.valueMap = some m2 →
    m1.oid = m2.oid → v1 = v2
  /-- every member-map value is the canonical member of its number -/
  mem : ∀ n m, assoc n c.memberMap = some m → assoc m.number c.valueMap = some m

theorem inv_empty : Inv ({} : Cls ν) :=
  ⟨by simp [assoc], by simp [assoc], by simp [assoc], by simp [assoc], by simp [assoc]⟩

theorem assoc_valueMap_declare (c : Cls ν) (n : ν) (v v' : Int) (m : Member ν)
    (h : assoc v' (declare c n v).valueMap = some m) :
    assoc v' c.valueMap = some m
      ∨ (assoc v c.valueMap = none ∧ v' = v ∧ m = { name := some n, number := v, oid := c.next }) := by
  unfold declare at h
  split at h
  · exact Or.inl h
  · next hn =>
    simp only at h
    rw [assoc_append_single] at h
    cases hv : assoc v' c.valueMap with
    | some x => rw [hv] at h; exact Or.inl h
    | none =>
      rw [hv] at h
      by_cases e : v' = v
      · simp only [e, if_true, Option.some.injEq] at h
        exact Or.inr ⟨hn, e, h.symm⟩
      · simp [e] at h

theorem declare_inv (c : Cls ν) (n : ν) (v : Int) (h : Inv c) : Inv (declare c n v) := by
  have hle := declare_next_le c n v
  have hnext : assoc v c.valueMap = none → (declare c n v).next = c.next + 1 := by
    intro hn; unfold declare; simp [hn]
  refine ⟨?_, ?_, ?_, ?_, ?_⟩
  · intro v' m hm
    rcases assoc_valueMap_declare c n v v' m hm with h1 | ⟨_, h2, h3⟩
    · exact h.num v' m h1
    · rw [h3, h2]
  · intro v' m hm
    rcases assoc_valueMap_declare c n v v' m hm with h1 | ⟨_, _, h3⟩
    · exact h.named v' m h1
    · rw [h3]; rfl
  · intro v' m hm
    rcases assoc_valueMap_declare c n v v' m hm with h1 | ⟨h0, _, h3⟩
    · have := h.lt v' m h1; omega
    · rw [h3, hnext h0]; simp
  · intro v1 v2 m1 m2 hm1 hm2 ho
    rcases assoc_valueMap_declare c n v v1 m1 hm1 with h1 | ⟨_, h2, h3⟩
    · rcases assoc_valueMap_declare c n v v2 m2 hm2 with h4 | ⟨_, _, h6⟩
      · exact h.inj v1 v2 m1 m2 h1 h4 ho
      · have := h.lt v1 m1 h1
        rw [h6] at ho; simp only at ho; omega
    · rcases assoc_valueMap_declare c n v v2 m2 hm2 with h4 | ⟨_, h5, _⟩
      · have := h.lt v2 m2 h4
        rw [h3] at ho; simp only at ho; omega
      · rw [h2, h5]
  · intro n' m hm
    obtain ⟨m1, hv1, e⟩ := declare_memberMap c n v
    rw [e, assoc_append_single] at hm
    cases hk : assoc n' c.memberMap with
    | some x =>
      rw [hk] at hm
      simp only [Option.some.injEq] at hm
      subst hm
      exact declare_valueMap_some c n v _ _ (h.mem n' x hk)
    | none =>
      rw [hk] at hm
      by_cases e' : n' = n
      · simp only [e', if_true, Option.some.injEq] at hm
        subst hm
        have hnum : m1.number = v := by
          rcases assoc_valueMap_declare c n v v m1 hv1 with h1 | ⟨_, _, h3⟩
          · exact h.num v m1 h1
          · rw [h3]
        rw [hnum]; exact hv1
      · simp [e'] at hm

theorem build_inv (d : Decl ν) (c : Cls ν) (h : Inv c) : Inv (build c d) := by
  induction d generalizing c with
  | nil => exact h
  | cons hd tl ih =>
    obtain ⟨n1, v1⟩ := hd
    exact ih _ (declare_inv c n1 v1 h)

theorem mk_inv (d : Decl ν) : Inv (mk d) := build_inv d _ inv_empty

/-! ### consequences for `mk` -/

theorem mk_valueMap_first (d : Decl ν) (v : Int) (n0 : ν) (hf : FirstName d v n0) :
    ∃ oid, assoc v (mk d).valueMap = some { name := some n0, number := v, oid := oid } :=
  build_valueMap_first d _ v n0 rfl hf

theorem mk_valueMap_none (d : Decl ν) (v : Int) (hu : ¬ Defined d v) : assoc v (mk d).valueMap = none := by
  apply build_valueMap_none d _ v rfl
  intro p hp e
  exact hu ⟨p.1, by rw [← e]; exact hp⟩

theorem mk_memberMap_decl (d : Decl ν) (n : ν) (v : Int) (hnd : NamesNodup d = true) (hmem : (n, v) ∈ d) :
    ∃ m, assoc n (mk d).memberMap = some m ∧ assoc v (mk d).valueMap = some m :=
  build_memberMap_decl d _ n v rfl hnd hmem

theorem mk_memberMap_none (d : Decl ν) (n : ν) (hu : ∀ p ∈ d, p.1 ≠ n) : assoc n (mk d).memberMap = none :=
  build_memberMap_none d _ n rfl hu

theorem mk_names (d : Decl ν) : memberNames (mk d) = d.map (·.1) := by
  unfold memberNames mk
  rw [build_names]; simp

theorem mk_iter (d : Decl ν) :
    (iter (mk d)).map some = d.map (fun p => assoc p.2 (mk d).valueMap) := by
  unfold iter mk
  have := build_iter d ({} : Cls ν)
  simp only [List.map_nil, List.nil_append] at this
  rw [← this]; simp

/-- the maps are not touched by `try_value` -/
theorem tryValue_maps (c : Cls ν) (v : Int) :
    (tryValue c v).1.valueMap = c.valueMap ∧ (tryValue c v).1.memberMap = c.memberMap := by
  unfold tryValue
  split <;> simp

theorem tryValue_number (c : Cls ν) (v : Int) (h : Inv c) : (tryValue c v).2.number = v := by
  unfold tryValue
  split
  · next m hm => exact h.num v m hm
  · rfl

/-- `_dump_enum` never yields null on a class built from a definition -/
theorem dump_ne_null (c : Cls ν) (v : Int) (h : Inv c) : dumpEnum c v ≠ none := by
  unfold dumpEnum call
  split
  · next m hm =>
    split at hm
    · next m' hm' =>
      have := h.named v m' hm'
      simp only [Except.ok.injEq] at hm
      subst hm
      cases hn : m'.name with
      | none => rw [hn] at this; simp at this
      | some x => simp
    · simp at hm
  · simp

end Bp.EnumM
