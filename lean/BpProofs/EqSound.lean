import BpModel.All
import BpProofs.Eqv
import BpProofs.NestedDefs
import BpProofs.JsonNonEmpty
/-
  C01, the last link: the relation `ValEqv` the round-trip theorem delivers is CONTAINED in
  Python's `==` on messages, `Message.__eq__`, as modelled by `msgEq` (BpModel/Eq.lean).

    valEqv_msgEq :  MsgOk S m → ValEqv S m m' → msgEq S m m' = true ∧ msgEq S m' m = true

  Only the ORIGINAL has to be well-typed (`MsgOk`); nothing is asked of the decoded side.
  There is no counterexample: every pair `ValEqv` relates, with a `MsgOk` left component, is
  identified by `==`.

  Contents (helper lemmas live in the namespace `Bp.EqS`):
    * `atomEq_comm`, `valEq_default_right` / `valEq_default_left`: `defEq S k v` — what `slotsEq`
      uses when one side holds PLACEHOLDER — IS `valEq` against the materialised default
      `defaultOfKind S k`, in either order (faithfulness of the split definition in BpModel/Eq.lean);
    * `valEq_refl`: `==` is reflexive on `DeepOk` values (nested messages `MsgOk`; dict keys
      pairwise different and equal to themselves) — this is where the both-NaN rule is needed;
    * `slot_default` / `slots_default`: a well-typed slot that emits no byte, or that the encoder
      finds equal to its default (`eqDefault`), equals the corresponding slot of a fresh instance
      under `__eq__` — `-0.0`, empty str / bytes / list / dict, epoch, zero timedelta, `None` in a
      wrapper field, an unmarked sub-message all of whose slots are like that (induction);
    * `valEqv_valEq` / `listEqv_listEq` / `slotsEqv_slotsEq`: the containment, by structural
      recursion on the original value and case analysis of the `ValEqv` derivation.
-/
namespace Bp.EqS
open Bp Gen

/-! ### the comparison of values that are not containers -/

def isAtomV : Val → Bool
  | .list _ | .dict _ _ | .msg .. => false
  | _ => true

theorem f32Eq_refl (b : Nat) : f32Eq b b = true := by
  unfold f32Eq
  cases h : isNaN32 b <;> simp

theorem f64Eq_refl (b : Nat) : f64Eq b b = true := by
  unfold f64Eq
  cases h : isNaN64 b <;> simp

theorem atomEq_refl (v : Val) (h : isAtomV v = true) : atomEq v v = true := by
  cases v <;> simp [isAtomV] at h <;> simp [atomEq, f32Eq_refl, f64Eq_refl]

theorem valEq_atom (S : Schema) (a b : Val) (h : isAtomV a = true) : valEq S a b = atomEq a b := by
  cases a <;> simp [isAtomV] at h <;> rw [valEq]

theorem atomEq_container_left (a b : Val) (h : isAtomV a = false) : atomEq a b = false := by
  cases a <;> simp [isAtomV] at h <;> cases b <;> rfl

theorem atomEq_container_right (a b : Val) (h : isAtomV b = false) : atomEq a b = false := by
  cases b <;> simp [isAtomV] at h <;> cases a <;> rfl

theorem valEq_atom_right (S : Schema) (a b : Val) (h : isAtomV b = true) : valEq S a b = atomEq a b := by
  cases b <;> simp [isAtomV] at h <;> cases a <;> (rw [valEq]; all_goals first | rfl | (intros; contradiction))


/-! ### symmetry of the comparison of non-containers -/

theorem fnumEq_comm (x y : FNum) : fnumEq x y = fnumEq y x := by
  cases x with
  | nan => cases y <;> rfl
  | inf a => cases y <;> simp [fnumEq, Bool.beq_comm]
  | fin n1 m1 e1 =>
    cases y with
    | nan => rfl
    | inf b => rfl
    | fin n2 m2 e2 =>
      simp only [fnumEq]
      have hmin : (if e1 ≤ e2 then e1 else e2) = (if e2 ≤ e1 then e2 else e1) := by
        split <;> split <;> omega
      rw [hmin]
      generalize m1 * 2 ^ (e1 - if e2 ≤ e1 then e2 else e1).toNat = x
      generalize m2 * 2 ^ (e2 - if e2 ≤ e1 then e2 else e1).toNat = y
      by_cases hxy : x = y
      · subst hxy; simp [Bool.beq_comm]
      · have h1 : (x == y) = false := by simpa using hxy
        have h2 : (y == x) = false := by simpa using fun h => hxy h.symm
        simp [h1, h2]

theorem f32Eq_comm (a b : Nat) : f32Eq a b = f32Eq b a := by
  unfold f32Eq
  rw [Bool.or_comm (isNaN32 a), Bool.and_comm (isNaN32 a), Bool.and_comm (f32IsZero a)]
  by_cases h : a = b
  · subst h; rfl
  · have h1 : (a == b) = false := by simpa using h
    have h2 : (b == a) = false := by simpa using fun e => h e.symm
    rw [h1, h2]

theorem f64Eq_comm (a b : Nat) : f64Eq a b = f64Eq b a := by
  unfold f64Eq
  rw [Bool.or_comm (isNaN64 a), Bool.and_comm (isNaN64 a), Bool.and_comm (f64IsZero a)]
  by_cases h : a = b
  · subst h; rfl
  · have h1 : (a == b) = false := by simpa using h
    have h2 : (b == a) = false := by simpa using fun e => h e.symm
    rw [h1, h2]

theorem beq_comm_int (a b : Int) : (a == b) = (b == a) := by
  by_cases h : a = b
  · subst h; rfl
  · have h1 : (a == b) = false := by simpa using h
    have h2 : (b == a) = false := by simpa using fun e => h e.symm
    rw [h1, h2]

theorem beq_comm_bytes (a b : Bytes) : (a == b) = (b == a) := by
  by_cases h : a = b
  · subst h; rfl
  · have h1 : (a == b) = false := by simpa using h
    have h2 : (b == a) = false := by simpa using fun e => h e.symm
    rw [h1, h2]

/-- `a == b` and `b == a` agree on non-containers -/
theorem atomEq_comm (a b : Val) : atomEq a b = atomEq b a := by
  cases a <;> cases b <;>
    first
    | rfl
    | exact beq_comm_int _ _
    | exact beq_comm_bytes _ _
    | exact Bool.beq_comm
    | exact f32Eq_comm _ _
    | exact f64Eq_comm _ _
    | exact fnumEq_comm _ _


/-! ### `defEq` IS the comparison against the materialised default, on either side -/

theorem fresh_slots (S : Schema) (c : Nat) :
    fresh S c = .msg c ((fieldsOf S c).map freshVal) false [] (List.replicate (groupsOf S c) Option.none) := rfl

/-- one iteration of `slotsDef` -/
def slotDefB (S : Schema) (f : FieldD) (v : Val) : Bool :=
  match v with
  | .ph => if f.optional then atomDefEq f.defKind .none else true
  | .none => if f.optional then true else atomDefEq f.defKind .none
  | v => if f.optional then false else defEq S f.defKind v

theorem slotsDef_cons (S : Schema) (f : FieldD) (fs : List FieldD) (v : Val) (vs : List Val) :
    slotsDef S (f :: fs) (v :: vs) = (slotDefB S f v && slotsDef S fs vs) := by
  cases v <;> (rw [slotsDef]; all_goals first | rfl | (intros; contradiction))

/-- one iteration of `slotsEq` -/
def slotEqB (S : Schema) (f : FieldD) (a b : Val) : Bool :=
  match a with
  | .ph => (match b with
            | .ph => true
            | b => defEq S f.defKind b)
  | a => (match b with
          | .ph => defEq S f.defKind a
          | b => valEq S a b)

theorem slotsEq_cons (S : Schema) (f : FieldD) (fs : List FieldD) (a b : Val) (as bs : List Val) :
    slotsEq S (f :: fs) (a :: as) (b :: bs) = (slotEqB S f a b && slotsEq S fs as bs) := by
  cases a <;> cases b <;> (rw [slotsEq]; all_goals first | rfl | (intros; contradiction))

theorem defEq_atom (S : Schema) (k : DefKind) (v : Val) (h : isAtomV v = true) :
    defEq S k v = atomDefEq k v := by
  cases v <;> simp [isAtomV] at h <;> rw [defEq]

theorem atomDefEq_none (k : DefKind) : atomDefEq k .none = (k == .none) := by
  cases k <;> rfl

theorem valEq_none_right (S : Schema) (a : Val) : valEq S a .none = atomEq a .none := valEq_atom_right S a .none rfl

theorem slotEqB_fresh_right (S : Schema) (f : FieldD) (a : Val) : slotEqB S f a (freshVal f) = slotDefB S f a := by
  unfold slotEqB slotDefB freshVal
  cases ho : f.optional
  · simp only [Bool.false_eq_true, if_false]
    cases a <;> rfl
  · simp only [if_true]
    cases a <;> simp only <;> first | rw [defEq] | (rw [valEq_none_right]; rfl)

theorem slotEqB_fresh_left (S : Schema) (f : FieldD) (b : Val) : slotEqB S f (freshVal f) b = slotDefB S f b := by
  unfold slotEqB slotDefB freshVal
  cases ho : f.optional
  · simp only [Bool.false_eq_true, if_false]
    cases b <;> rfl
  · simp only [if_true]
    cases b <;> simp only <;> first | rw [defEq] | (rw [valEq]; rfl)

theorem slotsEq_nil_left (S : Schema) (fs : List FieldD) (bs : List Val) : slotsEq S fs [] bs = true := by
  rw [slotsEq]; all_goals (intros; contradiction)

theorem slotsEq_nil_right (S : Schema) (fs : List FieldD) (as : List Val) : slotsEq S fs as [] = true := by
  rw [slotsEq]; all_goals (intros; contradiction)

theorem slotsEq_nil_fields (S : Schema) (as bs : List Val) : slotsEq S [] as bs = true := by
  rw [slotsEq]; all_goals (intros; contradiction)

theorem slotsDef_nil_fields (S : Schema) (vs : List Val) : slotsDef S [] vs = true := by
  rw [slotsDef]; all_goals (intros; contradiction)

theorem slotsDef_nil (S : Schema) (fs : List FieldD) : slotsDef S fs [] = true := by
  rw [slotsDef]; all_goals (intros; contradiction)

theorem slotsEq_fresh_right (S : Schema) : ∀ (fs : List FieldD) (sl : List Val),
    slotsEq S fs sl (fs.map freshVal) = slotsDef S fs sl
  | [], sl => by rw [slotsEq_nil_fields, slotsDef_nil_fields]
  | f :: fs, [] => by rw [slotsEq_nil_left, slotsDef_nil]
  | f :: fs, a :: as => by
    rw [List.map_cons, slotsEq_cons, slotsDef_cons, slotEqB_fresh_right, slotsEq_fresh_right S fs as]

theorem slotsEq_fresh_left (S : Schema) : ∀ (fs : List FieldD) (sl : List Val),
    slotsEq S fs (fs.map freshVal) sl = slotsDef S fs sl
  | [], sl => by rw [slotsEq_nil_fields, slotsDef_nil_fields]
  | f :: fs, [] => by rw [slotsEq_nil_right, slotsDef_nil]
  | f :: fs, a :: as => by
    rw [List.map_cons, slotsEq_cons, slotsDef_cons, slotEqB_fresh_left, slotsEq_fresh_left S fs as]

theorem listEq_nil_right (S : Schema) (xs : List Val) : listEq S xs [] = xs.isEmpty := by
  cases xs <;> (rw [listEq]; all_goals first | rfl | (intros; contradiction))

theorem listEq_nil_left (S : Schema) (ys : List Val) : listEq S [] ys = ys.isEmpty := by
  cases ys <;> (rw [listEq]; all_goals first | rfl | (intros; contradiction))

theorem dictEq_nil (S : Schema) (vs ks' vs' : List Val) : dictEq S [] vs ks' vs' = true := by
  rw [dictEq]; all_goals (intros; contradiction)

theorem valEq_list_list (S : Schema) (xs ys : List Val) : valEq S (.list xs) (.list ys) = listEq S xs ys := by rw [valEq]
theorem valEq_dict_dict (S : Schema) (ks vs ks' vs' : List Val) :
    valEq S (.dict ks vs) (.dict ks' vs') = (ks.length == ks'.length && dictEq S ks vs ks' vs') := by rw [valEq]
theorem valEq_msg_msg (S : Schema) (c : Nat) (sl : List Val) (ow : Bool) (unk : Bytes) (cur : List (Option Nat))
    (c' : Nat) (sl' : List Val) (ow' : Bool) (unk' : Bytes) (cur' : List (Option Nat)) :
    valEq S (.msg c sl ow unk cur) (.msg c' sl' ow' unk' cur') = (c == c' && slotsEq S (fieldsOf S c) sl sl') := by rw [valEq]

/-- `v == default` (the default materialised by `_get_field_default`) is `defEq` -/
theorem valEq_default_right (S : Schema) (k : DefKind) (v : Val) : valEq S v (defaultOfKind S k) = defEq S k v := by
  cases k with
  | list =>
    simp only [defaultOfKind]
    cases v with
    | list xs => rw [valEq_list_list, defEq, listEq_nil_right]; rfl
    | _ => rw [valEq, defEq]; all_goals first | rfl | (intros; contradiction)
  | dict =>
    simp only [defaultOfKind]
    cases v with
    | dict ks vs =>
      rw [valEq_dict_dict, defEq]
      cases ks <;> simp [dictEq_nil]
    | _ => rw [valEq, defEq]; all_goals first | rfl | (intros; contradiction)
  | msg c' =>
    simp only [defaultOfKind]
    rw [fresh_slots]
    cases v with
    | msg c sl ow unk cur =>
      rw [valEq_msg_msg, defEq]
      by_cases hc : c = c'
      · subst hc; rw [slotsEq_fresh_right]
      · have : (c == c') = false := by simpa using hc
        simp [this]
    | _ => rw [valEq, defEq]; all_goals first | rfl | (intros; contradiction)
  | none | int | bool | f32 | f64 | str | byt | ts | dur =>
    simp only [defaultOfKind]
    cases v <;> (rw [valEq, defEq]; all_goals first | rfl | (intros; contradiction))

/-- `default == v` is `defEq` too -/
theorem valEq_default_left (S : Schema) (k : DefKind) (v : Val) : valEq S (defaultOfKind S k) v = defEq S k v := by
  cases k with
  | list =>
    simp only [defaultOfKind]
    cases v with
    | list xs => rw [valEq_list_list, defEq, listEq_nil_left]; rfl
    | _ => rw [valEq, defEq]; all_goals first | rfl | (intros; contradiction)
  | dict =>
    simp only [defaultOfKind]
    cases v with
    | dict ks vs =>
      rw [valEq_dict_dict, defEq, dictEq_nil]
      cases ks <;> simp
    | _ => rw [valEq, defEq]; all_goals first | rfl | (intros; contradiction)
  | msg c =>
    simp only [defaultOfKind]
    rw [fresh_slots]
    cases v with
    | msg c' sl ow unk cur =>
      rw [valEq_msg_msg, defEq]
      by_cases hc : c = c'
      · subst hc; rw [slotsEq_fresh_left]
      · have h1 : (c == c') = false := by simpa using hc
        have h2 : (c' == c) = false := by simpa using fun e => hc e.symm
        simp [h1, h2]
    | _ => rw [valEq, defEq]; all_goals first | rfl | (intros; contradiction)
  | none | int | bool | f32 | f64 | str | byt | ts | dur =>
    simp only [defaultOfKind]
    rw [valEq, atomEq_comm]
    cases v <;> (rw [defEq]; all_goals first | rfl | (intros; contradiction))

/-! ### lists and dicts -/

theorem listEq_cons (S : Schema) (x y : Val) (xs ys : List Val) :
    listEq S (x :: xs) (y :: ys) = (valEq S x y && listEq S xs ys) := by rw [listEq]

theorem listEq_length (S : Schema) : ∀ (xs ys : List Val), listEq S xs ys = true → xs.length = ys.length
  | [], [], _ => rfl
  | [], y :: ys, h => by rw [listEq_nil_left] at h; cases h
  | x :: xs, [], h => by rw [listEq_nil_right] at h; cases h
  | x :: xs, y :: ys, h => by
    rw [listEq_cons, Bool.and_eq_true] at h
    simp [listEq_length S xs ys h.2]

theorem dictEq_cons (S : Schema) (k v : Val) (ks vs ks' vs' : List Val) :
    dictEq S (k :: ks) (v :: vs) ks' vs' =
      ((match dictGet ks' vs' k with
        | some v' => valEq S v v'
        | Option.none => false) && dictEq S ks vs ks' vs') := by rw [dictEq]; rfl

theorem dictGet_skip (k : Val) : ∀ (pre pvs ks vs : List Val), pre.length = pvs.length →
    (∀ p ∈ pre, keyEq p k = false) → dictGet (pre ++ ks) (pvs ++ vs) k = dictGet ks vs k
  | [], [], ks, vs, _, _ => rfl
  | [], _ :: _, _, _, h, _ => by cases h
  | _ :: _, [], _, _, h, _ => by cases h
  | p :: pre, q :: pvs, ks, vs, h, hk => by
    rw [List.cons_append, List.cons_append, dictGet, hk p (List.mem_cons_self ..)]
    simp only [Bool.false_eq_true, if_false]
    exact dictGet_skip k pre pvs ks vs (by simpa using h) (fun p' hp' => hk p' (List.mem_cons_of_mem _ hp'))

/-- two dicts with the SAME key list (pairwise different keys, each equal to itself) and
    item-wise equal values are equal -/
theorem dictEq_same_keys (S : Schema) : ∀ (ks vs vs' pre pvs : List Val),
    pre.length = pvs.length → (∀ p ∈ pre, ∀ k ∈ ks, keyEq p k = false) →
    KeysDistinct ks → (∀ k ∈ ks, keyEq k k = true) → listEq S vs vs' = true →
    dictEq S ks vs (pre ++ ks) (pvs ++ vs') = true
  | [], vs, vs', pre, pvs, _, _, _, _, _ => dictEq_nil S vs _ _
  | k :: ks, [], vs', pre, pvs, _, _, _, _, _ => by rw [dictEq]; all_goals (intros; contradiction)
  | k :: ks, v :: vs, [], pre, pvs, _, _, _, _, h => by rw [listEq_nil_right] at h; cases h
  | k :: ks, v :: vs, v' :: vs', pre, pvs, hl, hpre, hd, hr, h => by
    rw [listEq_cons, Bool.and_eq_true] at h
    rw [dictEq_cons, dictGet_skip k pre pvs _ _ hl (fun p hp => hpre p hp k (List.mem_cons_self ..)), dictGet,
      hr k (List.mem_cons_self ..)]
    simp only [if_true, h.1, Bool.true_and]
    have e1 : pre ++ k :: ks = (pre ++ [k]) ++ ks := by simp
    have e2 : pvs ++ v' :: vs' = (pvs ++ [v']) ++ vs' := by simp
    rw [e1, e2]
    apply dictEq_same_keys S ks vs vs' (pre ++ [k]) (pvs ++ [v']) (by simp [hl])
    · intro p hp k' hk'
      rcases List.mem_append.1 hp with hp | hp
      · exact hpre p hp k' (List.mem_cons_of_mem _ hk')
      · simp only [List.mem_singleton] at hp
        subst hp
        exact hd.1 k' hk'
    · exact hd.2
    · exact fun k' hk' => hr k' (List.mem_cons_of_mem _ hk')
    · exact h.2

theorem valEq_dict_same_keys (S : Schema) (ks vs vs' : List Val) (hl : ks.length = vs.length)
    (hd : KeysDistinct ks) (hr : ∀ k ∈ ks, keyEq k k = true) (h : listEq S vs vs' = true) :
    valEq S (.dict ks vs) (.dict ks vs') = true := by
  have _ := hl
  rw [valEq_dict_dict]
  have := dictEq_same_keys S ks vs vs' [] [] rfl (fun p hp => by cases hp) hd hr h
  simpa using this

/-! ### what the original value has to satisfy, at every level: nested messages are `MsgOk`,
    dicts have as many values as keys, pairwise different keys that are equal to themselves -/

mutual
def DeepOk (S : Schema) : Val → Prop
  | .msg c sl ow unk cur => MsgOk S (.msg c sl ow unk cur)
  | .list xs => DeepOkL S xs
  | .dict ks vs => ks.length = vs.length ∧ KeysDistinct ks ∧ (∀ k ∈ ks, keyEq k k = true) ∧ DeepOkL S vs
  | .ph | .none | .int _ | .bool _ | .f32 _ | .f64 _ | .str _ | .byt _ | .ts _ | .dur _ => True
def DeepOkL (S : Schema) : List Val → Prop
  | [] => True
  | x :: xs => DeepOk S x ∧ DeepOkL S xs
end

theorem deepOk_atom (S : Schema) (v : Val) (h : isAtomV v = true) : DeepOk S v := by
  cases v <;> simp [isAtomV] at h <;> (rw [DeepOk]; trivial)

theorem deepOkL_atoms (S : Schema) : ∀ (xs : List Val), (∀ x ∈ xs, isAtomV x = true) → DeepOkL S xs
  | [], _ => by rw [DeepOkL]; trivial
  | x :: xs, h => by
    rw [DeepOkL]
    exact ⟨deepOk_atom S x (h x (List.mem_cons_self ..)), deepOkL_atoms S xs (fun y hy => h y (List.mem_cons_of_mem _ hy))⟩

theorem deepOkL_msgs (S : Schema) (c : Nat) : ∀ (xs : List Val), MsgsOk S c xs → DeepOkL S xs
  | [], _ => by rw [DeepOkL]; trivial
  | x :: xs, h => by
    cases h with
    | cons _ sl ow unk cur _ hm hr =>
      rw [DeepOkL, DeepOk]
      exact ⟨hm, deepOkL_msgs S c xs hr⟩

theorem scalarOk_atom (t : PType) (v : Val) (h : scalarOk t v = true) : isAtomV v = true := by
  cases v <;> first | rfl | simp [scalarOk] at h

theorem timeValOk_atom (d : Bool) (v : Val) (h : timeValOk d v = true) : isAtomV v = true := by
  cases v <;> first | rfl | simp [timeValOk] at h

theorem key_refl (t : PType) (k : Val) (ht : isMapKeyType t = true) (h : scalarOk t k = true) : keyEq k k = true := by
  cases k with
  | int _ | bool _ | str _ => simp [keyEq]
  | f32 b => simp [scalarOk] at h; rw [h.1.1] at ht; simp [isMapKeyType] at ht
  | f64 b => simp [scalarOk] at h; rw [h.1] at ht; simp [isMapKeyType] at ht
  | byt b => simp [scalarOk] at h; rw [h.1] at ht; simp [isMapKeyType] at ht
  | _ => simp [scalarOk] at h

theorem slotOk_deepOk (S : Schema) (f : FieldD) (v : Val) (h : SlotOk S f v) : DeepOk S v := by
  cases h with
  | flat _ _ hff hv =>
    cases v with
    | list xs =>
      simp only [flatSlotOk, Bool.and_eq_true, List.all_eq_true] at hv
      rw [DeepOk]
      exact deepOkL_atoms S xs (fun x hx => scalarOk_atom _ _ (hv.2 x hx))
    | dict ks vs => simp [flatSlotOk, scalarOk] at hv
    | msg c sl ow unk cur => simp [flatSlotOk, scalarOk] at hv
    | _ => exact deepOk_atom S _ rfl
  | unsetAny | noneAny | unsetSub | noneSub | unsetTime | noneTime | ts | dur | unsetWrap | noneWrap
  | unsetMapS | unsetMapM => exact deepOk_atom S _ rfl
  | sub _ c sl ow unk cur _ _ hm => rw [DeepOk]; exact hm
  | subs _ c xs _ _ hm => rw [DeepOk]; exact deepOkL_msgs S c xs hm
  | wrap _ w _ _ hv => exact deepOk_atom S _ (scalarOk_atom _ _ hv)
  | mapS _ ks vs hmf hl hk hv hd =>
    rw [DeepOk]
    exact ⟨hl, hd, fun k hk' => key_refl _ k hmf.kty (hk k hk'), deepOkL_atoms S vs (fun x hx => scalarOk_atom _ _ (hv x hx))⟩
  | mapM _ c ks vs hmf hl hk hv hd =>
    rw [DeepOk]
    exact ⟨hl, hd, fun k hk' => key_refl _ k hmf.kty (hk k hk'), deepOkL_msgs S c vs hv⟩
  | tss _ xs _ hv => rw [DeepOk]; exact deepOkL_atoms S xs (fun x hx => timeValOk_atom _ _ (hv x hx))
  | durs _ xs _ hv => rw [DeepOk]; exact deepOkL_atoms S xs (fun x hx => timeValOk_atom _ _ (hv x hx))
  | wraps _ w xs _ hv => rw [DeepOk]; exact deepOkL_atoms S xs (fun x hx => scalarOk_atom _ _ (hv x hx))
  | mapT _ d ks vs hmf hl hk hv hd =>
    rw [DeepOk]
    exact ⟨hl, hd, fun k hk' => key_refl _ k hmf.kty (hk k hk'), deepOkL_atoms S vs (fun x hx => timeValOk_atom _ _ (hv x hx))⟩

/-! ### `==` is reflexive on such values (two NaN compare equal: the both-NaN rule) -/

theorem slotEqB_set (S : Schema) (f : FieldD) (a b : Val) (ha : a ≠ .ph) (hb : b ≠ .ph) :
    slotEqB S f a b = valEq S a b := by
  cases a <;> cases b <;> first | rfl | exact absurd rfl ha | exact absurd rfl hb

theorem slotEqB_ph_ph (S : Schema) (f : FieldD) : slotEqB S f .ph .ph = true := rfl

theorem slotEqB_ph_left (S : Schema) (f : FieldD) (b : Val) (hb : b ≠ .ph) : slotEqB S f .ph b = defEq S f.defKind b := by
  cases b <;> first | rfl | exact absurd rfl hb

theorem slotEqB_ph_right (S : Schema) (f : FieldD) (a : Val) (ha : a ≠ .ph) : slotEqB S f a .ph = defEq S f.defKind a := by
  cases a <;> first | rfl | exact absurd rfl ha

theorem fieldsOf_eq (S : Schema) (c : Nat) (d : MsgD) (h : S[c]? = some d) : fieldsOf S c = d.fields := by
  simp [fieldsOf, h]

mutual
theorem valEq_refl (S : Schema) : ∀ (v : Val), DeepOk S v → valEq S v v = true
  | .list xs, h => by
    rw [DeepOk] at h
    rw [valEq_list_list]
    exact listEq_refl S xs h
  | .dict ks vs, h => by
    rw [DeepOk] at h
    exact valEq_dict_same_keys S ks vs vs h.1 h.2.1 h.2.2.1 (listEq_refl S vs h.2.2.2)
  | .msg c sl ow unk cur, h => by
    rw [DeepOk] at h
    rw [valEq_msg_msg]
    cases h with
    | mk _ d _ _ _ _ hd _ _ _ _ _ _ _ hsl _ =>
      rw [fieldsOf_eq S c d hd]
      simp only [beq_self_eq_true, Bool.true_and]
      exact slotsEq_refl S sl d.fields hsl
  | .ph, _ | .none, _ | .int _, _ | .bool _, _ | .f32 _, _ | .f64 _, _ | .str _, _ | .byt _, _ | .ts _, _ | .dur _, _ => by
    rw [valEq]; exact atomEq_refl _ rfl
termination_by structural v => v

theorem listEq_refl (S : Schema) : ∀ (xs : List Val), DeepOkL S xs → listEq S xs xs = true
  | [], _ => by rw [listEq]
  | x :: xs, h => by
    rw [DeepOkL] at h
    rw [listEq_cons, valEq_refl S x h.1, listEq_refl S xs h.2]; rfl
termination_by structural xs => xs

theorem slotsEq_refl (S : Schema) : ∀ (sl : List Val) (fs : List FieldD), SlotsOk S fs sl → slotsEq S fs sl sl = true
  | [], fs, _ => slotsEq_nil_left S fs []
  | a :: as, fs, h => by
    cases h with
    | cons f _ fs' _ ha hr =>
      rw [slotsEq_cons, slotsEq_refl S as fs' hr, Bool.and_true]
      by_cases hp : a = .ph
      · subst hp; rfl
      · rw [slotEqB_set S f a a hp hp]
        exact valEq_refl S a (slotOk_deepOk S f a ha)
termination_by structural sl => sl
end

/-! ### typing of a slot list, position by position, as `dumpSlots` and `SlotsEqv` walk it -/

/-- slot `k + j` is well-typed for field `k + j`, and holds PLACEHOLDER when the field is an
    unselected oneof member -/
def SlotsT (S : Schema) (fs : List FieldD) (cur : List (Option Nat)) : Nat → List Val → Prop
  | _, [] => True
  | k, v :: vs =>
    (∃ f, fs[k]? = some f ∧ SlotOk S f v ∧ (hidden f k cur = true → v = .ph)) ∧ SlotsT S fs cur (k + 1) vs

theorem slotsT_of (S : Schema) (fs : List FieldD) (cur : List (Option Nat)) : ∀ (vs : List Val) (k : Nat),
    SlotsOk S (fs.drop k) vs →
    (∀ j f, fs[k + j]? = some f → hidden f (k + j) cur = true → vs.getD j .ph = .ph) → SlotsT S fs cur k vs
  | [], _, _, _ => trivial
  | v :: vs, k, h, hi => by
    cases hd : fs.drop k with
    | nil => rw [hd] at h; cases h
    | cons f fs' =>
      rw [hd] at h
      cases h with
      | cons _ _ _ _ hv hr =>
        have hf : fs[k]? = some f := by
          have := List.getElem?_drop (xs := fs) (i := k) (j := 0)
          rw [hd] at this
          simpa using this.symm
        have hfs' : fs.drop (k + 1) = fs' := by
          have := drop_cons_of_get fs k f hf
          rw [hd] at this
          injection this with _ h2
          exact h2.symm
        refine ⟨⟨f, hf, hv, fun hh => ?_⟩, slotsT_of S fs cur vs (k + 1) (hfs' ▸ hr) (fun j f' hf' hh' => ?_)⟩
        · simpa using hi 0 f (by simpa using hf) (by simpa using hh)
        · have e : k + 1 + j = k + (j + 1) := by omega
          rw [e] at hf' hh'
          simpa using hi (j + 1) f' hf' hh'

theorem hidden_group (f : FieldD) (i : Nat) (cur : List (Option Nat)) (h : hidden f i cur = true) :
    ∃ g, f.group = some g ∧ cur.getD g Option.none ≠ some i := by
  unfold hidden at h
  cases hg : f.group with
  | none => rw [hg] at h; simp at h
  | some g => rw [hg] at h; exact ⟨g, rfl, by simpa using h⟩

theorem msgOk_slotsT (S : Schema) (c : Nat) (sl : List Val) (ow : Bool) (unk : Bytes) (cur : List (Option Nat))
    (h : MsgOk S (.msg c sl ow unk cur)) : ∃ d, S[c]? = some d ∧ SlotsT S d.fields cur 0 sl := by
  cases h with
  | mk _ d _ _ _ _ hd _ _ _ _ _ hinv _ hsl _ =>
    refine ⟨d, hd, slotsT_of S d.fields cur sl 0 (by simpa using hsl) (fun j f hf hh => ?_)⟩
    obtain ⟨g, hg, hc⟩ := hidden_group f (0 + j) cur hh
    simp only [Nat.zero_add] at hf hc
    exact hinv j f g hf hg hc

/-! ### what `SlotOk` says about a slot, by the shape of the value -/

theorem slotOk_ph (S : Schema) (f : FieldD) (h : SlotOk S f .ph) : f.optional = false := by
  cases h with
  | flat _ _ _ hv => simpa [flatSlotOk] using hv
  | unsetAny _ ho => exact ho
  | unsetSub _ _ _ ho => exact ho
  | unsetTime _ _ _ ho => exact ho
  | unsetWrap _ _ _ ho => exact ho
  | wrap _ _ _ _ hv => simp [scalarOk] at hv
  | unsetMapS _ hm => exact hm.opt
  | unsetMapM _ _ hm => exact hm.opt

theorem defKind_none_of (f : FieldD) (hr : f.repeated = false) (hm : f.ty ≠ .map)
    (h : f.optional = true ∨ f.wraps.isSome = true) : f.defKind = .none := by
  unfold FieldD.defKind
  have : (f.ty == PType.map) = false := by simpa using hm
  rcases h with h | h <;> simp [hr, this, h]

theorem slotOk_none (S : Schema) (f : FieldD) (h : SlotOk S f .none) : f.optional = true ∨ f.defKind = .none := by
  cases h with
  | flat _ _ _ hv => left; simpa [flatSlotOk] using hv
  | noneAny _ ho => exact Or.inl ho
  | noneSub _ _ _ ho => exact Or.inl ho
  | noneTime _ _ _ ho => exact Or.inl ho
  | noneWrap _ w hw _ =>
    right
    exact defKind_none_of f hw.rep (by rw [hw.ty]; decide) (Or.inr (by rw [hw.wr]; rfl))
  | wrap _ _ _ _ hv => simp [scalarOk] at hv

theorem slotOk_msg (S : Schema) (f : FieldD) (c : Nat) (sl : List Val) (ow : Bool) (unk : Bytes) (cur : List (Option Nat))
    (h : SlotOk S f (.msg c sl ow unk cur)) : SubField f c ∧ f.repeated = false ∧ MsgOk S (.msg c sl ow unk cur) := by
  cases h with
  | flat _ _ _ hv => simp [flatSlotOk, scalarOk] at hv
  | sub _ _ _ _ _ _ hs hr hm => exact ⟨hs, hr, hm⟩
  | wrap _ _ _ _ hv => simp [scalarOk] at hv

theorem slotOk_list (S : Schema) (f : FieldD) (xs : List Val) (h : SlotOk S f (.list xs)) :
    f.repeated = true ∧ f.optional = false := by
  cases h with
  | flat _ _ hff hv =>
    simp only [flatSlotOk, Bool.and_eq_true] at hv
    exact ⟨hv.1, (hff.rep hv.1).1⟩
  | subs _ _ _ hs hr _ => exact ⟨hr, (hs.rep hr).1⟩
  | wrap _ _ _ _ hv => simp [scalarOk] at hv
  | tss _ _ ht _ => exact ⟨ht.rep, ht.opt⟩
  | durs _ _ ht _ => exact ⟨ht.rep, ht.opt⟩
  | wraps _ _ _ hw _ => exact ⟨hw.rep, hw.opt⟩

theorem slotOk_dict (S : Schema) (f : FieldD) (ks vs : List Val) (h : SlotOk S f (.dict ks vs)) :
    f.ty = .map ∧ f.repeated = false ∧ f.optional = false ∧ ks.length = vs.length := by
  cases h with
  | flat _ _ _ hv => simp [flatSlotOk, scalarOk] at hv
  | wrap _ _ _ _ hv => simp [scalarOk] at hv
  | mapS _ _ _ hm hl _ _ _ => exact ⟨hm.ty, hm.rep, hm.opt, hl⟩
  | mapM _ _ _ _ hm hl _ _ _ => exact ⟨hm.ty, hm.rep, hm.opt, hl⟩
  | mapT _ _ _ _ hm hl _ _ _ => exact ⟨hm.ty, hm.rep, hm.opt, hl⟩

/-- a scalar, datetime or timedelta slot value: the field is singular and flat, a wrapper, or a
    Timestamp / Duration field -/
def LeafT (f : FieldD) (v : Val) : Prop :=
  f.repeated = false ∧
    ((FlatField f ∧ scalarOk f.ty v = true) ∨ (∃ w, WrapField f w ∧ scalarOk w v = true)
      ∨ (∃ d, TimeField f d ∧ timeValOk d v = true))

theorem slotOk_leaf (S : Schema) (f : FieldD) (v : Val) (hl : scalarV v = true) (h : SlotOk S f v) : LeafT f v := by
  cases h with
  | flat _ _ hff hv =>
    have : flatSlotOk f v = (!f.repeated && scalarOk f.ty v) := by
      cases v <;> first | rfl | simp [scalarV] at hl
    rw [this] at hv
    simp only [Bool.and_eq_true, Bool.not_eq_true'] at hv
    exact ⟨hv.1, Or.inl ⟨hff, hv.2⟩⟩
  | ts _ us ht hv => exact ⟨ht.rep, Or.inr (Or.inr ⟨false, ht, by simpa [timeValOk] using hv⟩)⟩
  | dur _ us ht hv => exact ⟨ht.rep, Or.inr (Or.inr ⟨true, ht, by simpa [timeValOk] using hv⟩)⟩
  | wrap _ w _ hw hv => exact ⟨hw.rep, Or.inr (Or.inl ⟨w, hw, hv⟩)⟩
  | _ => simp [scalarV] at hl

theorem leafT_notmap (f : FieldD) (v : Val) (h : LeafT f v) : f.ty ≠ .map := by
  rcases h.2 with h | ⟨w, h, _⟩ | ⟨d, h, _⟩
  · have := h.1.sc; unfold isScalarType at this; simp at this; exact this.2
  · rw [h.ty]; decide
  · rw [h.ty]; decide

/-! ### a scalar / datetime / timedelta slot that emits no byte holds the default -/

theorem eqDefault_none (S : Schema) (v : Val) (h : eqDefault S .none v = true) : v = .none := by
  cases v <;> first | rfl | simp [eqDefault] at h

/-- the encoder's `value == default` implies the one of `__eq__` (which also knows `False == 0`) -/
theorem eqDefault_leaf_defEq (S : Schema) (k : DefKind) (v : Val) (hl : scalarV v = true)
    (h : eqDefault S k v = true) : defEq S k v = true := by
  cases v with
  | ph | none | list _ | dict _ _ | msg _ _ _ _ _ => simp [scalarV] at hl
  | int i =>
    simp only [eqDefault, Bool.and_eq_true, beq_iff_eq] at h
    obtain ⟨hk, hv⟩ := h; subst hk; subst hv; rw [defEq]; rfl
  | bool b =>
    simp only [eqDefault, Bool.and_eq_true, beq_iff_eq, Bool.not_eq_true'] at h
    obtain ⟨hk, hv⟩ := h; subst hk; subst hv; rw [defEq]; rfl
  | f32 b =>
    simp only [eqDefault, Bool.and_eq_true, beq_iff_eq, f32IsZero, Bool.or_eq_true] at h
    obtain ⟨hk, hv⟩ := h; subst hk; rw [defEq]
    rcases hv with hv | hv <;> subst hv <;> decide
  | f64 b =>
    simp only [eqDefault, Bool.and_eq_true, beq_iff_eq, f64IsZero, Bool.or_eq_true] at h
    obtain ⟨hk, hv⟩ := h; subst hk; rw [defEq]
    rcases hv with hv | hv <;> subst hv <;> decide
  | str b =>
    simp only [eqDefault, Bool.and_eq_true, beq_iff_eq, List.isEmpty_iff] at h
    obtain ⟨hk, hv⟩ := h; subst hk; subst hv; rw [defEq]; rfl
  | byt b =>
    simp only [eqDefault, Bool.and_eq_true, beq_iff_eq, List.isEmpty_iff] at h
    obtain ⟨hk, hv⟩ := h; subst hk; subst hv; rw [defEq]; rfl
  | ts us =>
    simp only [eqDefault, Bool.and_eq_true, beq_iff_eq] at h
    obtain ⟨hk, hv⟩ := h; subst hk; subst hv; rw [defEq]; rfl
  | dur us =>
    simp only [eqDefault, Bool.and_eq_true, beq_iff_eq] at h
    obtain ⟨hk, hv⟩ := h; subst hk; subst hv; rw [defEq]; rfl

/-- the contrapositive of `frame_ne_nil` -/
theorem frame_nil (num : Nat) (t : PType) (pre : Bytes) (se w : Bool) (h : frame num t pre se w = .ok []) :
    wireLenDelimTypes.contains t = true ∧ pre = [] ∧ se = false ∧ w = false := by
  by_cases hc : wireLenDelimTypes.contains t = true ∧ pre = [] ∧ se = false ∧ w = false
  · exact hc
  · exfalso
    apply frame_ne_nil num t pre se w [] h _ rfl
    intro hl
    by_cases h1 : pre = []
    · by_cases h2 : se = true
      · exact Or.inr (Or.inl h2)
      · by_cases h3 : w = true
        · exact Or.inr (Or.inr h3)
        · exact absurd ⟨hl, h1, by simpa using h2, by simpa using h3⟩ hc
    · exact Or.inl h1

theorem leaf_emit (S : Schema) (f : FieldD) (sel : Bool) (v : Val) (hl : scalarV v = true) (ht : LeafT f v)
    (h : dumpSlot S f false sel v = .ok []) : f.optional = false ∧ eqDefault S f.defKind v = true := by
  obtain ⟨se, hse, hds⟩ := dumpSlot_leaf S f sel v hl
  rw [hds] at h
  by_cases hc : (eqDefault S f.defKind v && !((f.group.isSome || f.optional) || sel)) = true
  · simp only [Bool.and_eq_true, Bool.not_eq_true', Bool.or_eq_false_iff] at hc
    exact ⟨hc.2.1.2, hc.1⟩
  · rw [if_neg hc] at h
    unfold serializeScalar at h
    obtain ⟨pre, hpre, h⟩ := bind_eq_ok _ _ _ h
    obtain ⟨hlen, hp, hse', hw⟩ := frame_nil _ _ _ _ _ h
    subst hp
    have ho : f.optional = false := by
      cases ho : f.optional with
      | false => rfl
      | true => rw [hse ho] at hse'; cases hse'
    have hw' : f.wraps = Option.none := by
      cases hwr : f.wraps with
      | none => rfl
      | some w => rw [hwr] at hw; simp at hw
    refine ⟨ho, ?_⟩
    have hty : f.ty = .string ∨ f.ty = .bytes ∨ f.ty = .message ∨ f.ty = .map := by
      simpa [wireLenDelimTypes] using hlen
    rcases ht.2 with ⟨hff, hv⟩ | ⟨w, hwf, _⟩ | ⟨d, htf, hv⟩
    · have hdk := flat_defKind_singular f hff ht.1
      rw [ho] at hdk
      simp only [Bool.false_eq_true, if_false] at hdk
      have hsc := hff.sc
      rcases hty with e | e | e | e
      · rw [e] at hv hpre
        rw [hdk, e]
        cases v <;> simp [scalarOk, intInRange] at hv
        simp [prepScalar, prepPlain, isFixed, fixedTypes] at hpre
        subst hpre
        rfl
      · rw [e] at hv hpre
        rw [hdk, e]
        cases v <;> simp [scalarOk, intInRange] at hv
        simp [prepScalar, prepPlain, isFixed, fixedTypes] at hpre
        subst hpre
        rfl
      · rw [e] at hsc; simp [isScalarType] at hsc
      · rw [e] at hsc; simp [isScalarType] at hsc
    · rw [hwf.wr] at hw'; cases hw'
    · have hdk : f.defKind = msgKindDef f.kind := by
        unfold FieldD.defKind
        simp [ht.1, htf.ty, ho, hw']
      rw [hdk, htf.kind]
      rw [htf.ty, hw'] at hpre
      cases d with
      | false =>
        obtain ⟨us, hv', _⟩ := timeValOk_ts v hv
        subst hv'
        simp only [prepScalar, beq_self_eq_true, if_true] at hpre
        have : us = 0 := by
          by_contra hne
          exact tsBytes_ne_nil us [] hpre hne rfl
        subst this; rfl
      | true =>
        obtain ⟨us, hv', _⟩ := timeValOk_dur v hv
        subst hv'
        simp only [prepScalar, beq_self_eq_true, if_true] at hpre
        have : us = 0 := by
          by_contra hne
          exact durBytes_ne_nil us [] hpre hne rfl
        subst this; rfl

/-- a non-empty list emits at least one byte -/
theorem list_emit (S : Schema) (f : FieldD) (sel : Bool) (xs : List Val)
    (h : dumpSlot S f false sel (.list xs) = .ok []) : xs = [] := by
  cases xs with
  | nil => rfl
  | cons x xs =>
    exfalso
    rw [dumpSlot] at h
    have he : eqDefault S f.defKind (.list (x :: xs)) = false := by simp [eqDefault]
    simp only [Bool.false_eq_true, if_false, he, Bool.false_and] at h
    split at h
    · rename_i hpk
      obtain ⟨buf, hbuf, h⟩ := bind_eq_ok _ _ _ h
      refine frame_ne_nil _ _ _ _ _ _ h (fun _ => Or.inl ?_) rfl
      rw [prepPacked] at hbuf
      obtain ⟨p, hp, hbuf⟩ := bind_eq_ok _ _ _ hbuf
      obtain ⟨q, _, hbuf⟩ := bind_eq_ok _ _ _ hbuf
      injection hbuf with hbuf; rw [← hbuf]
      apply app_ne_nil_left
      unfold prepScalar at hp
      simp only [isPacked_not_message f.ty hpk, Bool.false_eq_true, if_false] at hp
      exact prepPlain_packed_ne_nil _ _ _ hpk hp
    · unfold dumpItems at h
      obtain ⟨p, _, h⟩ := bind_eq_ok _ _ _ h
      simp only at h
      obtain ⟨q, _, h⟩ := bind_eq_ok _ _ _ h
      injection h with h
      have := (List.append_eq_nil_iff.1 h).1
      split at this
      · cases this
      · rename_i hne; rw [this] at hne; simp at hne

/-- a non-empty dict emits at least one byte -/
theorem dict_emit (S : Schema) (f : FieldD) (sel : Bool) (ks vs : List Val) (hl : ks.length = vs.length)
    (h : dumpSlot S f false sel (.dict ks vs) = .ok []) : ks = [] := by
  cases ks with
  | nil => rfl
  | cons k ks =>
    exfalso
    cases vs with
    | nil => simp at hl
    | cons v vs =>
      rw [dumpSlot] at h
      have he : eqDefault S f.defKind (.dict (k :: ks) (v :: vs)) = false := by simp [eqDefault]
      simp only [Bool.false_eq_true, if_false, he, Bool.false_and] at h
      unfold dumpEntries at h
      obtain ⟨sk, _, h⟩ := bind_eq_ok _ _ _ h
      obtain ⟨sv, _, h⟩ := bind_eq_ok _ _ _ h
      obtain ⟨e, hfr, h⟩ := bind_eq_ok _ _ _ h
      obtain ⟨rest, _, h⟩ := bind_eq_ok _ _ _ h
      injection h with h
      have := (List.append_eq_nil_iff.1 h).1
      subst this
      exact frame_ne_nil _ _ _ _ _ _ hfr (fun _ => Or.inr (Or.inl rfl)) rfl

/-! ### a slot that emits no byte (or that the encoder finds equal to the default) equals the
    slot of a fresh instance under `__eq__` -/

/-- one iteration of `slotsEqFresh` -/
def isDefSlot (S : Schema) (f : FieldD) (v : Val) : Bool :=
  match v with
  | .ph => true
  | v => eqDefault S f.defKind v

theorem slotsEqFresh_cons (S : Schema) (f : FieldD) (fs : List FieldD) (v : Val) (vs : List Val) :
    slotsEqFresh S (f :: fs) (v :: vs) = (isDefSlot S f v && slotsEqFresh S fs vs) := by
  cases v <;> (rw [slotsEqFresh]; all_goals first | rfl | (intros; contradiction))

theorem isDefSlot_set (S : Schema) (f : FieldD) (v : Val) (h : v ≠ .ph) : isDefSlot S f v = eqDefault S f.defKind v := by
  cases v <;> first | rfl | exact absurd rfl h

theorem leaf_default (S : Schema) (v : Val) (f : FieldD) (hid sel : Bool) (hl : scalarV v = true) (ht : SlotOk S f v)
    (hh : hid = true → v = .ph)
    (h : dumpSlot S f hid sel v = .ok [] ∨ eqDefault S f.defKind v = true) : slotDefB S f v = true := by
  have hhid : hid = false := by
    cases hid with
    | false => rfl
    | true => rw [hh rfl] at hl; simp [scalarV] at hl
  subst hhid
  have hT := slotOk_leaf S f v hl ht
  have key : f.optional = false ∧ eqDefault S f.defKind v = true := by
    rcases h with h | h
    · exact leaf_emit S f sel v hl hT h
    · refine ⟨?_, h⟩
      cases ho : f.optional with
      | false => rfl
      | true =>
        rw [defKind_none_of f hT.1 (leafT_notmap f v hT) (Or.inl ho)] at h
        rw [eqDefault_none S v h] at hl
        simp [scalarV] at hl
  have hd := eqDefault_leaf_defEq S f.defKind v hl key.2
  unfold slotDefB
  cases v <;> first | (simp [scalarV] at hl; done) | (simp only [key.1, Bool.false_eq_true, if_false]; exact hd)

mutual
theorem slot_default (S : Schema) : ∀ (v : Val) (f : FieldD) (hid sel : Bool), SlotOk S f v → (hid = true → v = .ph) →
    (dumpSlot S f hid sel v = .ok [] ∨ isDefSlot S f v = true) →
    slotDefB S f v = true
  | .ph, f, _, _, ht, _, _ => by simp [slotDefB, slotOk_ph S f ht]
  | .none, f, _, _, ht, _, _ => by
    unfold slotDefB
    rcases slotOk_none S f ht with ho | hk
    · simp [ho]
    · cases ho : f.optional <;> simp [hk, atomDefEq_none]
  | .list xs, f, hid, sel, ht, hh, h => by
    have hhid : hid = false := by
      cases hid with
      | false => rfl
      | true => cases hh rfl
    subst hhid
    obtain ⟨hr, ho⟩ := slotOk_list S f xs ht
    have hdk : f.defKind = .list := by unfold FieldD.defKind; simp [hr]
    have hx : xs = [] := by
      rcases h with h | h
      · exact list_emit S f sel xs h
      · change eqDefault S f.defKind (.list xs) = true at h
        rw [hdk] at h; simpa [eqDefault] using h
    subst hx
    simp [slotDefB, ho, hdk, defEq]
  | .dict ks vs, f, hid, sel, ht, hh, h => by
    have hhid : hid = false := by
      cases hid with
      | false => rfl
      | true => cases hh rfl
    subst hhid
    obtain ⟨hty, hr, ho, hl⟩ := slotOk_dict S f ks vs ht
    have hdk : f.defKind = .dict := by unfold FieldD.defKind; simp [hr, hty]
    have hx : ks = [] := by
      rcases h with h | h
      · exact dict_emit S f sel ks vs hl h
      · change eqDefault S f.defKind (.dict ks vs) = true at h
        rw [hdk] at h; simpa [eqDefault] using h
    subst hx
    simp [slotDefB, ho, hdk, defEq]
  | .msg c sl ow unk cur, f, hid, sel, ht, hh, h => by
    have hhid : hid = false := by
      cases hid with
      | false => rfl
      | true => cases hh rfl
    subst hhid
    obtain ⟨sf, hr, hm⟩ := slotOk_msg S f c sl ow unk cur ht
    obtain ⟨d, hd, hT⟩ := msgOk_slotsT S c sl ow unk cur hm
    have hfo := fieldsOf_eq S c d hd
    have hnm : f.ty ≠ .map := by rw [sf.ty]; decide
    -- the encoder's comparison with `Sub()`
    have key : eqDefault S f.defKind (.msg c sl ow unk cur) = true →
        f.optional = false ∧ slotsDef S (fieldsOf S c) sl = true := by
      intro he
      have ho : f.optional = false := by
        cases ho : f.optional with
        | false => rfl
        | true => rw [defKind_none_of f hr hnm (Or.inl ho)] at he; simp [eqDefault] at he
      have hdk : f.defKind = .msg c := by
        unfold FieldD.defKind
        simp [hr, sf.ty, ho, sf.nw, sf.kind, msgKindDef]
      rw [hdk, eqDefault] at he
      simp only [beq_self_eq_true, Bool.true_and] at he
      refine ⟨ho, ?_⟩
      rw [hfo] at he ⊢
      exact slots_default S sl d.fields cur 0 hT (Or.inr (by simpa using he))
    have fin : f.optional = false ∧ slotsDef S (fieldsOf S c) sl = true := by
      rcases h with h | h
      · rw [dumpSlot] at h
        simp only [Bool.false_eq_true, if_false] at h
        by_cases hc : (eqDefault S f.defKind (.msg c sl ow unk cur) && !(f.group.isSome || f.optional || ow || sel)) = true
        · simp only [Bool.and_eq_true] at hc
          exact key hc.1
        · rw [if_neg hc] at h
          obtain ⟨body, hbody, h⟩ := bind_eq_ok _ _ _ h
          simp only [sf.ty, sf.nw, beq_self_eq_true, Option.isNone_none, Bool.and_self, if_true] at h
          obtain ⟨_, hp, hse, _⟩ := frame_nil _ _ _ _ _ h
          have hb : body = [] := (List.append_eq_nil_iff.1 hp).1
          subst hb
          simp only [Bool.or_eq_false_iff] at hse
          refine ⟨hse.2.2, ?_⟩
          rw [hfo] at hbody ⊢
          exact slots_default S sl d.fields cur 0 hT (Or.inl hbody)
      · exact key h
    have hdk : f.defKind = .msg c := by
      unfold FieldD.defKind
      simp [hr, sf.ty, fin.1, sf.nw, sf.kind, msgKindDef]
    simp [slotDefB, fin.1, hdk, defEq, fin.2]
  | .int i, f, hid, sel, ht, hh, h => leaf_default S _ f hid sel rfl ht hh h
  | .bool i, f, hid, sel, ht, hh, h => leaf_default S _ f hid sel rfl ht hh h
  | .f32 i, f, hid, sel, ht, hh, h => leaf_default S _ f hid sel rfl ht hh h
  | .f64 i, f, hid, sel, ht, hh, h => leaf_default S _ f hid sel rfl ht hh h
  | .str i, f, hid, sel, ht, hh, h => leaf_default S _ f hid sel rfl ht hh h
  | .byt i, f, hid, sel, ht, hh, h => leaf_default S _ f hid sel rfl ht hh h
  | .ts i, f, hid, sel, ht, hh, h => leaf_default S _ f hid sel rfl ht hh h
  | .dur i, f, hid, sel, ht, hh, h => leaf_default S _ f hid sel rfl ht hh h
termination_by structural v => v

theorem slots_default (S : Schema) : ∀ (vs : List Val) (fs : List FieldD) (cur : List (Option Nat)) (k : Nat),
    SlotsT S fs cur k vs →
    (dumpSlots S fs cur k vs = .ok [] ∨ slotsEqFresh S (fs.drop k) vs = true) → slotsDef S (fs.drop k) vs = true
  | [], fs, _, k, _, _ => slotsDef_nil S _
  | v :: vs, fs, cur, k, hT, h => by
    obtain ⟨⟨f, hf, hv, hh⟩, hrest⟩ := hT
    rw [drop_cons_of_get fs k f hf] at h ⊢
    rw [slotsDef_cons]
    have hsplit : (dumpSlot S f (hidden f k cur) (selectedInGroup f k cur) v = .ok [] ∧ dumpSlots S fs cur (k + 1) vs = .ok [])
        ∨ (isDefSlot S f v = true ∧ slotsEqFresh S (fs.drop (k + 1)) vs = true) := by
      rcases h with h | h
      · left
        rw [dumpSlots] at h
        simp only [hf] at h
        obtain ⟨a, ha, h⟩ := bind_eq_ok _ _ _ h
        obtain ⟨b, hb, h⟩ := bind_eq_ok _ _ _ h
        injection h with h
        obtain ⟨h1, h2⟩ := List.append_eq_nil_iff.1 h
        subst h1; subst h2
        exact ⟨ha, hb⟩
      · right
        rw [slotsEqFresh_cons, Bool.and_eq_true] at h
        exact h
    rcases hsplit with ⟨h1, h2⟩ | ⟨h1, h2⟩
    · rw [slot_default S v f (hidden f k cur) (selectedInGroup f k cur) hv hh (Or.inl h1),
        slots_default S vs fs cur (k + 1) hrest (Or.inl h2)]; rfl
    · rw [slot_default S v f (hidden f k cur) (selectedInGroup f k cur) hv hh (Or.inr h1),
        slots_default S vs fs cur (k + 1) hrest (Or.inr h2)]; rfl
termination_by structural vs => vs
end

/-! ### the containment -/

theorem valEqv_ph_right (S : Schema) (a : Val) (h : ValEqv S a .ph) : a = .ph := by
  cases h; rfl

mutual
theorem valEqv_valEq (S : Schema) : ∀ (a b : Val), DeepOk S a → ValEqv S a b →
    valEq S a b = true ∧ valEq S b a = true
  | .msg c sl ow unk cur, b, hd, h => by
    have hm : MsgOk S (.msg c sl ow unk cur) := by rw [DeepOk] at hd; exact hd
    obtain ⟨d, hdd, hT⟩ := msgOk_slotsT S c sl ow unk cur hm
    have hfo := fieldsOf_eq S c d hdd
    cases h with
    | refl => exact ⟨valEq_refl S _ hd, valEq_refl S _ hd⟩
    | emptyMsg _ _ _ _ _ hdump =>
      rw [dumpVal] at hdump
      obtain ⟨body, hbody, hdump⟩ := bind_eq_ok _ _ _ hdump
      injection hdump with hdump
      have hb : body = [] := (List.append_eq_nil_iff.1 hdump).1
      subst hb
      rw [hfo] at hbody
      have hs := slots_default S sl d.fields cur 0 hT (Or.inl hbody)
      have e : fresh S c = defaultOfKind S (.msg c) := rfl
      rw [e, valEq_default_right, valEq_default_left, defEq, hfo]
      simpa using hs
    | msg _ _ sl' _ _ _ hs =>
      rw [hfo] at hs
      have := slotsEqv_slotsEq S sl sl' d.fields cur 0 hT hs
      rw [valEq_msg_msg, valEq_msg_msg, hfo]
      simpa using this
  | .list xs, b, hd, h => by
    cases h with
    | refl => exact ⟨valEq_refl S _ hd, valEq_refl S _ hd⟩
    | list _ ys hl =>
      rw [DeepOk] at hd
      rw [valEq_list_list, valEq_list_list]
      exact listEqv_listEq S xs ys hd hl
  | .dict ks vs, b, hd, h => by
    cases h with
    | refl => exact ⟨valEq_refl S _ hd, valEq_refl S _ hd⟩
    | dict _ _ vs' hl =>
      rw [DeepOk] at hd
      obtain ⟨h1, h2⟩ := listEqv_listEq S vs vs' hd.2.2.2 hl
      have hlen := listEq_length S vs vs' h1
      exact ⟨valEq_dict_same_keys S ks vs vs' hd.1 hd.2.1 hd.2.2.1 h1,
        valEq_dict_same_keys S ks vs' vs (by rw [← hlen]; exact hd.1) hd.2.1 hd.2.2.1 h2⟩
  | .f32 x, b, hd, h => by
    cases h with
    | refl => exact ⟨valEq_refl S _ hd, valEq_refl S _ hd⟩
    | negZero32 => exact ⟨by rw [valEq]; decide, by rw [valEq]; decide⟩
  | .f64 x, b, hd, h => by
    cases h with
    | refl => exact ⟨valEq_refl S _ hd, valEq_refl S _ hd⟩
    | negZero64 => exact ⟨by rw [valEq]; decide, by rw [valEq]; decide⟩
  | .ph, b, hd, h | .none, b, hd, h | .int _, b, hd, h | .bool _, b, hd, h | .str _, b, hd, h | .byt _, b, hd, h
  | .ts _, b, hd, h | .dur _, b, hd, h => by
    cases h
    exact ⟨valEq_refl S _ hd, valEq_refl S _ hd⟩
termination_by structural a => a

theorem listEqv_listEq (S : Schema) : ∀ (xs ys : List Val), DeepOkL S xs → ListEqv S xs ys →
    listEq S xs ys = true ∧ listEq S ys xs = true
  | [], ys, _, h => by cases h; exact ⟨by rw [listEq], by rw [listEq]⟩
  | x :: xs, ys, hd, h => by
    rw [DeepOkL] at hd
    cases h with
    | cons _ y _ ys' hv hl =>
      obtain ⟨a1, a2⟩ := valEqv_valEq S x y hd.1 hv
      obtain ⟨b1, b2⟩ := listEqv_listEq S xs ys' hd.2 hl
      rw [listEq_cons, listEq_cons, a1, a2, b1, b2]
      exact ⟨rfl, rfl⟩
termination_by structural xs => xs

theorem slotsEqv_slotsEq (S : Schema) : ∀ (vs vs' : List Val) (fs : List FieldD) (cur : List (Option Nat)) (k : Nat),
    SlotsT S fs cur k vs → SlotsEqv S fs cur k vs vs' →
    slotsEq S (fs.drop k) vs vs' = true ∧ slotsEq S (fs.drop k) vs' vs = true
  | [], vs', fs, cur, k, _, h => by
    cases h
    exact ⟨slotsEq_nil_left S _ _, slotsEq_nil_left S _ _⟩
  | v :: vs, vs', fs, cur, k, hT, h => by
    obtain ⟨⟨f, hf, hv, hh⟩, hrest⟩ := hT
    rw [drop_cons_of_get fs k f hf]
    cases h with
    | consEqv _ _ _ _ v' _ vs'' hvv hr =>
      obtain ⟨r1, r2⟩ := slotsEqv_slotsEq S vs vs'' fs cur (k + 1) hrest hr
      rw [slotsEq_cons, slotsEq_cons, r1, r2, Bool.and_true, Bool.and_true]
      by_cases hp : v = .ph
      · subst hp
        cases hvv
        exact ⟨rfl, rfl⟩
      · have hp' : v' ≠ .ph := by
          intro e; subst e
          exact hp (valEqv_ph_right S v hvv)
        rw [slotEqB_set S f v v' hp hp', slotEqB_set S f v' v hp' hp]
        exact valEqv_valEq S v v' (slotOk_deepOk S f v hv) hvv
    | consFresh _ _ _ _ v' _ vs'' f' hf' hv' hdump hr =>
      obtain ⟨r1, r2⟩ := slotsEqv_slotsEq S vs vs'' fs cur (k + 1) hrest hr
      have ef : f' = f := by rw [hf] at hf'; injection hf' with e; exact e.symm
      subst ef
      subst hv'
      have hsd := slot_default S v f' _ _ hv hh (Or.inl hdump)
      rw [slotsEq_cons, slotsEq_cons, r1, r2, slotEqB_fresh_right, slotEqB_fresh_left, hsd]
      exact ⟨rfl, rfl⟩
termination_by structural vs => vs
end

end Bp.EqS

namespace Bp
open Gen EqS

/-- **`ValEqv` is contained in `==`**: a well-typed message and anything `ValEqv`-related to it
    (in particular what `parse(bytes(m))` returns) are equal under `Message.__eq__`, in both
    orders.  Nothing is assumed about `m'`. -/
theorem valEqv_msgEq (S : Schema) (m m' : Val) (hm : MsgOk S m) (h : ValEqv S m m') :
    msgEq S m m' = true ∧ msgEq S m' m = true := by
  cases hm with
  | mk c d sl ow unk cur hd h1 h2 h3 h4 h5 h6 h7 h8 h9 =>
    have hmm : MsgOk S (.msg c sl ow unk cur) := MsgOk.mk c d sl ow unk cur hd h1 h2 h3 h4 h5 h6 h7 h8 h9
    have hd' : DeepOk S (.msg c sl ow unk cur) := by rw [DeepOk]; exact hmm
    obtain ⟨e1, e2⟩ := valEqv_valEq S _ m' hd' h
    have hmsg : isMsgVal m' = true := by
      cases h with
      | refl => rfl
      | emptyMsg => rfl
      | msg => rfl
    unfold msgEq
    rw [e1, e2, hmsg]
    exact ⟨rfl, rfl⟩

end Bp

#print axioms Bp.valEqv_msgEq
#print axioms Bp.EqS.valEq_default_right
#print axioms Bp.EqS.valEq_default_left
