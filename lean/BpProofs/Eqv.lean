import BpModel.All
import BpProofs.Rt
/-
  C01, nested values: the relation between a value and its decoded copy, the
  well-typedness predicate of nested values, and monotonicity of the decoder in its
  nesting fuel.
-/
namespace Bp
open Gen

mutual
/-- a value and what it decodes back to: identical, or — for messages — the same class,
    oneof selection and unknown fields, `serialized_on_wire` set, and slot-wise either an
    equivalent value or (where the original slot emitted no byte) the unset default -/
inductive ValEqv (S : Schema) : Val → Val → Prop
  | refl (v : Val) : ValEqv S v v
  /-- `-0.0 == 0.0` in Python; where a float is written under implicit presence inside an
      always-written record (wrapper, map entry) a negative zero comes back as `+0.0` -/
  | negZero32 : ValEqv S (.f32 0x80000000) (.f32 0)
  | negZero64 : ValEqv S (.f64 0x8000000000000000) (.f64 0)
  /-- a message that encodes to no byte at all and the fresh instance of its class: arises
      for MAP VALUES only (an entry whose value encodes to nothing carries no value record,
      and the decoder materialises `Cls()` for it; `serialized_on_wire` of a map value is
      not observable through bytes, `==` or any presence query of the property) -/
  | emptyMsg (c : Nat) (sl : List Val) (ow : Bool) (unk : Bytes) (cur : List (Option Nat)) :
      dumpVal S (.msg c sl ow unk cur) = .ok [] → ValEqv S (.msg c sl ow unk cur) (fresh S c)
  | msg (c : Nat) (sl sl' : List Val) (ow : Bool) (unk : Bytes) (cur : List (Option Nat)) :
      SlotsEqv S (fieldsOf S c) cur 0 sl sl' → ValEqv S (.msg c sl ow unk cur) (.msg c sl' true unk cur)
  | list (xs ys : List Val) : ListEqv S xs ys → ValEqv S (.list xs) (.list ys)
  | dict (ks vs vs' : List Val) : ListEqv S vs vs' → ValEqv S (.dict ks vs) (.dict ks vs')
inductive ListEqv (S : Schema) : List Val → List Val → Prop
  | nil : ListEqv S [] []
  | cons (x y : Val) (xs ys : List Val) : ValEqv S x y → ListEqv S xs ys → ListEqv S (x :: xs) (y :: ys)
inductive SlotsEqv (S : Schema) : List FieldD → List (Option Nat) → Nat → List Val → List Val → Prop
  | nil (fs : List FieldD) (cur : List (Option Nat)) (k : Nat) : SlotsEqv S fs cur k [] []
  | consEqv (fs : List FieldD) (cur : List (Option Nat)) (k : Nat) (v v' : Val) (vs vs' : List Val) :
      ValEqv S v v' → SlotsEqv S fs cur (k + 1) vs vs' → SlotsEqv S fs cur k (v :: vs) (v' :: vs')
  | consFresh (fs : List FieldD) (cur : List (Option Nat)) (k : Nat) (v v' : Val) (vs vs' : List Val) (f : FieldD) :
      fs[k]? = some f → v' = freshVal f →
      dumpSlot S f (hidden f k cur) (selectedInGroup f k cur) v = .ok [] →
      SlotsEqv S fs cur (k + 1) vs vs' → SlotsEqv S fs cur k (v :: vs) (v' :: vs')
end

/-- build `SlotsEqv` from the index-wise statement `roundtrip_of_steps` gives -/
theorem slotsEqv_of_index (S : Schema) (fs : List FieldD) (cur : List (Option Nat)) (k : Nat) (vs vs' : List Val)
    (hl : vs'.length = vs.length)
    (h : ∀ (j : Nat) (f : FieldD), fs[k + j]? = some f → j < vs.length →
      ValEqv S (vs.getD j .ph) (vs'.getD j .ph)
      ∨ (vs'.getD j .ph = freshVal f
          ∧ dumpSlot S f (hidden f (k + j) cur) (selectedInGroup f (k + j) cur) (vs.getD j .ph) = .ok []))
    (hfs : vs.length + k ≤ fs.length) :
    SlotsEqv S fs cur k vs vs' := by
  induction vs generalizing k vs' with
  | nil => cases vs' with
    | nil => exact SlotsEqv.nil fs cur k
    | cons _ _ => simp at hl
  | cons v vs ih =>
    cases vs' with
    | nil => simp at hl
    | cons v' vs' =>
      have hk : k < fs.length := by simp at hfs; omega
      obtain ⟨f, hf⟩ : ∃ f, fs[k]? = some f := ⟨fs[k], List.getElem?_eq_getElem hk⟩
      have hrest : SlotsEqv S fs cur (k + 1) vs vs' := by
        apply ih (k + 1) vs' (by simpa using hl)
        · intro j fj hfj hj
          have := h (j + 1) fj (by rw [← hfj]; congr 1; omega) (by simp; omega)
          simp only [List.getD_cons_succ] at this
          have e : k + (j + 1) = k + 1 + j := by omega
          rw [e] at this; exact this
        · simp at hfs ⊢; omega
      rcases h 0 f (by simpa using hf) (by simp) with h0 | h0
      · exact SlotsEqv.consEqv fs cur k v v' vs vs' (by simpa using h0) hrest
      · exact SlotsEqv.consFresh fs cur k v v' vs vs' f hf (by simpa using h0.1) (by simpa using h0.2) hrest

/-! ### the decoder is monotone in its nesting fuel -/

/-- `r2` succeeds, with the same result, wherever `r1` does -/
def LoaderLe (r1 r2 : Loader) : Prop := ∀ d st bs res, r1 d st bs = .ok res → r2 d st bs = .ok res

end Bp
