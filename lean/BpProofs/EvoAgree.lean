import BpModel.All
import BpProofs.Encodable
/-
  Schema evolution, the "bystander" half: two schemas `S` and `S'` that agree on every class
  index except `c`, where no field of any class of `S` refers to class `c` (as sub-message
  class or as map-value class).  Then every well-typed value of a class other than `c` is
  well-typed under `S'` too, and encodes to the same bytes under both schemas.

  Structure:
    (1) the encoder reads the schema only through `fieldsOf S c'` for the class `c'` of a
        message VALUE it meets (and, for scalars, through `eqDefault S (scalarDef w) v` /
        `defaultOfKind S k` with a scalar `k`, where `S` is irrelevant).  So byte equality is a
        purely syntactic fact: it holds for every value in which no nested message value has
        class `c` (`clsFree`), whatever the typing (`dumpSlot_free`, `dumpVal_free`, …);
    (2) a well-typed value in a `FieldFree` field is `clsFree` and well-typed under `S'`
        (`slotOk_tr`, …): one structural recursion over the value in the pattern of
        `slotOk_encodable`.
-/
namespace Bp
open Gen

/-- the two schemas agree on every class index except `c` -/
def AgreeOff (c : Nat) (S S' : Schema) : Prop := ∀ c', c' ≠ c → S'[c']? = S[c']?

/-- field `f` does not refer to class `c` as its sub-message class or its map-value class -/
def FieldFree (c : Nat) (f : FieldD) : Prop :=
  (f.ty = PType.message → f.kind ≠ MsgKind.user c) ∧ (f.ty = PType.map → f.mapVKind ≠ MsgKind.user c)

/-- no field of any class of `S` refers to class `c` -/
def SchemaFree (c : Nat) (S : Schema) : Prop := ∀ d ∈ S, ∀ f ∈ d.fields, FieldFree c f

/-! ### Bool checkers -/

def fieldFreeB (c : Nat) (f : FieldD) : Bool :=
  (!(f.ty == PType.message) || !(f.kind == MsgKind.user c))
    && (!(f.ty == PType.map) || !(f.mapVKind == MsgKind.user c))

def schemaFreeB (c : Nat) (S : Schema) : Bool := S.all fun d => d.fields.all (fieldFreeB c)

theorem fieldFreeB_sound (c : Nat) (f : FieldD) (h : fieldFreeB c f = true) : FieldFree c f := by
  unfold fieldFreeB at h
  simp only [Bool.and_eq_true, Bool.or_eq_true, Bool.not_eq_true', beq_eq_false_iff_ne, ne_eq] at h
  constructor
  · intro ht
    rcases h.1 with h1 | h1
    · exact absurd ht h1
    · exact h1
  · intro ht
    rcases h.2 with h1 | h1
    · exact absurd ht h1
    · exact h1

theorem fieldFreeB_complete (c : Nat) (f : FieldD) (h : FieldFree c f) : fieldFreeB c f = true := by
  unfold fieldFreeB
  simp only [Bool.and_eq_true, Bool.or_eq_true, Bool.not_eq_true', beq_eq_false_iff_ne, ne_eq]
  constructor
  · by_cases ht : f.ty = PType.message
    · exact Or.inr (h.1 ht)
    · exact Or.inl ht
  · by_cases ht : f.ty = PType.map
    · exact Or.inr (h.2 ht)
    · exact Or.inl ht

theorem schemaFreeB_sound (c : Nat) (S : Schema) (h : schemaFreeB c S = true) : SchemaFree c S := by
  unfold schemaFreeB at h
  simp only [List.all_eq_true] at h
  intro d hd f hf
  exact fieldFreeB_sound c f (h d hd f hf)

theorem schemaFreeB_complete (c : Nat) (S : Schema) (h : SchemaFree c S) : schemaFreeB c S = true := by
  unfold schemaFreeB
  simp only [List.all_eq_true]
  intro d hd f hf
  exact fieldFreeB_complete c f (h d hd f hf)

/-! ### (1) byte equality is syntactic -/

mutual
/-- no message value nested in the value (the value itself included) has class `c`;
    map keys are not inspected (they are written by `serializeScalar`, which ignores the schema) -/
def clsFree (c : Nat) : Val → Bool
  | .msg c' sl _ _ _ => c' != c && clsFreeL c sl
  | .list xs => clsFreeL c xs
  | .dict _ vs => clsFreeL c vs
  | _ => true
def clsFreeL (c : Nat) : List Val → Bool
  | [] => true
  | x :: xs => clsFree c x && clsFreeL c xs
end

theorem fieldsOf_agree (c : Nat) (S S' : Schema) (ha : AgreeOff c S S') (c' : Nat) (hc : c' ≠ c) :
    fieldsOf S' c' = fieldsOf S c' := by
  unfold fieldsOf
  rw [ha c' hc]

theorem groupsOf_agree (c : Nat) (S S' : Schema) (ha : AgreeOff c S S') (c' : Nat) (hc : c' ≠ c) :
    groupsOf S' c' = groupsOf S c' := by
  unfold groupsOf
  rw [ha c' hc]

/-- against a scalar default the schema is irrelevant -/
theorem eqDefault_scalarDef (S S' : Schema) (w : PType) (v : Val) :
    eqDefault S' (scalarDef w) v = eqDefault S (scalarDef w) v := by
  cases v with
  | msg c sl ow unk cur => cases w <;> simp [eqDefault, scalarDef]
  | _ => simp [eqDefault]

/-- on a value that is not a message the schema is irrelevant -/
theorem eqDefault_nonmsg (S S' : Schema) (k : DefKind) (v : Val) (h : isMsgVal v = false) :
    eqDefault S' k v = eqDefault S k v := by
  cases v with
  | msg c sl ow unk cur => simp [isMsgVal] at h
  | _ => simp [eqDefault]

theorem wrapperBytes_indep (S S' : Schema) : wrapperBytes S' = wrapperBytes S := by
  funext w v
  unfold wrapperBytes scalarIsDefault
  rw [eqDefault_scalarDef S S']

theorem prepScalar_indep (S S' : Schema) : prepScalar S' = prepScalar S := by
  funext t w v
  unfold prepScalar
  rw [wrapperBytes_indep S S']

theorem serializeScalar_indep (S S' : Schema) : serializeScalar S' = serializeScalar S := by
  funext n t v se w
  unfold serializeScalar
  rw [prepScalar_indep S S']

theorem prepPacked_indep (S S' : Schema) (t : PType) : ∀ xs : List Val, prepPacked S' t xs = prepPacked S t xs
  | [] => by rw [prepPacked, prepPacked]
  | x :: xs => by rw [prepPacked, prepPacked, prepScalar_indep S S', prepPacked_indep S S' t xs]

theorem dumpDefault_indep (S S' : Schema) (f : FieldD) (sel : Bool) : dumpDefault S' f sel = dumpDefault S f sel := by
  unfold dumpDefault
  rw [serializeScalar_indep S S']
  generalize f.defKind = k
  cases k <;> rfl

/-- a message value of a class other than `c` whose slots compare alike -/
theorem eqDefault_msg_of (c : Nat) (S S' : Schema) (ha : AgreeOff c S S') (c' : Nat) (sl : List Val) (ow : Bool)
    (unk : Bytes) (cur : List (Option Nat)) (hc : c' ≠ c)
    (ih : ∀ fs, slotsEqFresh S' fs sl = slotsEqFresh S fs sl) (k : DefKind) :
    eqDefault S' k (.msg c' sl ow unk cur) = eqDefault S k (.msg c' sl ow unk cur) := by
  cases k with
  | msg c'' => simp only [eqDefault]; rw [fieldsOf_agree c S S' ha c' hc, ih]
  | _ => simp [eqDefault]

theorem clsFree_msg (c c' : Nat) (sl : List Val) (ow : Bool) (unk : Bytes) (cur : List (Option Nat))
    (h : clsFree c (.msg c' sl ow unk cur) = true) : c' ≠ c ∧ clsFreeL c sl = true := by
  rw [clsFree] at h
  simpa using h

theorem clsFreeL_cons (c : Nat) (x : Val) (xs : List Val) (h : clsFreeL c (x :: xs) = true) :
    clsFree c x = true ∧ clsFreeL c xs = true := by
  rw [clsFreeL] at h
  simpa using h

mutual
theorem eqDefault_free (c : Nat) (S S' : Schema) (ha : AgreeOff c S S') : ∀ (v : Val), clsFree c v = true →
    ∀ k, eqDefault S' k v = eqDefault S k v
  | .msg c' sl ow unk cur, h, k => by
    obtain ⟨hc, hsl⟩ := clsFree_msg c c' sl ow unk cur h
    exact eqDefault_msg_of c S S' ha c' sl ow unk cur hc (slotsEqFresh_free c S S' ha sl hsl) k
  | .ph, _, k => eqDefault_nonmsg S S' k _ rfl
  | .none, _, k => eqDefault_nonmsg S S' k _ rfl
  | .int _, _, k => eqDefault_nonmsg S S' k _ rfl
  | .bool _, _, k => eqDefault_nonmsg S S' k _ rfl
  | .f32 _, _, k => eqDefault_nonmsg S S' k _ rfl
  | .f64 _, _, k => eqDefault_nonmsg S S' k _ rfl
  | .str _, _, k => eqDefault_nonmsg S S' k _ rfl
  | .byt _, _, k => eqDefault_nonmsg S S' k _ rfl
  | .ts _, _, k => eqDefault_nonmsg S S' k _ rfl
  | .dur _, _, k => eqDefault_nonmsg S S' k _ rfl
  | .list _, _, k => eqDefault_nonmsg S S' k _ rfl
  | .dict _ _, _, k => eqDefault_nonmsg S S' k _ rfl

theorem slotsEqFresh_free (c : Nat) (S S' : Schema) (ha : AgreeOff c S S') : ∀ (vs : List Val), clsFreeL c vs = true →
    ∀ fs, slotsEqFresh S' fs vs = slotsEqFresh S fs vs
  | [], _, fs => by
    cases fs <;> (rw [slotsEqFresh, slotsEqFresh]; all_goals (intros; contradiction))
  | v :: vs, _, [] => by
    rw [slotsEqFresh, slotsEqFresh]; all_goals (intros; contradiction)
  | v :: vs, h, f :: fs => by
    obtain ⟨hv, hvs⟩ := clsFreeL_cons c v vs h
    have h1 := eqDefault_free c S S' ha v hv f.defKind
    have h2 := slotsEqFresh_free c S S' ha vs hvs fs
    cases v <;> simp only [slotsEqFresh, h1, h2]
end

theorem dumpEntries_short (S : Schema) (f : FieldD) (ks vs : List Val) (h : ks = [] ∨ vs = []) :
    dumpEntries S f ks vs = .ok [] := by
  rcases h with rfl | rfl
  · rw [dumpEntries]; all_goals (intros; contradiction)
  · rw [dumpEntries]; all_goals (intros; contradiction)

/-- `dumpItems` on a non-message head -/
theorem dumpItems_nonmsg (S : Schema) (f : FieldD) (x : Val) (xs : List Val) (h : isMsgVal x = false) :
    dumpItems S f (x :: xs) =
      (serializeScalar S f.num f.ty x true f.wraps).bind fun a =>
        (dumpItems S f xs).bind fun b => .ok ((if a.isEmpty then [10, 0] else a) ++ b) := by
  cases x <;> first | (simp [isMsgVal] at h; done) | (rw [dumpItems]; all_goals (intros; contradiction))

theorem dumpEntryVal_nonmsg (S : Schema) (f : FieldD) (v : Val) (h : isMsgVal v = false) :
    dumpEntryVal S f v = serializeScalar S 2 f.mapV v false Option.none := by
  cases v <;> first | rfl | (simp [isMsgVal] at h)

mutual
theorem dumpVal_free (c : Nat) (S S' : Schema) (ha : AgreeOff c S S') : ∀ (v : Val), clsFree c v = true →
    dumpVal S' v = dumpVal S v
  | .msg c' sl ow unk cur, h => by
    obtain ⟨hc, hsl⟩ := clsFree_msg c c' sl ow unk cur h
    rw [dumpVal_msg, dumpVal_msg, fieldsOf_agree c S S' ha c' hc, dumpSlots_free c S S' ha sl hsl]
  | .ph, _ | .none, _ | .int _, _ | .bool _, _ | .f32 _, _ | .f64 _, _ | .str _, _ | .byt _, _
  | .ts _, _ | .dur _, _ | .list _, _ | .dict _ _, _ => by rw [dumpVal, dumpVal] <;> (intros; contradiction)

theorem dumpSlots_free (c : Nat) (S S' : Schema) (ha : AgreeOff c S S') : ∀ (vs : List Val), clsFreeL c vs = true →
    ∀ (F : List FieldD) (cur : List (Option Nat)) (idx : Nat), dumpSlots S' F cur idx vs = dumpSlots S F cur idx vs
  | [], _, F, cur, idx => by rw [dumpSlots, dumpSlots]
  | v :: vs, h, F, cur, idx => by
    obtain ⟨hv, hvs⟩ := clsFreeL_cons c v vs h
    rw [dumpSlots, dumpSlots]
    cases hF : F[idx]? with
    | none => rfl
    | some f =>
      simp only []
      rw [dumpSlot_free c S S' ha v hv f, dumpSlots_free c S S' ha vs hvs F cur (idx + 1)]

theorem dumpSlot_free (c : Nat) (S S' : Schema) (ha : AgreeOff c S S') : ∀ (v : Val), clsFree c v = true →
    ∀ (f : FieldD) (hid sel : Bool), dumpSlot S' f hid sel v = dumpSlot S f hid sel v
  | .ph, _, f, hid, sel => by rw [dumpSlot, dumpSlot, dumpDefault_indep S S']
  | .none, _, f, hid, sel => by rw [dumpSlot, dumpSlot]
  | .list xs, h, f, hid, sel => by
    have hxs : clsFreeL c xs = true := by rw [clsFree] at h; exact h
    rw [dumpSlot, dumpSlot, eqDefault_nonmsg S S' _ (.list xs) rfl, prepPacked_indep S S',
      dumpItems_free c S S' ha xs hxs f]
  | .dict ks vs, h, f, hid, sel => by
    have hvs : clsFreeL c vs = true := by rw [clsFree] at h; exact h
    rw [dumpSlot, dumpSlot, eqDefault_nonmsg S S' _ (.dict ks vs) rfl, dumpEntries_free c S S' ha vs hvs f ks]
  | .msg c' sl ow unk cur, h, f, hid, sel => by
    obtain ⟨hc, hsl⟩ := clsFree_msg c c' sl ow unk cur h
    rw [dumpSlot, dumpSlot,
      eqDefault_msg_of c S S' ha c' sl ow unk cur hc (slotsEqFresh_free c S S' ha sl hsl),
      fieldsOf_agree c S S' ha c' hc, dumpSlots_free c S S' ha sl hsl]
  | .int i, _, f, hid, sel => by
    rw [dumpSlot_plain S' f hid sel _ rfl, dumpSlot_plain S f hid sel _ rfl, eqDefault_nonmsg S S' _ _ rfl,
      serializeScalar_indep S S']
  | .bool i, _, f, hid, sel => by
    rw [dumpSlot_plain S' f hid sel _ rfl, dumpSlot_plain S f hid sel _ rfl, eqDefault_nonmsg S S' _ _ rfl,
      serializeScalar_indep S S']
  | .f32 i, _, f, hid, sel => by
    rw [dumpSlot_plain S' f hid sel _ rfl, dumpSlot_plain S f hid sel _ rfl, eqDefault_nonmsg S S' _ _ rfl,
      serializeScalar_indep S S']
  | .f64 i, _, f, hid, sel => by
    rw [dumpSlot_plain S' f hid sel _ rfl, dumpSlot_plain S f hid sel _ rfl, eqDefault_nonmsg S S' _ _ rfl,
      serializeScalar_indep S S']
  | .str i, _, f, hid, sel => by
    rw [dumpSlot_plain S' f hid sel _ rfl, dumpSlot_plain S f hid sel _ rfl, eqDefault_nonmsg S S' _ _ rfl,
      serializeScalar_indep S S']
  | .byt i, _, f, hid, sel => by
    rw [dumpSlot_plain S' f hid sel _ rfl, dumpSlot_plain S f hid sel _ rfl, eqDefault_nonmsg S S' _ _ rfl,
      serializeScalar_indep S S']
  | .ts i, _, f, hid, sel => by
    rw [dumpSlot_plain S' f hid sel _ rfl, dumpSlot_plain S f hid sel _ rfl, eqDefault_nonmsg S S' _ _ rfl,
      serializeScalar_indep S S']
  | .dur i, _, f, hid, sel => by
    rw [dumpSlot_plain S' f hid sel _ rfl, dumpSlot_plain S f hid sel _ rfl, eqDefault_nonmsg S S' _ _ rfl,
      serializeScalar_indep S S']

theorem dumpItems_free (c : Nat) (S S' : Schema) (ha : AgreeOff c S S') : ∀ (xs : List Val), clsFreeL c xs = true →
    ∀ (f : FieldD), dumpItems S' f xs = dumpItems S f xs
  | [], _, f => by rw [dumpItems, dumpItems]
  | .msg c' sl ow unk cur :: xs, h, f => by
    obtain ⟨hx, hxs⟩ := clsFreeL_cons c _ xs h
    obtain ⟨hc, hsl⟩ := clsFree_msg c c' sl ow unk cur hx
    rw [dumpItems, dumpItems, fieldsOf_agree c S S' ha c' hc, dumpSlots_free c S S' ha sl hsl,
      dumpItems_free c S S' ha xs hxs f]
  | .ph :: xs, h, f | .none :: xs, h, f | .int _ :: xs, h, f | .bool _ :: xs, h, f | .f32 _ :: xs, h, f
  | .f64 _ :: xs, h, f | .str _ :: xs, h, f | .byt _ :: xs, h, f | .ts _ :: xs, h, f | .dur _ :: xs, h, f
  | .list _ :: xs, h, f | .dict _ _ :: xs, h, f => by
    obtain ⟨_, hxs⟩ := clsFreeL_cons c _ xs h
    rw [dumpItems_nonmsg S' f _ xs rfl, dumpItems_nonmsg S f _ xs rfl, serializeScalar_indep S S',
      dumpItems_free c S S' ha xs hxs f]

theorem dumpEntries_free (c : Nat) (S S' : Schema) (ha : AgreeOff c S S') : ∀ (vs : List Val), clsFreeL c vs = true →
    ∀ (f : FieldD) (ks : List Val), dumpEntries S' f ks vs = dumpEntries S f ks vs
  | [], _, f, ks => by
    rw [dumpEntries_short S' f ks [] (Or.inr rfl), dumpEntries_short S f ks [] (Or.inr rfl)]
  | v :: vs, _, f, [] => by
    rw [dumpEntries_short S' f [] _ (Or.inl rfl), dumpEntries_short S f [] _ (Or.inl rfl)]
  | .msg c' sl ow unk cur :: vs, h, f, k :: ks => by
    obtain ⟨hx, hvs⟩ := clsFreeL_cons c _ vs h
    obtain ⟨hc, hsl⟩ := clsFree_msg c c' sl ow unk cur hx
    rw [dumpEntries_cons, dumpEntries_cons, serializeScalar_indep S S', dumpEntryVal, dumpEntryVal,
      fieldsOf_agree c S S' ha c' hc, dumpSlots_free c S S' ha sl hsl, dumpEntries_free c S S' ha vs hvs f ks]
  | .ph :: vs, h, f, k :: ks | .none :: vs, h, f, k :: ks | .int _ :: vs, h, f, k :: ks
  | .bool _ :: vs, h, f, k :: ks | .f32 _ :: vs, h, f, k :: ks | .f64 _ :: vs, h, f, k :: ks
  | .str _ :: vs, h, f, k :: ks | .byt _ :: vs, h, f, k :: ks | .ts _ :: vs, h, f, k :: ks
  | .dur _ :: vs, h, f, k :: ks | .list _ :: vs, h, f, k :: ks | .dict _ _ :: vs, h, f, k :: ks => by
    obtain ⟨_, hvs⟩ := clsFreeL_cons c _ vs h
    rw [dumpEntries_cons, dumpEntries_cons, dumpEntryVal_nonmsg S' f _ rfl, dumpEntryVal_nonmsg S f _ rfl,
      serializeScalar_indep S S', dumpEntries_free c S S' ha vs hvs f ks]
end

/-! ### (2) well-typed values in `FieldFree` fields: well-typed under `S'`, and `clsFree` -/

theorem clsFreeL_of_all (c : Nat) : ∀ (xs : List Val), (∀ x ∈ xs, clsFree c x = true) → clsFreeL c xs = true
  | [], _ => by rw [clsFreeL]
  | x :: xs, h => by
    rw [clsFreeL, h x (by simp), clsFreeL_of_all c xs (fun y hy => h y (by simp [hy]))]
    rfl

theorem scalarOk_clsFree (c : Nat) (t : PType) (v : Val) (h : scalarOk t v = true) : clsFree c v = true := by
  cases v <;> first | rfl | (simp [scalarOk] at h)

theorem timeValOk_clsFree (c : Nat) (b : Bool) (v : Val) (h : timeValOk b v = true) : clsFree c v = true := by
  cases v <;> first | rfl | (simp [timeValOk] at h)

/-- the step at a message value: given the transfer for its slot list -/
theorem msgOk_step (c : Nat) (S S' : Schema) (ha : AgreeOff c S S') (hs : SchemaFree c S)
    (c' : Nat) (sl : List Val) (ow : Bool) (unk : Bytes) (cur : List (Option Nat)) (hc : c' ≠ c)
    (h : MsgOk S (.msg c' sl ow unk cur))
    (ih : ∀ fs, SlotsOk S fs sl → (∀ f ∈ fs, FieldFree c f) → SlotsOk S' fs sl ∧ clsFreeL c sl = true) :
    MsgOk S' (.msg c' sl ow unk cur) ∧ clsFree c (.msg c' sl ow unk cur) = true := by
  cases h with
  | mk _ d _ _ _ _ hd h1 h2 h3 h4 h5 h6 h7 hsl hunk =>
    have hd' : S'[c']? = some d := by rw [ha c' hc]; exact hd
    have hff : ∀ f ∈ d.fields, FieldFree c f := hs d (List.mem_of_getElem? hd)
    obtain ⟨a, b⟩ := ih d.fields hsl hff
    refine ⟨MsgOk.mk c' d sl ow unk cur hd' h1 h2 h3 h4 h5 h6 h7 a hunk, ?_⟩
    rw [clsFree, b]
    simpa using hc

theorem subField_ne (c : Nat) (f : FieldD) (c' : Nat) (hf : FieldFree c f) (h : SubField f c') : c' ≠ c := by
  intro e
  subst e
  exact hf.1 h.ty h.kind

theorem mapFieldM_ne (c : Nat) (f : FieldD) (c' : Nat) (hf : FieldFree c f) (h : MapFieldM f c') : c' ≠ c := by
  intro e
  subst e
  exact hf.2 h.ty h.vk

mutual
theorem slotsOk_tr (c : Nat) (S S' : Schema) (ha : AgreeOff c S S') (hs : SchemaFree c S) :
    ∀ (vs : List Val) (fs : List FieldD), SlotsOk S fs vs → (∀ f ∈ fs, FieldFree c f) →
      SlotsOk S' fs vs ∧ clsFreeL c vs = true
  | [], _, h, _ => by cases h; exact ⟨SlotsOk.nil, by rw [clsFreeL]⟩
  | _ :: _, [], h, _ => by cases h
  | v :: vs, f :: fs, h, hf => by
    cases h with
    | cons _ _ _ _ h1 h2 =>
      obtain ⟨a1, b1⟩ := slotOk_tr c S S' ha hs f v h1 (hf f (by simp))
      obtain ⟨a2, b2⟩ := slotsOk_tr c S S' ha hs vs fs h2 (fun g hg => hf g (by simp [hg]))
      refine ⟨SlotsOk.cons f v fs vs a1 a2, ?_⟩
      rw [clsFreeL, b1, b2]; rfl

theorem slotOk_tr (c : Nat) (S S' : Schema) (ha : AgreeOff c S S') (hs : SchemaFree c S) (f : FieldD) :
    ∀ (v : Val), SlotOk S f v → FieldFree c f → SlotOk S' f v ∧ clsFree c v = true
  | .ph, h, _ => by
    refine ⟨?_, rfl⟩
    cases h with
    | flat _ _ a b => exact .flat _ _ a b
    | unsetAny _ a => exact .unsetAny _ a
    | unsetSub _ c' a b => exact .unsetSub _ c' a b
    | unsetTime _ d a b => exact .unsetTime _ d a b
    | unsetWrap _ w a b => exact .unsetWrap _ w a b
    | wrap _ w _ a b => exact .wrap _ w _ a b
    | unsetMapS _ a => exact .unsetMapS _ a
    | unsetMapM _ c' a => exact .unsetMapM _ c' a
  | .none, h, _ => by
    refine ⟨?_, rfl⟩
    cases h with
    | flat _ _ a b => exact .flat _ _ a b
    | noneAny _ a => exact .noneAny _ a
    | noneSub _ c' a b => exact .noneSub _ c' a b
    | noneTime _ d a b => exact .noneTime _ d a b
    | noneWrap _ w a b => exact .noneWrap _ w a b
    | wrap _ w _ a b => exact .wrap _ w _ a b
  | .msg c' sl ow unk cur, h, hf => by
    cases h with
    | flat _ _ a b => simp [flatSlotOk, scalarOk] at b
    | wrap _ w _ a b => simp [scalarOk] at b
    | sub _ _ _ _ _ _ a b hm =>
      obtain ⟨m1, m2⟩ := msgOk_step c S S' ha hs c' sl ow unk cur (subField_ne c f c' hf a) hm
        (slotsOk_tr c S S' ha hs sl)
      exact ⟨.sub _ _ _ _ _ _ a b m1, m2⟩
  | .list xs, h, hf => by
    cases h with
    | flat _ _ a b =>
      refine ⟨.flat _ _ a b, ?_⟩
      simp only [flatSlotOk, Bool.and_eq_true, List.all_eq_true] at b
      rw [clsFree]
      exact clsFreeL_of_all c xs (fun x hx => scalarOk_clsFree c _ x (b.2 x hx))
    | wrap _ w _ a b => simp [scalarOk] at b
    | subs _ c' _ a b hm =>
      obtain ⟨m1, m2⟩ := msgsOk_tr c S S' ha hs c' xs hm (subField_ne c f c' hf a)
      refine ⟨.subs _ c' _ a b m1, ?_⟩
      rw [clsFree]; exact m2
    | tss _ _ a b =>
      refine ⟨.tss _ _ a b, ?_⟩
      rw [clsFree]
      exact clsFreeL_of_all c xs (fun x hx => timeValOk_clsFree c _ x (b x hx))
    | durs _ _ a b =>
      refine ⟨.durs _ _ a b, ?_⟩
      rw [clsFree]
      exact clsFreeL_of_all c xs (fun x hx => timeValOk_clsFree c _ x (b x hx))
    | wraps _ w _ a b =>
      refine ⟨.wraps _ w _ a b, ?_⟩
      rw [clsFree]
      exact clsFreeL_of_all c xs (fun x hx => scalarOk_clsFree c _ x (b x hx))
  | .dict ks vs, h, hf => by
    cases h with
    | flat _ _ a b => simp [flatSlotOk, scalarOk] at b
    | wrap _ w _ a b => simp [scalarOk] at b
    | mapS _ _ _ a hl hk hv hkd =>
      refine ⟨.mapS _ _ _ a hl hk hv hkd, ?_⟩
      rw [clsFree]
      exact clsFreeL_of_all c vs (fun x hx => scalarOk_clsFree c _ x (hv x hx))
    | mapM _ c' _ _ a hl hk hm hkd =>
      obtain ⟨m1, m2⟩ := msgsOk_tr c S S' ha hs c' vs hm (mapFieldM_ne c f c' hf a)
      refine ⟨.mapM _ c' _ _ a hl hk m1 hkd, ?_⟩
      rw [clsFree]; exact m2
    | mapT _ d _ _ a hl hk hv hkd =>
      refine ⟨.mapT _ d _ _ a hl hk hv hkd, ?_⟩
      rw [clsFree]
      exact clsFreeL_of_all c vs (fun x hx => timeValOk_clsFree c _ x (hv x hx))
  | .ts us, h, _ => by
    refine ⟨?_, rfl⟩
    cases h with
    | flat _ _ a b => exact .flat _ _ a b
    | wrap _ w _ a b => exact .wrap _ w _ a b
    | ts _ _ a b => exact .ts _ _ a b
  | .dur us, h, _ => by
    refine ⟨?_, rfl⟩
    cases h with
    | flat _ _ a b => exact .flat _ _ a b
    | wrap _ w _ a b => exact .wrap _ w _ a b
    | dur _ _ a b => exact .dur _ _ a b
  | .int _, h, _ => by
    refine ⟨?_, rfl⟩
    cases h with
    | flat _ _ a b => exact .flat _ _ a b
    | wrap _ w _ a b => exact .wrap _ w _ a b
  | .bool _, h, _ => by
    refine ⟨?_, rfl⟩
    cases h with
    | flat _ _ a b => exact .flat _ _ a b
    | wrap _ w _ a b => exact .wrap _ w _ a b
  | .f32 _, h, _ => by
    refine ⟨?_, rfl⟩
    cases h with
    | flat _ _ a b => exact .flat _ _ a b
    | wrap _ w _ a b => exact .wrap _ w _ a b
  | .f64 _, h, _ => by
    refine ⟨?_, rfl⟩
    cases h with
    | flat _ _ a b => exact .flat _ _ a b
    | wrap _ w _ a b => exact .wrap _ w _ a b
  | .str _, h, _ => by
    refine ⟨?_, rfl⟩
    cases h with
    | flat _ _ a b => exact .flat _ _ a b
    | wrap _ w _ a b => exact .wrap _ w _ a b
  | .byt _, h, _ => by
    refine ⟨?_, rfl⟩
    cases h with
    | flat _ _ a b => exact .flat _ _ a b
    | wrap _ w _ a b => exact .wrap _ w _ a b

theorem msgsOk_tr (c : Nat) (S S' : Schema) (ha : AgreeOff c S S') (hs : SchemaFree c S) (c' : Nat) :
    ∀ (xs : List Val), MsgsOk S c' xs → c' ≠ c → MsgsOk S' c' xs ∧ clsFreeL c xs = true
  | [], _, _ => ⟨MsgsOk.nil c', by rw [clsFreeL]⟩
  | .msg c'' sl ow unk cur :: xs, h, hc => by
    cases h with
    | cons _ _ _ _ _ _ hm hms =>
      obtain ⟨m1, m2⟩ := msgOk_step c S S' ha hs c' sl ow unk cur hc hm (slotsOk_tr c S S' ha hs sl)
      obtain ⟨r1, r2⟩ := msgsOk_tr c S S' ha hs c' xs hms hc
      refine ⟨MsgsOk.cons c' sl ow unk cur xs m1 r1, ?_⟩
      rw [clsFreeL, m2, r2]; rfl
  | .ph :: _, h, _ | .none :: _, h, _ | .int _ :: _, h, _ | .bool _ :: _, h, _
  | .f32 _ :: _, h, _ | .f64 _ :: _, h, _ | .str _ :: _, h, _ | .byt _ :: _, h, _
  | .ts _ :: _, h, _ | .dur _ :: _, h, _ | .list _ :: _, h, _ | .dict _ _ :: _, h, _ => by
    cases h
end

/-! ### the interface -/

/-- a well-typed slot value of a field that does not refer to `c`: well-typed under `S'`, same bytes -/
theorem slotOk_transfer (c : Nat) (S S' : Schema) (ha : AgreeOff c S S') (hs : SchemaFree c S)
    (f : FieldD) (v : Val) (hf : FieldFree c f) (h : SlotOk S f v) :
    SlotOk S' f v ∧ ∀ hid sel, dumpSlot S' f hid sel v = dumpSlot S f hid sel v := by
  obtain ⟨a, b⟩ := slotOk_tr c S S' ha hs f v h hf
  exact ⟨a, fun hid sel => dumpSlot_free c S S' ha v b f hid sel⟩

theorem slotsOk_transfer (c : Nat) (S S' : Schema) (ha : AgreeOff c S S') (hs : SchemaFree c S)
    (fs : List FieldD) (vs : List Val) (hf : ∀ f ∈ fs, FieldFree c f) (h : SlotsOk S fs vs) :
    SlotsOk S' fs vs :=
  (slotsOk_tr c S S' ha hs vs fs h hf).1

/-- slot-list companion: the loop of `Message.dump` writes the same bytes -/
theorem slotsOk_transfer_dump (c : Nat) (S S' : Schema) (ha : AgreeOff c S S') (hs : SchemaFree c S)
    (fs : List FieldD) (vs : List Val) (hf : ∀ f ∈ fs, FieldFree c f) (h : SlotsOk S fs vs)
    (F : List FieldD) (cur : List (Option Nat)) (idx : Nat) :
    dumpSlots S' F cur idx vs = dumpSlots S F cur idx vs :=
  dumpSlots_free c S S' ha vs (slotsOk_tr c S S' ha hs vs fs h hf).2 F cur idx

/-- slot-level companion: the comparison with the default is the same under both schemas -/
theorem slotOk_transfer_eqDefault (c : Nat) (S S' : Schema) (ha : AgreeOff c S S') (hs : SchemaFree c S)
    (f : FieldD) (v : Val) (hf : FieldFree c f) (h : SlotOk S f v) (k : DefKind) :
    eqDefault S' k v = eqDefault S k v :=
  eqDefault_free c S S' ha v (slotOk_tr c S S' ha hs f v h hf).2 k

/-- **a well-typed message of a class other than `c` is well-typed under `S'` and encodes to the same bytes** -/
theorem msgOk_transfer (c : Nat) (S S' : Schema) (ha : AgreeOff c S S') (hs : SchemaFree c S)
    (c' : Nat) (sl : List Val) (ow : Bool) (unk : Bytes) (cur : List (Option Nat)) (hc : c' ≠ c)
    (h : MsgOk S (.msg c' sl ow unk cur)) :
    MsgOk S' (.msg c' sl ow unk cur) ∧ dumpVal S' (.msg c' sl ow unk cur) = dumpVal S (.msg c' sl ow unk cur) := by
  obtain ⟨a, b⟩ := msgOk_step c S S' ha hs c' sl ow unk cur hc h (slotsOk_tr c S S' ha hs sl)
  exact ⟨a, dumpVal_free c S S' ha _ b⟩

end Bp

#print axioms Bp.slotOk_transfer
#print axioms Bp.slotsOk_transfer
#print axioms Bp.msgOk_transfer
#print axioms Bp.schemaFreeB_sound
#print axioms Bp.slotsOk_transfer_dump
#print axioms Bp.slotOk_transfer_eqDefault
