import BpModel.All
/-
  C08, schema evolution: list bookkeeping.  An older class keeps a sub-list of the fields
  of the newer class, described by a Boolean mask over the newer field list.  `keep mask xs`
  is the kept sub-list, `rank mask k` the position of (kept) element `k` inside it.
-/
namespace Bp

/-- the sub-list selected by a Boolean mask (positions beyond the shorter list are dropped) -/
def keep {α : Type} : List Bool → List α → List α
  | b :: bs, x :: xs => if b then x :: keep bs xs else keep bs xs
  | _, _ => []

@[simp] theorem keep_nil_left {α : Type} (xs : List α) : keep [] xs = [] := by cases xs <;> rfl
@[simp] theorem keep_nil_right {α : Type} (m : List Bool) : keep m ([] : List α) = [] := by cases m <;> rfl
@[simp] theorem keep_cons_true {α : Type} (m : List Bool) (x : α) (xs : List α) :
    keep (true :: m) (x :: xs) = x :: keep m xs := rfl
@[simp] theorem keep_cons_false {α : Type} (m : List Bool) (x : α) (xs : List α) :
    keep (false :: m) (x :: xs) = keep m xs := rfl

/-- number of kept positions strictly before `k` -/
def rank : List Bool → Nat → Nat
  | [], _ => 0
  | _ :: _, 0 => 0
  | b :: m, k + 1 => (if b then 1 else 0) + rank m k

@[simp] theorem rank_zero (m : List Bool) : rank m 0 = 0 := by cases m <;> rfl
@[simp] theorem rank_nil (k : Nat) : rank [] k = 0 := rfl
@[simp] theorem rank_cons_succ (b : Bool) (m : List Bool) (k : Nat) :
    rank (b :: m) (k + 1) = (if b then 1 else 0) + rank m k := rfl

theorem mem_keep {α : Type} (m : List Bool) (xs : List α) (x : α) (h : x ∈ keep m xs) : x ∈ xs := by
  induction m generalizing xs with
  | nil => simp at h
  | cons b m ih =>
    cases xs with
    | nil => simp at h
    | cons y ys =>
      cases b with
      | true =>
        simp only [keep_cons_true, List.mem_cons] at h ⊢
        rcases h with h | h
        · exact Or.inl h
        · exact Or.inr (ih ys h)
      | false =>
        simp only [keep_cons_false] at h
        exact List.mem_cons_of_mem _ (ih ys h)

theorem keep_map {α β : Type} (g : α → β) (m : List Bool) (xs : List α) :
    keep m (xs.map g) = (keep m xs).map g := by
  induction m generalizing xs with
  | nil => simp
  | cons b m ih =>
    cases xs with
    | nil => simp
    | cons y ys => cases b <;> simp [ih]

/-- a kept element is found at its rank -/
theorem getElem?_keep_rank {α : Type} (m : List Bool) (xs : List α) (k : Nat) (hk : m[k]? = some true) :
    (keep m xs)[rank m k]? = xs[k]? := by
  induction m generalizing xs k with
  | nil => simp at hk
  | cons b m ih =>
    cases xs with
    | nil => simp
    | cons y ys =>
      cases k with
      | zero =>
        simp at hk; subst hk
        simp
      | succ k =>
        simp only [List.getElem?_cons_succ] at hk ⊢
        cases b with
        | true =>
          simp only [keep_cons_true, rank_cons_succ, if_true]
          rw [Nat.add_comm, List.getElem?_cons_succ]
          exact ih ys k hk
        | false =>
          simp only [keep_cons_false, rank_cons_succ, Bool.false_eq_true, if_false, Nat.zero_add]
          exact ih ys k hk

/-- every element of the kept sub-list comes from a kept position -/
theorem keep_getElem?_exists {α : Type} (m : List Bool) (xs : List α) (j : Nat) (x : α)
    (h : (keep m xs)[j]? = some x) : ∃ k, m[k]? = some true ∧ rank m k = j ∧ xs[k]? = some x := by
  induction m generalizing xs j with
  | nil => simp at h
  | cons b m ih =>
    cases xs with
    | nil => simp at h
    | cons y ys =>
      cases b with
      | true =>
        simp only [keep_cons_true] at h
        cases j with
        | zero =>
          simp at h; subst h
          exact ⟨0, by simp, by simp, by simp⟩
        | succ j =>
          simp only [List.getElem?_cons_succ] at h
          obtain ⟨k, h1, h2, h3⟩ := ih ys j h
          exact ⟨k + 1, by simpa using h1, by simp [h2, Nat.add_comm], by simpa using h3⟩
      | false =>
        simp only [keep_cons_false] at h
        obtain ⟨k, h1, h2, h3⟩ := ih ys j h
        exact ⟨k + 1, by simpa using h1, by simp [h2], by simpa using h3⟩

theorem rank_mono (m : List Bool) (k k' : Nat) (h : k ≤ k') : rank m k ≤ rank m k' := by
  induction m generalizing k k' with
  | nil => simp
  | cons b m ih =>
    cases k with
    | zero => simp
    | succ k =>
      cases k' with
      | zero => omega
      | succ k' =>
        simp only [rank_cons_succ]
        have := ih k k' (by omega)
        omega

theorem rank_lt (m : List Bool) (k k' : Nat) (h : k < k') (hk : m[k]? = some true) : rank m k < rank m k' := by
  induction m generalizing k k' with
  | nil => simp at hk
  | cons b m ih =>
    cases k' with
    | zero => omega
    | succ k' =>
      cases k with
      | zero =>
        simp at hk; subst hk
        simp only [rank_zero, rank_cons_succ, if_true]
        omega
      | succ k =>
        simp only [List.getElem?_cons_succ] at hk
        simp only [rank_cons_succ]
        have := ih k k' (by omega) hk
        omega

/-- on kept positions the rank is injective -/
theorem rank_inj (m : List Bool) (k k' : Nat) (hk : m[k]? = some true) (hk' : m[k']? = some true)
    (h : rank m k = rank m k') : k = k' := by
  rcases Nat.lt_trichotomy k k' with hlt | heq | hgt
  · have := rank_lt m k k' hlt hk; omega
  · exact heq
  · have := rank_lt m k' k hgt hk'; omega

theorem getD_keep_rank {α : Type} (m : List Bool) (xs : List α) (k : Nat) (dflt : α) (hk : m[k]? = some true) :
    (keep m xs).getD (rank m k) dflt = xs.getD k dflt := by
  rw [List.getD_eq_getElem?_getD, List.getD_eq_getElem?_getD, getElem?_keep_rank m xs k hk]

/-! ### blocks: a list of lists, some blocks kept, the others dropped -/

/-- the complement of a mask -/
def nmask (m : List Bool) : List Bool := m.map (!·)

theorem nmask_getElem? (m : List Bool) (k : Nat) (b : Bool) (h : m[k]? = some b) : (nmask m)[k]? = some (!b) := by
  simp [nmask, List.getElem?_map, h]

/-- if every block is homogeneous for the predicate `p` — all elements of a kept block satisfy
    it, no element of a dropped block does — filtering the concatenation selects the kept
    blocks, and filtering with the negation selects the dropped ones -/
theorem filter_flatten_keep {α : Type} (p : α → Bool) (m : List Bool) (L : List (List α))
    (hl : m.length = L.length)
    (h : ∀ (k : Nat) (b : Bool) (xs : List α), m[k]? = some b → L[k]? = some xs → ∀ x ∈ xs, p x = b) :
    L.flatten.filter p = (keep m L).flatten ∧ L.flatten.filter (fun x => !p x) = (keep (nmask m) L).flatten := by
  induction L generalizing m with
  | nil => simp
  | cons xs L ih =>
    cases m with
    | nil => simp at hl
    | cons b m =>
      obtain ⟨i1, i2⟩ := ih m (by simpa using hl) (fun k b' ys hb hy => h (k + 1) b' ys (by simpa using hb) (by simpa using hy))
      have h0 := h 0 b xs (by simp) (by simp)
      simp only [List.flatten_cons, List.filter_append, i1, i2]
      cases b with
      | true =>
        have e1 : xs.filter p = xs := List.filter_eq_self.mpr (fun x hx => h0 x hx)
        have e2 : xs.filter (fun x => !p x) = [] := List.filter_eq_nil_iff.mpr (fun x hx => by simp [h0 x hx])
        simp [nmask, e1, e2]
      | false =>
        have e1 : xs.filter p = [] := List.filter_eq_nil_iff.mpr (fun x hx => by simp [h0 x hx])
        have e2 : xs.filter (fun x => !p x) = xs := List.filter_eq_self.mpr (fun x hx => by simp [h0 x hx])
        simp [nmask, e1, e2]

/-- moving the dropped blocks behind the kept ones does not change the sub-sequence of the
    elements satisfying `q`, provided the `q`-elements are concentrated in one block (of any
    two blocks, one has none) -/
theorem filter_flatten_reorder {α : Type} (q : α → Bool) (m : List Bool) (L : List (List α))
    (hl : m.length = L.length)
    (hpw : L.Pairwise fun a b => (∀ x ∈ a, q x = false) ∨ (∀ x ∈ b, q x = false)) :
    L.flatten.filter q = ((keep m L).flatten ++ (keep (nmask m) L).flatten).filter q := by
  induction L generalizing m with
  | nil => simp
  | cons xs L ih =>
    cases m with
    | nil => simp at hl
    | cons b m =>
      rw [List.pairwise_cons] at hpw
      obtain ⟨hhead, htail⟩ := hpw
      have i := ih m (by simpa using hl) htail
      simp only [List.filter_append] at i
      cases b with
      | true =>
        simp only [nmask, List.map_cons, Bool.not_true, keep_cons_true, keep_cons_false, List.flatten_cons,
          List.filter_append, List.append_assoc]
        rw [i]; rfl
      | false =>
        simp only [nmask, List.map_cons, Bool.not_false, keep_cons_true, keep_cons_false, List.flatten_cons,
          List.filter_append]
        rw [i]
        by_cases hx : ∀ x ∈ xs, q x = false
        · have e : xs.filter q = [] := List.filter_eq_nil_iff.mpr (fun x h => by simp [hx x h])
          simp [e, nmask]
        · have hk : (keep m L).flatten.filter q = [] := by
            apply List.filter_eq_nil_iff.mpr
            intro x hxm
            obtain ⟨ys, hys, hxy⟩ := List.mem_flatten.mp hxm
            have hysL : ys ∈ L := mem_keep m L ys hys
            rcases hhead ys hysL with h1 | h1
            · exact absurd h1 hx
            · simp [h1 x hxy]
          simp [hk, nmask]

theorem flatten_keep_length {α : Type} (m : List Bool) (L : List (List α)) (hl : m.length = L.length) :
    ((keep m L).flatten ++ (keep (nmask m) L).flatten).length = L.flatten.length := by
  induction L generalizing m with
  | nil => simp
  | cons xs L ih =>
    cases m with
    | nil => simp at hl
    | cons b m =>
      have i := ih m (by simpa using hl)
      simp only [List.length_append] at i
      cases b <;> simp [nmask] <;> simp [nmask] at i <;> omega

/-- the kept blocks followed by the dropped blocks are a permutation of all blocks -/
theorem flatten_keep_perm {α : Type} (m : List Bool) (L : List (List α)) (hl : m.length = L.length) :
    L.flatten.Perm ((keep m L).flatten ++ (keep (nmask m) L).flatten) := by
  induction L generalizing m with
  | nil => simp
  | cons xs L ih =>
    cases m with
    | nil => simp at hl
    | cons b m =>
      have i := ih m (by simpa using hl)
      cases b with
      | true =>
        simp only [nmask, List.map_cons, Bool.not_true, keep_cons_true, keep_cons_false, List.flatten_cons,
          List.append_assoc]
        exact List.Perm.append_left xs i
      | false =>
        simp only [nmask, List.map_cons, Bool.not_false, keep_cons_true, keep_cons_false, List.flatten_cons]
        refine (List.Perm.append_left xs i).trans ?_
        rw [← List.append_assoc, ← List.append_assoc]
        exact List.Perm.append_right _ List.perm_append_comm

end Bp
