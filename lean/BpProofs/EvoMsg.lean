import BpModel.All
import BpProofs.EvoKeep
import BpProofs.EvoProj
import BpProofs.EvoAgree
import BpProofs.SpecPerm3
import BpProofs.Props.C01
/-
  C08, schema evolution: the projection of a well-typed message of the newer class onto the
  older class is a well-typed message of the older schema, and encodes to the bytes of the
  kept slots; the records of one slot all carry the number of that slot's field.
-/
namespace Bp
open Gen

/-- **the setting**: schemas `Sn` (newer) and `So` (older) agree on every class except `c`; the
    older class `dold` keeps the sub-list `keep mask dn.fields` of the fields of the newer class
    `dn` (same `FieldD` records, same relative order) and declares the same number of oneof
    groups; no field of any class refers to class `c` as sub-message / map-value class -/
structure Evo (Sn So : Schema) (c : Nat) (dn dold : MsgD) (mask : List Bool) : Prop where
  hn : Sn[c]? = some dn
  ho : So[c]? = some dold
  agree : AgreeOff c Sn So
  free : SchemaFree c Sn
  mlen : mask.length = dn.fields.length
  fields : dold.fields = keep mask dn.fields
  groups : dold.nGroups = dn.nGroups

theorem Evo.fieldFree {Sn So : Schema} {c : Nat} {dn dold : MsgD} {mask : List Bool} (E : Evo Sn So c dn dold mask)
    (f : FieldD) (hf : f ∈ dn.fields) : FieldFree c f :=
  E.free dn (List.mem_of_getElem? E.hn) f hf

/-! ### list facts about the kept fields -/

theorem keep_length_eq {α β : Type} (m : List Bool) (xs : List α) (ys : List β) (h : xs.length = ys.length) :
    (keep m xs).length = (keep m ys).length := by
  induction m generalizing xs ys with
  | nil => simp
  | cons b m ih =>
    cases xs with
    | nil => cases ys with
      | nil => simp
      | cons _ _ => simp at h
    | cons x xs =>
      cases ys with
      | nil => simp at h
      | cons y ys => cases b <;> simp [ih xs ys (by simpa using h)]

theorem numsDistinct_keep (m : List Bool) (fs : List FieldD) (h : NumsDistinct fs) : NumsDistinct (keep m fs) := by
  intro i j fi fj hi hj hn
  obtain ⟨k, hk, hrk, hfk⟩ := keep_getElem?_exists m fs i fi hi
  obtain ⟨k', hk', hrk', hfk'⟩ := keep_getElem?_exists m fs j fj hj
  have := h k k' fi fj hfk hfk' hn
  subst this
  rw [← hrk, ← hrk']

theorem slotsOk_keep (S : Schema) : ∀ (m : List Bool) (fs : List FieldD) (vs : List Val), SlotsOk S fs vs →
    SlotsOk S (keep m fs) (keep m vs)
  | [], _, _, _ => by simp; exact SlotsOk.nil
  | b :: m, _, _, h => by
    cases h with
    | nil => simp; exact SlotsOk.nil
    | cons f v fs vs h1 h2 =>
      cases b with
      | true => exact SlotsOk.cons f v _ _ h1 (slotsOk_keep S m fs vs h2)
      | false => exact slotsOk_keep S m fs vs h2

/-- a record the newer class does not know is not known to the older class either -/
theorem isUnknown_older (dn dold : MsgD) (mask : List Bool) (hf : dold.fields = keep mask dn.fields)
    (hd : NumsDistinct dn.fields) (pf : PField) (h : isUnknownField dn pf = true) : isUnknownField dold pf = true := by
  unfold isUnknownField
  cases hj : findField dold.fields pf.num with
  | none => rfl
  | some j =>
    obtain ⟨f, hfj, hnum⟩ := findField_sound dold.fields pf.num j hj
    simp only [hfj]
    rw [hf] at hfj
    obtain ⟨k, _, _, hfk⟩ := keep_getElem?_exists mask dn.fields j f hfj
    have hfind := findField_distinct dn.fields k f hd hfk
    unfold isUnknownField at h
    rw [← hnum, hfind] at h
    simpa [hfk] using h

/-- a record carrying the number of a dropped field is unknown to the older class -/
theorem dropped_unknown (dn dold : MsgD) (mask : List Bool) (hf : dold.fields = keep mask dn.fields)
    (hd : NumsDistinct dn.fields) (k : Nat) (f : FieldD) (hk : dn.fields[k]? = some f) (hm : mask[k]? = some false)
    (pf : PField) (hnum : pf.num = f.num) : isUnknownField dold pf = true := by
  unfold isUnknownField
  cases hj : findField dold.fields pf.num with
  | none => rfl
  | some j =>
    exfalso
    obtain ⟨f', hfj, hnum'⟩ := findField_sound dold.fields pf.num j hj
    rw [hf] at hfj
    obtain ⟨k', hk', _, hfk'⟩ := keep_getElem?_exists mask dn.fields j f' hfj
    have := hd k' k f' f hfk' hk (by rw [hnum', hnum])
    subst this
    rw [hm] at hk'; simp at hk'

/-- a record of a kept field with a fitting wire type targets that field in the older class -/
theorem kept_targets (dn dold : MsgD) (mask : List Bool) (hf : dold.fields = keep mask dn.fields)
    (hd : NumsDistinct dn.fields) (k : Nat) (f : FieldD) (hk : dn.fields[k]? = some f) (hm : mask[k]? = some true)
    (pf : PField) (hnum : pf.num = f.num) (hfit : wireFits f pf.wt = true) : Targets dold pf (rank mask k) f := by
  have hfk : dold.fields[rank mask k]? = some f := by rw [hf, getElem?_keep_rank mask dn.fields k hm]; exact hk
  refine ⟨?_, hfk, hfit⟩
  rw [hnum]
  exact findField_distinct dold.fields _ f (by rw [hf]; exact numsDistinct_keep mask dn.fields hd) hfk

theorem newer_targets (dn : MsgD) (hd : NumsDistinct dn.fields) (k : Nat) (f : FieldD) (hk : dn.fields[k]? = some f)
    (pf : PField) (hnum : pf.num = f.num) (hfit : wireFits f pf.wt = true) : Targets dn pf k f :=
  ⟨by rw [hnum]; exact findField_distinct dn.fields k f hd hk, hk, hfit⟩

/-! ### the projected message -/

section proj
variable {Sn So : Schema} {c : Nat} {dn dold : MsgD} {mask : List Bool}

/-- **the projection is well-typed in the older schema**: the kept slots, the renumbered oneof
    selection, and any unknown bytes `X` the older class does not know -/
theorem msgOk_proj (E : Evo Sn So c dn dold mask) (sl : List Val) (ow : Bool) (unk : Bytes) (cur : List (Option Nat))
    (X : Bytes) (hm : MsgOk Sn (.msg c sl ow unk cur)) (hX : UnkOk dold X) :
    MsgOk So (.msg c (keep mask sl) ow X (projCur mask cur)) := by
  cases hm with
  | mk _ d' _ _ _ _ hd' hdist hwfg hgrpopt hcurlen hcurok hinv hselset hslots hunk =>
  rw [E.hn] at hd'; injection hd' with hd'; subst hd'
  refine MsgOk.mk c dold _ ow X _ E.ho ?_ ?_ ?_ ?_ ?_ ?_ ?_ ?_ hX
  · rw [E.fields]; exact numsDistinct_keep mask _ hdist
  · intro f hf g hg
    rw [E.groups]
    exact hwfg f (mem_keep mask _ f (E.fields ▸ hf)) g hg
  · intro f hf hg
    exact hgrpopt f (mem_keep mask _ f (E.fields ▸ hf)) hg
  · rw [projCur_length, hcurlen, E.groups]
  · intro g i hgi
    rw [projCur_getD] at hgi
    cases hc : cur.getD g Option.none with
    | none => rw [hc] at hgi; simp [projSel] at hgi
    | some i0 =>
      rw [hc] at hgi
      unfold projSel at hgi
      by_cases hmi : mask.getD i0 false = true
      · simp only [hmi, if_true, Option.some.injEq] at hgi
        obtain ⟨f, hf, hg⟩ := hcurok g i0 hc
        refine ⟨f, ?_, hg⟩
        rw [E.fields, ← hgi, getElem?_keep_rank mask _ i0 (getElem?_of_getD mask i0 hmi)]
        exact hf
      · simp only [] at hgi; rw [if_neg hmi] at hgi; cases hgi
  · intro i f g hf hg hne
    rw [E.fields] at hf
    obtain ⟨k, hk, hrk, hfk⟩ := keep_getElem?_exists mask _ i f hf
    subst hrk
    rw [getD_keep_rank mask sl k .ph hk]
    apply hinv k f g hfk hg
    intro hc
    apply hne
    rw [projCur_getD]
    exact (projSel_kept mask _ k hk).mpr hc
  · intro g i hgi
    rw [projCur_getD] at hgi
    cases hc : cur.getD g Option.none with
    | none => rw [hc] at hgi; simp [projSel] at hgi
    | some i0 =>
      rw [hc] at hgi
      unfold projSel at hgi
      by_cases hmi : mask.getD i0 false = true
      · simp only [hmi, if_true, Option.some.injEq] at hgi
        rw [← hgi, getD_keep_rank mask sl i0 .ph (getElem?_of_getD mask i0 hmi)]
        exact hselset g i0 hc
      · simp only [] at hgi; rw [if_neg hmi] at hgi; cases hgi
  · rw [E.fields]
    exact slotsOk_transfer c Sn So E.agree E.free _ _
      (fun f hf => E.fieldFree f (mem_keep mask _ f hf)) (slotsOk_keep Sn mask _ _ hslots)

/-- **the projection encodes to the bytes of the kept slots** (`bsl`: the encodings of the
    slots of the original message under the newer schema, in field order) -/
theorem dumpSlots_proj (E : Evo Sn So c dn dold mask) (sl : List Val) (cur : List (Option Nat))
    (hslots : SlotsOk Sn dn.fields sl) (bsl : List Bytes) (hl : bsl.length = sl.length)
    (hb : ∀ (k : Nat) (f : FieldD), dn.fields[k]? = some f → k < sl.length →
      dumpSlot Sn f (hidden f k cur) (selectedInGroup f k cur) (sl.getD k .ph) = .ok (bsl.getD k [])) :
    dumpSlots So dold.fields (projCur mask cur) 0 (keep mask sl) = .ok (keep mask bsl).flatten := by
  have hlen : sl.length = dn.fields.length := slotsOk_len Sn _ _ hslots
  apply dumpSlots_join So dold.fields _ (keep mask sl) 0 (keep mask bsl) (keep_length_eq mask _ _ hl)
  · rw [E.fields, Nat.zero_add, keep_length_eq mask sl dn.fields hlen]
  · intro j f hf _
    simp only [Nat.zero_add] at hf ⊢
    rw [E.fields] at hf
    obtain ⟨k, hk, hrk, hfk⟩ := keep_getElem?_exists mask _ j f hf
    subst hrk
    have hkl : k < sl.length := by
      rw [hlen]; by_contra hc; rw [List.getElem?_eq_none (by omega)] at hfk; simp at hfk
    have hv : sl[k]? = some (sl.getD k .ph) := by
      rw [List.getD_eq_getElem?_getD, List.getElem?_eq_getElem hkl]; rfl
    have hso : SlotOk Sn f (sl.getD k .ph) := slotsOk_get Sn _ _ hslots k f _ hfk hv
    rw [hidden_proj mask cur f k hk, selected_proj mask cur f k hk, getD_keep_rank mask sl k .ph hk,
      getD_keep_rank mask bsl k [] hk,
      (slotOk_transfer c Sn So E.agree E.free f _ (E.fieldFree f (List.mem_of_getElem? hfk)) hso).2]
    exact hb k f hfk hkl

end proj

/-! ### the mask that keeps one field -/

/-- the mask of length `n` that keeps position `k` only -/
def single : Nat → Nat → List Bool
  | 0, _ => []
  | n + 1, 0 => true :: List.replicate n false
  | n + 1, k + 1 => false :: single n k

theorem single_length (n k : Nat) : (single n k).length = n := by
  induction n generalizing k with
  | zero => rfl
  | succ n ih => cases k <;> simp [single, ih]

theorem keep_replicate_false {α : Type} (n : Nat) (xs : List α) : keep (List.replicate n false) xs = [] := by
  induction n generalizing xs with
  | zero => simp
  | succ n ih => cases xs <;> simp [List.replicate_succ, ih]

theorem keep_single {α : Type} (xs : List α) (k : Nat) (x : α) (h : xs[k]? = some x) :
    keep (single xs.length k) xs = [x] := by
  induction xs generalizing k with
  | nil => simp at h
  | cons y ys ih =>
    cases k with
    | zero =>
      simp at h; subst h
      simp [single, keep_replicate_false]
    | succ k =>
      simp only [List.getElem?_cons_succ] at h
      simp [single, ih k h]

theorem joinRaw_eq_nil (pfs : List PField) (hp : ∀ pf ∈ pfs, Parsed pf) (h : joinRaw pfs = []) : pfs = [] := by
  cases pfs with
  | nil => rfl
  | cons pf pfs =>
    exfalso
    obtain ⟨bs, rest, hlf⟩ := hp pf (by simp)
    have := (loadField_ok _ _ _ hlf).raw_pos
    simp only [joinRaw] at h
    have h2 := congrArg List.length h
    simp only [List.length_append, List.length_nil] at h2
    omega

/-- **the records of one slot**: the bytes a well-typed slot contributes to the encoding of
    its message split into whole records, each carrying the number of the slot's field and a
    wire type that fits it.  (Proof: project the message onto that single field — the
    projection is a well-typed message of a one-field class and encodes to exactly these
    bytes — and apply the round-trip theorem C01 to it: the decoder of the one-field class
    puts no record into the unknown bytes, so it knows every record.) -/
theorem slot_records (Sn : Schema) (c : Nat) (dn : MsgD) (hn : Sn[c]? = some dn) (hfree : SchemaFree c Sn)
    (sl : List Val) (ow : Bool) (unk : Bytes) (cur : List (Option Nat)) (hm : MsgOk Sn (.msg c sl ow unk cur))
    (k : Nat) (f : FieldD) (hk : dn.fields[k]? = some f) (b : Bytes) (hbl : b.length < 2 ^ 64)
    (hb : dumpSlot Sn f (hidden f k cur) (selectedInGroup f k cur) (sl.getD k .ph) = .ok b) :
    ∃ recs, loadFields b = .ok recs ∧ ∀ pf ∈ recs, pf.num = f.num ∧ wireFits f pf.wt = true := by
  have hm0 := hm
  cases hm with
  | mk _ d' _ _ _ _ hd' hdist hwfg hgrpopt hcurlen hcurok hinv hselset hslots hunk =>
  rw [hn] at hd'; injection hd' with hd'; subst hd'
  have hlen : sl.length = dn.fields.length := slotsOk_len Sn _ _ hslots
  have hkl : k < sl.length := by
    rw [hlen]; by_contra hc; rw [List.getElem?_eq_none (by omega)] at hk; simp at hk
  -- the encodings of all slots
  obtain ⟨body, hbody⟩ := slotsOk_dumpSlots Sn dn.fields cur sl hslots
  obtain ⟨bsl, hbl1, _, hbs⟩ := dumpSlots_split Sn dn.fields cur sl 0 body (by simp [hlen]) hbody
  simp only [Nat.zero_add] at hbs
  have hbk : bsl.getD k [] = b := by
    have := hbs k f hk hkl
    rw [hb] at this; injection this with this; exact this.symm
  have hbk' : bsl[k]? = some b := by
    rw [← hbk, List.getD_eq_getElem?_getD, List.getElem?_eq_getElem (by omega)]; rfl
  -- the one-field class and its schema
  let m1 := single dn.fields.length k
  let d1 : MsgD := { fields := keep m1 dn.fields, nGroups := dn.nGroups }
  have hcl : c < Sn.length := by
    by_contra hc; rw [List.getElem?_eq_none (by omega)] at hn; simp at hn
  have E : Evo Sn (Sn.set c d1) c dn d1 m1 :=
    { hn := hn
      ho := by simp [hcl]
      agree := fun c' hc => by rw [List.getElem?_set_ne (fun e => hc e.symm)]
      free := hfree
      mlen := single_length _ _
      fields := rfl
      groups := rfl }
  have hf1 : d1.fields = [f] := keep_single dn.fields k f hk
  have hX : UnkOk d1 [] := ⟨[], fun _ h => by simp at h, rfl⟩
  have hmo := msgOk_proj E sl ow unk cur [] hm0 hX
  have hd1 := dumpSlots_proj E sl cur hslots bsl hbl1 (fun j fj hfj hj => hbs j fj hfj hj)
  have hkb : keep m1 bsl = [b] := by
    have : m1 = single bsl.length k := by simp only [m1]; rw [hbl1, hlen]
    rw [this]; exact keep_single bsl k b hbk'
  have hdump : dumpVal (Sn.set c d1) (.msg c (keep m1 sl) ow [] (projCur m1 cur)) = .ok b := by
    have hfo : fieldsOf (Sn.set c d1) c = d1.fields := by simp [fieldsOf, E.ho]
    rw [dumpVal_msg, hfo, hd1, hkb]
    simp
  obtain ⟨sl', hparse, _, _⟩ :=
    C01.roundtrip_nested_partial (Sn.set c d1) c d1 E.ho _ ow [] _ hmo b hdump hbl
  -- what `parse` did: every record went through the known branch
  have hfo : fieldsOf (Sn.set c d1) c = d1.fields := by simp [fieldsOf, E.ho]
  have hgo : groupsOf (Sn.set c d1) c = d1.nGroups := by simp [groupsOf, E.ho]
  unfold parse fresh at hparse
  rw [parseInto_eq _ c d1 _ false [] _ b E.ho] at hparse
  cases hp : loadFields b with
  | error e => rw [hp] at hparse; simp at hparse
  | ok recs =>
    rw [hp] at hparse; simp only [bind_ok] at hparse
    refine ⟨recs, rfl, ?_⟩
    cases hfold : foldFields (Sn.set c d1) (loadInto (Sn.set c d1) b.length) d1
        { slots := (fieldsOf (Sn.set c d1) c).map fun f => if f.optional then Val.none else Val.ph,
          onWire := true, unknown := [], cur := List.replicate (groupsOf (Sn.set c d1) c) Option.none } recs with
    | error e => rw [hfold] at hparse; simp at hparse
    | ok st =>
      rw [hfold] at hparse; simp only [bind_ok] at hparse
      injection hparse with hparse
      simp only [MState.toVal] at hparse
      injection hparse with _ _ _ hu _
      have hsplit := (foldFields_split _ _ d1 recs _ st hfold).1
      rw [hu] at hsplit
      simp only [List.nil_append] at hsplit
      have hnil : recs.filter (isUnknownField d1) = [] :=
        joinRaw_eq_nil _ (fun pf hpf => loadFields_parsed b recs hp pf (List.mem_filter.mp hpf).1) hsplit.symm
      intro pf hpf
      have hkn : isUnknownField d1 pf = false := by
        have := List.filter_eq_nil_iff.mp hnil pf hpf
        simpa using this
      unfold isUnknownField at hkn
      rw [hf1] at hkn
      simp only [findField, findField.go] at hkn
      by_cases hnum : (f.num == pf.num) = true
      · simp only [hnum, if_true] at hkn
        simp at hkn
        exact ⟨by simpa using (beq_iff_eq.mp hnum).symm, hkn⟩
      · simp [hnum] at hkn

end Bp
