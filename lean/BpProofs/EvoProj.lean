import BpModel.All
import BpProofs.EvoKeep
import BpProofs.Rt
/-
  C08, schema evolution: the projection of a message of the newer class onto the older
  class (a sub-list of the fields, given by a mask).  Part 1: the encoder loop as an
  indexed family of slot encodings, and the projected oneof selection.
-/
namespace Bp
open Gen

/-! ### the loop of `Message.dump`, slot by slot -/

/-- the encoding of a slot list is the concatenation of the encodings of the slots -/
theorem dumpSlots_split (S : Schema) (F : List FieldD) (cur : List (Option Nat)) :
    ∀ (vs : List Val) (k : Nat) (out : Bytes), k + vs.length ≤ F.length → dumpSlots S F cur k vs = .ok out →
      ∃ bsl : List Bytes, bsl.length = vs.length ∧ out = bsl.flatten ∧
        ∀ (j : Nat) (f : FieldD), F[k + j]? = some f → j < vs.length →
          dumpSlot S f (hidden f (k + j) cur) (selectedInGroup f (k + j) cur) (vs.getD j .ph) = .ok (bsl.getD j []) := by
  intro vs
  induction vs with
  | nil =>
    intro k out _ h
    rw [dumpSlots] at h; injection h with h; subst h
    exact ⟨[], rfl, rfl, fun j f _ hj => by simp at hj⟩
  | cons v vs ih =>
    intro k out hk h
    have hkf : k < F.length := by simp at hk; omega
    obtain ⟨f, hf⟩ : ∃ f, F[k]? = some f := ⟨F[k], List.getElem?_eq_getElem hkf⟩
    rw [dumpSlots] at h
    simp only [hf] at h
    cases ha : dumpSlot S f (hidden f k cur) (selectedInGroup f k cur) v with
    | error e => rw [ha] at h; simp at h
    | ok a =>
      rw [ha] at h; simp only [bind_ok] at h
      cases hb : dumpSlots S F cur (k + 1) vs with
      | error e => rw [hb] at h; simp at h
      | ok b =>
        rw [hb] at h; simp only [bind_ok] at h
        injection h with h; subst h
        obtain ⟨bsl, h1, h2, h3⟩ := ih (k + 1) b (by simp at hk; omega) hb
        refine ⟨a :: bsl, by simp [h1], by simp [h2], ?_⟩
        intro j fj hfj hj
        cases j with
        | zero =>
          simp only [Nat.add_zero] at hfj ⊢
          rw [hf] at hfj; injection hfj with hfj; subst hfj
          simpa using ha
        | succ j =>
          have e : k + (j + 1) = k + 1 + j := by omega
          rw [e] at hfj ⊢
          simpa using h3 j fj hfj (by simpa using hj)

/-- … and conversely -/
theorem dumpSlots_join (S : Schema) (F : List FieldD) (cur : List (Option Nat)) :
    ∀ (vs : List Val) (k : Nat) (bsl : List Bytes), bsl.length = vs.length → k + vs.length ≤ F.length →
      (∀ (j : Nat) (f : FieldD), F[k + j]? = some f → j < vs.length →
        dumpSlot S f (hidden f (k + j) cur) (selectedInGroup f (k + j) cur) (vs.getD j .ph) = .ok (bsl.getD j [])) →
      dumpSlots S F cur k vs = .ok bsl.flatten := by
  intro vs
  induction vs with
  | nil =>
    intro k bsl hl _ _
    have : bsl = [] := by cases bsl <;> simp_all
    subst this
    rw [dumpSlots]; rfl
  | cons v vs ih =>
    intro k bsl hl hk h
    cases bsl with
    | nil => simp at hl
    | cons a bsl =>
      have hkf : k < F.length := by simp at hk; omega
      obtain ⟨f, hf⟩ : ∃ f, F[k]? = some f := ⟨F[k], List.getElem?_eq_getElem hkf⟩
      have h0 := h 0 f (by simpa using hf) (by simp)
      simp only [Nat.add_zero, List.getD_cons_zero] at h0
      have hrest := ih (k + 1) bsl (by simpa using hl) (by simp at hk; omega) (fun j fj hfj hj => by
        have e : k + 1 + j = k + (j + 1) := by omega
        rw [e] at hfj ⊢
        have := h (j + 1) fj hfj (by simp; omega)
        simpa using this)
      rw [dumpSlots]
      simp only [hf, h0, hrest, bind_ok, List.flatten_cons]

/-! ### the oneof selection seen by the older class -/

/-- the selected member of a group, as an index into the kept fields: kept members are
    renumbered, a dropped member leaves the group unselected -/
def projSel (mask : List Bool) : Option Nat → Option Nat
  | some i => if mask.getD i false then some (rank mask i) else Option.none
  | Option.none => Option.none

def projCur (mask : List Bool) (cur : List (Option Nat)) : List (Option Nat) := cur.map (projSel mask)

theorem projCur_length (mask : List Bool) (cur : List (Option Nat)) : (projCur mask cur).length = cur.length := by
  simp [projCur]

theorem projCur_getD (mask : List Bool) (cur : List (Option Nat)) (g : Nat) :
    (projCur mask cur).getD g Option.none = projSel mask (cur.getD g Option.none) := by
  simp only [projCur, List.getD_eq_getElem?_getD, List.getElem?_map]
  cases cur[g]? <;> rfl

theorem getD_of_getElem? (mask : List Bool) (k : Nat) (h : mask[k]? = some true) : mask.getD k false = true := by
  simp [List.getD_eq_getElem?_getD, h]

theorem getElem?_of_getD (mask : List Bool) (k : Nat) (h : mask.getD k false = true) : mask[k]? = some true := by
  rw [List.getD_eq_getElem?_getD] at h
  cases hm : mask[k]? with
  | none => rw [hm] at h; simp at h
  | some b => rw [hm] at h; simp at h; rw [h]

theorem projSel_kept (mask : List Bool) (sel : Option Nat) (k : Nat) (hk : mask[k]? = some true) :
    (projSel mask sel = some (rank mask k)) ↔ sel = some k := by
  cases sel with
  | none => simp [projSel]
  | some i =>
    unfold projSel
    by_cases hm : mask.getD i false = true
    · simp only [hm, if_true, Option.some.injEq]
      constructor
      · intro h; exact rank_inj mask i k (getElem?_of_getD mask i hm) hk h
      · intro h; rw [h]
    · simp only [hm, Bool.false_eq_true, if_false, Option.some.injEq]
      constructor
      · intro h; simp at h
      · intro h; subst h; exact absurd (getD_of_getElem? mask i hk) hm

theorem hidden_proj (mask : List Bool) (cur : List (Option Nat)) (f : FieldD) (k : Nat) (hk : mask[k]? = some true) :
    hidden f (rank mask k) (projCur mask cur) = hidden f k cur := by
  unfold hidden
  cases f.group with
  | none => rfl
  | some g =>
    simp only [projCur_getD]
    generalize cur.getD g Option.none = s
    have := projSel_kept mask s k hk
    by_cases h : s = some k
    · rw [this.mpr h, h]; simp
    · have h' : ¬ projSel mask s = some (rank mask k) := fun e => h (this.mp e)
      have a : (projSel mask s != some (rank mask k)) = true := by simpa using h'
      have b : (s != some k) = true := by simpa using h
      rw [a, b]

theorem selected_proj (mask : List Bool) (cur : List (Option Nat)) (f : FieldD) (k : Nat) (hk : mask[k]? = some true) :
    selectedInGroup f (rank mask k) (projCur mask cur) = selectedInGroup f k cur := by
  unfold selectedInGroup
  cases f.group with
  | none => rfl
  | some g =>
    simp only [projCur_getD]
    generalize cur.getD g Option.none = s
    have := projSel_kept mask s k hk
    by_cases h : s = some k
    · rw [this.mpr h, h]; simp
    · have h' : ¬ projSel mask s = some (rank mask k) := fun e => h (this.mp e)
      have a : (projSel mask s == some (rank mask k)) = false := by simpa using h'
      have b : (s == some k) = false := by simpa using h
      rw [a, b]

end Bp
