import BpModel.All
import BpProofs.EvoMsg
import BpProofs.OkSound
/-
  C08, schema evolution, END TO END: a message written with the newer schema, read and
  re-written by a program compiled against the older schema (some fields of the class removed)
  and read again with the newer schema is the original message.

  Route (see `evolution_detail`):
    * `bytes(m)` splits into the records of the slots, in field order, followed by the unknown
      records of `m` (`slot_records`: every record of a slot carries the number of its field);
    * the older class decodes the records of the kept fields exactly like the projection of `m`
      onto the kept fields is decoded (C01 for the OLDER schema on the projection, which is a
      well-typed value of the older schema, `msgOk_proj`; the records of the dropped fields,
      unknown to the older class, may stand anywhere: `foldFields_core_filter`), and appends the
      records of the dropped fields, byte for byte in arrival order, to its unknown bytes;
    * re-encoding gives the kept records, then the dropped records, then the original unknown
      bytes: a rearrangement of the records of `bytes(m)` that keeps the relative order within
      every field and (at most one member of a oneof is ever written) within every oneof
      group, so the newer class decodes it to the same message (`foldFields_perm`, C02), the
      unknown bytes included;
    * C01 for the NEWER schema relates that message to `m`.
-/
namespace Bp
open Gen

/-! ### helpers -/

/-- the records of a byte string (empty if the framing fails) -/
def recsOf (b : Bytes) : List PField :=
  match loadFields b with
  | .ok r => r
  | .error _ => []

theorem recsOf_ok (b : Bytes) (recs : List PField) (h : loadFields b = .ok recs) : recsOf b = recs := by
  unfold recsOf; rw [h]

theorem recsOf_parsed (b : Bytes) : ∀ pf ∈ recsOf b, Parsed pf := by
  unfold recsOf
  cases h : loadFields b with
  | error e => intro pf hpf; simp at hpf
  | ok r => exact loadFields_parsed b r h

theorem joinRaw_flatten (L : List (List PField)) : joinRaw L.flatten = (L.map joinRaw).flatten := by
  induction L with
  | nil => rfl
  | cons x L ih => simp [joinRaw_append, ih]

theorem length_le_flatten {α : Type} (L : List (List α)) (x : List α) (h : x ∈ L) : x.length ≤ L.flatten.length := by
  induction L with
  | nil => simp at h
  | cons y L ih =>
    rcases List.mem_cons.mp h with e | e
    · subst e; simp only [List.flatten_cons, List.length_append]; omega
    · have := ih e; simp only [List.flatten_cons, List.length_append]; omega

/-- two record lists on which the decoder computes the same `core` (C02) and collects the same
    unknown bytes give the same state -/
theorem fold_transport (S : Schema) (rec : Loader) (d : MsgD) (pfs pfs' : List PField) (st st1 : MState)
    (h : foldFields S rec d st pfs = .ok st1)
    (hcore : ∃ st2, foldFields S rec d st pfs' = .ok st2 ∧ core st2 = core st1)
    (hunk : joinRaw (pfs'.filter (isUnknownField d)) = joinRaw (pfs.filter (isUnknownField d))) :
    foldFields S rec d st pfs' = .ok st1 := by
  obtain ⟨st2, h2, hc⟩ := hcore
  have u1 := (foldFields_split S rec d pfs st st1 h).1
  have u2 := (foldFields_split S rec d pfs' st st2 h2).1
  rw [h2]
  have hc' := (core_eq_iff st2 st1).mp hc
  have hu : st2.unknown = st1.unknown := by rw [u1, u2, hunk]
  cases st1; cases st2
  simp only at hc' hu
  simp [hc'.1, hc'.2.1, hc'.2.2, hu]

/-- `parse` of two byte strings of the same length whose record lists the per-record fold does
    not distinguish -/
theorem parse_transport (S : Schema) (c : Nat) (d : MsgD) (hd : S[c]? = some d) (bs bs' : Bytes)
    (pfs pfs' : List PField) (hlf : loadFields bs = .ok pfs) (hlf' : loadFields bs' = .ok pfs')
    (hlen : bs'.length = bs.length)
    (hfold : ∀ (rec : Loader) (st st1 : MState), st.onWire = true →
      foldFields S rec d st pfs = .ok st1 → foldFields S rec d st pfs' = .ok st1)
    (v : Val) (h : parse S c bs = .ok v) : parse S c bs' = .ok v := by
  unfold parse fresh at h ⊢
  rw [parseInto_eq S c d _ false [] _ _ hd] at h ⊢
  rw [hlf] at h; rw [hlf']
  simp only [bind_ok] at h ⊢
  rw [hlen]
  have key : ∀ st0 : MState, st0.onWire = true →
      ((foldFields S (loadInto S bs.length) d st0 pfs).bind fun st => (.ok (st.toVal c) : R Val)) = .ok v →
      ((foldFields S (loadInto S bs.length) d st0 pfs').bind fun st => (.ok (st.toVal c) : R Val)) = .ok v := by
    intro st0 how hh
    cases hf : foldFields S (loadInto S bs.length) d st0 pfs with
    | error e => rw [hf] at hh; simp at hh
    | ok st1 => rw [hf] at hh; rw [hfold _ st0 st1 how hf]; exact hh
  exact key _ rfl h

/-- of any two slots of a well-typed message, at most one contributes records of a given
    known class (a field outside every oneof, or a oneof group): fields have distinct numbers,
    and only the selected member of a group is written -/
theorem blocks_pairwise (dn : MsgD) (hdist : NumsDistinct dn.fields) (cur : List (Option Nat)) (L : List (List PField))
    (hLk : ∀ (k : Nat) (recs : List PField), L[k]? = some recs → ∃ f, dn.fields[k]? = some f ∧
      (hidden f k cur = true → recs = []) ∧ ∀ pf ∈ recs, pf.num = f.num ∧ wireFits f pf.wt = true)
    (cl : Cls) :
    L.Pairwise fun a b => (∀ x ∈ a, ofClass dn cl x = false) ∨ (∀ x ∈ b, ofClass dn cl x = false) := by
  rw [List.pairwise_iff_getElem]
  intro i j hi hj hij
  cases hall : L[i].all (fun x => !ofClass dn cl x) with
  | true =>
    left
    intro x hx
    have := List.all_eq_true.mp hall x hx
    simpa using this
  | false =>
    right
    obtain ⟨x, hx, hxc⟩ := List.all_eq_false.mp hall
    have hxc' : ofClass dn cl x = true := by simpa using hxc
    intro y hy
    cases hyc : ofClass dn cl y with
    | false => rfl
    | true =>
      exfalso
      obtain ⟨fi, hfi, hhi, hpi⟩ := hLk i L[i] (List.getElem?_eq_getElem hi)
      obtain ⟨fj, hfj, hhj, hpj⟩ := hLk j L[j] (List.getElem?_eq_getElem hj)
      have cx := classOf_targets dn x i fi (newer_targets dn hdist i fi hfi x (hpi x hx).1 (hpi x hx).2)
      have cy := classOf_targets dn y j fj (newer_targets dn hdist j fj hfj y (hpj y hy).1 (hpj y hy).2)
      simp only [ofClass, decide_eq_true_eq] at hxc' hyc
      rw [hxc'] at cx; rw [hyc] at cy
      cases hgi : fi.group with
      | none =>
        rw [hgi] at cx
        cases hgj : fj.group with
        | none => rw [hgj] at cy; rw [cx] at cy; injection cy with e; omega
        | some g' => rw [hgj] at cy; rw [cx] at cy; cases cy
      | some g =>
        rw [hgi] at cx
        cases hgj : fj.group with
        | none => rw [hgj] at cy; rw [cx] at cy; cases cy
        | some g' =>
          rw [hgj] at cy; rw [cx] at cy
          simp only [Cls.group.injEq] at cy
          subst cy
          have hni : hidden fi i cur = false := by
            cases hh : hidden fi i cur with
            | false => rfl
            | true => have := hhi hh; rw [this] at hx; simp at hx
          have hnj : hidden fj j cur = false := by
            cases hh : hidden fj j cur with
            | false => rfl
            | true => have := hhj hh; rw [this] at hy; simp at hy
          have s1 := selected_of_not_hidden fi i g cur hgi hni
          have s2 := selected_of_not_hidden fj j g cur hgj hnj
          rw [s1] at s2; injection s2 with s2; omega

/-! ### the theorem -/

/-- **schema evolution, detailed form.**  `E : Evo Sn So c dn dold mask` is the setting: the two
    schemas agree except on class `c`, where the older class keeps the sub-list `keep mask` of
    the fields, and no field refers to class `c`.  For every well-typed message `m` of the newer
    class whose encoding `bs` is shorter than 2^64 bytes:

    * the older program reads `bs` without error; what it holds is `mo`: slot values `slo`
      equivalent (`ValEqv So`) to the kept slots of `m`, the oneof selection of `m` renumbered
      (`projCur`; a group whose selected member was dropped is unselected), and as unknown
      bytes the records of the dropped fields, in arrival order, followed by those of `m`;
    * it writes `bs'` = the records of `bs` it knows, in arrival order, followed by the records
      it does not know, in arrival order — byte for byte the records of `bs`, same length;
    * the newer program reads `bs'` as exactly what it reads `bs` as: the message
      `.msg c sl' true unk cur` — same oneof selection `cur` (also for groups whose selected
      member the older class had dropped) and same unknown bytes `unk` as `m`, slots
      equivalent to those of `m` (`ValEqv Sn`, the relation of the round-trip theorem C01). -/
theorem evolution_detail {Sn So : Schema} {c : Nat} {dn dold : MsgD} {mask : List Bool}
    (E : Evo Sn So c dn dold mask) (sl : List Val) (ow : Bool) (unk : Bytes) (cur : List (Option Nat))
    (hm : MsgOk Sn (.msg c sl ow unk cur)) (bs : Bytes)
    (hdump : dumpVal Sn (.msg c sl ow unk cur) = .ok bs) (hbl : bs.length < 2 ^ 64) :
    ∃ (pfs : List PField) (dropped : Bytes) (slo sl' : List Val) (bs' : Bytes),
      loadFields bs = .ok pfs
      ∧ dropped ++ unk = joinRaw (pfs.filter (isUnknownField dold))
      ∧ bs' = joinRaw (pfs.filter fun pf => !isUnknownField dold pf) ++ joinRaw (pfs.filter (isUnknownField dold))
      ∧ bs'.length = bs.length
      ∧ parse So c bs = .ok (.msg c slo true (dropped ++ unk) (projCur mask cur))
      ∧ ValEqv So (.msg c (keep mask sl) ow (dropped ++ unk) (projCur mask cur))
          (.msg c slo true (dropped ++ unk) (projCur mask cur))
      ∧ dumpVal So (.msg c slo true (dropped ++ unk) (projCur mask cur)) = .ok bs'
      ∧ parse Sn c bs' = .ok (.msg c sl' true unk cur)
      ∧ parse Sn c bs = .ok (.msg c sl' true unk cur)
      ∧ ValEqv Sn (.msg c sl ow unk cur) (.msg c sl' true unk cur) := by
  have hm0 := hm
  cases hm with
  | mk _ d' _ _ _ _ hd' hdist hwfg hgrpopt hcurlen hcurok hinv hselset hslots hunk =>
  rw [E.hn] at hd'; injection hd' with hd'; subst hd'
  have hlen : sl.length = dn.fields.length := slotsOk_len Sn _ _ hslots
  have hfoN : fieldsOf Sn c = dn.fields := by simp [fieldsOf, E.hn]
  have hfoO : fieldsOf So c = dold.fields := by simp [fieldsOf, E.ho]
  -- the body of the encoding, slot by slot
  obtain ⟨body, hbody, hbs⟩ : ∃ body, dumpSlots Sn dn.fields cur 0 sl = .ok body ∧ bs = body ++ unk := by
    rw [dumpVal_msg, hfoN] at hdump
    cases hb : dumpSlots Sn dn.fields cur 0 sl with
    | error e => rw [hb] at hdump; simp at hdump
    | ok body => rw [hb] at hdump; simp only [bind_ok] at hdump; injection hdump with h; exact ⟨body, rfl, h.symm⟩
  obtain ⟨bsl, hbl1, hbody2, hbslot⟩ := dumpSlots_split Sn dn.fields cur sl 0 body (by simp [hlen]) hbody
  simp only [Nat.zero_add] at hbslot
  have hbodylen : body.length < 2 ^ 64 := by rw [hbs] at hbl; simp only [List.length_append] at hbl; omega
  -- the records of every slot
  let L : List (List PField) := bsl.map recsOf
  have hLlen : L.length = dn.fields.length := by simp [L, hbl1, hlen]
  have hmlen : mask.length = L.length := by rw [hLlen]; exact E.mlen
  have hLk : ∀ (k : Nat) (recs : List PField), L[k]? = some recs → ∃ f, dn.fields[k]? = some f ∧
      loadFields (bsl.getD k []) = .ok recs ∧
      (hidden f k cur = true → recs = []) ∧ ∀ pf ∈ recs, pf.num = f.num ∧ wireFits f pf.wt = true := by
    intro k recs hk
    have hkL : k < L.length := by
      by_contra hc; rw [List.getElem?_eq_none (by omega)] at hk; simp at hk
    have hkf : k < dn.fields.length := by rw [← hLlen]; exact hkL
    have hkb : k < bsl.length := by rw [hbl1, hlen]; exact hkf
    have hf : dn.fields[k]? = some dn.fields[k] := List.getElem?_eq_getElem hkf
    have hbk : bsl[k]? = some (bsl.getD k []) := by
      rw [List.getD_eq_getElem?_getD, List.getElem?_eq_getElem hkb]; rfl
    have hb := hbslot k _ hf (by rw [hlen]; exact hkf)
    have hble : (bsl.getD k []).length < 2 ^ 64 := by
      have := length_le_flatten bsl _ (List.mem_of_getElem? hbk)
      rw [← hbody2] at this; omega
    obtain ⟨recs', hlf, hprops⟩ := slot_records Sn c dn E.hn E.free sl ow unk cur hm0 k _ hf _ hble hb
    have hrecs : recs = recs' := by
      simp only [L, List.getElem?_map, hbk, Option.map_some] at hk
      injection hk with hk
      rw [← hk]; exact recsOf_ok _ _ hlf
    subst hrecs
    refine ⟨_, hf, hlf, ?_, hprops⟩
    intro hh
    rw [hh, hidden_empty] at hb
    injection hb with hb
    rw [← hb] at hlf
    rw [loadFields_nil] at hlf
    injection hlf with hlf; exact hlf.symm
  have hLjoin : L.map joinRaw = bsl := by
    apply List.ext_getElem?
    intro k
    by_cases hkb : k < bsl.length
    · have hkL : k < L.length := by simp [L, hkb]
      obtain ⟨f, _, hlf, _, _⟩ := hLk k L[k] (List.getElem?_eq_getElem hkL)
      rw [List.getElem?_map, List.getElem?_eq_getElem hkL, List.getElem?_eq_getElem hkb]
      simp only [Option.map_some]
      rw [(loadFields_raw _ _ hlf).1, List.getD_eq_getElem?_getD, List.getElem?_eq_getElem hkb]; rfl
    · rw [List.getElem?_eq_none (by simp [L]; omega), List.getElem?_eq_none (by omega)]
  -- all records of the body, the kept ones, the dropped ones
  let A : List PField := L.flatten
  let K : List PField := (keep mask L).flatten
  let D : List PField := (keep (nmask mask) L).flatten
  have hAparsed : ∀ pf ∈ A, Parsed pf := by
    intro pf hpf
    obtain ⟨recs, hrecs, hpr⟩ := List.mem_flatten.mp hpf
    simp only [L, List.mem_map] at hrecs
    obtain ⟨b, _, e⟩ := hrecs
    rw [← e] at hpr; exact recsOf_parsed b pf hpr
  have hA : joinRaw A = body := by simp only [A]; rw [joinRaw_flatten, hLjoin, hbody2]
  have hK : joinRaw K = (keep mask bsl).flatten := by simp only [K]; rw [joinRaw_flatten, ← keep_map, hLjoin]
  have hD : joinRaw D = (keep (nmask mask) bsl).flatten := by
    simp only [D]; rw [joinRaw_flatten, ← keep_map, hLjoin]
  -- known / unknown to the older class, block by block
  have hhom : ∀ (k : Nat) (b : Bool) (xs : List PField), mask[k]? = some b → L[k]? = some xs →
      ∀ x ∈ xs, (!isUnknownField dold x) = b := by
    intro k b xs hmk hxs x hx
    obtain ⟨f, hf, _, _, hp⟩ := hLk k xs hxs
    cases b with
    | true =>
      have := targets_known dold x _ f (kept_targets dn dold mask E.fields hdist k f hf hmk x (hp x hx).1 (hp x hx).2)
      simp [this]
    | false =>
      have := dropped_unknown dn dold mask E.fields hdist k f hf hmk x (hp x hx).1
      simp [this]
  obtain ⟨hfk, hfd0⟩ := filter_flatten_keep (fun pf => !isUnknownField dold pf) mask L hmlen hhom
  have hfd : A.filter (isUnknownField dold) = D := by
    simp only [A, D]; rw [← hfd0]
    apply List.filter_congr; intro x _; simp
  have hKA : ∀ x ∈ K, x ∈ A ∧ isUnknownField dold x = false := by
    intro x hx
    simp only [K] at hx; rw [← hfk] at hx
    have := List.mem_filter.mp hx
    exact ⟨this.1, by simpa using this.2⟩
  have hDA : ∀ x ∈ D, x ∈ A ∧ isUnknownField dold x = true := by
    intro x hx
    rw [← hfd] at hx
    exact List.mem_filter.mp hx
  -- the unknown records of `m`
  obtain ⟨upfs, hup, hupj⟩ := hunk
  have hupO : ∀ pf ∈ upfs, isUnknownField dold pf = true :=
    fun pf hpf => isUnknown_older dn dold mask E.fields hdist pf (hup pf hpf).2
  -- the two record lists
  have hpfs : ∀ pf ∈ A ++ upfs, Parsed pf := by
    intro pf hpf; rcases List.mem_append.mp hpf with h | h
    · exact hAparsed pf h
    · exact (hup pf h).1
  have hpfs' : ∀ pf ∈ K ++ D ++ upfs, Parsed pf := by
    intro pf hpf
    rcases List.mem_append.mp hpf with h | h
    · rcases List.mem_append.mp h with h | h
      · exact hAparsed pf (hKA pf h).1
      · exact hAparsed pf (hDA pf h).1
    · exact (hup pf h).1
  have hbsj : bs = joinRaw (A ++ upfs) := by rw [joinRaw_append, hA, hupj, hbs]
  have hlf : loadFields bs = .ok (A ++ upfs) := by rw [hbsj]; exact loadFields_join _ hpfs
  have hlf' : loadFields (joinRaw (K ++ D ++ upfs)) = .ok (K ++ D ++ upfs) := loadFields_join _ hpfs'
  have hbs'len : (joinRaw (K ++ D ++ upfs)).length = bs.length := by
    rw [joinRaw_append, joinRaw_append, hK, hD, hupj, hbs, hbody2]
    have := flatten_keep_length mask bsl (by rw [hbl1, hlen]; exact E.mlen)
    simp only [List.length_append] at this ⊢
    omega
  -- filters of the two lists by what the OLDER class knows
  have hKself : K.filter (fun pf => !isUnknownField dold pf) = K :=
    List.filter_eq_self.mpr (fun x hx => by simp [(hKA x hx).2])
  have hKnil : K.filter (isUnknownField dold) = [] :=
    List.filter_eq_nil_iff.mpr (fun x hx => by simp [(hKA x hx).2])
  have hDself : D.filter (isUnknownField dold) = D :=
    List.filter_eq_self.mpr (fun x hx => (hDA x hx).2)
  have hDnil : D.filter (fun pf => !isUnknownField dold pf) = [] :=
    List.filter_eq_nil_iff.mpr (fun x hx => by simp [(hDA x hx).2])
  have hUself : upfs.filter (isUnknownField dold) = upfs :=
    List.filter_eq_self.mpr (fun x hx => hupO x hx)
  have hUnil : upfs.filter (fun pf => !isUnknownField dold pf) = [] :=
    List.filter_eq_nil_iff.mpr (fun x hx => by simp [hupO x hx])
  have hknownO : (A ++ upfs).filter (fun pf => !isUnknownField dold pf) = K := by
    rw [List.filter_append, hUnil, List.append_nil]; exact hfk
  have hknownO' : (K ++ D ++ upfs).filter (fun pf => !isUnknownField dold pf) = K := by
    rw [List.filter_append, List.filter_append, hKself, hDnil, hUnil]; simp
  have hunkO : (A ++ upfs).filter (isUnknownField dold) = D ++ upfs := by
    rw [List.filter_append, hfd, hUself]
  have hunkO' : (K ++ D ++ upfs).filter (isUnknownField dold) = D ++ upfs := by
    rw [List.filter_append, List.filter_append, hKnil, hDself, hUself]; simp
  -- OLDER side: the projection, and C01 for the older schema
  have hX : UnkOk dold (joinRaw D ++ unk) :=
    ⟨D ++ upfs, fun pf hpf => by
        rcases List.mem_append.mp hpf with h | h
        · exact ⟨hAparsed pf (hDA pf h).1, (hDA pf h).2⟩
        · exact ⟨(hup pf h).1, hupO pf h⟩,
      by rw [joinRaw_append, hupj]⟩
  have hmp := msgOk_proj E sl ow unk cur (joinRaw D ++ unk) hm0 hX
  have hdp := dumpSlots_proj E sl cur hslots bsl hbl1 hbslot
  have hdumpP : dumpVal So (.msg c (keep mask sl) ow (joinRaw D ++ unk) (projCur mask cur))
      = .ok (joinRaw (K ++ D ++ upfs)) := by
    rw [dumpVal_msg, hfoO, hdp]
    simp only [bind_ok]
    rw [joinRaw_append, joinRaw_append, hK, hupj, List.append_assoc]
  obtain ⟨slo, hpo, heqo, hdo⟩ :=
    C01.roundtrip_nested_partial So c dold E.ho _ ow (joinRaw D ++ unk) _ hmp _ hdumpP (by rw [hbs'len]; exact hbl)
  have hTo : ∀ (rec : Loader) (st st1 : MState), st.onWire = true →
      foldFields So rec dold st (K ++ D ++ upfs) = .ok st1 → foldFields So rec dold st (A ++ upfs) = .ok st1 := by
    intro rec st st1 _ h
    apply fold_transport So rec dold _ _ st st1 h
    · have e1 := foldFields_core_filter So rec dold (A ++ upfs) st
      have e2 := foldFields_core_filter So rec dold (K ++ D ++ upfs) st
      rw [hknownO] at e1; rw [hknownO', ← e1, h] at e2
      simp only [map_ok] at e2
      cases hf : foldFields So rec dold st (A ++ upfs) with
      | error e => rw [hf] at e2; simp at e2
      | ok st2 =>
        rw [hf] at e2; simp only [map_ok] at e2
        injection e2 with e2
        exact ⟨st2, rfl, e2.symm⟩
    · rw [hunkO, hunkO']
  have hparseO := parse_transport So c dold E.ho _ bs _ _ hlf' hlf hbs'len.symm hTo _ hpo
  -- NEWER side: C01 for the newer schema, then the rearrangement
  obtain ⟨sl', hpn, heqn, _⟩ := C01.roundtrip_nested_partial Sn c dn E.hn sl ow unk cur hm0 bs hdump hbl
  have hAknown : ∀ x ∈ A, isUnknownField dn x = false := by
    intro x hx
    obtain ⟨recs, hrecs, hxr⟩ := List.mem_flatten.mp hx
    obtain ⟨k, hk⟩ := List.getElem?_of_mem hrecs
    obtain ⟨f, hf, _, _, hp⟩ := hLk k recs hk
    exact targets_known dn x k f (newer_targets dn hdist k f hf x (hp x hxr).1 (hp x hxr).2)
  have hTn : ∀ (rec : Loader) (st st1 : MState), st.onWire = true →
      foldFields Sn rec dn st (A ++ upfs) = .ok st1 → foldFields Sn rec dn st (K ++ D ++ upfs) = .ok st1 := by
    intro rec st st1 how h
    apply fold_transport Sn rec dn _ _ st st1 h
    · apply foldFields_perm Sn rec dn _ _ st st1 how _ h
      intro cl _ _
      rw [List.filter_append, List.filter_append (l₁ := K ++ D)]
      congr 1
      exact filter_flatten_reorder (ofClass dn cl) mask L hmlen
        (blocks_pairwise dn hdist cur L (fun k recs hk => by
          obtain ⟨f, hf, _, hh, hp⟩ := hLk k recs hk
          exact ⟨f, hf, hh, hp⟩) cl)
    · have a1 : A.filter (isUnknownField dn) = [] :=
        List.filter_eq_nil_iff.mpr (fun x hx => by simp [hAknown x hx])
      have a2 : (K ++ D).filter (isUnknownField dn) = [] :=
        List.filter_eq_nil_iff.mpr (fun x hx => by
          rcases List.mem_append.mp hx with h | h
          · simp [hAknown x (hKA x h).1]
          · simp [hAknown x (hDA x h).1])
      rw [List.filter_append (l₁ := K ++ D), List.filter_append (l₁ := A), a1, a2]
  have hparseN := parse_transport Sn c dn E.hn bs _ _ _ hlf hlf' hbs'len hTn _ hpn
  refine ⟨A ++ upfs, joinRaw D, slo, sl', joinRaw (K ++ D ++ upfs), hlf, ?_, ?_, hbs'len, hparseO, heqo, hdo,
    hparseN, hpn, heqn⟩
  · rw [hunkO, joinRaw_append, hupj]
  · rw [hknownO, hunkO, joinRaw_append, joinRaw_append, joinRaw_append, List.append_assoc]

/-- **schema evolution is lossless** (C08): a message `m` of class `c` written with the newer
    schema `Sn`, read by a program compiled against the older schema `So` (class `c` keeps the
    sub-list `keep mask` of its fields; everything else is unchanged and nothing refers to
    class `c`), written again by that program, and read again with the newer schema comes back
    as `m`: same class, same oneof selection, same unknown bytes, and slot values equivalent
    to the original ones in the sense of the round-trip theorem C01 (`ValEqv`: identical up to
    unset-vs-default, `serialized_on_wire`, `-0.0` in wrappers, empty map-value messages) -/
theorem evolution_roundtrip {Sn So : Schema} {c : Nat} {dn dold : MsgD} {mask : List Bool}
    (E : Evo Sn So c dn dold mask) (sl : List Val) (ow : Bool) (unk : Bytes) (cur : List (Option Nat))
    (hm : MsgOk Sn (.msg c sl ow unk cur)) (bs : Bytes)
    (hdump : dumpVal Sn (.msg c sl ow unk cur) = .ok bs) (hbl : bs.length < 2 ^ 64) :
    ∃ mo bs' sl', parse So c bs = .ok mo ∧ dumpVal So mo = .ok bs'
      ∧ parse Sn c bs' = .ok (.msg c sl' true unk cur)
      ∧ ValEqv Sn (.msg c sl ow unk cur) (.msg c sl' true unk cur) := by
  obtain ⟨_, dropped, slo, sl', bs', _, _, _, _, h1, _, h2, h3, _, h4⟩ :=
    evolution_detail E sl ow unk cur hm bs hdump hbl
  exact ⟨_, bs', sl', h1, h2, h3, h4⟩

/-- … with no encoding hypothesis: every well-typed message can be encoded (C01 `encodable`) -/
theorem evolution_roundtrip_total {Sn So : Schema} {c : Nat} {dn dold : MsgD} {mask : List Bool}
    (E : Evo Sn So c dn dold mask) (sl : List Val) (ow : Bool) (unk : Bytes) (cur : List (Option Nat))
    (hm : MsgOk Sn (.msg c sl ow unk cur)) :
    ∃ bs, dumpVal Sn (.msg c sl ow unk cur) = .ok bs ∧ (bs.length < 2 ^ 64 →
      ∃ mo bs' sl', parse So c bs = .ok mo ∧ dumpVal So mo = .ok bs'
        ∧ parse Sn c bs' = .ok (.msg c sl' true unk cur)
        ∧ ValEqv Sn (.msg c sl ow unk cur) (.msg c sl' true unk cur)) := by
  obtain ⟨bs, hbs⟩ := msgOk_encodable Sn _ hm
  exact ⟨bs, hbs, fun hbl => evolution_roundtrip E sl ow unk cur hm bs hbs hbl⟩

/-! ### the setting, decidably -/

/-- the older class drops the fields of `d` the mask does not keep -/
def dropFields (mask : List Bool) (d : MsgD) : MsgD := { fields := keep mask d.fields, nGroups := d.nGroups }

/-- the older schema obtained from `Sn` by dropping fields of class `c` -/
def olderSchema (Sn : Schema) (c : Nat) (mask : List Bool) : Schema :=
  match Sn[c]? with
  | some d => Sn.set c (dropFields mask d)
  | Option.none => Sn

/-- dropping any fields of a class nothing refers to gives an instance of the setting -/
theorem evo_olderSchema (Sn : Schema) (c : Nat) (dn : MsgD) (mask : List Bool) (hn : Sn[c]? = some dn)
    (hfree : SchemaFree c Sn) (hm : mask.length = dn.fields.length) :
    Evo Sn (olderSchema Sn c mask) c dn (dropFields mask dn) mask := by
  have hcl : c < Sn.length := by
    by_contra hc; rw [List.getElem?_eq_none (by omega)] at hn; simp at hn
  have e : olderSchema Sn c mask = Sn.set c (dropFields mask dn) := by simp [olderSchema, hn]
  exact { hn := hn
          ho := by rw [e]; simp [hcl]
          agree := fun c' hc => by rw [e, List.getElem?_set_ne (fun e => hc e.symm)]
          free := hfree
          mlen := hm
          fields := rfl
          groups := rfl }

namespace EvoInst
deriving instance DecidableEq for FieldD
deriving instance DecidableEq for MsgD
end EvoInst

/-- `dold` keeps a sub-list of the fields of `dn` (same `FieldD` records, same relative order)
    and declares the same number of oneof groups.  (A group may keep all, some or none of its
    members; group indices keep their meaning.) -/
def Older (dn dold : MsgD) : Prop :=
  ∃ mask : List Bool, mask.length = dn.fields.length ∧ dold.fields = keep mask dn.fields ∧ dold.nGroups = dn.nGroups

/-- with distinct field numbers the mask is determined: a field is kept iff the older class
    declares its number -/
def olderMask (dn dold : MsgD) : List Bool := dn.fields.map fun f => dold.fields.any fun g => g.num == f.num

def olderB (dn dold : MsgD) : Bool :=
  decide (dold.fields = keep (olderMask dn dold) dn.fields) && dold.nGroups == dn.nGroups

theorem olderB_sound (dn dold : MsgD) (h : olderB dn dold = true) : Older dn dold := by
  simp only [olderB, Bool.and_eq_true, decide_eq_true_eq, beq_iff_eq] at h
  exact ⟨olderMask dn dold, by simp [olderMask], h.1, h.2⟩

/-- the whole setting as one Boolean: class `c` exists in both schemas, the older class keeps a
    sub-list of the newer fields, every other class is identical, nothing refers to class `c` -/
def evoB (Sn So : Schema) (c : Nat) : Bool :=
  match Sn[c]?, So[c]? with
  | some dn, some dold =>
    olderB dn dold && schemaFreeB c Sn && Sn.length == So.length
      && (List.range Sn.length).all fun c' => c' == c || decide (So[c']? = Sn[c']?)
  | _, _ => false

theorem evoB_sound (Sn So : Schema) (c : Nat) (dn dold : MsgD) (hn : Sn[c]? = some dn) (ho : So[c]? = some dold)
    (h : evoB Sn So c = true) : Evo Sn So c dn dold (olderMask dn dold) := by
  simp only [evoB, hn, ho, Bool.and_eq_true, beq_iff_eq, List.all_eq_true, List.mem_range, Bool.or_eq_true,
    decide_eq_true_eq] at h
  obtain ⟨⟨⟨h1, h2⟩, h3⟩, h4⟩ := h
  simp only [olderB, Bool.and_eq_true, decide_eq_true_eq, beq_iff_eq] at h1
  refine { hn := hn, ho := ho, agree := ?_, free := schemaFreeB_sound c Sn h2,
           mlen := by simp [olderMask], fields := h1.1, groups := h1.2 }
  intro c' hc
  by_cases hl : c' < Sn.length
  · rcases h4 c' hl with e | e
    · exact absurd e hc
    · exact e
  · rw [List.getElem?_eq_none (by omega), List.getElem?_eq_none (by omega)]

/-- **schema evolution is lossless**, stated with plain hypotheses: two schemas that agree on
    every class except `c`, where the older class keeps a sub-list of the fields (`Older`), and
    no field of the newer schema refers to class `c` -/
theorem evolution_roundtrip_older (Sn So : Schema) (c : Nat) (dn dold : MsgD)
    (hn : Sn[c]? = some dn) (ho : So[c]? = some dold) (hagree : ∀ c', c' ≠ c → So[c']? = Sn[c']?)
    (hfree : SchemaFree c Sn) (hold : Older dn dold)
    (sl : List Val) (ow : Bool) (unk : Bytes) (cur : List (Option Nat))
    (hm : MsgOk Sn (.msg c sl ow unk cur)) (bs : Bytes)
    (hdump : dumpVal Sn (.msg c sl ow unk cur) = .ok bs) (hbl : bs.length < 2 ^ 64) :
    ∃ mo bs' sl', parse So c bs = .ok mo ∧ dumpVal So mo = .ok bs'
      ∧ parse Sn c bs' = .ok (.msg c sl' true unk cur)
      ∧ ValEqv Sn (.msg c sl ow unk cur) (.msg c sl' true unk cur) := by
  obtain ⟨mask, h1, h2, h3⟩ := hold
  exact evolution_roundtrip
    { hn := hn, ho := ho, agree := hagree, free := hfree, mlen := h1, fields := h2, groups := h3 }
    sl ow unk cur hm bs hdump hbl

/-! ### non-vacuity: a concrete evolution, evaluated on the model

  Newer class 1: `a` int32 #1, `s` string #2, `sub` message(class 0) #3, `r` repeated sint32 #4,
  oneof group 0 = { `x` bytes #5, `y` int64 #6 }, `z` optional bool #7.  The older class 1 has
  dropped `s` (in the middle), `r`, and the oneof member `x` — which is the SELECTED member of
  the message below.  The message also carries an unknown record (#9 varint 1 = `48 01`). -/
namespace EvoEx

def SN : Schema :=
  [ { fields := [{ name := "x", num := 1, ty := .int32 }] },
    { fields := [{ name := "a", num := 1, ty := .int32 },
                 { name := "s", num := 2, ty := .string },
                 { name := "sub", num := 3, ty := .message, kind := .user 0 },
                 { name := "r", num := 4, ty := .sint32, repeated := true },
                 { name := "x", num := 5, ty := .bytes, group := some 0 },
                 { name := "y", num := 6, ty := .int64, group := some 0 },
                 { name := "z", num := 7, ty := .bool, optional := true }], nGroups := 1 } ]

def SO : Schema :=
  [ { fields := [{ name := "x", num := 1, ty := .int32 }] },
    { fields := [{ name := "a", num := 1, ty := .int32 },
                 { name := "sub", num := 3, ty := .message, kind := .user 0 },
                 { name := "y", num := 6, ty := .int64, group := some 0 },
                 { name := "z", num := 7, ty := .bool, optional := true }], nGroups := 1 } ]

def mask : List Bool := [true, false, true, false, false, true, true]

def m : Val :=
  .msg 1 [.int 5, .str [104, 105], .msg 0 [.int 7] true [] [], .list [.int 1, .int (-2)], .byt [65], .ph, .none]
    true [0x48, 0x01] [some 4]

/-- written with the newer schema -/
def bs : Bytes := [8, 5, 18, 2, 104, 105, 26, 2, 8, 7, 34, 2, 2, 3, 42, 1, 65, 72, 1]
/-- what the older program holds: kept slots, group 0 unselected, dropped records + `48 01` as unknown bytes -/
def mo : Val :=
  .msg 1 [.int 5, .msg 0 [.int 7] true [] [], .ph, .none] true [18, 2, 104, 105, 34, 2, 2, 3, 42, 1, 65, 72, 1] [Option.none]
/-- what the older program writes: `a`, `sub`, then `s`, `r`, `x`, then `48 01` -/
def bs' : Bytes := [8, 5, 26, 2, 8, 7, 18, 2, 104, 105, 34, 2, 2, 3, 42, 1, 65, 72, 1]

-- the hypotheses of the theorem hold (all decidable)
example : olderMask SN[1] SO[1] = mask := by decide
example : evoB SN SO 1 = true := by decide
example : olderSchema SN 1 mask = SO := by decide
theorem evo : Evo SN SO 1 SN[1] SO[1] (olderMask SN[1] SO[1]) := evoB_sound SN SO 1 _ _ rfl rfl (by decide)
theorem m_ok : MsgOk SN m := msgOkB_sound _ _ (by decide +kernel)

-- the three steps, evaluated: bytes by `decide +kernel`, values by `rfl` (`Val` has no `DecidableEq`)
example : dumpVal SN m = .ok bs := by decide +kernel
example : parse SO 1 bs = .ok mo := by rfl
example : dumpVal SO mo = .ok bs' := by decide +kernel
example : parse SN 1 bs' = .ok m := by rfl
example : ((dumpVal SN m).bind fun b => (parse SO 1 b).bind fun o => (dumpVal SO o).bind fun b' =>
    (parse SN 1 b').bind fun m' => dumpVal SN m') = .ok bs := by decide +kernel
-- the same, with the selected member `x` and the middle field `s` KEPT and `a` dropped: selection survives as index 3
example : parse (olderSchema SN 1 [false, true, true, false, true, true, true]) 1 bs
    = .ok (.msg 1 [.str [104, 105], .msg 0 [.int 7] true [] [], .byt [65], .ph, .none] true
        [8, 5, 34, 2, 2, 3, 72, 1] [some 2]) := by rfl

/-- the theorem, instantiated -/
example : ∃ mo bs' sl', parse SO 1 bs = .ok mo ∧ dumpVal SO mo = .ok bs'
    ∧ parse SN 1 bs' = .ok (.msg 1 sl' true [0x48, 0x01] [some 4])
    ∧ ValEqv SN m (.msg 1 sl' true [0x48, 0x01] [some 4]) :=
  evolution_roundtrip evo _ _ _ _ m_ok bs (by decide +kernel) (by decide)

end EvoEx

end Bp

#print axioms Bp.evolution_detail
#print axioms Bp.evolution_roundtrip
#print axioms Bp.evolution_roundtrip_total
