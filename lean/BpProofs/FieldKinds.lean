import BpModel.All
/-
  C01: the kinds of field the round-trip theorem covers beyond flat scalar fields
  (`FlatField`, BpProofs/RtFlat.lean): what the plugin generates for message-typed,
  Timestamp / Duration, wrapper and map fields.
-/
namespace Bp
open Gen

/-- a singular or repeated field holding messages of class `c` -/
structure SubField (f : FieldD) (c : Nat) : Prop where
  ty : f.ty = PType.message
  nw : f.wraps = Option.none
  kind : f.kind = MsgKind.user c
  num : numOk f.num = true
  rep : f.repeated = true → f.optional = false ∧ f.group = Option.none

/-- a singular Timestamp (`isDur = false`) or Duration (`isDur = true`) field -/
structure TimeField (f : FieldD) (isDur : Bool) : Prop where
  ty : f.ty = PType.message
  nw : f.wraps = Option.none
  kind : f.kind = (if isDur then MsgKind.duration else MsgKind.timestamp)
  num : numOk f.num = true
  rep : f.repeated = false

/-- a singular wrapper field wrapping the scalar type `w`.
    `kind`: the class in the type hint of a wrapper field is the generated wrapper class, never
    `datetime` / `timedelta` — necessary, since `postLen` dispatches on `f.kind` first (with
    `kind = .timestamp` the payload would be decoded as a Timestamp). -/
structure WrapField (f : FieldD) (w : PType) : Prop where
  ty : f.ty = PType.message
  wr : f.wraps = some w
  wty : isScalarType w = true
  num : numOk f.num = true
  rep : f.repeated = false
  kind : ∃ c, f.kind = MsgKind.user c

/-- a REPEATED wrapper field (`repeated google.protobuf.Int32Value …`, held as
    `List[Optional[scalar]]`): never optional, never a oneof member -/
structure WrapsField (f : FieldD) (w : PType) : Prop where
  ty : f.ty = PType.message
  wr : f.wraps = some w
  wty : isScalarType w = true
  num : numOk f.num = true
  rep : f.repeated = true
  opt : f.optional = false
  grp : f.group = Option.none
  kind : ∃ c, f.kind = MsgKind.user c

/-- proto types allowed as map keys: every integer type, bool, string -/
def isMapKeyType (t : PType) : Bool :=
  t == .int32 || t == .int64 || t == .uint32 || t == .uint64 || t == .sint32 || t == .sint64
  || t == .fixed32 || t == .fixed64 || t == .sfixed32 || t == .sfixed64 || t == .bool || t == .string

/-- keys a Python dict built from well-typed proto keys can hold: pairwise different under `keyEq` -/
def KeysDistinct : List Val → Prop
  | [] => True
  | k :: ks => (∀ k' ∈ ks, keyEq k k' = false) ∧ KeysDistinct ks

/-- a map field with a scalar (non-message) value type -/
structure MapFieldS (f : FieldD) : Prop where
  ty : f.ty = PType.map
  kty : isMapKeyType f.mapK = true
  vty : isScalarType f.mapV = true
  num : numOk f.num = true
  rep : f.repeated = false
  opt : f.optional = false
  grp : f.group = Option.none
  nw : f.wraps = Option.none

/-- a map field whose values are messages of class `c` -/
structure MapFieldM (f : FieldD) (c : Nat) : Prop where
  ty : f.ty = PType.map
  kty : isMapKeyType f.mapK = true
  vty : f.mapV = PType.message
  vk : f.mapVKind = MsgKind.user c
  num : numOk f.num = true
  rep : f.repeated = false
  opt : f.optional = false
  grp : f.group = Option.none
  nw : f.wraps = Option.none

/-- a REPEATED Timestamp (`isDur = false`) or Duration (`isDur = true`) field
    (`List[datetime]` / `List[timedelta]`): never optional, never a oneof member -/
structure TimesField (f : FieldD) (isDur : Bool) : Prop where
  ty : f.ty = PType.message
  nw : f.wraps = Option.none
  kind : f.kind = (if isDur then MsgKind.duration else MsgKind.timestamp)
  num : numOk f.num = true
  rep : f.repeated = true
  opt : f.optional = false
  grp : f.group = Option.none

/-- a map field whose values are Timestamps (`isDur = false`) or Durations (`isDur = true`) -/
structure MapFieldT (f : FieldD) (isDur : Bool) : Prop where
  ty : f.ty = PType.map
  kty : isMapKeyType f.mapK = true
  vty : f.mapV = PType.message
  vk : f.mapVKind = (if isDur then MsgKind.duration else MsgKind.timestamp)
  num : numOk f.num = true
  rep : f.repeated = false
  opt : f.optional = false
  grp : f.group = Option.none
  nw : f.wraps = Option.none

/-- an element of a repeated Timestamp / Duration field, a value of a map with Timestamp /
    Duration values: a datetime (`isDur = false`) / timedelta (`isDur = true`) in the
    protobuf-valid range -/
def timeValOk (isDur : Bool) : Val → Bool
  | .ts us => !isDur && tsOk us
  | .dur us => isDur && durOk us
  | _ => false

theorem timeValOk_ts (x : Val) (h : timeValOk false x = true) : ∃ us, x = Val.ts us ∧ tsOk us = true := by
  cases x with
  | ts us => exact ⟨us, rfl, by simpa [timeValOk] using h⟩
  | _ => simp [timeValOk] at h

theorem timeValOk_dur (x : Val) (h : timeValOk true x = true) : ∃ us, x = Val.dur us ∧ durOk us = true := by
  cases x with
  | dur us => exact ⟨us, rfl, by simpa [timeValOk] using h⟩
  | _ => simp [timeValOk] at h

end Bp
