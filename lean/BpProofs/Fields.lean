import BpModel.All
import BpProofs.Varint
/-
  Helper lemmas about `load_fields` framing (shared by C01 C08 C10 C17).
-/
namespace Bp
open Gen

/-- `load_varint` never consumes nothing and never more than there is; what it consumed
    is a prefix of the input -/
theorem loadVarintAux_consumed (bs : Bytes) (shift res k v c : Nat)
    (h : loadVarintAux shift res k bs = .ok (v, c)) : k < c ∧ c ≤ k + bs.length := by
  induction bs generalizing shift res k with
  | nil => simp [loadVarintAux] at h; split at h <;> simp at h
  | cons b bs ih =>
    rw [loadVarintAux] at h
    split at h
    · simp at h
    · split at h
      · simp at h; simp only [List.length_cons]; omega
      · have := ih _ _ _ h
        simp only [List.length_cons]; omega

theorem loadVarint_consumed (bs : Bytes) (v c : Nat) (h : loadVarint bs = .ok (v, c)) :
    0 < c ∧ c ≤ bs.length := by
  unfold loadVarint at h
  split at h
  · rename_i v' k' heq
    simp at h
    have := loadVarintAux_consumed bs 0 0 0 v' k' heq
    omega
  · simp at h

theorem loadVarint_nil_ne_ok (v c : Nat) : loadVarint [] ≠ .ok (v, c) := by
  intro h; have := loadVarint_consumed [] v c h; simp at this; omega

/-- what `loadPayload` guarantees -/
theorem loadPayload_ok (wt : Nat) (rest : Bytes) (v : Nat) (p : Bytes) (c : Nat)
    (h : loadPayload wt rest = .ok (v, p, c)) :
    c ≤ rest.length ∧ 0 < c + (if wt = wireLenDelim then 1 else 0)
    ∧ (wt = wireVarint ∨ wt = wireFixed64 ∨ wt = wireLenDelim ∨ wt = wireFixed32)
    ∧ (wt = wireFixed64 → p.length = 8) ∧ (wt = wireFixed32 → p.length = 4)
    ∧ (wt = wireVarint → p = []) ∧ (wt ≠ wireVarint → v = 0) := by
  unfold loadPayload at h
  by_cases h0 : wt = wireVarint
  · subst h0
    simp only [beq_self_eq_true, if_true] at h
    split at h
    · simp at h
    · rename_i v' k2 hk2
      have := loadVarint_consumed _ _ _ hk2
      simp at h; obtain ⟨h1, h2, h3⟩ := h; subst h1; subst h2; subst h3
      refine ⟨this.2, by omega, Or.inl rfl, fun h => absurd h (by decide), fun h => absurd h (by decide), fun _ => rfl, fun h => absurd rfl h⟩
  · have e0 : (wt == wireVarint) = false := by simpa using h0
    simp only [e0, Bool.false_eq_true, if_false] at h
    by_cases h1 : wt = wireFixed64
    · subst h1
      simp only [beq_self_eq_true, if_true] at h
      split at h
      · simp at h
      · simp at h; obtain ⟨h1, h2, h3⟩ := h; subst h1; subst h2; subst h3
        refine ⟨by omega, by omega, Or.inr (Or.inl rfl), ?_, fun h => absurd h (by decide), fun h => absurd h h0, fun _ => rfl⟩
        intro _; simp; omega
    · have e1 : (wt == wireFixed64) = false := by simpa using h1
      simp only [e1, Bool.false_eq_true, if_false] at h
      by_cases h2 : wt = wireLenDelim
      · subst h2
        simp only [beq_self_eq_true, if_true] at h
        split at h
        · simp at h
        · rename_i len k2 hk2
          have := loadVarint_consumed _ _ _ hk2
          split at h
          · simp at h
          · rename_i hlen
            simp at h; obtain ⟨h1, h2, h3⟩ := h; subst h1; subst h2; subst h3
            simp at hlen
            refine ⟨by omega, by simp, Or.inr (Or.inr (Or.inl rfl)), fun h => absurd h (by decide),
              fun h => absurd h (by decide), fun h => absurd h h0, fun _ => rfl⟩
      · have e2 : (wt == wireLenDelim) = false := by simpa using h2
        simp only [e2, Bool.false_eq_true, if_false] at h
        by_cases h3 : wt = wireFixed32
        · subst h3
          simp only [beq_self_eq_true, if_true] at h
          split at h
          · simp at h
          · simp at h; obtain ⟨h1, h2, h3⟩ := h; subst h1; subst h2; subst h3
            refine ⟨by omega, by omega, Or.inr (Or.inr (Or.inr rfl)), fun h => absurd h (by decide), ?_, fun h => absurd h h0, fun _ => rfl⟩
            intro _; simp; omega
        · have e3 : (wt == wireFixed32) = false := by simpa using h3
          simp [e3] at h

/-- result of one `load_fields` iteration: the field's raw bytes followed by the rest are
    exactly the input; the field is well-formed -/
structure FieldOk (bs : Bytes) (pf : PField) (rest : Bytes) : Prop where
  raw_rest : pf.raw ++ rest = bs
  raw_pos : 0 < pf.raw.length
  num_pos : pf.num ≠ 0
  wt_ok : pf.wt = wireVarint ∨ pf.wt = wireFixed64 ∨ pf.wt = wireLenDelim ∨ pf.wt = wireFixed32
  len64 : pf.wt = wireFixed64 → pf.payload.length = 8
  len32 : pf.wt = wireFixed32 → pf.payload.length = 4

theorem loadField_ok (bs : Bytes) (pf : PField) (rest : Bytes) (h : loadField bs = .ok (pf, rest)) :
    FieldOk bs pf rest := by
  unfold loadField at h
  split at h
  · simp at h
  · rename_i numWire k hk
    have hk' := loadVarint_consumed bs numWire k hk
    split at h
    · simp at h
    · rename_i hnum
      have hnum' : numWire / 8 ≠ 0 := by simpa using hnum
      split at h
      · simp at h
      · rename_i v p c hp
        have hp' := loadPayload_ok _ _ _ _ _ hp
        simp at h
        obtain ⟨h1, h2⟩ := h
        subst h1; subst h2
        simp at hp'
        exact ⟨List.take_append_drop _ _, by simp; omega, hnum', hp'.2.2.1, hp'.2.2.2.1, hp'.2.2.2.2.1⟩


/-! ### the loop -/

theorem loadFieldsFuel_cons (f : Nat) (b : Nat) (bs : Bytes) :
    loadFieldsFuel (f + 1) (b :: bs) =
      match loadField (b :: bs) with
      | .error e => .error e
      | .ok (pf, rest) =>
        match loadFieldsFuel f rest with
        | .error e => .error e
        | .ok pfs => .ok (pf :: pfs) := rfl

theorem loadFieldsFuel_fuel (f g : Nat) (bs : Bytes) (hf : bs.length < f) (hg : bs.length < g) :
    loadFieldsFuel f bs = loadFieldsFuel g bs := by
  induction f generalizing g bs with
  | zero => omega
  | succ f ih =>
    cases g with
    | zero => omega
    | succ g =>
      cases bs with
      | nil => rfl
      | cons b bs =>
        rw [loadFieldsFuel_cons, loadFieldsFuel_cons]
        cases hlf : loadField (b :: bs) with
        | error e => rfl
        | ok r =>
          obtain ⟨pf, rest⟩ := r
          have ok := loadField_ok _ _ _ hlf
          have hlen : rest.length < (b :: bs).length := by
            have := congrArg List.length ok.raw_rest
            simp only [List.length_append] at this
            have := ok.raw_pos
            omega
          simp only [List.length_cons] at hlen hf hg
          simp only []
          rw [ih g rest (by omega) (by omega)]

theorem loadFields_nil : loadFields [] = .ok [] := rfl

theorem loadFields_cons (bs : Bytes) (pf : PField) (rest : Bytes) (hne : bs ≠ [])
    (h : loadField bs = .ok (pf, rest)) :
    loadFields bs = (loadFields rest).bind fun pfs => .ok (pf :: pfs) := by
  unfold loadFields
  cases bs with
  | nil => exact absurd rfl hne
  | cons b bs =>
    rw [List.length_cons, loadFieldsFuel_cons, h]
    simp only []
    have ok := loadField_ok _ _ _ h
    have hlen : rest.length < (b :: bs).length := by
      have := congrArg List.length ok.raw_rest
      simp only [List.length_append] at this
      have := ok.raw_pos
      omega
    simp only [List.length_cons] at hlen
    rw [loadFieldsFuel_fuel (bs.length + 1) (rest.length + 1) rest (by omega) (by omega)]
    cases loadFieldsFuel (rest.length + 1) rest <;> rfl

theorem loadFields_cons_err (bs : Bytes) (e : PyErr) (hne : bs ≠ [])
    (h : loadField bs = .error e) : loadFields bs = .error e := by
  unfold loadFields
  cases bs with
  | nil => exact absurd rfl hne
  | cons b bs => rw [List.length_cons, loadFieldsFuel_cons, h]

def joinRaw : List PField → Bytes
  | [] => []
  | pf :: pfs => pf.raw ++ joinRaw pfs

/-- every field is well-formed -/
def AllFieldsOk (pfs : List PField) : Prop :=
  ∀ pf ∈ pfs, 0 < pf.raw.length ∧ pf.num ≠ 0
    ∧ (pf.wt = wireVarint ∨ pf.wt = wireFixed64 ∨ pf.wt = wireLenDelim ∨ pf.wt = wireFixed32)
    ∧ (pf.wt = wireFixed64 → pf.payload.length = 8) ∧ (pf.wt = wireFixed32 → pf.payload.length = 4)

/-- **no byte lost or invented**: the raw bytes of the parsed fields, concatenated, are
    the input; every field is well-formed -/
theorem loadFields_raw (bs : Bytes) (pfs : List PField) (h : loadFields bs = .ok pfs) :
    joinRaw pfs = bs ∧ AllFieldsOk pfs := by
  induction hn : bs.length using Nat.strongRecOn generalizing bs pfs with
  | _ n ih =>
    cases bs with
    | nil =>
      rw [loadFields_nil] at h
      simp at h; subst h
      exact ⟨rfl, fun _ hm => by simp at hm⟩
    | cons b bs =>
      cases hlf : loadField (b :: bs) with
      | error e => rw [loadFields_cons_err _ e (by simp) hlf] at h; simp at h
      | ok r =>
        obtain ⟨pf, rest⟩ := r
        rw [loadFields_cons _ pf rest (by simp) hlf] at h
        have ok := loadField_ok _ _ _ hlf
        cases hr : loadFields rest with
        | error e => rw [hr] at h; simp [Except.bind] at h
        | ok pfs' =>
          rw [hr] at h
          simp [Except.bind] at h
          subst h
          have hlen : rest.length < n := by
            have := congrArg List.length ok.raw_rest
            simp only [List.length_append] at this
            have := ok.raw_pos
            omega
          obtain ⟨j1, j2⟩ := ih rest.length hlen rest pfs' hr rfl
          constructor
          · simp only [joinRaw, j1]; exact ok.raw_rest
          · intro x hx
            simp at hx
            rcases hx with hx | hx
            · subst hx
              exact ⟨ok.raw_pos, ok.num_pos, ok.wt_ok, ok.len64, ok.len32⟩
            · exact j2 x hx


/-! ### a field's decoding depends only on its own bytes -/

theorem loadVarintAux_prefix (bs : Bytes) (shift res k v c : Nat)
    (h : loadVarintAux shift res k bs = .ok (v, c)) (rest : Bytes) :
    loadVarintAux shift res k (bs.take (c - k) ++ rest) = .ok (v, c) := by
  induction bs generalizing shift res k with
  | nil => simp [loadVarintAux] at h; split at h <;> simp at h
  | cons b bs ih =>
    have hc := loadVarintAux_consumed _ _ _ _ _ _ h
    rw [loadVarintAux] at h
    split at h
    · simp at h
    · rename_i hs
      split at h
      · rename_i hb
        simp at h
        obtain ⟨h1, h2⟩ := h
        subst h2
        have : k + 1 - k = 1 := by omega
        rw [this]
        simp only [List.take_succ_cons, List.take_zero, List.cons_append, List.nil_append]
        rw [loadVarintAux]
        simp [hs, hb, h1]
      · rename_i hb
        have hc' := loadVarintAux_consumed _ _ _ _ _ _ h
        have : c - k = (c - (k + 1)) + 1 := by omega
        rw [this, List.take_succ_cons, List.cons_append, loadVarintAux]
        simp only [hs, hb, if_false]
        exact ih _ _ _ h

theorem loadVarint_prefix (bs : Bytes) (v c : Nat) (h : loadVarint bs = .ok (v, c)) (rest : Bytes) :
    loadVarint (bs.take c ++ rest) = .ok (v, c) := by
  unfold loadVarint at h ⊢
  split at h
  · rename_i v' c' heq
    simp at h
    obtain ⟨h1, h2⟩ := h
    subst h2
    have := loadVarintAux_prefix bs 0 0 0 v' c' heq rest
    simp at this
    rw [this]; simp [h1]
  · simp at h

theorem len_take_le (bs : Bytes) (n : Nat) (h : n ≤ bs.length) : (bs.take n).length = n := by
  simp [List.length_take]; omega

theorem take_app (bs r : Bytes) (n : Nat) (h : n ≤ bs.length) : (bs.take n ++ r).take n = bs.take n := by
  rw [List.take_append_of_le_length (by rw [len_take_le bs n h]), List.take_take]
  simp

theorem drop_app (bs r : Bytes) (n : Nat) (h : n ≤ bs.length) : (bs.take n ++ r).drop n = r := by
  have hl := len_take_le bs n h
  rw [List.drop_append_of_le_length (by omega), List.drop_eq_nil_of_le (by omega)]
  rfl

theorem len_app_ge (bs r : Bytes) (n : Nat) (h : n ≤ bs.length) : ¬ (bs.take n ++ r).length < n := by
  rw [List.length_append, len_take_le bs n h]; omega

theorem loadPayload_prefix (wt : Nat) (bs : Bytes) (v : Nat) (p : Bytes) (c : Nat)
    (h : loadPayload wt bs = .ok (v, p, c)) (rest : Bytes) :
    loadPayload wt (bs.take c ++ rest) = .ok (v, p, c) := by
  unfold loadPayload at h ⊢
  split at h
  · rename_i h0
    simp only [h0, if_true]
    split at h
    · simp at h
    · rename_i v' k2 hk2
      simp at h; obtain ⟨h1, h2, h3⟩ := h; subst h1; subst h2; subst h3
      rw [loadVarint_prefix _ _ _ hk2]
  · rename_i h0
    simp only [h0]
    split at h
    · rename_i h1
      simp only [h1, if_true]
      split at h
      · simp at h
      · rename_i hl
        simp at h; obtain ⟨h1, h2, h3⟩ := h; subst h1; subst h2; subst h3
        have hl' : 8 ≤ bs.length := by omega
        simp only [len_app_ge bs rest 8 hl', if_false, take_app bs rest 8 hl']
        rfl
    · rename_i h1
      simp only [h1]
      split at h
      · rename_i h2
        simp only [h2, if_true]
        split at h
        · simp at h
        · rename_i len k2 hk2
          have hk2' := loadVarint_consumed _ _ _ hk2
          split at h
          · simp at h
          · rename_i hl
            simp at h; obtain ⟨h1, h2, h3⟩ := h; subst h1; subst h2; subst h3
            simp at hl
            have hkl : k2 + len ≤ bs.length := by omega
            -- take (k2+len) bs = take k2 bs ++ take len (drop k2 bs)
            have e : bs.take (k2 + len) = bs.take k2 ++ (bs.drop k2).take len := List.take_add
            rw [e, List.append_assoc, loadVarint_prefix _ _ _ hk2]
            simp only []
            rw [drop_app bs _ k2 (by omega)]
            have hl2 : len ≤ (bs.drop k2).length := by simp; omega
            simp only [len_app_ge (bs.drop k2) rest len hl2, if_false, take_app (bs.drop k2) rest len hl2]
            rfl
      · rename_i h2
        simp only [h2]
        split at h
        · rename_i h3
          simp only [h3, if_true]
          split at h
          · simp at h
          · rename_i hl
            simp at h; obtain ⟨h1, h2, h3⟩ := h; subst h1; subst h2; subst h3
            have hl' : 4 ≤ bs.length := by omega
            simp only [len_app_ge bs rest 4 hl', if_false, take_app bs rest 4 hl']
            rfl
        · simp at h

/-- **locality**: the same field is decoded from its raw bytes followed by anything -/
theorem loadField_prefix (bs : Bytes) (pf : PField) (rest : Bytes)
    (h : loadField bs = .ok (pf, rest)) (rest' : Bytes) :
    loadField (pf.raw ++ rest') = .ok (pf, rest') := by
  unfold loadField at h
  split at h
  · simp at h
  · rename_i numWire k hk
    have hk' := loadVarint_consumed bs numWire k hk
    split at h
    · simp at h
    · rename_i hnum
      split at h
      · simp at h
      · rename_i v p c hp
        have hp' := (loadPayload_ok _ _ _ _ _ hp).1
        simp at hp'
        simp at h
        obtain ⟨h1, h2⟩ := h
        subst h1
        simp only
        have hkc : k + c ≤ bs.length := by omega
        have eraw : bs.take (k + c) = bs.take k ++ (bs.drop k).take c := List.take_add
        unfold loadField
        rw [eraw, List.append_assoc, loadVarint_prefix _ _ _ hk]
        simp only [hnum]
        rw [drop_app bs _ k (by omega), loadPayload_prefix _ _ _ _ _ hp]
        simp only []
        rw [← List.append_assoc, ← eraw, take_app bs rest' (k + c) hkc, drop_app bs rest' (k + c) hkc]
        rfl


/-- `pf` is the decoding of some input -/
def Parsed (pf : PField) : Prop := ∃ bs rest, loadField bs = .ok (pf, rest)

theorem loadFields_parsed (bs : Bytes) (pfs : List PField) (h : loadFields bs = .ok pfs) :
    ∀ pf ∈ pfs, Parsed pf := by
  induction hn : bs.length using Nat.strongRecOn generalizing bs pfs with
  | _ n ih =>
    cases bs with
    | nil => rw [loadFields_nil] at h; simp at h; subst h; intro _ hm; simp at hm
    | cons b bs =>
      cases hlf : loadField (b :: bs) with
      | error e => rw [loadFields_cons_err _ e (by simp) hlf] at h; simp at h
      | ok r =>
        obtain ⟨pf, rest⟩ := r
        rw [loadFields_cons _ pf rest (by simp) hlf] at h
        have ok := loadField_ok _ _ _ hlf
        cases hr : loadFields rest with
        | error e => rw [hr] at h; simp [Except.bind] at h
        | ok pfs' =>
          rw [hr] at h
          simp [Except.bind] at h
          subst h
          have hlen : rest.length < n := by
            have := congrArg List.length ok.raw_rest
            simp only [List.length_append] at this
            have := ok.raw_pos
            omega
          intro x hx
          simp at hx
          rcases hx with hx | hx
          · subst hx; exact ⟨_, _, hlf⟩
          · exact ih rest.length hlen rest pfs' hr rfl x hx

/-- **any sequence of decoded fields re-parses to itself** from the concatenation of
    their raw bytes (sub-sequences, permutations, duplications of records included) -/
theorem loadFields_join (pfs : List PField) (h : ∀ pf ∈ pfs, Parsed pf) :
    loadFields (joinRaw pfs) = .ok pfs := by
  induction pfs with
  | nil => rfl
  | cons pf pfs ih =>
    obtain ⟨bs, rest, hlf⟩ := h pf (by simp)
    have ok := loadField_ok _ _ _ hlf
    have hloc := loadField_prefix bs pf rest hlf (joinRaw pfs)
    have hne : pf.raw ++ joinRaw pfs ≠ [] := by
      intro hc
      have := congrArg List.length hc
      simp only [List.length_append, List.length_nil] at this
      have := ok.raw_pos
      omega
    simp only [joinRaw]
    rw [loadFields_cons _ pf _ hne hloc, ih (fun x hx => h x (by simp [hx]))]
    rfl

/-! ### truncation -/

theorem loadVarintAux_trunc (bs : Bytes) (shift res k v c n : Nat)
    (h : loadVarintAux shift res k bs = .ok (v, c)) (hn : n < c - k) :
    loadVarintAux shift res k (bs.take n) = .error .eof := by
  induction bs generalizing shift res k n with
  | nil => simp [loadVarintAux] at h; split at h <;> simp at h
  | cons b bs ih =>
    rw [loadVarintAux] at h
    split at h
    · simp at h
    · rename_i hs
      cases n with
      | zero => simp [loadVarintAux, hs]
      | succ n =>
        split at h
        · simp at h; omega
        · rename_i hb
          rw [List.take_succ_cons, loadVarintAux]
          simp only [hs, hb, if_false]
          exact ih _ _ _ _ h (by omega)

theorem loadVarint_trunc (bs : Bytes) (v c n : Nat) (h : loadVarint bs = .ok (v, c)) (hn : n < c) :
    loadVarint (bs.take n) = .error .eof := by
  unfold loadVarint at h ⊢
  split at h
  · rename_i v' c' heq
    simp at h
    rw [loadVarintAux_trunc bs 0 0 0 v' c' n heq (by omega)]
  · simp at h

theorem loadPayload_trunc (wt : Nat) (bs : Bytes) (v : Nat) (p : Bytes) (c n : Nat)
    (h : loadPayload wt bs = .ok (v, p, c)) (hn : n < c) :
    loadPayload wt (bs.take n) = .error .eof := by
  unfold loadPayload at h ⊢
  split at h
  · rename_i h0
    simp only [h0, if_true]
    split at h
    · simp at h
    · rename_i v' k2 hk2
      simp at h; obtain ⟨h1, h2, h3⟩ := h; subst h1; subst h2; subst h3
      rw [loadVarint_trunc _ _ _ _ hk2 hn]
  · rename_i h0
    simp only [h0]
    split at h
    · rename_i h1
      simp only [h1, if_true]
      split at h
      · simp at h
      · simp at h; obtain ⟨h1, h2, h3⟩ := h; subst h1; subst h2; subst h3
        have : (bs.take n).length < 8 := by simp [List.length_take]; omega
        rw [if_pos this]; simp
    · rename_i h1
      simp only [h1]
      split at h
      · rename_i h2
        simp only [h2, if_true]
        split at h
        · simp at h
        · rename_i len k2 hk2
          have hk2' := loadVarint_consumed _ _ _ hk2
          split at h
          · simp at h
          · rename_i hl
            simp at h; obtain ⟨h1, h2, h3⟩ := h; subst h1; subst h2; subst h3
            simp at hl
            by_cases hnk : n < k2
            · rw [loadVarint_trunc _ _ _ _ hk2 hnk]; simp
            · -- the length varint is complete, the payload is short
              have e : bs.take n = bs.take k2 ++ (bs.drop k2).take (n - k2) := by
                have : n = k2 + (n - k2) := by omega
                rw [this, List.take_add]; congr 2 <;> omega
              rw [e, loadVarint_prefix _ _ _ hk2]
              simp only []
              rw [drop_app bs _ k2 (by omega)]
              have : ((bs.drop k2).take (n - k2)).length < len := by
                simp [List.length_take]; omega
              rw [if_pos this]; simp
      · rename_i h2
        simp only [h2]
        split at h
        · rename_i h3
          simp only [h3, if_true]
          split at h
          · simp at h
          · simp at h; obtain ⟨h1, h2, h3⟩ := h; subst h1; subst h2; subst h3
            have : (bs.take n).length < 4 := by simp [List.length_take]; omega
            rw [if_pos this]; simp
        · simp at h

/-- **a field cut anywhere in the middle is rejected** (EOFError) -/
theorem loadField_trunc (bs : Bytes) (pf : PField) (rest : Bytes) (n : Nat)
    (h : loadField bs = .ok (pf, rest)) (hn : n < pf.raw.length) :
    loadField (bs.take n) = .error .eof := by
  unfold loadField at h
  split at h
  · simp at h
  · rename_i numWire k hk
    have hk' := loadVarint_consumed bs numWire k hk
    split at h
    · simp at h
    · rename_i hnum
      split at h
      · simp at h
      · rename_i v p c hp
        have hp' := (loadPayload_ok _ _ _ _ _ hp).1
        simp at hp'
        simp at h
        obtain ⟨h1, h2⟩ := h
        subst h1
        simp only at hn
        have hkc : k + c ≤ bs.length := by omega
        rw [len_take_le bs (k + c) hkc] at hn
        unfold loadField
        by_cases hnk : n < k
        · rw [loadVarint_trunc _ _ _ _ hk hnk]
        · have e : bs.take n = bs.take k ++ (bs.drop k).take (n - k) := by
            have : n = k + (n - k) := by omega
            rw [this, List.take_add]; congr 2 <;> omega
          rw [e, loadVarint_prefix _ _ _ hk]
          simp only [hnum]
          rw [drop_app bs _ k (by omega), loadPayload_trunc _ _ _ _ _ _ hp (by omega)]
          rfl

end Bp
