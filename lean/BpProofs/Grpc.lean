import BpModel.Grpc
/-
  Helper lemmas for C11: splitting a route at its separators.
-/
namespace Bp.Grpc

/-- two texts that agree up to the first occurrence of a separator which neither prefix contains -/
theorem split_first (c : Char) (x x' m m' : Str) (hx : c ∉ x) (hx' : c ∉ x')
    (h : x ++ c :: m = x' ++ c :: m') : x = x' ∧ m = m' := by
  induction x generalizing x' with
  | nil =>
    cases x' with
    | nil => simp at h; exact ⟨rfl, h⟩
    | cons a x' =>
      simp at h
      exact absurd (h.1 ▸ List.mem_cons_self) hx'
  | cons a x ih =>
    cases x' with
    | nil =>
      simp at h
      exact absurd (h.1 ▸ List.mem_cons_self) hx
    | cons a' x' =>
      simp only [List.cons_append, List.cons.injEq] at h
      have hx2 : c ∉ x := fun hm => hx (List.mem_cons_of_mem _ hm)
      have hx2' : c ∉ x' := fun hm => hx' (List.mem_cons_of_mem _ hm)
      obtain ⟨e1, e2⟩ := ih x' hx2 hx2' h.2
      exact ⟨by rw [h.1, e1], e2⟩

/-- the same from the right: the text after the last separator -/
theorem split_last (c : Char) (p p' s s' : Str) (hs : c ∉ s) (hs' : c ∉ s')
    (h : p ++ c :: s = p' ++ c :: s') : p = p' ∧ s = s' := by
  have h2 := congrArg List.reverse h
  simp only [List.reverse_append, List.reverse_cons, List.append_assoc, List.singleton_append] at h2
  have := split_first c s.reverse s'.reverse p.reverse p'.reverse (by simpa using hs) (by simpa using hs') h2
  exact ⟨List.reverse_inj.mp this.2, List.reverse_inj.mp this.1⟩

theorem packagePart_eq (pkg : Str) : packagePart pkg = [] ∧ pkg = [] ∨ packagePart pkg = pkg ++ ['.'] ∧ pkg ≠ [] := by
  unfold packagePart
  cases pkg with
  | nil => left; simp
  | cons a p => right; simp

/-- package part and service name can be read back from their concatenation when the
    service name contains no dot -/
theorem split_package (pkg pkg' svc svc' : Str) (hs : '.' ∉ svc) (hs' : '.' ∉ svc')
    (h : packagePart pkg ++ svc = packagePart pkg' ++ svc') : pkg = pkg' ∧ svc = svc' := by
  rcases packagePart_eq pkg with ⟨e, e0⟩ | ⟨e, ne⟩ <;> rcases packagePart_eq pkg' with ⟨e', e0'⟩ | ⟨e', ne'⟩
  · rw [e, e'] at h; simp at h; exact ⟨by rw [e0, e0'], h⟩
  · rw [e, e'] at h
    simp only [List.nil_append, List.append_assoc, List.singleton_append] at h
    exact absurd (h ▸ (List.mem_append_right pkg' List.mem_cons_self)) hs
  · rw [e, e'] at h
    simp only [List.nil_append, List.append_assoc, List.singleton_append] at h
    exact absurd (h.symm ▸ (List.mem_append_right pkg List.mem_cons_self)) hs'
  · rw [e, e'] at h
    simp only [List.append_assoc, List.singleton_append] at h
    exact split_last '.' pkg pkg' svc svc' hs hs' h

end Bp.Grpc
