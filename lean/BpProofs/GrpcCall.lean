import BpModel.GrpcCall
/-
  C11, call protocol: what a handler does when it is fed a request list (`hFeed`, the specification side), and the
  lemmas that compute the canonical run (`canon`) of the four helper programs against the four adapters.
-/
set_option linter.unusedSimpArgs false
namespace Bp.GrpcCall
open Bp.Grpc

variable {Req Resp : Type}

/-- how a handler body ended -/
inductive HFin (Resp : Type)
  | ret (r : Option Resp)
  | raise (e : GErr)
  deriving DecidableEq, Repr

/-- a handler body run on its own against a request list: what its pulls of the request iterator were answered
    (`given`), what it yielded, how it ended, which requests it left unread -/
structure HOut (Req Resp : Type) where
  given : List (Option Req)
  yields : List Resp
  fin : HFin Resp
  rest : List Req
  deriving DecidableEq, Repr

/-- the handler body fed from `rs` (`iter`: it has a request iterator; without one a pull reads `None` and is not
    recorded — no Python handler of a unary request does that) -/
def hFeed (iter : Bool) : HProg Req Resp → List Req → HOut Req Resp
  | .recv k, [] =>
    if iter then let o := hFeed iter (k none) []; { o with given := none :: o.given }
    else hFeed iter (k none) []
  | .recv k, r :: rs =>
    if iter then let o := hFeed iter (k (some r)) rs; { o with given := some r :: o.given }
    else hFeed iter (k none) (r :: rs)
  | .yield y k, rs => let o := hFeed iter k rs; { o with yields := y :: o.yields }
  | .ret r, rs => ⟨[], [], .ret r, rs⟩
  | .raise e, rs => ⟨[], [], .raise e, rs⟩

/-- the status the server answers with after a GENERATOR handler ended -/
def genFin : HFin Resp → Option GErr
  | .ret _ => none
  | .raise e => some e

/-- … after a COROUTINE handler ended (its one message is sent first when it returned one) -/
def coroFin : HFin Resp → Option GErr
  | .ret (some _) => none
  | .ret none => some internalErr
  | .raise e => some e

def coroMsgs : HFin Resp → List Resp
  | .ret (some r) => [r]
  | _ => []

/-! ### the server task on a complete request stream -/

theorem vRun_genProg (iter : Bool) (p : HProg Req Resp) :
    ∀ (cl : Client) (rs : List Req) (d : Down Resp) (s : List (SOp Req)) (m : MSt Req Resp) (v : VSt Req Resp),
      vRun (genProg iter p) ⟨cl, ⟨rs, true⟩, d, s, m, v⟩ =
        ⟨cl, ⟨(hFeed iter p rs).rest, true⟩,
          ⟨d.msgs ++ (hFeed iter p rs).yields, d.hdrs || !(hFeed iter p rs).yields.isEmpty,
            some (genFin (hFeed iter p rs).fin)⟩, s, m,
          ⟨.halt, v.calls, v.hIn ++ (hFeed iter p rs).given, v.sawEnd || (hFeed iter p rs).given.any Option.isNone⟩⟩ := by
  induction p with
  | recv k ih =>
    intro cl rs d s m v
    cases iter with
    | false =>
      cases rs <;> simp [genProg, hFeed, ih]
    | true =>
      cases rs with
      | nil => simp [genProg, hFeed, vRun, ih]
      | cons r rs => simp [genProg, hFeed, vRun, ih]
  | yield y k ih =>
    intro cl rs d s m v
    simp [genProg, hFeed, vRun, ih]
  | ret r => intro cl rs d s m v; simp [genProg, hFeed, vRun, genFin]
  | raise e => intro cl rs d s m v; simp [genProg, hFeed, vRun, genFin]

theorem vRun_coroProg (iter : Bool) (p : HProg Req Resp) :
    ∀ (cl : Client) (rs : List Req) (d : Down Resp) (s : List (SOp Req)) (m : MSt Req Resp) (v : VSt Req Resp),
      vRun (coroProg iter p) ⟨cl, ⟨rs, true⟩, d, s, m, v⟩ =
        ⟨cl, ⟨(hFeed iter p rs).rest, true⟩,
          ⟨d.msgs ++ coroMsgs (hFeed iter p rs).fin, d.hdrs || !(coroMsgs (hFeed iter p rs).fin).isEmpty,
            some (coroFin (hFeed iter p rs).fin)⟩, s, m,
          ⟨.halt, v.calls, v.hIn ++ (hFeed iter p rs).given, v.sawEnd || (hFeed iter p rs).given.any Option.isNone⟩⟩ := by
  induction p with
  | recv k ih =>
    intro cl rs d s m v
    cases iter with
    | false =>
      cases rs <;> simp [coroProg, hFeed, ih]
    | true =>
      cases rs with
      | nil => simp [coroProg, hFeed, vRun, ih]
      | cons r rs => simp [coroProg, hFeed, vRun, ih]
  | yield y k ih =>
    intro cl rs d s m v
    simp [coroProg, hFeed, ih]
  | ret r => intro cl rs d s m v; cases r <;> simp [coroProg, hFeed, vRun, coroFin, coroMsgs]
  | raise e => intro cl rs d s m v; simp [coroProg, hFeed, vRun, coroFin, coroMsgs]

/-! ### `_send_messages` on a client-streaming stream -/

theorem sendOp_message_cs (card : Card) (hc : csOf card = true) (md : Bool) (pre : List Req) (x : Req) :
    sendOp ⟨card, true, md, false⟩ ⟨pre, false⟩ (.message x false) = .ok (⟨card, true, true, false⟩, ⟨pre ++ [x], false⟩) := by
  simp [sendOp, sendEff, hc]

theorem sendOp_end_cs (card : Card) (hc : csOf card = true) (md : Bool) (pre : List Req) :
    sendOp ⟨card, true, md, false⟩ ⟨pre, false⟩ (.endStream : SOp Req) = .ok (⟨card, true, md, true⟩, ⟨pre, true⟩) := by
  simp [sendOp, sendEff, hc]

theorem sRunL_messages (card : Card) (hc : csOf card = true) (ms : List Req) :
    ∀ (md : Bool) (pre : List Req) (tail : List (SOp Req)),
      sRunL (ms.map (fun m => SOp.message m false) ++ tail) ⟨card, true, md, false⟩ ⟨pre, false⟩ =
        sRunL tail ⟨card, true, md || !ms.isEmpty, false⟩ ⟨pre ++ ms, false⟩ := by
  induction ms with
  | nil => intro md pre tail; simp
  | cons x xs ih =>
    intro md pre tail
    simp [sRunL, sendOp_message_cs card hc, ih]

theorem sRunL_sendMessages (card : Card) (hc : csOf card = true) (ms : List Req) (md : Bool) (pre : List Req) :
    sRunL (sendMessages ms) ⟨card, true, md, false⟩ ⟨pre, false⟩ =
      (⟨card, true, md || !ms.isEmpty, true⟩, ⟨pre ++ ms, true⟩) := by
  simp [sendMessages, sRunL_messages card hc, sRunL, sendOp_end_cs card hc]

theorem mRun_messages (strict : Bool) (card : Card) (hc : csOf card = true) (ms : List Req) :
    ∀ (md : Bool) (pre : List Req) (tail : List (COp Req)) (d : Down Resp) (s : List (SOp Req)) (m : MSt Req Resp)
      (v : VSt Req Resp),
      mRun strict (ms.map (fun m => COp.send (SOp.message m false)) ++ tail)
          ⟨⟨card, true, md, false⟩, ⟨pre, false⟩, d, s, m, v⟩ =
        mRun strict tail ⟨⟨card, true, md || !ms.isEmpty, false⟩, ⟨pre ++ ms, false⟩, d, s, m, v⟩ := by
  induction ms with
  | nil => intro md pre tail d s m v; simp
  | cons x xs ih =>
    intro md pre tail d s m v
    simp [mRun, sendOp_message_cs card hc, ih]

theorem sendMessages_map (ms : List Req) :
    (sendMessages ms).map COp.send = ms.map (fun m => COp.send (SOp.message m false)) ++ [COp.send SOp.endStream] := by
  simp [sendMessages, Function.comp_def]

/-! ### the four calls under the canonical schedule -/

@[simp] theorem recv_beq_aiter : (RecvShape.recvMessage == RecvShape.aiter) = false := by decide
@[simp] theorem aiter_beq_aiter : (RecvShape.aiter == RecvShape.aiter) = true := by decide

theorem hFeed_false (p : HProg Req Resp) : ∀ rs : List Req, (hFeed false p rs).given = [] ∧ (hFeed false p rs).rest = rs := by
  induction p with
  | recv k ih => intro rs; cases rs <;> simp [hFeed, ih]
  | yield y k ih => intro rs; simp [hFeed, ih]
  | ret r => intro rs; simp [hFeed]
  | raise e => intro rs; simp [hFeed]

/-- what the caller of a unary-response RPC gets, from how the (coroutine) handler ended -/
def coroResult : HFin Resp → CResult Resp
  | .ret (some x) => .returned (some x)
  | .ret none => .grpcError internalErr
  | .raise e => .grpcError e

/-- how the caller's `async for` over a server-streaming RPC ends, from how the (generator) handler ended -/
def genResult : HFin Resp → CResult Resp
  | .ret _ => .returned none
  | .raise e => .grpcError e

theorem call_unaryUnary (h : Handler Req Resp) (hg : h.isGen = false) (r : Req) :
    call .unaryUnary h [r] =
      ⟨1, [some r], true, [], coroResult (hFeed false (h.body (some r)) []).fin⟩ := by
  simp only [call, callWith, callProg, initV, helperProg, unaryUnary, canon, mRunC, init, rpcShape, csOf, ssOf, serverProg]
  simp [mRun, sendOp, sendEff, csOf, downRecv, sRun, sRunL, vRunG, vRun, afterRecv, callUnaryResp, hg, callArg,
    vRun_coroProg, hFeed_false]
  cases hf : (hFeed false (h.body (some r)) []).fin with
  | ret x =>
    cases x <;>
      simp [coroMsgs, coroFin, downRecv, failM, outcome, VProg.isHalt, coroResult, mRun, exitCheck, endedOk]
  | raise e => simp [coroMsgs, coroFin, downRecv, failM, outcome, VProg.isHalt, coroResult]

theorem call_unaryStream (h : Handler Req Resp) (hg : h.isGen = true) (r : Req) :
    call .unaryStream h [r] =
      ⟨1, [some r], true, (hFeed false (h.body (some r)) []).yields,
        genResult (hFeed false (h.body (some r)) []).fin⟩ := by
  simp only [call, callWith, callProg, initV, helperProg, unaryStream, canon, mRunC, init, rpcShape, csOf, ssOf, serverProg]
  simp [mRun, sendOp, sendEff, csOf, downRecv, sRun, sRunL, vRunG, vRun, afterRecv, callServerStream, hg, callArg,
    vRun_genProg, hFeed_false]
  cases hf : (hFeed false (h.body (some r)) []).fin with
  | ret x =>
    simp [genFin, failM, outcome, VProg.isHalt, genResult, mRun, exitCheck, endedOk]
  | raise e =>
    cases hy : (hFeed false (h.body (some r)) []).yields <;>
      simp [genFin, failM, outcome, VProg.isHalt, genResult, mRun, exitCheck, endedOk]

theorem call_streamUnary (h : Handler Req Resp) (hg : h.isGen = false) (reqs : List Req) :
    call .streamUnary h reqs =
      ⟨1, (hFeed true (h.body none) reqs).given, true, [], coroResult (hFeed true (h.body none) reqs).fin⟩ := by
  simp only [call, callWith, callProg, initV, helperProg, streamUnary, canon, mRunC, init, rpcShape, csOf, ssOf, serverProg,
    sendMessages_map]
  simp [mRun, sendRequest, mRun_messages (Resp := Resp) true .streamUnary rfl, sendOp_end_cs .streamUnary rfl,
    downRecv, sRun, sRunL, vRunG, afterRecv, callUnaryResp, hg, callArg, vRun, vRun_coroProg]
  cases hf : (hFeed true (h.body none) reqs).fin with
  | ret x =>
    cases x <;>
      simp [coroMsgs, coroFin, downRecv, failM, outcome, VProg.isHalt, coroResult, mRun, exitCheck, endedOk]
  | raise e => simp [coroMsgs, coroFin, downRecv, failM, outcome, VProg.isHalt, coroResult]

theorem call_streamStream (h : Handler Req Resp) (hg : h.isGen = true) (reqs : List Req) :
    call .streamStream h reqs =
      ⟨1, (hFeed true (h.body none) reqs).given, true, (hFeed true (h.body none) reqs).yields,
        genResult (hFeed true (h.body none) reqs).fin⟩ := by
  simp only [call, callWith, callProg, initV, helperProg, streamStream, canon, mRunC, init, rpcShape, csOf, ssOf, serverProg]
  simp [mRun, sendRequest, downRecv, sRun, sRunL_sendMessages .streamStream rfl, vRunG, afterRecv, callServerStream,
    hg, callArg, vRun, vRun_genProg]
  cases hf : (hFeed true (h.body none) reqs).fin with
  | ret x =>
    simp [genFin, failM, outcome, VProg.isHalt, genResult, mRun, exitCheck, endedOk]
  | raise e =>
    cases hy : (hFeed true (h.body none) reqs).yields <;>
      simp [genFin, failM, outcome, VProg.isHalt, genResult, mRun, exitCheck, endedOk]

/-! ### what the handler is given is the sent request stream -/

theorem hFeed_recv_nil (k : Option Req → HProg Req Resp) :
    (hFeed true (.recv k) []).given = none :: (hFeed true (k none) []).given
    ∧ (hFeed true (.recv k) []).rest = (hFeed true (k none) []).rest := by simp [hFeed]

theorem hFeed_recv_cons (k : Option Req → HProg Req Resp) (r : Req) (rs : List Req) :
    (hFeed true (.recv k) (r :: rs)).given = some r :: (hFeed true (k (some r)) rs).given
    ∧ (hFeed true (.recv k) (r :: rs)).rest = (hFeed true (k (some r)) rs).rest := by simp [hFeed]

/-- fed from `rs` through an iterator the handler is given a prefix of `rs` in order, then — only when that prefix
    is all of `rs` — the end of the stream (once per further pull); what it did not read is `rest` -/
theorem hFeed_given (p : HProg Req Resp) :
    ∀ rs : List Req,
      (hFeed true p rs).given.filterMap id ++ (hFeed true p rs).rest = rs
      ∧ (hFeed true p rs).given =
          ((hFeed true p rs).given.filterMap id).map some
            ++ List.replicate ((hFeed true p rs).given.countP Option.isNone) none
      ∧ ((hFeed true p rs).given.any Option.isNone = true → (hFeed true p rs).rest = []) := by
  induction p with
  | recv k ih =>
    intro rs
    cases rs with
    | nil =>
      obtain ⟨h1, h2, _⟩ := ih none []
      obtain ⟨hg, hr⟩ := List.append_eq_nil_iff.mp h1
      rw [(hFeed_recv_nil k).1, (hFeed_recv_nil k).2]
      refine ⟨by simp [hg, hr], ?_, fun _ => hr⟩
      rw [hg] at h2
      simp only [List.filterMap_cons, id, hg, List.map_nil, List.nil_append, List.countP_cons, Option.isNone_none,
        if_true, List.replicate_succ, List.cons.injEq, true_and]
      simpa using h2
    | cons r rs =>
      obtain ⟨h1, h2, h3⟩ := ih (some r) rs
      rw [(hFeed_recv_cons k r rs).1, (hFeed_recv_cons k r rs).2]
      refine ⟨by simp [h1], ?_, by simpa using h3⟩
      simp only [List.filterMap_cons, id, List.map_cons, List.cons_append, List.countP_cons,
        Option.isNone_some, Bool.false_eq_true, if_false, Nat.add_zero, List.cons.injEq, true_and]
      exact h2
  | yield y k ih => intro rs; simpa [hFeed] using ih rs
  | ret r => intro rs; simp [hFeed]
  | raise e => intro rs; simp [hFeed]

end Bp.GrpcCall
