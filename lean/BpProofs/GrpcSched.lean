import BpModel.GrpcCall
import BpProofs.GrpcCall
/-
  C11, call protocol: every schedule of the three tasks ends in the same state (diamond property of `step`,
  hence uniqueness of the quiescent state), and the canonical schedule `canon` is one of them.
-/
set_option linter.unusedSimpArgs false
set_option linter.unusedVariables false
namespace Bp.GrpcCall
open Bp.Grpc

variable {Req Resp : Type}

/-! ### what a send does not depend on -/

theorem sendEff_reqDone (cl cl' : Client) (e e' : Bool) (o : SOp Req) (push : List Req)
    (h : sendEff cl e o = .ok (cl', push, e')) : cl'.card = cl.card ∧ (cl.reqDone = true → cl'.reqDone = true) := by
  cases o <;> simp only [sendEff] at h <;> (repeat' split at h) <;> simp_all <;> (obtain ⟨h1, _⟩ := h; subst h1; simp_all)

/-- once END_STREAM has gone out a send puts nothing on the wire -/
theorem sendEff_ended (cl cl' : Client) (e' : Bool) (o : SOp Req) (push : List Req)
    (h : sendEff cl true o = .ok (cl', push, e')) : push = [] ∧ e' = true := by
  cases o <;> simp only [sendEff] at h <;> (repeat' split at h) <;> simp_all

/-! ### the diamond: two different tasks that can both step commute -/

theorem sStep_some (cl : Client) (um : List Req) (ue : Bool) (d : Down Resp) (s : List (SOp Req)) (m : MSt Req Resp)
    (v : VSt Req Resp) (c' : Cfg Req Resp) (h : sStep ⟨cl, ⟨um, ue⟩, d, s, m, v⟩ = some c') :
    ∃ o rest, s = o :: rest ∧
      ((∃ cl' push e', sendEff cl ue o = .ok (cl', push, e') ∧ c' = ⟨cl', ⟨um ++ push, e'⟩, d, rest, m, v⟩)
       ∨ (∃ x, sendEff cl ue o = .error x ∧ c' = ⟨cl, ⟨um, ue⟩, d, [], m, v⟩)) := by
  cases s with
  | nil => simp [sStep] at h
  | cons o rest =>
    refine ⟨o, rest, rfl, ?_⟩
    simp only [sStep, sendOp] at h
    cases he : sendEff cl ue o with
    | error x => rw [he] at h; simp at h; exact Or.inr ⟨x, rfl, h.symm⟩
    | ok r =>
      obtain ⟨cl', push, e'⟩ := r
      rw [he] at h; simp at h
      exact Or.inl ⟨cl', push, e', rfl, h.symm⟩

theorem sStep_of_ok (cl cl' : Client) (um push : List Req) (ue e' : Bool) (d : Down Resp) (o : SOp Req)
    (rest : List (SOp Req)) (m : MSt Req Resp) (v : VSt Req Resp) (h : sendEff cl ue o = .ok (cl', push, e')) :
    sStep ⟨cl, ⟨um, ue⟩, d, o :: rest, m, v⟩ = some ⟨cl', ⟨um ++ push, e'⟩, d, rest, m, v⟩ := by
  simp [sStep, sendOp, h]

theorem sStep_of_error (cl : Client) (um : List Req) (ue : Bool) (d : Down Resp) (o : SOp Req) (x : CErr)
    (rest : List (SOp Req)) (m : MSt Req Resp) (v : VSt Req Resp) (h : sendEff cl ue o = .error x) :
    sStep ⟨cl, ⟨um, ue⟩, d, o :: rest, m, v⟩ = some ⟨cl, ⟨um, ue⟩, d, [], m, v⟩ := by
  simp [sStep, sendOp, h]

theorem diamond_SV (c cs cv : Cfg Req Resp) (hs : sStep c = some cs) (hv : vStep c = some cv) :
    vStep cs = sStep cv ∧ (sStep cv).isSome = true := by
  obtain ⟨cl, ⟨um, ue⟩, ⟨dm, dh, df⟩, s, m, ⟨prog, calls, hIn, sawEnd⟩⟩ := c
  obtain ⟨o, rest, rfl, hcase⟩ := sStep_some _ _ _ _ _ _ _ _ hs
  have hr : cl.reqDone = true := by
    by_cases h : cl.reqDone = true
    · exact h
    · simp [vStep, h] at hv
  rcases hcase with ⟨cl', push, e', he, rfl⟩ | ⟨x, he, rfl⟩
  · have hr' : cl'.reqDone = true := (sendEff_reqDone _ _ _ _ _ _ he).2 hr
    cases prog with
    | halt => simp [vStep, hr] at hv
    | recvA k =>
      cases um with
      | cons a as =>
        simp [vStep, hr] at hv; subst hv
        simp [vStep, hr', sStep_of_ok _ _ _ _ _ _ _ _ _ _ _ he]
      | nil =>
        cases ue with
        | false => simp [vStep, hr] at hv
        | true =>
          obtain ⟨rfl, rfl⟩ := sendEff_ended _ _ _ _ _ he
          simp [vStep, hr] at hv; subst hv
          simp [vStep, hr', sStep_of_ok _ _ _ _ _ _ _ _ _ _ _ he]
    | recvH k =>
      cases um with
      | cons a as =>
        simp [vStep, hr] at hv; subst hv
        simp [vStep, hr', sStep_of_ok _ _ _ _ _ _ _ _ _ _ _ he]
      | nil =>
        cases ue with
        | false => simp [vStep, hr] at hv
        | true =>
          obtain ⟨rfl, rfl⟩ := sendEff_ended _ _ _ _ _ he
          simp [vStep, hr] at hv; subst hv
          simp [vStep, hr', sStep_of_ok _ _ _ _ _ _ _ _ _ _ _ he]
    | call arg k =>
      simp [vStep, hr] at hv; subst hv
      simp [vStep, hr', sStep_of_ok _ _ _ _ _ _ _ _ _ _ _ he]
    | send r k =>
      simp [vStep, hr] at hv; subst hv
      simp [vStep, hr', sStep_of_ok _ _ _ _ _ _ _ _ _ _ _ he]
    | fin f =>
      simp [vStep, hr] at hv; subst hv
      simp [vStep, hr', sStep_of_ok _ _ _ _ _ _ _ _ _ _ _ he]
  · cases prog with
    | halt => simp [vStep, hr] at hv
    | recvA k =>
      cases um with
      | cons a as =>
        simp [vStep, hr] at hv; subst hv
        simp [vStep, hr, sStep_of_error _ _ _ _ _ _ _ _ _ he]
      | nil =>
        cases ue with
        | false => simp [vStep, hr] at hv
        | true =>
          simp [vStep, hr] at hv; subst hv
          simp [vStep, hr, sStep_of_error _ _ _ _ _ _ _ _ _ he]
    | recvH k =>
      cases um with
      | cons a as =>
        simp [vStep, hr] at hv; subst hv
        simp [vStep, hr, sStep_of_error _ _ _ _ _ _ _ _ _ he]
      | nil =>
        cases ue with
        | false => simp [vStep, hr] at hv
        | true =>
          simp [vStep, hr] at hv; subst hv
          simp [vStep, hr, sStep_of_error _ _ _ _ _ _ _ _ _ he]
    | call arg k =>
      simp [vStep, hr] at hv; subst hv
      simp [vStep, hr, sStep_of_error _ _ _ _ _ _ _ _ _ he]
    | send r k =>
      simp [vStep, hr] at hv; subst hv
      simp [vStep, hr, sStep_of_error _ _ _ _ _ _ _ _ _ he]
    | fin f =>
      simp [vStep, hr] at hv; subst hv
      simp [vStep, hr, sStep_of_error _ _ _ _ _ _ _ _ _ he]

/-- every case of the server task's program and of the incoming direction -/
syntax "v_cases " ident ident ident : tactic
macro_rules
  | `(tactic| v_cases $prog $um $ue) =>
    `(tactic| (cases $prog:ident <;> (try cases $um:ident) <;> (try cases $ue:ident)))

theorem diamond_MV (strict : Bool) (c cm cv : Cfg Req Resp)
    (hI : c.down.fin.isSome = true → c.v.prog.isHalt = true)
    (hm : mStep strict c = some cm) (hv : vStep c = some cv) :
    vStep cm = mStep strict cv ∧ (mStep strict cv).isSome = true := by
  obtain ⟨cl, ⟨um, ue⟩, ⟨dm, dh, df⟩, s, ⟨ops, resp, yielded, result⟩, ⟨prog, calls, hIn, sawEnd⟩⟩ := c
  have hr : cl.reqDone = true := by
    by_cases h : cl.reqDone = true
    · exact h
    · simp [vStep, h] at hv
  cases ops with
  | nil => simp [mStep] at hm
  | cons op rest =>
    cases op with
    | sendRequest =>
      simp [mStep, sendRequest, hr, failM] at hm; subst hm
      v_cases prog um ue <;> simp [vStep, hr] at hv <;> subst hv <;>
        simp [vStep, mStep, hr, sendRequest, failM, CErr.toResult]
    | send o =>
      cases he : sendEff cl ue o with
      | error x =>
        simp [mStep, sendOp, he, failM] at hm; subst hm
        v_cases prog um ue <;> simp [vStep, hr] at hv <;> subst hv <;>
          simp [vStep, mStep, hr, sendOp, he, failM]
      | ok r =>
        obtain ⟨cl', push, e'⟩ := r
        have hr' : cl'.reqDone = true := (sendEff_reqDone _ _ _ _ _ _ he).2 hr
        simp [mStep, sendOp, he] at hm; subst hm
        cases prog with
        | halt => simp [vStep, hr] at hv
        | recvA k =>
          cases um with
          | cons a as => simp [vStep, hr] at hv; subst hv; simp [vStep, mStep, hr', sendOp, he]
          | nil =>
            cases ue with
            | false => simp [vStep, hr] at hv
            | true =>
              obtain ⟨rfl, rfl⟩ := sendEff_ended _ _ _ _ _ he
              simp [vStep, hr] at hv; subst hv; simp [vStep, mStep, hr', sendOp, he]
        | recvH k =>
          cases um with
          | cons a as => simp [vStep, hr] at hv; subst hv; simp [vStep, mStep, hr', sendOp, he]
          | nil =>
            cases ue with
            | false => simp [vStep, hr] at hv
            | true =>
              obtain ⟨rfl, rfl⟩ := sendEff_ended _ _ _ _ _ he
              simp [vStep, hr] at hv; subst hv; simp [vStep, mStep, hr', sendOp, he]
        | call arg k => simp [vStep, hr] at hv; subst hv; simp [vStep, mStep, hr', sendOp, he]
        | send r k => simp [vStep, hr] at hv; subst hv; simp [vStep, mStep, hr', sendOp, he]
        | fin f => simp [vStep, hr] at hv; subst hv; simp [vStep, mStep, hr', sendOp, he]
    | spawn sops =>
      simp [mStep] at hm; subst hm
      v_cases prog um ue <;> simp [vStep, hr] at hv <;> subst hv <;> simp [vStep, mStep, hr]
    | assertResponse =>
      cases resp with
      | none =>
        simp [mStep, failM] at hm; subst hm
        v_cases prog um ue <;> simp [vStep, hr] at hv <;> subst hv <;> simp [vStep, mStep, hr, failM]
      | some x =>
        simp [mStep] at hm; subst hm
        v_cases prog um ue <;> simp [vStep, hr] at hv <;> subst hv <;> simp [vStep, mStep, hr]
    | returnResponse =>
      simp [mStep] at hm; subst hm
      v_cases prog um ue <;> simp [vStep, hr] at hv <;> subst hv <;> simp [vStep, mStep, hr]
    | recvMessage =>
      cases dm with
      | cons x xs =>
        simp [mStep, hr, downRecv] at hm; subst hm
        v_cases prog um ue <;> simp [vStep, hr] at hv <;> subst hv <;> simp [vStep, mStep, hr, downRecv]
      | nil =>
        cases df with
        | none => simp [mStep, hr, downRecv] at hm
        | some f =>
          have hh := hI rfl
          cases prog <;> simp [VProg.isHalt] at hh
          simp [vStep, hr] at hv
    | iterYield =>
      cases dm with
      | cons x xs =>
        simp [mStep, hr, downRecv] at hm; subst hm
        v_cases prog um ue <;> simp [vStep, hr] at hv <;> subst hv <;> simp [vStep, mStep, hr, downRecv]
      | nil =>
        cases df with
        | none => simp [mStep, hr, downRecv] at hm
        | some f =>
          have hh := hI rfl
          cases prog <;> simp [VProg.isHalt] at hh
          simp [vStep, hr] at hv
    | exitCtx =>
      cases df with
      | none => simp [mStep, hr, exitCheck] at hm
      | some f =>
        have hh := hI rfl
        cases prog <;> simp [VProg.isHalt] at hh
        simp [vStep, hr] at hv

/-- operations of the main task that touch neither the outgoing direction nor the sender task -/
def recvOnly : COp Req → Bool
  | .recvMessage => true
  | .iterYield => true
  | .exitCtx => true
  | .assertResponse => true
  | .returnResponse => true
  | _ => false

theorem exitCheck_false_cl (cl cl' : Client) (d : Down Resp) (h : cl.reqDone = true) (h' : cl'.reqDone = true) :
    exitCheck false cl' d = exitCheck false cl d := by
  simp [exitCheck, h, h']

theorem diamond_MS (c cm cs : Cfg Req Resp) (hro : c.m.ops.all recvOnly = true) (hr : c.cl.reqDone = true)
    (hm : mStep false c = some cm) (hs : sStep c = some cs) :
    sStep cm = mStep false cs ∧ (mStep false cs).isSome = true := by
  obtain ⟨cl, ⟨um, ue⟩, ⟨dm, dh, df⟩, s, ⟨ops, resp, yielded, result⟩, v⟩ := c
  obtain ⟨o, srest, rfl, hcase⟩ := sStep_some _ _ _ _ _ _ _ _ hs
  simp only at hr
  cases ops with
  | nil => simp [mStep] at hm
  | cons op rest =>
    have hop : recvOnly op = true := by simp at hro; exact hro.1
    rcases hcase with ⟨cl', push, e', he, rfl⟩ | ⟨x, he, rfl⟩
    · have hr' : cl'.reqDone = true := (sendEff_reqDone _ _ _ _ _ _ he).2 hr
      cases op with
      | sendRequest => simp [recvOnly] at hop
      | send o' => simp [recvOnly] at hop
      | spawn sops => simp [recvOnly] at hop
      | assertResponse =>
        cases resp <;> simp [mStep, failM] at hm <;> subst hm <;>
          simp [mStep, failM, sStep_of_ok _ _ _ _ _ _ _ _ _ _ _ he]
      | returnResponse =>
        simp [mStep] at hm; subst hm; simp [mStep, sStep_of_ok _ _ _ _ _ _ _ _ _ _ _ he]
      | recvMessage =>
        cases hd : downRecv (⟨dm, dh, df⟩ : Down Resp) with
        | none => simp [mStep, hr, hd] at hm
        | some a =>
          cases a <;> simp [mStep, hr, hd, failM] at hm <;> subst hm <;>
            simp [mStep, hr', hd, failM, sStep_of_ok _ _ _ _ _ _ _ _ _ _ _ he]
      | iterYield =>
        cases hd : downRecv (⟨dm, dh, df⟩ : Down Resp) with
        | none => simp [mStep, hr, hd] at hm
        | some a =>
          cases a <;> simp [mStep, hr, hd, failM] at hm <;> subst hm <;>
            simp [mStep, hr', hd, failM, sStep_of_ok _ _ _ _ _ _ _ _ _ _ _ he]
      | exitCtx =>
        have hx := exitCheck_false_cl cl cl' (⟨dm, dh, df⟩ : Down Resp) hr hr'
        cases hd : exitCheck false cl (⟨dm, dh, df⟩ : Down Resp) with
        | none => simp [mStep, hd] at hm
        | some a =>
          cases a <;> simp [mStep, hd, failM] at hm <;> subst hm <;>
            simp [mStep, hx, hd, failM, sStep_of_ok _ _ _ _ _ _ _ _ _ _ _ he]
    · cases op with
      | sendRequest => simp [recvOnly] at hop
      | send o' => simp [recvOnly] at hop
      | spawn sops => simp [recvOnly] at hop
      | assertResponse =>
        cases resp <;> simp [mStep, failM] at hm <;> subst hm <;>
          simp [mStep, failM, sStep_of_error _ _ _ _ _ _ _ _ _ he]
      | returnResponse =>
        simp [mStep] at hm; subst hm; simp [mStep, sStep_of_error _ _ _ _ _ _ _ _ _ he]
      | recvMessage =>
        cases hd : downRecv (⟨dm, dh, df⟩ : Down Resp) with
        | none => simp [mStep, hr, hd] at hm
        | some a =>
          cases a <;> simp [mStep, hr, hd, failM] at hm <;> subst hm <;>
            simp [mStep, hr, hd, failM, sStep_of_error _ _ _ _ _ _ _ _ _ he]
      | iterYield =>
        cases hd : downRecv (⟨dm, dh, df⟩ : Down Resp) with
        | none => simp [mStep, hr, hd] at hm
        | some a =>
          cases a <;> simp [mStep, hr, hd, failM] at hm <;> subst hm <;>
            simp [mStep, hr, hd, failM, sStep_of_error _ _ _ _ _ _ _ _ _ he]
      | exitCtx =>
        cases hd : exitCheck false cl (⟨dm, dh, df⟩ : Down Resp) with
        | none => simp [mStep, hd] at hm
        | some a =>
          cases a <;> simp [mStep, hd, failM] at hm <;> subst hm <;>
            simp [mStep, hd, failM, sStep_of_error _ _ _ _ _ _ _ _ _ he]

/-! ### the shape of a client program under which the tasks do not race for the outgoing direction -/

def isSpawn : COp Req → Bool
  | .spawn _ => true
  | _ => false

/-- sends first; after the first receive-side operation, and after a `spawn`, nothing but receive-side operations;
    `spawn` only once the request has been sent (`b`) -/
def good : Bool → List (COp Req) → Bool
  | _, [] => true
  | _, .sendRequest :: r => good true r
  | _, .send (.message _ _) :: r => good true r
  | b, .send .endStream :: r => good b r
  | b, .spawn _ :: r => b && r.all recvOnly
  | _, _ :: r => r.all recvOnly

theorem all_cons' {α : Type} (p : α → Bool) (a : α) (l : List α) :
    ((a :: l).all p = true) = (p a = true ∧ l.all p = true) := by
  rw [List.all_cons, Bool.and_eq_true]

theorem good_of_recvOnly (b : Bool) (ops : List (COp Req)) (h : ops.all recvOnly = true) : good b ops = true := by
  cases ops with
  | nil => rfl
  | cons op r =>
    rw [all_cons'] at h
    obtain ⟨h1, h2⟩ := h
    cases op <;> first | exact h2 | (simp [recvOnly] at h1)

theorem good_true (b : Bool) (ops : List (COp Req)) (h : good b ops = true) : good true ops = true := by
  induction ops generalizing b with
  | nil => rfl
  | cons op r ih =>
    cases op with
    | send o =>
      cases o with
      | message m e => exact h
      | endStream => exact ih _ h
    | spawn x =>
      simp only [good, Bool.and_eq_true] at h ⊢; simp [h.2]
    | sendRequest => exact h
    | recvMessage => exact h
    | iterYield => exact h
    | exitCtx => exact h
    | assertResponse => exact h
    | returnResponse => exact h

theorem sendEff_message_reqDone (cl cl' : Client) (e e' b : Bool) (m : Req) (push : List Req)
    (h : sendEff cl e (.message m b) = .ok (cl', push, e')) : cl'.reqDone = true := by
  simp only [sendEff] at h; (repeat' split at h) <;> simp_all <;> (obtain ⟨h1, _⟩ := h; subst h1; rfl)

theorem sendEff_end_reqDone (cl cl' : Client) (e e' : Bool) (push : List Req)
    (h : sendEff cl e (.endStream : SOp Req) = .ok (cl', push, e')) : cl.reqDone = true ∧ cl'.reqDone = true := by
  simp only [sendEff] at h; (repeat' split at h) <;> simp_all <;> (obtain ⟨h1, _⟩ := h; subst h1; simp_all)

theorem downRecv_msg (d d' : Down Resp) (r : Resp) (h : downRecv d = some (.msg r d')) :
    d'.fin = d.fin ∧ d'.hdrs = d.hdrs ∧ d.msgs = r :: d'.msgs := by
  obtain ⟨dm, dh, df⟩ := d
  cases dm with
  | nil =>
    cases df with
    | none => simp [downRecv] at h
    | some f => cases f <;> simp [downRecv] at h <;> split at h <;> simp at h
  | cons x xs => simp [downRecv] at h; obtain ⟨rfl, rfl⟩ := h; simp

/-- a step of the main task at a receive-side operation -/
theorem mStep_recvOnly (strict : Bool) (c c' : Cfg Req Resp) (op : COp Req) (rest : List (COp Req))
    (ho : c.m.ops = op :: rest) (hop : recvOnly op = true) (hm : mStep strict c = some c') :
    c'.s = c.s ∧ c'.cl = c.cl ∧ c'.up = c.up ∧ c'.v = c.v ∧ c'.down.fin = c.down.fin
    ∧ (c'.m.ops = rest ∨ c'.m.ops = [] ∨ c'.m.ops = op :: rest) := by
  obtain ⟨cl, up, d, s, ⟨ops, resp, yielded, result⟩, v⟩ := c
  simp only at ho; subst ho
  cases op with
  | sendRequest => simp [recvOnly] at hop
  | send o => simp [recvOnly] at hop
  | spawn x => simp [recvOnly] at hop
  | assertResponse => cases resp <;> simp [mStep, failM] at hm <;> subst hm <;> simp
  | returnResponse => simp [mStep] at hm; subst hm; simp
  | recvMessage =>
    cases hr : cl.reqDone with
    | false => simp [mStep, hr, failM] at hm; subst hm; simp
    | true =>
      cases hd : downRecv d with
      | none => simp [mStep, hr, hd] at hm
      | some a =>
        cases a with
        | msg r d' => simp [mStep, hr, hd] at hm; subst hm; simp [(downRecv_msg _ _ _ hd).1]
        | eof => simp [mStep, hr, hd] at hm; subst hm; simp
        | err e => simp [mStep, hr, hd, failM] at hm; subst hm; simp
  | iterYield =>
    cases hr : cl.reqDone with
    | false => simp [mStep, hr, failM] at hm; subst hm; simp
    | true =>
      cases hd : downRecv d with
      | none => simp [mStep, hr, hd] at hm
      | some a =>
        cases a with
        | msg r d' => simp [mStep, hr, hd] at hm; subst hm; simp [(downRecv_msg _ _ _ hd).1]
        | eof => simp [mStep, hr, hd] at hm; subst hm; simp
        | err e => simp [mStep, hr, hd, failM] at hm; subst hm; simp
  | exitCtx =>
    cases hd : exitCheck strict cl d with
    | none => simp [mStep, hd] at hm
    | some a => cases a <;> simp [mStep, hd, failM] at hm <;> subst hm <;> simp

/-- a step of the main task at a send-side operation -/
theorem mStep_sendSide (strict : Bool) (c c' : Cfg Req Resp) (op : COp Req) (rest : List (COp Req))
    (ho : c.m.ops = op :: rest) (hop : recvOnly op = false) (hm : mStep strict c = some c') :
    c'.v = c.v ∧ c'.down = c.down ∧ (c.cl.reqDone = true → c'.cl.reqDone = true)
    ∧ (c'.m.ops = [] ∧ c'.s = c.s ∧ c'.cl = c.cl
       ∨ c'.m.ops = rest ∧
          ((∃ x, op = .spawn x ∧ c'.s = c.s ++ x ∧ c'.cl = c.cl)
           ∨ (isSpawn op = false ∧ c'.s = c.s ∧
                ((op = .sendRequest ∨ ∃ m e, op = .send (.message m e)) ∧ c'.cl.reqDone = true
                 ∨ op = .send .endStream ∧ c.cl.reqDone = true ∧ c'.cl.reqDone = true)))) := by
  obtain ⟨cl, ⟨um, ue⟩, d, s, ⟨ops, resp, yielded, result⟩, v⟩ := c
  simp only at ho; subst ho
  cases op with
  | sendRequest =>
    cases hr : cl.reqDone <;> simp [mStep, sendRequest, hr, failM] at hm <;> subst hm <;> simp [isSpawn, hr]
  | send o =>
    cases he : sendEff cl ue o with
    | error x => simp [mStep, sendOp, he, failM] at hm; subst hm; simp
    | ok r =>
      obtain ⟨cl', push, e'⟩ := r
      simp [mStep, sendOp, he] at hm; subst hm
      refine ⟨rfl, rfl, (sendEff_reqDone _ _ _ _ _ _ he).2, Or.inr ⟨rfl, Or.inr ⟨rfl, rfl, ?_⟩⟩⟩
      cases o with
      | message m e => exact Or.inl ⟨Or.inr ⟨m, e, rfl⟩, sendEff_message_reqDone _ _ _ _ _ _ _ he⟩
      | endStream => exact Or.inr ⟨rfl, sendEff_end_reqDone _ _ _ _ _ he⟩
  | spawn x => simp [mStep] at hm; subst hm; simp [isSpawn]
  | assertResponse => simp [recvOnly] at hop
  | returnResponse => simp [recvOnly] at hop
  | recvMessage => simp [recvOnly] at hop
  | iterYield => simp [recvOnly] at hop
  | exitCtx => simp [recvOnly] at hop

theorem vStep_keeps (c c' : Cfg Req Resp) (hv : vStep c = some c') :
    c'.cl = c.cl ∧ c'.s = c.s ∧ c'.m = c.m ∧ c.cl.reqDone = true ∧ c.v.prog.isHalt = false
    ∧ (c'.down.fin.isSome = true → c.down.fin.isSome = false → c'.v.prog.isHalt = true)
    ∧ (c.down.fin.isSome = true → c'.down.fin.isSome = true) ∧ c'.up.ended = c.up.ended
    ∧ (c'.v.sawEnd = true → c.v.sawEnd = true ∨ c.up.ended = true) := by
  obtain ⟨cl, ⟨um, ue⟩, ⟨dm, dh, df⟩, s, m, ⟨prog, calls, hIn, sawEnd⟩⟩ := c
  have hr : cl.reqDone = true := by
    by_cases h : cl.reqDone = true
    · exact h
    · simp [vStep, h] at hv
  v_cases prog um ue <;> simp [vStep, hr] at hv <;> subst hv <;> cases df <;> simp [VProg.isHalt, hr]

/-- the invariant of the runs the uniqueness theorem is about -/
structure Inv (strict : Bool) (c : Cfg Req Resp) : Prop where
  finHalt : c.down.fin.isSome = true → c.v.prog.isHalt = true
  shape : (c.s = [] ∧ good c.cl.reqDone c.m.ops = true) ∨ (c.m.ops.all recvOnly = true ∧ c.cl.reqDone = true)
  noS : strict = true → c.s = [] ∧ c.m.ops.all (fun o => !isSpawn o) = true

theorem recvOnly_not_spawn (op : COp Req) (h : recvOnly op = true) : isSpawn op = false := by
  cases op <;> simp [recvOnly, isSpawn] at h ⊢

theorem inv_mStep (strict : Bool) (c c' : Cfg Req Resp) (hI : Inv strict c) (hm : mStep strict c = some c') :
    Inv strict c' := by
  cases ho : c.m.ops with
  | nil => simp [mStep, ho] at hm
  | cons op rest =>
    cases hop : recvOnly op with
    | true =>
      obtain ⟨h1, h2, h3, h4, h5, h6⟩ := mStep_recvOnly strict c c' op rest ho hop hm
      have hrest : (c.s = [] ∨ c.cl.reqDone = true) ∧ rest.all recvOnly = true := by
        rcases hI.shape with ⟨hs, hg⟩ | ⟨ha, hr⟩
        · rw [ho] at hg
          refine ⟨Or.inl hs, ?_⟩
          cases op <;> first | exact hg | simp [recvOnly] at hop
        · rw [ho, all_cons'] at ha; exact ⟨Or.inr hr, ha.2⟩
      have hall : c'.m.ops.all recvOnly = true := by
        rcases h6 with h | h | h <;> rw [h]
        · exact hrest.2
        · rfl
        · rw [all_cons']; exact ⟨hop, hrest.2⟩
      refine ⟨?_, ?_, ?_⟩
      · rw [h4, h5]; exact hI.finHalt
      · rcases hrest.1 with hs | hr
        · exact Or.inl ⟨by rw [h1]; exact hs, good_of_recvOnly _ _ hall⟩
        · exact Or.inr ⟨hall, by rw [h2]; exact hr⟩
      · intro hst
        obtain ⟨hs, hn⟩ := hI.noS hst
        refine ⟨by rw [h1]; exact hs, ?_⟩
        rw [ho, all_cons'] at hn
        rcases h6 with h | h | h <;> rw [h]
        · exact hn.2
        · rfl
        · rw [all_cons']; exact hn
    | false =>
      obtain ⟨h1, h2, h3, h4⟩ := mStep_sendSide strict c c' op rest ho hop hm
      have hfirst : c.s = [] ∧ good c.cl.reqDone (op :: rest) = true := by
        rcases hI.shape with ⟨hs, hg⟩ | ⟨ha, _⟩
        · rw [ho] at hg; exact ⟨hs, hg⟩
        · rw [ho, all_cons'] at ha; rw [hop] at ha; exact absurd ha.1 (by simp)
      refine ⟨?_, ?_, ?_⟩
      · rw [h1, h2]; exact hI.finHalt
      · rcases h4 with ⟨e1, e2, e3⟩ | ⟨e1, hcase⟩
        · exact Or.inl ⟨by rw [e2]; exact hfirst.1, by rw [e1]; rfl⟩
        · rcases hcase with ⟨x, rfl, e2, e3⟩ | ⟨_, e2, hcase⟩
          · have hg := hfirst.2
            simp only [good, Bool.and_eq_true] at hg
            exact Or.inr ⟨by rw [e1]; exact hg.2, by rw [e3]; exact hg.1⟩
          · refine Or.inl ⟨by rw [e2]; exact hfirst.1, ?_⟩
            rw [e1]
            rcases hcase with ⟨hk, hr'⟩ | ⟨rfl, hr, hr'⟩
            · rw [hr']
              rcases hk with rfl | ⟨m, e, rfl⟩
              · exact hfirst.2
              · exact hfirst.2
            · have hg := hfirst.2
              rw [hr] at hg; rw [hr']; exact hg
      · intro hst
        obtain ⟨hs, hn⟩ := hI.noS hst
        rw [ho, all_cons'] at hn
        rcases h4 with ⟨e1, e2, e3⟩ | ⟨e1, hcase⟩
        · exact ⟨by rw [e2]; exact hs, by rw [e1]; rfl⟩
        · rcases hcase with ⟨x, rfl, e2, e3⟩ | ⟨_, e2, _⟩
          · simp [isSpawn] at hn
          · exact ⟨by rw [e2]; exact hs, by rw [e1]; exact hn.2⟩

theorem inv_sStep (strict : Bool) (c c' : Cfg Req Resp) (hI : Inv strict c) (hs : sStep c = some c') :
    Inv strict c' := by
  obtain ⟨cl, ⟨um, ue⟩, d, s, m, v⟩ := c
  obtain ⟨o, rest, rfl, hcase⟩ := sStep_some _ _ _ _ _ _ _ _ hs
  have h2 : m.ops.all recvOnly = true ∧ cl.reqDone = true := by
    rcases hI.shape with ⟨h, _⟩ | h
    · simp at h
    · exact h
  have hns : strict = false := by
    cases strict with
    | false => rfl
    | true => have := (hI.noS rfl).1; simp at this
  rcases hcase with ⟨cl', push, e', he, rfl⟩ | ⟨x, he, rfl⟩
  · exact ⟨hI.finHalt, Or.inr ⟨h2.1, (sendEff_reqDone _ _ _ _ _ _ he).2 h2.2⟩, by simp [hns]⟩
  · exact ⟨hI.finHalt, Or.inr h2, by simp [hns]⟩

theorem inv_vStep (strict : Bool) (c c' : Cfg Req Resp) (hI : Inv strict c) (hv : vStep c = some c') :
    Inv strict c' := by
  obtain ⟨h1, h2, h3, h4, h5, h6, h7, h8, h9⟩ := vStep_keeps c c' hv
  refine ⟨?_, by rw [h1, h2, h3]; exact hI.shape, by rw [h2, h3]; exact hI.noS⟩
  intro hf
  cases hc : c.down.fin.isSome with
  | false => exact h6 hf hc
  | true => have := hI.finHalt hc; rw [h5] at this; cases this

theorem inv_step (strict : Bool) (t : Task) (c c' : Cfg Req Resp) (hI : Inv strict c)
    (h : step strict t c = some c') : Inv strict c' := by
  cases t with
  | M => exact inv_mStep strict c c' hI h
  | S => exact inv_sStep strict c c' hI h
  | V => exact inv_vStep strict c c' hI h

theorem inv_run (strict : Bool) (σ : List Task) : ∀ c : Cfg Req Resp, Inv strict c → Inv strict (run strict σ c) := by
  induction σ with
  | nil => intro c h; exact h
  | cons t ts ih =>
    intro c h
    simp only [run]
    cases hs : step strict t c with
    | none => exact ih c h
    | some c' => exact ih c' (inv_step strict t c c' h hs)

/-! ### uniqueness of the quiescent state -/

theorem ex_of_eq_isSome {α : Type} (a b : Option α) (h : a = b ∧ b.isSome = true) : ∃ d, a = some d ∧ b = some d := by
  obtain ⟨h1, h2⟩ := h
  cases b with
  | none => simp at h2
  | some d => exact ⟨d, h1, rfl⟩

theorem diamond (strict : Bool) (c : Cfg Req Resp) (hI : Inv strict c) (t u : Task) (htu : t ≠ u)
    (ct cu : Cfg Req Resp) (ht : step strict t c = some ct) (hu : step strict u c = some cu) :
    ∃ d, step strict u ct = some d ∧ step strict t cu = some d := by
  have hMS : ∀ cm cs, mStep strict c = some cm → sStep c = some cs →
      ∃ d, sStep cm = some d ∧ mStep strict cs = some d := by
    intro cm cs hm hs
    have hne : c.s ≠ [] := by
      intro h; simp [sStep, h] at hs
    have hst : strict = false := by
      cases strict with
      | false => rfl
      | true => exact absurd (hI.noS rfl).1 hne
    subst hst
    rcases hI.shape with ⟨h, _⟩ | ⟨ha, hr⟩
    · exact absurd h hne
    · exact ex_of_eq_isSome _ _ (diamond_MS c cm cs ha hr hm hs)
  have hMV : ∀ cm cv, mStep strict c = some cm → vStep c = some cv →
      ∃ d, vStep cm = some d ∧ mStep strict cv = some d :=
    fun cm cv hm hv => ex_of_eq_isSome _ _ (diamond_MV strict c cm cv hI.finHalt hm hv)
  have hSV : ∀ cs cv, sStep c = some cs → vStep c = some cv →
      ∃ d, vStep cs = some d ∧ sStep cv = some d :=
    fun cs cv hs hv => ex_of_eq_isSome _ _ (diamond_SV c cs cv hs hv)
  cases t <;> cases u <;> simp only [step] at ht hu ⊢
  · exact absurd rfl htu
  · exact hMS _ _ ht hu
  · exact hMV _ _ ht hu
  · obtain ⟨d, h1, h2⟩ := hMS _ _ hu ht; exact ⟨d, h2, h1⟩
  · exact absurd rfl htu
  · exact hSV _ _ ht hu
  · obtain ⟨d, h1, h2⟩ := hMV _ _ hu ht; exact ⟨d, h2, h1⟩
  · obtain ⟨d, h1, h2⟩ := hSV _ _ hu ht; exact ⟨d, h2, h1⟩
  · exact absurd rfl htu

/-- no task can take a step -/
def Quiet (strict : Bool) (c : Cfg Req Resp) : Prop := ∀ t, step strict t c = none

theorem quiet_iff (strict : Bool) (c : Cfg Req Resp) : Quiet strict c ↔ quiescent strict c = true := by
  constructor
  · intro h
    have h1 := h .M; have h2 := h .S; have h3 := h .V
    simp only [step] at h1 h2 h3
    simp [quiescent, h1, h2, h3]
  · intro h t
    simp only [quiescent, Bool.and_eq_true, Option.isNone_iff_eq_none] at h
    cases t <;> simp [step, h.1.1, h.1.2, h.2]

theorem run_quiet (strict : Bool) (σ : List Task) (c : Cfg Req Resp) (h : Quiet strict c) : run strict σ c = c := by
  induction σ with
  | nil => rfl
  | cons t ts ih => simp [run, h t, ih]

/-- a task that can step at `c` has stepped somewhere in any schedule that ends quiescent: the schedule can be
    reordered to let it step first -/
theorem pull_front (strict : Bool) (t : Task) (σ : List Task) :
    ∀ (c c' : Cfg Req Resp), Inv strict c → step strict t c = some c' → Quiet strict (run strict σ c) →
      ∃ σ', run strict σ' c' = run strict σ c := by
  induction σ with
  | nil =>
    intro c c' _ ht hq
    simp only [run] at hq
    rw [hq t] at ht; cases ht
  | cons u us ih =>
    intro c c' hI ht hq
    by_cases hut : u = t
    · subst hut
      exact ⟨us, by simp [run, ht]⟩
    · cases hu : step strict u c with
      | none =>
        simp only [run, hu] at hq ⊢
        exact ih c c' hI ht hq
      | some cu =>
        simp only [run, hu] at hq ⊢
        obtain ⟨d, h1, h2⟩ := diamond strict c hI u t hut cu c' hu ht
        obtain ⟨σ', hσ'⟩ := ih cu d (inv_step strict u c cu hI hu) h1 hq
        exact ⟨u :: σ', by simp [run, h2, hσ']⟩

/-- **all schedules that end with no task able to step end in the same state** -/
theorem run_unique (strict : Bool) (σ1 : List Task) :
    ∀ (c : Cfg Req Resp) (σ2 : List Task), Inv strict c → Quiet strict (run strict σ1 c) → Quiet strict (run strict σ2 c) →
      run strict σ1 c = run strict σ2 c := by
  induction σ1 with
  | nil =>
    intro c σ2 _ h1 _
    simp only [run] at h1 ⊢
    exact (run_quiet strict σ2 c h1).symm
  | cons t ts ih =>
    intro c σ2 hI h1 h2
    cases ht : step strict t c with
    | none =>
      simp only [run, ht] at h1 ⊢
      exact ih c σ2 hI h1 h2
    | some c' =>
      simp only [run, ht] at h1 ⊢
      obtain ⟨σ', hσ'⟩ := pull_front strict t σ2 c c' hI ht h2
      rw [← hσ'] at h2 ⊢
      exact ih c' σ' (inv_step strict t c c' hI ht) h1 h2

/-! ### the canonical schedule is a schedule -/

def Reach (strict : Bool) (c c' : Cfg Req Resp) : Prop := ∃ σ, run strict σ c = c'

theorem run_append (strict : Bool) (σ1 σ2 : List Task) (c : Cfg Req Resp) :
    run strict (σ1 ++ σ2) c = run strict σ2 (run strict σ1 c) := by
  induction σ1 generalizing c with
  | nil => rfl
  | cons t ts ih => simp only [List.cons_append, run]; cases step strict t c <;> exact ih _

theorem Reach.refl (strict : Bool) (c : Cfg Req Resp) : Reach strict c c := ⟨[], rfl⟩
theorem Reach.trans {strict : Bool} {a b c : Cfg Req Resp} (h1 : Reach strict a b) (h2 : Reach strict b c) :
    Reach strict a c := by
  obtain ⟨σ1, rfl⟩ := h1; obtain ⟨σ2, rfl⟩ := h2; exact ⟨σ1 ++ σ2, run_append strict σ1 σ2 a⟩
theorem Reach.step {strict : Bool} {a b : Cfg Req Resp} (t : Task) (h : step strict t a = some b) : Reach strict a b :=
  ⟨[t], by simp [run, h]⟩

theorem mRun_ops_irrel (strict : Bool) (ops : List (COp Req)) :
    ∀ (cl : Client) (up : Up Req) (d : Down Resp) (s : List (SOp Req)) (x y : List (COp Req)) (resp : Option Resp)
      (yl : List Resp) (res : Option (CResult Resp)) (v : VSt Req Resp),
      mRun strict ops ⟨cl, up, d, s, ⟨x, resp, yl, res⟩, v⟩ = mRun strict ops ⟨cl, up, d, s, ⟨y, resp, yl, res⟩, v⟩ := by
  induction ops with
  | nil => intros; rfl
  | cons op rest ih =>
    intro cl up d s x y resp yl res v
    cases op with
    | sendRequest => simp only [mRun]; cases sendRequest cl <;> simp [failM, ih _ _ _ _ x y]
    | send o => simp only [mRun]; cases sendOp cl up o <;> simp [failM, ih _ _ _ _ x y]
    | spawn z => simp only [mRun]; exact ih _ _ _ _ x y _ _ _ _
    | recvMessage =>
      simp only [mRun]
      cases cl.reqDone <;> simp [failM]
      cases downRecv d with
      | none => rfl
      | some a => cases a <;> simp [failM, ih _ _ _ _ x y]
    | iterYield =>
      simp only [mRun]
      cases cl.reqDone <;> simp [failM]
      cases downRecv ({ d with msgs := [] } : Down Resp) with
      | none => rfl
      | some a => cases a <;> simp [failM, ih _ _ _ _ x y]
    | exitCtx =>
      simp only [mRun]
      cases exitCheck strict cl d with
      | none => rfl
      | some a => cases a <;> simp [failM, ih _ _ _ _ x y]
    | assertResponse => simp only [mRun]; cases resp <;> simp [failM, ih _ _ _ _ x y]
    | returnResponse => simp only [mRun]

theorem iter_reach (strict : Bool) (msgs : List Resp) :
    ∀ (cl : Client) (up : Up Req) (dh : Bool) (df : Option (Option GErr)) (s : List (SOp Req)) (rest : List (COp Req))
      (resp : Option Resp) (yl : List Resp) (res : Option (CResult Resp)) (v : VSt Req Resp), cl.reqDone = true →
      Reach strict ⟨cl, up, ⟨msgs, dh, df⟩, s, ⟨.iterYield :: rest, resp, yl, res⟩, v⟩
        ⟨cl, up, ⟨[], dh, df⟩, s, ⟨.iterYield :: rest, resp, yl ++ msgs, res⟩, v⟩ := by
  induction msgs with
  | nil => intro cl up dh df s rest resp yl res v _; simp; exact Reach.refl _ _
  | cons x xs ih =>
    intro cl up dh df s rest resp yl res v hr
    have h1 : step strict .M (⟨cl, up, ⟨x :: xs, dh, df⟩, s, ⟨.iterYield :: rest, resp, yl, res⟩, v⟩ : Cfg Req Resp)
        = some ⟨cl, up, ⟨xs, dh, df⟩, s, ⟨.iterYield :: rest, resp, yl ++ [x], res⟩, v⟩ := by
      simp [step, mStep, hr, downRecv]
    have h2 := ih cl up dh df s rest resp (yl ++ [x]) res v hr
    simp only [List.append_assoc, List.singleton_append] at h2
    exact (Reach.step .M h1).trans h2

theorem mStep_nil (strict : Bool) (c : Cfg Req Resp) (h : c.m.ops = []) : mStep strict c = none := by
  simp [mStep, h]

theorem mRun_reach (strict : Bool) (ops : List (COp Req)) :
    ∀ (cl : Client) (up : Up Req) (d : Down Resp) (s : List (SOp Req)) (resp : Option Resp) (yl : List Resp)
      (res : Option (CResult Resp)) (v : VSt Req Resp),
      Reach strict ⟨cl, up, d, s, ⟨ops, resp, yl, res⟩, v⟩ (mRun strict ops ⟨cl, up, d, s, ⟨ops, resp, yl, res⟩, v⟩)
      ∧ mStep strict (mRun strict ops ⟨cl, up, d, s, ⟨ops, resp, yl, res⟩, v⟩) = none := by
  induction ops with
  | nil => intro cl up d s resp yl res v; exact ⟨Reach.refl _ _, mStep_nil _ _ rfl⟩
  | cons op rest ih =>
    intro cl up d s resp yl res v
    -- one step, then the induction hypothesis at the next configuration
    have next : ∀ (c1 : Cfg Req Resp) (cl' : Client) (up' : Up Req) (d' : Down Resp) (s' : List (SOp Req))
        (resp' : Option Resp) (yl' : List Resp),
        Reach strict ⟨cl, up, d, s, ⟨op :: rest, resp, yl, res⟩, v⟩ ⟨cl', up', d', s', ⟨rest, resp', yl', res⟩, v⟩ →
        Reach strict ⟨cl, up, d, s, ⟨op :: rest, resp, yl, res⟩, v⟩
            (mRun strict rest ⟨cl', up', d', s', ⟨op :: rest, resp', yl', res⟩, v⟩)
          ∧ mStep strict (mRun strict rest ⟨cl', up', d', s', ⟨op :: rest, resp', yl', res⟩, v⟩) = none := by
      intro _ cl' up' d' s' resp' yl' hreach
      rw [mRun_ops_irrel strict rest cl' up' d' s' (op :: rest) rest]
      exact ⟨hreach.trans (ih cl' up' d' s' resp' yl' res v).1, (ih cl' up' d' s' resp' yl' res v).2⟩
    have c0 : Cfg Req Resp := ⟨cl, up, d, s, ⟨op :: rest, resp, yl, res⟩, v⟩
    cases op with
    | sendRequest =>
      cases hq : sendRequest cl with
      | ok cl' =>
        simp only [mRun, hq]
        exact next c0 cl' up d s resp yl (Reach.step .M (by simp [step, mStep, hq]))
      | error e =>
        simp only [mRun, hq]
        exact ⟨Reach.step .M (by simp [step, mStep, hq]), mStep_nil _ _ rfl⟩
    | send o =>
      cases hq : sendOp cl up o with
      | ok r =>
        obtain ⟨cl', up'⟩ := r
        simp only [mRun, hq]
        exact next c0 cl' up' d s resp yl (Reach.step .M (by simp [step, mStep, hq]))
      | error e =>
        simp only [mRun, hq]
        exact ⟨Reach.step .M (by simp [step, mStep, hq]), mStep_nil _ _ rfl⟩
    | spawn x =>
      simp only [mRun]
      exact next c0 cl up d (s ++ x) resp yl (Reach.step .M (by simp [step, mStep]))
    | assertResponse =>
      cases resp with
      | none =>
        simp only [mRun]
        exact ⟨Reach.step .M (by simp [step, mStep]), mStep_nil _ _ rfl⟩
      | some x =>
        simp only [mRun]
        exact next c0 cl up d s (some x) yl (Reach.step .M (by simp [step, mStep]))
    | returnResponse =>
      simp only [mRun]
      exact ⟨Reach.step .M (by simp [step, mStep]), mStep_nil _ _ rfl⟩
    | recvMessage =>
      cases hr : cl.reqDone with
      | false =>
        simp only [mRun, hr]
        exact ⟨Reach.step .M (by simp [step, mStep, hr]), mStep_nil _ _ rfl⟩
      | true =>
        cases hd : downRecv d with
        | none =>
          simp only [mRun, hr, hd]
          exact ⟨Reach.refl _ _, by simp [mStep, hr, hd]⟩
        | some a =>
          cases a with
          | msg r d' =>
            simp only [mRun, hr, hd]
            exact next c0 cl up d' s (some r) yl (Reach.step .M (by simp [step, mStep, hr, hd]))
          | eof =>
            simp only [mRun, hr, hd]
            exact next c0 cl up d s none yl (Reach.step .M (by simp [step, mStep, hr, hd]))
          | err e =>
            simp only [mRun, hr, hd]
            exact ⟨Reach.step .M (by simp [step, mStep, hr, hd]), mStep_nil _ _ rfl⟩
    | iterYield =>
      cases hr : cl.reqDone with
      | false =>
        simp only [mRun, hr]
        exact ⟨Reach.step .M (by simp [step, mStep, hr]), mStep_nil _ _ rfl⟩
      | true =>
        obtain ⟨dm, dh, df⟩ := d
        have hit := iter_reach strict dm cl up dh df s rest resp yl res v hr
        cases hd : downRecv (⟨[], dh, df⟩ : Down Resp) with
        | none =>
          simp only [mRun, hr, hd]
          exact ⟨hit, by simp [mStep, hr, hd]⟩
        | some a =>
          cases a with
          | msg r d' => simp [downRecv] at hd; cases df with
            | none => simp at hd
            | some f => cases f <;> simp at hd <;> split at hd <;> simp at hd
          | eof =>
            simp only [mRun, hr, hd]
            exact next c0 cl up ⟨[], dh, df⟩ s resp (yl ++ dm) (hit.trans (Reach.step .M (by simp [step, mStep, hr, hd])))
          | err e =>
            simp only [mRun, hr, hd]
            exact ⟨hit.trans (Reach.step .M (by simp [step, mStep, hr, hd])), mStep_nil _ _ rfl⟩
    | exitCtx =>
      cases hd : exitCheck strict cl d with
      | none =>
        simp only [mRun, hd]
        exact ⟨Reach.refl _ _, by simp [mStep, hd]⟩
      | some a =>
        cases a with
        | none =>
          simp only [mRun, hd]
          exact next c0 cl up d s resp yl (Reach.step .M (by simp [step, mStep, hd]))
        | some r =>
          simp only [mRun, hd]
          exact ⟨Reach.step .M (by simp [step, mStep, hd]), mStep_nil _ _ rfl⟩

theorem sRun_reach (strict : Bool) (s : List (SOp Req)) :
    ∀ (cl : Client) (up : Up Req) (d : Down Resp) (m : MSt Req Resp) (v : VSt Req Resp),
      Reach strict ⟨cl, up, d, s, m, v⟩ ⟨(sRunL s cl up).1, (sRunL s cl up).2, d, [], m, v⟩ := by
  induction s with
  | nil => intro cl up d m v; exact Reach.refl _ _
  | cons o rest ih =>
    intro cl up d m v
    cases hq : sendOp cl up o with
    | ok r =>
      obtain ⟨cl', up'⟩ := r
      simp only [sRunL, hq]
      exact (Reach.step .S (by simp [step, sStep, hq])).trans (ih cl' up' d m v)
    | error e =>
      simp only [sRunL, hq]
      exact Reach.step .S (by simp [step, sStep, hq])

theorem vRun_prog_irrel (p : VProg Req Resp) :
    ∀ (cl : Client) (up : Up Req) (d : Down Resp) (s : List (SOp Req)) (m : MSt Req Resp) (x y : VProg Req Resp)
      (calls : Nat) (hIn : List (Option Req)) (se : Bool),
      vRun p ⟨cl, up, d, s, m, ⟨x, calls, hIn, se⟩⟩ = vRun p ⟨cl, up, d, s, m, ⟨y, calls, hIn, se⟩⟩ := by
  induction p with
  | halt => intros; rfl
  | fin f => intros; rfl
  | call arg k ih => intro cl up d s m x y calls hIn se; simp only [vRun]; exact ih _ _ _ _ _ x y _ _ _
  | send r k ih => intro cl up d s m x y calls hIn se; simp only [vRun]; exact ih _ _ _ _ _ x y _ _ _
  | recvA k ih =>
    intro cl up d s m x y calls hIn se
    obtain ⟨um, ue⟩ := up
    cases um with
    | cons a as => simp only [vRun]; exact ih _ _ _ _ _ _ x y _ _ _
    | nil => cases ue <;> simp only [vRun] <;> simp <;> exact ih _ _ _ _ _ _ x y _ _ _
  | recvH k ih =>
    intro cl up d s m x y calls hIn se
    obtain ⟨um, ue⟩ := up
    cases um with
    | cons a as => simp only [vRun]; exact ih _ _ _ _ _ _ x y _ _ _
    | nil => cases ue <;> simp only [vRun] <;> simp <;> exact ih _ _ _ _ _ _ x y _ _ _

theorem vRun_reach (strict : Bool) (p : VProg Req Resp) :
    ∀ (cl : Client) (up : Up Req) (d : Down Resp) (s : List (SOp Req)) (m : MSt Req Resp)
      (calls : Nat) (hIn : List (Option Req)) (se : Bool), cl.reqDone = true →
      Reach strict ⟨cl, up, d, s, m, ⟨p, calls, hIn, se⟩⟩ (vRun p ⟨cl, up, d, s, m, ⟨p, calls, hIn, se⟩⟩)
      ∧ vStep (vRun p ⟨cl, up, d, s, m, ⟨p, calls, hIn, se⟩⟩) = none := by
  induction p with
  | halt => intro cl up d s m calls hIn se hr; exact ⟨Reach.refl _ _, by simp [vRun, vStep, hr]⟩
  | fin f =>
    intro cl up d s m calls hIn se hr
    exact ⟨Reach.step .V (by simp [step, vStep, hr, vRun]), by simp [vRun, vStep, hr]⟩
  | call arg k ih =>
    intro cl up d s m calls hIn se hr
    simp only [vRun]
    rw [vRun_prog_irrel k _ _ _ _ _ (.call arg k) k]
    have h := ih cl up d s m (calls + 1) (hIn ++ arg.toList) se hr
    exact ⟨(Reach.step .V (by simp [step, vStep, hr])).trans h.1, h.2⟩
  | send r k ih =>
    intro cl up d s m calls hIn se hr
    simp only [vRun]
    rw [vRun_prog_irrel k _ _ _ _ _ (.send r k) k]
    have h := ih cl up { d with msgs := d.msgs ++ [r], hdrs := true } s m calls hIn se hr
    exact ⟨(Reach.step .V (by simp [step, vStep, hr])).trans h.1, h.2⟩
  | recvA k ih =>
    intro cl up d s m calls hIn se hr
    obtain ⟨um, ue⟩ := up
    cases um with
    | cons a as =>
      simp only [vRun]
      rw [vRun_prog_irrel (k (some a)) _ _ _ _ _ (.recvA k) (k (some a))]
      have h := ih (some a) cl ⟨as, ue⟩ d s m calls hIn se hr
      exact ⟨(Reach.step .V (by simp [step, vStep, hr])).trans h.1, h.2⟩
    | nil =>
      cases ue with
      | false => simp only [vRun]; exact ⟨Reach.refl _ _, by simp [vStep, hr]⟩
      | true =>
        simp only [vRun]; simp only [if_true]
        rw [vRun_prog_irrel (k none) _ _ _ _ _ (.recvA k) (k none)]
        have h := ih none cl ⟨[], true⟩ d s m calls hIn true hr
        exact ⟨(Reach.step .V (by simp [step, vStep, hr])).trans h.1, h.2⟩
  | recvH k ih =>
    intro cl up d s m calls hIn se hr
    obtain ⟨um, ue⟩ := up
    cases um with
    | cons a as =>
      simp only [vRun]
      rw [vRun_prog_irrel (k (some a)) _ _ _ _ _ (.recvH k) (k (some a))]
      have h := ih (some a) cl ⟨as, ue⟩ d s m calls (hIn ++ [some a]) se hr
      exact ⟨(Reach.step .V (by simp [step, vStep, hr])).trans h.1, h.2⟩
    | nil =>
      cases ue with
      | false => simp only [vRun]; exact ⟨Reach.refl _ _, by simp [vStep, hr]⟩
      | true =>
        simp only [vRun]; simp only [if_true]
        rw [vRun_prog_irrel (k none) _ _ _ _ _ (.recvH k) (k none)]
        have h := ih none cl ⟨[], true⟩ d s m calls (hIn ++ [none]) true hr
        exact ⟨(Reach.step .V (by simp [step, vStep, hr])).trans h.1, h.2⟩

/-- what is left of the main task's program after `mRun` is a final segment of it -/
theorem mRun_ops_all (strict : Bool) (p : COp Req → Bool) (ops : List (COp Req)) :
    ∀ (c : Cfg Req Resp), ops.all p = true → (mRun strict ops c).m.ops.all p = true := by
  induction ops with
  | nil => intro c _; rfl
  | cons op rest ih =>
    intro c h
    have hr : rest.all p = true := by rw [all_cons'] at h; exact h.2
    cases op with
    | sendRequest => simp only [mRun]; cases sendRequest c.cl <;> simp [failM, -List.all_eq_true, ih _ hr]
    | send o => simp only [mRun]; cases sendOp c.cl c.up o <;> simp [failM, -List.all_eq_true, ih _ hr]
    | spawn z => simp only [mRun]; exact ih _ hr
    | recvMessage =>
      simp only [mRun]
      cases c.cl.reqDone <;> simp [failM, -List.all_eq_true]
      cases downRecv c.down with
      | none => exact h
      | some a => cases a <;> simp [failM, -List.all_eq_true, ih _ hr]
    | iterYield =>
      simp only [mRun]
      cases c.cl.reqDone <;> simp [failM, -List.all_eq_true]
      cases downRecv ({ c.down with msgs := [] } : Down Resp) with
      | none => exact h
      | some a => cases a <;> simp [failM, -List.all_eq_true, ih _ hr, h]
    | exitCtx =>
      simp only [mRun]
      cases exitCheck strict c.cl c.down with
      | none => exact h
      | some a => cases a <;> simp [failM, -List.all_eq_true, ih _ hr]
    | assertResponse => simp only [mRun]; cases c.m.resp.isSome <;> simp [failM, -List.all_eq_true, ih _ hr]
    | returnResponse => simp [mRun]

theorem mRun_good (strict : Bool) (ops : List (COp Req)) :
    ∀ (b : Bool) (c : Cfg Req Resp), good b ops = true → (mRun strict ops c).m.ops.all recvOnly = true := by
  induction ops with
  | nil => intro b c _; rfl
  | cons op rest ih =>
    intro b c h
    cases op with
    | sendRequest => simp only [mRun]; cases sendRequest c.cl <;> simp [failM, -List.all_eq_true, ih true _ h]
    | send o =>
      have h' : good true rest = true := by
        cases o with
        | message m e => exact h
        | endStream => exact good_true _ _ h
      simp only [mRun]; cases sendOp c.cl c.up o <;> simp [failM, -List.all_eq_true, ih true _ h']
    | spawn z =>
      simp only [good, Bool.and_eq_true] at h
      simp only [mRun]; exact mRun_ops_all strict recvOnly rest _ h.2
    | recvMessage => exact mRun_ops_all strict recvOnly _ _ (by rw [all_cons']; exact ⟨rfl, h⟩)
    | iterYield => exact mRun_ops_all strict recvOnly _ _ (by rw [all_cons']; exact ⟨rfl, h⟩)
    | exitCtx => exact mRun_ops_all strict recvOnly _ _ (by rw [all_cons']; exact ⟨rfl, h⟩)
    | assertResponse => exact mRun_ops_all strict recvOnly _ _ (by rw [all_cons']; exact ⟨rfl, h⟩)
    | returnResponse => exact mRun_ops_all strict recvOnly _ _ (by rw [all_cons']; exact ⟨rfl, h⟩)

/-- receive-side operations leave the outgoing direction, the client flags, the sender and the server alone -/
theorem mRun_recvOnly_frame (strict : Bool) (ops : List (COp Req)) :
    ∀ (c : Cfg Req Resp), ops.all recvOnly = true →
      (mRun strict ops c).s = c.s ∧ (mRun strict ops c).cl = c.cl ∧ (mRun strict ops c).up = c.up
      ∧ (mRun strict ops c).v = c.v := by
  induction ops with
  | nil => intro c _; simp [mRun]
  | cons op rest ih =>
    intro c h
    rw [all_cons'] at h
    obtain ⟨hop, hr⟩ := h
    cases op with
    | sendRequest => simp [recvOnly] at hop
    | send o => simp [recvOnly] at hop
    | spawn z => simp [recvOnly] at hop
    | recvMessage =>
      simp only [mRun]
      cases c.cl.reqDone <;> simp [failM]
      cases downRecv c.down with
      | none => simp
      | some a => cases a <;> simp [failM] <;> exact ih _ hr
    | iterYield =>
      simp only [mRun]
      cases c.cl.reqDone <;> simp [failM]
      cases downRecv ({ c.down with msgs := [] } : Down Resp) with
      | none => simp
      | some a => cases a <;> simp [failM] <;> exact ih _ hr
    | exitCtx =>
      simp only [mRun]
      cases exitCheck strict c.cl c.down with
      | none => simp
      | some a => cases a <;> simp [failM] <;> exact ih _ hr
    | assertResponse => simp only [mRun]; cases c.m.resp.isSome <;> simp [failM] <;> exact ih _ hr
    | returnResponse => simp [mRun]

theorem vStep_congr (c1 c2 : Cfg Req Resp) (h1 : c1.cl = c2.cl) (h2 : c1.up = c2.up) (h3 : c1.v = c2.v)
    (h : vStep c2 = none) : vStep c1 = none := by
  obtain ⟨cl, ⟨um, ue⟩, d, s, m, ⟨prog, calls, hIn, se⟩⟩ := c1
  obtain ⟨cl2, up2, d2, s2, m2, v2⟩ := c2
  simp only at h1 h2 h3; subst h1 h2 h3
  cases hr : cl.reqDone with
  | false => simp [vStep, hr]
  | true => v_cases prog um ue <;> simp [vStep, hr] at h ⊢

theorem canon_reach (strict : Bool) (c : Cfg Req Resp) : Reach strict c (canon strict c) := by
  have eM : ∀ c : Cfg Req Resp, Reach strict c (mRunC strict c) := by
    intro c; obtain ⟨cl, up, d, s, ⟨ops, resp, yl, res⟩, v⟩ := c
    exact (mRun_reach strict ops cl up d s resp yl res v).1
  have eS : ∀ c : Cfg Req Resp, Reach strict c (sRun c) := by
    intro c; obtain ⟨cl, up, d, s, m, v⟩ := c
    exact sRun_reach strict s cl up d m v
  have eV : ∀ c : Cfg Req Resp, Reach strict c (vRunG c) := by
    intro c; obtain ⟨cl, up, d, s, m, ⟨p, calls, hIn, se⟩⟩ := c
    cases hr : cl.reqDone with
    | false => simp only [vRunG, hr]; exact Reach.refl _ _
    | true => simp only [vRunG, hr]; exact (vRun_reach strict p cl up d s m calls hIn se hr).1
  exact ((eM c).trans (eS _)).trans ((eV _).trans (eM _))

theorem vRun_frame (p : VProg Req Resp) :
    ∀ c : Cfg Req Resp, (vRun p c).m = c.m ∧ (vRun p c).s = c.s ∧ (vRun p c).cl = c.cl := by
  induction p with
  | halt => intro c; simp [vRun]
  | fin f => intro c; simp [vRun]
  | call a k ih => intro c; simp only [vRun]; exact ih _
  | send r k ih => intro c; simp only [vRun]; exact ih _
  | recvA k ih =>
    intro c; obtain ⟨cl, ⟨um, ue⟩, d, s, m, v⟩ := c
    cases um with
    | cons a as => simp only [vRun]; exact ih _ _
    | nil => cases ue <;> simp only [vRun] <;> simp <;> exact ih _ _
  | recvH k ih =>
    intro c; obtain ⟨cl, ⟨um, ue⟩, d, s, m, v⟩ := c
    cases um with
    | cons a as => simp only [vRun]; exact ih _ _
    | nil => cases ue <;> simp only [vRun] <;> simp <;> exact ih _ _

theorem vRunG_frame (c : Cfg Req Resp) : (vRunG c).m = c.m ∧ (vRunG c).s = c.s ∧ (vRunG c).cl = c.cl := by
  unfold vRunG
  cases c.cl.reqDone
  · simp
  · simp only [if_true]; exact vRun_frame _ _

/-- for a program of the shape `good` the canonical schedule ends with no task able to step -/
theorem canon_quiet (strict : Bool) (c : Cfg Req Resp) (hg : good c.cl.reqDone c.m.ops = true) :
    Quiet strict (canon strict c) := by
  -- after the first phase only receive-side operations are left
  have h1 : (mRunC strict c).m.ops.all recvOnly = true := mRun_good strict _ _ _ hg
  let c2 := vRunG (sRun (mRunC strict c))
  have hm2 : c2.m = (mRunC strict c).m := by
    show (vRunG (sRun (mRunC strict c))).m = _
    rw [(vRunG_frame _).1]; rfl
  have hs2 : c2.s = [] := by
    show (vRunG (sRun (mRunC strict c))).s = _
    rw [(vRunG_frame _).2.1]; rfl
  have hv2 : vStep c2 = none := by
    show vStep (vRunG (sRun (mRunC strict c))) = none
    generalize sRun (mRunC strict c) = c1
    obtain ⟨cl, up, d, s, m, ⟨p, calls, hIn, se⟩⟩ := c1
    cases hr : cl.reqDone with
    | false => simp [vRunG, hr, vStep]
    | true => simp only [vRunG, hr]; exact (vRun_reach strict p cl up d s m calls hIn se hr).2
  have h2 : c2.m.ops.all recvOnly = true := by rw [hm2]; exact h1
  have hfr := mRun_recvOnly_frame strict c2.m.ops c2 h2
  have hmq : mStep strict (mRunC strict c2) = none := by
    obtain ⟨cl, up, d, s, ⟨ops, resp, yl, res⟩, v⟩ := c2
    exact (mRun_reach strict ops cl up d s resp yl res v).2
  intro t
  show step strict t (mRunC strict c2) = none
  cases t with
  | M => exact hmq
  | S => simp only [step, sStep, mRunC, hfr.1, hs2]
  | V => exact vStep_congr _ c2 hfr.2.1 hfr.2.2.1 hfr.2.2.2 hv2

/-! ### every schedule ends like the canonical one -/

theorem inv_initV {α : Type} (strict : Bool) (p : ClientProg Req α) (v : VProg Req Resp)
    (hg : good false p.ops = true) (hs : strict = true → p.ops.all (fun o => !isSpawn o) = true) :
    Inv strict (initV p v) :=
  ⟨by simp [initV], Or.inl ⟨rfl, hg⟩, fun h => ⟨rfl, hs h⟩⟩

theorem inv_good (strict : Bool) (c : Cfg Req Resp) (hI : Inv strict c) : good c.cl.reqDone c.m.ops = true := by
  rcases hI.shape with ⟨_, h⟩ | ⟨h, _⟩
  · exact h
  · exact good_of_recvOnly _ _ h

/-- **all schedules end like the canonical one** (from a configuration of the invariant) -/
theorem run_eq_canon (strict : Bool) (c : Cfg Req Resp) (hI : Inv strict c) (σ : List Task)
    (hq : Quiet strict (run strict σ c)) : run strict σ c = canon strict c := by
  obtain ⟨σc, hσc⟩ := canon_reach strict c
  have hqc : Quiet strict (run strict σc c) := by rw [hσc]; exact canon_quiet strict c (inv_good strict c hI)
  rw [← hσc]
  exact run_unique strict σ c σc hI hq hqc

/-! ### the check "outgoing stream was ended" when the `async with` block is left -/

/-- the flags say "ended" whenever END_STREAM has gone out; the server saw the end only if it has -/
structure Inv2 (c : Cfg Req Resp) : Prop where
  endOk : c.up.ended = true → endedOk c.cl = true
  sawEnd : c.v.sawEnd = true → c.up.ended = true

theorem sendEff_ended_ok (cl cl' : Client) (e e' : Bool) (o : SOp Req) (push : List Req)
    (h : sendEff cl e o = .ok (cl', push, e')) (h1 : e = true → endedOk cl = true) :
    (e' = true → endedOk cl' = true) ∧ (e = true → e' = true) := by
  cases o <;> simp only [sendEff] at h <;> (repeat' split at h) <;> simp_all [endedOk] <;>
    (obtain ⟨h1, h2, h3⟩ := h; subst h1; subst h3; simp_all)

theorem inv2_sStep (c c' : Cfg Req Resp) (hJ : Inv2 c) (hs : sStep c = some c') : Inv2 c' := by
  obtain ⟨cl, ⟨um, ue⟩, d, s, m, v⟩ := c
  obtain ⟨o, rest, rfl, hcase⟩ := sStep_some _ _ _ _ _ _ _ _ hs
  rcases hcase with ⟨cl', push, e', he, rfl⟩ | ⟨x, he, rfl⟩
  · have := sendEff_ended_ok _ _ _ _ _ _ he hJ.endOk
    exact ⟨this.1, fun h => this.2 (hJ.sawEnd h)⟩
  · exact ⟨hJ.endOk, hJ.sawEnd⟩

theorem inv2_vStep (c c' : Cfg Req Resp) (hJ : Inv2 c) (hv : vStep c = some c') : Inv2 c' := by
  obtain ⟨h1, h2, h3, h4, h5, h6, h7, h8, h9⟩ := vStep_keeps c c' hv
  refine ⟨by rw [h1, h8]; exact hJ.endOk, ?_⟩
  intro h; rw [h8]
  rcases h9 h with h | h
  · exact hJ.sawEnd h
  · exact h

theorem inv2_mStep (strict : Bool) (c c' : Cfg Req Resp) (hJ : Inv2 c) (hm : mStep strict c = some c') : Inv2 c' := by
  cases ho : c.m.ops with
  | nil => simp [mStep, ho] at hm
  | cons op rest =>
    cases hop : recvOnly op with
    | true =>
      obtain ⟨h1, h2, h3, h4, h5, h6⟩ := mStep_recvOnly strict c c' op rest ho hop hm
      exact ⟨by rw [h2, h3]; exact hJ.endOk, by rw [h3, h4]; exact hJ.sawEnd⟩
    | false =>
      obtain ⟨cl, ⟨um, ue⟩, d, s, ⟨ops, resp, yielded, result⟩, v⟩ := c
      simp only at ho; subst ho
      cases op with
      | sendRequest =>
        cases hr : cl.reqDone <;> simp [mStep, sendRequest, hr, failM] at hm <;> subst hm
        · exact ⟨by have := hJ.endOk; simpa [endedOk] using this, hJ.sawEnd⟩
        · exact ⟨hJ.endOk, hJ.sawEnd⟩
      | send o =>
        cases he : sendEff cl ue o with
        | error x => simp [mStep, sendOp, he, failM] at hm; subst hm; exact ⟨hJ.endOk, hJ.sawEnd⟩
        | ok r =>
          obtain ⟨cl', push, e'⟩ := r
          simp [mStep, sendOp, he] at hm; subst hm
          have := sendEff_ended_ok _ _ _ _ _ _ he hJ.endOk
          exact ⟨this.1, fun h => this.2 (hJ.sawEnd h)⟩
      | spawn x => simp [mStep] at hm; subst hm; exact ⟨hJ.endOk, hJ.sawEnd⟩
      | assertResponse => simp [recvOnly] at hop
      | returnResponse => simp [recvOnly] at hop
      | recvMessage => simp [recvOnly] at hop
      | iterYield => simp [recvOnly] at hop
      | exitCtx => simp [recvOnly] at hop

theorem inv2_run (strict : Bool) (σ : List Task) : ∀ c : Cfg Req Resp, Inv2 c → Inv2 (run strict σ c) := by
  induction σ with
  | nil => intro c h; exact h
  | cons t ts ih =>
    intro c h
    simp only [run]
    cases hs : step strict t c with
    | none => exact ih c h
    | some c' =>
      refine ih c' ?_
      cases t with
      | M => exact inv2_mStep strict c c' h hs
      | S => exact inv2_sStep c c' h hs
      | V => exact inv2_vStep c c' h hs

/-- the main task is about to leave the `async with` block and the check would fail -/
def raceAt (c : Cfg Req Resp) : Prop :=
  c.m.ops.head? = some .exitCtx ∧ exitCheck true c.cl c.down ≠ exitCheck false c.cl c.down

theorem mStep_strict_eq (c : Cfg Req Resp) (h : ¬ raceAt c) : mStep true c = mStep false c := by
  obtain ⟨cl, up, d, s, ⟨ops, resp, yielded, result⟩, v⟩ := c
  cases ops with
  | nil => rfl
  | cons op rest =>
    cases op with
    | exitCtx =>
      have : exitCheck true cl d = exitCheck false cl d := by
        by_cases he : exitCheck true cl d = exitCheck false cl d
        · exact he
        · exact absurd ⟨rfl, he⟩ h
      simp [mStep, this]
    | _ => rfl

theorem exitCheck_differ (cl : Client) (d : Down Resp) (h : exitCheck true cl d ≠ exitCheck false cl d) :
    cl.reqDone = true ∧ d.fin.isSome = true ∧ endedOk cl = false := by
  obtain ⟨dm, dh, df⟩ := d
  cases hr : cl.reqDone <;> cases df <;> simp [exitCheck, hr] at h ⊢
  rename_i f
  cases he : endedOk cl
  · rfl
  · cases f <;> cases dh <;> simp [he] at h

theorem mStep_isNone_strict (c : Cfg Req Resp) : mStep true c = none ↔ mStep false c = none := by
  obtain ⟨cl, up, d, s, ⟨ops, resp, yielded, result⟩, v⟩ := c
  cases ops with
  | nil => simp [mStep]
  | cons op rest =>
    cases op with
    | exitCtx =>
      obtain ⟨dm, dh, df⟩ := d
      cases hr : cl.reqDone <;> cases df <;> simp [mStep, exitCheck, hr]
      rename_i f
      cases f <;> cases dh <;> cases endedOk cl <;> simp
    | _ => simp [mStep]

theorem quiet_strict (c : Cfg Req Resp) : Quiet true c ↔ Quiet false c := by
  constructor
  · intro h t
    cases t with
    | M => exact (mStep_isNone_strict c).mp (h .M)
    | S => exact h .S
    | V => exact h .V
  · intro h t
    cases t with
    | M => exact (mStep_isNone_strict c).mpr (h .M)
    | S => exact h .S
    | V => exact h .V

theorem mRun_v (strict : Bool) (ops : List (COp Req)) : ∀ c : Cfg Req Resp, (mRun strict ops c).v = c.v := by
  induction ops with
  | nil => intro c; rfl
  | cons op rest ih =>
    intro c
    cases op with
    | sendRequest => simp only [mRun]; cases sendRequest c.cl <;> simp [failM, ih]
    | send o => simp only [mRun]; cases sendOp c.cl c.up o <;> simp [failM, ih]
    | spawn z => simp only [mRun]; exact ih _
    | recvMessage =>
      simp only [mRun]
      cases c.cl.reqDone <;> simp [failM]
      cases downRecv c.down with
      | none => rfl
      | some a => cases a <;> simp [failM, ih]
    | iterYield =>
      simp only [mRun]
      cases c.cl.reqDone <;> simp [failM]
      cases downRecv ({ c.down with msgs := [] } : Down Resp) with
      | none => rfl
      | some a => cases a <;> simp [failM, ih]
    | exitCtx =>
      simp only [mRun]
      cases exitCheck strict c.cl c.down with
      | none => rfl
      | some a => cases a <;> simp [failM, ih]
    | assertResponse => simp only [mRun]; cases c.m.resp.isSome <;> simp [failM, ih]
    | returnResponse => simp [mRun]

/-- once the server task has halted the canonical schedule leaves its state as it is -/
theorem canon_v_halt (strict : Bool) (c : Cfg Req Resp) (h : c.v.prog.isHalt = true) : (canon strict c).v = c.v := by
  unfold canon mRunC
  rw [mRun_v]
  have h1 : (sRun (mRun strict c.m.ops c)).v = c.v := by simp [sRun, mRun_v]
  generalize sRun (mRun strict c.m.ops c) = c1 at h1 ⊢
  obtain ⟨cl, up, d, s, m, v1⟩ := c1
  simp only at h1; subst h1
  obtain ⟨cl0, up0, d0, s0, m0, ⟨p, calls, hIn, se⟩⟩ := c
  cases p <;> simp [VProg.isHalt] at h
  unfold vRunG; cases cl.reqDone <;> simp [vRun]

/-- under the canonical schedule (taken without the check) the server task saw the end of the request stream, or
    never finished: then no schedule lets the main task leave before the stream is ended -/
def drained (c0 : Cfg Req Resp) : Bool := (canon false c0).v.sawEnd || !(canon false c0).v.prog.isHalt

theorem canon_of_reached (c0 : Cfg Req Resp) (hI : Inv false c0) (σ : List Task) :
    canon false (run false σ c0) = canon false c0 := by
  obtain ⟨σc, hσc⟩ := canon_reach false (run false σ c0)
  have hI' := inv_run false σ c0 hI
  have hq : Quiet false (run false (σ ++ σc) c0) := by
    rw [run_append, hσc]; exact canon_quiet false _ (inv_good false _ hI')
  have := run_eq_canon false c0 hI (σ ++ σc) hq
  rw [run_append, hσc] at this; exact this

theorem no_race (c0 : Cfg Req Resp) (hI : Inv false c0) (hJ : Inv2 c0) (hd : drained c0 = true) (σ : List Task) :
    ¬ raceAt (run false σ c0) := by
  intro ⟨_, hne⟩
  have hI' := inv_run false σ c0 hI
  have hJ' := inv2_run false σ c0 hJ
  obtain ⟨_, hfin, hend⟩ := exitCheck_differ _ _ hne
  have hhalt := hI'.finHalt hfin
  have hue : (run false σ c0).up.ended = false := by
    cases h : (run false σ c0).up.ended with
    | false => rfl
    | true => rw [hJ'.endOk h] at hend; cases hend
  have hse : (run false σ c0).v.sawEnd = false := by
    cases h : (run false σ c0).v.sawEnd with
    | false => rfl
    | true => rw [hJ'.sawEnd h] at hue; cases hue
  have hv := canon_v_halt false _ hhalt
  rw [canon_of_reached c0 hI σ] at hv
  simp only [drained, hv, hse, hhalt] at hd
  cases hd

theorem run_strict_of_no_race (σ : List Task) :
    ∀ c : Cfg Req Resp, (∀ σ', ¬ raceAt (run false σ' c)) → run true σ c = run false σ c := by
  induction σ with
  | nil => intro c _; rfl
  | cons t ts ih =>
    intro c h
    have hst : step true t c = step false t c := by
      cases t with
      | M => exact mStep_strict_eq c (h [])
      | S => rfl
      | V => rfl
    simp only [run, hst]
    cases hs : step false t c with
    | none => exact ih c h
    | some c' =>
      refine ih c' ?_
      intro σ'
      have := h (t :: σ')
      simpa only [run, hs] using this

/-- **all schedules of the code as it is (with the check) end like the canonical one**, when the guard holds -/
theorem run_strict_eq_canon (c0 : Cfg Req Resp) (hI : Inv false c0) (hJ : Inv2 c0) (hd : drained c0 = true)
    (σ : List Task) (hq : Quiet true (run true σ c0)) : run true σ c0 = canon true c0 := by
  have key : ∀ σ, Quiet true (run true σ c0) → run true σ c0 = canon false c0 := by
    intro σ hq
    have e := run_strict_of_no_race σ c0 (no_race c0 hI hJ hd)
    rw [e] at hq ⊢
    exact run_eq_canon false c0 hI σ ((quiet_strict _).mp hq)
  obtain ⟨σc, hσc⟩ := canon_reach true c0
  have hqc : Quiet true (run true σc c0) := by rw [hσc]; exact canon_quiet true c0 (inv_good false c0 hI)
  rw [key σ hq, ← hσc, key σc hqc]

theorem inv2_initV {α : Type} (p : ClientProg Req α) (v : VProg Req Resp) : Inv2 (initV p v) :=
  ⟨by simp [initV], by simp [initV]⟩

end Bp.GrpcCall
