import BpModel.Heap
import Mathlib.Tactic.Common
/-
  Heap model (BpModel/Heap.lean): reachability, closedness, and the FRAME lemma
  (a value only depends on the cells reachable from it).
-/
namespace Bp.Hp

/-! ### references -/

theorem mem_itemRefs {b : Nat} {vs : List HVal} : b ∈ itemRefs vs ↔ HVal.ref b ∈ vs := by
  induction vs with
  | nil => simp [itemRefs]
  | cons v r ih =>
    cases v <;> simp [itemRefs, HVal.refs, ih]

theorem mem_itemRefs_of {b : Nat} {v : HVal} {vs : List HVal} (hv : v ∈ vs) (hb : b ∈ v.refs) :
    b ∈ itemRefs vs := by
  cases v <;> simp [HVal.refs] at hb
  subst hb; exact mem_itemRefs.mpr hv

theorem itemRefs_append (a b : List HVal) : itemRefs (a ++ b) = itemRefs a ++ itemRefs b := by
  induction a with
  | nil => rfl
  | cons v r ih => simp [itemRefs, ih]

/-! ### reachability -/

/-- `Reach h a x`: `x` is `a` or is reachable from `a` through references stored in cells -/
inductive Reach (h : Heap) : Nat → Nat → Prop
  | refl (a : Nat) : Reach h a a
  | step {a b x : Nat} {c : Cell} : h[a]? = some c → b ∈ c.refs → Reach h b x → Reach h a x

theorem Reach.trans {h : Heap} {a b c : Nat} (h1 : Reach h a b) (h2 : Reach h b c) : Reach h a c := by
  induction h1 with
  | refl => exact h2
  | step hc hb _ ih => exact .step hc hb (ih h2)

theorem Reach.edge {h : Heap} {a b : Nat} {c : Cell} (hc : h[a]? = some c) (hb : b ∈ c.refs) : Reach h a b :=
  .step hc hb (.refl b)

/-- reachable from one of the roots -/
def ReachL (h : Heap) (roots : List Nat) (x : Nat) : Prop := ∃ r ∈ roots, Reach h r x

/-- reachable through a value -/
def ReachV (h : Heap) (v : HVal) (x : Nat) : Prop := ∃ r ∈ v.refs, Reach h r x

/-- every reference stored in a cell is in range -/
def Closed (h : Heap) : Prop := ∀ (i : Nat) (c : Cell), h[i]? = some c → ∀ r ∈ c.refs, r < h.length

theorem closedB_iff (h : Heap) : closedB h = true ↔ Closed h := by
  unfold closedB Closed
  simp only [List.all_eq_true, decide_eq_true_eq]
  constructor
  · intro hh i c hc r hr
    exact hh c (List.mem_of_getElem? hc) r hr
  · intro hh c hc r hr
    obtain ⟨i, hi⟩ := List.getElem?_of_mem hc
    exact hh i c hi r hr

theorem Closed.reach {h : Heap} (hc : Closed h) {a x : Nat} (ha : a < h.length) (hr : Reach h a x) :
    x < h.length := by
  induction hr with
  | refl => exact ha
  | step hcell hb _ ih => exact ih (hc _ _ hcell _ hb)

/-- a `bytes` cell points nowhere -/
theorem Reach.of_bytes {h : Heap} {a x : Nat} (hb : isBytes h a = true) (hr : Reach h a x) : x = a := by
  cases hr with
  | refl => rfl
  | step hc hb' _ =>
    unfold isBytes at hb
    rw [hc] at hb
    cases ‹Cell› <;> simp [Cell.refs] at hb hb'

/-- a cell out of range points nowhere -/
theorem Reach.of_oob {h : Heap} {a x : Nat} (ha : h.length ≤ a) (hr : Reach h a x) : x = a := by
  cases hr with
  | refl => rfl
  | step hc _ _ =>
    have : h[a]? = none := List.getElem?_eq_none ha
    rw [this] at hc; cases hc

/-- if the cells reachable from `a` are the same in `h'`, then so is reachability from `a` -/
theorem Reach.transport {h h' : Heap} {a : Nat} (hsame : ∀ x, Reach h a x → h'[x]? = h[x]?) {x : Nat}
    (hr : Reach h a x) : Reach h' a x := by
  induction hr with
  | refl => exact .refl _
  | step hc hb hr ih =>
    refine .step ((hsame _ (.refl _)).trans hc) hb (ih ?_)
    intro y hy
    exact hsame y (.step hc hb hy)

theorem Reach.transport_back {h h' : Heap} {a : Nat} (hsame : ∀ x, Reach h a x → h'[x]? = h[x]?) {x : Nat}
    (hr : Reach h' a x) : Reach h a x := by
  induction hr with
  | refl => exact .refl _
  | step hc hb hr ih =>
    have hc' := (hsame _ (.refl _)).symm.trans hc
    refine .step hc' hb (ih ?_)
    intro y hy
    exact hsame y (.step hc' hb hy)

/-! ### executable reachability is sound -/

theorem reachF_sound (n : Nat) (h : Heap) (a x : Nat) (hx : x ∈ reachF n h a) : Reach h a x := by
  induction n generalizing a with
  | zero => simp [reachF] at hx; subst hx; exact .refl _
  | succ n ih =>
    simp only [reachF, List.mem_cons] at hx
    rcases hx with rfl | hx
    · exact .refl _
    · cases hc : h[a]? with
      | none => simp [hc] at hx
      | some c =>
        simp only [hc, List.mem_flatMap] at hx
        obtain ⟨b, hb, hbx⟩ := hx
        exact .step hc hb (ih b hbx)

theorem reach_sound (h : Heap) (a x : Nat) (hx : x ∈ reach h a) : Reach h a x := by
  unfold reach at hx
  exact reachF_sound _ h a x (List.mem_eraseDups.mp hx)

/-- executable reachability is complete on a heap with a rank function (acyclic), given fuel above the rank -/
theorem reachF_complete (h : Heap) (rank : Nat → Nat)
    (hrank : ∀ (a b : Nat) (c : Cell), h[a]? = some c → b ∈ c.refs → rank b < rank a)
    {a x : Nat} (hr : Reach h a x) : ∀ n, rank a ≤ n → x ∈ reachF n h a := by
  induction hr with
  | refl a => intro n _; cases n <;> simp [reachF]
  | @step a b x c hc hb _ ih =>
    intro n hn
    have hlt := hrank a b c hc hb
    cases n with
    | zero => omega
    | succ n =>
      simp only [reachF, List.mem_cons, hc, List.mem_flatMap]
      exact Or.inr ⟨b, hb, ih n (by omega)⟩

/-! ### the frame lemma -/

theorem bytesAt_congr {h h' : Heap} {u : Nat} (hu : h'[u]? = h[u]?) : bytesAt h' u = bytesAt h u := by
  unfold bytesAt; rw [hu]

theorem selAt_congr {h h' : Heap} {u : Nat} (hu : h'[u]? = h[u]?) : selAt h' u = selAt h u := by
  unfold selAt; rw [hu]

theorem isBytes_congr {h h' : Heap} {u : Nat} (hu : h'[u]? = h[u]?) : isBytes h' u = isBytes h u := by
  unfold isBytes; rw [hu]

/-- **frame**: the value seen through `v` only depends on the cells reachable through `v` -/
theorem absV_frame (n : Nat) (h h' : Heap) (v : HVal) (hsame : ∀ x, ReachV h v x → h'[x]? = h[x]?) :
    absV n h' v = absV n h v := by
  induction n generalizing v with
  | zero => cases v <;> rfl
  | succ n ih =>
    cases v with
    | ph => rfl
    | leaf t => rfl
    | ref i =>
      have hi : h'[i]? = h[i]? := hsame i ⟨i, by simp [HVal.refs], .refl _⟩
      have hsub : ∀ (c : Cell), h[i]? = some c → ∀ (vs : List HVal), (∀ b, b ∈ itemRefs vs → b ∈ c.refs) →
          vs.map (absV n h') = vs.map (absV n h) := by
        intro c hc vs hvs
        apply List.map_congr_left
        intro w hw
        apply ih
        rintro x ⟨r, hr, hrx⟩
        exact hsame x ⟨i, by simp [HVal.refs], .step hc (hvs r (mem_itemRefs_of hw hr)) hrx⟩
      have hone : ∀ (c : Cell), h[i]? = some c → ∀ b, b ∈ c.refs → h'[b]? = h[b]? := by
        intro c hc b hb
        exact hsame b ⟨i, by simp [HVal.refs], Reach.edge hc hb⟩
      simp only [absV, hi]
      cases hc : h[i]? with
      | none => rfl
      | some c =>
        cases c with
        | msg sl ow u g =>
          simp only []
          rw [hsub _ hc sl (by intro b hb; simp [Cell.refs, hb]),
              bytesAt_congr (hone _ hc u (by simp [Cell.refs])),
              selAt_congr (hone _ hc g (by simp [Cell.refs]))]
        | list it =>
          simp only []
          rw [hsub _ hc it (by intro b hb; simpa [Cell.refs] using hb)]
        | dict ks vs =>
          simp only []
          rw [hsub _ hc vs (by intro b hb; simpa [Cell.refs] using hb)]
        | gcur sel => rfl
        | bytes bs => rfl

/-- values do not see allocation -/
theorem absV_append (n : Nat) (h ext : Heap) (v : HVal) (hc : Closed h) (hv : ∀ r ∈ v.refs, r < h.length) :
    absV n (h ++ ext) v = absV n h v := by
  apply absV_frame
  rintro x ⟨r, hr, hrx⟩
  exact List.getElem?_append_left (hc.reach (hv r hr) hrx)

theorem isBytes_append {h ext : Heap} {x : Nat} (hx : isBytes h x = true) : isBytes (h ++ ext) x = true := by
  unfold isBytes at hx ⊢
  have hlt : x < h.length := by
    by_contra hge
    rw [List.getElem?_eq_none (by omega)] at hx
    simp at hx
  rw [List.getElem?_append_left hlt]; exact hx

end Bp.Hp
