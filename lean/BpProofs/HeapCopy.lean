import BpProofs.HeapBasic
/-
  `copyVal` (the model of `copy.deepcopy` under `Message.__copy_state_to`): it only allocates,
  keeps the heap closed, returns a value with the same abstraction, and everything mutable it
  returns lives in cells allocated since the copy began (`b0 ≤ id`).
-/
namespace Bp.Hp

/-- `_unknown_fields` of every message is a `bytes` object -/
def UnkBytes (h : Heap) : Prop :=
  ∀ (k : Nat) (sl : List HVal) (ow : Bool) (u g : Nat), h[k]? = some (.msg sl ow u g) → isBytes h u = true

def HVal.inRange (v : HVal) (h : Heap) : Prop := ∀ r ∈ v.refs, r < h.length

/-- every reference through `v` is new (allocated at or after `b0`) or an immutable `bytes` object -/
def FreshV (b0 : Nat) (h : Heap) (v : HVal) : Prop := ∀ r ∈ v.refs, b0 ≤ r ∨ isBytes h r = true

/-- invariant of a running deep copy that started when the heap had `b0` cells -/
structure Inv (b0 : Nat) (h : Heap) (m : Memo) : Prop where
  closed : Closed h
  le : b0 ≤ h.length
  fresh : ∀ (k : Nat) (c : Cell), b0 ≤ k → h[k]? = some c → ∀ r ∈ c.refs, b0 ≤ r ∨ isBytes h r = true
  memo : ∀ (i j : Nat), (i, j) ∈ m → b0 ≤ j ∧ j < h.length ∧ i < h.length ∧
    ∀ n, absV n h (.ref j) = absV n h (.ref i)
  unk : UnkBytes h

/-- what a copying function guarantees -/
def Spec (b0 : Nat) (f : Heap → Memo → HVal → Option (Heap × Memo × HVal)) : Prop :=
  ∀ (h : Heap) (m : Memo) (v : HVal) (h' : Heap) (m' : Memo) (v' : HVal),
    Inv b0 h m → v.inRange h → f h m v = some (h', m', v') →
    (∃ ext, h' = h ++ ext) ∧ Inv b0 h' m' ∧ v'.inRange h' ∧ FreshV b0 h' v' ∧
    ∀ n, absV n h' v' = absV n h v

def ListInRange (vs : List HVal) (h : Heap) : Prop := ∀ r ∈ itemRefs vs, r < h.length

def SpecL (b0 : Nat) (f : Heap → Memo → List HVal → Option (Heap × Memo × List HVal)) : Prop :=
  ∀ (h : Heap) (m : Memo) (vs : List HVal) (h' : Heap) (m' : Memo) (vs' : List HVal),
    Inv b0 h m → ListInRange vs h → f h m vs = some (h', m', vs') →
    (∃ ext, h' = h ++ ext) ∧ Inv b0 h' m' ∧ ListInRange vs' h' ∧
    (∀ r ∈ itemRefs vs', b0 ≤ r ∨ isBytes h' r = true) ∧
    ∀ n, vs'.map (absV n h') = vs.map (absV n h)

theorem Inv.dropMemo {b0 : Nat} {h : Heap} {m : Memo} (hi : Inv b0 h m) : Inv b0 h [] :=
  ⟨hi.closed, hi.le, hi.fresh, (by intro i j hij; cases hij), hi.unk⟩

/-- the memo of an earlier heap is still good after allocation -/
theorem Inv.memoExt {b0 : Nat} {h ext : Heap} {m m' : Memo} (hi : Inv b0 h m) (hi' : Inv b0 (h ++ ext) m') :
    Inv b0 (h ++ ext) m := by
  refine ⟨hi'.closed, hi'.le, hi'.fresh, ?_, hi'.unk⟩
  intro i j hij
  obtain ⟨h1, h2, h3, h4⟩ := hi.memo i j hij
  refine ⟨h1, by simp; omega, by simp; omega, ?_⟩
  intro n
  rw [absV_append n h ext _ hi.closed (by simp [HVal.refs]; exact h2),
      absV_append n h ext _ hi.closed (by simp [HVal.refs]; exact h3)]
  exact h4 n

theorem spec_freshMemo {b0 : Nat} {f : Heap → Memo → HVal → Option (Heap × Memo × HVal)} (hf : Spec b0 f) :
    Spec b0 (freshMemo f) := by
  intro h m v h' m' v' hinv hv hcall
  unfold freshMemo at hcall
  cases hfc : f h [] v with
  | none => simp [hfc] at hcall
  | some r =>
    obtain ⟨h1, m1, v1⟩ := r
    simp only [hfc, Option.some.injEq, Prod.mk.injEq] at hcall
    obtain ⟨rfl, rfl, rfl⟩ := hcall
    obtain ⟨⟨ext, rfl⟩, hinv', hr, hfr, hval⟩ := hf h [] v _ _ _ hinv.dropMemo hv hfc
    exact ⟨⟨ext, rfl⟩, hinv.memoExt hinv', hr, hfr, hval⟩

theorem spec_copyItems {b0 : Nat} {f : Heap → Memo → HVal → Option (Heap × Memo × HVal)} (hf : Spec b0 f) :
    SpecL b0 (copyItems f) := by
  intro h m vs
  induction vs generalizing h m with
  | nil =>
    intro h' m' vs' hinv _ hcall
    simp only [copyItems, Option.some.injEq, Prod.mk.injEq] at hcall
    obtain ⟨rfl, rfl, rfl⟩ := hcall
    exact ⟨⟨[], by simp⟩, hinv, by intro r hr; simp [itemRefs] at hr, by intro r hr; simp [itemRefs] at hr,
      by intro n; rfl⟩
  | cons v vs ih =>
    intro h' m' vs' hinv hrange hcall
    simp only [copyItems] at hcall
    cases hfc : f h m v with
    | none => simp [hfc] at hcall
    | some r1 =>
      obtain ⟨h1, m1, v1⟩ := r1
      simp only [hfc] at hcall
      cases hrc : copyItems f h1 m1 vs with
      | none => simp [hrc] at hcall
      | some r2 =>
        obtain ⟨h2, m2, vs2⟩ := r2
        simp only [hrc, Option.some.injEq, Prod.mk.injEq] at hcall
        obtain ⟨rfl, rfl, rfl⟩ := hcall
        have hv : v.inRange h := fun r hr => hrange r (by simp [itemRefs, hr])
        obtain ⟨⟨e1, rfl⟩, hinv1, hr1, hfr1, hval1⟩ := hf h m v _ _ _ hinv hv hfc
        have hvs : ListInRange vs (h ++ e1) := by
          intro r hr
          have := hrange r (by simp [itemRefs, hr])
          simp; omega
        obtain ⟨⟨e2, rfl⟩, hinv2, hr2, hfr2, hval2⟩ := ih (h ++ e1) m1 _ _ _ hinv1 hvs hrc
        refine ⟨⟨e1 ++ e2, by simp⟩, hinv2, ?_, ?_, ?_⟩
        · intro r hr
          simp only [itemRefs, List.mem_append] at hr
          rcases hr with hr | hr
          · have := hr1 r hr; simp at this ⊢; omega
          · exact hr2 r hr
        · intro r hr
          simp only [itemRefs, List.mem_append] at hr
          rcases hr with hr | hr
          · rcases hfr1 r hr with hh | hh
            · exact Or.inl hh
            · exact Or.inr (isBytes_append hh)
          · exact hfr2 r hr
        · intro n
          simp only [List.map_cons]
          rw [hval2 n, absV_append n (h ++ e1) e2 v1 hinv1.closed hr1, hval1 n]
          congr 1
          apply List.map_congr_left
          intro w hw
          exact absV_append n h e1 w hinv.closed (fun r hr => hrange r (by
            simp only [itemRefs, List.mem_append]; exact Or.inr (mem_itemRefs_of hw hr)))

theorem lookup_mem {i j : Nat} {m : Memo} (hl : m.lookup i = some j) : (i, j) ∈ m := by
  induction m with
  | nil => simp [List.lookup] at hl
  | cons p r ih =>
    obtain ⟨a, b⟩ := p
    simp only [List.lookup] at hl
    by_cases hia : i = a
    · subst hia; simp at hl; subst hl; simp
    · have : (i == a) = false := by simpa using hia
      simp only [this] at hl
      exact List.mem_cons_of_mem _ (ih hl)

/-- allocating ONE cell whose references are fresh keeps the invariant and lets the memo grow -/
theorem Inv.alloc {b0 : Nat} {h : Heap} {m : Memo} (hi : Inv b0 h m) (c : Cell)
    (hrange : ∀ r ∈ c.refs, r < h.length) (hfresh : ∀ r ∈ c.refs, b0 ≤ r ∨ isBytes h r = true)
    (hunk : ∀ sl ow u g, c = .msg sl ow u g → isBytes h u = true) :
    Inv b0 (h ++ [c]) m := by
  have hcl : Closed (h ++ [c]) := by
    intro k c' hk r hr
    by_cases hlt : k < h.length
    · rw [List.getElem?_append_left hlt] at hk
      have := hi.closed k c' hk r hr
      simp; omega
    · rw [List.getElem?_append_right (by omega)] at hk
      have hk0 : k - h.length = 0 := by
        by_contra hne
        rw [List.getElem?_eq_none (by simp; omega)] at hk; cases hk
      rw [hk0] at hk; simp at hk; subst hk
      have := hrange r hr; simp; omega
  refine ⟨hcl, by simp; have := hi.le; omega, ?_, ?_, ?_⟩
  rotate_left 2
  · intro k sl ow u g hk
    by_cases hlt : k < h.length
    · rw [List.getElem?_append_left hlt] at hk
      exact isBytes_append (hi.unk k sl ow u g hk)
    · rw [List.getElem?_append_right (by omega)] at hk
      have hk0 : k - h.length = 0 := by
        by_contra hne
        rw [List.getElem?_eq_none (by simp; omega)] at hk; cases hk
      rw [hk0] at hk; simp at hk
      exact isBytes_append (hunk sl ow u g hk)
  · intro k c' hk hc' r hr
    by_cases hlt : k < h.length
    · rw [List.getElem?_append_left hlt] at hc'
      rcases hi.fresh k c' hk hc' r hr with hh | hh
      · exact Or.inl hh
      · exact Or.inr (isBytes_append hh)
    · rw [List.getElem?_append_right (by omega)] at hc'
      have hk0 : k - h.length = 0 := by
        by_contra hne
        rw [List.getElem?_eq_none (by simp; omega)] at hc'; cases hc'
      rw [hk0] at hc'; simp at hc'; subst hc'
      rcases hfresh r hr with hh | hh
      · exact Or.inl hh
      · exact Or.inr (isBytes_append hh)
  · intro i j hij
    obtain ⟨h1, h2, h3, h4⟩ := hi.memo i j hij
    refine ⟨h1, by simp; omega, by simp; omega, ?_⟩
    intro n
    rw [absV_append n h [c] _ hi.closed (by simp [HVal.refs]; exact h2),
        absV_append n h [c] _ hi.closed (by simp [HVal.refs]; exact h3)]
    exact h4 n

/-- … and the new cell may be remembered as the copy of `i` when it has the same value -/
theorem Inv.remember {b0 : Nat} {h : Heap} {m : Memo} (cfg : Cfg) (hi : Inv b0 h m) (i j : Nat)
    (hj : b0 ≤ j) (hjl : j < h.length) (hil : i < h.length)
    (hval : ∀ n, absV n h (.ref j) = absV n h (.ref i)) : Inv b0 h (remember cfg i j m) := by
  unfold Hp.remember
  split
  · refine ⟨hi.closed, hi.le, hi.fresh, ?_, hi.unk⟩
    intro a b hab
    rcases List.mem_cons.mp hab with hab | hab
    · cases hab; exact ⟨hj, hjl, hil, hval⟩
    · exact hi.memo a b hab
  · exact hi

theorem getElem?_append_len {h : Heap} {c : Cell} : (h ++ [c])[h.length]? = some c := by
  simp

/-- **the deep copy function meets its specification**, for every amount of fuel (with the code's
    configuration: `_group_current` is copied) -/
theorem spec_copyVal (b0 : Nat) (cfg : Cfg) (hcfg : cfg.shareGc = false) (fuel : Nat) : Spec b0 (copyVal cfg fuel) := by
  induction fuel with
  | zero =>
    intro h m v h' m' v' hinv hv hcall
    cases v with
    | ph =>
      simp only [copyVal, Option.some.injEq, Prod.mk.injEq] at hcall
      obtain ⟨rfl, rfl, rfl⟩ := hcall
      exact ⟨⟨[], by simp⟩, hinv, hv, by intro r hr; simp [HVal.refs] at hr, fun _ => rfl⟩
    | leaf t =>
      simp only [copyVal, Option.some.injEq, Prod.mk.injEq] at hcall
      obtain ⟨rfl, rfl, rfl⟩ := hcall
      exact ⟨⟨[], by simp⟩, hinv, hv, by intro r hr; simp [HVal.refs] at hr, fun _ => rfl⟩
    | ref i => simp [copyVal] at hcall
  | succ fuel ih =>
    intro h m v h' m' v' hinv hv hcall
    cases v with
    | ph =>
      simp only [copyVal, Option.some.injEq, Prod.mk.injEq] at hcall
      obtain ⟨rfl, rfl, rfl⟩ := hcall
      exact ⟨⟨[], by simp⟩, hinv, hv, by intro r hr; simp [HVal.refs] at hr, fun _ => rfl⟩
    | leaf t =>
      simp only [copyVal, Option.some.injEq, Prod.mk.injEq] at hcall
      obtain ⟨rfl, rfl, rfl⟩ := hcall
      exact ⟨⟨[], by simp⟩, hinv, hv, by intro r hr; simp [HVal.refs] at hr, fun _ => rfl⟩
    | ref i =>
      have hil : i < h.length := hv i (by simp [HVal.refs])
      simp only [copyVal] at hcall
      cases hl : m.lookup i with
      | some j =>
        simp only [hl, Option.some.injEq, Prod.mk.injEq] at hcall
        obtain ⟨rfl, rfl, rfl⟩ := hcall
        obtain ⟨h1, h2, _, h4⟩ := hinv.memo i j (lookup_mem hl)
        refine ⟨⟨[], by simp⟩, hinv, ?_, ?_, h4⟩
        · intro r hr; simp [HVal.refs] at hr; subst hr; exact h2
        · intro r hr; simp [HVal.refs] at hr; subst hr; exact Or.inl h1
      | none =>
        simp only [hl] at hcall
        cases hc : h[i]? with
        | none => simp [hc] at hcall
        | some c =>
          simp only [hc] at hcall
          cases c with
          | bytes bs =>
            simp only [Option.some.injEq, Prod.mk.injEq] at hcall
            obtain ⟨rfl, rfl, rfl⟩ := hcall
            refine ⟨⟨[], by simp⟩, hinv, hv, ?_, fun _ => rfl⟩
            intro r hr; simp [HVal.refs] at hr; subst hr
            right; unfold isBytes; rw [hc]
          | gcur sel =>
            simp only [Option.some.injEq, Prod.mk.injEq] at hcall
            obtain ⟨rfl, rfl, rfl⟩ := hcall
            have hinv1 : Inv b0 (h ++ [Cell.gcur sel]) m :=
              hinv.alloc _ (by intro r hr; simp [Cell.refs] at hr) (by intro r hr; simp [Cell.refs] at hr)
                (by intro _ _ _ _ hh; cases hh)
            refine ⟨⟨_, rfl⟩, ?_, ?_, ?_, ?_⟩
            · apply hinv1.remember cfg i h.length hinv.le (by simp) (by simp; omega)
              intro n
              rw [absV_append n h _ _ hinv.closed hv]
              cases n with
              | zero => rfl
              | succ n => simp [absV, hc]
            · intro r hr; simp [HVal.refs] at hr; subst hr; simp
            · intro r hr; simp [HVal.refs] at hr; subst hr; exact Or.inl hinv.le
            · intro n
              cases n with
              | zero => rfl
              | succ n => simp [absV, hc]
          | list it =>
            cases hci : copyItems (copyVal cfg fuel) h m it with
            | none => simp [hci] at hcall
            | some r1 =>
              obtain ⟨h1, m1, it'⟩ := r1
              simp only [hci, Option.some.injEq, Prod.mk.injEq] at hcall
              obtain ⟨rfl, rfl, rfl⟩ := hcall
              have hrange : ListInRange it h := fun r hr => hinv.closed i _ hc r (by simpa [Cell.refs] using hr)
              obtain ⟨⟨e1, rfl⟩, hinv1, hr1, hfr1, hval1⟩ := spec_copyItems ih h m it _ _ _ hinv hrange hci
              have hinv2 : Inv b0 (h ++ e1 ++ [Cell.list it']) m1 :=
                hinv1.alloc _ (by intro r hr; exact hr1 r (by simpa [Cell.refs] using hr))
                  (by intro r hr; exact hfr1 r (by simpa [Cell.refs] using hr))
                  (by intro _ _ _ _ hh; cases hh)
              have hnew : ∀ n, absV n (h ++ e1 ++ [Cell.list it']) (.ref (h ++ e1).length) = absV n h (.ref i) := by
                intro n
                cases n with
                | zero => rfl
                | succ n =>
                  simp only [absV, getElem?_append_len, hc]
                  rw [← hval1 n]
                  congr 1
                  apply List.map_congr_left
                  intro w hw
                  exact absV_append n (h ++ e1) _ w hinv1.closed (fun r hr => hr1 r (mem_itemRefs_of hw hr))
              refine ⟨⟨e1 ++ [Cell.list it'], by simp⟩, ?_, ?_, ?_, hnew⟩
              · apply hinv2.remember cfg i (h ++ e1).length hinv1.le (by simp) (by simp; omega)
                intro n
                rw [hnew n, List.append_assoc, absV_append n h _ _ hinv.closed hv]
              · intro r hr; simp [HVal.refs] at hr; subst hr; simp
              · intro r hr; simp [HVal.refs] at hr; subst hr; exact Or.inl (by simpa using hinv1.le)
          | dict ks vs =>
            cases hci : copyItems (copyVal cfg fuel) h m vs with
            | none => simp [hci] at hcall
            | some r1 =>
              obtain ⟨h1, m1, vs'⟩ := r1
              simp only [hci, Option.some.injEq, Prod.mk.injEq] at hcall
              obtain ⟨rfl, rfl, rfl⟩ := hcall
              have hrange : ListInRange vs h := fun r hr => hinv.closed i _ hc r (by simpa [Cell.refs] using hr)
              obtain ⟨⟨e1, rfl⟩, hinv1, hr1, hfr1, hval1⟩ := spec_copyItems ih h m vs _ _ _ hinv hrange hci
              have hinv2 : Inv b0 (h ++ e1 ++ [Cell.dict ks vs']) m1 :=
                hinv1.alloc _ (by intro r hr; exact hr1 r (by simpa [Cell.refs] using hr))
                  (by intro r hr; exact hfr1 r (by simpa [Cell.refs] using hr))
                  (by intro _ _ _ _ hh; cases hh)
              have hnew : ∀ n, absV n (h ++ e1 ++ [Cell.dict ks vs']) (.ref (h ++ e1).length) = absV n h (.ref i) := by
                intro n
                cases n with
                | zero => rfl
                | succ n =>
                  simp only [absV, getElem?_append_len, hc]
                  rw [← hval1 n]
                  congr 1
                  apply List.map_congr_left
                  intro w hw
                  exact absV_append n (h ++ e1) _ w hinv1.closed (fun r hr => hr1 r (mem_itemRefs_of hw hr))
              refine ⟨⟨e1 ++ [Cell.dict ks vs'], by simp⟩, ?_, ?_, ?_, hnew⟩
              · apply hinv2.remember cfg i (h ++ e1).length hinv1.le (by simp) (by simp; omega)
                intro n
                rw [hnew n, List.append_assoc, absV_append n h _ _ hinv.closed hv]
              · intro r hr; simp [HVal.refs] at hr; subst hr; simp
              · intro r hr; simp [HVal.refs] at hr; subst hr; exact Or.inl (by simpa using hinv1.le)
          | msg sl ow u g =>
            cases hci : copyItems (freshMemo (copyVal cfg fuel)) h m sl with
            | none => simp [hci] at hcall
            | some r1 =>
              obtain ⟨h1, m1, sl'⟩ := r1
              simp only [hci, hcfg, Bool.false_eq_true, if_false, Option.some.injEq, Prod.mk.injEq] at hcall
              obtain ⟨rfl, rfl, rfl⟩ := hcall
              have hrange : ListInRange sl h := fun r hr => hinv.closed i _ hc r (by simp [Cell.refs, hr])
              have hul : u < h.length := hinv.closed i _ hc u (by simp [Cell.refs])
              have hgl : g < h.length := hinv.closed i _ hc g (by simp [Cell.refs])
              obtain ⟨⟨e1, rfl⟩, hinv1, hr1, hfr1, hval1⟩ :=
                spec_copyItems (spec_freshMemo ih) h m sl _ _ _ hinv hrange hci
              have hinvg : Inv b0 (h ++ e1 ++ [Cell.gcur (selAt h g)]) m1 :=
                hinv1.alloc _ (by intro r hr; simp [Cell.refs] at hr) (by intro r hr; simp [Cell.refs] at hr)
                  (by intro _ _ _ _ hh; cases hh)
              have hub : isBytes h u = true := hinv.unk i sl ow u g hc
              have hub2 : isBytes (h ++ e1 ++ [Cell.gcur (selAt h g)]) u = true := by
                rw [List.append_assoc]; exact isBytes_append hub
              have hinv2 : Inv b0 (h ++ e1 ++ [Cell.gcur (selAt h g)] ++ [Cell.msg sl' ow u (h ++ e1).length]) m1 := by
                apply hinvg.alloc
                · intro r hr
                  simp only [Cell.refs, List.mem_cons] at hr
                  rcases hr with rfl | rfl | hr
                  · simp; omega
                  · simp
                  · have := hr1 r hr; simp at this ⊢; omega
                · intro r hr
                  simp only [Cell.refs, List.mem_cons] at hr
                  rcases hr with rfl | rfl | hr
                  · exact Or.inr hub2
                  · exact Or.inl (by simpa using hinv1.le)
                  · rcases hfr1 r hr with hh | hh
                    · exact Or.inl hh
                    · exact Or.inr (isBytes_append hh)
                · intro _ _ _ _ hh
                  cases hh; exact hub2
              have hlen : (h ++ e1 ++ [Cell.gcur (selAt h g)]).length = (h ++ e1).length + 1 := by simp only [List.length_append, List.length_cons, List.length_nil]
              have hnew : ∀ n, absV n (h ++ e1 ++ [Cell.gcur (selAt h g)] ++ [Cell.msg sl' ow u (h ++ e1).length])
                  (.ref ((h ++ e1).length + 1)) = absV n h (.ref i) := by
                intro n
                cases n with
                | zero => rfl
                | succ n =>
                  have hget : (h ++ e1 ++ [Cell.gcur (selAt h g)] ++ [Cell.msg sl' ow u (h ++ e1).length])[(h ++ e1).length + 1]?
                      = some (Cell.msg sl' ow u (h ++ e1).length) := by
                    rw [← hlen]; exact getElem?_append_len
                  simp only [absV, hget, hc]
                  rw [← hval1 n]
                  congr 1
                  · apply List.map_congr_left
                    intro w hw
                    rw [List.append_assoc (h ++ e1)]
                    exact absV_append n (h ++ e1) _ w hinv1.closed (fun r hr => hr1 r (mem_itemRefs_of hw hr))
                  · apply bytesAt_congr
                    rw [List.append_assoc, List.append_assoc]
                    exact List.getElem?_append_left hul
                  · unfold selAt
                    rw [List.getElem?_append_left (by simp), getElem?_append_len]
              refine ⟨⟨e1 ++ [Cell.gcur (selAt h g), Cell.msg sl' ow u (h ++ e1).length], by simp⟩, ?_, ?_, ?_, ?_⟩
              · have e : h ++ (e1 ++ [Cell.gcur (selAt h g), Cell.msg sl' ow u (h ++ e1).length])
                    = h ++ e1 ++ [Cell.gcur (selAt h g)] ++ [Cell.msg sl' ow u (h ++ e1).length] := by simp
                have e' : h ++ e1 ++ [Cell.gcur (selAt h g), Cell.msg sl' ow u (h ++ e1).length]
                    = h ++ e1 ++ [Cell.gcur (selAt h g)] ++ [Cell.msg sl' ow u (h ++ e1).length] := by simp
                rw [e']
                apply hinv2.remember cfg i ((h ++ e1).length + 1) (by have := hinv1.le; omega) (by simp; omega) (by simp; omega)
                intro n
                rw [hnew n]
                have : h ++ e1 ++ [Cell.gcur (selAt h g)] ++ [Cell.msg sl' ow u (h ++ e1).length]
                    = h ++ (e1 ++ [Cell.gcur (selAt h g), Cell.msg sl' ow u (h ++ e1).length]) := by simp
                rw [this, absV_append n h _ _ hinv.closed hv]
              · intro r hr; simp [HVal.refs] at hr; subst hr; simp; omega
              · intro r hr; simp [HVal.refs] at hr; subst hr; exact Or.inl (by have := hinv1.le; simp at this ⊢; omega)
              · intro n
                have e' : h ++ e1 ++ [Cell.gcur (selAt h g), Cell.msg sl' ow u (h ++ e1).length]
                    = h ++ e1 ++ [Cell.gcur (selAt h g)] ++ [Cell.msg sl' ow u (h ++ e1).length] := by simp
                rw [e']; exact hnew n

/-! ### top level -/

/-- well-formed heap: references in range, `_unknown_fields` is a bytes object (decidable: `wfB`) -/
def WF (h : Heap) : Prop := Closed h ∧ UnkBytes h

def unkBytesB (h : Heap) : Bool :=
  h.all fun c => match c with
    | .msg _ _ u _ => isBytes h u
    | _ => true

def wfB (h : Heap) : Bool := closedB h && unkBytesB h

theorem wfB_sound {h : Heap} (hw : wfB h = true) : WF h := by
  unfold wfB at hw
  simp only [Bool.and_eq_true] at hw
  refine ⟨(closedB_iff h).mp hw.1, ?_⟩
  intro k sl ow u g hk
  have := (List.all_eq_true.mp hw.2) _ (List.mem_of_getElem? hk)
  simpa using this

theorem Inv.init {h : Heap} (hw : WF h) : Inv h.length h [] := by
  refine ⟨hw.1, Nat.le_refl _, ?_, (by intro i j hij; cases hij), hw.2⟩
  intro k c hk hc
  rw [List.getElem?_eq_none hk] at hc; cases hc

/-- everything reachable from a fresh cell is fresh or an immutable bytes object -/
theorem Inv.reach_fresh {b0 : Nat} {h : Heap} {m : Memo} (hi : Inv b0 h m) {a x : Nat}
    (ha : b0 ≤ a ∨ isBytes h a = true) (hr : Reach h a x) : b0 ≤ x ∨ isBytes h x = true := by
  induction hr with
  | refl => exact ha
  | @step a b x c hc hb _ ih =>
    apply ih
    rcases ha with ha | ha
    · exact hi.fresh a c ha hc b hb
    · unfold isBytes at ha
      rw [hc] at ha
      cases c <;> simp [Cell.refs] at ha hb

/-- what `copyWith` (deep copy / unpickled copy) guarantees on a well-formed heap -/
theorem copyWith_spec {cfg : Cfg} (hcfg : cfg.shareGc = false) {fuel : Nat} {h h' : Heap} {o c : Nat}
    (hw : WF h) (ho : o < h.length) (hcp : copyWith cfg fuel h o = some (h', c)) :
    (∃ ext, h' = h ++ ext) ∧ WF h' ∧ c < h'.length ∧ (h.length ≤ c ∨ isBytes h' c = true) ∧
    (∀ x, Reach h' c x → h.length ≤ x ∨ isBytes h' x = true) ∧
    ∀ n, absVal n h' c = absVal n h o := by
  unfold copyWith at hcp
  cases hcv : copyVal cfg fuel h [] (.ref o) with
  | none => simp [hcv] at hcp
  | some r =>
    obtain ⟨h1, m1, v1⟩ := r
    cases v1 with
    | ph => simp [hcv] at hcp
    | leaf t => simp [hcv] at hcp
    | ref c' =>
      simp only [hcv, Option.some.injEq, Prod.mk.injEq] at hcp
      obtain ⟨rfl, rfl⟩ := hcp
      obtain ⟨hext, hinv, hr, hfr, hval⟩ := spec_copyVal h.length cfg hcfg fuel h [] (.ref o) _ _ _
        (Inv.init hw) (by intro r hr; simp [HVal.refs] at hr; subst hr; exact ho) hcv
      have hc0 := hfr c' (by simp [HVal.refs])
      exact ⟨hext, ⟨hinv.closed, hinv.unk⟩, hr c' (by simp [HVal.refs]), hc0,
        fun x hx => hinv.reach_fresh hc0 hx, hval⟩

end Bp.Hp
