import BpProofs.HeapBasic
/-
  Mutations of the heap model: what a mutation can change (only cells reachable from its target,
  never a bytes object), which references it can create (only ones it was handed, or new
  objects), and the SEPARATION invariant that makes two object graphs independent.
-/
namespace Bp.Hp

/-! ### list helpers -/

theorem mem_clearSlots {b : Nat} {sibs : List Nat} {sl : List HVal} (hb : HVal.ref b ∈ clearSlots sibs sl) :
    HVal.ref b ∈ sl := by
  induction sibs generalizing sl with
  | nil => exact hb
  | cons s r ih =>
    have := ih hb
    rcases List.mem_or_eq_of_mem_set this with hh | hh
    · exact hh
    · cases hh

theorem mem_dictPut {b : Nat} {ks : List Nat} {vs : List HVal} {k : Nat} {v : HVal}
    (hb : HVal.ref b ∈ (dictPut ks vs k v).2) : HVal.ref b ∈ vs ∨ HVal.ref b = v := by
  induction ks generalizing vs with
  | nil => simp [dictPut] at hb; exact Or.inr hb
  | cons k' ks ih =>
    cases vs with
    | nil => simp [dictPut] at hb; exact Or.inr hb
    | cons v' vs =>
      simp only [dictPut] at hb
      split at hb
      · simp only [List.mem_cons] at hb
        rcases hb with hb | hb
        · exact Or.inr hb
        · exact Or.inl (List.mem_cons_of_mem _ hb)
      · simp only [List.mem_cons] at hb
        rcases hb with hb | hb
        · exact Or.inl (by rw [hb]; exact List.mem_cons_self)
        · rcases ih hb with hh | hh
          · exact Or.inl (List.mem_cons_of_mem _ hh)
          · exact Or.inr hh

theorem ref_mem_refs {b : Nat} {v : HVal} (h : HVal.ref b = v) : b ∈ v.refs := by
  subst h; simp [HVal.refs]

theorem getElem?_set_some {h : Heap} {t a : Nat} {c c' : Cell} (hc : (h.set t c)[a]? = some c') :
    (t = a ∧ c' = c) ∨ (t ≠ a ∧ h[a]? = some c') := by
  rw [List.getElem?_set] at hc
  by_cases hta : t = a
  · simp only [hta, if_true] at hc
    by_cases hl : a < h.length
    · simp only [hl, if_true] at hc; cases hc; exact Or.inl ⟨hta, rfl⟩
    · simp only [hl, if_false] at hc; cases hc
  · simp only [hta, if_false] at hc
    exact Or.inr ⟨hta, hc⟩

/-! ### what one mutation does -/

theorem applyMut_length (h : Heap) (mu : Mut) : h.length ≤ (applyMut h mu).length := by
  cases mu <;> simp only [applyMut] <;> (try split) <;> (try split) <;> simp

/-- a cell that exists before and differs after is reachable from the mutation's target and is not a bytes object -/
theorem applyMut_changed (h : Heap) (mu : Mut) (x : Nat) (hx : x < h.length)
    (hne : (applyMut h mu)[x]? ≠ h[x]?) : (∃ t ∈ mu.touched, Reach h t x) ∧ isBytes h x = false := by
  have single : ∀ (t : Nat) (c c0 : Cell), h[t]? = some c0 → (∀ bs, c0 ≠ .bytes bs) → t ∈ mu.touched →
      (h.set t c)[x]? ≠ h[x]? → (∃ t ∈ mu.touched, Reach h t x) ∧ isBytes h x = false := by
    intro t c c0 ht hnb hmem hne'
    have hxt : t = x := by
      by_contra hc; exact hne' (by rw [List.getElem?_set]; simp [hc])
    subst hxt
    refine ⟨⟨t, hmem, .refl _⟩, ?_⟩
    unfold isBytes; rw [ht]
    cases c0 <;> simp at hnb ⊢
  cases mu with
  | setSlot t i v =>
    simp only [applyMut] at hne
    split at hne
    · rename_i sl ow u g ht
      exact single t _ _ ht (by intro bs; simp) (by simp [Mut.touched]) hne
    · exact absurd rfl hne
  | fill t i v =>
    simp only [applyMut] at hne
    split at hne
    · rename_i sl ow u g ht
      split at hne
      · exact single t _ _ ht (by intro bs; simp) (by simp [Mut.touched]) hne
      · exact absurd rfl hne
    · exact absurd rfl hne
  | listAppend t v =>
    simp only [applyMut] at hne
    split at hne
    · rename_i it ht
      exact single t _ _ ht (by intro bs; simp) (by simp [Mut.touched]) hne
    · exact absurd rfl hne
  | listClear t =>
    simp only [applyMut] at hne
    split at hne
    · rename_i it ht
      exact single t _ _ ht (by intro bs; simp) (by simp [Mut.touched]) hne
    · exact absurd rfl hne
  | dictSet t k v =>
    simp only [applyMut] at hne
    split at hne
    · rename_i ks vs ht
      exact single t _ _ ht (by intro bs; simp) (by simp [Mut.touched]) hne
    · exact absurd rfl hne
  | selectMember t g i sibs v =>
    simp only [applyMut] at hne
    split at hne
    · rename_i sl ow u gc ht
      by_cases hxt : t = x
      · subst hxt
        refine ⟨⟨t, by simp [Mut.touched], .refl _⟩, ?_⟩
        unfold isBytes; rw [ht]
      · rw [List.getElem?_set] at hne
        simp only [hxt, if_false] at hne
        split at hne
        · rename_i sel hgc
          have hxg : gc = x := by
            by_contra hc; exact hne (by rw [List.getElem?_set]; simp [hc])
          subst hxg
          refine ⟨⟨t, by simp [Mut.touched], Reach.edge ht (by simp [Cell.refs])⟩, ?_⟩
          unfold isBytes; rw [hgc]
        · exact absurd rfl hne
    · exact absurd rfl hne
  | mergeUnknown t bs =>
    simp only [applyMut] at hne
    split at hne
    · rename_i sl ow u g ht
      rw [List.getElem?_append_left (by simpa using hx)] at hne
      exact single t _ _ ht (by intro bs; simp) (by simp [Mut.touched]) hne
    · exact absurd rfl hne
  | newMsg ns ng =>
    simp only [applyMut] at hne
    rw [List.getElem?_append_left hx] at hne; exact absurd rfl hne
  | newList =>
    simp only [applyMut] at hne
    rw [List.getElem?_append_left hx] at hne; exact absurd rfl hne
  | newDict =>
    simp only [applyMut] at hne
    rw [List.getElem?_append_left hx] at hne; exact absurd rfl hne

/-- the object a mutation is invoked on -/
def Mut.target : Mut → Option Nat
  | .setSlot t _ _ => some t
  | .fill t _ _ => some t
  | .listAppend t _ => some t
  | .listClear t => some t
  | .dictSet t _ _ => some t
  | .selectMember t _ _ _ _ => some t
  | .mergeUnknown t _ => some t
  | _ => none

/-- sharper: the only cells a mutation changes are its target (a message, list or dict) and, for
    a oneof assignment, the target message's own `_group_current` dict -/
theorem applyMut_changed_target (h : Heap) (mu : Mut) (x : Nat) (hx : x < h.length)
    (hne : (applyMut h mu)[x]? ≠ h[x]?) :
    (mu.target = some x ∧ ∀ sel, h[x]? ≠ some (.gcur sel)) ∨
    ∃ t sl ow u sel, mu.target = some t ∧ h[t]? = some (.msg sl ow u x) ∧ h[x]? = some (.gcur sel) := by
  have single : ∀ (t : Nat) (c c0 : Cell), h[t]? = some c0 → (∀ sel, c0 ≠ .gcur sel) → mu.target = some t →
      (h.set t c)[x]? ≠ h[x]? → mu.target = some x ∧ ∀ sel, h[x]? ≠ some (.gcur sel) := by
    intro t c c0 ht hk hmem hne'
    have hxt : t = x := by
      by_contra hc; exact hne' (by rw [List.getElem?_set]; simp [hc])
    subst hxt
    refine ⟨hmem, ?_⟩
    intro sel hsel
    rw [ht] at hsel; cases hsel; exact hk sel rfl
  cases mu with
  | setSlot t i v =>
    simp only [applyMut] at hne
    split at hne
    · rename_i ht
      exact Or.inl (single t _ _ ht (by intro sel; simp) rfl hne)
    · exact absurd rfl hne
  | fill t i v =>
    simp only [applyMut] at hne
    split at hne
    · rename_i ht
      split at hne
      · exact Or.inl (single t _ _ ht (by intro sel; simp) rfl hne)
      · exact absurd rfl hne
    · exact absurd rfl hne
  | listAppend t v =>
    simp only [applyMut] at hne
    split at hne
    · rename_i ht
      exact Or.inl (single t _ _ ht (by intro sel; simp) rfl hne)
    · exact absurd rfl hne
  | listClear t =>
    simp only [applyMut] at hne
    split at hne
    · rename_i ht
      exact Or.inl (single t _ _ ht (by intro sel; simp) rfl hne)
    · exact absurd rfl hne
  | dictSet t k v =>
    simp only [applyMut] at hne
    split at hne
    · rename_i ht
      exact Or.inl (single t _ _ ht (by intro sel; simp) rfl hne)
    · exact absurd rfl hne
  | selectMember t g i sibs v =>
    simp only [applyMut] at hne
    split at hne
    · rename_i sl ow u gc ht
      by_cases hxt : t = x
      · subst hxt
        refine Or.inl ⟨rfl, ?_⟩
        intro sel hsel; rw [ht] at hsel; cases hsel
      · rw [List.getElem?_set] at hne
        simp only [hxt, if_false] at hne
        split at hne
        · rename_i sel hgc
          have hxg : gc = x := by
            by_contra hc; exact hne (by rw [List.getElem?_set]; simp [hc])
          subst hxg
          exact Or.inr ⟨t, sl, ow, u, sel, rfl, ht, hgc⟩
        · exact absurd rfl hne
    · exact absurd rfl hne
  | mergeUnknown t bs =>
    simp only [applyMut] at hne
    split at hne
    · rename_i ht
      rw [List.getElem?_append_left (by simpa using hx)] at hne
      exact Or.inl (single t _ _ ht (by intro sel; simp) rfl hne)
    · exact absurd rfl hne
  | newMsg ns ng =>
    simp only [applyMut] at hne
    rw [List.getElem?_append_left hx] at hne; exact absurd rfl hne
  | newList =>
    simp only [applyMut] at hne
    rw [List.getElem?_append_left hx] at hne; exact absurd rfl hne
  | newDict =>
    simp only [applyMut] at hne
    rw [List.getElem?_append_left hx] at hne; exact absurd rfl hne

/-- a reference found in a cell after the mutation was there before, or was handed to the
    mutation, or points to an object the mutation created -/
def EdgeOK (h h' : Heap) (P : List Nat) : Prop :=
  ∀ (a : Nat) (c' : Cell) (b : Nat), h'[a]? = some c' → b ∈ c'.refs →
    (∃ c, h[a]? = some c ∧ b ∈ c.refs) ∨ b ∈ P ∨ (h.length ≤ b ∧ b < h'.length)

theorem edgeOK_refl (h : Heap) (P : List Nat) : EdgeOK h h P :=
  fun _ c' _ hc hb => Or.inl ⟨c', hc, hb⟩

theorem edgeOK_set (h : Heap) (P : List Nat) (t : Nat) (c0 c : Cell) (ht : h[t]? = some c0)
    (hrefs : ∀ b ∈ c.refs, b ∈ c0.refs ∨ b ∈ P) : EdgeOK h (h.set t c) P := by
  intro a c' b hc hb
  rcases getElem?_set_some hc with ⟨rfl, rfl⟩ | ⟨_, hc⟩
  · rcases hrefs b hb with hh | hh
    · exact Or.inl ⟨c0, ht, hh⟩
    · exact Or.inr (Or.inl hh)
  · exact Or.inl ⟨c', hc, hb⟩

theorem edgeOK_append (h ext : Heap) (P : List Nat)
    (hnew : ∀ c ∈ ext, ∀ b ∈ c.refs, h.length ≤ b ∧ b < h.length + ext.length) : EdgeOK h (h ++ ext) P := by
  intro a c' b hc hb
  by_cases hlt : a < h.length
  · rw [List.getElem?_append_left hlt] at hc
    exact Or.inl ⟨c', hc, hb⟩
  · rw [List.getElem?_append_right (by omega)] at hc
    have := hnew c' (List.mem_of_getElem? hc) b hb
    exact Or.inr (Or.inr (by simpa using this))

theorem applyMut_edges (h : Heap) (mu : Mut) : EdgeOK h (applyMut h mu) mu.touched := by
  cases mu with
  | setSlot t i v =>
    simp only [applyMut]
    split
    · rename_i sl ow u g ht
      apply edgeOK_set h _ t _ _ ht
      intro b hb
      simp only [Cell.refs, List.mem_cons, mem_itemRefs] at hb ⊢
      rcases hb with hb | hb | hb
      · exact Or.inl (Or.inl hb)
      · exact Or.inl (Or.inr (Or.inl hb))
      · rcases List.mem_or_eq_of_mem_set hb with hh | hh
        · exact Or.inl (Or.inr (Or.inr hh))
        · exact Or.inr (by simp [Mut.touched, ref_mem_refs hh])
    · exact edgeOK_refl _ _
  | fill t i v =>
    simp only [applyMut]
    split
    · rename_i sl ow u g ht
      split
      · apply edgeOK_set h _ t _ _ ht
        intro b hb
        simp only [Cell.refs, List.mem_cons, mem_itemRefs] at hb ⊢
        rcases hb with hb | hb | hb
        · exact Or.inl (Or.inl hb)
        · exact Or.inl (Or.inr (Or.inl hb))
        · rcases List.mem_or_eq_of_mem_set hb with hh | hh
          · exact Or.inl (Or.inr (Or.inr hh))
          · exact Or.inr (by simp [Mut.touched, ref_mem_refs hh])
      · exact edgeOK_refl _ _
    · exact edgeOK_refl _ _
  | listAppend t v =>
    simp only [applyMut]
    split
    · rename_i it ht
      apply edgeOK_set h _ t _ _ ht
      intro b hb
      simp only [Cell.refs, mem_itemRefs, List.mem_append, List.mem_singleton] at hb ⊢
      rcases hb with hb | hb
      · exact Or.inl hb
      · exact Or.inr (by simp [Mut.touched, ref_mem_refs hb])
    · exact edgeOK_refl _ _
  | listClear t =>
    simp only [applyMut]
    split
    · rename_i it ht
      apply edgeOK_set h _ t _ _ ht
      intro b hb
      simp [Cell.refs, itemRefs] at hb
    · exact edgeOK_refl _ _
  | dictSet t k v =>
    simp only [applyMut]
    split
    · rename_i ks vs ht
      apply edgeOK_set h _ t _ _ ht
      intro b hb
      simp only [Cell.refs, mem_itemRefs] at hb ⊢
      rcases mem_dictPut hb with hh | hh
      · exact Or.inl hh
      · exact Or.inr (by simp [Mut.touched, ref_mem_refs hh])
    · exact edgeOK_refl _ _
  | selectMember t g i sibs v =>
    simp only [applyMut]
    split
    · rename_i sl ow u gc ht
      intro a c' b hc hb
      rcases getElem?_set_some hc with ⟨rfl, rfl⟩ | ⟨_, hc⟩
      · simp only [Cell.refs, List.mem_cons, mem_itemRefs] at hb
        rcases hb with hb | hb | hb
        · exact Or.inl ⟨_, ht, by simp [Cell.refs, hb]⟩
        · exact Or.inl ⟨_, ht, by simp [Cell.refs, hb]⟩
        · rcases List.mem_or_eq_of_mem_set hb with hh | hh
          · exact Or.inl ⟨_, ht, by simp [Cell.refs, mem_itemRefs, mem_clearSlots hh]⟩
          · exact Or.inr (Or.inl (by simp [Mut.touched, ref_mem_refs hh]))
      · split at hc
        · rename_i sel hgc
          rcases getElem?_set_some hc with ⟨rfl, rfl⟩ | ⟨_, hc⟩
          · simp [Cell.refs] at hb
          · exact Or.inl ⟨c', hc, hb⟩
        · exact Or.inl ⟨c', hc, hb⟩
    · exact edgeOK_refl _ _
  | mergeUnknown t bs =>
    simp only [applyMut]
    split
    · rename_i sl ow u g ht
      intro a c' b hc hb
      by_cases hlt : a < h.length
      · rw [List.getElem?_append_left (by simpa using hlt)] at hc
        rcases getElem?_set_some hc with ⟨rfl, rfl⟩ | ⟨_, hc⟩
        · simp only [Cell.refs, List.mem_cons] at hb
          rcases hb with hb | hb | hb
          · subst hb; exact Or.inr (Or.inr ⟨Nat.le_refl _, by simp⟩)
          · exact Or.inl ⟨_, ht, by simp [Cell.refs, hb]⟩
          · exact Or.inl ⟨_, ht, by simp [Cell.refs, hb]⟩
        · exact Or.inl ⟨c', hc, hb⟩
      · rw [List.getElem?_append_right (by simpa using hlt)] at hc
        have := List.mem_of_getElem? hc
        simp only [List.mem_singleton] at this
        subst this; simp [Cell.refs] at hb
    · exact edgeOK_refl _ _
  | newMsg ns ng =>
    simp only [applyMut]
    apply edgeOK_append
    intro c hc b hb
    simp only [List.mem_cons, List.not_mem_nil, or_false] at hc
    rcases hc with rfl | rfl | rfl
    · simp [Cell.refs] at hb
    · simp [Cell.refs] at hb
    · simp only [Cell.refs, List.mem_cons, mem_itemRefs] at hb
      rcases hb with hb | hb | hb
      · subst hb; simp
      · subst hb; simp
      · have := List.eq_of_mem_replicate hb; cases this
  | newList =>
    simp only [applyMut]
    apply edgeOK_append
    intro c hc b hb
    simp only [List.mem_singleton] at hc
    subst hc; simp [Cell.refs, itemRefs] at hb
  | newDict =>
    simp only [applyMut]
    apply edgeOK_append
    intro c hc b hb
    simp only [List.mem_singleton] at hc
    subst hc; simp [Cell.refs, itemRefs] at hb

theorem newRoots_range (h : Heap) (mu : Mut) :
    ∀ r ∈ mu.newRoots h, h.length ≤ r ∧ r < (applyMut h mu).length := by
  cases mu <;> simp [Mut.newRoots, applyMut]

/-! ### separation -/

/-- the program holding `roots` and the object `o` are SEPARATED: whatever is reachable from both
    is an immutable bytes object -/
structure Sep (h : Heap) (o : Nat) (roots : List Nat) : Prop where
  closed : Closed h
  oIn : o < h.length
  rootsIn : ∀ r ∈ roots, r < h.length
  sep : ∀ x, ReachL h roots x → Reach h o x → isBytes h x = true

/-- the mutation is applied THROUGH `roots`: its target and every reference it stores are
    reachable from them -/
def LegalMut (h : Heap) (roots : List Nat) (mu : Mut) : Prop := ∀ t ∈ mu.touched, ReachL h roots t

/-- a whole program: each step goes through the roots; objects it constructs become roots -/
def Legal : Heap → List Nat → List Mut → Prop
  | _, _, [] => True
  | h, roots, mu :: ms => LegalMut h roots mu ∧ Legal (applyMut h mu) (mu.newRoots h ++ roots) ms

theorem legalB_sound (h : Heap) (roots : List Nat) (ms : List Mut) (hb : legalB h roots ms = true) :
    Legal h roots ms := by
  induction ms generalizing h roots with
  | nil => trivial
  | cons mu ms ih =>
    simp only [legalB, Bool.and_eq_true, List.all_eq_true, List.any_eq_true, List.contains_iff_mem] at hb
    refine ⟨?_, ih _ _ hb.2⟩
    intro t ht
    obtain ⟨r, hr, hrt⟩ := hb.1 t ht
    exact ⟨r, hr, reach_sound h r t hrt⟩

/-- cells reachable from `o` are untouched by a legal mutation -/
theorem Sep.untouched {h : Heap} {o : Nat} {roots : List Nat} (hs : Sep h o roots) {mu : Mut}
    (hl : LegalMut h roots mu) {x : Nat} (hx : Reach h o x) : (applyMut h mu)[x]? = h[x]? := by
  by_contra hne
  have hxl : x < h.length := hs.closed.reach hs.oIn hx
  obtain ⟨⟨t, ht, htx⟩, hnb⟩ := applyMut_changed h mu x hxl hne
  obtain ⟨r, hr, hrt⟩ := hl t ht
  have := hs.sep x ⟨r, hr, hrt.trans htx⟩ hx
  rw [this] at hnb; cases hnb

/-- **one step**: the value of `o` is unchanged and separation is kept -/
theorem Sep.step {h : Heap} {o : Nat} {roots : List Nat} (hs : Sep h o roots) {mu : Mut}
    (hl : LegalMut h roots mu) :
    (∀ n, absVal n (applyMut h mu) o = absVal n h o) ∧ Sep (applyMut h mu) o (mu.newRoots h ++ roots) := by
  have hun : ∀ x, Reach h o x → (applyMut h mu)[x]? = h[x]? := fun x hx => hs.untouched hl hx
  have hlen := applyMut_length h mu
  have hedges := applyMut_edges h mu
  -- whatever the legal roots reach in the old heap is in range
  have hreachIn : ∀ t, ReachL h roots t → t < h.length := by
    rintro t ⟨r, hr, hrt⟩; exact hs.closed.reach (hs.rootsIn r hr) hrt
  constructor
  · intro n
    apply absV_frame
    rintro x ⟨r, hr, hrx⟩
    simp [HVal.refs] at hr; subst hr
    exact hun x hrx
  · refine ⟨?_, by have := hs.oIn; omega, ?_, ?_⟩
    · -- closed
      intro a c' hc b hb
      rcases hedges a c' b hc hb with ⟨c, hc0, hb0⟩ | hP | ⟨_, hlt⟩
      · have := hs.closed a c hc0 b hb0; omega
      · have := hreachIn b (hl b hP); omega
      · exact hlt
    · intro r hr
      rcases List.mem_append.mp hr with hr | hr
      · exact (newRoots_range h mu r hr).2
      · have := hs.rootsIn r hr; omega
    · intro x hrx hox
      have hox' : Reach h o x := Reach.transport_back hun hox
      have hxl : x < h.length := hs.closed.reach hs.oIn hox'
      -- reachable from the new roots in the new heap: reachable from the old roots before, or a new object
      have key : ∀ a y, (ReachL h roots a ∨ h.length ≤ a) → Reach (applyMut h mu) a y →
          (ReachL h roots y ∨ h.length ≤ y) := by
        intro a y ha hay
        induction hay with
        | refl => exact ha
        | @step a b y c' hc hb _ ih =>
          apply ih
          rcases hedges a c' b hc hb with ⟨c, hc0, hb0⟩ | hP | ⟨hge, _⟩
          · rcases ha with ⟨r, hr, hra⟩ | ha
            · exact Or.inl ⟨r, hr, hra.trans (Reach.edge hc0 hb0)⟩
            · rw [List.getElem?_eq_none ha] at hc0; cases hc0
          · exact Or.inl (hl b hP)
          · exact Or.inr hge
      obtain ⟨r, hr, hrx'⟩ := hrx
      have hr0 : ReachL h roots r ∨ h.length ≤ r := by
        rcases List.mem_append.mp hr with hr | hr
        · exact Or.inr (newRoots_range h mu r hr).1
        · exact Or.inl ⟨r, hr, .refl _⟩
      rcases key r x hr0 hrx' with hh | hh
      · rw [isBytes_congr (hun x hox')]
        exact hs.sep x hh hox'
      · omega

/-- **any sequence**: a legal program never changes the value of an object it is separated from -/
theorem Sep.run {h : Heap} {o : Nat} {roots : List Nat} (hs : Sep h o roots) (ms : List Mut)
    (hl : Legal h roots ms) : ∀ n, absVal n (runMuts h ms) o = absVal n h o := by
  induction ms generalizing h roots with
  | nil => intro n; rfl
  | cons mu ms ih =>
    obtain ⟨hl1, hl2⟩ := hl
    obtain ⟨hv, hs'⟩ := hs.step hl1
    intro n
    simp only [runMuts]
    rw [ih hs' hl2 n, hv n]

end Bp.Hp
