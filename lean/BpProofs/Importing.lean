import BpModel.Importing
import BpProofs.Casing
import BpProofs.CasingClass
/-
  Lemmas about the model of compile/importing.py (property statements: Props/C13.lean).
-/
namespace Bp.Importing
open Bp.Casing Bp.Naming

theorem dropLast_lastD : ∀ l : Pkg, l ≠ [] → l.dropLast ++ [lastD l] = l
  | [], h => absurd rfl h
  | [a], _ => by simp [lastD]
  | a :: b :: l, _ => by
    have ih := dropLast_lastD (b :: l) (by simp)
    simp only [lastD] at ih ⊢
    simp only [List.dropLast_cons_cons, List.cons_append, List.getLast?_cons_cons]
    rw [ih]

theorem lastD_cons (x : Str) (l : Pkg) (h : l ≠ []) : lastD (x :: l) = lastD l := by
  cases l with
  | nil => exact absurd rfl h
  | cons y l => simp [lastD]

theorem lastD_append (a b : Pkg) (h : b ≠ []) : lastD (a ++ b) = lastD b := by
  induction a with
  | nil => rfl
  | cons x a ih =>
    rw [List.cons_append, lastD_cons _ _ (by simp [h]), ih]

theorem mem_of_mem_drop' {α} {l : List α} {n : Nat} {x : α} (h : x ∈ l.drop n) : x ∈ l :=
  List.mem_of_mem_drop h

theorem lastD_mem (l : Pkg) (h : l ≠ []) : lastD l ∈ l := by
  have : lastD l ∈ l.dropLast ++ [lastD l] := by simp
  rwa [dropLast_lastD l h] at this

theorem dotted_ne_nil : ∀ p : Pkg, p ≠ [] → (∀ s ∈ p, s ≠ []) → dotted p ≠ []
  | [], h, _ => absurd rfl h
  | [a], _, hs => by simpa [dotted, joinWith] using hs a (by simp)
  | a :: b :: l, _, hs => by
    have := hs a (by simp)
    simp [dotted, joinWith, this]

theorem up_zero (cur : Pkg) : up cur 0 = some cur := by simp [up]

/-! ### common prefix -/

theorem commonPrefix_take_left : ∀ a b : Pkg, a.take (commonPrefix a b).length = commonPrefix a b
  | [], _ => by simp [commonPrefix]
  | _ :: _, [] => by simp [commonPrefix]
  | x :: a, y :: b => by
    by_cases h : x = y
    · simp [commonPrefix, h, commonPrefix_take_left a b]
    · simp [commonPrefix, h]

theorem commonPrefix_take_right : ∀ a b : Pkg, b.take (commonPrefix a b).length = commonPrefix a b
  | [], _ => by simp [commonPrefix]
  | _ :: _, [] => by simp [commonPrefix]
  | x :: a, y :: b => by
    by_cases h : x = y
    · simp [commonPrefix, h, commonPrefix_take_right a b]
    · simp [commonPrefix, h]

theorem commonPrefix_length_le_left : ∀ a b : Pkg, (commonPrefix a b).length ≤ a.length
  | [], _ => by simp [commonPrefix]
  | _ :: _, [] => by simp [commonPrefix]
  | x :: a, y :: b => by
    by_cases h : x = y
    · simp [commonPrefix, h, commonPrefix_length_le_left a b]
    · simp [commonPrefix, h]

/-! ### the four relative cases -/

theorem sibling_resolves (cur : Pkg) (pyType : Str) :
    denote cur ((referenceSibling pyType).imp.bind cur) (referenceSibling pyType).ref = some (.gen cur, pyType) := by
  simp [referenceSibling, Import.bind, denote]

theorem descendent_resolves (cur tgt : Pkg) (pyType : Str)
    (hpre : tgt.take cur.length = cur) (hne : tgt ≠ cur)
    (hseg : ∀ s ∈ tgt, isClassName s = false ∧ s ≠ []) :
    denote cur ((referenceDescendent cur tgt pyType).imp.bind cur) (referenceDescendent cur tgt pyType).ref
      = some (.gen tgt, pyType) := by
  have hsplit : cur ++ tgt.drop cur.length = tgt := by
    have := List.take_append_drop cur.length tgt
    rwa [hpre] at this
  have himp : tgt.drop cur.length ≠ [] := by
    intro h
    rw [h, List.append_nil] at hsplit
    exact hne hsplit.symm
  have hlast := dropLast_lastD _ himp
  have hmem : lastD (tgt.drop cur.length) ∈ tgt := mem_of_mem_drop' (lastD_mem _ himp)
  have hcls := (hseg _ hmem).1
  have htgt : cur ++ (tgt.drop cur.length).dropLast ++ [lastD (tgt.drop cur.length)] = tgt := by
    rw [List.append_assoc, hlast, hsplit]
  unfold referenceDescendent
  simp only
  split <;> simp [Import.bind, up_zero, denote, hcls, htgt]

theorem ancestor_resolves (cur tgt : Pkg) (pyType : Str)
    (hpre : cur.take tgt.length = tgt)
    (hseg : ∀ s ∈ tgt, isClassName s = false ∧ s ≠ [])
    (hty : isClassName pyType = true) :
    denote cur ((referenceAncestor cur tgt pyType).imp.bind cur) (referenceAncestor cur tgt pyType).ref
      = some (.gen tgt, pyType) := by
  have hlen : tgt.length ≤ cur.length := by
    have := congrArg List.length hpre
    simp at this
    omega
  unfold referenceAncestor
  simp only
  cases htg : tgt with
  | nil =>
    simp [Import.bind, up, denote, hty]
  | cons t0 tl =>
    have hnonempty : tgt ≠ [] := by rw [htg]; simp
    have hl : tgt.length = tl.length + 1 := by rw [htg]; simp
    have hcls := (hseg _ (lastD_mem tgt hnonempty)).1
    have hup : up cur (cur.length - tgt.length + 1) = some tgt.dropLast := by
      unfold up
      have h1 : cur.length - tgt.length + 1 ≤ cur.length := by omega
      simp only [h1, if_true]
      have h2 : cur.length - (cur.length - tgt.length + 1) = tgt.length - 1 := by omega
      rw [h2, List.dropLast_eq_take, ← hpre, List.take_take]
      congr 2
      simp
      omega
    have htgt := dropLast_lastD tgt hnonempty
    rw [← htg]
    simp only [List.isEmpty_iff, hnonempty, if_false, Import.bind, hup, hcls, denote, List.append_nil,
      Option.getD_some, htgt]
    simp

theorem cousin_resolves (cur tgt : Pkg) (pyType : Str)
    (hnd : cur.take tgt.length ≠ tgt)
    (hseg : ∀ s ∈ tgt, isClassName s = false ∧ s ≠ []) :
    denote cur ((referenceCousin cur tgt pyType).imp.bind cur) (referenceCousin cur tgt pyType).ref
      = some (.gen tgt, pyType) := by
  have hL := commonPrefix_take_left cur tgt
  have hR := commonPrefix_take_right cur tgt
  have hle := commonPrefix_length_le_left cur tgt
  generalize hsh : commonPrefix cur tgt = shared at hL hR hle
  have hsplit : shared ++ tgt.drop shared.length = tgt := by
    have := List.take_append_drop shared.length tgt
    rwa [hR] at this
  have hrest : tgt.drop shared.length ≠ [] := by
    intro h
    rw [h, List.append_nil] at hsplit
    apply hnd
    rw [← hsplit]
    exact hL
  have hlast : lastD tgt = lastD (tgt.drop shared.length) := by
    conv => lhs; rw [← hsplit]
    exact lastD_append _ _ hrest
  have hcls := (hseg _ (mem_of_mem_drop' (lastD_mem _ hrest))).1
  have hup : up cur (cur.length - shared.length) = some shared := by
    unfold up
    have h1 : cur.length - shared.length ≤ cur.length := by omega
    simp only [h1, if_true]
    have h2 : cur.length - (cur.length - shared.length) = shared.length := by omega
    rw [h2, hL]
  have htgt : shared ++ (tgt.drop shared.length).dropLast ++ [lastD (tgt.drop shared.length)] = tgt := by
    rw [List.append_assoc, dropLast_lastD _ hrest, hsplit]
  unfold referenceCousin
  simp only [hsh, Import.bind, hup, hlast, hcls, denote, Option.getD_some, htgt]
  simp

/-- the dispatch of `get_type_reference`: every target below the generated root resolves -/
theorem refCore_resolves (cur tgt : Pkg) (pyType : Str)
    (hseg : ∀ s ∈ tgt, isClassName s = false ∧ s ≠ [])
    (hbp : tgt.take 1 ≠ ["betterproto".toList])
    (hty : isClassName pyType = true) :
    denote cur ((refCore cur tgt pyType).imp.bind cur) (refCore cur tgt pyType).ref = some (.gen tgt, pyType) := by
  unfold refCore
  simp only [hbp, if_false]
  by_cases h1 : tgt = cur
  · simp only [h1, if_true]
    exact sibling_resolves cur pyType
  · simp only [h1, if_false]
    by_cases h2 : tgt.take cur.length = cur
    · simp only [h2, if_true]
      exact descendent_resolves cur tgt pyType h2 h1 hseg
    · simp only [h2, if_false]
      by_cases h3 : cur.take tgt.length = tgt
      · simp only [h3, if_true]
        exact ancestor_resolves cur tgt pyType h3 hseg hty
      · simp only [h3, if_false]
        exact cousin_resolves cur tgt pyType h3 hseg

/-- well-known types: the absolute import of the bundled library -/
theorem absolute_resolves (cur py : Pkg) (pyType : Str) :
    denote cur ((referenceAbsolute py pyType).imp.bind cur) (referenceAbsolute py pyType).ref = some (.abs py, pyType) := by
  simp [referenceAbsolute, Import.bind, denote]

end Bp.Importing
