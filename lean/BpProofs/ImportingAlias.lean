import BpModel.Importing
import BpProofs.Casing
import BpProofs.CasingClass
import BpProofs.Importing
import BpProofs.ImportingParse
/-
  C13, "when many such references coexist in one module": the alias algebra.
  Every name a generated import binds is `enc k ws` = k underscores, the `_`-join of a
  non-empty list of package segments, and `__` when k > 0 — or, for a class of the root
  package, k underscores + ClassName + `__`.  With simple segments (`simpleSeg`) the code
  `(k, ws)` is read back from the name, and `(k, ws)` determines the module.
-/
namespace Bp.Importing
open Bp.Casing Bp.Naming

def uu : Str := "__".toList

/-! ### simple segments -/

theorem simpleSeg_parts {s : Str} (h : simpleSeg s = true) :
    (∃ c t, s = c :: t ∧ cls c = .lo) ∧ tokens s = [s] ∧ lowerW s = s ∧ s ∉ kw := by
  unfold simpleSeg at h
  simp only [Bool.and_eq_true, decide_eq_true_eq, Bool.not_eq_true', List.contains_eq_mem, decide_eq_false_iff_not] at h
  obtain ⟨⟨⟨h1, h2⟩, h3⟩, h4⟩ := h
  refine ⟨?_, h2, h3, h4⟩
  cases s with
  | nil => simp at h1
  | cons c t => exact ⟨c, t, rfl, by simpa using h1⟩

theorem simpleSeg_ld {s : Str} (h : simpleSeg s = true) : LDWord s := by
  obtain ⟨-, ht, hl, -⟩ := simpleSeg_parts h
  have : Tok s := tokens_tok s s (by rw [ht]; simp)
  have := ldword_lowerW this
  rwa [hl] at this

theorem ld_chars {s : Str} (h : LDWord s) : ∀ c ∈ s, cls c = .lo ∨ cls c = .dg := by
  obtain ⟨-, l, d, rfl, hl, hd⟩ := h
  intro c hc
  rcases List.mem_append.1 hc with h | h
  · exact Or.inl (hl c h)
  · exact Or.inr (hd c h)

theorem simpleSeg_no_us {s : Str} (h : simpleSeg s = true) : '_' ∉ s := by
  intro hm
  rcases ld_chars (simpleSeg_ld h) _ hm with h | h <;> simp [cls_underscore] at h

theorem simpleSeg_ne_nil {s : Str} (h : simpleSeg s = true) : s ≠ [] := (simpleSeg_ld h).1

theorem simpleSeg_segOk {s : Str} (h : simpleSeg s = true) : segOk s = true := by
  obtain ⟨⟨c, t, rfl, hc⟩, -, -, -⟩ := simpleSeg_parts h
  have hch := ld_chars (simpleSeg_ld h)
  unfold segOk
  simp only [Bool.and_eq_true, Bool.not_eq_true', List.all_eq_true, bne_iff_ne, ne_eq]
  refine ⟨⟨by simp, ?_⟩, by simp [isClassName, hc]⟩
  intro x hx
  rcases hch x hx with h | h <;> simp [identChar, h]

theorem simplePkg_pkgOk {p : Pkg} (h : simplePkg p = true) : pkgOk p = true := by
  simp only [simplePkg, pkgOk, List.all_eq_true] at h ⊢
  exact fun s hs => simpleSeg_segOk (h s hs)

theorem simplePkg_mem {p : Pkg} (h : simplePkg p = true) : ∀ s ∈ p, simpleSeg s = true := by
  simpa [simplePkg, List.all_eq_true] using h

/-! ### `_`-joins of simple segments -/

theorem joinWith_eq_joinU : ∀ ws : List Str, joinWith '_' ws = joinU ws
  | [] => rfl
  | [w] => rfl
  | w :: w2 :: ws => by simp only [joinWith, joinU]; rw [joinWith_eq_joinU (w2 :: ws)]

theorem joinWith_head (sep : Char) (c : Char) (t : Str) (ws : List Str) :
    ∃ t', joinWith sep ((c :: t) :: ws) = c :: t' := by
  cases ws with
  | nil => exact ⟨t, rfl⟩
  | cons w ws => exact ⟨_, rfl⟩

theorem kw_no_us : ∀ k ∈ kw, '_' ∉ k := by decide

theorem mem_joinWith_sep (sep : Char) : ∀ (w w2 : Str) (ws : List Str), sep ∈ joinWith sep (w :: w2 :: ws) := by
  intro w w2 ws
  simp [joinWith]

/-- `safe_snake_case(".".join(ws))` is the `_`-join when the segments are simple -/
theorem safeSnake_dotted (ws : Pkg) (hne : ws ≠ []) (hs : ∀ w ∈ ws, simpleSeg w = true) :
    safeSnake (dotted ws) = joinWith '_' ws := by
  have hld : ∀ w ∈ ws, LDWord w := fun w hw => simpleSeg_ld (hs w hw)
  have htok : tokens (dotted ws) = ws := by
    have := tokens_joinWith_sym (a := '.') (b := '_') (by decide) cls_underscore ws
    show go .sym (joinWith '.' ws) = ws
    rw [this, joinWith_eq_joinU]
    exact tokens_joinU ws hld
  have hsn : snake (dotted ws) = joinWith '_' ws := by
    unfold snake; rw [htok, map_lowerW_fix ws hld, joinWith_eq_joinU]
  unfold safeSnake
  rw [hsn]
  have hid : pyIdent (joinWith '_' ws) = true := by
    cases ws with
    | nil => exact absurd rfl hne
    | cons w ws =>
      obtain ⟨⟨c, t, rfl, hc⟩, -, -, -⟩ := simpleSeg_parts (hs w (List.mem_cons_self ..))
      have hall : ∀ x ∈ joinWith '_' ((c :: t) :: ws), identChar x = true := by
        rw [joinWith_eq_joinU]; exact joinU_identChars _ hld
      obtain ⟨t', e⟩ := joinWith_head '_' c t ws
      rw [e] at hall ⊢
      simp only [pyIdent, Bool.and_eq_true, List.all_eq_true]
      exact ⟨by simp [identStart, hc], fun x hx => hall x (List.mem_cons_of_mem _ hx)⟩
  have hkw : joinWith '_' ws ∉ kw := by
    cases ws with
    | nil => exact absurd rfl hne
    | cons w ws =>
      cases ws with
      | nil => exact (simpleSeg_parts (hs w (List.mem_cons_self ..))).2.2.2
      | cons w2 ws => exact fun hm => kw_no_us _ hm (mem_joinWith_sep '_' w w2 ws)
  rcases sanitize_cases (joinWith '_' ws) with ⟨hk, -⟩ | ⟨-, -, h⟩ | ⟨-, hf, -⟩
  · exact absurd hk hkw
  · exact h
  · rw [hid] at hf; cases hf

/-! ### the alias code -/

/-- `k` underscores, the `_`-join of `ws`, and `__` when `k > 0` -/
def enc (k : Nat) (ws : Pkg) : Str := rep '_' k ++ (joinWith '_' ws ++ (if k = 0 then [] else uu))

theorem rep_strip : ∀ (a b : Nat) (x y : Str) (c c' : Char) (t t' : Str), x = c :: t → y = c' :: t' → c ≠ '_' → c' ≠ '_' →
    rep '_' a ++ x = rep '_' b ++ y → a = b ∧ x = y := by
  intro a
  induction a with
  | zero =>
    intro b x y c c' t t' hx hy hc hc' h
    cases b with
    | zero => exact ⟨rfl, by simpa [rep] using h⟩
    | succ b =>
      subst hx
      simp [rep, List.replicate_succ] at h
      exact absurd h.1 hc
  | succ a ih =>
    intro b x y c c' t t' hx hy hc hc' h
    cases b with
    | zero =>
      subst hy
      simp [rep, List.replicate_succ] at h
      exact absurd h.1.symm hc'
    | succ b =>
      simp only [rep, List.replicate_succ, List.cons_append, List.cons.injEq, true_and] at h
      obtain ⟨e, h'⟩ := ih b x y c c' t t' hx hy hc hc' h
      exact ⟨by rw [e], h'⟩

theorem lo_ne_us {c : Char} (h : cls c = .lo) : c ≠ '_' := by
  intro e; subst e; simp [cls_underscore] at h

/-- the part of `enc k ws` after the leading underscores begins with a lower-case letter -/
theorem enc_body_head (k : Nat) (ws : Pkg) (hne : ws ≠ []) (hs : ∀ w ∈ ws, simpleSeg w = true) :
    ∃ c t, joinWith '_' ws ++ (if k = 0 then [] else uu) = c :: t ∧ cls c = .lo := by
  cases ws with
  | nil => exact absurd rfl hne
  | cons w ws =>
    obtain ⟨⟨c, t, rfl, hc⟩, -, -, -⟩ := simpleSeg_parts (hs w (List.mem_cons_self ..))
    obtain ⟨t', e⟩ := joinWith_head '_' c t ws
    exact ⟨c, _, by rw [e]; rfl, hc⟩

/-- **the code is read back from the name** -/
theorem enc_inj (k k' : Nat) (ws ws' : Pkg) (hne : ws ≠ []) (hs : ∀ w ∈ ws, simpleSeg w = true)
    (hne' : ws' ≠ []) (hs' : ∀ w ∈ ws', simpleSeg w = true) (h : enc k ws = enc k' ws') : k = k' ∧ ws = ws' := by
  obtain ⟨c, t, e, hc⟩ := enc_body_head k ws hne hs
  obtain ⟨c', t', e', hc'⟩ := enc_body_head k' ws' hne' hs'
  obtain ⟨ek, eb⟩ := rep_strip k k' _ _ c c' t t' e e' (lo_ne_us hc) (lo_ne_us hc') h
  subst ek
  refine ⟨rfl, ?_⟩
  have ej : joinWith '_' ws = joinWith '_' ws' := List.append_cancel_right eb
  have r1 := splitOn_joinWith '_' ws hne (fun w hw => simpleSeg_no_us (hs w hw))
  have r2 := splitOn_joinWith '_' ws' hne' (fun w hw => simpleSeg_no_us (hs' w hw))
  rw [ej, r2] at r1
  exact r1.symm

/-! ### what each kind of import binds: name and object -/

theorem bind_descendent (cur tgt : Pkg) (pyType : Str)
    (hpre : tgt.take cur.length = cur) (hne : tgt ≠ cur)
    (hseg : ∀ s ∈ tgt, isClassName s = false ∧ s ≠ []) :
    (referenceDescendent cur tgt pyType).imp.bind cur
      = some (joinWith '_' (tgt.drop cur.length), .module (.gen tgt)) := by
  have hsplit : cur ++ tgt.drop cur.length = tgt := by
    have := List.take_append_drop cur.length tgt
    rwa [hpre] at this
  have himp : tgt.drop cur.length ≠ [] := by
    intro h
    rw [h, List.append_nil] at hsplit
    exact hne hsplit.symm
  have hlast := dropLast_lastD _ himp
  have hmem : lastD (tgt.drop cur.length) ∈ tgt := mem_of_mem_drop' (lastD_mem _ himp)
  have hcls := (hseg _ hmem).1
  have htgt : cur ++ (tgt.drop cur.length).dropLast ++ [lastD (tgt.drop cur.length)] = tgt := by
    rw [List.append_assoc, hlast, hsplit]
  have hseg' : ∀ s ∈ (tgt.drop cur.length).dropLast, s ≠ [] :=
    fun s hs => (hseg s (List.mem_of_mem_drop (List.dropLast_subset _ hs))).2
  unfold referenceDescendent
  simp only
  split
  · next hemp =>
    have hfrm : (tgt.drop cur.length).dropLast = [] := by
      by_cases h : (tgt.drop cur.length).dropLast = []
      · exact h
      · exact absurd (List.isEmpty_iff.1 hemp) (dotted_ne_nil _ h hseg')
    have h1 : [lastD (tgt.drop cur.length)] = tgt.drop cur.length := by
      have := hlast; rwa [hfrm, List.nil_append] at this
    rw [hfrm, List.append_nil] at htgt
    simp only [Import.bind, up_zero, hcls, Option.getD_none, hfrm, List.append_nil, htgt]
    rw [← h1]; rfl
  · simp only [Import.bind, up_zero, hcls, Option.getD_some, htgt]
    rfl

theorem bind_ancestor_root (cur : Pkg) (pyType : Str) (hty : isClassName pyType = true) :
    (referenceAncestor cur [] pyType).imp.bind cur
      = some (rep '_' cur.length ++ (pyType ++ uu), .cls (.gen []) pyType) := by
  simp [referenceAncestor, Import.bind, up, hty, uu]

theorem bind_ancestor (cur tgt : Pkg) (pyType : Str)
    (hpre : cur.take tgt.length = tgt) (hnonempty : tgt ≠ [])
    (hseg : ∀ s ∈ tgt, isClassName s = false ∧ s ≠ []) :
    (referenceAncestor cur tgt pyType).imp.bind cur
      = some (rep '_' (cur.length - tgt.length + 1) ++ (lastD tgt ++ uu), .module (.gen tgt)) := by
  have hlen : tgt.length ≤ cur.length := by
    have := congrArg List.length hpre
    simp at this
    omega
  have hpos : 0 < tgt.length := List.length_pos_iff.2 hnonempty
  have hcls := (hseg _ (lastD_mem tgt hnonempty)).1
  have hup : up cur (cur.length - tgt.length + 1) = some tgt.dropLast := by
    unfold up
    have h1 : cur.length - tgt.length + 1 ≤ cur.length := by omega
    simp only [h1, if_true]
    have h2 : cur.length - (cur.length - tgt.length + 1) = tgt.length - 1 := by omega
    rw [h2, List.dropLast_eq_take, ← hpre, List.take_take]
    congr 2
    simp
    omega
  have htgt := dropLast_lastD tgt hnonempty
  unfold referenceAncestor
  simp only [List.isEmpty_iff, hnonempty, if_false, Import.bind, hup, hcls, List.append_nil,
    Option.getD_some, htgt]
  simp [rep, List.replicate_succ, uu]

theorem bind_cousin (cur tgt : Pkg) (pyType : Str)
    (hnd : cur.take tgt.length ≠ tgt)
    (hseg : ∀ s ∈ tgt, isClassName s = false ∧ s ≠ []) :
    (referenceCousin cur tgt pyType).imp.bind cur
      = some (rep '_' (cur.length - (commonPrefix cur tgt).length)
                ++ (safeSnake (dotted (tgt.drop (commonPrefix cur tgt).length)) ++ uu), .module (.gen tgt)) := by
  have hL := commonPrefix_take_left cur tgt
  have hR := commonPrefix_take_right cur tgt
  have hle := commonPrefix_length_le_left cur tgt
  generalize hsh : commonPrefix cur tgt = shared at hL hR hle
  have hsplit : shared ++ tgt.drop shared.length = tgt := by
    have := List.take_append_drop shared.length tgt
    rwa [hR] at this
  have hrest : tgt.drop shared.length ≠ [] := by
    intro h
    rw [h, List.append_nil] at hsplit
    apply hnd
    rw [← hsplit]
    exact hL
  have hlast : lastD tgt = lastD (tgt.drop shared.length) := by
    conv => lhs; rw [← hsplit]
    exact lastD_append _ _ hrest
  have hcls := (hseg _ (mem_of_mem_drop' (lastD_mem _ hrest))).1
  have hup : up cur (cur.length - shared.length) = some shared := by
    unfold up
    have h1 : cur.length - shared.length ≤ cur.length := by omega
    simp only [h1, if_true]
    have h2 : cur.length - (cur.length - shared.length) = shared.length := by omega
    rw [h2, hL]
  have htgt : shared ++ (tgt.drop shared.length).dropLast ++ [lastD (tgt.drop shared.length)] = tgt := by
    rw [List.append_assoc, dropLast_lastD _ hrest, hsplit]
  unfold referenceCousin
  simp only [hsh, Import.bind, hup, hlast, hcls, Option.getD_some, htgt]
  simp [uu]

theorem bind_absolute (cur py : Pkg) (pyType : Str) :
    (referenceAbsolute py pyType).imp.bind cur = some (safeSnake (dotted py), .module (.abs py)) := by
  simp [referenceAbsolute, Import.bind]

/-! ### the shapes of a binding, and injectivity of the name -/

/-- where well-known types are redirected to -/
def bundled (pydantic : Bool) : Pkg :=
  ["betterproto".toList, "lib".toList] ++ (if pydantic then ["pydantic".toList] else []) ++ googleProtobuf

theorem bundled_simple (pydantic : Bool) : (∀ w ∈ bundled pydantic, simpleSeg w = true) ∧ bundled pydantic ≠ [] := by
  cases pydantic <;> decide


/-- a class of the root package imported into module `cur` (an ancestor import to the root) -/
def RootForm (cur : Pkg) (b : Str × Obj) : Prop :=
  cur ≠ [] ∧ ∃ T, isClassName T = true ∧ b = (rep '_' cur.length ++ (T ++ uu), .cls (.gen []) T)

/-- a module bound under the name `enc k ws`: the generated package `k` levels up and then
    down `ws` (child / descendant: `k = 0`; ancestor: `ws` = its last segment; cousin), or the
    bundled library (absolute import, `ws` = its full path `betterproto.lib[.pydantic].google.protobuf`);
    the one generated package that would share its code with the bundled library is excluded -/
def ModForm (cur : Pkg) (pyd : Bool) (b : Str × Obj) : Prop :=
  ∃ k ws, ws ≠ [] ∧ (∀ w ∈ ws, simpleSeg w = true) ∧
    ((¬(k = 0 ∧ ws = bundled pyd) ∧ b = (enc k ws, .module (.gen (cur.take (cur.length - k) ++ ws))))
     ∨ (ws = bundled pyd ∧ b = (enc 0 ws, .module (.abs ws))))

def Form (cur : Pkg) (pyd : Bool) (b : Str × Obj) : Prop := RootForm cur b ∨ ModForm cur pyd b

theorem className_head {T : Str} (h : isClassName T = true) : ∃ c t, T = c :: t ∧ (cls c = .up ∨ cls c = .dg) := by
  cases T with
  | nil => simp [isClassName] at h
  | cons c t => exact ⟨c, t, rfl, by simpa [isClassName] using h⟩

theorem root_mod_ne (cur : Pkg) (T : Str) (hT : isClassName T = true) (k : Nat) (ws : Pkg)
    (hne : ws ≠ []) (hs : ∀ w ∈ ws, simpleSeg w = true) :
    rep '_' cur.length ++ (T ++ uu) ≠ enc k ws := by
  intro h
  obtain ⟨c, t, e, hc⟩ := className_head hT
  obtain ⟨c', t', e', hc'⟩ := enc_body_head k ws hne hs
  have hcu : c ≠ '_' := by
    intro e0; subst e0; rcases hc with h | h <;> simp [cls_underscore] at h
  have ex : T ++ uu = c :: (t ++ uu) := by rw [e]; rfl
  obtain ⟨-, eb⟩ := rep_strip cur.length k _ _ c c' _ t' ex e' hcu (lo_ne_us hc') h
  rw [ex, e'] at eb
  injection eb with e1 _
  subst e1
  rcases hc with h | h <;> rw [hc'] at h <;> cases h

/-- **two bindings of one module with the same name are the same binding** -/
theorem form_inj (cur : Pkg) (pyd : Bool) (b1 b2 : Str × Obj) (h1 : Form cur pyd b1) (h2 : Form cur pyd b2)
    (e : b1.1 = b2.1) : b1 = b2 := by
  rcases h1 with ⟨-, T1, hT1, rfl⟩ | ⟨k1, ws1, hne1, hs1, h1⟩
  · rcases h2 with ⟨-, T2, hT2, rfl⟩ | ⟨k2, ws2, hne2, hs2, h2⟩
    · simp only at e
      have := List.append_cancel_right (List.append_cancel_left e)
      subst this; rfl
    · rcases h2 with ⟨-, rfl⟩ | ⟨-, rfl⟩ <;> exact absurd e (root_mod_ne cur T1 hT1 _ ws2 hne2 hs2)
  · rcases h2 with ⟨-, T2, hT2, rfl⟩ | ⟨k2, ws2, hne2, hs2, h2⟩
    · rcases h1 with ⟨-, rfl⟩ | ⟨-, rfl⟩ <;> exact absurd e.symm (root_mod_ne cur T2 hT2 _ ws1 hne1 hs1)
    · rcases h1 with ⟨hb1, rfl⟩ | ⟨hb1, rfl⟩ <;> rcases h2 with ⟨hb2, rfl⟩ | ⟨hb2, rfl⟩ <;>
        obtain ⟨ek, ew⟩ := enc_inj _ _ ws1 ws2 hne1 hs1 hne2 hs2 e
      · subst ek; subst ew; rfl
      · subst ew; exact absurd ⟨ek, hb2⟩ hb1
      · subst ew; exact absurd ⟨ek.symm, hb1⟩ hb2
      · subst ew; rfl

/-- no import shadows a class of the module: bound names never look like class names -/
theorem form_not_className (cur : Pkg) (pyd : Bool) (b : Str × Obj) (h : Form cur pyd b) : isClassName b.1 = false := by
  rcases h with ⟨hc, T, -, rfl⟩ | ⟨k, ws, hne, hs, h⟩
  · cases cur with
    | nil => exact absurd rfl hc
    | cons a t => simp [rep, List.replicate_succ, isClassName, cls_underscore]
  · have hn : ∀ k, isClassName (enc k ws) = false := by
      intro k
      obtain ⟨c, t, e, hc⟩ := enc_body_head k ws hne hs
      unfold enc
      rw [e]
      cases k with
      | zero => simp [rep, isClassName, hc]
      | succ k => simp [rep, List.replicate_succ, isClassName, cls_underscore]
    rcases h with ⟨-, rfl⟩ | ⟨-, rfl⟩ <;> exact hn _

/-! ### every import of `refCore` has one of the shapes -/

theorem simple_seg_facts {tgt : Pkg} (hs : simplePkg tgt = true) : ∀ s ∈ tgt, isClassName s = false ∧ s ≠ [] := by
  intro s h
  have := simpleSeg_segOk (simplePkg_mem hs s h)
  exact ⟨segOk_not_class this, segOk_ne_nil this⟩

/-- the binding made for a package below the generated root: its shape and the object bound -/
theorem refCore_form (cur tgt : Pkg) (pyd : Bool) (T : Str) (hs : simplePkg tgt = true)
    (hnb : tgt.take 1 ≠ ["betterproto".toList]) (hnd : tgt ≠ cur ++ bundled pyd)
    (hT : isClassName T = true) (b : Str × Obj) (hb : (refCore cur tgt T).imp.bind cur = some b) :
    Form cur pyd b ∧ b.2 = (if tgt = [] then .cls (.gen []) T else .module (.gen tgt)) := by
  have hseg := simple_seg_facts hs
  have hsm := simplePkg_mem hs
  unfold refCore at hb
  simp only [hnb, if_false] at hb
  by_cases h1 : tgt = cur
  · simp [h1, referenceSibling, Import.bind] at hb
  · simp only [h1, if_false] at hb
    by_cases h2 : tgt.take cur.length = cur
    · simp only [h2, if_true] at hb
      rw [bind_descendent cur tgt T h2 h1 hseg] at hb
      injection hb with hb; subst hb
      have hsplit : cur ++ tgt.drop cur.length = tgt := by
        have := List.take_append_drop cur.length tgt
        rwa [h2] at this
      have hrest : tgt.drop cur.length ≠ [] := by
        intro h
        rw [h, List.append_nil] at hsplit
        exact h1 hsplit.symm
      have htn : tgt ≠ [] := by intro h; rw [h] at hrest; exact hrest (by simp)
      refine ⟨Or.inr ⟨0, tgt.drop cur.length, hrest, fun w hw => hsm w (mem_of_mem_drop' hw), Or.inl
        ⟨fun h => hnd (by rw [← hsplit, h.2]), ?_⟩⟩, by simp [htn]⟩
      simp [enc, rep, hsplit]
    · simp only [h2, if_false] at hb
      by_cases h3 : cur.take tgt.length = tgt
      · simp only [h3, if_true] at hb
        by_cases h4 : tgt = []
        · subst h4
          rw [bind_ancestor_root cur T hT] at hb
          injection hb with hb; subst hb
          exact ⟨Or.inl ⟨fun h => h1 h.symm, T, hT, rfl⟩, by simp⟩
        · rw [bind_ancestor cur tgt T h3 h4 hseg] at hb
          injection hb with hb; subst hb
          have hlen : tgt.length ≤ cur.length := by
            have := congrArg List.length h3
            simp at this
            omega
          have hpos : 0 < tgt.length := List.length_pos_iff.2 h4
          have hdl : cur.take (cur.length - (cur.length - tgt.length + 1)) = tgt.dropLast := by
            have h5 : cur.length - (cur.length - tgt.length + 1) = tgt.length - 1 := by omega
            rw [h5, List.dropLast_eq_take]
            calc cur.take (tgt.length - 1) = (cur.take tgt.length).take (tgt.length - 1) := by
                    rw [List.take_take]; congr 1; omega
              _ = tgt.take (tgt.length - 1) := by rw [h3]
          refine ⟨Or.inr ⟨cur.length - tgt.length + 1, [lastD tgt], by simp, ?_, Or.inl ⟨?_, ?_⟩⟩, by simp [h4]⟩
          · intro w hw
            simp only [List.mem_singleton] at hw
            subst hw; exact hsm _ (lastD_mem tgt h4)
          · intro h
            exact absurd h.1 (by omega)
          · rw [hdl, dropLast_lastD tgt h4]
            simp [enc, joinWith]
      · simp only [h3, if_false] at hb
        rw [bind_cousin cur tgt T h3 hseg] at hb
        injection hb with hb; subst hb
        have hL := commonPrefix_take_left cur tgt
        have hR := commonPrefix_take_right cur tgt
        have hle := commonPrefix_length_le_left cur tgt
        generalize hsh : commonPrefix cur tgt = shared at hL hR hle
        have hsplit : shared ++ tgt.drop shared.length = tgt := by
          have := List.take_append_drop shared.length tgt
          rwa [hR] at this
        have hrest : tgt.drop shared.length ≠ [] := by
          intro h
          rw [h, List.append_nil] at hsplit
          apply h3
          rw [← hsplit]
          exact hL
        have htn : tgt ≠ [] := by intro h; rw [h] at hrest; exact hrest (by simp)
        have hd : cur.length - shared.length ≠ 0 := by
          intro h0
          have hlen : shared.length = cur.length := by omega
          have hc : shared = cur := by
            rw [← hL, hlen, List.take_length]
          apply h2
          rw [← hc]; exact hR
        have hrs : ∀ w ∈ tgt.drop shared.length, simpleSeg w = true := fun w hw => hsm w (mem_of_mem_drop' hw)
        refine ⟨Or.inr ⟨cur.length - shared.length, tgt.drop shared.length, hrest, hrs, Or.inl
          ⟨fun h => hd h.1, ?_⟩⟩, by simp [htn]⟩
        have h6 : cur.length - (cur.length - shared.length) = shared.length := by omega
        rw [h6, hL, hsplit, safeSnake_dotted _ hrest hrs]
        simp [enc, hd]

/-! ### `get_type_reference` -/

/-- a reference either adds no import (sibling handled inside `refCore`; unwrapped
    well-known types here) or is `refCore` on the split packages -/
theorem typeRef_cases (cur tgt : Pkg) (ty : List Str) (unwrap pydantic : Bool)
    (hc : pkgOk cur = true) (ht : pkgOk tgt = true) (hty : typeOk ty = true) :
    ((getTypeReference (dotted cur) (fullName tgt ty) unwrap pydantic).imp = .none ∧
      ∃ t, (getTypeReference (dotted cur) (fullName tgt ty) unwrap pydantic).ref = .builtin t) ∨
    getTypeReference (dotted cur) (fullName tgt ty) unwrap pydantic
      = refCore cur (redirect cur tgt pydantic) (classOf ty) := by
  unfold getTypeReference
  split
  · left; exact ⟨rfl, _, rfl⟩
  · split
    · left; exact ⟨rfl, _, rfl⟩
    · split
      · left; exact ⟨rfl, _, rfl⟩
      · right
        simp only [parse_fullName tgt ty ht hty, splitPkg_dotted cur hc, splitPkg_dotted tgt ht, classOf_eq]

/-- **every import a reference adds has one of the shapes**, and the object it binds is
    the package of the type (the class itself for the root package; the bundled library for
    google.protobuf) -/
theorem typeRef_form (cur tgt : Pkg) (ty : List Str) (unwrap pydantic : Bool)
    (hc : pkgOk cur = true) (hs : simplePkg tgt = true) (hnb : tgt.take 1 ≠ ["betterproto".toList])
    (hnd : tgt ≠ cur ++ bundled pydantic) (hty : typeOk ty = true)
    (b : Str × Obj) (hb : (getTypeReference (dotted cur) (fullName tgt ty) unwrap pydantic).imp.bind cur = some b) :
    Form cur pydantic b ∧
      b.2 = (if tgt = googleProtobuf ∧ cur ≠ googleProtobuf then .module (.abs (bundled pydantic))
             else if tgt = [] then .cls (.gen []) (classOf ty) else .module (.gen tgt)) := by
  rcases typeRef_cases cur tgt ty unwrap pydantic hc (simplePkg_pkgOk hs) hty with h | h
  · rw [h.1] at hb; simp [Import.bind] at hb
  · rw [h] at hb
    by_cases hg : tgt = googleProtobuf ∧ cur ≠ googleProtobuf
    · have hred : redirect cur tgt pydantic = bundled pydantic := by
        unfold redirect bundled; rw [if_pos hg, hg.1]
      have hcore : refCore cur (bundled pydantic) (classOf ty) = referenceAbsolute (bundled pydantic) (classOf ty) := by
        unfold refCore
        have ht1 : List.take 1 (bundled pydantic) = ["betterproto".toList] := by cases pydantic <;> rfl
        rw [if_pos ht1]
      rw [hred, hcore, bind_absolute] at hb
      injection hb with hb; subst hb
      obtain ⟨h1, h3⟩ := bundled_simple pydantic
      refine ⟨Or.inr ⟨0, bundled pydantic, h3, h1, Or.inr ⟨rfl, ?_⟩⟩, by simp [hg]⟩
      rw [safeSnake_dotted _ h3 h1]
      simp [enc, rep]
    · have hred : redirect cur tgt pydantic = tgt := by unfold redirect; rw [if_neg hg]
      rw [hred] at hb
      obtain ⟨f1, f2⟩ := refCore_form cur tgt pydantic (classOf ty) hs hnb hnd (classOf_isClassName ty hty) b hb
      exact ⟨f1, by rw [f2]; simp only [hg, if_false]⟩

/-! ### the namespace of a module in which many imports have run -/

/-- the object bound to `a` after the statements binding `ns` have run in order (the last
    binding of a name wins) -/
def lookupNs (ns : List (Str × Obj)) (a : Str) : Option Obj := (ns.reverse.find? (fun b => b.1 = a)).map (·.2)

/-- evaluation of a forward reference in module `<root>.<cur>`: its own classes, then the
    bindings `ns` of all the import statements at the end of the file -/
def denoteNs (cur : Pkg) (ns : List (Str × Obj)) : Ref → Option (Loc × Str)
  | .bare n =>
    match lookupNs ns n with
    | some (.cls l c) => some (l, c)
    | some (.module _) => Option.none
    | Option.none => some (.gen cur, n)
  | .qualified a n =>
    match lookupNs ns a with
    | some (.module l) => some (l, n)
    | _ => Option.none
  | .builtin _ => Option.none

theorem lookupNs_unique (ns : List (Str × Obj)) (a : Str) (o : Obj) (hin : (a, o) ∈ ns)
    (hu : ∀ b ∈ ns, b.1 = a → b.2 = o) : lookupNs ns a = some o := by
  unfold lookupNs
  cases h : ns.reverse.find? (fun b => b.1 = a) with
  | none =>
    have := List.find?_eq_none.1 h (a, o) (List.mem_reverse.2 hin)
    simp at this
  | some b =>
    have h1 := List.mem_reverse.1 (List.mem_of_find?_eq_some h)
    have h2 : b.1 = a := by simpa using List.find?_some h
    simp [hu b h1 h2]

theorem lookupNs_none (ns : List (Str × Obj)) (a : Str) (h : ∀ b ∈ ns, b.1 ≠ a) : lookupNs ns a = Option.none := by
  unfold lookupNs
  have : ns.reverse.find? (fun b => b.1 = a) = Option.none := by
    apply List.find?_eq_none.2
    intro b hb
    simpa using h b (List.mem_reverse.1 hb)
  rw [this]; rfl

/-- a bare reference comes from a sibling (no import) or from the root package (the class is
    imported under the bare name) -/
theorem refCore_ref_bare (cur tgt : Pkg) (T n : Str) (hT : isClassName T = true)
    (h : (refCore cur tgt T).ref = .bare n) :
    ((refCore cur tgt T).imp = .none ∧ n = T) ∨
    (refCore cur tgt T).imp.bind cur = some (n, .cls (.gen []) T) := by
  unfold refCore at h ⊢
  split at h
  · simp [referenceAbsolute] at h
  · rename_i h0
    simp only [h0, if_false]
    split at h
    · rename_i h1
      simp only [h1, if_true]
      left
      simp [referenceSibling] at h ⊢
      exact h.symm
    · rename_i h1
      simp only [h1, if_false]
      split at h
      · unfold referenceDescendent at h
        simp only at h
        split at h <;> simp at h
      · rename_i h2
        simp only [h2, if_false]
        split at h
        · rename_i h3
          simp only [h3, if_true]
          by_cases h4 : tgt = []
          · subst h4
            right
            rw [bind_ancestor_root cur T hT]
            simp [referenceAncestor] at h
            rw [← h]
            simp [uu]
          · unfold referenceAncestor at h
            simp [h4] at h
        · simp [referenceCousin] at h

theorem denote_qualified_some (cur : Pkg) (b : Option (Str × Obj)) (a n : Str) (x : Loc × Str)
    (h : denote cur b (.qualified a n) = some x) : b = some (a, .module x.1) ∧ x.2 = n := by
  simp only [denote] at h
  split at h
  · rename_i a' l
    split at h
    · rename_i e
      injection h with h; subst h; subst e; exact ⟨rfl, rfl⟩
    · cases h
  · cases h

/-! ### all the references of a module at once -/

/-- one reference site of a module: the type referred to and the `unwrap` flag of the site -/
structure Site where
  tgt : Pkg
  ty : List Str
  unwrap : Bool

/-- the decidable guard: simple segments (no `_`, no digit-letter boundary, no keyword: D20
    outside), not a package `betterproto…` (taken for the runtime library), not the one
    descendant `<cur>.betterproto.lib[.pydantic].google.protobuf` whose alias is that of the
    bundled well-known types, a capitalised type name (D19 outside) -/
def Site.ok (cur : Pkg) (pyd : Bool) (s : Site) : Bool :=
  simplePkg s.tgt && s.tgt.take 1 != ["betterproto".toList] && s.tgt != cur ++ bundled pyd && typeOk s.ty

def siteRef (cur : Pkg) (pydantic : Bool) (s : Site) : TypeRef :=
  getTypeReference (dotted cur) (fullName s.tgt s.ty) s.unwrap pydantic

/-- everything the import statements of the module bind, in statement order -/
def moduleNs (cur : Pkg) (pydantic : Bool) (sites : List Site) : List (Str × Obj) :=
  sites.filterMap fun s => (siteRef cur pydantic s).imp.bind cur

theorem Site.ok_parts {cur : Pkg} {pyd : Bool} {s : Site} (h : s.ok cur pyd = true) :
    simplePkg s.tgt = true ∧ s.tgt.take 1 ≠ ["betterproto".toList] ∧ s.tgt ≠ cur ++ bundled pyd ∧ typeOk s.ty = true := by
  unfold Site.ok at h
  simp only [Bool.and_eq_true, bne_iff_ne, ne_eq] at h
  exact ⟨h.1.1.1, h.1.1.2, h.1.2, h.2⟩

theorem moduleNs_form (cur : Pkg) (pydantic : Bool) (sites : List Site) (hc : pkgOk cur = true)
    (hok : ∀ s ∈ sites, s.ok cur pydantic = true) : ∀ b ∈ moduleNs cur pydantic sites, Form cur pydantic b := by
  intro b hb
  obtain ⟨s, hs, e⟩ := List.mem_filterMap.1 hb
  obtain ⟨h1, h2, h2', h3⟩ := Site.ok_parts (hok s hs)
  exact (typeRef_form cur s.tgt s.ty s.unwrap pydantic hc h1 h2 h2' h3 b e).1

/-- **in the namespace built by ALL the imports of the module, every reference evaluates to
    what it evaluates to next to its own import alone** -/
theorem denoteNs_eq_denote (cur : Pkg) (pydantic : Bool) (sites : List Site) (hc : pkgOk cur = true)
    (hok : ∀ s ∈ sites, s.ok cur pydantic = true) (s : Site) (hs : s ∈ sites) :
    denoteNs cur (moduleNs cur pydantic sites) (siteRef cur pydantic s).ref
      = denote cur ((siteRef cur pydantic s).imp.bind cur) (siteRef cur pydantic s).ref := by
  have hforms := moduleNs_form cur pydantic sites hc hok
  obtain ⟨h1, h2, -, h3⟩ := Site.ok_parts (hok s hs)
  have hT := classOf_isClassName s.ty h3
  have hmem : ∀ b, (siteRef cur pydantic s).imp.bind cur = some b → b ∈ moduleNs cur pydantic sites :=
    fun b hb => List.mem_filterMap.2 ⟨s, hs, hb⟩
  have hform : ∀ b, (siteRef cur pydantic s).imp.bind cur = some b → Form cur pydantic b :=
    fun b hb => hforms b (hmem b hb)
  have huniq : ∀ a o, (siteRef cur pydantic s).imp.bind cur = some (a, o) →
      lookupNs (moduleNs cur pydantic sites) a = some o := by
    intro a o hb
    apply lookupNs_unique _ a o (hmem _ hb)
    intro b' hb' e
    have := form_inj cur pydantic b' (a, o) (hforms b' hb') (hform _ hb) e
    rw [this]
  rcases typeRef_cases cur s.tgt s.ty s.unwrap pydantic hc (simplePkg_pkgOk h1) h3 with ⟨_, t, hr⟩ | hcore
  · unfold siteRef; rw [hr]; rfl
  · -- the reference is `refCore cur py T`
    have hcore' : siteRef cur pydantic s = refCore cur (redirect cur s.tgt pydantic) (classOf s.ty) := hcore
    have hden : ∃ x, denote cur ((siteRef cur pydantic s).imp.bind cur) (siteRef cur pydantic s).ref = some x := by
      rw [hcore']
      by_cases hg : s.tgt = googleProtobuf ∧ cur ≠ googleProtobuf
      · have hred : redirect cur s.tgt pydantic = bundled pydantic := by
          unfold redirect bundled; rw [if_pos hg, hg.1]
        have hc2 : refCore cur (bundled pydantic) (classOf s.ty) = referenceAbsolute (bundled pydantic) (classOf s.ty) := by
          unfold refCore
          have ht1 : List.take 1 (bundled pydantic) = ["betterproto".toList] := by cases pydantic <;> rfl
          rw [if_pos ht1]
        rw [hred, hc2]
        exact ⟨_, absolute_resolves cur _ _⟩
      · have hred : redirect cur s.tgt pydantic = s.tgt := by unfold redirect; rw [if_neg hg]
        rw [hred]
        exact ⟨_, refCore_resolves cur s.tgt _ (simple_seg_facts h1) h2 hT⟩
    obtain ⟨x, hx⟩ := hden
    cases href : (siteRef cur pydantic s).ref with
    | builtin t =>
      rfl
    | qualified a n =>
      -- a qualified reference comes with the import that binds its alias to a module
      rw [href] at hx
      have hb := (denote_qualified_some cur _ a n x hx).1
      rw [hb]
      simp only [denoteNs, denote, huniq _ _ hb, if_true]
    | bare n =>
      have hbare := refCore_ref_bare cur (redirect cur s.tgt pydantic) (classOf s.ty) n hT (by rw [← hcore']; exact href)
      rw [← hcore'] at hbare
      rcases hbare with ⟨hi, hn⟩ | hb
      · -- sibling: no import, and no import of the module binds a class-like name
        subst hn
        have hnone : lookupNs (moduleNs cur pydantic sites) (classOf s.ty) = Option.none := by
          apply lookupNs_none
          intro b hb e
          have := form_not_className cur pydantic b (hforms b hb)
          rw [e, hT] at this; cases this
        rw [hi]
        simp [denoteNs, denote, hnone, Import.bind]
      · rw [hb]
        simp only [denoteNs, denote, huniq _ _ hb, if_true]

end Bp.Importing
