import BpModel.Importing
import BpProofs.Casing
import BpProofs.CasingClass
import BpProofs.Importing
/-
  String-level lemmas: parse_source_type_name on protoc's fully-qualified names,
  `package.split(".")`, and the class name of a (nested) type.
-/
namespace Bp.Importing
open Bp.Casing Bp.Naming

theorem joinWith_append (sep : Char) : ∀ a b : List Str, a ≠ [] → b ≠ [] →
    joinWith sep (a ++ b) = joinWith sep a ++ sep :: joinWith sep b
  | [], _, h, _ => absurd rfl h
  | [x], b, _, hb => by
    cases b with
    | nil => exact absurd rfl hb
    | cons y b => simp [joinWith]
  | x :: y :: a, b, _, hb => by
    have ih := joinWith_append sep (y :: a) b (by simp) hb
    simp only [List.cons_append] at ih ⊢
    simp only [joinWith, ih, List.append_assoc, List.cons_append]

/-! ### the regex of parse_source_type_name -/

theorem parseAux_run (r : Str) (X : Char) (r' : Str) (hr : r = X :: r') (hX : cls X = .up) :
    ∀ (s pre : Str) (best : Option (Str × Str)), (∀ c ∈ s, cls c ≠ .up) → pre ++ s ≠ [] →
      parseAux pre (s ++ '.' :: r) best = some (pre ++ s, r) := by
  intro s
  induction s with
  | nil =>
    intro pre best _ hne
    have hdot : cls '.' ≠ .up := by decide
    have hpre : pre ≠ [] := by simpa using hne
    subst hr
    simp [parseAux, hdot, hpre, hX]
  | cons c s ih =>
    intro pre best hs hne
    have hc : cls c ≠ .up := hs c (List.mem_cons_self ..)
    simp only [List.cons_append, parseAux, hc, if_false]
    rw [ih (pre ++ [c]) _ (fun x hx => hs x (List.mem_cons_of_mem _ hx)) (by simp)]
    simp

theorem joinWith_chars (sep : Char) (P : Char → Prop) (hsep : P sep) :
    ∀ ws : List Str, (∀ w ∈ ws, ∀ c ∈ w, P c) → ∀ c ∈ joinWith sep ws, P c
  | [], _, c, hc => by simp [joinWith] at hc
  | [w], h, c, hc => h w (by simp) c (by simpa [joinWith] using hc)
  | w :: w2 :: ws, h, c, hc => by
    simp only [joinWith, List.mem_append, List.mem_cons] at hc
    rcases hc with hc | rfl | hc
    · exact h w (by simp) c hc
    · exact hsep
    · exact joinWith_chars sep P hsep (w2 :: ws) (fun x hx => h x (List.mem_cons_of_mem _ hx)) c hc

theorem segOk_chars {s : Str} (h : segOk s = true) : ∀ c ∈ s, cls c ≠ .up ∧ c ≠ '.' := by
  intro c hc
  simp only [segOk, Bool.and_eq_true, List.all_eq_true, bne_iff_ne, ne_eq] at h
  have := h.1.2 c hc
  refine ⟨this.2, ?_⟩
  rintro rfl
  have : identChar '.' = false := by decide
  simp_all

theorem segOk_ne_nil {s : Str} (h : segOk s = true) : s ≠ [] := by
  intro e; subst e; simp [segOk] at h

theorem segOk_not_class {s : Str} (h : segOk s = true) : isClassName s = false := by
  simp only [segOk, Bool.and_eq_true, Bool.not_eq_true'] at h
  exact h.2

theorem tyPartOk_head {s : Str} (h : tyPartOk s = true) : ∃ X r, s = X :: r ∧ cls X = .up := by
  cases s with
  | nil => simp [tyPartOk] at h
  | cons X r =>
    simp only [tyPartOk, Bool.and_eq_true, decide_eq_true_eq] at h
    exact ⟨X, r, rfl, h.1⟩

theorem dotted_ty_head {ty : List Str} (h : typeOk ty = true) : ∃ X r, dotted ty = X :: r ∧ cls X = .up := by
  simp only [typeOk, Bool.and_eq_true, Bool.not_eq_true', List.all_eq_true] at h
  cases ty with
  | nil => simp at h
  | cons t ts =>
    obtain ⟨X, r, rfl, hX⟩ := tyPartOk_head (h.2 t (by simp))
    cases ts with
    | nil => exact ⟨X, r, by simp [dotted, joinWith], hX⟩
    | cons t2 ts => exact ⟨X, r ++ '.' :: joinWith '.' (t2 :: ts), by simp [dotted, joinWith], hX⟩

/-- protoc's name `.pkg.Outer.Inner` is split into package and type name -/
theorem parse_fullName (pkg : Pkg) (ty : List Str) (hp : pkgOk pkg = true) (ht : typeOk ty = true) :
    parseSourceTypeName (fullName pkg ty) = (dotted pkg, dotted ty) := by
  obtain ⟨X, r, hty, hX⟩ := dotted_ty_head ht
  have htyne : ty ≠ [] := by
    intro e; subst e; simp [typeOk] at ht
  simp only [pkgOk, List.all_eq_true] at hp
  cases hpk : pkg with
  | nil =>
    have hXdot : X ≠ '.' := by
      rintro rfl
      revert hX; decide
    have e : fullName [] ty = '.' :: X :: r := by simp [fullName, hty]
    rw [e]
    simp only [parseSourceTypeName, parseAux, hX, if_true]
    have hd : cls '.' ≠ Cls.up := by decide
    simp only [hd, if_false, lstripDots, List.nil_append]
    have hnil : ([] : Str) ≠ [] ↔ False := by simp
    simp [hnil, hXdot]
    refine ⟨rfl, ?_⟩
    exact hty.symm
  | cons p0 ps =>
    have hpkne : pkg ≠ [] := by rw [hpk]; simp
    have hchars : ∀ c ∈ dotted pkg, cls c ≠ .up := by
      apply joinWith_chars '.' (fun c => cls c ≠ .up) (by decide)
      intro w hw c hc
      exact (segOk_chars (hp w hw) c hc).1
    have hne : dotted pkg ≠ [] := dotted_ne_nil pkg hpkne (fun s hs => segOk_ne_nil (hp s hs))
    have hj : dotted (pkg ++ ty) = dotted pkg ++ '.' :: dotted ty := joinWith_append '.' pkg ty hpkne htyne
    have := parseAux_run (dotted ty) X r hty hX (dotted pkg) [] none hchars (by simpa using hne)
    rw [← hpk]
    simp only [parseSourceTypeName, fullName, hj, this, List.nil_append]

/-! ### `package.split(".")` -/

theorem splitOn_no_sep (sep : Char) : ∀ w : Str, sep ∉ w → splitOn sep w = [w]
  | [], _ => rfl
  | c :: w, h => by
    have hc : c ≠ sep := fun e => h (by simp [e])
    have ih := splitOn_no_sep sep w (fun hm => h (List.mem_cons_of_mem _ hm))
    simp [splitOn, hc, ih]

theorem splitOn_append (sep : Char) : ∀ (w rest : Str), sep ∉ w →
    splitOn sep (w ++ sep :: rest) = w :: splitOn sep rest
  | [], rest, _ => by simp [splitOn]
  | c :: w, rest, h => by
    have hc : c ≠ sep := fun e => h (by simp [e])
    have ih := splitOn_append sep w rest (fun hm => h (List.mem_cons_of_mem _ hm))
    simp [splitOn, hc, ih]

theorem splitOn_joinWith (sep : Char) : ∀ ws : List Str, ws ≠ [] → (∀ w ∈ ws, sep ∉ w) →
    splitOn sep (joinWith sep ws) = ws
  | [], h, _ => absurd rfl h
  | [w], _, hs => by simpa [joinWith] using splitOn_no_sep sep w (hs w (by simp))
  | w :: w2 :: ws, _, hs => by
    simp only [joinWith]
    rw [splitOn_append sep w _ (hs w (by simp)),
      splitOn_joinWith sep (w2 :: ws) (by simp) (fun x hx => hs x (List.mem_cons_of_mem _ hx))]

theorem splitPkg_dotted (pkg : Pkg) (hp : pkgOk pkg = true) : splitPkg (dotted pkg) = pkg := by
  simp only [pkgOk, List.all_eq_true] at hp
  cases hpk : pkg with
  | nil => rfl
  | cons p0 ps =>
    have hpkne : pkg ≠ [] := by rw [hpk]; simp
    have hne : dotted pkg ≠ [] := dotted_ne_nil pkg hpkne (fun s hs => segOk_ne_nil (hp s hs))
    rw [← hpk]
    unfold splitPkg
    simp only [List.isEmpty_iff, hne, if_false]
    exact splitOn_joinWith '.' pkg hpkne (fun w hw hm => (segOk_chars (hp w hw) '.' hm).2 rfl)

/-! ### the class name: `pascal_case("Outer.Inner")` = `pascal_case("_Outer_Inner")` -/

theorem go_sep_congr {a b : Char} (ha : cls a = .sym) (hb : cls b = .sym) (y1 y2 : Str)
    (hy : go .sym y1 = go .sym y2) : ∀ (w : Str) (st : St), go st (w ++ a :: y1) = go st (w ++ b :: y2) := by
  intro w
  induction w with
  | nil =>
    intro st
    cases st <;> simp [go, ha, hb, hy]
  | cons c w ih =>
    intro st
    cases st <;> simp only [List.cons_append, go] <;> cases cls c <;> simp only [ih]

theorem tokens_joinWith_sym {a b : Char} (ha : cls a = .sym) (hb : cls b = .sym) :
    ∀ ws : List Str, go .sym (joinWith a ws) = go .sym (joinWith b ws)
  | [] => rfl
  | [w] => rfl
  | w :: w2 :: ws => by
    simp only [joinWith]
    exact go_sep_congr ha hb _ _ (tokens_joinWith_sym ha hb (w2 :: ws)) w .sym

/-- the class the plugin generates for a type is the class name the reference uses -/
theorem classOf_eq (ty : List Str) : pythonizeClassName (dotted ty) = classOf ty := by
  unfold classOf pythonizeClassName pascal
  congr 2
  rw [tokens_cons_sym _ cls_underscore]
  exact tokens_joinWith_sym (by decide) cls_underscore ty

/-- generated class names begin with a capital: `isClassName (classOf ty)` -/
theorem classOf_isClassName (ty : List Str) (ht : typeOk ty = true) : isClassName (classOf ty) = true := by
  obtain ⟨X, r, hty, hX⟩ := dotted_ty_head ht
  rw [← classOf_eq]
  have hfl : firstAlnumIsLetter (dotted ty) = true := by
    rw [hty]
    have : (cls X = .sym) = False := by simp [hX]
    simp [firstAlnumIsLetter, List.dropWhile, hX, isLetter]
  obtain ⟨Y, r', e, hY⟩ := pascal_head hfl
  simp [pythonizeClassName, e, isClassName, hY]

/-! ### helpers of Props/C13.lean -/

theorem lookup_mem {k : Str} {v : Str} : ∀ {l : List (Str × Str)}, l.lookup k = some v → (k, v) ∈ l
  | [], h => by simp [List.lookup] at h
  | (a, b) :: l, h => by
    simp only [List.lookup] at h
    split at h
    · next heq =>
      have : k = a := by simpa using heq
      cases h; subst this; simp
    · exact List.mem_cons_of_mem _ (lookup_mem h)

/-- a type of a package other than google.protobuf is never one of the unwrapped
    well-known types -/
theorem not_wellknown (tgt : Pkg) (ty : List Str) (ht : pkgOk tgt = true) (hty : typeOk ty = true)
    (hg : tgt ≠ googleProtobuf) (s : Str) (hs : (parseSourceTypeName s).1 = dotted googleProtobuf) :
    fullName tgt ty ≠ s := by
  intro e
  rw [← e, parse_fullName tgt ty ht hty] at hs
  have h1 := splitPkg_dotted tgt ht
  have h2 := splitPkg_dotted googleProtobuf (by decide)
  simp only at hs
  rw [hs, h2] at h1
  exact hg h1.symm


theorem boundName_descendent (cur tgt : Pkg) (pyType : Str)
    (hpre : tgt.take cur.length = cur) (hne : tgt ≠ cur) (hseg : ∀ s ∈ tgt, s ≠ []) :
    boundName cur (referenceDescendent cur tgt pyType) = some (joinWith '_' (tgt.drop cur.length)) := by
  have hsplit : cur ++ tgt.drop cur.length = tgt := by
    have := List.take_append_drop cur.length tgt
    rwa [hpre] at this
  have himp : tgt.drop cur.length ≠ [] := by
    intro h
    rw [h, List.append_nil] at hsplit
    exact hne hsplit.symm
  have hseg' : ∀ s ∈ (tgt.drop cur.length).dropLast, s ≠ [] :=
    fun s hs => hseg s (List.mem_of_mem_drop (List.dropLast_subset _ hs))
  unfold referenceDescendent boundName
  simp only
  split
  · next hemp =>
    have hfrm : (tgt.drop cur.length).dropLast = [] := by
      by_cases h : (tgt.drop cur.length).dropLast = []
      · exact h
      · exact absurd (List.isEmpty_iff.1 hemp) (dotted_ne_nil _ h hseg')
    have := dropLast_lastD _ himp
    rw [hfrm] at this
    simp only [Import.bind, up_zero, Option.map_some, Option.getD_none]
    rw [← this]
    simp [joinWith, lastD]
  · simp [Import.bind, up_zero]


end Bp.Importing
