import BpModel.All
import BpModel.Json
import BpProofs.Presence
import BpProofs.Ops
/-
  Helper lemmas for C04: the leaf codecs of `to_dict` / `_from_dict_init` are inverse to each
  other on well-typed values, key lookup, and the loop-level assembly.
-/
namespace Bp
open Gen

/-! ### leaf codecs -/

theorem enumByNum_num (e : EnumDef) (v : Int) (m : EnumMem) (h : enumByNum e v = some m) :
    m.num = v ∧ m ∈ e := by
  induction e with
  | nil => simp [enumByNum] at h
  | cons a as ih =>
    rw [enumByNum] at h
    split at h
    · rename_i hh
      injection h with h; subst h
      exact ⟨by simpa using hh, by simp⟩
    · obtain ⟨h1, h2⟩ := ih h
      exact ⟨h1, by simp [h2]⟩

/-- `_parse_enum(_dump_enum(v)) == v` for every int, defined or not -/
theorem parseEnum_dumpEnum (e : EnumDef) (he : enumOk e = true) (v : Int) :
    parseEnum e (dumpEnum e (.int v)) = .ok (.int v) := by
  simp only [dumpEnum]
  cases h : enumByNum e v with
  | none => rfl
  | some m =>
    obtain ⟨hn, hm⟩ := enumByNum_num e v m h
    simp only [parseEnum]
    unfold enumOk at he
    rw [List.all_eq_true] at he
    have := he m hm
    cases h2 : enumByPy e m.py with
    | none => rw [h2] at this; simp at this
    | some m' =>
      rw [h2] at this
      simp only [beq_iff_eq] at this
      simp only [this, hn]

theorem parseFloat_dumpFloat (t : PType) (v : Val) (hv : valOfType t v = true) (ht : t = .float ∨ t = .double) :
    parseFloat t (dumpFloat v) = .ok v := by
  rcases ht with rfl | rfl
  · cases v <;> simp [valOfType] at hv
    rename_i b
    simp only [dumpFloat]
    split
    · rename_i h; simp at h; subst h; rfl
    · split
      · rename_i h; simp at h; subst h; rfl
      · split
        · rename_i h; rw [h] at hv; simp at hv; subst hv; rfl
        · rfl
  · cases v <;> simp [valOfType] at hv
    rename_i b
    simp only [dumpFloat]
    split
    · rename_i h; simp at h; subst h; rfl
    · split
      · rename_i h; simp at h; subst h; rfl
      · split
        · rename_i h; rw [h] at hv; simp at hv; subst hv; rfl
        · rfl

/-- what `to_dict` writes for one scalar item of a field of type `f.ty` -/
def encItem (E : Enums) (f : FieldD) (v : Val) : JVal :=
  if isInt64 f.ty then strJ v
  else if f.ty == .bytes then b64J v
  else if f.ty == .enum then dumpEnum (enumOf E f) v
  else if f.ty == .float || f.ty == .double then dumpFloat v
  else rawJ v

def isLeafJ : JVal → Bool
  | .arr _ => false
  | .obj _ _ => false
  | .null => false
  | _ => true

theorem valOfType_int64 (t : PType) (v : Val) (h : isInt64 t = true) (hv : valOfType t v = true) : ∃ i, v = .int i := by
  cases v <;> first | exact ⟨_, rfl⟩ | (exfalso; revert h hv; cases t <;> simp [valOfType, isInt64, int64Types])

theorem valOfType_cases (t : PType) (v : Val) (hv : valOfType t v = true) :
    (∃ i, v = .int i) ∨ (∃ b, v = .bool b ∧ t = .bool) ∨ (∃ b, v = .f32 b ∧ t = .float) ∨ (∃ b, v = .f64 b ∧ t = .double)
      ∨ (∃ s, v = .str s ∧ t = .string) ∨ (∃ s, v = .byt s ∧ t = .bytes) := by
  cases v <;> simp [valOfType] at hv <;> simp [hv]

/-- the item codecs invert each other: `decode(encode(x)) = x`, and the encoded item is a
    JSON leaf that is not null -/
theorem decItem_encItem (E : Enums) (f : FieldD) (he : enumOk (enumOf E f) = true) (v : Val)
    (hv : valOfType f.ty v = true) :
    decScalarItem E f (encItem E f v) = .ok v ∧ isLeafJ (encItem E f v) = true := by
  unfold decScalarItem encItem
  by_cases h1 : isInt64 f.ty = true
  · obtain ⟨i, rfl⟩ := valOfType_int64 _ _ h1 hv
    simp [h1, strJ, intOf, isLeafJ]
  · simp only [h1, if_false, Bool.false_eq_true]
    by_cases h2 : (f.ty == PType.bytes) = true
    · have : f.ty = .bytes := by simpa using h2
      rw [this] at hv
      cases v <;> simp [valOfType] at hv
      simp [this, b64J, b64dec, isLeafJ]
    · simp only [h2, if_false, Bool.false_eq_true]
      by_cases h3 : (f.ty == PType.enum) = true
      · have : f.ty = .enum := by simpa using h3
        rw [this] at hv
        cases v <;> simp [valOfType] at hv
        rename_i i
        simp only [this, beq_self_eq_true, if_true]
        refine ⟨parseEnum_dumpEnum _ he i, ?_⟩
        simp only [dumpEnum]; split <;> rfl
      · simp only [h3, if_false, Bool.false_eq_true]
        by_cases h4 : (f.ty == PType.float || f.ty == PType.double) = true
        · simp only [h4, if_true]
          have ht : f.ty = .float ∨ f.ty = .double := by simpa using h4
          refine ⟨parseFloat_dumpFloat _ _ hv ht, ?_⟩
          rcases ht with ht | ht <;> rw [ht] at hv <;> cases v <;> simp [valOfType] at hv <;>
            (simp only [dumpFloat]; repeat' split) <;> rfl
        · simp only [h4, if_false, Bool.false_eq_true]
          rcases valOfType_cases _ _ hv with ⟨i, rfl⟩ | ⟨b, rfl, _⟩ | ⟨b, rfl, ht⟩ | ⟨b, rfl, ht⟩ | ⟨s, rfl, _⟩ | ⟨s, rfl, ht⟩
          · simp [rawJ, unRaw, isLeafJ]
          · simp [rawJ, unRaw, isLeafJ]
          · simp [ht] at h4
          · simp [ht] at h4
          · simp [rawJ, unRaw, isLeafJ]
          · simp [ht] at h2

theorem mapMR_dec_enc (E : Enums) (f : FieldD) (he : enumOk (enumOf E f) = true) (xs : List Val)
    (hx : ∀ x ∈ xs, valOfType f.ty x = true) :
    mapMR (decScalarItem E f) (xs.map (encItem E f)) = .ok xs := by
  induction xs with
  | nil => rfl
  | cons x xs ih =>
    simp only [List.map_cons, mapMR]
    rw [(decItem_encItem E f he x (hx x (by simp))).1, ih (fun y hy => hx y (by simp [hy]))]
    rfl

/-- values that `to_dict` leaves as they are and `from_dict` takes as they are -/
def rawOk : Val → Bool
  | .int _ | .bool _ | .f32 _ | .f64 _ | .str _ => true
  | _ => false

theorem unRaw_rawJ (v : Val) (h : rawOk v = true) : unRaw (rawJ v) = .ok v ∧ isLeafJ (rawJ v) = true := by
  cases v <;> simp [rawOk] at h <;> simp [rawJ, unRaw, isLeafJ]

theorem unRawList_rawJList (xs : List Val) (h : ∀ x ∈ xs, rawOk x = true) :
    unRawList (rawJList xs) = .ok xs := by
  induction xs with
  | nil => simp [rawJList, unRawList]
  | cons x xs ih =>
    simp only [rawJList, unRawList]
    rw [(unRaw_rawJ x (h x (by simp))).1, ih (fun y hy => h y (by simp [hy]))]
    rfl

theorem rawJList_eq_map (xs : List Val) : rawJList xs = xs.map rawJ := by
  induction xs with
  | nil => simp [rawJList]
  | cons x xs ih => simp [rawJList, ih]

theorem valOfType_rawOk (t : PType) (v : Val) (h : valOfType t v = true) (hb : t ≠ .bytes) : rawOk v = true := by
  rcases valOfType_cases _ _ h with ⟨i, rfl⟩ | ⟨b, rfl, _⟩ | ⟨b, rfl, ht⟩ | ⟨b, rfl, ht⟩ | ⟨s, rfl, _⟩ | ⟨s, rfl, ht⟩ <;>
    first | rfl | exact absurd ht hb

/-! ### unconditional unfolding of `toDictSlot` -/

def isLeafVal : Val → Bool
  | .ph | .list _ | .dict _ _ | .msg _ _ _ _ _ => false
  | _ => true

theorem toDictSlot_leaf (S : Schema) (E : Enums) (cs : KeyCase) (incl : Bool) (f : FieldD) (hid sel : Bool) (v : Val)
    (h : isLeafVal v = true) :
    toDictSlot S E cs incl f hid sel v = if hid then toDictDefault S E f sel incl else toDictPlain S E f sel incl v := by
  cases v <;> first | (simp [isLeafVal] at h; done) | (rw [toDictSlot]; all_goals (intros; contradiction))

theorem toDictSlot_ph (S : Schema) (E : Enums) (cs : KeyCase) (incl : Bool) (f : FieldD) (hid sel : Bool) :
    toDictSlot S E cs incl f hid sel .ph = toDictDefault S E f sel incl := by
  rw [toDictSlot]

/-! ### field level: what `to_dict` writes for a field, `_from_dict_init` reads back as the same value -/

/-- the field-level round trip: if the field is written, the written value is not null
    (so `from_dict` does not skip it) and decodes to the original attribute value -/
def FieldRT (S : Schema) (E : Enums) (cs : KeyCase) (f : FieldD) (hid sel : Bool) (v : Val) : Prop :=
  ∀ j, toDictSlot S E cs false f hid sel v = some j → j ≠ .null ∧ decodeField S E f j = .ok v

theorem isLeafJ_ne_null (j : JVal) (h : isLeafJ j = true) : j ≠ .null := by
  intro e; subst e; simp [isLeafJ] at h

theorem decodeField_leaf (S : Schema) (E : Enums) (f : FieldD) (j : JVal) (h : isLeafJ j = true)
    (hm : (f.ty == .message) = false) (hmap : (f.ty == .map) = false) :
    decodeField S E f j = decScalarItem E f j := by
  cases j <;> simp [isLeafJ] at h <;> simp [decodeField, hm, hmap]

/-- what `to_dict` does with a singular scalar field: written iff it differs from the default or
    is the selected oneof member (a proto3-optional member never equals its default None) -/
theorem toDictSlot_scalar (S : Schema) (E : Enums) (cs : KeyCase) (f : FieldD) (sel : Bool) (v : Val)
    (hm : (f.ty == .message) = false) (hmap : (f.ty == .map) = false) (hr : f.repeated = false)
    (hv : valOfType f.ty v = true) :
    toDictSlot S E cs false f false sel v
      = if !eqDefault S f.defKind v || sel then some (encItem E f v) else Option.none := by
  have hl : isLeafVal v = true := by
    rcases valOfType_cases _ _ hv with ⟨i, rfl⟩ | ⟨b, rfl, _⟩ | ⟨b, rfl, _⟩ | ⟨b, rfl, _⟩ | ⟨s, rfl, _⟩ | ⟨s, rfl, _⟩ <;> rfl
  rw [toDictSlot_leaf _ _ _ _ _ _ _ _ hl]
  simp only [Bool.false_eq_true, if_false, toDictPlain, hm, hmap, Bool.or_false]
  have henc : encScalar E f false v = some (encItem E f v) := by
    unfold encScalar encItem
    rcases valOfType_cases _ _ hv with ⟨i, rfl⟩ | ⟨b, rfl, _⟩ | ⟨b, rfl, _⟩ | ⟨b, rfl, _⟩ | ⟨s, rfl, _⟩ | ⟨s, rfl, _⟩ <;>
      simp [hr] <;> (repeat' split) <;> rfl
  rw [henc]

/-- singular scalar field (every scalar type; plain, proto3-optional or oneof member) -/
theorem fieldRT_scalar (S : Schema) (E : Enums) (cs : KeyCase) (f : FieldD) (sel : Bool) (v : Val)
    (hm : (f.ty == .message) = false) (hmap : (f.ty == .map) = false) (hr : f.repeated = false)
    (he : enumOk (enumOf E f) = true) (hv : valOfType f.ty v = true) :
    FieldRT S E cs f false sel v := by
  intro j hj
  have hl : isLeafVal v = true := by
    rcases valOfType_cases _ _ hv with ⟨i, rfl⟩ | ⟨b, rfl, _⟩ | ⟨b, rfl, _⟩ | ⟨b, rfl, _⟩ | ⟨s, rfl, _⟩ | ⟨s, rfl, _⟩ <;> rfl
  rw [toDictSlot_leaf _ _ _ _ _ _ _ _ hl] at hj
  simp only [Bool.false_eq_true, if_false, toDictPlain, hm, hmap] at hj
  split at hj
  · have henc : encScalar E f false v = some (encItem E f v) := by
      unfold encScalar encItem
      rcases valOfType_cases _ _ hv with ⟨i, rfl⟩ | ⟨b, rfl, _⟩ | ⟨b, rfl, _⟩ | ⟨b, rfl, _⟩ | ⟨s, rfl, _⟩ | ⟨s, rfl, _⟩ <;>
        simp [hr] <;> (repeat' split) <;> rfl
    rw [henc] at hj
    injection hj with hj; subst hj
    obtain ⟨h1, h2⟩ := decItem_encItem E f he v hv
    exact ⟨isLeafJ_ne_null _ h2, by rw [decodeField_leaf S E f _ h2 hm hmap, h1]⟩
  · simp at hj

theorem eqDefault_list (S : Schema) (xs : List Val) : eqDefault S .list (.list xs) = xs.isEmpty := by
  rw [eqDefault]; simp

/-- repeated scalar field of every scalar type -/
theorem fieldRT_repeated_scalar (S : Schema) (E : Enums) (cs : KeyCase) (f : FieldD) (sel : Bool) (xs : List Val)
    (hm : (f.ty == .message) = false) (hmap : (f.ty == .map) = false) (hr : f.repeated = true)
    (he : enumOk (enumOf E f) = true) (hx : ∀ x ∈ xs, valOfType f.ty x = true) :
    FieldRT S E cs f false sel (.list xs) := by
  intro j hj
  rw [toDictSlot] at hj
  simp only [Bool.false_eq_true, if_false, hm, hmap, hr, Bool.not_true] at hj
  split at hj
  · -- the written array is `xs.map (encItem E f)` whatever the type
    have hj' : j = .arr (xs.map (encItem E f)) := by
      unfold encItem
      by_cases h1 : isInt64 f.ty = true
      · simp [h1] at hj ⊢; exact hj.symm
      · by_cases h2 : (f.ty == PType.bytes) = true
        · simp [h1, h2] at hj ⊢; exact hj.symm
        · by_cases h3 : (f.ty == PType.enum) = true
          · simp [h1, h2, h3] at hj ⊢; exact hj.symm
          · by_cases h4 : (f.ty == PType.float || f.ty == PType.double) = true
            · simp only [h1, h2, h3, h4, if_true, if_false, Bool.false_eq_true] at hj ⊢
              injection hj with hj; exact hj.symm
            · simp only [h1, h2, h3, h4, if_false, Bool.false_eq_true, rawJ, rawJList_eq_map] at hj ⊢
              injection hj with hj; exact hj.symm
    subst hj'
    refine ⟨(by intro h; cases h), ?_⟩
    rw [decodeField]
    simp only [hm, hmap, Bool.false_and, Bool.false_eq_true, if_false]
    by_cases hsp : (isInt64 f.ty || f.ty == .bytes || f.ty == .enum || f.ty == .float || f.ty == .double) = true
    · rw [if_pos hsp, mapMR_dec_enc E f he xs hx]; rfl
    · rw [if_neg hsp]
      have hsp' : isInt64 f.ty = false ∧ (f.ty == PType.bytes) = false ∧ (f.ty == PType.enum) = false
          ∧ (f.ty == PType.float) = false ∧ (f.ty == PType.double) = false := by
        simp only [Bool.or_eq_true, not_or, Bool.not_eq_true] at hsp
        exact ⟨hsp.1.1.1.1, hsp.1.1.1.2, hsp.1.1.2, hsp.1.2, hsp.2⟩
      have henc : xs.map (encItem E f) = rawJList xs := by
        rw [rawJList_eq_map]
        apply List.map_congr_left
        intro x _
        simp [encItem, hsp'.1, hsp'.2.1, hsp'.2.2.1, hsp'.2.2.2.1, hsp'.2.2.2.2]
      rw [henc, unRaw, unRawList_rawJList xs (fun x hx' => valOfType_rawOk _ _ (hx x hx') (by
        intro e; rw [e] at hsp'; simp at hsp'))]
      rfl
  · simp at hj

/-- singular Timestamp / Duration field (plain, proto3-optional, oneof member) -/
theorem fieldRT_wkt (S : Schema) (E : Enums) (cs : KeyCase) (f : FieldD) (sel : Bool) (v : Val)
    (hm : (f.ty == .message) = true) (hw : f.wraps = Option.none)
    (hv : (f.kind = .timestamp ∧ ∃ us, v = .ts us) ∨ (f.kind = .duration ∧ ∃ us, v = .dur us)) :
    FieldRT S E cs f false sel v := by
  intro j hj
  rcases hv with ⟨hk, us, rfl⟩ | ⟨hk, us, rfl⟩
  · rw [toDictSlot_leaf _ _ _ _ _ _ _ _ rfl] at hj
    simp only [Bool.false_eq_true, if_false, toDictPlain, hm, if_true] at hj
    split at hj
    · injection hj with hj; subst hj
      exact ⟨(by intro h; cases h), by simp [decodeField, hm, hw, hk, isoparse]⟩
    · simp at hj
  · rw [toDictSlot_leaf _ _ _ _ _ _ _ _ rfl] at hj
    simp only [Bool.false_eq_true, if_false, toDictPlain, hm, if_true] at hj
    split at hj
    · injection hj with hj; subst hj
      exact ⟨(by intro h; cases h), by simp [decodeField, hm, hw, hk, durParse]⟩
    · simp at hj

theorem mapMR_iso (xs : List Val) (h : ∀ x ∈ xs, ∃ us, x = .ts us) : mapMR isoparse (xs.map tsJ) = .ok xs := by
  induction xs with
  | nil => rfl
  | cons x xs ih =>
    obtain ⟨us, rfl⟩ := h x (by simp)
    simp only [List.map_cons, mapMR, tsJ, isoparse, bind_ok]
    rw [ih (fun y hy => h y (by simp [hy]))]; rfl

theorem mapMR_dur (xs : List Val) (h : ∀ x ∈ xs, ∃ us, x = .dur us) : mapMR durParse (xs.map durJ) = .ok xs := by
  induction xs with
  | nil => rfl
  | cons x xs ih =>
    obtain ⟨us, rfl⟩ := h x (by simp)
    simp only [List.map_cons, mapMR, durJ, durParse, bind_ok]
    rw [ih (fun y hy => h y (by simp [hy]))]; rfl

/-- repeated Timestamp / Duration field -/
theorem fieldRT_repeated_wkt (S : Schema) (E : Enums) (cs : KeyCase) (f : FieldD) (sel : Bool) (xs : List Val)
    (hm : (f.ty == .message) = true) (hw : f.wraps = Option.none) (hr : f.repeated = true)
    (hv : (f.kind = .timestamp ∧ ∀ x ∈ xs, ∃ us, x = .ts us) ∨ (f.kind = .duration ∧ ∀ x ∈ xs, ∃ us, x = .dur us)) :
    FieldRT S E cs f false sel (.list xs) := by
  intro j hj
  rw [toDictSlot] at hj
  simp only [Bool.false_eq_true, if_false, hm, if_true, hw, Option.isSome_none, hr] at hj
  rcases hv with ⟨hk, hx⟩ | ⟨hk, hx⟩
  · simp only [hk] at hj
    split at hj
    · injection hj with hj; subst hj
      refine ⟨(by intro h; cases h), ?_⟩
      rw [decodeField]
      simp only [hm, if_true, hw, Option.isSome_none, Bool.false_eq_true, if_false, hk]
      rw [mapMR_iso xs hx]; rfl
    · simp at hj
  · simp only [hk] at hj
    split at hj
    · injection hj with hj; subst hj
      refine ⟨(by intro h; cases h), ?_⟩
      rw [decodeField]
      simp only [hm, if_true, hw, Option.isSome_none, Bool.false_eq_true, if_false, hk]
      rw [mapMR_dur xs hx]; rfl
    · simp at hj

/-- wrapper field (every wrapped type except bytes): the bare value passes through -/
theorem fieldRT_wrapper (S : Schema) (E : Enums) (cs : KeyCase) (f : FieldD) (sel : Bool) (v : Val) (w : PType)
    (hm : (f.ty == .message) = true) (hw : f.wraps = some w) (hb : w ≠ .bytes) (hv : valOfType w v = true) :
    FieldRT S E cs f false sel v := by
  intro j hj
  have hro := valOfType_rawOk w v hv hb
  have hl : isLeafVal v = true := by cases v <;> simp [rawOk] at hro <;> rfl
  rw [toDictSlot_leaf _ _ _ _ _ _ _ _ hl] at hj
  have hj' : j = rawJ v := by
    cases v <;> simp [rawOk] at hro <;>
      (simp only [Bool.false_eq_true, if_false, toDictPlain, hm, if_true, hw, Option.isSome_some] at hj
       injection hj with hj; exact hj.symm)
  subst hj'
  obtain ⟨h1, h2⟩ := unRaw_rawJ v hro
  refine ⟨isLeafJ_ne_null _ h2, ?_⟩
  cases v <;> simp [rawOk] at hro <;> simp [rawJ, decodeField, hm, hw, unRaw]

theorem toDictMapVals_raw (S : Schema) (E : Enums) (cs : KeyCase) (incl : Bool) (vs : List Val)
    (h : ∀ x ∈ vs, rawOk x = true) : toDictMapVals S E cs incl vs = rawJList vs := by
  induction vs with
  | nil => rw [toDictMapVals, rawJList]
  | cons x xs ih =>
    have hx := h x (by simp)
    rw [rawJList, ← ih (fun y hy => h y (by simp [hy]))]
    cases x <;> simp [rawOk] at hx <;> (rw [toDictMapVals]; all_goals (intros; contradiction))

theorem keyV_keyJ (ks : List Val) (h : ∀ k ∈ ks, ∃ s, k = .str s) : (ks.map keyJ).map keyV = ks := by
  induction ks with
  | nil => rfl
  | cons k ks ih =>
    obtain ⟨s, rfl⟩ := h k (by simp)
    simp only [List.map_cons, keyJ, keyV]
    rw [ih (fun y hy => h y (by simp [hy]))]

/-- `map<string, V>` for every scalar V except bytes: keys and values pass through -/
theorem fieldRT_map_scalar (S : Schema) (E : Enums) (cs : KeyCase) (f : FieldD) (sel : Bool) (ks vs : List Val)
    (hmap : f.ty = .map) (hv : (f.mapV == .message) = false)
    (hk : ∀ k ∈ ks, ∃ s, k = .str s) (hx : ∀ x ∈ vs, rawOk x = true) :
    FieldRT S E cs f false sel (.dict ks vs) := by
  intro j hj
  rw [toDictSlot] at hj
  simp only [Bool.false_eq_true, if_false, hmap, beq_self_eq_true, if_true] at hj
  split at hj
  · injection hj with hj; subst hj
    refine ⟨(by intro h; cases h), ?_⟩
    rw [decodeField]
    have h64 : isInt64 PType.map = false := by decide
    simp only [hmap, hv, h64, Bool.and_false, Bool.false_eq_true, if_false, Bool.or_self,
      show (PType.map == PType.message) = false from rfl, show (PType.map == PType.bytes) = false from rfl,
      show (PType.map == PType.enum) = false from rfl, show (PType.map == PType.float) = false from rfl,
      show (PType.map == PType.double) = false from rfl]
    rw [unRaw, toDictMapVals_raw S E cs false vs hx, unRawList_rawJList vs hx]
    simp only [bind_ok, keyV_keyJ ks hk]
  · simp at hj

/-! ### key lookup and the loop of `_from_dict_init` over the output of `to_dict` -/

theorem findName_spec (fs : List FieldD) (name : List Char) (k j : Nat) (f : FieldD)
    (h : findName fs name k = some (j, f)) : k ≤ j ∧ fs[j - k]? = some f := by
  induction fs generalizing k with
  | nil => simp [findName] at h
  | cons a as ih =>
    rw [findName] at h
    split at h
    · injection h with h; injection h with h1 h2
      subst h1; subst h2; simp
    · obtain ⟨h1, h2⟩ := ih (k + 1) h
      refine ⟨by omega, ?_⟩
      have : j - k = (j - (k + 1)) + 1 := by omega
      rw [this]; simpa using h2

/-- **the key `to_dict` writes for a field is mapped by `from_dict` back to that field** (under
    the decidable guard `namesOk`; C19 proves the guard for the names of its fragment) -/
theorem namesOk_lookup (cs : KeyCase) (fs : List FieldD) (h : namesOk cs fs = true) (i : Nat) (f : FieldD)
    (hf : fs[i]? = some f) : fieldOfJKey fs (jsonKey cs f.name) = .ok (some (i, f)) := by
  unfold namesOk at h
  rw [List.all_eq_true] at h
  have hi : i < fs.length := by
    by_contra hc
    rw [List.getElem?_eq_none (by omega)] at hf; simp at hf
  have := h i (by simp [hi])
  simp only [hf] at this
  cases hk : fieldOfJKey fs (jsonKey cs f.name) with
  | error e => rw [hk] at this; simp at this
  | ok o =>
    rw [hk] at this
    cases o with
    | none => simp at this
    | some p =>
      obtain ⟨j, f'⟩ := p
      simp only [beq_iff_eq] at this
      subst this
      simp only [jsonKey, fieldOfJKey] at hk
      injection hk with hk
      obtain ⟨_, h2⟩ := findName_spec _ _ _ _ _ hk
      simp only [Nat.sub_zero, hf] at h2
      injection h2 with h2; subst h2; rfl

/-- the constructor arguments `to_dict`'s output turns into: the written fields, by index -/
def emitted (S : Schema) (E : Enums) (cs : KeyCase) (fs : List FieldD) (cur : List (Option Nat)) :
    Nat → List Val → List (Nat × Val)
  | _, [] => []
  | idx, v :: vs =>
    match fs[idx]? with
    | Option.none => []
    | some f =>
      match toDictSlot S E cs false f (hidden f idx cur) (selectedInGroup f idx cur) v with
      | some _ => (idx, v) :: emitted S E cs fs cur (idx + 1) vs
      | Option.none => emitted S E cs fs cur (idx + 1) vs

theorem fromDictKV_cons (S : Schema) (E : Enums) (c : Nat) (k : JKey) (ks : List JKey) (j : JVal) (js : List JVal)
    (i : Nat) (f : FieldD) (hk : fieldOfJKey (fieldsOf S c) k = .ok (some (i, f))) (hj : j ≠ .null) :
    fromDictKV S E c (k :: ks) (j :: js)
      = (decodeField S E f j).bind fun v => (fromDictKV S E c ks js).bind fun kw => .ok ((i, v) :: kw) := by
  rw [fromDictKV]
  simp only [hk]

theorem kv_roundtrip (S : Schema) (E : Enums) (cs : KeyCase) (c : Nat) (cur : List (Option Nat))
    (hn : namesOk cs (fieldsOf S c) = true) (slots : List Val) (idx : Nat)
    (hrt : ∀ k v f, slots[k]? = some v → (fieldsOf S c)[idx + k]? = some f →
      FieldRT S E cs f (hidden f (idx + k) cur) (selectedInGroup f (idx + k) cur) v) :
    fromDictKV S E c ((toDictKVs S E cs false (fieldsOf S c) cur idx slots).map (·.1))
        ((toDictKVs S E cs false (fieldsOf S c) cur idx slots).map (·.2))
      = .ok (emitted S E cs (fieldsOf S c) cur idx slots) := by
  induction slots generalizing idx with
  | nil => rw [toDictKVs, emitted]; simp [fromDictKV]
  | cons v vs ih =>
    rw [toDictKVs, emitted]
    have ih' := ih (idx + 1) (by
      intro k v' f' hv hf'
      have := hrt (k + 1) v' f' (by simpa using hv) (by rw [← hf']; congr 1; omega)
      have e : idx + (k + 1) = idx + 1 + k := by omega
      rw [e] at this; exact this)
    cases hf : (fieldsOf S c)[idx]? with
    | none => simp [fromDictKV]
    | some f =>
      simp only []
      have h0 := hrt 0 v f (by simp) (by simpa using hf)
      simp only [Nat.add_zero] at h0
      cases hs : toDictSlot S E cs false f (hidden f idx cur) (selectedInGroup f idx cur) v with
      | none => simp only []; exact ih'
      | some j =>
        simp only [List.map_cons]
        obtain ⟨hnn, hdec⟩ := h0 j hs
        rw [fromDictKV_cons S E c _ _ j _ idx f (namesOk_lookup cs _ hn idx f hf) hnn, hdec, ih']
        rfl

/-! ### flat messages: a decidable slot guard that implies the field-level round trip -/

def isTsV : Val → Bool
  | .ts _ => true
  | _ => false
def isDurV : Val → Bool
  | .dur _ => true
  | _ => false
def isStrV : Val → Bool
  | .str _ => true
  | _ => false

/-- the slot holds nothing (`to_dict` then writes nothing), or a well-typed scalar / list of
    scalars / Timestamp / Duration / wrapper value / `map<string, scalar>` of a field in `JsonOk` -/
def flatSlotOk (S : Schema) (E : Enums) (cs : KeyCase) (f : FieldD) (hid sel : Bool) : Val → Bool
  | .ph => (toDictSlot S E cs false f hid sel .ph).isNone
  | .none => (toDictSlot S E cs false f hid sel .none).isNone
  | .list xs =>
    !hid && f.repeated && f.ty != .map &&
      (if f.ty == .message then
         f.wraps.isNone && ((f.kind == .timestamp && xs.all isTsV) || (f.kind == .duration && xs.all isDurV))
       else xs.all (valOfType f.ty))
  | .dict ks vs => !hid && f.ty == .map && f.mapV != .message && ks.all isStrV && vs.all rawOk
  | .msg _ _ _ _ _ => false
  | v =>
    !hid && !f.repeated && f.ty != .map &&
      (if f.ty == .message then
         (match f.wraps with
          | some w => w != .bytes && valOfType w v
          | Option.none => (f.kind == .timestamp && isTsV v) || (f.kind == .duration && isDurV v))
       else valOfType f.ty v)

theorem flatSlotOk_leaf (S : Schema) (E : Enums) (cs : KeyCase) (f : FieldD) (hid sel : Bool) (v : Val)
    (hl : isLeafVal v = true) (hn : v ≠ .none) :
    flatSlotOk S E cs f hid sel v =
      (!hid && !f.repeated && f.ty != .map &&
        (if f.ty == .message then
           (match f.wraps with
            | some w => w != .bytes && valOfType w v
            | Option.none => (f.kind == .timestamp && isTsV v) || (f.kind == .duration && isDurV v))
         else valOfType f.ty v)) := by
  cases v <;> first | (simp [isLeafVal] at hl; done) | exact absurd rfl hn | rfl

theorem fieldRT_of_flat (S : Schema) (E : Enums) (cs : KeyCase) (f : FieldD) (hid sel : Bool) (v : Val)
    (he : enumOk (enumOf E f) = true) (h : flatSlotOk S E cs f hid sel v = true) :
    FieldRT S E cs f hid sel v := by
  by_cases hl : isLeafVal v = true ∧ v ≠ .none
  · rw [flatSlotOk_leaf S E cs f hid sel v hl.1 hl.2] at h
    simp only [Bool.and_eq_true, Bool.not_eq_true', bne_iff_ne, ne_eq] at h
    obtain ⟨⟨⟨hh, hr⟩, hmap⟩, hrest⟩ := h
    subst hh
    have hmap' : (f.ty == PType.map) = false := by simpa using hmap
    by_cases hm : (f.ty == PType.message) = true
    · rw [if_pos hm] at hrest
      cases hw : f.wraps with
      | some w =>
        rw [hw] at hrest
        simp only [Bool.and_eq_true, bne_iff_ne, ne_eq] at hrest
        exact fieldRT_wrapper S E cs f sel v w hm hw hrest.1 hrest.2
      | none =>
        rw [hw] at hrest
        simp only [Bool.or_eq_true, Bool.and_eq_true, beq_iff_eq] at hrest
        refine fieldRT_wkt S E cs f sel v hm hw ?_
        rcases hrest with ⟨hk, hv⟩ | ⟨hk, hv⟩
        · left; refine ⟨hk, ?_⟩; cases v <;> simp [isTsV] at hv; exact ⟨_, rfl⟩
        · right; refine ⟨hk, ?_⟩; cases v <;> simp [isDurV] at hv; exact ⟨_, rfl⟩
    · have hm' : (f.ty == PType.message) = false := by simpa using hm
      rw [if_neg hm] at hrest
      exact fieldRT_scalar S E cs f sel v hm' hmap' hr he hrest
  · cases v with
    | ph => intro j hj; simp [flatSlotOk, hj] at h
    | none => intro j hj; simp [flatSlotOk, hj] at h
    | msg c sl ow unk cur => simp [flatSlotOk] at h
    | list xs =>
      simp only [flatSlotOk, Bool.and_eq_true, Bool.not_eq_true', bne_iff_ne, ne_eq] at h
      obtain ⟨⟨⟨hh, hr⟩, hmap⟩, hrest⟩ := h
      subst hh
      have hmap' : (f.ty == PType.map) = false := by simpa using hmap
      by_cases hm : (f.ty == PType.message) = true
      · rw [if_pos hm] at hrest
        simp only [Bool.and_eq_true, Bool.or_eq_true, beq_iff_eq, Option.isNone_iff_eq_none, List.all_eq_true] at hrest
        refine fieldRT_repeated_wkt S E cs f sel xs hm hrest.1 hr ?_
        rcases hrest.2 with ⟨hk, hv⟩ | ⟨hk, hv⟩
        · left; refine ⟨hk, fun x hx => ?_⟩
          have := hv x hx; cases x <;> simp [isTsV] at this; exact ⟨_, rfl⟩
        · right; refine ⟨hk, fun x hx => ?_⟩
          have := hv x hx; cases x <;> simp [isDurV] at this; exact ⟨_, rfl⟩
      · have hm' : (f.ty == PType.message) = false := by simpa using hm
        rw [if_neg hm] at hrest
        exact fieldRT_repeated_scalar S E cs f sel xs hm' hmap' hr he (by simpa using hrest)
    | dict ks vs =>
      simp only [flatSlotOk, Bool.and_eq_true, Bool.not_eq_true', bne_iff_ne, ne_eq, beq_iff_eq, List.all_eq_true] at h
      obtain ⟨⟨⟨⟨hh, hmap⟩, hv⟩, hk⟩, hx⟩ := h
      subst hh
      exact fieldRT_map_scalar S E cs f sel ks vs hmap (by simpa using hv)
        (fun k hk' => by have := hk k hk'; cases k <;> simp [isStrV] at this; exact ⟨_, rfl⟩) hx
    | _ => exact absurd ⟨rfl, by intro e; cases e⟩ hl

/-- every slot of the message satisfies `flatSlotOk` -/
def flatSlots (S : Schema) (E : Enums) (cs : KeyCase) (fs : List FieldD) (cur : List (Option Nat)) : Nat → List Val → Bool
  | _, [] => true
  | i, v :: vs =>
    (match fs[i]? with
     | some f => flatSlotOk S E cs f (hidden f i cur) (selectedInGroup f i cur) v
     | Option.none => true) && flatSlots S E cs fs cur (i + 1) vs

theorem flatSlots_get (S : Schema) (E : Enums) (cs : KeyCase) (fs : List FieldD) (cur : List (Option Nat))
    (slots : List Val) (idx : Nat) (h : flatSlots S E cs fs cur idx slots = true) (k : Nat) (v : Val) (f : FieldD)
    (hv : slots[k]? = some v) (hf : fs[idx + k]? = some f) :
    flatSlotOk S E cs f (hidden f (idx + k) cur) (selectedInGroup f (idx + k) cur) v = true := by
  induction slots generalizing idx k with
  | nil => simp at hv
  | cons a as ih =>
    simp only [flatSlots, Bool.and_eq_true] at h
    cases k with
    | zero =>
      simp at hv; subst hv
      simp only [Nat.add_zero] at hf ⊢
      rw [hf] at h; exact h.1
    | succ k =>
      have := ih (idx + 1) h.2 k (by simpa using hv) (by rw [← hf]; congr 1; omega)
      have e : idx + (k + 1) = idx + 1 + k := by omega
      rw [e]; exact this

end Bp
