import BpModel.All
import BpModel.JsonSpec
import BpProofs.JsonSpec
import BpProofs.JsonRtSlot
/-
  C05, the message-level theorem: inside the decidable guards, betterproto's `to_dict`
  (`toDict`, BpModel/Json.lean) IS the canonical proto3 JSON mapping (`specJson`,
  BpModel/JsonSpec.lean), member for member and in the same order, to any nesting depth.

  `canon_slots` / `canon_slot` / `canon_msgs` go by structural recursion over `List Val` / `Val`
  (the pattern of BpProofs/JsonRtMain.lean); the per-kind lemmas above them compare the two
  functions on one slot value of a `wellTyped'` message (BpProofs/JsonGuard.lean).
-/
namespace Bp
open Gen

/-! ### guards -/

/-- the part of `jsonOk5` the forward direction (`toDict = specJson`) uses: every field is in the
    region where `to_dict` is right AND canonical (`fieldJsonOk5`), Python enum member names are
    the proto names (`enumOk5`).  `namesOk` / `enumOk` (keys and enum names are read BACK
    correctly) are not needed to compare the two outputs. -/
def canonOk (S : Schema) (E : Enums) : Bool :=
  S.all (fun d => d.fields.all fieldJsonOk5) && E.all enumOk5

theorem canonOk_of_jsonOk5 (S : Schema) (E : Enums) (h : jsonOk5 S E = true) : canonOk S E = true := by
  unfold jsonOk5 at h
  unfold canonOk
  simp only [Bool.and_eq_true] at h ⊢
  exact ⟨h.1.2, h.2⟩

theorem canon_field (S : Schema) (E : Enums) (h : canonOk S E = true) (c : Nat) (f : FieldD)
    (hf : f ∈ fieldsOf S c) : fieldJsonOk5 f = true := by
  unfold canonOk at h
  simp only [Bool.and_eq_true, List.all_eq_true] at h
  obtain ⟨d, hd, _, hfd⟩ := fieldsOf_mem S c f hf
  exact h.1 d hd f hfd

theorem canon_enum (S : Schema) (E : Enums) (h : canonOk S E = true) (f : FieldD) :
    enumOk5 (enumOf E f) = true := by
  unfold canonOk at h
  simp only [Bool.and_eq_true, List.all_eq_true] at h
  unfold enumOf
  rw [List.getD_eq_getElem?_getD]
  cases hg : E[f.enumRef.getD 0]? with
  | none => rfl
  | some e => exact h.2 e (List.mem_of_getElem? hg)

/-- what `fieldJsonOk5` adds to `fieldJsonOk` -/
structure FJ5 (f : FieldD) : Prop where
  fj : FJ f
  key : jsonKey .camel f.name = specKey f.name
  mapv : (f.ty == PType.map) = true → (f.mapV == PType.message) = false →
    f.mapV = .int32 ∨ f.mapV = .uint32 ∨ f.mapV = .sint32 ∨ f.mapV = .fixed32 ∨ f.mapV = .sfixed32 ∨
      f.mapV = .bool ∨ f.mapV = .string
  wr : ∀ w, f.wraps = some w → w = .int32 ∨ w = .uint32 ∨ w = .bool ∨ w = .string

theorem fj5_of (f : FieldD) (h : fieldJsonOk5 f = true) : FJ5 f := by
  unfold fieldJsonOk5 at h
  simp only [Bool.and_eq_true, beq_iff_eq] at h
  obtain ⟨⟨h1, h2⟩, h3⟩ := h
  have hj := fj_of f h1
  refine ⟨hj, h2, ?_, ?_⟩
  · intro hm hv
    have hty : f.ty = PType.map := by simpa using hm
    rw [if_pos hty] at h3
    simp only [Bool.or_eq_true, beq_iff_eq] at h3
    have hv' : f.mapV ≠ PType.message := by simpa using hv
    rcases h3 with ((((((h | h) | h) | h) | h) | h) | h) | h
    · exact Or.inl h
    · exact Or.inr (Or.inl h)
    · exact Or.inr (Or.inr (Or.inl h))
    · exact Or.inr (Or.inr (Or.inr (Or.inl h)))
    · exact Or.inr (Or.inr (Or.inr (Or.inr (Or.inl h))))
    · exact Or.inr (Or.inr (Or.inr (Or.inr (Or.inr (Or.inl h)))))
    · exact Or.inr (Or.inr (Or.inr (Or.inr (Or.inr (Or.inr h)))))
    · exact absurd h hv'
  · intro w hw
    have hm : (f.ty == PType.map) = false := by
      cases hm : (f.ty == PType.map) with
      | false => rfl
      | true => have := hj.map_wr hm; rw [hw] at this; cases this
    have hty : ¬ f.ty = PType.map := by simpa using hm
    rw [if_neg hty, hw] at h3
    simp only [Bool.or_eq_true, beq_iff_eq] at h3
    rcases h3 with ((h | h) | h) | h
    · exact Or.inl h
    · exact Or.inr (Or.inl h)
    · exact Or.inr (Or.inr (Or.inl h))
    · exact Or.inr (Or.inr (Or.inr h))

/-- `hid` / `sel` as `to_dict` computes them: a visible field is "selected" iff it is a oneof member -/
def HS5 (f : FieldD) (hid sel : Bool) : Prop := hid = false → sel = f.group.isSome

theorem hs5_slot (f : FieldD) (k : Nat) (cur : List (Option Nat)) :
    HS5 f (hidden f k cur) (selectedInGroup f k cur) := by
  unfold HS5 hidden selectedInGroup
  cases f.group with
  | none => simp
  | some g => simp

/-! ### leaves -/

/-- the default test of `to_dict` on a typed scalar is the spec's, except for -0.0 (D25) -/
theorem eqDefault_spec (S : Schema) (t : PType) (v : Val) (hv : valOfType t v = true)
    (hz32 : ∀ b, v = .f32 b → b ≠ 0x80000000) (hz64 : ∀ b, v = .f64 b → b ≠ 0x8000000000000000) :
    eqDefault S (scalarDef t) v = specIsDefault v := by
  rcases valOfType_cases _ _ hv with ⟨i, rfl⟩ | ⟨b, rfl, rfl⟩ | ⟨b, rfl, rfl⟩ | ⟨b, rfl, rfl⟩ | ⟨s, rfl, rfl⟩ | ⟨s, rfl, rfl⟩
  · cases t <;> simp [valOfType] at hv <;> simp [eqDefault, scalarDef, specIsDefault]
  · simp [eqDefault, scalarDef, specIsDefault]
  · have := hz32 b rfl
    simp [eqDefault, scalarDef, specIsDefault, f32IsZero, this]
  · have := hz64 b rfl
    simp [eqDefault, scalarDef, specIsDefault, f64IsZero, this]
  · simp [eqDefault, scalarDef, specIsDefault]
  · simp [eqDefault, scalarDef, specIsDefault]

/-- a typed scalar that is not a 64-bit int, float, enum or bytes is written as it is, canonically -/
theorem rawJ_spec (e : EnumDef) (t : PType) (v : Val) (hv : valOfType t v = true)
    (ht : t = .int32 ∨ t = .uint32 ∨ t = .sint32 ∨ t = .fixed32 ∨ t = .sfixed32 ∨ t = .bool ∨ t = .string) :
    rawJ v = specScalar e t v := by
  rcases ht with rfl | rfl | rfl | rfl | rfl | rfl | rfl <;>
    (cases v <;> simp [valOfType] at hv; all_goals simp [rawJ, specScalar, isInt64, int64Types])

theorem specLeaf_scalar (E : Enums) (f : FieldD) (v : Val) (hw : f.wraps = Option.none) (t : PType)
    (hv : valOfType t v = true) : specLeaf E f v = specScalar (enumOf E f) f.ty v := by
  cases v <;> simp [valOfType] at hv <;> simp [specLeaf, hw]

theorem specLeaf_wrapped (E : Enums) (f : FieldD) (v : Val) (w : PType) (hw : f.wraps = some w)
    (hv : valOfType w v = true) : specLeaf E f v = specScalar [] w v := by
  cases v <;> simp [valOfType] at hv <;> simp [specLeaf, hw]

/-- the implicit-presence branch of `specSlot` on a leaf -/
def specPlain (E : Enums) (f : FieldD) : Val → Option JVal
  | .ts us => if us == 0 then Option.none else some (.tsStr us)
  | .dur us => if us == 0 then Option.none else some (.durStr us)
  | v => if specIsDefault v then Option.none else some (specLeaf E f v)

theorem specSlot_leaf (S : Schema) (E : Enums) (f : FieldD) (hid : Bool) (v : Val) (hl : isLeafVal v = true)
    (hn : v ≠ .none) :
    specSlot S E f hid v =
      if hid then Option.none
      else if f.group.isSome || f.optional || f.wraps.isSome then some (specLeaf E f v)
      else specPlain E f v := by
  cases v <;> first | (simp [isLeafVal] at hl; done) | exact absurd rfl hn | (rw [specSlot]; all_goals first | rfl | (intros; contradiction))

theorem specPlain_scalar (E : Enums) (f : FieldD) (v : Val) (t : PType) (hv : valOfType t v = true) :
    specPlain E f v = if specIsDefault v then Option.none else some (specLeaf E f v) := by
  cases v <;> simp [valOfType] at hv <;> rfl

/-- a scalar / wrapper / Timestamp / Duration value in a singular field -/
theorem canon_leaf (S : Schema) (E : Enums) (f : FieldD) (hid sel : Bool) (v : Val) (h5 : FJ5 f)
    (he : enumOk5 (enumOf E f) = true) (hs : HS5 f hid sel)
    (hl : isLeafVal v = true) (hn : v ≠ .none) (h : slotOk' S f hid sel v = true)
    (hz : noNegZeroSlot S f v = true) :
    toDictSlot S E .camel false f hid sel v = specSlot S E f hid v := by
  have hj := h5.fj
  rw [slotOk_leaf S f hid sel v hl hn] at h
  simp only [Bool.and_eq_true, Bool.not_eq_true'] at h
  obtain ⟨⟨hh, hr⟩, hok⟩ := h
  have hsel := hs hh
  subst hh
  rw [specSlot_leaf S E f false v hl hn]
  simp only [Bool.false_eq_true, if_false]
  unfold leafOk at hok
  by_cases hm : (f.ty == PType.message) = true
  · simp only [hm, if_true] at hok
    rw [toDictSlot_leaf _ _ _ _ _ _ _ _ hl]
    simp only [Bool.false_eq_true, if_false]
    cases hw : f.wraps with
    | some w =>
      rw [hw] at hok
      simp only at hok
      have hsp := specLeaf_wrapped E f v w hw hok
      have hraw : rawJ v = specScalar [] w v := rawJ_spec [] w v hok (by
        rcases h5.wr w hw with h | h | h | h
        · exact Or.inl h
        · exact Or.inr (Or.inl h)
        · exact Or.inr (Or.inr (Or.inr (Or.inr (Or.inr (Or.inl h)))))
        · exact Or.inr (Or.inr (Or.inr (Or.inr (Or.inr (Or.inr h))))))
      rw [hsp, ← hraw]
      simp only [Option.isSome_some, Bool.or_true, if_true]
      rcases valOfType_cases _ _ hok with ⟨i, rfl⟩ | ⟨b, rfl, _⟩ | ⟨b, rfl, _⟩ | ⟨b, rfl, _⟩ | ⟨s, rfl, _⟩ | ⟨s, rfl, _⟩ <;>
        simp [toDictPlain, hm, hw]
    | none =>
      rw [hw] at hok
      simp only at hok
      have hkind : (f.kind = .timestamp ∧ ∃ us, v = .ts us) ∨ (f.kind = .duration ∧ ∃ us, v = .dur us) := by
        cases hk : f.kind <;> rw [hk] at hok <;> cases v <;> simp_all
      rcases hkind with ⟨_, us, rfl⟩ | ⟨_, us, rfl⟩
      · simp only [toDictPlain, hm, if_true, Bool.or_false, Option.isSome_none, specLeaf, specPlain, hsel]
        cases f.group.isSome <;> cases f.optional <;> by_cases h0 : us = 0 <;> simp [h0]
      · simp only [toDictPlain, hm, if_true, Bool.or_false, Option.isSome_none, specLeaf, specPlain, hsel]
        cases f.group.isSome <;> cases f.optional <;> by_cases h0 : us = 0 <;> simp [h0]
  · have hm' : (f.ty == PType.message) = false := by simpa using hm
    simp only [hm', Bool.false_eq_true, if_false, Bool.and_eq_true, bne_iff_ne, ne_eq] at hok
    have hmap : (f.ty == PType.map) = false := by simpa using hok.1
    have hw : f.wraps = Option.none := by
      cases hw : f.wraps with
      | none => rfl
      | some w => have := hj.wr_msg (by simp [hw]); rw [hm'] at this; cases this
    rw [toDictSlot_scalar S E .camel f sel v hm' hmap hr hok.2, encItem_spec E f he v hok.2,
      specLeaf_scalar E f v hw f.ty hok.2, hw, hsel]
    simp only [Option.isSome_none, Bool.or_false]
    rw [specPlain_scalar E f v f.ty hok.2, specLeaf_scalar E f v hw f.ty hok.2]
    cases hg : f.group.isSome with
    | true => simp
    | false =>
      cases ho : f.optional with
      | true =>
        rw [defKind_none f hr hmap (by simp [ho]), eqDefault_none_leaf S v hl hn]
        simp
      | false =>
        rw [defKind_scalar f hr hmap (by simp [ho, hw]) hm']
        have hzz : (∀ b, v = .f32 b → b ≠ 0x80000000) ∧ (∀ b, v = .f64 b → b ≠ 0x8000000000000000) := by
          constructor
          · intro b e; subst e
            rw [noNegZeroSlot] at hz
            simpa [hg, ho, hw] using hz
          · intro b e; subst e
            rw [noNegZeroSlot] at hz
            simpa [hg, ho, hw] using hz
        rw [eqDefault_spec S f.ty v hok.2 hzz.1 hzz.2]
        cases specIsDefault v <;> simp

/-! ### unset and None slots -/

theorem canon_ph (S : Schema) (E : Enums) (f : FieldD) (hid sel : Bool) (hj : FJ f)
    (h : slotOk' S f hid sel .ph = true) :
    toDictSlot S E .camel false f hid sel .ph = specSlot S E f hid .ph := by
  rw [slotOk_ph] at h
  simp only [Bool.and_eq_true, Bool.not_eq_true'] at h
  obtain ⟨hs, _⟩ := h
  subst hs
  rw [toDictSlot_ph, toDictDefault_none S E f hj, specSlot]

theorem canon_none (S : Schema) (E : Enums) (f : FieldD) (hid sel : Bool) (hs : HS f hid sel)
    (h : slotOk' S f hid sel .none = true) :
    toDictSlot S E .camel false f hid sel .none = specSlot S E f hid .none := by
  rw [slotOk_none] at h
  simp only [Bool.and_eq_true, Bool.not_eq_true', bne_iff_ne, ne_eq, Option.isNone_iff_eq_none] at h
  obtain ⟨⟨⟨hg, ho⟩, hr⟩, hmap⟩ := h
  obtain ⟨hh, hsel⟩ := hs.1 hg
  subst hh; subst hsel
  have hmap' : (f.ty == PType.map) = false := by simpa using hmap
  have hdk := defKind_none f hr hmap' ho
  rw [specSlot, toDictSlot_leaf _ _ _ _ _ _ _ _ rfl]
  simp only [Bool.false_eq_true, if_false, toDictPlain]
  by_cases hm : (f.ty == PType.message) = true
  · simp only [hm, if_true, hr, Bool.false_eq_true, if_false]
    split <;> rfl
  · simp only [hm, hmap', Bool.false_eq_true, if_false, hdk]
    simp [eqDefault]

/-! ### repeated fields -/

/-- the items of the array `specSlot` writes for a repeated field -/
def specItems (S : Schema) (E : Enums) (f : FieldD) (xs : List Val) : List JVal :=
  match f.ty, f.wraps, f.kind with
  | .message, Option.none, .user _ => specList S E xs
  | _, _, _ => xs.map (specLeaf E f)

theorem specSlot_list (S : Schema) (E : Enums) (f : FieldD) (hid : Bool) (xs : List Val) :
    specSlot S E f hid (.list xs) =
      if hid || xs.isEmpty then Option.none else some (.arr (specItems S E f xs)) := by
  rw [specSlot]; rfl

theorem specItems_user (S : Schema) (E : Enums) (f : FieldD) (xs : List Val) (c : Nat)
    (hm : (f.ty == PType.message) = true) (hw : f.wraps = Option.none) (hk : f.kind = .user c) :
    specItems S E f xs = specList S E xs := by
  have hty : f.ty = PType.message := by simpa using hm
  unfold specItems
  rw [hty, hw, hk]

theorem specItems_flat (S : Schema) (E : Enums) (f : FieldD) (xs : List Val)
    (hnu : ¬ ((f.ty == PType.message) = true ∧ f.wraps = Option.none ∧ ∃ c, f.kind = .user c)) :
    specItems S E f xs = xs.map (specLeaf E f) := by
  unfold specItems
  split
  · rename_i c h1 h2 h3
    exact absurd ⟨by simp [h1], h2, c, h3⟩ hnu
  · rfl

/-- repeated scalars / Timestamps / Durations -/
theorem canon_list_flat (S : Schema) (E : Enums) (f : FieldD) (hid sel : Bool) (xs : List Val) (hj : FJ f)
    (hs : HS f hid sel) (he : enumOk5 (enumOf E f) = true)
    (hnu : ¬ ((f.ty == PType.message) = true ∧ f.wraps = Option.none ∧ ∃ c, f.kind = .user c))
    (h : slotOk' S f hid sel (.list xs) = true) :
    toDictSlot S E .camel false f hid sel (.list xs) = specSlot S E f hid (.list xs) := by
  obtain ⟨hh, hsel, hr, hmap, _, hw, hit⟩ := list_common S f hid sel xs hj hs h
  subst hh; subst hsel
  have hleaf := itemsOk_leaf S f xs hnu hit
  rw [specSlot_list, specItems_flat S E f xs hnu, toDictSlot]
  simp only [Bool.false_eq_true, if_false, hmap, hr, if_true, hw, Option.isSome_none, Bool.or_false, Bool.not_true,
    Bool.false_or]
  by_cases hm : (f.ty == PType.message) = true
  · simp only [hm, if_true]
    cases hk : f.kind with
    | user c => exact absurd ⟨hm, hw, c, hk⟩ hnu
    | timestamp =>
      have hmapeq : xs.map tsJ = xs.map (specLeaf E f) := by
        apply List.map_congr_left
        intro x hx
        have := hleaf x hx
        unfold leafOk at this
        simp only [hm, if_true, hw, hk] at this
        cases x <;> simp_all [tsJ, specLeaf]
      simp only [hmapeq]
      cases xs <;> simp
    | duration =>
      have hmapeq : xs.map durJ = xs.map (specLeaf E f) := by
        apply List.map_congr_left
        intro x hx
        have := hleaf x hx
        unfold leafOk at this
        simp only [hm, if_true, hw, hk] at this
        cases x <;> simp_all [durJ, specLeaf]
      simp only [hmapeq]
      cases xs <;> simp
  · have hm' : (f.ty == PType.message) = false := by simpa using hm
    have hval : ∀ x ∈ xs, valOfType f.ty x = true := by
      intro x hx
      have := hleaf x hx
      unfold leafOk at this
      simp only [hm, Bool.false_eq_true, if_false, Bool.and_eq_true] at this
      exact this.2
    have hspec : xs.map (specLeaf E f) = xs.map (encItem E f) := by
      apply List.map_congr_left
      intro x hx
      rw [specLeaf_scalar E f x hw f.ty (hval x hx), encItem_spec E f he x (hval x hx)]
    simp only [hm', Bool.false_eq_true, if_false, defKind_rep f hr, eqDefault_list, hspec]
    cases xs with
    | nil => simp
    | cons x xs' =>
      simp only [List.isEmpty_cons, Bool.not_false, if_true, Bool.false_eq_true, if_false]
      unfold encItem
      by_cases h1 : isInt64 f.ty = true
      · simp [h1]
      · by_cases h2 : (f.ty == PType.bytes) = true
        · simp [h1, h2]
        · by_cases h3 : (f.ty == PType.enum) = true
          · simp [h1, h2, h3]
          · by_cases h4 : (f.ty == PType.float || f.ty == PType.double) = true
            · simp only [h1, h2, h3, h4, if_true, if_false, Bool.false_eq_true]
            · simp only [h1, h2, h3, h4, if_false, Bool.false_eq_true, rawJ, rawJList_eq_map]

/-- repeated user messages, given the statement for the items -/
theorem canon_list_user (S : Schema) (E : Enums) (f : FieldD) (hid sel : Bool) (xs : List Val) (c : Nat)
    (hj : FJ f) (hs : HS f hid sel) (hm : (f.ty == PType.message) = true) (hk : f.kind = .user c)
    (h : slotOk' S f hid sel (.list xs) = true)
    (hitems : toDictList S E .camel false xs = specList S E xs) :
    toDictSlot S E .camel false f hid sel (.list xs) = specSlot S E f hid (.list xs) := by
  obtain ⟨hh, hsel, hr, _, _, hw, _⟩ := list_common S f hid sel xs hj hs h
  subst hh; subst hsel
  rw [specSlot_list, specItems_user S E f xs c hm hw hk, toDictSlot]
  simp only [Bool.false_eq_true, if_false, hm, if_true, hw, Option.isSome_none, hr, hk, Bool.or_false, Bool.false_or,
    toDictList_isEmpty]
  rw [hitems]
  cases xs <;> simp

/-! ### map fields -/

theorem specSlot_dict (S : Schema) (E : Enums) (f : FieldD) (hid : Bool) (ks vs : List Val) :
    specSlot S E f hid (.dict ks vs) =
      if hid || ks.isEmpty then Option.none
      else some (.obj (ks.map specMapKey)
        (if f.mapV == .message then specMapVals S E f vs else vs.map (specScalar (enumOf E f) f.mapV))) := by
  rw [specSlot]

theorem keyJ_spec (ks : List Val) (h : ∀ k ∈ ks, ∃ s, k = Val.str s) : ks.map keyJ = ks.map specMapKey := by
  apply List.map_congr_left
  intro k hk
  obtain ⟨s, rfl⟩ := h k hk
  rfl

/-- `map<string, scalar>` with a 32-bit int / bool / string value type -/
theorem canon_dict_flat (S : Schema) (E : Enums) (f : FieldD) (hid sel : Bool) (ks vs : List Val) (h5 : FJ5 f)
    (hs : HS f hid sel) (hv : (f.mapV == PType.message) = false)
    (h : slotOk' S f hid sel (.dict ks vs) = true) :
    toDictSlot S E .camel false f hid sel (.dict ks vs) = specSlot S E f hid (.dict ks vs) := by
  have hj := h5.fj
  obtain ⟨hh, hsel, hty, hks, hvs⟩ := dict_common S f hid sel ks vs hj hs h
  subst hh; subst hsel
  have hm : (f.ty == PType.map) = true := by simp [hty]
  have hvals := mapValsOk_scalar S f vs hv hvs
  have hraw : ∀ x ∈ vs, rawOk x = true := fun x hx => valOfType_rawOk _ x (hvals x hx) (hj.map_vb hm)
  have hsp : vs.map rawJ = vs.map (specScalar (enumOf E f) f.mapV) := by
    apply List.map_congr_left
    intro x hx
    exact rawJ_spec _ _ x (hvals x hx) (h5.mapv hm hv)
  rw [specSlot_dict, toDictSlot]
  simp only [Bool.false_eq_true, if_false, hm, if_true, Bool.or_false, Bool.false_or, hv,
    toDictMapVals_raw S E .camel false vs hraw, rawJList_eq_map, hsp, keyJ_spec ks hks]
  cases ks <;> simp

/-- `map<string, Msg>`, given the statement for the values -/
theorem canon_dict_user (S : Schema) (E : Enums) (f : FieldD) (hid sel : Bool) (ks vs : List Val)
    (hj : FJ f) (hs : HS f hid sel) (hv : (f.mapV == PType.message) = true)
    (h : slotOk' S f hid sel (.dict ks vs) = true)
    (hvals : toDictMapVals S E .camel false vs = specMapVals S E f vs) :
    toDictSlot S E .camel false f hid sel (.dict ks vs) = specSlot S E f hid (.dict ks vs) := by
  obtain ⟨hh, hsel, hty, hks, _⟩ := dict_common S f hid sel ks vs hj hs h
  subst hh; subst hsel
  have hm : (f.ty == PType.map) = true := by simp [hty]
  rw [specSlot_dict, toDictSlot]
  simp only [Bool.false_eq_true, if_false, hm, if_true, Bool.or_false, Bool.false_or, hv, hvals, keyJ_spec ks hks]
  cases ks <;> simp

/-! ### singular sub-messages -/

theorem specSlot_msg (S : Schema) (E : Enums) (f : FieldD) (hid : Bool) (c : Nat) (sl : List Val) (ow : Bool)
    (unk : Bytes) (cur : List (Option Nat)) :
    specSlot S E f hid (.msg c sl ow unk cur) =
      if hid then Option.none
      else if f.group.isSome || f.optional || ow || !eqDefault S f.defKind (.msg c sl ow unk cur) then
        some (mkObj (specKVs S E (fieldsOf S c) cur 0 sl))
      else Option.none := by
  rw [specSlot]

/-- a singular sub-message (plain, proto3-optional, oneof member), given the statement for its slots -/
theorem canon_msg_slot (S : Schema) (E : Enums) (f : FieldD) (hid sel : Bool) (c : Nat) (sl : List Val)
    (ow : Bool) (unk : Bytes) (cur : List (Option Nat)) (hs : HS5 f hid sel)
    (h : slotOk' S f hid sel (.msg c sl ow unk cur) = true)
    (hkv : toDictKVs S E .camel false (fieldsOf S c) cur 0 sl = specKVs S E (fieldsOf S c) cur 0 sl) :
    toDictSlot S E .camel false f hid sel (.msg c sl ow unk cur) = specSlot S E f hid (.msg c sl ow unk cur) := by
  rw [slotOk_msg] at h
  simp only [Bool.and_eq_true, Bool.not_eq_true', beq_iff_eq, Option.isNone_iff_eq_none] at h
  obtain ⟨⟨⟨⟨⟨hh, hty⟩, hw⟩, hr⟩, _⟩, _⟩ := h
  have hsel := hs hh
  subst hh
  have hm : (f.ty == PType.message) = true := by simp [hty]
  rw [specSlot_msg, toDictSlot]
  simp only [Bool.false_eq_true, if_false, hm, hw, hr, Option.isNone_none, Bool.not_false, Bool.and_self, if_true,
    Bool.or_false, hkv, hsel]
  cases f.group.isSome <;> cases f.optional <;> cases ow <;> simp

/-! ### the induction over nested messages -/

theorem noNegZeroSlot_list (S : Schema) (f : FieldD) (xs : List Val) :
    noNegZeroSlot S f (.list xs) = noNegZeroList S xs := by rw [noNegZeroSlot]
theorem noNegZeroSlot_dict (S : Schema) (f : FieldD) (ks vs : List Val) :
    noNegZeroSlot S f (.dict ks vs) = noNegZeroList S vs := by rw [noNegZeroSlot]
theorem noNegZeroSlot_msg (S : Schema) (f : FieldD) (c : Nat) (sl : List Val) (ow : Bool) (unk : Bytes)
    (cur : List (Option Nat)) :
    noNegZeroSlot S f (.msg c sl ow unk cur) = noNegZeroSlots S (fieldsOf S c) 0 sl := by rw [noNegZeroSlot]

mutual
theorem canon_slots (S : Schema) (E : Enums) (hS : canonOk S E = true) (fs : List FieldD)
    (cur : List (Option Nat)) (hfs : ∀ f ∈ fs, fieldJsonOk5 f = true) :
    ∀ (vs : List Val) (idx : Nat), slotsOk' S fs cur idx vs = true → noNegZeroSlots S fs idx vs = true →
      toDictKVs S E .camel false fs cur idx vs = specKVs S E fs cur idx vs
  | [], _, _, _ => by rw [toDictKVs, specKVs]
  | a :: as, idx, h, hz => by
    rw [slotsOk'] at h
    rw [noNegZeroSlots] at hz
    simp only [Bool.and_eq_true] at h hz
    rw [toDictKVs, specKVs]
    cases hf : fs[idx]? with
    | none => simp [hf] at h
    | some f =>
      rw [hf] at h hz
      simp only at h hz ⊢
      have h5 := fj5_of f (hfs f (List.mem_of_getElem? hf))
      rw [canon_slot S E hS f _ _ h5 (hs_slot f idx cur) (hs5_slot f idx cur) a h.1 hz.1,
        canon_slots S E hS fs cur hfs as (idx + 1) h.2 hz.2, h5.key]
      rfl
termination_by structural vs => vs

theorem canon_slot (S : Schema) (E : Enums) (hS : canonOk S E = true) (f : FieldD) (hid sel : Bool)
    (h5 : FJ5 f) (hs : HS f hid sel) (hs5 : HS5 f hid sel) :
    ∀ (v : Val), slotOk' S f hid sel v = true → noNegZeroSlot S f v = true →
      toDictSlot S E .camel false f hid sel v = specSlot S E f hid v
  | .ph, h, _ => canon_ph S E f hid sel h5.fj h
  | .none, h, _ => canon_none S E f hid sel hs h
  | .int i, h, hz => canon_leaf S E f hid sel (.int i) h5 (canon_enum S E hS f) hs5 rfl (by intro e; cases e) h hz
  | .bool b, h, hz => canon_leaf S E f hid sel (.bool b) h5 (canon_enum S E hS f) hs5 rfl (by intro e; cases e) h hz
  | .f32 b, h, hz => canon_leaf S E f hid sel (.f32 b) h5 (canon_enum S E hS f) hs5 rfl (by intro e; cases e) h hz
  | .f64 b, h, hz => canon_leaf S E f hid sel (.f64 b) h5 (canon_enum S E hS f) hs5 rfl (by intro e; cases e) h hz
  | .str s, h, hz => canon_leaf S E f hid sel (.str s) h5 (canon_enum S E hS f) hs5 rfl (by intro e; cases e) h hz
  | .byt s, h, hz => canon_leaf S E f hid sel (.byt s) h5 (canon_enum S E hS f) hs5 rfl (by intro e; cases e) h hz
  | .ts us, h, hz => canon_leaf S E f hid sel (.ts us) h5 (canon_enum S E hS f) hs5 rfl (by intro e; cases e) h hz
  | .dur us, h, hz => canon_leaf S E f hid sel (.dur us) h5 (canon_enum S E hS f) hs5 rfl (by intro e; cases e) h hz
  | .list xs, h, hz => by
    by_cases hu : (f.ty == PType.message) = true ∧ f.wraps = Option.none ∧ ∃ c, f.kind = .user c
    · obtain ⟨hm, hw, c, hk⟩ := hu
      obtain ⟨_, _, _, _, _, _, hit⟩ := list_common S f hid sel xs h5.fj hs h
      rw [noNegZeroSlot_list] at hz
      exact canon_list_user S E f hid sel xs c h5.fj hs hm hk h
        (canon_msgs S E hS f c xs (itemsOk_user S f c xs hm hw hk hit) hz).1
    · exact canon_list_flat S E f hid sel xs h5.fj hs (canon_enum S E hS f) hu h
  | .dict ks vs, h, hz => by
    by_cases hv : (f.mapV == PType.message) = true
    · obtain ⟨_, _, hty, _, hvs⟩ := dict_common S f hid sel ks vs h5.fj hs h
      obtain ⟨c, hk⟩ := h5.fj.map_vk (by simp [hty]) hv
      rw [noNegZeroSlot_dict] at hz
      exact canon_dict_user S E f hid sel ks vs h5.fj hs hv h
        (canon_msgs S E hS f c vs (mapValsOk_user S f c vs hv hk hvs) hz).2
    · exact canon_dict_flat S E f hid sel ks vs h5 hs (by simpa using hv) h
  | .msg c sl ow unk cur, h, hz => by
    have hbody : bodyOk S c sl unk cur = true := by
      rw [slotOk_msg] at h
      simp only [Bool.and_eq_true] at h
      exact h.2
    obtain ⟨_, _, _, hsl⟩ := bodyOk_spec S c sl unk cur hbody
    rw [noNegZeroSlot_msg] at hz
    exact canon_msg_slot S E f hid sel c sl ow unk cur hs5 h
      (canon_slots S E hS (fieldsOf S c) cur (fun f hf => canon_field S E hS c f hf) sl 0 hsl hz)
termination_by structural v => v

/-- a list of messages of class `c` (the items of a repeated field, the values of a map) -/
theorem canon_msgs (S : Schema) (E : Enums) (hS : canonOk S E = true) (f : FieldD) (c : Nat) :
    ∀ (xs : List Val), (∀ x ∈ xs, ∃ sl ow unk cur, x = Val.msg c sl ow unk cur ∧ bodyOk S c sl unk cur = true) →
      noNegZeroList S xs = true →
      toDictList S E .camel false xs = specList S E xs
      ∧ toDictMapVals S E .camel false xs = specMapVals S E f xs
  | [], _, _ => by
    rw [toDictList, toDictMapVals, specList, specMapVals]
    exact ⟨rfl, rfl⟩
  | .msg c' sl ow unk cur :: xs, h, hz => by
    obtain ⟨sl0, ow0, unk0, cur0, e, hbody0⟩ := h _ (List.mem_cons_self)
    have hbody : bodyOk S c' sl unk cur = true := by
      injection e with e1 e2 e3 e4 e5
      rw [e1, e2, e4, e5]; exact hbody0
    rw [noNegZeroList] at hz
    simp only [Bool.and_eq_true] at hz
    obtain ⟨_, _, _, hsl⟩ := bodyOk_spec S c' sl unk cur hbody
    have a := canon_slots S E hS (fieldsOf S c') cur (fun f hf => canon_field S E hS c' f hf) sl 0 hsl hz.1
    obtain ⟨b1, b2⟩ := canon_msgs S E hS f c xs (fun x hx => h x (List.mem_cons_of_mem _ hx)) hz.2
    rw [toDictList, toDictMapVals, specList, specMapVals, a, b1, b2]
    exact ⟨rfl, rfl⟩
  | .ph :: _, h, _ | .none :: _, h, _ | .int _ :: _, h, _ | .bool _ :: _, h, _ | .f32 _ :: _, h, _
  | .f64 _ :: _, h, _ | .str _ :: _, h, _ | .byt _ :: _, h, _ | .ts _ :: _, h, _ | .dur _ :: _, h, _
  | .list _ :: _, h, _ | .dict _ _ :: _, h, _ => by
    obtain ⟨_, _, _, _, e, _⟩ := h _ (List.mem_cons_self)
    cases e
termination_by structural xs => xs
end

/-- **message level**: inside the guards `to_dict(casing=camel)` of a message IS its canonical
    proto3 JSON object — same members, same order, same values at every depth -/
theorem toDict_eq_specJson (S : Schema) (E : Enums) (hS : canonOk S E = true) (m : Val)
    (hwt : wellTyped' S m = true) (hz : noNegZero S m = true) :
    toDict S E .camel false m = specJson S E m := by
  cases m with
  | msg c sl ow unk cur =>
    rw [wellTyped_msg] at hwt
    obtain ⟨_, _, _, hsl⟩ := bodyOk_spec S c sl unk cur hwt
    rw [noNegZero] at hz
    rw [toDict, specJson,
      canon_slots S E hS (fieldsOf S c) cur (fun f hf => canon_field S E hS c f hf) sl 0 hsl hz]
  | _ => simp [wellTyped'] at hwt

end Bp

#print axioms Bp.toDict_eq_specJson
