import BpModel.All
import BpProofs.Ops
import BpProofs.Rt
import BpProofs.JsonNonEmpty
/-
  C04, the relation between a message and what `from_dict(to_dict(m))` rebuilds, and the
  proof that related messages encode to the same bytes.  Nothing in this file mentions JSON
  values: `DEqv` is a relation on message values.

    m ≈ m'  (`DEqv S m m'`)  iff  same class, same `_unknown_fields`, same oneof selection,
    `_serialized_on_wire` is True in `m'` (at every nesting level), and slot by slot either
      * `same`  : the values are related (identical leaves; lists and dict values item-wise;
                  sub-messages recursively) — for a singular sub-message only when the
                  original is *kept* (`keptSlot`): it is `_serialized_on_wire`, or
                  proto3-optional, or the selected oneof member, or (after the D46 repair) it
                  differs from a fresh `Sub()` although nothing marked it, or
      * `unset` : `m` holds a value that `==` the field's default, is not the selected member
                  of a oneof, is not a proto3-optional field and (for a sub-message) is not
                  `_serialized_on_wire`; `m'` holds PLACEHOLDER, which every read
                  materialises to that default.

  Equal bytes (`deqv_dumpVal`) now needs the value to be TYPED (`wellTyped'`, BpProofs/JsonGuard.lean)
  and map fields to be singular (part of `fieldJsonOk`): an unmarked sub-message is encoded
  with `serialize_empty = False`, the rebuilt, marked one with `serialize_empty = True`, and the
  two agree because a typed sub-message that differs from `Sub()` has a non-empty body
  (`dumpSlots_nonempty`, BpProofs/JsonNonEmpty.lean).
-/
namespace Bp
open Gen

/-- neither a list, a dict nor a message -/
def dAtom : Val → Bool
  | .list _ | .dict _ _ | .msg _ _ _ _ _ => false
  | _ => true

/-- a singular sub-message is present: `_serialized_on_wire`, proto3-optional, or the selected
    member of its oneof; every other kind of value is present when it is stored -/
def presentSlot (f : FieldD) (sel : Bool) : Val → Bool
  | .msg _ _ ow _ _ => ow || f.optional || sel
  | _ => true

/-- a singular sub-message is kept by `to_dict` and by `dump`: it is present, or it differs from
    the field's default (a fresh `Sub()`) although nothing marked it (`m.a.b.x = 1` leaves `m.a`
    in that state); every other kind of value is kept when it is stored -/
def keptSlot (S : Schema) (f : FieldD) (sel : Bool) : Val → Bool
  | .msg c sl ow unk cur => ow || f.optional || sel || !eqDefault S f.defKind (.msg c sl ow unk cur)
  | _ => true

theorem keptSlot_of_present (S : Schema) (f : FieldD) (sel : Bool) (v : Val) (h : presentSlot f sel v = true) :
    keptSlot S f sel v = true := by
  cases v <;> first | rfl | (simp only [presentSlot] at h; simp only [keptSlot, h, Bool.true_or])

mutual
inductive DEqv (S : Schema) : Val → Val → Prop
  | atom (v : Val) : dAtom v = true → DEqv S v v
  | msg (c : Nat) (sl sl' : List Val) (ow : Bool) (unk : Bytes) (cur : List (Option Nat)) :
      SlotsDEqv S (fieldsOf S c) cur 0 sl sl' → DEqv S (.msg c sl ow unk cur) (.msg c sl' true unk cur)
  | list (xs ys : List Val) : ListDEqv S xs ys → DEqv S (.list xs) (.list ys)
  | dict (ks vs vs' : List Val) : ListDEqv S vs vs' → DEqv S (.dict ks vs) (.dict ks vs')
inductive ListDEqv (S : Schema) : List Val → List Val → Prop
  | nil : ListDEqv S [] []
  | consAtom (x : Val) (xs ys : List Val) : dAtom x = true → ListDEqv S xs ys → ListDEqv S (x :: xs) (x :: ys)
  | consMsg (c : Nat) (sl sl' : List Val) (ow : Bool) (unk : Bytes) (cur : List (Option Nat)) (xs ys : List Val) :
      SlotsDEqv S (fieldsOf S c) cur 0 sl sl' → ListDEqv S xs ys →
      ListDEqv S (.msg c sl ow unk cur :: xs) (.msg c sl' true unk cur :: ys)
inductive SlotsDEqv (S : Schema) : List FieldD → List (Option Nat) → Nat → List Val → List Val → Prop
  | nil (fs : List FieldD) (cur : List (Option Nat)) (k : Nat) : SlotsDEqv S fs cur k [] []
  | same (fs : List FieldD) (cur : List (Option Nat)) (k : Nat) (f : FieldD) (v v' : Val) (vs vs' : List Val) :
      fs[k]? = some f → DEqv S v v' → keptSlot S f (selectedInGroup f k cur) v = true →
      SlotsDEqv S fs cur (k + 1) vs vs' → SlotsDEqv S fs cur k (v :: vs) (v' :: vs')
  | unset (fs : List FieldD) (cur : List (Option Nat)) (k : Nat) (f : FieldD) (v : Val) (vs vs' : List Val) :
      fs[k]? = some f → f.optional = false → selectedInGroup f k cur = false →
      eqDefault S f.defKind v = true → onWireOf v = false →
      SlotsDEqv S fs cur (k + 1) vs vs' → SlotsDEqv S fs cur k (v :: vs) (Val.ph :: vs')
end

/-! ### related values encode to the same bytes -/

theorem dumpSlot_hid (S : Schema) (f : FieldD) (sel : Bool) (v : Val) : dumpSlot S f true sel v = .ok [] := by
  cases v <;> simp [dumpSlot]

theorem group_none_of_vis_unsel (f : FieldD) (k : Nat) (cur : List (Option Nat))
    (h1 : hidden f k cur = false) (h2 : selectedInGroup f k cur = false) : f.group = Option.none := by
  unfold hidden at h1
  unfold selectedInGroup at h2
  cases hg : f.group with
  | none => rfl
  | some g =>
    simp only [hg, bne_eq_false_iff_eq] at h1 h2
    rw [h1] at h2
    simp at h2

/-- a slot holding a default-valued, absent value emits nothing, and neither does PLACEHOLDER -/
theorem dumpSlot_unset (S : Schema) (f : FieldD) (v : Val) (hg : f.group = Option.none) (ho : f.optional = false)
    (hd : eqDefault S f.defKind v = true) (hw : onWireOf v = false) :
    dumpSlot S f false false v = .ok [] ∧ dumpSlot S f false false Val.ph = .ok [] := by
  constructor
  · cases v with
    | ph => simp [eqDefault] at hd
    | none => simp [dumpSlot]
    | msg c sl ow unk cur =>
      simp only [onWireOf] at hw
      subst hw
      simp [dumpSlot, hd, hg, ho]
    | _ => simp [dumpSlot, hd, hg, ho]
  · rw [dumpSlot]
    simp only [Bool.false_eq_true, if_false, dumpDefault, hg, ho, Option.isSome_none, Bool.or_self, Bool.not_false, if_true]
    split <;> rfl

theorem prepScalar_msg (S : Schema) (t : PType) (c : Nat) (sl : List Val) (ow : Bool) (unk : Bytes) (cur : List (Option Nat))
    (c' : Nat) (sl' : List Val) (ow' : Bool) (unk' : Bytes) (cur' : List (Option Nat)) :
    prepScalar S t Option.none (.msg c sl ow unk cur) = prepScalar S t Option.none (.msg c' sl' ow' unk' cur') := by
  unfold prepScalar prepPlain
  split
  · rfl
  · split
    · rfl
    · split
      · rfl
      · split
        · unfold packFixed
          cases fmtOf t with
          | none => rfl
          | some p =>
            obtain ⟨w, s, flt⟩ := p
            cases flt <;> rfl
        · split <;> rfl

theorem selected_group (f : FieldD) (k : Nat) (cur : List (Option Nat)) (h : selectedInGroup f k cur = true) :
    f.group.isSome = true := by
  unfold selectedInGroup at h
  cases hg : f.group with
  | none => rw [hg] at h; simp at h
  | some g => rfl

theorem listDEqv_isEmpty (S : Schema) (xs ys : List Val) (h : ListDEqv S xs ys) : ys.isEmpty = xs.isEmpty := by
  cases h <;> rfl

theorem listDEqv_prepPacked (S : Schema) (t : PType) : ∀ (xs ys : List Val), ListDEqv S xs ys →
    prepPacked S t ys = prepPacked S t xs
  | [], ys, h => by cases h; rfl
  | x :: xs, ys, h => by
    cases h with
    | consAtom _ _ ys' ha hl => rw [prepPacked, prepPacked, listDEqv_prepPacked S t xs ys' hl]
    | consMsg c sl sl' ow unk cur _ ys' hs hl =>
      rw [prepPacked, prepPacked, listDEqv_prepPacked S t xs ys' hl,
        prepScalar_msg S t c sl' true unk cur c sl ow unk cur]

theorem frame_se_irrel (num : Nat) (t : PType) (pre : Bytes) (se se' w : Bool) (h : pre ≠ []) :
    frame num t pre se w = frame num t pre se' w := by
  cases pre with
  | nil => exact absurd rfl h
  | cons x xs => simp [frame]

/-- a kept singular sub-message and its rebuilt, marked counterpart encode to the same record,
    given that their bodies do -/
theorem dumpSlot_kept_msg (S : Schema) (hS : ∀ c, ∀ f ∈ fieldsOf S c, fieldJsonOk f = true) (f : FieldD) (sel : Bool)
    (hsg : sel = true → f.group.isSome = true) (c : Nat) (sl sl' : List Val) (ow : Bool) (unk : Bytes)
    (cur : List (Option Nat))
    (hwt : slotOk' S f false sel (.msg c sl ow unk cur) = true)
    (hp : keptSlot S f sel (.msg c sl ow unk cur) = true)
    (hbody : dumpSlots S (fieldsOf S c) cur 0 sl' = dumpSlots S (fieldsOf S c) cur 0 sl) :
    dumpSlot S f false sel (.msg c sl' true unk cur) = dumpSlot S f false sel (.msg c sl ow unk cur) := by
  rw [dumpSlot, dumpSlot]
  simp only [Bool.false_eq_true, if_false]
  rw [hbody]
  have e1 : (f.group.isSome || f.optional || true || sel) = true := by simp
  by_cases hpres : (ow || f.optional || sel) = true
  · have e2 : (f.group.isSome || f.optional || ow || sel) = true := by
      simp only [Bool.or_eq_true] at hpres ⊢
      rcases hpres with (hp | hp) | hp
      · left; right; exact hp
      · left; left; right; exact hp
      · right; exact hp
    have e3 : (ow || (f.group.isSome || f.optional)) = true := by
      simp only [Bool.or_eq_true] at hpres ⊢
      rcases hpres with (hp | hp) | hp
      · left; exact hp
      · right; right; exact hp
      · right; left; exact hsg hp
    simp only [e1, e2, e3, Bool.not_true, Bool.and_false, Bool.false_eq_true, if_false, Bool.true_or]
  · -- not marked, not optional, not selected: kept because it differs from its default
    have hpres' : (ow || f.optional || sel) = false := by simpa using hpres
    simp only [Bool.or_eq_false_iff] at hpres'
    obtain ⟨⟨how, hopt⟩, hsel⟩ := hpres'
    subst how
    have hne : eqDefault S f.defKind (.msg c sl false unk cur) = false := by
      simp only [keptSlot, hopt, hsel, Bool.or_self, Bool.false_or, Bool.not_eq_true'] at hp
      exact hp
    rw [slotOk'] at hwt
    simp only [Bool.and_eq_true, Bool.not_eq_true', beq_iff_eq, Option.isNone_iff_eq_none] at hwt
    obtain ⟨⟨⟨⟨⟨⟨⟨⟨_, hty⟩, hw⟩, hr⟩, hk⟩, _⟩, _⟩, _⟩, hsl⟩ := hwt
    simp only [e1, hne, Bool.not_true, Bool.and_false, Bool.false_and, Bool.false_eq_true, if_false, Bool.true_or,
      Bool.false_or]
    cases hb : dumpSlots S (fieldsOf S c) cur 0 sl with
    | error e => rfl
    | ok body =>
      simp only [bind_ok, hty, hw, beq_self_eq_true, Option.isNone_none, Bool.and_self, if_true]
      have hdk : f.defKind = .msg c := by
        unfold FieldD.defKind
        simp [hr, hty, hopt, hw, hk, msgKindDef]
      rw [hdk, eqDefault] at hne
      simp only [beq_self_eq_true, Bool.true_and] at hne
      have hbne : body ≠ [] :=
        dumpSlots_nonempty S hS (fieldsOf S c) cur (hS c) sl 0 hsl (by simpa using hne) body hb
      exact frame_se_irrel _ _ _ _ _ _ (app_ne_nil_left _ _ hbne)

mutual
theorem deqv_dumpSlots (S : Schema) (hS : ∀ c, ∀ f ∈ fieldsOf S c, fieldJsonOk f = true) (fs : List FieldD)
    (cur : List (Option Nat)) :
    ∀ (vs vs' : List Val) (k : Nat), slotsOk' S fs cur k vs = true → SlotsDEqv S fs cur k vs vs' →
      dumpSlots S fs cur k vs' = dumpSlots S fs cur k vs
  | [], vs', k, _, h => by cases h; rfl
  | v :: vs, vs', k, hwt, h => by
    rw [slotsOk'] at hwt
    simp only [Bool.and_eq_true] at hwt
    cases h with
    | same _ _ _ f _ v' _ ws hf hv hp hrest =>
      have h1 := hwt.1
      rw [hf] at h1
      simp only at h1
      rw [dumpSlots, dumpSlots]
      simp only [hf]
      rw [deqv_dumpSlot S hS f (hidden f k cur) (selectedInGroup f k cur) (selected_group f k cur) v v' h1 hv hp,
        deqv_dumpSlots S hS fs cur vs ws (k + 1) hwt.2 hrest]
    | unset _ _ _ f _ _ ws hf ho hs hd hw hrest =>
      rw [dumpSlots, dumpSlots]
      simp only [hf]
      rw [deqv_dumpSlots S hS fs cur vs ws (k + 1) hwt.2 hrest]
      cases hh : hidden f k cur with
      | true => rw [dumpSlot_hid, dumpSlot_hid]
      | false =>
        have hg := group_none_of_vis_unsel f k cur hh hs
        obtain ⟨h1, h2⟩ := dumpSlot_unset S f v hg ho hd hw
        rw [hs, h1, h2]
termination_by structural vs => vs

theorem deqv_dumpSlot (S : Schema) (hS : ∀ c, ∀ f ∈ fieldsOf S c, fieldJsonOk f = true) (f : FieldD) (hid sel : Bool)
    (hsg : sel = true → f.group.isSome = true) :
    ∀ (v v' : Val), slotOk' S f hid sel v = true → DEqv S v v' → keptSlot S f sel v = true →
      dumpSlot S f hid sel v' = dumpSlot S f hid sel v
  | .msg c sl ow unk cur, v', hwt, h, hp => by
    cases h with
    | atom _ ha => rfl
    | msg _ _ sl' _ _ _ hs =>
      cases hid with
      | true => rw [dumpSlot_hid, dumpSlot_hid]
      | false =>
        have hsl : slotsOk' S (fieldsOf S c) cur 0 sl = true := by
          have := hwt
          rw [slotOk'] at this
          simp only [Bool.and_eq_true] at this
          exact this.2
        exact dumpSlot_kept_msg S hS f sel hsg c sl sl' ow unk cur hwt hp
          (deqv_dumpSlots S hS (fieldsOf S c) cur sl sl' 0 hsl hs)
  | .list xs, v', hwt, h, _ => by
    cases h with
    | atom _ ha => rfl
    | list _ ys hl =>
      cases hid with
      | true => rw [dumpSlot_hid, dumpSlot_hid]
      | false =>
        have hit : itemsOk' S f xs = true := by
          rw [slotOk'] at hwt
          simp only [Bool.and_eq_true] at hwt
          exact hwt.2
        rw [dumpSlot, dumpSlot]
        simp only [Bool.false_eq_true, if_false]
        rw [eqDefault, eqDefault, listDEqv_isEmpty S xs ys hl, listDEqv_prepPacked S f.ty xs ys hl,
          deqv_dumpItems S hS f xs ys hit hl]
  | .dict ks vs, v', hwt, h, _ => by
    cases h with
    | atom _ ha => rfl
    | dict _ _ vs' hl =>
      cases hid with
      | true => rw [dumpSlot_hid, dumpSlot_hid]
      | false =>
        have hmv : mapValsOk' S f vs = true := by
          rw [slotOk'] at hwt
          simp only [Bool.and_eq_true] at hwt
          exact hwt.2
        rw [dumpSlot, dumpSlot]
        simp only [Bool.false_eq_true, if_false]
        rw [eqDefault, eqDefault, deqv_dumpEntries S hS f vs vs' ks hmv hl]
  | .ph, v', _, h, _ | .none, v', _, h, _ | .int _, v', _, h, _ | .bool _, v', _, h, _ | .f32 _, v', _, h, _
  | .f64 _, v', _, h, _ | .str _, v', _, h, _ | .byt _, v', _, h, _ | .ts _, v', _, h, _ | .dur _, v', _, h, _ => by
    cases h; rfl
termination_by structural v => v

theorem deqv_dumpItems (S : Schema) (hS : ∀ c, ∀ f ∈ fieldsOf S c, fieldJsonOk f = true) (f : FieldD) :
    ∀ (xs ys : List Val), itemsOk' S f xs = true → ListDEqv S xs ys → dumpItems S f ys = dumpItems S f xs
  | [], ys, _, h => by cases h; rfl
  | .msg c sl ow unk cur :: xs, ys, hwt, h => by
    obtain ⟨hrest, hmsg⟩ := itemsOk'_cons S f _ xs hwt
    cases h with
    | consAtom _ _ ys' ha hl => simp [dAtom] at ha
    | consMsg _ _ sl' _ _ _ _ ys' hs hl =>
      rw [dumpItems, dumpItems, deqv_dumpItems S hS f xs ys' hrest hl,
        deqv_dumpSlots S hS (fieldsOf S c) cur sl sl' 0 (hmsg c sl ow unk cur rfl) hs]
  | .list _ :: xs, ys, _, h | .dict _ _ :: xs, ys, _, h => by
    cases h with
    | consAtom _ _ ys' ha hl => simp [dAtom] at ha
  | .ph :: xs, ys, hwt, h | .none :: xs, ys, hwt, h | .int _ :: xs, ys, hwt, h | .bool _ :: xs, ys, hwt, h
  | .f32 _ :: xs, ys, hwt, h | .f64 _ :: xs, ys, hwt, h | .str _ :: xs, ys, hwt, h | .byt _ :: xs, ys, hwt, h
  | .ts _ :: xs, ys, hwt, h | .dur _ :: xs, ys, hwt, h => by
    cases h with
    | consAtom _ _ ys' ha hl =>
      rw [dumpItems, dumpItems, deqv_dumpItems S hS f xs ys' (itemsOk'_cons S f _ xs hwt).1 hl]
      all_goals (intros; contradiction)
termination_by structural xs => xs

theorem deqv_dumpEntries (S : Schema) (hS : ∀ c, ∀ f ∈ fieldsOf S c, fieldJsonOk f = true) (f : FieldD) :
    ∀ (vs vs' ks : List Val), mapValsOk' S f vs = true → ListDEqv S vs vs' →
      dumpEntries S f ks vs' = dumpEntries S f ks vs
  | [], vs', ks, _, h => by cases h; rfl
  | x :: xs, vs', [], _, h => by
    cases h <;> simp [dumpEntries]
  | .msg c sl ow unk cur :: xs, vs', k :: ks, hwt, h => by
    obtain ⟨hrest, hmsg⟩ := mapValsOk'_cons S f _ xs hwt
    cases h with
    | consAtom _ _ ys' ha hl => simp [dAtom] at ha
    | consMsg _ _ sl' _ _ _ _ ys' hs hl =>
      rw [dumpEntries, dumpEntries, deqv_dumpEntries S hS f xs ys' ks hrest hl,
        deqv_dumpSlots S hS (fieldsOf S c) cur sl sl' 0 (hmsg c sl ow unk cur rfl) hs]
  | .list _ :: xs, vs', k :: ks, _, h | .dict _ _ :: xs, vs', k :: ks, _, h => by
    cases h with
    | consAtom _ _ ys' ha hl => simp [dAtom] at ha
  | .ph :: xs, vs', k :: ks, hwt, h | .none :: xs, vs', k :: ks, hwt, h | .int _ :: xs, vs', k :: ks, hwt, h
  | .bool _ :: xs, vs', k :: ks, hwt, h | .f32 _ :: xs, vs', k :: ks, hwt, h | .f64 _ :: xs, vs', k :: ks, hwt, h
  | .str _ :: xs, vs', k :: ks, hwt, h | .byt _ :: xs, vs', k :: ks, hwt, h | .ts _ :: xs, vs', k :: ks, hwt, h
  | .dur _ :: xs, vs', k :: ks, hwt, h => by
    cases h with
    | consAtom _ _ ys' ha hl =>
      rw [dumpEntries, dumpEntries, deqv_dumpEntries S hS f xs ys' ks (mapValsOk'_cons S f _ xs hwt).1 hl]
      all_goals (intros; contradiction)
termination_by structural vs => vs
end

/-- **related messages encode to the same bytes** (for a typed `m`, map fields singular) -/
theorem deqv_dumpVal (S : Schema) (hS : ∀ c, ∀ f ∈ fieldsOf S c, fieldJsonOk f = true) (m m' : Val)
    (hwt : wellTyped' S m = true) (h : DEqv S m m') : dumpVal S m' = dumpVal S m := by
  cases h with
  | atom _ _ => rfl
  | msg c sl sl' ow unk cur hs =>
    rw [wellTyped'] at hwt
    simp only [Bool.and_eq_true] at hwt
    rw [dumpVal, dumpVal, deqv_dumpSlots S hS (fieldsOf S c) cur sl sl' 0 hwt.2 hs]
  | list xs ys _ => rfl
  | dict ks vs vs' _ => rfl

end Bp

#print axioms Bp.deqv_dumpVal
