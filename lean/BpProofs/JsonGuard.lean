import BpModel.All
import BpModel.Json
/-
  C04, the VALUE guard of the round-trip theorems after the D46 repair.

  `wellTyped'` is `wellTyped` (BpModel/Json.lean, the guard the driver evaluates: `WF WT`) WITHOUT
  the clause "an absent plain sub-message equals a fresh one"

      ow || f.optional || sel || eqDefault S f.defKind (.msg c sl ow unk cur)

  of `slotOk`: a plain (not optional, not oneof) sub-message may be unmarked
  (`_serialized_on_wire` False) and yet differ from `Sub()` — the state `m.a.b.x = 1` /
  `m.a.items.append(1)` leaves `m.a` in.  Everything else is unchanged, so
  `wellTyped S m = true → wellTyped' S m = true` (`wellTyped_weaken`): every input that was in
  the domain of the theorems still is.
-/
namespace Bp
open Gen

mutual
/-- message values in the domain of the round-trip theorems: no unknown fields, every slot typed
    as its field says, unselected oneof members unset, canonical NaN -/
def wellTyped' (S : Schema) : Val → Bool
  | .msg c sl _ unk cur =>
    unk.isEmpty && sl.length == (fieldsOf S c).length && cur.length == groupsOf S c &&
      slotsOk' S (fieldsOf S c) cur 0 sl
  | _ => false
def slotsOk' (S : Schema) (fs : List FieldD) (cur : List (Option Nat)) : Nat → List Val → Bool
  | _, [] => true
  | i, v :: vs =>
    (match fs[i]? with
     | some f => slotOk' S f (hidden f i cur) (selectedInGroup f i cur) v
     | Option.none => false) && slotsOk' S fs cur (i + 1) vs
def slotOk' (S : Schema) (f : FieldD) (hid sel : Bool) : Val → Bool
  | .ph => !sel && !f.optional
  | .none => f.group.isNone && (f.optional || f.wraps.isSome) && !f.repeated && f.ty != .map
  | .list xs => !hid && f.repeated && f.ty != .map && itemsOk' S f xs
  | .dict ks vs => !hid && f.ty == .map && ks.length == vs.length && ks.all (valOfType f.mapK) && mapValsOk' S f vs
  | .msg c sl _ unk cur =>
    !hid && f.ty == .message && f.wraps.isNone && !f.repeated && f.kind == .user c &&
      unk.isEmpty && sl.length == (fieldsOf S c).length && cur.length == groupsOf S c &&
      slotsOk' S (fieldsOf S c) cur 0 sl
  | v => !hid && !f.repeated && leafOk f v
def itemsOk' (S : Schema) (f : FieldD) : List Val → Bool
  | [] => true
  | x :: xs =>
    (match x with
     | .msg c sl _ unk cur =>
       f.ty == .message && f.wraps.isNone && f.kind == .user c &&
         unk.isEmpty && sl.length == (fieldsOf S c).length && cur.length == groupsOf S c &&
         slotsOk' S (fieldsOf S c) cur 0 sl
     | x => leafOk f x) && itemsOk' S f xs
def mapValsOk' (S : Schema) (f : FieldD) : List Val → Bool
  | [] => true
  | x :: xs =>
    (match x with
     | .msg c sl _ unk cur =>
       f.mapV == .message && f.mapVKind == .user c &&
         unk.isEmpty && sl.length == (fieldsOf S c).length && cur.length == groupsOf S c &&
         slotsOk' S (fieldsOf S c) cur 0 sl
     | x => f.mapV != .message && valOfType f.mapV x) && mapValsOk' S f xs
end

/-! ### the old guard implies the new one -/

mutual
theorem slotsOk_weaken (S : Schema) (fs : List FieldD) (cur : List (Option Nat)) :
    ∀ (vs : List Val) (k : Nat), slotsOk S fs cur k vs = true → slotsOk' S fs cur k vs = true
  | [], _, _ => by rw [slotsOk']
  | v :: vs, k, h => by
    rw [slotsOk] at h
    rw [slotsOk']
    simp only [Bool.and_eq_true] at h ⊢
    refine ⟨?_, slotsOk_weaken S fs cur vs (k + 1) h.2⟩
    cases hf : fs[k]? with
    | none => have := h.1; rw [hf] at this; cases this
    | some f =>
      have := h.1
      rw [hf] at this
      exact slotOk_weaken S f _ _ v this
termination_by structural vs => vs

theorem slotOk_weaken (S : Schema) (f : FieldD) (hid sel : Bool) :
    ∀ (v : Val), slotOk S f hid sel v = true → slotOk' S f hid sel v = true
  | .msg c sl ow unk cur, h => by
    rw [slotOk] at h
    rw [slotOk']
    simp only [Bool.and_eq_true] at h ⊢
    obtain ⟨⟨⟨⟨⟨h1, _⟩, h3⟩, h4⟩, h5⟩, h6⟩ := h
    exact ⟨⟨⟨⟨h1, h3⟩, h4⟩, h5⟩, slotsOk_weaken S (fieldsOf S c) cur sl 0 h6⟩
  | .list xs, h => by
    rw [slotOk] at h
    rw [slotOk']
    · simp only [Bool.and_eq_true] at h ⊢
      exact ⟨h.1, itemsOk_weaken S f xs h.2⟩
    all_goals (intros; contradiction)
  | .dict ks vs, h => by
    rw [slotOk] at h
    rw [slotOk']
    simp only [Bool.and_eq_true] at h ⊢
    exact ⟨h.1, mapValsOk_weaken S f vs h.2⟩
  | .ph, h => by rw [slotOk] at h; rw [slotOk']; exact h
  | .none, h => by rw [slotOk] at h; rw [slotOk']; exact h
  | .int _, h | .bool _, h | .f32 _, h | .f64 _, h | .str _, h | .byt _, h | .ts _, h | .dur _, h => by
    rw [slotOk] at h
    rw [slotOk']
    · exact h
    all_goals (intros; contradiction)
termination_by structural v => v

theorem itemsOk_weaken (S : Schema) (f : FieldD) : ∀ (xs : List Val), itemsOk S f xs = true → itemsOk' S f xs = true
  | [], _ => by rw [itemsOk']
  | .msg c sl ow unk cur :: xs, h => by
    rw [itemsOk] at h
    rw [itemsOk']
    simp only [Bool.and_eq_true] at h ⊢
    exact ⟨⟨h.1.1, slotsOk_weaken S (fieldsOf S c) cur sl 0 h.1.2⟩, itemsOk_weaken S f xs h.2⟩
  | .ph :: xs, h | .none :: xs, h | .int _ :: xs, h | .bool _ :: xs, h | .f32 _ :: xs, h | .f64 _ :: xs, h
  | .str _ :: xs, h | .byt _ :: xs, h | .ts _ :: xs, h | .dur _ :: xs, h | .list _ :: xs, h | .dict _ _ :: xs, h => by
    rw [itemsOk] at h
    rw [itemsOk']
    · simp only [Bool.and_eq_true] at h ⊢
      exact ⟨h.1, itemsOk_weaken S f xs h.2⟩
    all_goals (intros; contradiction)
termination_by structural xs => xs

theorem mapValsOk_weaken (S : Schema) (f : FieldD) : ∀ (xs : List Val), mapValsOk S f xs = true → mapValsOk' S f xs = true
  | [], _ => by rw [mapValsOk']
  | .msg c sl ow unk cur :: xs, h => by
    rw [mapValsOk] at h
    rw [mapValsOk']
    simp only [Bool.and_eq_true] at h ⊢
    exact ⟨⟨h.1.1, slotsOk_weaken S (fieldsOf S c) cur sl 0 h.1.2⟩, mapValsOk_weaken S f xs h.2⟩
  | .ph :: xs, h | .none :: xs, h | .int _ :: xs, h | .bool _ :: xs, h | .f32 _ :: xs, h | .f64 _ :: xs, h
  | .str _ :: xs, h | .byt _ :: xs, h | .ts _ :: xs, h | .dur _ :: xs, h | .list _ :: xs, h | .dict _ _ :: xs, h => by
    rw [mapValsOk] at h
    rw [mapValsOk']
    · simp only [Bool.and_eq_true] at h ⊢
      exact ⟨h.1, mapValsOk_weaken S f xs h.2⟩
    all_goals (intros; contradiction)
termination_by structural xs => xs
end

/-! ### reading the guard -/

theorem itemsOk'_cons (S : Schema) (f : FieldD) (x : Val) (xs : List Val) (h : itemsOk' S f (x :: xs) = true) :
    itemsOk' S f xs = true ∧
      ∀ c sl ow unk cur, x = Val.msg c sl ow unk cur → slotsOk' S (fieldsOf S c) cur 0 sl = true := by
  unfold itemsOk' at h
  simp only [Bool.and_eq_true] at h
  refine ⟨h.2, ?_⟩
  intro c sl ow unk cur e
  subst e
  have := h.1
  simp only [Bool.and_eq_true] at this
  exact this.2

theorem mapValsOk'_cons (S : Schema) (f : FieldD) (x : Val) (xs : List Val) (h : mapValsOk' S f (x :: xs) = true) :
    mapValsOk' S f xs = true ∧
      ∀ c sl ow unk cur, x = Val.msg c sl ow unk cur → slotsOk' S (fieldsOf S c) cur 0 sl = true := by
  unfold mapValsOk' at h
  simp only [Bool.and_eq_true] at h
  refine ⟨h.2, ?_⟩
  intro c sl ow unk cur e
  subst e
  have := h.1
  simp only [Bool.and_eq_true] at this
  exact this.2

/-- **the new value guard is weaker than the one the driver evaluates** -/
theorem wellTyped_weaken (S : Schema) (m : Val) (h : wellTyped S m = true) : wellTyped' S m = true := by
  cases m with
  | msg c sl ow unk cur =>
    rw [wellTyped] at h
    rw [wellTyped']
    simp only [Bool.and_eq_true] at h ⊢
    exact ⟨h.1, slotsOk_weaken S (fieldsOf S c) cur sl 0 h.2⟩
  | _ => simp [wellTyped] at h

end Bp

#print axioms Bp.wellTyped_weaken
