import BpProofs.JsonGuard
import BpProofs.Varint
/-
  C04: a typed value that differs from its field's default encodes to at least one byte.

  This is what makes an UNMARKED sub-message with non-default content (`m.a.b.x = 1`: `m.a` is not
  `_serialized_on_wire`) encode to the same bytes before and after `from_dict(to_dict(m))`: `dump`
  emits it with `serialize_empty = _serialized_on_wire = False`, the rebuilt one with
  `serialize_empty = True`, and the two agree exactly when the body is not empty
  (`dumpSlots_nonempty`).  The induction goes through unmarked sub-sub-messages.
-/
namespace Bp
open Gen

theorem bind_eq_ok {α β : Type} (x : R α) (g : α → R β) (b : β) (h : x.bind g = .ok b) :
    ∃ a, x = .ok a ∧ g a = .ok b := by
  cases x with
  | error e => cases h
  | ok a => exact ⟨a, rfl, h⟩

theorem dumpVarint_ne_nil (v : Int) (b : Bytes) (h : dumpVarint v = .ok b) : b ≠ [] := by
  unfold dumpVarint at h
  split at h
  · cases h
  · split at h <;> (injection h with h; rw [← h]; exact encNat_ne_nil _)

theorem app_ne_nil_left (a b : Bytes) (h : a ≠ []) : a ++ b ≠ [] := by
  intro e; exact h (List.append_eq_nil_iff.1 e).1

theorem app_ne_nil_right (a b : Bytes) (h : b ≠ []) : a ++ b ≠ [] := by
  intro e; exact h (List.append_eq_nil_iff.1 e).2

/-- a framed record is empty only for a length-delimited type with an empty payload and neither
    `serialize_empty` nor `wraps` -/
theorem frame_ne_nil (num : Nat) (t : PType) (pre : Bytes) (se w : Bool) (a : Bytes)
    (h : frame num t pre se w = .ok a)
    (hne : wireLenDelimTypes.contains t = true → (pre ≠ [] ∨ se = true ∨ w = true)) : a ≠ [] := by
  unfold frame at h
  split at h
  · obtain ⟨k, hk, e⟩ := bind_eq_ok _ _ _ h
    injection e with e; rw [← e]
    exact app_ne_nil_left _ _ (dumpVarint_ne_nil _ _ hk)
  · split at h
    · obtain ⟨k, hk, e⟩ := bind_eq_ok _ _ _ h
      injection e with e; rw [← e]
      exact app_ne_nil_left _ _ (dumpVarint_ne_nil _ _ hk)
    · split at h
      · obtain ⟨k, hk, e⟩ := bind_eq_ok _ _ _ h
        injection e with e; rw [← e]
        exact app_ne_nil_left _ _ (dumpVarint_ne_nil _ _ hk)
      · split at h
        · rename_i hl
          split at h
          · obtain ⟨k, hk, e⟩ := bind_eq_ok _ _ _ h
            obtain ⟨l, _, e⟩ := bind_eq_ok _ _ _ e
            injection e with e; rw [← e]
            exact app_ne_nil_left _ _ (app_ne_nil_left _ _ (dumpVarint_ne_nil _ _ hk))
          · rename_i hc
            exfalso
            apply hc
            rcases hne hl with h1 | h1 | h1
            · cases pre with
              | nil => exact absurd rfl h1
              | cons x xs => simp
            · simp [h1]
            · simp [h1]
        · cases h

theorem secNanosBytes_ne_nil (s n : Int) (a : Bytes) (h : secNanosBytes s n = .ok a) (hne : s ≠ 0 ∨ n ≠ 0) : a ≠ [] := by
  unfold secNanosBytes at h
  obtain ⟨x, hx, h⟩ := bind_eq_ok _ _ _ h
  obtain ⟨y, hy, h⟩ := bind_eq_ok _ _ _ h
  injection h with h; rw [← h]
  by_cases hs : s = 0
  · have hn : n ≠ 0 := by
      rcases hne with h1 | h1
      · exact absurd hs h1
      · exact h1
    apply app_ne_nil_right
    have : (n == 0) = false := by simpa using hn
    rw [this] at hy
    simp only [Bool.false_eq_true, if_false] at hy
    obtain ⟨b, _, hb⟩ := bind_eq_ok _ _ _ hy
    exact frame_ne_nil _ _ _ _ _ _ hb (by intro hc; simp [wireLenDelimTypes] at hc)
  · apply app_ne_nil_left
    have : (s == 0) = false := by simpa using hs
    rw [this] at hx
    simp only [Bool.false_eq_true, if_false] at hx
    obtain ⟨b, _, hb⟩ := bind_eq_ok _ _ _ hx
    exact frame_ne_nil _ _ _ _ _ _ hb (by intro hc; simp [wireLenDelimTypes] at hc)

theorem tsBytes_ne_nil (us : Int) (a : Bytes) (h : tsBytes us = .ok a) (hne : us ≠ 0) : a ≠ [] := by
  unfold tsBytes at h
  apply secNanosBytes_ne_nil _ _ _ h
  unfold tsSplit
  simp only
  omega

theorem durBytes_ne_nil (us : Int) (a : Bytes) (h : durBytes us = .ok a) (hne : us ≠ 0) : a ≠ [] := by
  unfold durBytes at h
  apply secNanosBytes_ne_nil _ _ _ h
  unfold durSplit
  simp only
  split <;> simp only <;> omega

/-! ### scalars -/

theorem packFixed_ne_nil (t : PType) (v : Val) (a : Bytes) (h : packFixed t v = .ok a) : a ≠ [] := by
  have hl : ∀ n v, packLE (n + 1) v ≠ [] := by intro n v; simp [packLE]
  unfold packFixed at h
  cases t <;> simp [fmtOf, packFmt] at h <;> cases v <;> simp at h
  all_goals (split at h <;> first | (injection h with h; rw [← h]; exact hl _ _) | cases h)

/-- every packable scalar preprocesses to at least one byte -/
theorem prepPlain_packed_ne_nil (t : PType) (v : Val) (a : Bytes) (ht : isPacked t = true)
    (h : prepPlain t v = .ok a) : a ≠ [] := by
  unfold prepPlain at h
  cases t <;> simp [isPacked, packedTypes] at ht <;> simp [isFixed, fixedTypes] at h
  all_goals first
    | exact packFixed_ne_nil _ _ _ h
    | (obtain ⟨i, _, hi⟩ := bind_eq_ok _ _ _ h; exact dumpVarint_ne_nil _ _ hi)

theorem isPacked_not_message (t : PType) (h : isPacked t = true) : (t == PType.message) = false := by
  cases t <;> simp [isPacked, packedTypes] at h ⊢

/-- a typed singular leaf that is not the field's default is serialised to at least one byte -/
theorem leaf_dump_ne_nil (S : Schema) (f : FieldD) (v : Val) (se : Bool) (a : Bytes)
    (hl : leafOk f v = true) (hr : f.repeated = false)
    (hd : eqDefault S f.defKind v = false) (hse : f.optional = true → se = true)
    (h : serializeScalar S f.num f.ty v se f.wraps = .ok a) : a ≠ [] := by
  unfold serializeScalar at h
  obtain ⟨pre, hpre, h⟩ := bind_eq_ok _ _ _ h
  apply frame_ne_nil _ _ _ _ _ _ h
  intro hlen
  by_cases ho : f.optional = true
  · right; left; exact hse ho
  by_cases hw : f.wraps.isSome = true
  · right; right; exact hw
  left
  have ho' : f.optional = false := by simpa using ho
  have hw' : f.wraps = Option.none := by
    cases hwr : f.wraps with
    | none => rfl
    | some w => rw [hwr] at hw; simp at hw
  unfold leafOk at hl
  unfold FieldD.defKind at hd
  simp only [hr, ho', hw', Option.isSome_none, Bool.or_self, Bool.false_eq_true, if_false] at hd hl
  rw [hw'] at hpre
  have hty : f.ty = .string ∨ f.ty = .bytes ∨ f.ty = .message ∨ f.ty = .map := by
    simpa [wireLenDelimTypes] using hlen
  rcases hty with e | e | e | e
  · rw [e] at hl hd hpre
    cases v <;> simp [valOfType] at hl
    simp [scalarDef, eqDefault] at hd
    simp [prepScalar, prepPlain, isFixed, fixedTypes] at hpre
    rw [← hpre]; exact hd
  · rw [e] at hl hd hpre
    cases v <;> simp [valOfType] at hl
    simp [scalarDef, eqDefault] at hd
    simp [prepScalar, prepPlain, isFixed, fixedTypes] at hpre
    rw [← hpre]; exact hd
  · rw [e] at hl hd hpre
    simp only [beq_self_eq_true, if_true] at hl hd
    cases hk : f.kind with
    | user c => rw [hk] at hl; cases v <;> simp at hl
    | timestamp =>
      rw [hk] at hl hd
      cases v <;> simp at hl
      simp [msgKindDef, eqDefault] at hd
      simp only [prepScalar, beq_self_eq_true, if_true] at hpre
      exact tsBytes_ne_nil _ _ hpre hd
    | duration =>
      rw [hk] at hl hd
      cases v <;> simp at hl
      simp [msgKindDef, eqDefault] at hd
      simp only [prepScalar, beq_self_eq_true, if_true] at hpre
      exact durBytes_ne_nil _ _ hpre hd
  · rw [e] at hl
    simp at hl

/-! ### slots -/

/-- a scalar, a datetime or a timedelta -/
def scalarV : Val → Bool
  | .ph | .none | .list _ | .dict _ _ | .msg .. => false
  | _ => true

theorem slotOk'_leaf (S : Schema) (f : FieldD) (hid sel : Bool) (v : Val) (hl : scalarV v = true) :
    slotOk' S f hid sel v = (!hid && !f.repeated && leafOk f v) := by
  cases v <;> first | (simp [scalarV] at hl; done) | (rw [slotOk']; all_goals (intros; contradiction))

theorem dumpSlot_leaf (S : Schema) (f : FieldD) (sel : Bool) (v : Val) (hl : scalarV v = true) :
    ∃ se, (f.optional = true → se = true) ∧ dumpSlot S f false sel v =
      if (eqDefault S f.defKind v && !((f.group.isSome || f.optional) || sel)) = true then .ok []
      else serializeScalar S f.num f.ty v se f.wraps := by
  have key : ∀ b : Bool, f.optional = true → (b || (f.group.isSome || f.optional)) = true := by
    intro b ho; simp [ho]
  cases v with
  | ph | none | list _ | dict _ _ | msg _ _ _ _ _ => simp [scalarV] at hl
  | str s =>
    cases s with
    | nil => exact ⟨_, key _, by rw [dumpSlot]; rfl⟩
    | cons x xs =>
      exact ⟨_, key _, by rw [dumpSlot]; all_goals first | rfl | (intro e; injection e with e; cases e) | (intros; contradiction)⟩
  | int _ | bool _ | f32 _ | f64 _ | byt _ | ts _ | dur _ => exact ⟨_, key _, by rw [dumpSlot]; all_goals first | rfl | (intros; contradiction)⟩

theorem leaf_nonempty (S : Schema) (f : FieldD) (hid sel : Bool) (v : Val) (hl : scalarV v = true)
    (h : slotOk' S f hid sel v = true) (he : eqDefault S f.defKind v = false) (a : Bytes)
    (ha : dumpSlot S f hid sel v = .ok a) : a ≠ [] := by
  rw [slotOk'_leaf S f hid sel v hl] at h
  simp only [Bool.and_eq_true, Bool.not_eq_true'] at h
  obtain ⟨⟨hh, hr⟩, hok⟩ := h
  subst hh
  obtain ⟨se, hse, hds⟩ := dumpSlot_leaf S f sel v hl
  rw [hds, he] at ha
  simp only [Bool.false_and, Bool.false_eq_true, if_false] at ha
  exact leaf_dump_ne_nil S f v se a hok hr he hse ha

theorem none_default (S : Schema) (f : FieldD) (hid sel : Bool) (h : slotOk' S f hid sel .none = true) :
    eqDefault S f.defKind .none = true := by
  rw [slotOk'] at h
  simp only [Bool.and_eq_true, Bool.not_eq_true', bne_iff_ne, ne_eq] at h
  obtain ⟨⟨⟨_, ho⟩, hr⟩, hmap⟩ := h
  have hmap' : (f.ty == PType.map) = false := by simpa using hmap
  unfold FieldD.defKind
  simp only [hr, hmap', ho, Bool.false_eq_true, if_false, if_true]
  rfl

theorem list_nonempty (S : Schema) (f : FieldD) (hid sel : Bool) (xs : List Val)
    (h : slotOk' S f hid sel (.list xs) = true) (he : eqDefault S f.defKind (.list xs) = false) (a : Bytes)
    (ha : dumpSlot S f hid sel (.list xs) = .ok a) : a ≠ [] := by
  rw [slotOk'] at h
  simp only [Bool.and_eq_true, Bool.not_eq_true'] at h
  obtain ⟨⟨⟨hh, hr⟩, _⟩, _⟩ := h
  subst hh
  rw [dumpSlot] at ha
  simp only [Bool.false_eq_true, if_false, he, Bool.false_and] at ha
  have hdk : f.defKind = .list := by unfold FieldD.defKind; simp [hr]
  rw [hdk, eqDefault] at he
  cases xs with
  | nil => simp at he
  | cons x xs =>
    split at ha
    · rename_i hpk
      obtain ⟨buf, hbuf, ha⟩ := bind_eq_ok _ _ _ ha
      apply frame_ne_nil _ _ _ _ _ _ ha
      intro _; left
      rw [prepPacked] at hbuf
      obtain ⟨p, hp, hbuf⟩ := bind_eq_ok _ _ _ hbuf
      obtain ⟨q, _, hbuf⟩ := bind_eq_ok _ _ _ hbuf
      injection hbuf with hbuf; rw [← hbuf]
      apply app_ne_nil_left
      unfold prepScalar at hp
      simp only [isPacked_not_message f.ty hpk, Bool.false_eq_true, if_false] at hp
      exact prepPlain_packed_ne_nil _ _ _ hpk hp
    · unfold dumpItems at ha
      obtain ⟨p, _, ha⟩ := bind_eq_ok _ _ _ ha
      simp only at ha
      obtain ⟨q, _, ha⟩ := bind_eq_ok _ _ _ ha
      injection ha with ha; rw [← ha]
      apply app_ne_nil_left
      split
      · simp
      · rename_i hne; intro e; rw [e] at hne; simp at hne

theorem fieldJsonOk_map_single (f : FieldD) (hj : fieldJsonOk f = true) (hm : (f.ty == PType.map) = true) :
    f.repeated = false := by
  unfold fieldJsonOk at hj
  simp only [hm, if_true, Bool.and_eq_true, Bool.not_eq_true'] at hj
  exact hj.2.1.1.1.1.1.1.1

theorem dict_nonempty (S : Schema) (f : FieldD) (hj : fieldJsonOk f = true) (hid sel : Bool) (ks vs : List Val)
    (h : slotOk' S f hid sel (.dict ks vs) = true) (he : eqDefault S f.defKind (.dict ks vs) = false) (a : Bytes)
    (ha : dumpSlot S f hid sel (.dict ks vs) = .ok a) : a ≠ [] := by
  rw [slotOk'] at h
  simp only [Bool.and_eq_true, Bool.not_eq_true', beq_iff_eq] at h
  obtain ⟨⟨⟨⟨hh, hty⟩, hlen⟩, _⟩, _⟩ := h
  subst hh
  have hm : (f.ty == PType.map) = true := by simp [hty]
  have hr := fieldJsonOk_map_single f hj hm
  rw [dumpSlot] at ha
  simp only [Bool.false_eq_true, if_false, he, Bool.false_and] at ha
  have hdk : f.defKind = .dict := by unfold FieldD.defKind; simp [hr, hm]
  rw [hdk, eqDefault] at he
  cases ks with
  | nil => simp at he
  | cons k ks =>
    cases vs with
    | nil => simp at hlen
    | cons v vs =>
      unfold dumpEntries at ha
      obtain ⟨sk, _, ha⟩ := bind_eq_ok _ _ _ ha
      obtain ⟨sv, _, ha⟩ := bind_eq_ok _ _ _ ha
      obtain ⟨e, hfr, ha⟩ := bind_eq_ok _ _ _ ha
      obtain ⟨rest, _, ha⟩ := bind_eq_ok _ _ _ ha
      injection ha with ha; rw [← ha]
      apply app_ne_nil_left
      exact frame_ne_nil _ _ _ _ _ _ hfr (fun _ => Or.inr (Or.inl rfl))

theorem drop_cons_of_get {α : Type} (xs : List α) (k : Nat) (x : α) (h : xs[k]? = some x) :
    xs.drop k = x :: xs.drop (k + 1) := by
  have hk : k < xs.length := by
    by_contra hc
    rw [List.getElem?_eq_none (by omega)] at h; cases h
  rw [List.getElem?_eq_getElem hk] at h
  injection h with h
  rw [← h]
  exact List.drop_eq_getElem_cons hk

mutual
/-- **typed slots that are not all default-valued encode to at least one byte** -/
theorem dumpSlots_nonempty (S : Schema) (hS : ∀ c, ∀ f ∈ fieldsOf S c, fieldJsonOk f = true) (fs : List FieldD)
    (cur : List (Option Nat)) (hfs : ∀ f ∈ fs, fieldJsonOk f = true) :
    ∀ (vs : List Val) (k : Nat), slotsOk' S fs cur k vs = true → slotsEqFresh S (fs.drop k) vs = false →
      ∀ body, dumpSlots S fs cur k vs = .ok body → body ≠ []
  | [], k, _, he, _, _ => by
    cases hd : fs.drop k <;> rw [hd] at he <;> simp [slotsEqFresh] at he
  | v :: vs, k, h, he, body, hb => by
    rw [slotsOk'] at h
    simp only [Bool.and_eq_true] at h
    cases hf : fs[k]? with
    | none => have := h.1; rw [hf] at this; cases this
    | some f =>
      have h1 := h.1
      rw [hf] at h1
      simp only at h1
      rw [drop_cons_of_get fs k f hf] at he
      unfold slotsEqFresh at he
      rw [dumpSlots] at hb
      simp only [hf] at hb
      obtain ⟨a, ha, hb⟩ := bind_eq_ok _ _ _ hb
      obtain ⟨b, hb', hb⟩ := bind_eq_ok _ _ _ hb
      injection hb with hb; rw [← hb]
      by_cases htail : slotsEqFresh S (fs.drop (k + 1)) vs = false
      · exact app_ne_nil_right _ _ (dumpSlots_nonempty S hS fs cur hfs vs (k + 1) h.2 htail b hb')
      · have htail' : slotsEqFresh S (fs.drop (k + 1)) vs = true := by simpa using htail
        rw [htail', Bool.and_true] at he
        exact app_ne_nil_left _ _
          (dumpSlot_nonempty S hS f (hfs f (List.mem_of_getElem? hf)) _ _ v h1 he a ha)
termination_by structural vs => vs

theorem dumpSlot_nonempty (S : Schema) (hS : ∀ c, ∀ f ∈ fieldsOf S c, fieldJsonOk f = true) (f : FieldD)
    (hj : fieldJsonOk f = true) (hid sel : Bool) :
    ∀ (v : Val), slotOk' S f hid sel v = true →
      (match v with | .ph => true | v => eqDefault S f.defKind v) = false →
      ∀ a, dumpSlot S f hid sel v = .ok a → a ≠ []
  | .ph, _, he, _, _ => by cases he
  | .none, h, he, _, _ => by
    have : eqDefault S f.defKind .none = false := he
    rw [none_default S f hid sel h] at this; cases this
  | .int i, h, he, a, ha => leaf_nonempty S f hid sel (.int i) rfl h he a ha
  | .bool b, h, he, a, ha => leaf_nonempty S f hid sel (.bool b) rfl h he a ha
  | .f32 b, h, he, a, ha => leaf_nonempty S f hid sel (.f32 b) rfl h he a ha
  | .f64 b, h, he, a, ha => leaf_nonempty S f hid sel (.f64 b) rfl h he a ha
  | .str s, h, he, a, ha => leaf_nonempty S f hid sel (.str s) rfl h he a ha
  | .byt s, h, he, a, ha => leaf_nonempty S f hid sel (.byt s) rfl h he a ha
  | .ts us, h, he, a, ha => leaf_nonempty S f hid sel (.ts us) rfl h he a ha
  | .dur us, h, he, a, ha => leaf_nonempty S f hid sel (.dur us) rfl h he a ha
  | .list xs, h, he, a, ha => list_nonempty S f hid sel xs h he a ha
  | .dict ks vs, h, he, a, ha => dict_nonempty S f hj hid sel ks vs h he a ha
  | .msg c sl ow unk cur, h, he, a, ha => by
    rw [slotOk'] at h
    simp only [Bool.and_eq_true, Bool.not_eq_true', beq_iff_eq, Option.isNone_iff_eq_none] at h
    obtain ⟨⟨⟨⟨⟨⟨⟨⟨hh, hty⟩, hw⟩, hr⟩, hk⟩, _⟩, _⟩, _⟩, hsl⟩ := h
    subst hh
    have he' : eqDefault S f.defKind (.msg c sl ow unk cur) = false := he
    rw [dumpSlot] at ha
    simp only [Bool.false_eq_true, if_false, he', Bool.false_and] at ha
    obtain ⟨body, hbody, ha⟩ := bind_eq_ok _ _ _ ha
    simp only [hty, hw, beq_self_eq_true, Option.isNone_none, Bool.and_self, if_true] at ha
    apply frame_ne_nil _ _ _ _ _ _ ha
    intro _
    by_cases hp : (ow || (f.group.isSome || f.optional)) = true
    · right; left; exact hp
    · left
      apply app_ne_nil_left
      have ho : f.optional = false := by
        cases ho : f.optional with
        | false => rfl
        | true => rw [ho] at hp; simp at hp
      have hdk : f.defKind = .msg c := by
        unfold FieldD.defKind
        simp [hr, hty, ho, hw, hk, msgKindDef]
      rw [hdk, eqDefault] at he'
      simp only [beq_self_eq_true, Bool.true_and] at he'
      exact dumpSlots_nonempty S hS (fieldsOf S c) cur (hS c) sl 0 hsl (by simpa using he') body hbody
termination_by structural v => v
end

end Bp

#print axioms Bp.dumpSlots_nonempty
