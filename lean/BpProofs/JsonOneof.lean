import BpModel.All
import BpModel.Json
import BpProofs.Ops
import BpProofs.SpecWf
/-
  C07, the JSON half: which oneof members `to_dict` / `to_json` write.
  Slot-level facts and the projection of `toDictKVs` on field indices.
-/
namespace Bp

/-- a oneof member as protoc admits it: not `repeated`, not a map (protoc also rejects
    `optional` members; the theorems do not need that) -/
def memberOk (f : FieldD) : Bool := f.group.isNone || (!f.repeated && f.ty != .map)

def membersOk (fs : List FieldD) : Bool := fs.all memberOk

/-- `value is None` tests of `to_dict` that win over "the selected member is always written":
    sub-messages / wrappers, 64-bit ints and enums -/
def skipsNone (f : FieldD) : Bool := f.ty == .message || isInt64 f.ty || f.ty == .enum

/-- the selected member is NOT written exactly when it holds `None` in a field of those kinds
    (a wrapper member whose slot is still PLACEHOLDER reads as `None`) -/
def skipsSelected (f : FieldD) : Val → Bool
  | .none => skipsNone f
  | .ph => (f.wraps.isSome || f.optional) && skipsNone f
  | _ => false

/-! `BpProofs.Json` cannot be imported here (it clashes with `BpProofs.RtFlat`, which C14
    imports next to C07), so its two unfolding lemmas are repeated under local names -/
def isLeafV : Val → Bool
  | .ph | .list _ | .dict _ _ | .msg _ _ _ _ _ => false
  | _ => true

theorem toDictSlot_leaf' (S : Schema) (E : Enums) (cs : KeyCase) (incl : Bool) (f : FieldD) (hid sel : Bool) (v : Val)
    (h : isLeafV v = true) :
    toDictSlot S E cs incl f hid sel v = if hid then toDictDefault S E f sel incl else toDictPlain S E f sel incl v := by
  cases v <;> first | (simp [isLeafV] at h; done) | (rw [toDictSlot]; all_goals (intros; contradiction))

theorem toDictSlot_ph' (S : Schema) (E : Enums) (cs : KeyCase) (incl : Bool) (f : FieldD) (hid sel : Bool) :
    toDictSlot S E cs incl f hid sel .ph = toDictDefault S E f sel incl := by
  rw [toDictSlot]

/-- an unselected member whose raw slot is unset writes nothing -/
theorem toDictDefault_unselected (S : Schema) (E : Enums) (f : FieldD)
    (hr : f.repeated = false) :
    toDictDefault S E f false false = Option.none := by
  obtain ⟨name, num, ty, rep, opt, grp, wraps, kind, mk, mv, mvk, er⟩ := f
  simp only at hr; subst hr
  cases ty <;> cases wraps <;> cases kind <;> cases opt <;>
    simp [toDictDefault, FieldD.defKind, msgKindDef, scalarDef, toDictPlain, defaultOfKind, eqDefault,
      f32IsZero, f64IsZero]

/-- an unselected member is `hidden`; whatever its raw slot holds under the invariant
    (PLACEHOLDER), `to_dict` leaves it out -/
theorem toDictSlot_unselected (S : Schema) (E : Enums) (cs : KeyCase) (f : FieldD)
    (hr : f.repeated = false) (v : Val) :
    toDictSlot S E cs false f true false v = Option.none := by
  have h := toDictDefault_unselected S E f hr
  cases v <;> first
    | (rw [toDictSlot_leaf' _ _ _ _ _ _ _ _ rfl]; simpa using h)
    | (rw [toDictSlot]; simpa using h)

set_option maxHeartbeats 1000000 in
/-- **the selected member is written unless it holds `None` in a message / wrapper / 64-bit /
    enum field** (exact characterisation; `hid = false`, `sel = true` is what `hidden` and
    `selectedInGroup` give for the selected member) -/
theorem toDictSlot_selected (S : Schema) (E : Enums) (cs : KeyCase) (f : FieldD)
    (hr : f.repeated = false) (hm : f.ty ≠ .map) (v : Val) :
    (toDictSlot S E cs false f false true v).isNone = skipsSelected f v := by
  obtain ⟨name, num, ty, rep, opt, grp, wraps, kind, mk, mv, mvk, er⟩ := f
  simp only at hr hm; subst hr
  cases v with
  | ph =>
    rw [toDictSlot_ph']
    cases ty <;> cases wraps <;> cases kind <;> cases opt <;>
      first
      | (exact absurd rfl hm)
      | simp [toDictDefault, FieldD.defKind, msgKindDef, scalarDef, toDictPlain, defaultOfKind, eqDefault,
          encScalar, isInt64, Gen.int64Types, f32IsZero, f64IsZero, skipsSelected, skipsNone, rawJ, dumpFloat]
  | list xs =>
    rw [toDictSlot]
    cases ty <;> cases wraps <;>
      first
      | (exact absurd rfl hm)
      | simp [skipsSelected]
  | dict ks vs =>
    rw [toDictSlot]
    cases ty <;> first | (exact absurd rfl hm) | simp [skipsSelected]
  | msg c sl ow unk cur =>
    rw [toDictSlot]
    cases ty <;> cases wraps <;> first | (exact absurd rfl hm) | simp [skipsSelected]
  | _ =>
    rw [toDictSlot_leaf' _ _ _ _ _ _ _ _ rfl]
    cases ty <;> cases wraps <;>
      first
      | (exact absurd rfl hm)
      | simp [toDictPlain, encScalar, isInt64, Gen.int64Types, skipsSelected, skipsNone, strJ, b64J, dumpEnum, dumpFloat, rawJ]

/-! ### the field indices of the entries `to_dict` writes -/

/-- the projection of `toDictKVs` on field indices: index of every entry, in output order -/
def emittedIdx (S : Schema) (E : Enums) (cs : KeyCase) (incl : Bool) (fs : List FieldD) (cur : List (Option Nat)) :
    Nat → List Val → List Nat
  | _, [] => []
  | idx, v :: vs =>
    match fs[idx]? with
    | Option.none => []
    | some f =>
      match toDictSlot S E cs incl f (hidden f idx cur) (selectedInGroup f idx cur) v with
      | some _ => idx :: emittedIdx S E cs incl fs cur (idx + 1) vs
      | Option.none => emittedIdx S E cs incl fs cur (idx + 1) vs

/-- the key `to_dict` uses for field `i` -/
def keyAt (cs : KeyCase) (fs : List FieldD) (i : Nat) : JKey := jsonKey cs (fs.getD i default).name

/-- `emittedIdx` is exactly the list of fields behind the items of the output dict -/
theorem toDictKVs_keys (S : Schema) (E : Enums) (cs : KeyCase) (incl : Bool) (fs : List FieldD) (cur : List (Option Nat))
    (idx : Nat) (vs : List Val) :
    (toDictKVs S E cs incl fs cur idx vs).map (·.1) = (emittedIdx S E cs incl fs cur idx vs).map (keyAt cs fs) := by
  induction vs generalizing idx with
  | nil => rw [toDictKVs, emittedIdx]; rfl
  | cons v vs ih =>
    rw [toDictKVs, emittedIdx]
    cases hf : fs[idx]? with
    | none => rfl
    | some f =>
      simp only
      cases toDictSlot S E cs incl f (hidden f idx cur) (selectedInGroup f idx cur) v with
      | none => exact ih (idx + 1)
      | some j =>
        simp only [List.map_cons, ih (idx + 1)]
        congr 1
        simp [keyAt, List.getD_eq_getElem?_getD, hf]

/-- field `i` has an entry iff it is a field with a slot and `toDictSlot` writes that slot -/
theorem mem_emittedIdx (S : Schema) (E : Enums) (cs : KeyCase) (incl : Bool) (fs : List FieldD) (cur : List (Option Nat))
    (k : Nat) (vs : List Val) (i : Nat) :
    i ∈ emittedIdx S E cs incl fs cur k vs ↔
      k ≤ i ∧ ∃ f v, fs[i]? = some f ∧ vs[i - k]? = some v ∧
        (toDictSlot S E cs incl f (hidden f i cur) (selectedInGroup f i cur) v).isSome = true := by
  induction vs generalizing k with
  | nil => rw [emittedIdx]; simp
  | cons v vs ih =>
    rw [emittedIdx]
    cases hf : fs[k]? with
    | none =>
      simp only [List.not_mem_nil, false_iff]
      rintro ⟨hk, f, w, hfi, -, -⟩
      have h1 : fs.length ≤ k := by simpa using hf
      have h2 : i < fs.length := by
        rcases Nat.lt_or_ge i fs.length with h | h
        · exact h
        · rw [List.getElem?_eq_none h] at hfi; cases hfi
      omega
    | some f =>
      simp only
      have key : (k + 1 ≤ i ∧ ∃ f v, fs[i]? = some f ∧ vs[i - (k + 1)]? = some v ∧
            (toDictSlot S E cs incl f (hidden f i cur) (selectedInGroup f i cur) v).isSome = true) ↔
          (k < i ∧ k ≤ i ∧ ∃ f w, fs[i]? = some f ∧ (v :: vs)[i - k]? = some w ∧
            (toDictSlot S E cs incl f (hidden f i cur) (selectedInGroup f i cur) w).isSome = true) := by
        constructor
        · rintro ⟨hk, f', w, h1, h2, h3⟩
          refine ⟨by omega, by omega, f', w, h1, ?_, h3⟩
          have : i - k = (i - (k + 1)) + 1 := by omega
          rw [this, List.getElem?_cons_succ]; exact h2
        · rintro ⟨hk, -, f', w, h1, h2, h3⟩
          refine ⟨by omega, f', w, h1, ?_, h3⟩
          have : i - k = (i - (k + 1)) + 1 := by omega
          rw [this, List.getElem?_cons_succ] at h2; exact h2
      have here : ∀ b : Bool, (toDictSlot S E cs incl f (hidden f k cur) (selectedInGroup f k cur) v).isSome = b →
          ((i = k ∧ b = true) ↔ (i = k ∧ k ≤ i ∧ ∃ f w, fs[i]? = some f ∧ (v :: vs)[i - k]? = some w ∧
            (toDictSlot S E cs incl f (hidden f i cur) (selectedInGroup f i cur) w).isSome = true)) := by
        intro b hb
        constructor
        · rintro ⟨rfl, rfl⟩
          exact ⟨rfl, Nat.le_refl _, f, v, hf, by simp, hb⟩
        · rintro ⟨rfl, -, f', w, h1, h2, h3⟩
          rw [hf] at h1; cases h1
          simp at h2; subst h2
          exact ⟨rfl, by rw [← hb, h3]⟩
      have split : ∀ P : Prop, (k ≤ i ∧ P) ↔ ((i = k ∧ k ≤ i ∧ P) ∨ (k < i ∧ k ≤ i ∧ P)) := by
        intro P
        constructor
        · rintro ⟨h, hp⟩
          rcases Nat.eq_or_lt_of_le h with e | l
          · exact Or.inl ⟨e.symm, h, hp⟩
          · exact Or.inr ⟨l, h, hp⟩
        · rintro (⟨-, h, hp⟩ | ⟨-, h, hp⟩) <;> exact ⟨h, hp⟩
      rw [split]
      cases hs : toDictSlot S E cs incl f (hidden f k cur) (selectedInGroup f k cur) v with
      | none =>
        simp only
        rw [ih (k + 1), key]
        have := here false (by rw [hs]; rfl)
        simp only [Bool.false_eq_true, and_false, false_iff] at this
        constructor
        · exact Or.inr
        · rintro (h | h)
          · exact absurd h this
          · exact h
      | some j =>
        simp only [List.mem_cons]
        rw [ih (k + 1), key]
        have := here true (by rw [hs]; rfl)
        simp only [and_true] at this
        exact or_congr this Iff.rfl

/-- entries come in field order: the list of indices is strictly increasing -/
theorem emittedIdx_sorted (S : Schema) (E : Enums) (cs : KeyCase) (incl : Bool) (fs : List FieldD) (cur : List (Option Nat))
    (k : Nat) (vs : List Val) : (emittedIdx S E cs incl fs cur k vs).Pairwise (· < ·) := by
  induction vs generalizing k with
  | nil => rw [emittedIdx]; exact List.Pairwise.nil
  | cons v vs ih =>
    rw [emittedIdx]
    cases fs[k]? with
    | none => exact List.Pairwise.nil
    | some f =>
      simp only
      cases toDictSlot S E cs incl f (hidden f k cur) (selectedInGroup f k cur) v with
      | none => exact ih (k + 1)
      | some j =>
        refine List.Pairwise.cons ?_ (ih (k + 1))
        intro a ha
        have := ((mem_emittedIdx S E cs incl fs cur (k + 1) vs a).1 ha).1
        omega

/-- … so no field is written twice -/
theorem emittedIdx_nodup (S : Schema) (E : Enums) (cs : KeyCase) (incl : Bool) (fs : List FieldD) (cur : List (Option Nat))
    (k : Nat) (vs : List Val) : (emittedIdx S E cs incl fs cur k vs).Nodup :=
  (emittedIdx_sorted S E cs incl fs cur k vs).imp (fun h => Nat.ne_of_lt h)

theorem eq_singleton_of_nodup (l : List Nat) (i : Nat) (hn : l.Nodup) (ha : ∀ x ∈ l, x = i) (hi : i ∈ l) : l = [i] := by
  cases l with
  | nil => cases hi
  | cons a t =>
    have ea : a = i := ha a (List.mem_cons_self ..)
    subst ea
    cases t with
    | nil => rfl
    | cons b t =>
      have eb : b = a := ha b (by simp)
      subst eb
      simp at hn

/-! ### group level -/

theorem flags_unselected (f : FieldD) (i g : Nat) (cur : List (Option Nat)) (hg : f.group = some g)
    (h : cur.getD g Option.none ≠ some i) : hidden f i cur = true ∧ selectedInGroup f i cur = false := by
  unfold hidden selectedInGroup; rw [hg]; simpa using h

theorem flags_selected (f : FieldD) (i g : Nat) (cur : List (Option Nat)) (hg : f.group = some g)
    (h : cur.getD g Option.none = some i) : hidden f i cur = false ∧ selectedInGroup f i cur = true := by
  unfold hidden selectedInGroup; rw [hg]; simpa using h

theorem memberOk_of (fs : List FieldD) (hm : membersOk fs = true) (i : Nat) (f : FieldD) (g : Nat)
    (hf : fs[i]? = some f) (hg : f.group = some g) :
    f.repeated = false ∧ f.ty ≠ .map := by
  have := List.all_eq_true.1 hm f (List.mem_of_getElem? hf)
  unfold memberOk at this
  rw [hg] at this
  simpa using this

/-- **(1)** a member of a group that is not the selected one has no entry in the output -/
theorem emitted_unselected (S : Schema) (E : Enums) (cs : KeyCase) (fs : List FieldD) (cur : List (Option Nat))
    (sl : List Val) (hm : membersOk fs = true) (i : Nat) (f : FieldD) (g : Nat)
    (hf : fs[i]? = some f) (hg : f.group = some g) (hsel : cur.getD g Option.none ≠ some i) :
    i ∉ emittedIdx S E cs false fs cur 0 sl := by
  intro h
  obtain ⟨-, f', v, h1, -, h3⟩ := (mem_emittedIdx S E cs false fs cur 0 sl i).1 h
  rw [hf] at h1; cases h1
  obtain ⟨hr, -⟩ := memberOk_of fs hm i f g hf hg
  obtain ⟨a, b⟩ := flags_unselected f i g cur hg hsel
  rw [a, b, toDictSlot_unselected S E cs f hr v] at h3
  cases h3

/-- **(2)** the selected member has an entry — its default value included — unless it holds
    `None` in a message / wrapper / 64-bit / enum field (`skipsSelected`) -/
theorem emitted_selected (S : Schema) (E : Enums) (cs : KeyCase) (fs : List FieldD) (cur : List (Option Nat))
    (sl : List Val) (hm : membersOk fs = true) (i : Nat) (f : FieldD) (g : Nat)
    (hf : fs[i]? = some f) (hg : f.group = some g) (hsel : cur.getD g Option.none = some i) (hl : i < sl.length) :
    i ∈ emittedIdx S E cs false fs cur 0 sl ↔ skipsSelected f (sl.getD i .ph) = false := by
  obtain ⟨hr, hmap⟩ := memberOk_of fs hm i f g hf hg
  obtain ⟨a, b⟩ := flags_selected f i g cur hg hsel
  have hv : sl[i]? = some (sl.getD i .ph) := by
    rw [List.getD_eq_getElem?_getD, List.getElem?_eq_getElem hl]; rfl
  have hc := toDictSlot_selected S E cs f hr hmap (sl.getD i .ph)
  rw [mem_emittedIdx]
  constructor
  · rintro ⟨-, f', v, h1, h2, h3⟩
    rw [hf] at h1; cases h1
    rw [Nat.sub_zero, hv] at h2; cases h2
    rw [a, b] at h3
    rw [← hc]
    cases h : toDictSlot S E cs false f false true (sl.getD i .ph) with
    | none => rw [h] at h3; cases h3
    | some j => rfl
  · intro h
    refine ⟨Nat.zero_le _, f, _, hf, by rw [Nat.sub_zero]; exact hv, ?_⟩
    rw [a, b]
    rw [h] at hc
    cases h' : toDictSlot S E cs false f false true (sl.getD i .ph) with
    | none => rw [h'] at hc; cases hc
    | some j => rfl

/-- is field `i` a member of group `g`? -/
def inGroup (fs : List FieldD) (g : Nat) (i : Nat) : Bool := (fs[i]?.bind (·.group)) == some g

theorem inGroup_iff (fs : List FieldD) (g i : Nat) :
    inGroup fs g i = true ↔ ∃ f, fs[i]? = some f ∧ f.group = some g := by
  unfold inGroup
  cases fs[i]? with
  | none => simp
  | some f => simp

/-- **(3)** every entry of a member of group `g` is the entry of the selected member
    (`which_one_of`'s answer), so two entries of one group are the same entry -/
theorem emitted_is_selected (S : Schema) (E : Enums) (cs : KeyCase) (fs : List FieldD) (cur : List (Option Nat))
    (sl : List Val) (hm : membersOk fs = true) (i : Nat) (f : FieldD) (g : Nat)
    (hf : fs[i]? = some f) (hg : f.group = some g) (h : i ∈ emittedIdx S E cs false fs cur 0 sl) :
    cur.getD g Option.none = some i := by
  apply Classical.byContradiction
  intro hne
  exact emitted_unselected S E cs fs cur sl hm i f g hf hg hne h

/-- **(3′)** the entries of group `g`, as a list: the selected member alone, or nothing -/
theorem group_entries_selected (S : Schema) (E : Enums) (cs : KeyCase) (fs : List FieldD) (cur : List (Option Nat))
    (sl : List Val) (hm : membersOk fs = true) (i : Nat) (f : FieldD) (g : Nat)
    (hf : fs[i]? = some f) (hg : f.group = some g) (hsel : cur.getD g Option.none = some i) (hl : i < sl.length) :
    (emittedIdx S E cs false fs cur 0 sl).filter (inGroup fs g) =
      if skipsSelected f (sl.getD i .ph) then [] else [i] := by
  have hall : ∀ x ∈ (emittedIdx S E cs false fs cur 0 sl).filter (inGroup fs g), x = i := by
    intro x hx
    obtain ⟨hx1, hx2⟩ := List.mem_filter.1 hx
    obtain ⟨fx, hfx, hgx⟩ := (inGroup_iff fs g x).1 hx2
    have := emitted_is_selected S E cs fs cur sl hm x fx g hfx hgx hx1
    rw [hsel] at this; injection this with this; exact this.symm
  have hig : inGroup fs g i = true := (inGroup_iff fs g i).2 ⟨f, hf, hg⟩
  have hmem := emitted_selected S E cs fs cur sl hm i f g hf hg hsel hl
  cases hs : skipsSelected f (sl.getD i .ph) with
  | true =>
    simp only [if_true]
    rw [List.eq_nil_iff_forall_not_mem]
    intro x hx
    have e := hall x hx; subst e
    have := hmem.1 (List.mem_filter.1 hx).1
    rw [hs] at this; cases this
  | false =>
    simp only [Bool.false_eq_true, if_false]
    exact eq_singleton_of_nodup _ i ((emittedIdx_nodup S E cs false fs cur 0 sl).filter _) hall
      (List.mem_filter.2 ⟨hmem.2 hs, hig⟩)

/-- … and nothing at all when no member of the group is selected -/
theorem group_entries_none (S : Schema) (E : Enums) (cs : KeyCase) (fs : List FieldD) (cur : List (Option Nat))
    (sl : List Val) (hm : membersOk fs = true) (g : Nat)
    (hnone : ∀ i f, fs[i]? = some f → f.group = some g → cur.getD g Option.none ≠ some i) :
    (emittedIdx S E cs false fs cur 0 sl).filter (inGroup fs g) = [] := by
  rw [List.eq_nil_iff_forall_not_mem]
  intro x hx
  obtain ⟨hx1, hx2⟩ := List.mem_filter.1 hx
  obtain ⟨fx, hfx, hgx⟩ := (inGroup_iff fs g x).1 hx2
  exact emitted_unselected S E cs fs cur sl hm x fx g hfx hgx (hnone x fx hfx hgx) hx1

/-! ### every instance keeps one raw slot per field -/

theorem materializeAll_length (S : Schema) (fs : List FieldD) (cur : List (Option Nat)) (j : Nat) (vs : List Val) :
    (materializeAll S fs cur j vs).length = vs.length := by
  induction vs generalizing j with
  | nil => rfl
  | cons v vs ih => simp [materializeAll, ih]

theorem deepCopySlots_length (S : Schema) (fs : List FieldD) (vs : List Val) (h : vs.length = fs.length) :
    (deepCopySlots S fs vs).length = fs.length := by
  induction fs generalizing vs with
  | nil => cases vs <;> simp [deepCopySlots]
  | cons f fs ih =>
    cases vs with
    | nil => simp at h
    | cons v vs =>
      simp only [List.length_cons, Nat.add_right_cancel_iff] at h
      simp [deepCopySlots, ih vs h]

theorem applyKw_slots_length (S : Schema) (fs : List FieldD) (st : MState) (kw : List (Nat × Val)) :
    (applyKw S fs st kw).slots.length = st.slots.length := by
  induction kw generalizing st with
  | nil => rfl
  | cons p kw ih =>
    obtain ⟨i, v⟩ := p
    rw [applyKw, ih, setAttr_slots_length]

theorem loadInto_slots_length (S : Schema) (fuel : Nat) (d : MsgD) (st st' : MState) (bs : Bytes)
    (h : loadInto S fuel d st bs = .ok st') : st'.slots.length = st.slots.length := by
  cases fuel with
  | zero => simp [loadInto] at h
  | succ n =>
    rw [loadInto] at h
    cases hl : loadFields bs with
    | error e => rw [hl] at h; simp at h
    | ok pfs =>
      rw [hl] at h; simp only [bind_ok] at h
      exact (foldFields_lengths S _ d pfs _ st' h).1

/-- `stepOp` never changes the class of the instance nor its number of raw slots -/
theorem stepOp_full (S : Schema) (c : Nat) (sl : List Val) (ow : Bool) (unk : Bytes) (cur : List (Option Nat))
    (op : Op) (m' : Val) (hlen : sl.length = (fieldsOf S c).length)
    (hs : stepOp S (.msg c sl ow unk cur) op = .ok m') :
    ∃ sl' ow' unk' cur', m' = .msg c sl' ow' unk' cur' ∧ sl'.length = (fieldsOf S c).length := by
  unfold stepOp at hs
  simp only [stateOf] at hs
  cases op with
  | setattr idx v =>
    simp only at hs
    split at hs
    · injection hs with hs; subst hs
      exact ⟨_, _, _, _, rfl, by rw [setAttr_slots_length]; exact hlen⟩
    · simp at hs
  | getattr idx =>
    simp only at hs
    cases hg : getAttr S (fieldsOf S c) { slots := sl, onWire := ow, unknown := unk, cur := cur } idx with
    | error e => rw [hg] at hs; simp at hs
    | ok r =>
      obtain ⟨v, st'⟩ := r
      rw [hg] at hs; simp only [bind_ok] at hs
      injection hs with hs; subst hs
      refine ⟨_, _, _, _, rfl, ?_⟩
      unfold getAttr at hg
      split at hg
      · simp at hg
      · split at hg
        · simp at hg
        · simp at hg
          rw [← hg.2]; simp only [setAt_length]; exact hlen
  | parse bs =>
    simp only at hs
    unfold parseInto at hs
    simp only at hs
    cases hd : S[c]? with
    | none => rw [hd] at hs; simp at hs
    | some d =>
      rw [hd] at hs
      simp only at hs
      cases hl : loadInto S (bs.length + 1) d { slots := sl, onWire := ow, unknown := unk, cur := cur } bs with
      | error e => rw [hl] at hs; simp at hs
      | ok st' =>
        rw [hl] at hs; simp only [bind_ok] at hs
        injection hs with hs; subst hs
        exact ⟨_, _, _, _, rfl, by rw [loadInto_slots_length S _ d _ st' bs hl]; exact hlen⟩
  | fromDict kw =>
    simp only at hs
    injection hs with hs; subst hs
    exact ⟨_, _, _, _, rfl, by rw [applyKw_slots_length]; exact hlen⟩
  | copy =>
    simp only at hs
    injection hs with hs; subst hs
    exact ⟨_, _, _, _, rfl, by simp [hlen]⟩
  | deepcopy =>
    simp only at hs
    injection hs with hs; subst hs
    rw [deepCopy]
    exact ⟨_, _, _, _, rfl, deepCopySlots_length S _ sl hlen⟩
  | pickle =>
    simp only at hs
    cases hd : dumpVal S (.msg c sl ow unk cur) with
    | error e => rw [hd] at hs; simp at hs
    | ok bs =>
      rw [hd] at hs; simp only [bind_ok] at hs
      unfold parse parseInto fresh at hs
      simp only at hs
      cases hS : S[c]? with
      | none => rw [hS] at hs; simp at hs
      | some d =>
        rw [hS] at hs
        simp only at hs
        cases hl : loadInto S (bs.length + 1) d _ bs with
        | error e => rw [hl] at hs; simp at hs
        | ok st' =>
          rw [hl] at hs; simp only [bind_ok] at hs
          injection hs with hs; subst hs
          exact ⟨_, _, _, _, rfl, by rw [loadInto_slots_length S _ d _ st' bs hl]; simp⟩
  | readAll =>
    simp only at hs
    injection hs with hs; subst hs
    exact ⟨_, _, _, _, rfl, by simp only [materializeAll_length]; exact hlen⟩
  | rawObs =>
    simp only at hs
    injection hs with hs; subst hs
    exact ⟨_, _, _, _, rfl, hlen⟩

end Bp
