import BpModel.All
import BpModel.Json
import BpProofs.Json
import BpProofs.JsonEqv
/-
  C04, message level: `from_dict(to_dict(m))` for flat AND nested messages.

  `jrt S E cs m` is the message the round trip rebuilds (written fields are decoded and handed
  to the constructor, omitted fields get the dataclass default, `_serialized_on_wire = True`,
  sub-messages / repeated messages / map message values recursively).  Proved here, by
  structural recursion over `Val` / `List Val`:

    rt_msg      : `Cls.from_dict(m.to_dict())` returns `jrt m`              (class form)
    jrt_deqv    : `m ≈ jrt m`   (`DEqv`, BpProofs/JsonEqv.lean)   ⇒ same bytes (`deqv_dumpVal`)

  under the SCHEMA guards `jsonOk S E cs` (BpModel/Json.lean: D15 names, D17 field kinds, enum
  aliases) and `groupsOk S` (every oneof index of a field is a group of its class), and the VALUE
  guards `wellTyped' S m` (BpProofs/JsonGuard.lean: `wellTyped` of BpModel/Json.lean without the
  clause "an absent plain sub-message equals a fresh one") and `selOk S m` (a oneof selection names
  a member of that very group — the part of the oneof invariant `wellTyped` does not contain).
-/
namespace Bp
open Gen

/-! ### guards -/

/-- every `group` of a field is a group of its class (`WfGroups`, decidable, whole schema) -/
def groupsOk (S : Schema) : Bool :=
  S.all fun d => d.fields.all fun f => match f.group with
    | some g => decide (g < d.nGroups)
    | Option.none => true

/-- `_group_current[g] = name` names a field of group `g` -/
def curPoints (fs : List FieldD) (cur : List (Option Nat)) : Bool :=
  (List.range cur.length).all fun g => match cur.getD g Option.none with
    | Option.none => true
    | some i => (match fs[i]? with
                 | some f => f.group == some g
                 | Option.none => false)

mutual
/-- at every nesting level the oneof selection names members of the right group -/
def selOk (S : Schema) : Val → Bool
  | .msg c sl _ _ cur => curPoints (fieldsOf S c) cur && selOkList S sl
  | .list xs => selOkList S xs
  | .dict _ vs => selOkList S vs
  | _ => true
def selOkList (S : Schema) : List Val → Bool
  | [] => true
  | x :: xs => selOk S x && selOkList S xs
end

/-- the schema guards of the round-trip theorems -/
def SchemaOk (S : Schema) (E : Enums) (cs : KeyCase) : Prop := jsonOk S E cs = true ∧ groupsOk S = true

instance (S : Schema) (E : Enums) (cs : KeyCase) : Decidable (SchemaOk S E cs) := by unfold SchemaOk; infer_instance

/-! ### the rebuilt message -/

mutual
/-- what `from_dict(to_dict(v))` rebuilds -/
def jrt (S : Schema) (E : Enums) (cs : KeyCase) : Val → Val
  | .msg c sl _ unk cur => .msg c (jrtSlots S E cs (fieldsOf S c) cur 0 sl) true unk cur
  | .list xs => .list (jrtList S E cs xs)
  | .dict ks vs => .dict ks (jrtList S E cs vs)
  | v => v
def jrtList (S : Schema) (E : Enums) (cs : KeyCase) : List Val → List Val
  | [] => []
  | x :: xs => jrt S E cs x :: jrtList S E cs xs
/-- slot by slot: a field `to_dict` leaves out gets the dataclass default (None for a
    proto3-optional field, else PLACEHOLDER), a written field its decoded value -/
def jrtSlots (S : Schema) (E : Enums) (cs : KeyCase) (fs : List FieldD) (cur : List (Option Nat)) :
    Nat → List Val → List Val
  | _, [] => []
  | k, v :: vs =>
    (match fs[k]? with
     | Option.none => v
     | some f =>
       match toDictSlot S E cs false f (hidden f k cur) (selectedInGroup f k cur) v with
       | Option.none => freshVal f
       | some _ => jrt S E cs v) :: jrtSlots S E cs fs cur (k + 1) vs
end

/-- the constructor arguments: the written fields by index, with their decoded values -/
def emitted2 (S : Schema) (E : Enums) (cs : KeyCase) (fs : List FieldD) (cur : List (Option Nat)) :
    Nat → List Val → List (Nat × Val)
  | _, [] => []
  | idx, v :: vs =>
    match fs[idx]? with
    | Option.none => []
    | some f =>
      match toDictSlot S E cs false f (hidden f idx cur) (selectedInGroup f idx cur) v with
      | some _ => (idx, jrt S E cs v) :: emitted2 S E cs fs cur (idx + 1) vs
      | Option.none => emitted2 S E cs fs cur (idx + 1) vs

/-- the per-slot statement of the induction: (1) a written field is not null, decodes to
    `jrt v`, which is related to `v`, kept (`keptSlot`: present, or a sub-message that differs
    from its default), not a sentinel, and the field is readable;
    (2) an omitted field is not the selected member, and holds the dataclass default or an
    absent default-valued value -/
def SlotRT2 (S : Schema) (E : Enums) (cs : KeyCase) (f : FieldD) (hid sel : Bool) (v : Val) : Prop :=
  (∀ j, toDictSlot S E cs false f hid sel v = some j →
      j ≠ .null ∧ decodeField S E f j = .ok (jrt S E cs v) ∧ DEqv S v (jrt S E cs v) ∧
      keptSlot S f sel v = true ∧ isSentinel f (jrt S E cs v) = false ∧ hid = false)
  ∧ (toDictSlot S E cs false f hid sel v = Option.none →
      sel = false ∧
      (v = freshVal f ∨ (f.optional = false ∧ eqDefault S f.defKind v = true ∧ onWireOf v = false)))

/-! ### the loop of `_from_dict_init` -/

theorem kv_roundtrip2 (S : Schema) (E : Enums) (cs : KeyCase) (c : Nat) (cur : List (Option Nat))
    (hn : namesOk cs (fieldsOf S c) = true) (slots : List Val) (idx : Nat)
    (hrt : ∀ k v f, slots[k]? = some v → (fieldsOf S c)[idx + k]? = some f →
      SlotRT2 S E cs f (hidden f (idx + k) cur) (selectedInGroup f (idx + k) cur) v) :
    fromDictKV S E c ((toDictKVs S E cs false (fieldsOf S c) cur idx slots).map (·.1))
        ((toDictKVs S E cs false (fieldsOf S c) cur idx slots).map (·.2))
      = .ok (emitted2 S E cs (fieldsOf S c) cur idx slots) := by
  induction slots generalizing idx with
  | nil => rw [toDictKVs, emitted2]; simp [fromDictKV]
  | cons v vs ih =>
    rw [toDictKVs, emitted2]
    have ih' := ih (idx + 1) (by
      intro k v' f' hv hf'
      have := hrt (k + 1) v' f' (by simpa using hv) (by rw [← hf']; congr 1; omega)
      have e : idx + (k + 1) = idx + 1 + k := by omega
      rw [e] at this; exact this)
    cases hf : (fieldsOf S c)[idx]? with
    | none => simp [fromDictKV]
    | some f =>
      simp only []
      have h0 := hrt 0 v f (by simp) (by simpa using hf)
      simp only [Nat.add_zero] at h0
      cases hs : toDictSlot S E cs false f (hidden f idx cur) (selectedInGroup f idx cur) v with
      | none => simp only []; exact ih'
      | some j =>
        simp only [List.map_cons]
        obtain ⟨hnn, hdec, _⟩ := h0.1 j hs
        rw [fromDictKV_cons S E c _ _ j _ idx f (namesOk_lookup cs _ hn idx f hf) hnn, hdec, ih']
        rfl

/-! ### the constructor on those arguments -/

theorem lookup_emitted2_lt (S : Schema) (E : Enums) (cs : KeyCase) (fs : List FieldD) (cur : List (Option Nat))
    (sl : List Val) (idx i : Nat) (h : i < idx) : lookupKw (emitted2 S E cs fs cur idx sl) i = Option.none := by
  induction sl generalizing idx with
  | nil => rw [emitted2]; rfl
  | cons v vs ih =>
    rw [emitted2]
    split
    · rfl
    · split
      · rw [lookupKw]
        have : (idx == i) = false := by simp; omega
        simp only [this, Bool.false_eq_true, if_false]
        exact ih (idx + 1) (by omega)
      · exact ih (idx + 1) (by omega)

theorem initSlots_congr (fs : List FieldD) (kw kw' : List (Nat × Val)) (rest : List FieldD) (j : Nat)
    (h : ∀ i, j ≤ i → lookupKw kw i = lookupKw kw' i) : initSlots fs kw j rest = initSlots fs kw' j rest := by
  induction rest generalizing j with
  | nil => rfl
  | cons f rest ih =>
    rw [initSlots, initSlots, h j (Nat.le_refl _), ih (j + 1) (fun i hi => h i (by omega))]

/-- the dataclass `__init__` on the written fields gives exactly `jrtSlots` -/
theorem initSlots_emitted2 (S : Schema) (E : Enums) (cs : KeyCase) (fs : List FieldD) (cur : List (Option Nat))
    (sl : List Val) (idx : Nat) (rest : List FieldD) (hrest : rest = fs.drop idx) (hl : sl.length = rest.length) :
    initSlots fs (emitted2 S E cs fs cur idx sl) idx rest = jrtSlots S E cs fs cur idx sl := by
  induction sl generalizing idx rest with
  | nil =>
    cases rest with
    | nil => rw [jrtSlots]; rfl
    | cons _ _ => simp at hl
  | cons v vs ih =>
    cases rest with
    | nil => simp at hl
    | cons f rest =>
      have hf : fs[idx]? = some f := by
        have : (fs.drop idx)[0]? = some f := by rw [← hrest]; rfl
        simpa using this
      have hrest' : rest = fs.drop (idx + 1) := by
        have : (fs.drop idx).tail = rest := by rw [← hrest]; rfl
        rw [← this]; simp [List.tail_drop]
      have ih' := ih (idx + 1) rest hrest' (by simpa using hl)
      rw [initSlots, jrtSlots, emitted2]
      simp only [hf]
      cases hs : toDictSlot S E cs false f (hidden f idx cur) (selectedInGroup f idx cur) v with
      | none =>
        simp only []
        rw [lookup_emitted2_lt S E cs fs cur vs (idx + 1) idx (by omega), ih']
        rfl
      | some j =>
        simp only []
        have : lookupKw ((idx, jrt S E cs v) :: emitted2 S E cs fs cur (idx + 1) vs) idx = some (jrt S E cs v) := by
          rw [lookupKw]; simp
        rw [this]
        simp only []
        congr 1
        rw [← ih']
        apply initSlots_congr
        intro i hi
        rw [lookupKw]
        have : (idx == i) = false := by simp; omega
        simp only [this, Bool.false_eq_true, if_false]

theorem jrtSlots_length (S : Schema) (E : Enums) (cs : KeyCase) (fs : List FieldD) (cur : List (Option Nat))
    (sl : List Val) (idx : Nat) : (jrtSlots S E cs fs cur idx sl).length = sl.length := by
  induction sl generalizing idx with
  | nil => rw [jrtSlots]
  | cons v vs ih => rw [jrtSlots]; simp [ih]

/-- the slot the rebuilt message holds for field `idx + k` -/
def jrtSlot (S : Schema) (E : Enums) (cs : KeyCase) (f : FieldD) (hid sel : Bool) (v : Val) : Val :=
  match toDictSlot S E cs false f hid sel v with
  | Option.none => freshVal f
  | some _ => jrt S E cs v

theorem jrtSlots_get (S : Schema) (E : Enums) (cs : KeyCase) (fs : List FieldD) (cur : List (Option Nat))
    (sl : List Val) (idx k : Nat) (v : Val) (f : FieldD) (hv : sl[k]? = some v) (hf : fs[idx + k]? = some f) :
    (jrtSlots S E cs fs cur idx sl)[k]? =
      some (jrtSlot S E cs f (hidden f (idx + k) cur) (selectedInGroup f (idx + k) cur) v) := by
  induction sl generalizing idx k with
  | nil => simp at hv
  | cons a as ih =>
    rw [jrtSlots]
    cases k with
    | zero =>
      simp at hv; subst hv
      simp only [Nat.add_zero] at hf ⊢
      simp only [hf, List.getElem?_cons_zero, jrtSlot]
    | succ k =>
      have := ih (idx + 1) k (by simpa using hv) (by rw [← hf]; congr 1; omega)
      have e : idx + (k + 1) = idx + 1 + k := by omega
      rw [e]; simpa using this

/-! ### the re-derived oneof selection -/

theorem list_ext_getD' (xs ys : List (Option Nat)) (hl : xs.length = ys.length)
    (h : ∀ g, xs.getD g Option.none = ys.getD g Option.none) : xs = ys := by
  apply List.ext_getElem hl
  intro g h1 h2
  have := h g
  simpa [List.getD_eq_getElem?_getD, List.getElem?_eq_getElem h1, List.getElem?_eq_getElem h2] using this

/-- under the oneof invariant `__post_init__` re-derives exactly the stored selection
    (as `initCur_eq_cur` in BpProofs/CopyBytes.lean, which cannot be imported next to
    BpProofs/Json.lean: both define a `flatSlotOk`) -/
theorem initCur_recovers (fs : List FieldD) (n : Nat) (sl : List Val) (cur : List (Option Nat))
    (hw : WfGroups fs n)
    (hopt : ∀ f ∈ fs, f.group.isSome = true → f.optional = false)
    (hlen : cur.length = n)
    (h5 : ∀ g i, cur.getD g Option.none = some i → ∃ f, fs[i]? = some f ∧ f.group = some g)
    (h6 : ∀ i f g, fs[i]? = some f → f.group = some g → cur.getD g Option.none ≠ some i → sl.getD i .ph = Val.ph)
    (h7 : ∀ g i, cur.getD g Option.none = some i → sl.getD i .ph ≠ Val.ph) :
    initCur fs sl 0 (List.replicate n Option.none) = cur := by
  apply list_ext_getD' _ _ (by rw [initCur_length]; simp [hlen])
  intro g
  cases hc : cur.getD g Option.none with
  | none =>
    rw [initCur_untouched]
    · simp [List.getD_eq_getElem?_getD, List.getElem?_replicate]
      split <;> rfl
    · intro k f hf hg
      rw [h6 k f g hf hg (by rw [hc]; simp)]
      rfl
  | some i =>
    obtain ⟨f, hf, hg⟩ := h5 g i hc
    have hmem : f ∈ fs := List.mem_of_getElem? hf
    have hgn : g < n := hw f hmem g hg
    have ho : f.optional = false := hopt f hmem (by simp [hg])
    have hset : isSentinel f (sl.getD i .ph) = false := by
      have hne := h7 g i hc
      cases hv : sl.getD i .ph <;> first | rfl | (simp [isSentinel, ho]; done) | exact absurd hv hne
    have := initCur_last fs sl 0 (List.replicate n Option.none) g i f (by simp [hgn]) hf hg hset
      (by
        intro k' f' hk hf' hg'
        rw [h6 k' f' g hf' hg' (by rw [hc]; intro e; injection e with e; omega)]
        rfl)
    rw [this]; simp

theorem curPoints_spec (fs : List FieldD) (cur : List (Option Nat)) (h : curPoints fs cur = true) (g i : Nat)
    (hc : cur.getD g Option.none = some i) : ∃ f, fs[i]? = some f ∧ f.group = some g := by
  unfold curPoints at h
  rw [List.all_eq_true] at h
  have hg : g < cur.length := by
    by_contra hn
    rw [List.getD_eq_getElem?_getD, List.getElem?_eq_none (by omega)] at hc
    simp at hc
  have := h g (by simp [hg])
  rw [hc] at this
  simp only at this
  cases hf : fs[i]? with
  | none => rw [hf] at this; simp at this
  | some f =>
    rw [hf] at this
    exact ⟨f, rfl, by simpa using this⟩

theorem hidden_of_unselected (f : FieldD) (i g : Nat) (cur : List (Option Nat)) (hg : f.group = some g)
    (h : cur.getD g Option.none ≠ some i) : hidden f i cur = true := by
  unfold hidden; simp only [hg]; simpa using h

theorem selected_of_cur (f : FieldD) (i g : Nat) (cur : List (Option Nat)) (hg : f.group = some g)
    (h : cur.getD g Option.none = some i) : selectedInGroup f i cur = true := by
  unfold selectedInGroup; simp only [hg]; simpa using h

theorem initCur_jrtSlots (S : Schema) (E : Enums) (cs : KeyCase) (fs : List FieldD) (n : Nat) (sl : List Val)
    (cur : List (Option Nat)) (hw : WfGroups fs n)
    (hopt : ∀ f ∈ fs, f.group.isSome = true → f.optional = false)
    (hlen : cur.length = n) (hsl : sl.length = fs.length) (hcp : curPoints fs cur = true)
    (hrt : ∀ k v f, sl[k]? = some v → fs[k]? = some f →
      SlotRT2 S E cs f (hidden f k cur) (selectedInGroup f k cur) v) :
    initCur fs (jrtSlots S E cs fs cur 0 sl) 0 (List.replicate n Option.none) = cur := by
  have hget : ∀ i f, fs[i]? = some f → ∃ v, sl[i]? = some v ∧
      (jrtSlots S E cs fs cur 0 sl).getD i .ph = jrtSlot S E cs f (hidden f i cur) (selectedInGroup f i cur) v := by
    intro i f hf
    have hi : i < sl.length := by
      rw [hsl]
      by_contra hc
      rw [List.getElem?_eq_none (by omega)] at hf; simp at hf
    refine ⟨sl[i], List.getElem?_eq_getElem hi, ?_⟩
    have := jrtSlots_get S E cs fs cur sl 0 i sl[i] f (List.getElem?_eq_getElem hi) (by simpa using hf)
    rw [List.getD_eq_getElem?_getD, this]
    simp
  apply initCur_recovers fs n _ cur hw hopt hlen (curPoints_spec fs cur hcp)
  · intro i f g hf hg hc
    obtain ⟨v, hv, he⟩ := hget i f hf
    rw [he]
    have hh := hidden_of_unselected f i g cur hg hc
    have hr := hrt i v f hv hf
    unfold jrtSlot
    cases hs : toDictSlot S E cs false f (hidden f i cur) (selectedInGroup f i cur) v with
    | none =>
      simp only [freshVal, hopt f (List.mem_of_getElem? hf) (by simp [hg])]
      rfl
    | some j =>
      have := (hr.1 j hs).2.2.2.2.2
      rw [hh] at this; simp at this
  · intro g i hc
    obtain ⟨f, hf, hg⟩ := curPoints_spec fs cur hcp g i hc
    obtain ⟨v, hv, he⟩ := hget i f hf
    rw [he]
    have hsel := selected_of_cur f i g cur hg hc
    have hr := hrt i v f hv hf
    unfold jrtSlot
    cases hs : toDictSlot S E cs false f (hidden f i cur) (selectedInGroup f i cur) v with
    | none =>
      have := (hr.2 hs).1
      rw [hsel] at this; simp at this
    | some j =>
      simp only
      have := (hr.1 j hs).2.2.2.2.1
      intro e; rw [e] at this; simp [isSentinel] at this

/-! ### the rebuilt slots are related to the original ones -/

theorem dAtom_freshVal (f : FieldD) : dAtom (freshVal f) = true := by
  unfold freshVal; split <;> rfl

theorem keptSlot_freshVal (S : Schema) (f : FieldD) (sel : Bool) : keptSlot S f sel (freshVal f) = true := by
  unfold freshVal; split <;> rfl

theorem slotsDEqv_jrt (S : Schema) (E : Enums) (cs : KeyCase) (fs : List FieldD) (cur : List (Option Nat))
    (sl : List Val) (idx : Nat) (hfs : idx + sl.length ≤ fs.length)
    (hrt : ∀ k v f, sl[k]? = some v → fs[idx + k]? = some f →
      SlotRT2 S E cs f (hidden f (idx + k) cur) (selectedInGroup f (idx + k) cur) v) :
    SlotsDEqv S fs cur idx sl (jrtSlots S E cs fs cur idx sl) := by
  induction sl generalizing idx with
  | nil => rw [jrtSlots]; exact SlotsDEqv.nil fs cur idx
  | cons v vs ih =>
    have hk : idx < fs.length := by simp at hfs; omega
    have hf : fs[idx]? = some fs[idx] := List.getElem?_eq_getElem hk
    have ih' := ih (idx + 1) (by simp at hfs; omega) (by
      intro k v' f' hv hf'
      have := hrt (k + 1) v' f' (by simpa using hv) (by rw [← hf']; congr 1; omega)
      have e : idx + (k + 1) = idx + 1 + k := by omega
      rw [e] at this; exact this)
    have h0 := hrt 0 v fs[idx] (by simp) (by simp)
    simp only [Nat.add_zero] at h0
    rw [jrtSlots]
    simp only [hf]
    cases hs : toDictSlot S E cs false fs[idx] (hidden fs[idx] idx cur) (selectedInGroup fs[idx] idx cur) v with
    | some j =>
      obtain ⟨_, _, hd, hp, _, _⟩ := h0.1 j hs
      exact SlotsDEqv.same fs cur idx fs[idx] v _ vs _ hf hd hp ih'
    | none =>
      obtain ⟨hsel, hc⟩ := h0.2 hs
      simp only
      rcases hc with hc | ⟨ho, hd, hw⟩
      · rw [← hc]
        refine SlotsDEqv.same fs cur idx fs[idx] v v vs _ hf (DEqv.atom v (by rw [hc]; exact dAtom_freshVal _)) ?_ ih'
        rw [hc]; exact keptSlot_freshVal _ _ _
      · have : freshVal fs[idx] = Val.ph := by simp [freshVal, ho]
        rw [this]
        exact SlotsDEqv.unset fs cur idx fs[idx] v vs _ hf ho hsel hd hw ih'

/-! ### what the schema guards give -/

theorem fieldsOf_mem (S : Schema) (c : Nat) (f : FieldD) (hf : f ∈ fieldsOf S c) :
    ∃ d, d ∈ S ∧ S[c]? = some d ∧ f ∈ d.fields := by
  unfold fieldsOf at hf
  cases hd : S[c]? with
  | none => rw [hd] at hf; simp at hf
  | some d => rw [hd] at hf; exact ⟨d, List.mem_of_getElem? hd, rfl, hf⟩

theorem schema_field (S : Schema) (E : Enums) (cs : KeyCase) (hS : SchemaOk S E cs) (c : Nat) (f : FieldD)
    (hf : f ∈ fieldsOf S c) : fieldJsonOk f = true := by
  obtain ⟨d, hd, _, hfd⟩ := fieldsOf_mem S c f hf
  have := hS.1
  unfold jsonOk at this
  simp only [Bool.and_eq_true, List.all_eq_true] at this
  exact (this.1 d hd).1 f hfd

theorem schema_names (S : Schema) (E : Enums) (cs : KeyCase) (hS : SchemaOk S E cs) (c : Nat) :
    namesOk cs (fieldsOf S c) = true := by
  unfold fieldsOf
  cases hd : S[c]? with
  | none => rfl
  | some d =>
    have := hS.1
    unfold jsonOk at this
    simp only [Bool.and_eq_true, List.all_eq_true] at this
    exact (this.1 d (List.mem_of_getElem? hd)).2

theorem schema_groups (S : Schema) (E : Enums) (cs : KeyCase) (hS : SchemaOk S E cs) (c : Nat) :
    WfGroups (fieldsOf S c) (groupsOf S c) := by
  intro f hf g hg
  obtain ⟨d, hd, hc, hfd⟩ := fieldsOf_mem S c f hf
  have := hS.2
  unfold groupsOk at this
  simp only [List.all_eq_true] at this
  have := this d hd f hfd
  rw [hg] at this
  simp only [decide_eq_true_eq] at this
  simpa [groupsOf, hc] using this

theorem schema_enum (S : Schema) (E : Enums) (cs : KeyCase) (hS : SchemaOk S E cs) (f : FieldD) :
    enumOk (enumOf E f) = true := by
  unfold enumOf
  have := hS.1
  unfold jsonOk at this
  simp only [Bool.and_eq_true, List.all_eq_true] at this
  rw [List.getD_eq_getElem?_getD]
  cases he : E[f.enumRef.getD 0]? with
  | none => rfl
  | some e => exact this.2 e (List.mem_of_getElem? he)

theorem fieldJsonOk_group_nonopt (f : FieldD) (h : fieldJsonOk f = true) (hg : f.group.isSome = true) :
    f.optional = false := by
  unfold fieldJsonOk at h
  simp only [Bool.and_eq_true, Bool.not_eq_true', Bool.and_eq_false_iff] at h
  rcases h.1.2 with h | h
  · exact h
  · rw [hg] at h; simp at h

/-! ### a whole message from its slots -/

/-- a rebuilt value is already marked present: the marking `__setattr__` applies to field-less
    constructor arguments changes nothing -/
theorem markEmpty_jrt (S : Schema) (E : Enums) (cs : KeyCase) (v : Val) :
    markEmpty S (jrt S E cs v) = jrt S E cs v := by
  cases v <;> rw [jrt] <;> simp [markEmpty]

theorem emitted2_marked (S : Schema) (E : Enums) (cs : KeyCase) (fs : List FieldD) (cur : List (Option Nat)) :
    ∀ (sl : List Val) (idx : Nat),
      (emitted2 S E cs fs cur idx sl).map (fun (p : Nat × Val) => (p.1, markEmpty S p.2)) = emitted2 S E cs fs cur idx sl := by
  intro sl
  induction sl with
  | nil => intro idx; simp [emitted2]
  | cons v vs ih =>
    intro idx
    rw [emitted2]
    cases hf : fs[idx]? with
    | none => simp
    | some f =>
      simp only
      cases toDictSlot S E cs false f (hidden f idx cur) (selectedInGroup f idx cur) v with
      | none => simpa using ih (idx + 1)
      | some j => simp [markEmpty_jrt, ih (idx + 1)]

theorem msg_assemble (S : Schema) (E : Enums) (cs : KeyCase) (hS : SchemaOk S E cs) (c : Nat) (sl : List Val)
    (cur : List (Option Nat)) (hlen : sl.length = (fieldsOf S c).length) (hcl : cur.length = groupsOf S c)
    (hcp : curPoints (fieldsOf S c) cur = true)
    (hrt : ∀ k v f, sl[k]? = some v → (fieldsOf S c)[k]? = some f →
      SlotRT2 S E cs f (hidden f k cur) (selectedInGroup f k cur) v) :
    fromDictKV S E c ((toDictKVs S E cs false (fieldsOf S c) cur 0 sl).map (·.1))
        ((toDictKVs S E cs false (fieldsOf S c) cur 0 sl).map (·.2))
      = .ok (emitted2 S E cs (fieldsOf S c) cur 0 sl)
    ∧ fromDictCls S c (emitted2 S E cs (fieldsOf S c) cur 0 sl)
      = .msg c (jrtSlots S E cs (fieldsOf S c) cur 0 sl) true [] cur
    ∧ SlotsDEqv S (fieldsOf S c) cur 0 sl (jrtSlots S E cs (fieldsOf S c) cur 0 sl) := by
  have hrt0 : ∀ k v f, sl[k]? = some v → (fieldsOf S c)[0 + k]? = some f →
      SlotRT2 S E cs f (hidden f (0 + k) cur) (selectedInGroup f (0 + k) cur) v := by
    intro k v f hv hf
    simp only [Nat.zero_add] at hf ⊢
    exact hrt k v f hv hf
  refine ⟨kv_roundtrip2 S E cs c cur (schema_names S E cs hS c) sl 0 hrt0, ?_,
    slotsDEqv_jrt S E cs _ cur sl 0 (by omega) hrt0⟩
  unfold fromDictCls construct
  simp only
  rw [emitted2_marked S E cs (fieldsOf S c) cur sl 0]
  rw [initSlots_emitted2 S E cs (fieldsOf S c) cur sl 0 (fieldsOf S c) (by simp) hlen,
    initCur_jrtSlots S E cs (fieldsOf S c) (groupsOf S c) sl cur (schema_groups S E cs hS c)
      (fun f hf hg => fieldJsonOk_group_nonopt f (schema_field S E cs hS c f hf) hg) hcl hlen hcp hrt]

end Bp
