import BpProofs.JsonRtMain
/-
  C04, instance form: `Cls().from_dict(d)` — `_serialized_on_wire = True`, then one `setattr`
  per written key — ends in the same state as the class form `Cls.from_dict(d)` when `d` is
  `m.to_dict()` of a message in the guarded domain (`fromDictI_fresh`).
-/
namespace Bp
open Gen

/-- the state of the instance after the `setattr`s for the fields below `idx` -/
structure InstInv (S : Schema) (E : Enums) (cs : KeyCase) (fs : List FieldD) (n : Nat) (sl : List Val)
    (cur : List (Option Nat)) (idx : Nat) (st : MState) : Prop where
  len : st.slots.length = fs.length
  lo : ∀ i v f, i < idx → sl[i]? = some v → fs[i]? = some f →
    st.slots.getD i .ph = jrtSlot S E cs f (hidden f i cur) (selectedInGroup f i cur) v
  hi : ∀ i f, idx ≤ i → fs[i]? = some f → st.slots.getD i .ph = freshVal f
  curlen : st.cur.length = n
  curv : ∀ g, st.cur.getD g Option.none =
    (match cur.getD g Option.none with
     | some j => if j < idx then some j else Option.none
     | Option.none => Option.none)
  ow : st.onWire = true
  unk : st.unknown = []

theorem setAt_length (xs : List Val) (i : Nat) (v : Val) : (setAt xs i v).length = xs.length := by
  unfold setAt; simp

theorem instInv_step (S : Schema) (E : Enums) (cs : KeyCase) (fs : List FieldD) (n : Nat) (sl : List Val)
    (cur : List (Option Nat)) (hw : WfGroups fs n)
    (hopt : ∀ f ∈ fs, f.group.isSome = true → f.optional = false)
    (hsl : sl.length = fs.length) (hcp : curPoints fs cur = true)
    (hrt : ∀ k v f, sl[k]? = some v → fs[k]? = some f →
      SlotRT2 S E cs f (hidden f k cur) (selectedInGroup f k cur) v) :
    ∀ (vs : List Val) (idx : Nat) (st : MState), InstInv S E cs fs n sl cur idx st →
      (∀ k v, vs[k]? = some v → sl[idx + k]? = some v) → idx + vs.length = fs.length →
      InstInv S E cs fs n sl cur fs.length (applyKw S fs st (emitted2 S E cs fs cur idx vs)) := by
  intro vs
  induction vs with
  | nil =>
    intro idx st hinv _ hlen
    rw [emitted2, applyKw]
    simp at hlen
    rw [← hlen]; exact hinv
  | cons v vs ih =>
    intro idx st hinv hvs hlen
    have hidx : idx < fs.length := by simp at hlen; omega
    have hf : fs[idx]? = some fs[idx] := List.getElem?_eq_getElem hidx
    have hv : sl[idx]? = some v := by simpa using hvs 0 v (by simp)
    have hr := hrt idx v fs[idx] hv hf
    have hvs' : ∀ k v', vs[k]? = some v' → sl[idx + 1 + k]? = some v' := by
      intro k v' hk
      have := hvs (k + 1) v' (by simpa using hk)
      have e : idx + (k + 1) = idx + 1 + k := by omega
      rw [← e]; exact this
    have hlen' : idx + 1 + vs.length = fs.length := by simp at hlen; omega
    rw [emitted2]
    simp only [hf]
    -- a group's selection never names field `idx` unless the field is in that group and selected
    have hselg : ∀ g, cur.getD g Option.none = some idx → fs[idx].group = some g := by
      intro g hc
      obtain ⟨f', hf', hg'⟩ := curPoints_spec fs cur hcp g idx hc
      rw [hf] at hf'; injection hf' with hf'; rw [hf']; exact hg'
    cases hs : toDictSlot S E cs false fs[idx] (hidden fs[idx] idx cur) (selectedInGroup fs[idx] idx cur) v with
    | none =>
      simp only
      obtain ⟨hsel, _⟩ := hr.2 hs
      apply ih (idx + 1) st _ hvs' hlen'
      refine ⟨hinv.len, ?_, fun i f hi hfi => hinv.hi i f (by omega) hfi, hinv.curlen, ?_, hinv.ow, hinv.unk⟩
      · intro i v' f hi hv' hfi
        by_cases hlt : i < idx
        · exact hinv.lo i v' f hlt hv' hfi
        · have e : i = idx := by omega
          subst e
          rw [hv] at hv'; injection hv' with hv'; subst hv'
          rw [hf] at hfi; injection hfi with hfi; subst hfi
          rw [hinv.hi i _ (Nat.le_refl _) hf]
          unfold jrtSlot; rw [hs]
      · intro g
        rw [hinv.curv g]
        cases hc : cur.getD g Option.none with
        | none => rfl
        | some j =>
          simp only
          have hne : j ≠ idx := by
            intro e; subst e
            have := selected_of_cur _ j g cur (hselg g hc) hc
            rw [this] at hsel; cases hsel
          by_cases hlt : j < idx
          · simp [hlt, Nat.lt_succ_of_lt hlt]
          · have : ¬ j < idx + 1 := by omega
            simp [hlt, this]
    | some j =>
      simp only
      rw [applyKw]
      obtain ⟨_, _, _, _, hsent, hhid⟩ := hr.1 j hs
      apply ih (idx + 1) _ _ hvs' hlen'
      have hjs : jrtSlot S E cs fs[idx] (hidden fs[idx] idx cur) (selectedInGroup fs[idx] idx cur) v = jrt S E cs v := by
        unfold jrtSlot; rw [hs]
      unfold setAttr
      simp only [markEmpty_jrt, hf]
      cases hg : fs[idx].group with
      | none =>
        simp only
        refine ⟨by rw [setAt_length]; exact hinv.len, ?_, ?_, hinv.curlen, ?_, rfl, hinv.unk⟩
        · intro i v' f hi hv' hfi
          by_cases hlt : i < idx
          · rw [getD_setAt_ne _ _ _ _ (by omega)]; exact hinv.lo i v' f hlt hv' hfi
          · have e : i = idx := by omega
            subst e
            rw [hv] at hv'; injection hv' with hv'; subst hv'
            rw [hf] at hfi; injection hfi with hfi; subst hfi
            rw [getD_setAt_self _ _ _ (by rw [hinv.len]; exact hidx), hjs]
        · intro i f hi hfi
          rw [getD_setAt_ne _ _ _ _ (by omega)]; exact hinv.hi i f (by omega) hfi
        · intro g
          rw [hinv.curv g]
          cases hc : cur.getD g Option.none with
          | none => rfl
          | some j' =>
            simp only
            have hne : j' ≠ idx := by
              intro e; subst e
              have := hselg g hc
              rw [hg] at this; cases this
            by_cases hlt : j' < idx
            · simp [hlt, Nat.lt_succ_of_lt hlt]
            · have : ¬ j' < idx + 1 := by omega
              simp [hlt, this]
      | some g =>
        simp only
        have hcg : cur.getD g Option.none = some idx := by
          have := hhid
          unfold hidden at this
          rw [hg] at this
          simpa using this
        have hgn : g < n := hw fs[idx] (List.mem_of_getElem? hf) g hg
        have hreset : resetGroup g idx fs st.slots 0 = st.slots := by
          apply resetGroup_id
          intro i fi s hfi hsi hgi hne
          have hne' : i ≠ idx := by omega
          have hs' : st.slots.getD i .ph = s := by rw [List.getD_eq_getElem?_getD, hsi]; rfl
          have hoi : fi.optional = false := hopt fi (List.mem_of_getElem? hfi) (by simp [hgi])
          have hph : freshVal fi = Val.ph := by simp [freshVal, hoi]
          rw [← hs']
          by_cases hlt : i < idx
          · have hil : i < sl.length := by omega
            have hvi : sl[i]? = some sl[i] := List.getElem?_eq_getElem hil
            rw [hinv.lo i sl[i] fi hlt hvi hfi]
            have hhi : hidden fi i cur = true := hidden_of_unselected fi i g cur hgi (by
              rw [hcg]; intro e; injection e with e; exact hne' e.symm)
            have hri := hrt i sl[i] fi hvi hfi
            unfold jrtSlot
            cases hsi' : toDictSlot S E cs false fi (hidden fi i cur) (selectedInGroup fi i cur) sl[i] with
            | none => simp only; exact hph
            | some j' =>
              have := (hri.1 j' hsi').2.2.2.2.2
              rw [hhi] at this; cases this
          · rw [hinv.hi i fi (by omega) hfi]; exact hph
        rw [hreset]
        refine ⟨by rw [setAt_length]; exact hinv.len, ?_, ?_, by simp [hinv.curlen], ?_, rfl, hinv.unk⟩
        · intro i v' f hi hv' hfi
          by_cases hlt : i < idx
          · rw [getD_setAt_ne _ _ _ _ (by omega)]; exact hinv.lo i v' f hlt hv' hfi
          · have e : i = idx := by omega
            subst e
            rw [hv] at hv'; injection hv' with hv'; subst hv'
            rw [hf] at hfi; injection hfi with hfi; subst hfi
            rw [getD_setAt_self _ _ _ (by rw [hinv.len]; exact hidx), hjs]
        · intro i f hi hfi
          rw [getD_setAt_ne _ _ _ _ (by omega)]; exact hinv.hi i f (by omega) hfi
        · intro g'
          rw [getD_set_cur]
          by_cases e : g = g'
          · subst e
            rw [hcg]
            simp [hinv.curlen, hgn]
          · have : ¬ (g = g' ∧ g < st.cur.length) := fun h => e h.1
            simp only [this, if_false]
            rw [hinv.curv g']
            cases hc : cur.getD g' Option.none with
            | none => rfl
            | some j' =>
              simp only
              have hne : j' ≠ idx := by
                intro e'; subst e'
                have := hselg g' hc
                rw [hg] at this; injection this with this; exact e this
              by_cases hlt : j' < idx
              · simp [hlt, Nat.lt_succ_of_lt hlt]
              · have : ¬ j' < idx + 1 := by omega
                simp [hlt, this]

theorem instInv_fresh (S : Schema) (E : Enums) (cs : KeyCase) (fs : List FieldD) (n : Nat) (sl : List Val)
    (cur : List (Option Nat)) :
    InstInv S E cs fs n sl cur 0
      { slots := fs.map fun f => if f.optional then Val.none else Val.ph, onWire := true, unknown := [],
        cur := List.replicate n Option.none } := by
  refine ⟨by simp, fun i v f hi => absurd hi (by omega), ?_, by simp, ?_, rfl, rfl⟩
  · intro i f _ hf
    simp only [List.getD_eq_getElem?_getD, List.getElem?_map, hf, Option.map_some, Option.getD_some, freshVal]
  · intro g
    have : (List.replicate n (Option.none : Option Nat)).getD g Option.none = Option.none := by
      simp only [List.getD_eq_getElem?_getD, List.getElem?_replicate]
      split <;> rfl
    rw [this]
    split
    · simp
    · rfl

theorem instInv_final (S : Schema) (E : Enums) (cs : KeyCase) (fs : List FieldD) (n : Nat) (sl : List Val)
    (cur : List (Option Nat)) (st : MState) (hsl : sl.length = fs.length) (hcl : cur.length = n)
    (hcp : curPoints fs cur = true) (h : InstInv S E cs fs n sl cur fs.length st) :
    st.slots = jrtSlots S E cs fs cur 0 sl ∧ st.cur = cur ∧ st.onWire = true ∧ st.unknown = [] := by
  refine ⟨?_, ?_, h.ow, h.unk⟩
  · apply List.ext_getElem (by rw [h.len, jrtSlots_length, hsl])
    intro i h1 h2
    have hi : i < fs.length := by rw [← h.len]; exact h1
    have hil : i < sl.length := by omega
    have hf : fs[i]? = some fs[i] := List.getElem?_eq_getElem hi
    have hv : sl[i]? = some sl[i] := List.getElem?_eq_getElem hil
    have a := h.lo i sl[i] fs[i] hi hv hf
    have b := jrtSlots_get S E cs fs cur sl 0 i sl[i] fs[i] hv (by simp)
    simp only [Nat.zero_add] at b
    rw [List.getD_eq_getElem?_getD, List.getElem?_eq_getElem h1] at a
    rw [List.getElem?_eq_getElem h2] at b
    injection b with b
    rw [b]; simpa using a
  · apply list_ext_getD' _ _ (by rw [h.curlen, hcl])
    intro g
    rw [h.curv g]
    cases hc : cur.getD g Option.none with
    | none => rfl
    | some j =>
      obtain ⟨f, hf, _⟩ := curPoints_spec fs cur hcp g j hc
      have : j < fs.length := by
        by_contra hn
        rw [List.getElem?_eq_none (by omega)] at hf; cases hf
      simp [this]

/-- **instance form on a fresh instance**: `Cls().from_dict(m.to_dict(casing))` ends in the
    same message as the class form -/
theorem roundtrip_instance (S : Schema) (E : Enums) (cs : KeyCase) (hS : SchemaOk S E cs) (c : Nat) (sl : List Val)
    (ow : Bool) (unk : Bytes) (cur : List (Option Nat))
    (hwt : wellTyped' S (.msg c sl ow unk cur) = true) (hsel : selOk S (.msg c sl ow unk cur) = true) :
    fromDictI S E (fresh S c) (toDict S E cs false (.msg c sl ow unk cur))
      = .ok (jrt S E cs (.msg c sl ow unk cur)) := by
  obtain ⟨hunk, a1, _, _⟩ := msgRT_of_wellTyped S E cs hS c sl ow unk cur hwt hsel
  subst hunk
  have hwt' := hwt
  rw [wellTyped_msg] at hwt'
  obtain ⟨_, hlen, hcl, hsl⟩ := bodyOk_spec S c sl [] cur hwt'
  rw [selOk_msg] at hsel
  simp only [Bool.and_eq_true] at hsel
  have hrt : ∀ k v f, sl[k]? = some v → (fieldsOf S c)[k]? = some f →
      SlotRT2 S E cs f (hidden f k cur) (selectedInGroup f k cur) v := by
    intro k v f hv hf
    have := rt_slots S E cs hS (fieldsOf S c) cur (fun f hf => schema_field S E cs hS c f hf) sl 0 hsl hsel.2
      k v f hv (by simpa using hf)
    simpa using this
  have hfin := instInv_step S E cs (fieldsOf S c) (groupsOf S c) sl cur (schema_groups S E cs hS c)
    (fun f hf hg => fieldJsonOk_group_nonopt f (schema_field S E cs hS c f hf) hg) hlen hsel.1 hrt
    sl 0 _ (instInv_fresh S E cs (fieldsOf S c) (groupsOf S c) sl cur)
    (fun k v hk => by simpa using hk) (by simpa using hlen)
  obtain ⟨e1, e2, e3, e4⟩ := instInv_final S E cs (fieldsOf S c) (groupsOf S c) sl cur _ hlen hcl hsel.1 hfin
  rw [toDict]
  simp only [mkObj, fromDictI, fresh, stateOf, fromDictInit, a1, bind_ok, MState.toVal, jrt_msg]
  rw [e1, e2, e3, e4]

end Bp

#print axioms Bp.roundtrip_instance
