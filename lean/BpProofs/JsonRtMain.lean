import BpProofs.JsonRtSlot
/-
  C04, the induction over nested messages and the round-trip theorems.

  `rt_slots` / `rt_slot` / `rt_msgs` go by structural recursion over `List Val` / `Val`:
  a message is handled through its slots (`msg_assemble`, BpProofs/JsonRt.lean), a slot through
  its value kind (BpProofs/JsonRtSlot.lean), repeated messages and map message values item by item.
-/
namespace Bp
open Gen

theorem selOk_msg (S : Schema) (c : Nat) (sl : List Val) (ow : Bool) (unk : Bytes) (cur : List (Option Nat)) :
    selOk S (.msg c sl ow unk cur) = (curPoints (fieldsOf S c) cur && selOkList S sl) := by rw [selOk]
theorem selOk_list (S : Schema) (xs : List Val) : selOk S (.list xs) = selOkList S xs := by rw [selOk]
theorem selOk_dict (S : Schema) (ks vs : List Val) : selOk S (.dict ks vs) = selOkList S vs := by rw [selOk]

/-- the three facts about one message the induction carries -/
def MsgRT (S : Schema) (E : Enums) (cs : KeyCase) (c : Nat) (sl : List Val) (cur : List (Option Nat)) : Prop :=
  fromDictKV S E c ((toDictKVs S E cs false (fieldsOf S c) cur 0 sl).map (·.1))
      ((toDictKVs S E cs false (fieldsOf S c) cur 0 sl).map (·.2))
    = .ok (emitted2 S E cs (fieldsOf S c) cur 0 sl)
  ∧ fromDictCls S c (emitted2 S E cs (fieldsOf S c) cur 0 sl)
    = .msg c (jrtSlots S E cs (fieldsOf S c) cur 0 sl) true [] cur
  ∧ SlotsDEqv S (fieldsOf S c) cur 0 sl (jrtSlots S E cs (fieldsOf S c) cur 0 sl)

theorem msgRT_of_slots (S : Schema) (E : Enums) (cs : KeyCase) (hS : SchemaOk S E cs) (c : Nat) (sl : List Val)
    (unk : Bytes) (cur : List (Option Nat)) (hbody : bodyOk S c sl unk cur = true)
    (hcp : curPoints (fieldsOf S c) cur = true)
    (hrt : ∀ k v f, sl[k]? = some v → (fieldsOf S c)[0 + k]? = some f →
      SlotRT2 S E cs f (hidden f (0 + k) cur) (selectedInGroup f (0 + k) cur) v) :
    MsgRT S E cs c sl cur := by
  obtain ⟨_, hlen, hcl, _⟩ := bodyOk_spec S c sl unk cur hbody
  exact msg_assemble S E cs hS c sl cur hlen hcl hcp (fun k v f hv hf => by
    have := hrt k v f hv (by simpa using hf)
    simpa using this)

mutual
theorem rt_slots (S : Schema) (E : Enums) (cs : KeyCase) (hS : SchemaOk S E cs) (fs : List FieldD)
    (cur : List (Option Nat)) (hfs : ∀ f ∈ fs, fieldJsonOk f = true) :
    ∀ (vs : List Val) (idx : Nat), slotsOk' S fs cur idx vs = true → selOkList S vs = true →
      ∀ k v f, vs[k]? = some v → fs[idx + k]? = some f →
        SlotRT2 S E cs f (hidden f (idx + k) cur) (selectedInGroup f (idx + k) cur) v
  | [], _, _, _ => by intro k v f hv; simp at hv
  | a :: as, idx, h, hs => by
    rw [slotsOk'] at h
    rw [selOkList] at hs
    simp only [Bool.and_eq_true] at h hs
    intro k v f hv hf
    cases k with
    | zero =>
      simp only [List.getElem?_cons_zero, Option.some.injEq] at hv
      simp only [Nat.add_zero] at hf ⊢
      rw [hf] at h
      rw [← hv]
      exact rt_slot S E cs hS f _ _ (fj_of f (hfs f (List.mem_of_getElem? hf))) (hs_slot f idx cur) a h.1 hs.1
    | succ k =>
      have := rt_slots S E cs hS fs cur hfs as (idx + 1) h.2 hs.2 k v f (by simpa using hv)
        (by rw [← hf]; congr 1; omega)
      have e : idx + (k + 1) = idx + 1 + k := by omega
      rw [e]; exact this
termination_by structural vs => vs

theorem rt_slot (S : Schema) (E : Enums) (cs : KeyCase) (hS : SchemaOk S E cs) (f : FieldD) (hid sel : Bool)
    (hj : FJ f) (hs : HS f hid sel) :
    ∀ (v : Val), slotOk' S f hid sel v = true → selOk S v = true → SlotRT2 S E cs f hid sel v
  | .ph, h, _ => rt_ph S E cs f hid sel hj h
  | .none, h, _ => rt_none S E cs f hid sel hs h
  | .int i, h, _ => rt_leaf S E cs f hid sel (.int i) hj (schema_enum S E cs hS f) rfl (by intro e; cases e) h
  | .bool b, h, _ => rt_leaf S E cs f hid sel (.bool b) hj (schema_enum S E cs hS f) rfl (by intro e; cases e) h
  | .f32 b, h, _ => rt_leaf S E cs f hid sel (.f32 b) hj (schema_enum S E cs hS f) rfl (by intro e; cases e) h
  | .f64 b, h, _ => rt_leaf S E cs f hid sel (.f64 b) hj (schema_enum S E cs hS f) rfl (by intro e; cases e) h
  | .str s, h, _ => rt_leaf S E cs f hid sel (.str s) hj (schema_enum S E cs hS f) rfl (by intro e; cases e) h
  | .byt s, h, _ => rt_leaf S E cs f hid sel (.byt s) hj (schema_enum S E cs hS f) rfl (by intro e; cases e) h
  | .ts us, h, _ => rt_leaf S E cs f hid sel (.ts us) hj (schema_enum S E cs hS f) rfl (by intro e; cases e) h
  | .dur us, h, _ => rt_leaf S E cs f hid sel (.dur us) hj (schema_enum S E cs hS f) rfl (by intro e; cases e) h
  | .list xs, h, hsel => by
    by_cases hu : (f.ty == PType.message) = true ∧ f.wraps = Option.none ∧ ∃ c, f.kind = .user c
    · obtain ⟨hm, hw, c, hk⟩ := hu
      obtain ⟨_, _, _, _, _, _, hit⟩ := list_common S f hid sel xs hj hs h
      rw [selOk_list] at hsel
      obtain ⟨h1, _, h3⟩ := rt_msgs S E cs hS c xs (itemsOk_user S f c xs hm hw hk hit) hsel
      exact rt_list_user S E cs f hid sel xs c hj hs hm hk h h1 h3
    · exact rt_list_flat S E cs f hid sel xs hj hs (schema_enum S E cs hS f) hu h
  | .dict ks vs, h, hsel => by
    by_cases hv : (f.mapV == PType.message) = true
    · obtain ⟨_, _, hty, _, hvs⟩ := dict_common S f hid sel ks vs hj hs h
      obtain ⟨c, hk⟩ := hj.map_vk (by simp [hty]) hv
      rw [selOk_dict] at hsel
      obtain ⟨_, h2, h3⟩ := rt_msgs S E cs hS c vs (mapValsOk_user S f c vs hv hk hvs) hsel
      exact rt_dict_user S E cs f hid sel ks vs c hj hs hv hk h h2 h3
    · exact rt_dict_flat S E cs f hid sel ks vs hj hs (by simpa using hv) h
  | .msg c sl ow unk cur, h, hsel => by
    have hbody : bodyOk S c sl unk cur = true := by
      rw [slotOk_msg] at h
      simp only [Bool.and_eq_true] at h
      exact h.2
    rw [selOk_msg] at hsel
    simp only [Bool.and_eq_true] at hsel
    obtain ⟨_, _, _, hsl⟩ := bodyOk_spec S c sl unk cur hbody
    obtain ⟨a1, a2, a3⟩ := msgRT_of_slots S E cs hS c sl unk cur hbody hsel.1
      (rt_slots S E cs hS (fieldsOf S c) cur (fun f hf => schema_field S E cs hS c f hf) sl 0 hsl hsel.2)
    exact rt_msg_slot S E cs f hid sel c sl ow unk cur h a1 a2 a3
termination_by structural v => v

/-- a list of messages of class `c` (the items of a repeated field, the values of a map) -/
theorem rt_msgs (S : Schema) (E : Enums) (cs : KeyCase) (hS : SchemaOk S E cs) (c : Nat) :
    ∀ (xs : List Val), (∀ x ∈ xs, ∃ sl ow unk cur, x = Val.msg c sl ow unk cur ∧ bodyOk S c sl unk cur = true) →
      selOkList S xs = true →
      fromDictItems S E c (toDictList S E cs false xs) = .ok (jrtList S E cs xs)
      ∧ fromDictMapVals S E c (toDictMapVals S E cs false xs) = .ok (jrtList S E cs xs)
      ∧ ListDEqv S xs (jrtList S E cs xs)
  | [], _, _ => by
    rw [toDictList, toDictMapVals, jrtList, fromDictItems, fromDictMapVals]
    exact ⟨rfl, rfl, ListDEqv.nil⟩
  | .msg c' sl ow unk cur :: xs, h, hsel => by
    obtain ⟨sl0, ow0, unk0, cur0, e, hbody0⟩ := h _ (List.mem_cons_self)
    have ec : c' = c := by injection e
    have hbody : bodyOk S c' sl unk cur = true := by
      injection e with e1 e2 e3 e4 e5
      rw [e1, e2, e4, e5]; exact hbody0
    rw [selOkList, selOk_msg] at hsel
    simp only [Bool.and_eq_true] at hsel
    obtain ⟨hunk, _, _, hsl⟩ := bodyOk_spec S c' sl unk cur hbody
    obtain ⟨a1, a2, a3⟩ := msgRT_of_slots S E cs hS c' sl unk cur hbody hsel.1.1
      (rt_slots S E cs hS (fieldsOf S c') cur (fun f hf => schema_field S E cs hS c' f hf) sl 0 hsl hsel.1.2)
    obtain ⟨b1, b2, b3⟩ := rt_msgs S E cs hS c xs (fun x hx => h x (List.mem_cons_of_mem _ hx)) hsel.2
    subst hunk
    rw [toDictList, toDictMapVals, jrtList, jrt_msg]
    simp only [mkObj]
    rw [fromDictItems, fromDictMapVals]
    simp only [← ec, a1, a2, bind_ok]
    rw [← ec] at b1 b2
    rw [b1, b2]
    exact ⟨rfl, rfl, ListDEqv.consMsg c' sl _ ow [] cur xs _ a3 b3⟩
  | .ph :: _, h, _ | .none :: _, h, _ | .int _ :: _, h, _ | .bool _ :: _, h, _ | .f32 _ :: _, h, _
  | .f64 _ :: _, h, _ | .str _ :: _, h, _ | .byt _ :: _, h, _ | .ts _ :: _, h, _ | .dur _ :: _, h, _
  | .list _ :: _, h, _ | .dict _ _ :: _, h, _ => by
    obtain ⟨_, _, _, _, e, _⟩ := h _ (List.mem_cons_self)
    cases e
termination_by structural xs => xs
end

/-! ### the round-trip theorems -/

/-- one message, all three facts -/
theorem msgRT_of_wellTyped (S : Schema) (E : Enums) (cs : KeyCase) (hS : SchemaOk S E cs) (c : Nat) (sl : List Val)
    (ow : Bool) (unk : Bytes) (cur : List (Option Nat))
    (hwt : wellTyped' S (.msg c sl ow unk cur) = true) (hsel : selOk S (.msg c sl ow unk cur) = true) :
    unk = [] ∧ MsgRT S E cs c sl cur := by
  rw [wellTyped_msg] at hwt
  rw [selOk_msg] at hsel
  simp only [Bool.and_eq_true] at hsel
  obtain ⟨hunk, _, _, hsl⟩ := bodyOk_spec S c sl unk cur hwt
  exact ⟨hunk, msgRT_of_slots S E cs hS c sl unk cur hwt hsel.1
    (rt_slots S E cs hS (fieldsOf S c) cur (fun f hf => schema_field S E cs hS c f hf) sl 0 hsl hsel.2)⟩

/-- **class form, flat and nested messages**: `Cls.from_dict(m.to_dict(casing))` returns `jrt m`;
    `jrt m` is related to `m` by `DEqv` and encodes to the same bytes -/
theorem roundtrip_class (S : Schema) (E : Enums) (cs : KeyCase) (hS : SchemaOk S E cs) (c : Nat) (sl : List Val)
    (ow : Bool) (unk : Bytes) (cur : List (Option Nat))
    (hwt : wellTyped' S (.msg c sl ow unk cur) = true) (hsel : selOk S (.msg c sl ow unk cur) = true) :
    fromDictC S E c (toDict S E cs false (.msg c sl ow unk cur)) = .ok (jrt S E cs (.msg c sl ow unk cur))
    ∧ DEqv S (.msg c sl ow unk cur) (jrt S E cs (.msg c sl ow unk cur))
    ∧ dumpVal S (jrt S E cs (.msg c sl ow unk cur)) = dumpVal S (.msg c sl ow unk cur) := by
  obtain ⟨hunk, a1, a2, a3⟩ := msgRT_of_wellTyped S E cs hS c sl ow unk cur hwt hsel
  subst hunk
  have hd : DEqv S (.msg c sl ow [] cur) (jrt S E cs (.msg c sl ow [] cur)) := by
    rw [jrt_msg]; exact DEqv.msg c sl _ ow [] cur a3
  refine ⟨?_, hd, deqv_dumpVal S (fun c f hf => schema_field S E cs hS c f hf) _ _ hwt hd⟩
  rw [toDict]
  simp only [mkObj, fromDictC, fromDictInit, a1, bind_ok, a2, jrt_msg]

end Bp

#print axioms Bp.roundtrip_class
