import BpProofs.JsonRt
/-
  C04, slot level: every kind of slot value of a `wellTyped'` message (BpProofs/JsonGuard.lean)
  satisfies `SlotRT2` (BpProofs/JsonRt.lean), given the statement for the messages nested in it.
-/
namespace Bp
open Gen

/-- `hid` / `sel` as `to_dict` computes them for a field -/
def HS (f : FieldD) (hid sel : Bool) : Prop :=
  (f.group = Option.none → hid = false ∧ sel = false) ∧ (hid = true → sel = false)

theorem hs_slot (f : FieldD) (k : Nat) (cur : List (Option Nat)) : HS f (hidden f k cur) (selectedInGroup f k cur) := by
  unfold HS hidden selectedInGroup
  cases f.group with
  | none => simp
  | some g => simp

/-- the facts `fieldJsonOk` gives, in usable form -/
structure FJ (f : FieldD) : Prop where
  rep_opt : f.repeated = true → f.optional = false
  rep_grp : f.repeated = true → f.group = Option.none
  grp_opt : f.group.isSome = true → f.optional = false
  map_rep : (f.ty == PType.map) = true → f.repeated = false
  map_opt : (f.ty == PType.map) = true → f.optional = false
  map_grp : (f.ty == PType.map) = true → f.group = Option.none
  map_wr : (f.ty == PType.map) = true → f.wraps = Option.none
  map_k : (f.ty == PType.map) = true → f.mapK = PType.string
  map_vb : (f.ty == PType.map) = true → f.mapV ≠ PType.bytes
  map_vm : (f.ty == PType.map) = true → f.mapV ≠ PType.map
  map_vk : (f.ty == PType.map) = true → (f.mapV == PType.message) = true → ∃ c, f.mapVKind = .user c
  wr_msg : f.wraps.isSome = true → (f.ty == PType.message) = true
  wr_rep : f.wraps.isSome = true → f.repeated = false
  wr_opt : f.wraps.isSome = true → f.optional = false
  wr_b : f.wraps ≠ some PType.bytes

theorem fj_of (f : FieldD) (h : fieldJsonOk f = true) : FJ f := by
  unfold fieldJsonOk at h
  simp only [Bool.and_eq_true, Bool.not_eq_true', Bool.and_eq_false_iff] at h
  obtain ⟨⟨⟨h1, h2⟩, h3⟩, h4⟩ := h
  have hro : f.repeated = true → f.optional = false := fun hr => by
    rcases h1 with h | h
    · rw [hr] at h; cases h
    · exact h
  have hrg : f.repeated = true → f.group = Option.none := fun hr => by
    rcases h2 with h | h
    · rw [hr] at h; cases h
    · cases hg : f.group with
      | none => rfl
      | some g => rw [hg] at h; simp at h
  have hgo : f.group.isSome = true → f.optional = false := fun hg => by
    rcases h3 with h | h
    · exact h
    · rw [hg] at h; cases h
  by_cases hmap : (f.ty == PType.map) = true
  · rw [if_pos hmap] at h4
    simp only [Bool.and_eq_true, Bool.not_eq_true', bne_iff_ne, ne_eq, Option.isNone_iff_eq_none, beq_iff_eq,
      Bool.or_eq_true] at h4
    obtain ⟨⟨⟨⟨⟨⟨⟨a1, a2⟩, a3⟩, a4⟩, a5⟩, a6⟩, a7⟩, a8⟩ := h4
    have hty : f.ty = PType.map := by simpa using hmap
    refine ⟨hro, hrg, hgo, fun _ => a1, fun _ => a2, fun _ => a3, fun _ => a4, fun _ => a5, fun _ => a6,
      fun _ => a7, ?_, ?_, ?_, ?_, ?_⟩
    · intro _ hv
      have hv' : f.mapV = PType.message := by simpa using hv
      rcases a8 with a8 | a8
      · exact absurd hv' a8
      · cases hk : f.mapVKind with
        | user c => exact ⟨c, rfl⟩
        | timestamp => rw [hk] at a8; simp at a8
        | duration => rw [hk] at a8; simp at a8
    · intro hw; rw [a4] at hw; simp at hw
    · intro hw; rw [a4] at hw; simp at hw
    · intro hw; rw [a4] at hw; simp at hw
    · rw [a4]; simp
  · rw [if_neg hmap] at h4
    have nm : ∀ {P : Prop}, (f.ty == PType.map) = true → P := fun h => absurd h hmap
    by_cases hm : (f.ty == PType.message) = true
    · rw [if_pos hm] at h4
      cases hw : f.wraps with
      | none =>
        refine ⟨hro, hrg, hgo, nm, nm, nm, nm, nm, nm, nm, nm, ?_, ?_, ?_, ?_⟩ <;> simp [hw]
      | some w =>
        rw [hw] at h4
        simp only [Bool.and_eq_true, Bool.not_eq_true', bne_iff_ne, ne_eq] at h4
        refine ⟨hro, hrg, hgo, nm, nm, nm, nm, nm, nm, nm, nm, fun _ => hm, fun _ => h4.1.1.1, fun _ => h4.1.1.2, ?_⟩
        intro e; rw [hw] at e; injection e with e; exact h4.2 e
    · rw [if_neg hm] at h4
      have hw : f.wraps = Option.none := by simpa using h4
      refine ⟨hro, hrg, hgo, nm, nm, nm, nm, nm, nm, nm, nm, ?_, ?_, ?_, ?_⟩ <;> simp [hw]
/-! ### the default kind of a field -/

theorem defKind_rep (f : FieldD) (h : f.repeated = true) : f.defKind = .list := by
  unfold FieldD.defKind; simp [h]

theorem defKind_map (f : FieldD) (hr : f.repeated = false) (h : (f.ty == PType.map) = true) : f.defKind = .dict := by
  unfold FieldD.defKind; simp only [hr, h]; simp

theorem defKind_none (f : FieldD) (hr : f.repeated = false) (hm : (f.ty == PType.map) = false)
    (h : (f.optional || f.wraps.isSome) = true) : f.defKind = .none := by
  unfold FieldD.defKind; simp only [hr, hm, h]; simp

theorem defKind_msg (f : FieldD) (hr : f.repeated = false) (hm : (f.ty == PType.map) = false)
    (h : (f.optional || f.wraps.isSome) = false) (hmsg : (f.ty == PType.message) = true) :
    f.defKind = msgKindDef f.kind := by
  unfold FieldD.defKind; simp only [hr, hm, h, hmsg]; simp

theorem defKind_scalar (f : FieldD) (hr : f.repeated = false) (hm : (f.ty == PType.map) = false)
    (h : (f.optional || f.wraps.isSome) = false) (hmsg : (f.ty == PType.message) = false) :
    f.defKind = scalarDef f.ty := by
  unfold FieldD.defKind; simp only [hr, hm, h, hmsg]; simp

theorem eqDefault_scalarDef (S : Schema) (t : PType) : eqDefault S (scalarDef t) (defaultOfKind S (scalarDef t)) = true := by
  cases t <;> simp [scalarDef, defaultOfKind, eqDefault, f32IsZero, f64IsZero]

/-- an unset field that is not the selected member of a oneof is left out by `to_dict` -/
theorem toDictDefault_none (S : Schema) (E : Enums) (f : FieldD) (hj : FJ f) :
    toDictDefault S E f false false = Option.none := by
  unfold toDictDefault
  by_cases hr : f.repeated = true
  · rw [defKind_rep f hr]
    simp only
    by_cases hm : (f.ty == PType.message) = true
    · have hw : f.wraps.isSome = false := by
        cases h : f.wraps.isSome with
        | false => rfl
        | true => have := hj.wr_rep h; rw [hr] at this; cases this
      simp [hm, hw]
    · have hmap : (f.ty == PType.map) = false := by
        cases h : (f.ty == PType.map) with
        | false => rfl
        | true => have := hj.map_rep h; rw [hr] at this; cases this
      simp [hm, hmap]
  · have hr' : f.repeated = false := by simpa using hr
    by_cases hmap : (f.ty == PType.map) = true
    · rw [defKind_map f hr' hmap]; simp [hmap]
    · have hmap' : (f.ty == PType.map) = false := by simpa using hmap
      by_cases ho : (f.optional || f.wraps.isSome) = true
      · rw [defKind_none f hr' hmap' ho]
        simp only [defaultOfKind, toDictPlain]
        by_cases hm : (f.ty == PType.message) = true
        · simp only [hm, if_true, hr', Bool.false_eq_true, if_false]
          split <;> rfl
        · simp only [hm, hmap', Bool.false_eq_true, if_false, defKind_none f hr' hmap' ho]
          simp [eqDefault]
      · have ho' : (f.optional || f.wraps.isSome) = false := by simpa using ho
        by_cases hm : (f.ty == PType.message) = true
        · rw [defKind_msg f hr' hmap' ho' hm]
          have hopt : f.optional = false := by
            cases h : f.optional with
            | false => rfl
            | true => rw [h] at ho'; simp at ho'
          cases hk : f.kind with
          | user c => simp [msgKindDef, hm]
          | timestamp => simp [msgKindDef, defaultOfKind, toDictPlain, hm, hopt]
          | duration => simp [msgKindDef, defaultOfKind, toDictPlain, hm, hopt]
        · have hm' : (f.ty == PType.message) = false := by simpa using hm
          have hdk := defKind_scalar f hr' hmap' ho' hm'
          rw [hdk]
          have : toDictPlain S E f false false (defaultOfKind S (scalarDef f.ty)) = Option.none := by
            unfold toDictPlain
            simp only [hm', hmap', Bool.false_eq_true, if_false, hdk, eqDefault_scalarDef]
            simp
          have hne : ∀ t, scalarDef t ≠ .list ∧ scalarDef t ≠ .dict ∧ ∀ c, scalarDef t ≠ .msg c := by
            intro t; cases t <;> simp [scalarDef]
          obtain ⟨n1, n2, n3⟩ := hne f.ty
          generalize scalarDef f.ty = k at this n1 n2 n3
          cases k <;> first | exact this | exact absurd rfl n1 | exact absurd rfl n2 | exact absurd rfl (n3 _)

/-! ### `slotOk'` (BpProofs/JsonGuard.lean) constructor by constructor -/

theorem slotOk_ph (S : Schema) (f : FieldD) (hid sel : Bool) : slotOk' S f hid sel .ph = (!sel && !f.optional) := by
  rw [slotOk']
theorem slotOk_none (S : Schema) (f : FieldD) (hid sel : Bool) :
    slotOk' S f hid sel .none = (f.group.isNone && (f.optional || f.wraps.isSome) && !f.repeated && f.ty != .map) := by
  rw [slotOk']
theorem slotOk_list (S : Schema) (f : FieldD) (hid sel : Bool) (xs : List Val) :
    slotOk' S f hid sel (.list xs) = (!hid && f.repeated && f.ty != .map && itemsOk' S f xs) := by
  rw [slotOk']
theorem slotOk_dict (S : Schema) (f : FieldD) (hid sel : Bool) (ks vs : List Val) :
    slotOk' S f hid sel (.dict ks vs) =
      (!hid && f.ty == .map && ks.length == vs.length && ks.all (valOfType f.mapK) && mapValsOk' S f vs) := by
  rw [slotOk']
/-- the body of `wellTyped'` -/
def bodyOk (S : Schema) (c : Nat) (sl : List Val) (unk : Bytes) (cur : List (Option Nat)) : Bool :=
  unk.isEmpty && sl.length == (fieldsOf S c).length && cur.length == groupsOf S c &&
    slotsOk' S (fieldsOf S c) cur 0 sl
theorem slotOk_msg (S : Schema) (f : FieldD) (hid sel : Bool) (c : Nat) (sl : List Val) (ow : Bool) (unk : Bytes)
    (cur : List (Option Nat)) :
    slotOk' S f hid sel (.msg c sl ow unk cur) =
      (!hid && f.ty == .message && f.wraps.isNone && !f.repeated && f.kind == .user c && bodyOk S c sl unk cur) := by
  rw [slotOk']; simp only [bodyOk, Bool.and_assoc]
theorem slotOk_leaf (S : Schema) (f : FieldD) (hid sel : Bool) (v : Val) (hl : isLeafVal v = true) (hn : v ≠ .none) :
    slotOk' S f hid sel v = (!hid && !f.repeated && leafOk f v) := by
  cases v <;> first | (simp [isLeafVal] at hl; done) | exact absurd rfl hn | (rw [slotOk']; all_goals (intros; contradiction))
theorem wellTyped_msg (S : Schema) (c : Nat) (sl : List Val) (ow : Bool) (unk : Bytes) (cur : List (Option Nat)) :
    wellTyped' S (.msg c sl ow unk cur) = bodyOk S c sl unk cur := by
  rw [wellTyped']; rfl

/-! ### unset, None and leaf slots -/

theorem jrt_atom (S : Schema) (E : Enums) (cs : KeyCase) (v : Val) (h : dAtom v = true) : jrt S E cs v = v := by
  cases v <;> first | (simp [dAtom] at h; done) | (rw [jrt]; all_goals (intros; contradiction))

theorem rt_ph (S : Schema) (E : Enums) (cs : KeyCase) (f : FieldD) (hid sel : Bool) (hj : FJ f)
    (h : slotOk' S f hid sel .ph = true) : SlotRT2 S E cs f hid sel .ph := by
  rw [slotOk_ph] at h
  simp only [Bool.and_eq_true, Bool.not_eq_true'] at h
  obtain ⟨hs, ho⟩ := h
  subst hs
  have hn : toDictSlot S E cs false f hid false .ph = Option.none := by
    rw [toDictSlot_ph, toDictDefault_none S E f hj]
  refine ⟨fun j hjj => (by rw [hn] at hjj; cases hjj), fun _ => ⟨rfl, Or.inl (by simp [freshVal, ho])⟩⟩

theorem rt_none (S : Schema) (E : Enums) (cs : KeyCase) (f : FieldD) (hid sel : Bool) (hs : HS f hid sel)
    (h : slotOk' S f hid sel .none = true) : SlotRT2 S E cs f hid sel .none := by
  rw [slotOk_none] at h
  simp only [Bool.and_eq_true, Bool.not_eq_true', bne_iff_ne, ne_eq, Option.isNone_iff_eq_none] at h
  obtain ⟨⟨⟨hg, ho⟩, hr⟩, hmap⟩ := h
  obtain ⟨hh, hsel⟩ := hs.1 hg
  subst hh; subst hsel
  have hmap' : (f.ty == PType.map) = false := by simpa using hmap
  have hdk := defKind_none f hr hmap' ho
  have hn : toDictSlot S E cs false f false false .none = Option.none := by
    rw [toDictSlot_leaf _ _ _ _ _ _ _ _ rfl]
    simp only [Bool.false_eq_true, if_false, toDictPlain]
    by_cases hm : (f.ty == PType.message) = true
    · simp only [hm, if_true, hr, Bool.false_eq_true, if_false]
      split <;> rfl
    · simp only [hm, hmap', Bool.false_eq_true, if_false, hdk]
      simp [eqDefault]
  refine ⟨fun j hjj => (by rw [hn] at hjj; cases hjj), fun _ => ⟨rfl, ?_⟩⟩
  by_cases hopt : f.optional = true
  · left; simp [freshVal, hopt]
  · right
    refine ⟨by simpa using hopt, ?_, rfl⟩
    rw [hdk]; simp [eqDefault]

theorem eqDefault_none_leaf (S : Schema) (v : Val) (hl : isLeafVal v = true) (hn : v ≠ .none) :
    eqDefault S .none v = false := by
  cases v <;> first | (simp [isLeafVal] at hl; done) | exact absurd rfl hn | simp [eqDefault]

theorem flat_of_leafOk (S : Schema) (E : Enums) (cs : KeyCase) (f : FieldD) (hid sel : Bool) (v : Val) (hj : FJ f)
    (hl : isLeafVal v = true) (hn : v ≠ .none) (hh : hid = false) (hr : f.repeated = false) (hok : leafOk f v = true) :
    flatSlotOk S E cs f hid sel v = true := by
  rw [flatSlotOk_leaf S E cs f hid sel v hl hn]
  unfold leafOk at hok
  by_cases hm : (f.ty == PType.message) = true
  · have hmap : (f.ty != PType.map) = true := by
      have : f.ty = PType.message := by simpa using hm
      rw [this]; rfl
    simp only [hm, if_true] at hok ⊢
    simp only [hh, hr, hmap, Bool.not_false, Bool.true_and]
    cases hw : f.wraps with
    | some w =>
      rw [hw] at hok
      simp only at hok ⊢
      have : w ≠ PType.bytes := fun e => hj.wr_b (by rw [hw, e])
      simp [this, hok]
    | none =>
      rw [hw] at hok
      simp only at hok ⊢
      cases hk : f.kind <;> rw [hk] at hok <;> cases v <;> simp_all [isTsV, isDurV]
  · simp only [hm, Bool.false_eq_true, if_false, Bool.and_eq_true] at hok ⊢
    simp [hh, hr, hok.1, hok.2]

theorem leaf_facts (S : Schema) (f : FieldD) (v : Val) (hl : isLeafVal v = true) (hn : v ≠ .none) (sel : Bool) :
    dAtom v = true ∧ keptSlot S f sel v = true ∧ isSentinel f v = false ∧ onWireOf v = false := by
  cases v <;> first | (simp [isLeafVal] at hl; done) | exact absurd rfl hn | exact ⟨rfl, rfl, rfl, rfl⟩

theorem rt_leaf (S : Schema) (E : Enums) (cs : KeyCase) (f : FieldD) (hid sel : Bool) (v : Val) (hj : FJ f)
    (he : enumOk (enumOf E f) = true)
    (hl : isLeafVal v = true) (hn : v ≠ .none) (h : slotOk' S f hid sel v = true) : SlotRT2 S E cs f hid sel v := by
  rw [slotOk_leaf S f hid sel v hl hn] at h
  simp only [Bool.and_eq_true, Bool.not_eq_true'] at h
  obtain ⟨⟨hh, hr⟩, hok⟩ := h
  obtain ⟨ha, hp, hsn, how⟩ := leaf_facts S f v hl hn sel
  have hflat := flat_of_leafOk S E cs f hid sel v hj hl hn hh hr hok
  have hjrt := jrt_atom S E cs v ha
  constructor
  · intro j hjj
    obtain ⟨h1, h2⟩ := fieldRT_of_flat S E cs f hid sel v he hflat j hjj
    rw [hjrt]
    exact ⟨h1, h2, DEqv.atom v ha, hp, hsn, hh⟩
  · intro hnone
    subst hh
    rw [toDictSlot_leaf _ _ _ _ _ _ _ _ hl] at hnone
    simp only [Bool.false_eq_true, if_false] at hnone
    unfold leafOk at hok
    by_cases hm : (f.ty == PType.message) = true
    · have hmap : (f.ty == PType.map) = false := by
        have : f.ty = PType.message := by simpa using hm
        rw [this]; rfl
      simp only [hm, if_true] at hok
      cases hw : f.wraps with
      | some w =>
        rw [hw] at hok
        simp only at hok
        exfalso
        rcases valOfType_cases _ _ hok with ⟨i, rfl⟩ | ⟨b, rfl, _⟩ | ⟨b, rfl, _⟩ | ⟨b, rfl, _⟩ | ⟨s, rfl, _⟩ | ⟨s, rfl, _⟩ <;>
          simp [toDictPlain, hm, hw] at hnone
      | none =>
        rw [hw] at hok
        simp only at hok
        have hkind : (f.kind = .timestamp ∧ ∃ us, v = .ts us) ∨ (f.kind = .duration ∧ ∃ us, v = .dur us) := by
          cases hk : f.kind <;> rw [hk] at hok <;> cases v <;> simp_all
        rcases hkind with ⟨hk, us, rfl⟩ | ⟨hk, us, rfl⟩
        · simp only [toDictPlain, hm, if_true, Bool.or_false] at hnone
          split at hnone
          · cases hnone
          · rename_i hc
            simp only [Bool.or_eq_true, not_or, Bool.not_eq_true, bne_eq_false_iff_eq] at hc
            obtain ⟨⟨hus, hopt⟩, hsel⟩ := hc
            refine ⟨hsel, Or.inr ⟨hopt, ?_, rfl⟩⟩
            rw [defKind_msg f hr hmap (by simp [hopt, hw]) hm, hk]
            simp [msgKindDef, eqDefault, hus]
        · simp only [toDictPlain, hm, if_true, Bool.or_false] at hnone
          split at hnone
          · cases hnone
          · rename_i hc
            simp only [Bool.or_eq_true, not_or, Bool.not_eq_true, bne_eq_false_iff_eq] at hc
            obtain ⟨⟨hus, hopt⟩, hsel⟩ := hc
            refine ⟨hsel, Or.inr ⟨hopt, ?_, rfl⟩⟩
            rw [defKind_msg f hr hmap (by simp [hopt, hw]) hm, hk]
            simp [msgKindDef, eqDefault, hus]
    · have hm' : (f.ty == PType.message) = false := by simpa using hm
      simp only [hm', Bool.false_eq_true, if_false, Bool.and_eq_true, bne_iff_ne, ne_eq] at hok
      have hmap : (f.ty == PType.map) = false := by simpa using hok.1
      have hts := toDictSlot_scalar S E cs f sel v hm' hmap hr hok.2
      rw [toDictSlot_leaf _ _ _ _ _ _ _ _ hl] at hts
      simp only [Bool.false_eq_true, if_false] at hts
      rw [hts] at hnone
      split at hnone
      · cases hnone
      · rename_i hc
        simp only [Bool.or_eq_true, not_or, Bool.not_eq_true, Bool.not_eq_false'] at hc
        refine ⟨hc.2, Or.inr ⟨?_, hc.1, how⟩⟩
        cases hopt : f.optional with
        | false => rfl
        | true =>
          have := hc.1
          rw [defKind_none f hr hmap (by simp [hopt]), eqDefault_none_leaf S v hl hn] at this
          cases this

/-! ### repeated fields -/

theorem leafOk_leaf (f : FieldD) (x : Val) (h : leafOk f x = true) : isLeafVal x = true ∧ x ≠ .none := by
  unfold leafOk at h
  split at h
  · split at h
    · cases x <;> simp [valOfType] at h <;> exact ⟨rfl, by intro e; cases e⟩
    · split at h <;> first | exact ⟨rfl, by intro e; cases e⟩ | cases h
  · simp only [Bool.and_eq_true] at h
    have := h.2
    cases x <;> simp [valOfType] at this <;> exact ⟨rfl, by intro e; cases e⟩

theorem isLeafVal_dAtom (x : Val) (h : isLeafVal x = true) : dAtom x = true := by
  cases x <;> first | rfl | (simp [isLeafVal] at h)

theorem jrtList_atoms (S : Schema) (E : Enums) (cs : KeyCase) (xs : List Val) (h : ∀ x ∈ xs, dAtom x = true) :
    jrtList S E cs xs = xs := by
  induction xs with
  | nil => rw [jrtList]
  | cons x xs ih => rw [jrtList, jrt_atom S E cs x (h x (by simp)), ih (fun y hy => h y (by simp [hy]))]

theorem listDEqv_atoms (S : Schema) (xs : List Val) (h : ∀ x ∈ xs, dAtom x = true) : ListDEqv S xs xs := by
  induction xs with
  | nil => exact ListDEqv.nil
  | cons x xs ih => exact ListDEqv.consAtom x xs xs (h x (by simp)) (ih (fun y hy => h y (by simp [hy])))

theorem itemsOk_cons_nonmsg (S : Schema) (f : FieldD) (x : Val) (xs : List Val) (hx : isMsgVal x = false) :
    itemsOk' S f (x :: xs) = (leafOk f x && itemsOk' S f xs) := by
  cases x <;> first | (simp [isMsgVal] at hx; done) | (rw [itemsOk']; all_goals (intros; contradiction))

theorem msg_or_not (a : Val) : (∃ c sl ow unk cur, a = Val.msg c sl ow unk cur) ∨ isMsgVal a = false := by
  cases a <;> first | (left; exact ⟨_, _, _, _, _, rfl⟩) | (right; rfl)

/-- a list in a field that does not hold user messages: every item is a well-typed leaf -/
theorem itemsOk_leaf (S : Schema) (f : FieldD) (xs : List Val)
    (hnu : ¬ ((f.ty == PType.message) = true ∧ f.wraps = Option.none ∧ ∃ c, f.kind = .user c))
    (h : itemsOk' S f xs = true) : ∀ x ∈ xs, leafOk f x = true := by
  induction xs with
  | nil => intro x hx; cases hx
  | cons a as ih =>
    rcases msg_or_not a with ⟨c, sl, ow, unk, cur, rfl⟩ | h'
    · rw [itemsOk'] at h
      simp only [Bool.and_eq_true, beq_iff_eq, Option.isNone_iff_eq_none] at h
      obtain ⟨⟨⟨⟨⟨⟨⟨hty, hwr⟩, hkc⟩, _⟩, _⟩, _⟩, _⟩, _⟩ := h
      exact absurd ⟨by simpa using hty, hwr, c, hkc⟩ hnu
    · rw [itemsOk_cons_nonmsg S f a as h'] at h
      have h' := h
      simp only [Bool.and_eq_true] at h'
      intro x hx
      rcases List.mem_cons.1 hx with rfl | hx
      · exact h'.1
      · exact ih h'.2 x hx

/-- a list in a repeated user-message field: every item is a message of the field's class -/
theorem itemsOk_user (S : Schema) (f : FieldD) (c : Nat) (xs : List Val)
    (hm : (f.ty == PType.message) = true) (hw : f.wraps = Option.none) (hk : f.kind = .user c)
    (h : itemsOk' S f xs = true) : ∀ x ∈ xs, ∃ sl ow unk cur, x = Val.msg c sl ow unk cur ∧ bodyOk S c sl unk cur = true := by
  induction xs with
  | nil => intro x hx; cases hx
  | cons a as ih =>
    rcases msg_or_not a with ⟨c', sl, ow, unk, cur, rfl⟩ | h'
    · rw [itemsOk'] at h
      simp only [Bool.and_eq_true, beq_iff_eq, Option.isNone_iff_eq_none] at h
      obtain ⟨⟨⟨⟨⟨⟨⟨_, _⟩, hkc⟩, h1⟩, h2⟩, h3⟩, h4⟩, hrest⟩ := h
      rw [hk] at hkc
      injection hkc with hkc; subst hkc
      intro x hx
      rcases List.mem_cons.1 hx with rfl | hx
      · refine ⟨sl, ow, unk, cur, rfl, ?_⟩
        simp [bodyOk, h1, h2, h3, h4]
      · exact ih hrest x hx
    · rw [itemsOk_cons_nonmsg S f a as h'] at h
      simp only [Bool.and_eq_true] at h
      have := h.1
      unfold leafOk at this
      simp [hm, hw, hk] at this

theorem toDictList_isEmpty (S : Schema) (E : Enums) (cs : KeyCase) (incl : Bool) (xs : List Val) :
    (toDictList S E cs incl xs).isEmpty = xs.isEmpty := by
  cases xs with
  | nil => simp [toDictList]
  | cons x xs => cases x <;> simp [toDictList]

theorem jrt_list (S : Schema) (E : Enums) (cs : KeyCase) (xs : List Val) :
    jrt S E cs (.list xs) = .list (jrtList S E cs xs) := by rw [jrt]

theorem jrt_dict (S : Schema) (E : Enums) (cs : KeyCase) (ks vs : List Val) :
    jrt S E cs (.dict ks vs) = .dict ks (jrtList S E cs vs) := by rw [jrt]

theorem jrt_msg (S : Schema) (E : Enums) (cs : KeyCase) (c : Nat) (sl : List Val) (ow : Bool) (unk : Bytes)
    (cur : List (Option Nat)) :
    jrt S E cs (.msg c sl ow unk cur) = .msg c (jrtSlots S E cs (fieldsOf S c) cur 0 sl) true unk cur := by rw [jrt]

/-- what `slotOk'` and the schema guard say about a list slot -/
theorem list_common (S : Schema) (f : FieldD) (hid sel : Bool) (xs : List Val) (hj : FJ f) (hs : HS f hid sel)
    (h : slotOk' S f hid sel (.list xs) = true) :
    hid = false ∧ sel = false ∧ f.repeated = true ∧ (f.ty == PType.map) = false ∧ f.optional = false ∧
      f.wraps = Option.none ∧ itemsOk' S f xs = true := by
  rw [slotOk_list] at h
  simp only [Bool.and_eq_true, Bool.not_eq_true', bne_iff_ne, ne_eq] at h
  obtain ⟨⟨⟨hh, hr⟩, hmap⟩, hit⟩ := h
  have hw : f.wraps = Option.none := by
    cases hw : f.wraps with
    | none => rfl
    | some w => have := hj.wr_rep (by simp [hw]); rw [hr] at this; cases this
  exact ⟨hh, (hs.1 (hj.rep_grp hr)).2, hr, by simpa using hmap, hj.rep_opt hr, hw, hit⟩

/-- a repeated field is left out only when the list is empty -/
theorem list_omitted (S : Schema) (E : Enums) (cs : KeyCase) (f : FieldD) (xs : List Val) (hr : f.repeated = true)
    (hmap : (f.ty == PType.map) = false) (hw : f.wraps = Option.none)
    (hn : toDictSlot S E cs false f false false (.list xs) = Option.none) : xs = [] := by
  rw [toDictSlot] at hn
  simp only [Bool.false_eq_true, if_false, hmap, hr, if_true, hw, Option.isSome_none, Bool.or_false, Bool.not_true] at hn
  by_cases hm : (f.ty == PType.message) = true
  · simp only [hm, if_true] at hn
    cases hk : f.kind with
    | timestamp => rw [hk] at hn; cases xs <;> simp at hn ⊢
    | duration => rw [hk] at hn; cases xs <;> simp at hn ⊢
    | user c =>
      rw [hk] at hn
      simp only [toDictList_isEmpty] at hn
      cases xs <;> simp at hn ⊢
  · simp only [hm, Bool.false_eq_true, if_false, defKind_rep f hr, eqDefault_list] at hn
    cases xs with
    | nil => rfl
    | cons x xs =>
      exfalso
      simp only [List.isEmpty_cons, Bool.not_false, if_true] at hn
      iterate 4 (split at hn; · cases hn)
      cases hn

theorem rt_list_omitted (S : Schema) (E : Enums) (cs : KeyCase) (f : FieldD) (xs : List Val) (hr : f.repeated = true)
    (hmap : (f.ty == PType.map) = false) (hw : f.wraps = Option.none) (ho : f.optional = false)
    (hn : toDictSlot S E cs false f false false (.list xs) = Option.none) :
    false = false ∧ (Val.list xs = freshVal f ∨
      (f.optional = false ∧ eqDefault S f.defKind (.list xs) = true ∧ onWireOf (.list xs) = false)) := by
  have := list_omitted S E cs f xs hr hmap hw hn
  subst this
  exact ⟨rfl, Or.inr ⟨ho, by rw [defKind_rep f hr, eqDefault_list]; rfl, rfl⟩⟩

/-- repeated scalars / Timestamps / Durations -/
theorem rt_list_flat (S : Schema) (E : Enums) (cs : KeyCase) (f : FieldD) (hid sel : Bool) (xs : List Val) (hj : FJ f)
    (hs : HS f hid sel) (he : enumOk (enumOf E f) = true)
    (hnu : ¬ ((f.ty == PType.message) = true ∧ f.wraps = Option.none ∧ ∃ c, f.kind = .user c))
    (h : slotOk' S f hid sel (.list xs) = true) : SlotRT2 S E cs f hid sel (.list xs) := by
  obtain ⟨hh, hsel, hr, hmap, ho, hw, hit⟩ := list_common S f hid sel xs hj hs h
  subst hh; subst hsel
  have hleaf := itemsOk_leaf S f xs hnu hit
  have hatoms : ∀ x ∈ xs, dAtom x = true := fun x hx => isLeafVal_dAtom x (leafOk_leaf f x (hleaf x hx)).1
  have hflat : flatSlotOk S E cs f false false (.list xs) = true := by
    simp only [flatSlotOk, hr, Bool.not_false, Bool.true_and]
    have hmap' : (f.ty != PType.map) = true := by simpa using hmap
    simp only [hmap', Bool.true_and]
    by_cases hm : (f.ty == PType.message) = true
    · simp only [hm, if_true, hw, Option.isNone_none, Bool.true_and]
      cases hk : f.kind with
      | user c => exact absurd ⟨hm, hw, c, hk⟩ hnu
      | timestamp =>
        simp only [beq_self_eq_true, Bool.true_and, Bool.or_eq_true, List.all_eq_true]
        left; intro x hx
        have := hleaf x hx
        unfold leafOk at this
        simp only [hm, if_true, hw, hk] at this
        cases x <;> simp_all [isTsV]
      | duration =>
        simp only [beq_self_eq_true, Bool.true_and, Bool.or_eq_true, List.all_eq_true]
        right; intro x hx
        have := hleaf x hx
        unfold leafOk at this
        simp only [hm, if_true, hw, hk] at this
        cases x <;> simp_all [isDurV]
    · simp only [hm, Bool.false_eq_true, if_false, List.all_eq_true]
      intro x hx
      have := hleaf x hx
      unfold leafOk at this
      simp only [hm, Bool.false_eq_true, if_false, Bool.and_eq_true] at this
      exact this.2
  have hjrt : jrt S E cs (.list xs) = .list xs := by rw [jrt_list, jrtList_atoms S E cs xs hatoms]
  constructor
  · intro j hjj
    obtain ⟨h1, h2⟩ := fieldRT_of_flat S E cs f false false (.list xs) he hflat j hjj
    rw [hjrt]
    exact ⟨h1, h2, DEqv.list xs xs (listDEqv_atoms S xs hatoms), rfl, rfl, rfl⟩
  · exact rt_list_omitted S E cs f xs hr hmap hw ho

/-- repeated user messages, given the round trip of the items -/
theorem rt_list_user (S : Schema) (E : Enums) (cs : KeyCase) (f : FieldD) (hid sel : Bool) (xs : List Val) (c : Nat)
    (hj : FJ f) (hs : HS f hid sel) (hm : (f.ty == PType.message) = true) (hk : f.kind = .user c)
    (h : slotOk' S f hid sel (.list xs) = true)
    (hitems : fromDictItems S E c (toDictList S E cs false xs) = .ok (jrtList S E cs xs))
    (hrel : ListDEqv S xs (jrtList S E cs xs)) : SlotRT2 S E cs f hid sel (.list xs) := by
  obtain ⟨hh, hsel, hr, hmap, ho, hw, hit⟩ := list_common S f hid sel xs hj hs h
  subst hh; subst hsel
  constructor
  · intro j hjj
    rw [toDictSlot] at hjj
    simp only [Bool.false_eq_true, if_false, hm, if_true, hw, Option.isSome_none, hr, hk, Bool.or_false] at hjj
    split at hjj
    · injection hjj with hjj; subst hjj
      refine ⟨(by intro e; cases e), ?_, ?_, rfl, rfl, rfl⟩
      · rw [decodeField]
        simp only [hm, if_true, hw, Option.isSome_none, Bool.false_eq_true, if_false, hk, hitems, bind_ok, jrt_list]
      · rw [jrt_list]; exact DEqv.list _ _ hrel
    · cases hjj
  · exact rt_list_omitted S E cs f xs hr hmap hw ho

/-! ### map fields -/

theorem mapValsOk_cons_nonmsg (S : Schema) (f : FieldD) (x : Val) (xs : List Val) (hx : isMsgVal x = false) :
    mapValsOk' S f (x :: xs) = ((f.mapV != PType.message && valOfType f.mapV x) && mapValsOk' S f xs) := by
  cases x <;> first | (simp [isMsgVal] at hx; done) | (rw [mapValsOk']; all_goals (intros; contradiction))

/-- `map<string, scalar>`: every value is a well-typed scalar -/
theorem mapValsOk_scalar (S : Schema) (f : FieldD) (vs : List Val) (hv : (f.mapV == PType.message) = false)
    (h : mapValsOk' S f vs = true) : ∀ x ∈ vs, valOfType f.mapV x = true := by
  induction vs with
  | nil => intro x hx; cases hx
  | cons a as ih =>
    rcases msg_or_not a with ⟨c, sl, ow, unk, cur, rfl⟩ | h'
    · rw [mapValsOk'] at h
      simp only [Bool.and_eq_true] at h
      have := h.1.1.1.1.1.1
      rw [hv] at this; cases this
    · rw [mapValsOk_cons_nonmsg S f a as h'] at h
      simp only [Bool.and_eq_true] at h
      intro x hx
      rcases List.mem_cons.1 hx with rfl | hx
      · exact h.1.2
      · exact ih h.2 x hx

/-- `map<string, Msg>`: every value is a message of the value class -/
theorem mapValsOk_user (S : Schema) (f : FieldD) (c : Nat) (vs : List Val) (hv : (f.mapV == PType.message) = true)
    (hk : f.mapVKind = .user c) (h : mapValsOk' S f vs = true) :
    ∀ x ∈ vs, ∃ sl ow unk cur, x = Val.msg c sl ow unk cur ∧ bodyOk S c sl unk cur = true := by
  induction vs with
  | nil => intro x hx; cases hx
  | cons a as ih =>
    rcases msg_or_not a with ⟨c', sl, ow, unk, cur, rfl⟩ | h'
    · rw [mapValsOk'] at h
      simp only [Bool.and_eq_true, beq_iff_eq] at h
      obtain ⟨⟨⟨⟨⟨⟨_, hkc⟩, h1⟩, h2⟩, h3⟩, h4⟩, hrest⟩ := h
      rw [hk] at hkc
      injection hkc with hkc; subst hkc
      intro x hx
      rcases List.mem_cons.1 hx with rfl | hx
      · refine ⟨sl, ow, unk, cur, rfl, ?_⟩
        simp [bodyOk, h1, h2, h3, h4]
      · exact ih hrest x hx
    · rw [mapValsOk_cons_nonmsg S f a as h'] at h
      simp only [Bool.and_eq_true, bne_iff_ne, ne_eq] at h
      exact absurd (by simpa using hv) h.1.1

theorem dict_common (S : Schema) (f : FieldD) (hid sel : Bool) (ks vs : List Val) (hj : FJ f) (hs : HS f hid sel)
    (h : slotOk' S f hid sel (.dict ks vs) = true) :
    hid = false ∧ sel = false ∧ f.ty = PType.map ∧ (∀ k ∈ ks, ∃ s, k = Val.str s) ∧ mapValsOk' S f vs = true := by
  rw [slotOk_dict] at h
  simp only [Bool.and_eq_true, Bool.not_eq_true', beq_iff_eq, List.all_eq_true] at h
  obtain ⟨⟨⟨⟨hh, hty⟩, _⟩, hks⟩, hvs⟩ := h
  have hm : (f.ty == PType.map) = true := by simpa using hty
  refine ⟨hh, (hs.1 (hj.map_grp hm)).2, hty, ?_, hvs⟩
  intro k hk
  have := hks k hk
  rw [hj.map_k hm] at this
  cases k <;> simp [valOfType] at this
  exact ⟨_, rfl⟩

theorem rt_dict_omitted (S : Schema) (E : Enums) (cs : KeyCase) (f : FieldD) (ks vs : List Val) (hj : FJ f)
    (hty : f.ty = PType.map)
    (hn : toDictSlot S E cs false f false false (.dict ks vs) = Option.none) :
    false = false ∧ (Val.dict ks vs = freshVal f ∨
      (f.optional = false ∧ eqDefault S f.defKind (.dict ks vs) = true ∧ onWireOf (.dict ks vs) = false)) := by
  have hm : (f.ty == PType.map) = true := by simp [hty]
  rw [toDictSlot] at hn
  simp only [Bool.false_eq_true, if_false, hm, if_true, Bool.or_false] at hn
  split at hn
  · cases hn
  · rename_i hc
    refine ⟨rfl, Or.inr ⟨hj.map_opt hm, ?_, rfl⟩⟩
    rw [defKind_map f (hj.map_rep hm) hm, eqDefault]
    simpa using hc

/-- `map<string, scalar>` -/
theorem rt_dict_flat (S : Schema) (E : Enums) (cs : KeyCase) (f : FieldD) (hid sel : Bool) (ks vs : List Val) (hj : FJ f)
    (hs : HS f hid sel) (hv : (f.mapV == PType.message) = false)
    (h : slotOk' S f hid sel (.dict ks vs) = true) : SlotRT2 S E cs f hid sel (.dict ks vs) := by
  obtain ⟨hh, hsel, hty, hks, hvs⟩ := dict_common S f hid sel ks vs hj hs h
  subst hh; subst hsel
  have hm : (f.ty == PType.map) = true := by simp [hty]
  have hraw : ∀ x ∈ vs, rawOk x = true := fun x hx =>
    valOfType_rawOk _ x (mapValsOk_scalar S f vs hv hvs x hx) (hj.map_vb hm)
  have hatoms : ∀ x ∈ vs, dAtom x = true := fun x hx => by
    have := hraw x hx
    cases x <;> first | rfl | (simp [rawOk] at this)
  have hjrt : jrt S E cs (.dict ks vs) = .dict ks vs := by rw [jrt_dict, jrtList_atoms S E cs vs hatoms]
  constructor
  · intro j hjj
    obtain ⟨h1, h2⟩ := fieldRT_map_scalar S E cs f false ks vs hty hv hks hraw j hjj
    rw [hjrt]
    exact ⟨h1, h2, DEqv.dict ks vs vs (listDEqv_atoms S vs hatoms), rfl, rfl, rfl⟩
  · exact rt_dict_omitted S E cs f ks vs hj hty

/-- `map<string, Msg>`, given the round trip of the values -/
theorem rt_dict_user (S : Schema) (E : Enums) (cs : KeyCase) (f : FieldD) (hid sel : Bool) (ks vs : List Val) (c : Nat)
    (hj : FJ f) (hs : HS f hid sel) (hv : (f.mapV == PType.message) = true) (hk : f.mapVKind = .user c)
    (h : slotOk' S f hid sel (.dict ks vs) = true)
    (hvals : fromDictMapVals S E c (toDictMapVals S E cs false vs) = .ok (jrtList S E cs vs))
    (hrel : ListDEqv S vs (jrtList S E cs vs)) : SlotRT2 S E cs f hid sel (.dict ks vs) := by
  obtain ⟨hh, hsel, hty, hks, hvs⟩ := dict_common S f hid sel ks vs hj hs h
  subst hh; subst hsel
  have hm : (f.ty == PType.map) = true := by simp [hty]
  have hmsg : (f.ty == PType.message) = false := by rw [hty]; rfl
  constructor
  · intro j hjj
    rw [toDictSlot] at hjj
    simp only [Bool.false_eq_true, if_false, hm, if_true, Bool.or_false] at hjj
    split at hjj
    · injection hjj with hjj; subst hjj
      refine ⟨(by intro e; cases e), ?_, ?_, rfl, rfl, rfl⟩
      · rw [decodeField]
        simp only [hmsg, Bool.false_eq_true, if_false, hm, hv, Bool.and_self, if_true, hk, hvals, bind_ok, jrt_dict,
          keyV_keyJ ks hks]
      · rw [jrt_dict]; exact DEqv.dict _ _ _ hrel
    · cases hjj
  · exact rt_dict_omitted S E cs f ks vs hj hty

/-! ### singular sub-messages -/

theorem bodyOk_spec (S : Schema) (c : Nat) (sl : List Val) (unk : Bytes) (cur : List (Option Nat))
    (h : bodyOk S c sl unk cur = true) :
    unk = [] ∧ sl.length = (fieldsOf S c).length ∧ cur.length = groupsOf S c ∧
      slotsOk' S (fieldsOf S c) cur 0 sl = true := by
  unfold bodyOk at h
  simp only [Bool.and_eq_true, beq_iff_eq, List.isEmpty_iff] at h
  exact ⟨h.1.1.1, h.1.1.2, h.1.2, h.2⟩

/-- a singular sub-message (plain, proto3-optional, oneof member), given the round trip of
    the sub-message itself -/
theorem rt_msg_slot (S : Schema) (E : Enums) (cs : KeyCase) (f : FieldD) (hid sel : Bool) (c : Nat) (sl : List Val)
    (ow : Bool) (unk : Bytes) (cur : List (Option Nat))
    (h : slotOk' S f hid sel (.msg c sl ow unk cur) = true)
    (hkv : fromDictKV S E c ((toDictKVs S E cs false (fieldsOf S c) cur 0 sl).map (·.1))
        ((toDictKVs S E cs false (fieldsOf S c) cur 0 sl).map (·.2))
      = .ok (emitted2 S E cs (fieldsOf S c) cur 0 sl))
    (hcls : fromDictCls S c (emitted2 S E cs (fieldsOf S c) cur 0 sl)
      = .msg c (jrtSlots S E cs (fieldsOf S c) cur 0 sl) true [] cur)
    (hrel : SlotsDEqv S (fieldsOf S c) cur 0 sl (jrtSlots S E cs (fieldsOf S c) cur 0 sl)) :
    SlotRT2 S E cs f hid sel (.msg c sl ow unk cur) := by
  rw [slotOk_msg] at h
  simp only [Bool.and_eq_true, Bool.not_eq_true', beq_iff_eq, Option.isNone_iff_eq_none] at h
  obtain ⟨⟨⟨⟨⟨hh, hty⟩, hw⟩, hr⟩, hk⟩, hbody⟩ := h
  obtain ⟨hunk, _, _, _⟩ := bodyOk_spec S c sl unk cur hbody
  subst hh; subst hunk
  have hm : (f.ty == PType.message) = true := by simp [hty]
  -- (D46 repair) `to_dict` keeps the sub-message when it is marked, optional, selected, or differs
  -- from its default: exactly `keptSlot`
  have hts : toDictSlot S E cs false f false sel (.msg c sl ow [] cur) =
      if keptSlot S f sel (.msg c sl ow [] cur) = true then
        some (mkObj (toDictKVs S E cs false (fieldsOf S c) cur 0 sl))
      else Option.none := by
    rw [toDictSlot]
    simp only [Bool.false_eq_true, if_false, hm, hw, hr, Option.isNone_none, Bool.not_false, Bool.and_self, if_true,
      Bool.or_false, keptSlot]
    rfl
  rw [SlotRT2, hts]
  constructor
  · intro j hjj
    split at hjj
    · rename_i hc
      injection hjj with hjj; subst hjj
      refine ⟨(by intro e; cases e), ?_, ?_, hc, rfl, rfl⟩
      · rw [mkObj, decodeField]
        simp only [hm, if_true, hw, Option.isSome_none, Bool.false_eq_true, if_false, hk, hkv, bind_ok, hcls, jrt_msg]
      · rw [jrt_msg]; exact DEqv.msg c sl _ ow [] cur hrel
    · cases hjj
  · intro hn
    split at hn
    · cases hn
    · rename_i hc
      simp only [keptSlot, Bool.or_eq_true, not_or, Bool.not_eq_true, Bool.not_eq_false'] at hc
      obtain ⟨⟨⟨how, hopt⟩, hsel⟩, hd⟩ := hc
      exact ⟨hsel, Or.inr ⟨hopt, hd, how⟩⟩

end Bp
