import BpModel.All
import BpModel.JsonSpec
import BpProofs.Json
/- Helper lemmas for C05: betterproto's leaf encoders are the canonical ones. -/
namespace Bp
open Gen

theorem dumpFloat_spec32 (b : Nat) : dumpFloat (.f32 b) = specFloat32 b := by
  unfold dumpFloat specFloat32
  by_cases h1 : (b == 0x7f800000) = true
  · have : b = 0x7f800000 := by simpa using h1
    subst this; rfl
  · by_cases h2 : (b == 0xff800000) = true
    · have : b = 0xff800000 := by simpa using h2
      subst this; rfl
    · simp only [h1, h2, if_false, Bool.false_eq_true]

theorem dumpFloat_spec64 (b : Nat) : dumpFloat (.f64 b) = specFloat64 b := by
  unfold dumpFloat specFloat64
  by_cases h1 : (b == 0x7ff0000000000000) = true
  · have : b = 0x7ff0000000000000 := by simpa using h1
    subst this; rfl
  · by_cases h2 : (b == 0xfff0000000000000) = true
    · have : b = 0xfff0000000000000 := by simpa using h2
      subst this; rfl
    · simp only [h1, h2, if_false, Bool.false_eq_true]

theorem dumpEnum_spec (e : EnumDef) (h : enumOk5 e = true) (v : Int) : dumpEnum e (.int v) = specEnum e v := by
  unfold specEnum
  simp only [dumpEnum]
  cases hm : enumByNum e v with
  | none => rfl
  | some m =>
    obtain ⟨_, hmem⟩ := enumByNum_num e v m hm
    unfold enumOk5 at h
    rw [List.all_eq_true] at h
    have := h m hmem
    simp only [beq_iff_eq] at this
    simp only [this]

/-- **every scalar leaf betterproto writes is the canonical one** -/
theorem encItem_spec (E : Enums) (f : FieldD) (h5 : enumOk5 (enumOf E f) = true) (v : Val)
    (hv : valOfType f.ty v = true) : encItem E f v = specScalar (enumOf E f) f.ty v := by
  unfold encItem
  by_cases h1 : isInt64 f.ty = true
  · obtain ⟨i, rfl⟩ := valOfType_int64 _ _ h1 hv
    have : (f.ty == PType.enum) = false := by
      cases ht : f.ty <;> simp [ht, isInt64, int64Types] at h1 ⊢
    simp [h1, strJ, specScalar, this]
  · simp only [h1, if_false, Bool.false_eq_true]
    rcases valOfType_cases _ _ hv with ⟨i, rfl⟩ | ⟨b, rfl, ht⟩ | ⟨b, rfl, ht⟩ | ⟨b, rfl, ht⟩ | ⟨s, rfl, ht⟩ | ⟨s, rfl, ht⟩
    · by_cases h3 : (f.ty == PType.enum) = true
      · have hb : (f.ty == PType.bytes) = false := by
          have : f.ty = .enum := by simpa using h3
          rw [this]; rfl
        simp only [hb, h3, if_true, if_false, Bool.false_eq_true, specScalar]
        exact dumpEnum_spec _ h5 i
      · have hne : f.ty ≠ .bytes ∧ f.ty ≠ .float ∧ f.ty ≠ .double := by
          refine ⟨?_, ?_, ?_⟩ <;> (intro e; rw [e] at hv; simp [valOfType] at hv)
        simp [h3, hne.1, hne.2.1, hne.2.2, rawJ, specScalar, h1]
    · simp [ht, rawJ, specScalar]
    · simp only [ht, specScalar]
      simp only [show (PType.float == PType.bytes) = false from rfl, show (PType.float == PType.enum) = false from rfl,
        beq_self_eq_true, Bool.true_or, if_true, if_false, Bool.false_eq_true]
      exact dumpFloat_spec32 b
    · simp only [ht, specScalar]
      simp only [show (PType.double == PType.bytes) = false from rfl, show (PType.double == PType.enum) = false from rfl,
        beq_self_eq_true, Bool.or_true, if_true, if_false, Bool.false_eq_true]
      exact dumpFloat_spec64 b
    · simp [ht, rawJ, specScalar]
    · simp [ht, b64J, specScalar]

end Bp
