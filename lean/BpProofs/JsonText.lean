import BpProofs.JsonRtInst
/-
  C04, JSON-text path: what `to_dict` returns for a message of the guarded domain is JSON
  serialisable (`isJson`), and `json.loads(json.dumps(d))` is `d` itself (`jsonText d = some d`),
  so `from_json(to_json(m))` is `from_dict(to_dict(m))`.
-/
namespace Bp
open Gen

def strKey : JKey → Bool
  | .str _ => true
  | _ => false

mutual
/-- no raw leaf, every key a string, every NaN the canonical one -/
def textOk : JVal → Bool
  | .raw _ => false
  | .fnum32 b => !isNaN32 b || b == 0x7fc00000
  | .fnum b => !isNaN64 b || b == 0x7ff8000000000000
  | .arr xs => textOkList xs
  | .obj ks vs => ks.all strKey && textOkList vs
  | _ => true
def textOkList : List JVal → Bool
  | [] => true
  | x :: xs => textOk x && textOkList xs
end

theorem strKeys_map (ks : List JKey) (h : ks.all strKey = true) (g : JKey → JKey) (hg : ∀ s, g (.str s) = .str s) :
    ks.map g = ks := by
  induction ks with
  | nil => rfl
  | cons k ks ih =>
    simp only [List.all_cons, Bool.and_eq_true] at h
    obtain ⟨h1, h2⟩ := h
    cases k <;> simp [strKey] at h1
    simp only [List.map_cons, hg, ih h2]

theorem strKeys_all (ks : List JKey) (h : ks.all strKey = true) (p : JKey → Bool) (hp : ∀ s, p (.str s) = true) :
    ks.all p = true := by
  induction ks with
  | nil => rfl
  | cons k ks ih =>
    simp only [List.all_cons, Bool.and_eq_true] at h
    obtain ⟨h1, h2⟩ := h
    cases k <;> simp [strKey] at h1
    simp only [List.all_cons, hp, ih h2, Bool.and_self]

mutual
theorem textOk_spec : ∀ (j : JVal), textOk j = true → jsonText j = some j ∧ isJson j = true
  | .raw _, h => by simp [textOk] at h
  | .fnum32 b, h => by
    simp only [textOk, Bool.or_eq_true, Bool.not_eq_true', beq_iff_eq] at h
    refine ⟨?_, by simp [isJson]⟩
    rw [jsonText]
    rcases h with h | h
    · simp [h]
    · subst h; simp
  | .fnum b, h => by
    simp only [textOk, Bool.or_eq_true, Bool.not_eq_true', beq_iff_eq] at h
    refine ⟨?_, by simp [isJson]⟩
    rw [jsonText]
    rcases h with h | h
    · simp [h]
    · subst h; simp
  | .arr xs, h => by
    rw [textOk] at h
    obtain ⟨a, b⟩ := textOkList_spec xs h
    rw [jsonText, isJson, a, b]; exact ⟨rfl, rfl⟩
  | .obj ks vs, h => by
    rw [textOk] at h
    simp only [Bool.and_eq_true] at h
    obtain ⟨a, b⟩ := textOkList_spec vs h.2
    rw [jsonText, isJson, a, b]
    refine ⟨?_, ?_⟩
    · simp only [Option.map_some]
      congr 2
      exact strKeys_map ks h.1 _ (fun _ => rfl)
    · simp only [Bool.and_true]
      exact strKeys_all ks h.1 _ (fun _ => rfl)
  | .null, _ | .bool _, _ | .num _, _ | .fstr _, _ | .str _, _ | .decStr _, _ | .b64 _, _ | .tsStr _, _
  | .durStr _, _ => by simp [jsonText, isJson]
theorem textOkList_spec : ∀ (xs : List JVal), textOkList xs = true → jsonTextList xs = some xs ∧ isJsonList xs = true
  | [], _ => by simp [jsonTextList, isJsonList]
  | x :: xs, h => by
    rw [textOkList] at h
    simp only [Bool.and_eq_true] at h
    obtain ⟨a, b⟩ := textOk_spec x h.1
    obtain ⟨c, d⟩ := textOkList_spec xs h.2
    rw [jsonTextList, isJsonList, a, b, c, d]; exact ⟨rfl, rfl⟩
end

/-! ### leaves -/

theorem textOk_rawJ (t : PType) (v : Val) (hv : valOfType t v = true) (hb : t ≠ PType.bytes) : textOk (rawJ v) = true := by
  rcases valOfType_cases _ _ hv with ⟨i, rfl⟩ | ⟨b, rfl, _⟩ | ⟨b, rfl, ht⟩ | ⟨b, rfl, ht⟩ | ⟨s, rfl, _⟩ | ⟨s, rfl, ht⟩
  · simp [rawJ, textOk]
  · simp [rawJ, textOk]
  · subst ht; simpa [rawJ, textOk, valOfType] using hv
  · subst ht; simpa [rawJ, textOk, valOfType] using hv
  · simp [rawJ, textOk]
  · exact absurd ht hb

theorem textOk_encItem (E : Enums) (f : FieldD) (v : Val) (hv : valOfType f.ty v = true) :
    textOk (encItem E f v) = true := by
  unfold encItem
  by_cases h1 : isInt64 f.ty = true
  · obtain ⟨i, rfl⟩ := valOfType_int64 _ _ h1 hv
    simp [h1, strJ, textOk]
  · simp only [h1, Bool.false_eq_true, if_false]
    by_cases h2 : (f.ty == PType.bytes) = true
    · have : f.ty = .bytes := by simpa using h2
      rw [this] at hv
      cases v <;> simp [valOfType] at hv
      simp [this, b64J, textOk]
    · simp only [h2, Bool.false_eq_true, if_false]
      by_cases h3 : (f.ty == PType.enum) = true
      · have : f.ty = .enum := by simpa using h3
        rw [this] at hv
        cases v <;> simp [valOfType] at hv
        simp only [h3, if_true, dumpEnum]
        split <;> simp [textOk]
      · simp only [h3, Bool.false_eq_true, if_false]
        by_cases h4 : (f.ty == PType.float || f.ty == PType.double) = true
        · simp only [h4, if_true]
          have ht : f.ty = .float ∨ f.ty = .double := by simpa using h4
          rcases ht with ht | ht <;> rw [ht] at hv <;> cases v <;> simp [valOfType] at hv <;>
            (simp only [dumpFloat]; repeat' split) <;> simp_all [textOk]
        · simp only [h4, Bool.false_eq_true, if_false]
          exact textOk_rawJ f.ty v hv (by intro e; rw [e] at h2; simp at h2)

theorem textOkList_map (g : Val → JVal) (xs : List Val) (h : ∀ x ∈ xs, textOk (g x) = true) :
    textOkList (xs.map g) = true := by
  induction xs with
  | nil => rw [List.map_nil, textOkList]
  | cons x xs ih =>
    rw [List.map_cons, textOkList, h x (by simp), ih (fun y hy => h y (by simp [hy]))]; rfl

theorem toDictSlot_none_none (S : Schema) (E : Enums) (cs : KeyCase) (f : FieldD) (hid sel : Bool) (hs : HS f hid sel)
    (h : slotOk' S f hid sel .none = true) : toDictSlot S E cs false f hid sel .none = Option.none := by
  cases hts : toDictSlot S E cs false f hid sel .none with
  | none => rfl
  | some j =>
    exfalso
    rw [slotOk_none] at h
    simp only [Bool.and_eq_true, Bool.not_eq_true', bne_iff_ne, ne_eq, Option.isNone_iff_eq_none] at h
    obtain ⟨⟨⟨hg, ho⟩, hr⟩, hmap⟩ := h
    obtain ⟨hh, hsel⟩ := hs.1 hg
    subst hh; subst hsel
    have hmap' : (f.ty == PType.map) = false := by simpa using hmap
    have hdk := defKind_none f hr hmap' ho
    rw [toDictSlot_leaf _ _ _ _ _ _ _ _ rfl] at hts
    simp only [Bool.false_eq_true, if_false, toDictPlain] at hts
    by_cases hm : (f.ty == PType.message) = true
    · simp only [hm, if_true, hr, Bool.false_eq_true, if_false] at hts
      split at hts <;> cases hts
    · simp only [hm, hmap', Bool.false_eq_true, if_false, hdk] at hts
      simp [eqDefault] at hts

/-- what a leaf slot writes is JSON text-stable -/
theorem txt_leaf (S : Schema) (E : Enums) (cs : KeyCase) (f : FieldD) (hid sel : Bool) (v : Val) (hj : FJ f)
    (hl : isLeafVal v = true) (hn : v ≠ .none) (h : slotOk' S f hid sel v = true) (j : JVal)
    (hjj : toDictSlot S E cs false f hid sel v = some j) : textOk j = true := by
  rw [slotOk_leaf S f hid sel v hl hn] at h
  simp only [Bool.and_eq_true, Bool.not_eq_true'] at h
  obtain ⟨⟨hh, hr⟩, hok⟩ := h
  subst hh
  unfold leafOk at hok
  by_cases hm : (f.ty == PType.message) = true
  · rw [toDictSlot_leaf _ _ _ _ _ _ _ _ hl] at hjj
    simp only [Bool.false_eq_true, if_false] at hjj
    simp only [hm, if_true] at hok
    cases hw : f.wraps with
    | some w =>
      rw [hw] at hok
      simp only at hok
      have hwb : w ≠ PType.bytes := fun e => hj.wr_b (by rw [hw, e])
      have := textOk_rawJ w v hok hwb
      rcases valOfType_cases _ _ hok with ⟨i, rfl⟩ | ⟨b, rfl, _⟩ | ⟨b, rfl, _⟩ | ⟨b, rfl, _⟩ | ⟨s, rfl, _⟩ | ⟨s, rfl, _⟩ <;>
        (simp only [toDictPlain, hm, if_true, hw, Option.isSome_some] at hjj
         injection hjj with hjj; rw [← hjj]; exact this)
    | none =>
      rw [hw] at hok
      simp only at hok
      have hkind : (∃ us, v = .ts us) ∨ (∃ us, v = .dur us) := by
        cases hk : f.kind <;> rw [hk] at hok <;> cases v <;> simp_all
      rcases hkind with ⟨us, rfl⟩ | ⟨us, rfl⟩ <;>
        (simp only [toDictPlain, hm, if_true] at hjj
         split at hjj
         · injection hjj with hjj; rw [← hjj]; simp [textOk]
         · cases hjj)
  · have hm' : (f.ty == PType.message) = false := by simpa using hm
    simp only [hm', Bool.false_eq_true, if_false, Bool.and_eq_true, bne_iff_ne, ne_eq] at hok
    have hmap : (f.ty == PType.map) = false := by simpa using hok.1
    rw [toDictSlot_scalar S E cs f sel v hm' hmap hr hok.2] at hjj
    split at hjj
    · injection hjj with hjj; rw [← hjj]; exact textOk_encItem E f v hok.2
    · cases hjj

/-! ### lists, maps, messages -/

theorem txt_list_flat (S : Schema) (E : Enums) (cs : KeyCase) (f : FieldD) (hid sel : Bool) (xs : List Val) (hj : FJ f)
    (hs : HS f hid sel)
    (hnu : ¬ ((f.ty == PType.message) = true ∧ f.wraps = Option.none ∧ ∃ c, f.kind = .user c))
    (h : slotOk' S f hid sel (.list xs) = true) (j : JVal)
    (hjj : toDictSlot S E cs false f hid sel (.list xs) = some j) : textOk j = true := by
  obtain ⟨hh, hsel, hr, hmap, ho, hw, hit⟩ := list_common S f hid sel xs hj hs h
  subst hh; subst hsel
  have hleaf := itemsOk_leaf S f xs hnu hit
  rw [toDictSlot] at hjj
  simp only [Bool.false_eq_true, if_false, hmap, hr, if_true, hw, Option.isSome_none, Bool.or_false, Bool.not_true] at hjj
  by_cases hm : (f.ty == PType.message) = true
  · simp only [hm, if_true] at hjj
    cases hk : f.kind with
    | user c => exact absurd ⟨hm, hw, c, hk⟩ hnu
    | timestamp =>
      rw [hk] at hjj
      simp only at hjj
      split at hjj
      · injection hjj with hjj; rw [← hjj, textOk]
        apply textOkList_map
        intro x hx
        have := hleaf x hx
        unfold leafOk at this
        simp only [hm, if_true, hw, hk] at this
        cases x <;> simp_all [tsJ, textOk]
      · cases hjj
    | duration =>
      rw [hk] at hjj
      simp only at hjj
      split at hjj
      · injection hjj with hjj; rw [← hjj, textOk]
        apply textOkList_map
        intro x hx
        have := hleaf x hx
        unfold leafOk at this
        simp only [hm, if_true, hw, hk] at this
        cases x <;> simp_all [durJ, textOk]
      · cases hjj
  · have hm' : (f.ty == PType.message) = false := by simpa using hm
    have hty : ∀ x ∈ xs, valOfType f.ty x = true := by
      intro x hx
      have := hleaf x hx
      unfold leafOk at this
      simp only [hm', Bool.false_eq_true, if_false, Bool.and_eq_true] at this
      exact this.2
    simp only [hm', Bool.false_eq_true, if_false] at hjj
    split at hjj
    · have hj' : j = .arr (xs.map (encItem E f)) := by
        unfold encItem
        by_cases h1 : isInt64 f.ty = true
        · simp [h1] at hjj ⊢; exact hjj.symm
        · by_cases h2 : (f.ty == PType.bytes) = true
          · simp [h1, h2] at hjj ⊢; exact hjj.symm
          · by_cases h3 : (f.ty == PType.enum) = true
            · simp [h1, h2, h3] at hjj ⊢; exact hjj.symm
            · by_cases h4 : (f.ty == PType.float || f.ty == PType.double) = true
              · simp only [h1, h2, h3, h4, if_true, if_false, Bool.false_eq_true] at hjj ⊢
                injection hjj with hjj; exact hjj.symm
              · simp only [h1, h2, h3, h4, if_false, Bool.false_eq_true, rawJ, rawJList_eq_map] at hjj ⊢
                injection hjj with hjj; exact hjj.symm
      rw [hj', textOk]
      exact textOkList_map _ xs (fun x hx => textOk_encItem E f x (hty x hx))
    · cases hjj

theorem keyJ_strKeys (ks : List Val) (h : ∀ k ∈ ks, ∃ s, k = Val.str s) : (ks.map keyJ).all strKey = true := by
  induction ks with
  | nil => rfl
  | cons k ks ih =>
    obtain ⟨s, rfl⟩ := h k (by simp)
    simp only [List.map_cons, List.all_cons, keyJ, strKey, Bool.true_and]
    exact ih (fun y hy => h y (by simp [hy]))

theorem txt_dict_flat (S : Schema) (E : Enums) (cs : KeyCase) (f : FieldD) (hid sel : Bool) (ks vs : List Val) (hj : FJ f)
    (hs : HS f hid sel) (hv : (f.mapV == PType.message) = false)
    (h : slotOk' S f hid sel (.dict ks vs) = true) (j : JVal)
    (hjj : toDictSlot S E cs false f hid sel (.dict ks vs) = some j) : textOk j = true := by
  obtain ⟨hh, hsel, hty, hks, hvs⟩ := dict_common S f hid sel ks vs hj hs h
  subst hh; subst hsel
  have hm : (f.ty == PType.map) = true := by simp [hty]
  have htyv := mapValsOk_scalar S f vs hv hvs
  have hraw : ∀ x ∈ vs, rawOk x = true := fun x hx => valOfType_rawOk _ x (htyv x hx) (hj.map_vb hm)
  rw [toDictSlot] at hjj
  simp only [Bool.false_eq_true, if_false, hm, if_true, Bool.or_false] at hjj
  split at hjj
  · injection hjj with hjj
    rw [← hjj, textOk, keyJ_strKeys ks hks, toDictMapVals_raw S E cs false vs hraw, rawJList_eq_map]
    simp only [Bool.true_and]
    exact textOkList_map _ vs (fun x hx => textOk_rawJ f.mapV x (htyv x hx) (hj.map_vb hm))
  · cases hjj

/-- the keys of a message's dict are strings -/
theorem kvs_strKeys (S : Schema) (E : Enums) (cs : KeyCase) (fs : List FieldD) (cur : List (Option Nat))
    (vs : List Val) (idx : Nat) : ((toDictKVs S E cs false fs cur idx vs).map (·.1)).all strKey = true := by
  induction vs generalizing idx with
  | nil => rw [toDictKVs]; rfl
  | cons v vs ih =>
    rw [toDictKVs]
    split
    · rfl
    · split
      · simp only [List.map_cons, List.all_cons, jsonKey, strKey, Bool.true_and]; exact ih (idx + 1)
      · exact ih (idx + 1)

mutual
theorem txt_kvs (S : Schema) (E : Enums) (cs : KeyCase) (hS : SchemaOk S E cs) (fs : List FieldD)
    (cur : List (Option Nat)) (hfs : ∀ f ∈ fs, fieldJsonOk f = true) :
    ∀ (vs : List Val) (idx : Nat), slotsOk' S fs cur idx vs = true →
      textOkList ((toDictKVs S E cs false fs cur idx vs).map (·.2)) = true
  | [], _, _ => by rw [toDictKVs]; rfl
  | a :: as, idx, h => by
    rw [slotsOk'] at h
    simp only [Bool.and_eq_true] at h
    have ih := txt_kvs S E cs hS fs cur hfs as (idx + 1) h.2
    rw [toDictKVs]
    cases hf : fs[idx]? with
    | none => rfl
    | some f =>
      rw [hf] at h
      simp only
      cases hts : toDictSlot S E cs false f (hidden f idx cur) (selectedInGroup f idx cur) a with
      | none => exact ih
      | some j =>
        simp only [List.map_cons]
        rw [textOkList, ih,
          txt_slot S E cs hS f _ _ (fj_of f (hfs f (List.mem_of_getElem? hf))) (hs_slot f idx cur) a h.1 j hts]
        rfl
termination_by structural vs => vs

theorem txt_slot (S : Schema) (E : Enums) (cs : KeyCase) (hS : SchemaOk S E cs) (f : FieldD) (hid sel : Bool)
    (hj : FJ f) (hs : HS f hid sel) :
    ∀ (v : Val), slotOk' S f hid sel v = true → ∀ j, toDictSlot S E cs false f hid sel v = some j → textOk j = true
  | .ph, h, j, hjj => by
    have := (rt_ph S E cs f hid sel hj h).1 j hjj
    have := this.2.2.2.2.1
    rw [jrt_atom _ _ _ _ rfl] at this
    simp [isSentinel] at this
  | .none, h, j, hjj => by rw [toDictSlot_none_none S E cs f hid sel hs h] at hjj; cases hjj
  | .int i, h, j, hjj => txt_leaf S E cs f hid sel (.int i) hj rfl (by intro e; cases e) h j hjj
  | .bool b, h, j, hjj => txt_leaf S E cs f hid sel (.bool b) hj rfl (by intro e; cases e) h j hjj
  | .f32 b, h, j, hjj => txt_leaf S E cs f hid sel (.f32 b) hj rfl (by intro e; cases e) h j hjj
  | .f64 b, h, j, hjj => txt_leaf S E cs f hid sel (.f64 b) hj rfl (by intro e; cases e) h j hjj
  | .str s, h, j, hjj => txt_leaf S E cs f hid sel (.str s) hj rfl (by intro e; cases e) h j hjj
  | .byt s, h, j, hjj => txt_leaf S E cs f hid sel (.byt s) hj rfl (by intro e; cases e) h j hjj
  | .ts us, h, j, hjj => txt_leaf S E cs f hid sel (.ts us) hj rfl (by intro e; cases e) h j hjj
  | .dur us, h, j, hjj => txt_leaf S E cs f hid sel (.dur us) hj rfl (by intro e; cases e) h j hjj
  | .list xs, h, j, hjj => by
    by_cases hu : (f.ty == PType.message) = true ∧ f.wraps = Option.none ∧ ∃ c, f.kind = .user c
    · obtain ⟨hm, hw, c, hk⟩ := hu
      obtain ⟨hh, hsel, hr, hmap, _, _, hit⟩ := list_common S f hid sel xs hj hs h
      subst hh; subst hsel
      rw [toDictSlot] at hjj
      simp only [Bool.false_eq_true, if_false, hm, if_true, hw, Option.isSome_none, hr, hk, Bool.or_false] at hjj
      split at hjj
      · injection hjj with hjj
        rw [← hjj, textOk]
        exact (txt_msgs S E cs hS c xs (itemsOk_user S f c xs hm hw hk hit)).1
      · cases hjj
    · exact txt_list_flat S E cs f hid sel xs hj hs hu h j hjj
  | .dict ks vs, h, j, hjj => by
    by_cases hv : (f.mapV == PType.message) = true
    · obtain ⟨hh, hsel, hty, hks, hvs⟩ := dict_common S f hid sel ks vs hj hs h
      subst hh; subst hsel
      have hm : (f.ty == PType.map) = true := by simp [hty]
      obtain ⟨c, hk⟩ := hj.map_vk hm hv
      rw [toDictSlot] at hjj
      simp only [Bool.false_eq_true, if_false, hm, if_true, Bool.or_false] at hjj
      split at hjj
      · injection hjj with hjj
        rw [← hjj, textOk, keyJ_strKeys ks hks, (txt_msgs S E cs hS c vs (mapValsOk_user S f c vs hv hk hvs)).2]
        rfl
      · cases hjj
    · exact txt_dict_flat S E cs f hid sel ks vs hj hs (by simpa using hv) h j hjj
  | .msg c sl ow unk cur, h, j, hjj => by
    rw [slotOk_msg] at h
    simp only [Bool.and_eq_true, Bool.not_eq_true', beq_iff_eq, Option.isNone_iff_eq_none] at h
    obtain ⟨⟨⟨⟨⟨hh, hty⟩, hw⟩, hr⟩, hk⟩, hbody⟩ := h
    obtain ⟨_, _, _, hsl⟩ := bodyOk_spec S c sl unk cur hbody
    subst hh
    have hm : (f.ty == PType.message) = true := by simp [hty]
    rw [toDictSlot] at hjj
    simp only [Bool.false_eq_true, if_false, hm, hw, hr, Option.isNone_none, Bool.not_false, Bool.and_self, if_true] at hjj
    split at hjj
    · injection hjj with hjj
      rw [← hjj, mkObj, textOk, kvs_strKeys,
        txt_kvs S E cs hS (fieldsOf S c) cur (fun f hf => schema_field S E cs hS c f hf) sl 0 hsl]
      rfl
    · cases hjj
termination_by structural v => v

theorem txt_msgs (S : Schema) (E : Enums) (cs : KeyCase) (hS : SchemaOk S E cs) (c : Nat) :
    ∀ (xs : List Val), (∀ x ∈ xs, ∃ sl ow unk cur, x = Val.msg c sl ow unk cur ∧ bodyOk S c sl unk cur = true) →
      textOkList (toDictList S E cs false xs) = true ∧ textOkList (toDictMapVals S E cs false xs) = true
  | [], _ => by rw [toDictList, toDictMapVals]; exact ⟨rfl, rfl⟩
  | .msg c' sl ow unk cur :: xs, h => by
    obtain ⟨sl0, ow0, unk0, cur0, e, hbody0⟩ := h _ (List.mem_cons_self)
    have hbody : bodyOk S c' sl unk cur = true := by
      injection e with e1 e2 e3 e4 e5
      rw [e1, e2, e4, e5]; exact hbody0
    obtain ⟨_, _, _, hsl⟩ := bodyOk_spec S c' sl unk cur hbody
    obtain ⟨b1, b2⟩ := txt_msgs S E cs hS c xs (fun x hx => h x (List.mem_cons_of_mem _ hx))
    have a := txt_kvs S E cs hS (fieldsOf S c') cur (fun f hf => schema_field S E cs hS c' f hf) sl 0 hsl
    rw [toDictList, toDictMapVals]
    simp only [mkObj]
    rw [textOkList, textOkList, textOk, kvs_strKeys, a, b1, b2]
    exact ⟨rfl, rfl⟩
  | .ph :: _, h | .none :: _, h | .int _ :: _, h | .bool _ :: _, h | .f32 _ :: _, h
  | .f64 _ :: _, h | .str _ :: _, h | .byt _ :: _, h | .ts _ :: _, h | .dur _ :: _, h
  | .list _ :: _, h | .dict _ _ :: _, h => by
    obtain ⟨_, _, _, _, e, _⟩ := h _ (List.mem_cons_self)
    cases e
termination_by structural xs => xs
end

/-- **`to_dict` output is JSON serialisable, and the JSON text reads back as the same dict** -/
theorem toDict_text (S : Schema) (E : Enums) (cs : KeyCase) (hS : SchemaOk S E cs) (c : Nat) (sl : List Val)
    (ow : Bool) (unk : Bytes) (cur : List (Option Nat)) (hwt : wellTyped' S (.msg c sl ow unk cur) = true) :
    isJson (toDict S E cs false (.msg c sl ow unk cur)) = true ∧
    jsonText (toDict S E cs false (.msg c sl ow unk cur)) = some (toDict S E cs false (.msg c sl ow unk cur)) := by
  rw [wellTyped_msg] at hwt
  obtain ⟨_, _, _, hsl⟩ := bodyOk_spec S c sl unk cur hwt
  have a := txt_kvs S E cs hS (fieldsOf S c) cur (fun f hf => schema_field S E cs hS c f hf) sl 0 hsl
  have : textOk (toDict S E cs false (.msg c sl ow unk cur)) = true := by
    rw [toDict, mkObj, textOk, kvs_strKeys, a]; rfl
  obtain ⟨h1, h2⟩ := textOk_spec _ this
  exact ⟨h2, h1⟩

end Bp

#print axioms Bp.toDict_text
