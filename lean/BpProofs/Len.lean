import BpModel.All
import BpProofs.Varint
import BpProofs.Props.C16
/-
  Helper lemmas for C09: every piece of `__len__` computes the length of what the
  corresponding piece of `dump` writes.
-/
namespace Bp
open Gen

@[simp] theorem bind_ok {α β} (a : α) (f : α → R β) : Except.bind (Except.ok a : R α) f = f a := rfl
@[simp] theorem bind_error {α β} (e : PyErr) (f : α → R β) : Except.bind (Except.error e : R α) f = .error e := rfl
@[simp] theorem map_ok {α β} (a : α) (f : α → β) : Except.map f (Except.ok a : R α) = .ok (f a) := rfl
@[simp] theorem map_error {α β} (e : PyErr) (f : α → β) : Except.map f (Except.error e : R α) = .error e := rfl

theorem map_bind {α β γ} (x : R α) (f : α → R β) (g : β → γ) :
    Except.map g (x.bind f) = x.bind (fun a => Except.map g (f a)) := by
  cases x <;> rfl

theorem dumpVarint_nat (n : Nat) : dumpVarint (n : Int) = .ok (encNat n) := by
  unfold dumpVarint two63
  have h1 : ¬ ((n : Int) < -9223372036854775808) := by omega
  have h2 : ¬ ((n : Int) < 0) := by omega
  simp [h1, h2]

theorem sizeVarint_eq (v : Int) : sizeVarint v = Except.map List.length (dumpVarint v) := C16.size_eq v

theorem sizeVarint_nat (n : Nat) : sizeVarint (n : Int) = .ok (encNat n).length := by
  rw [sizeVarint_eq, dumpVarint_nat]; rfl

/-- framing: `_len_single` vs `_serialize_single` on a preprocessed value of known length -/
theorem lenFrame_eq (num : Nat) (t : PType) (pre : Bytes) (se w : Bool) :
    lenFrame num t pre.length se w = Except.map List.length (frame num t pre se w) := by
  unfold lenFrame frame
  simp only [sizeVarint_nat, dumpVarint_nat, bind_ok]
  split
  · simp [List.length_append]; omega
  · split
    · simp [List.length_append]; omega
    · split
      · simp [List.length_append]; omega
      · split
        · split
          · simp [List.length_append]; omega
          · rename_i h
            simp at h
            simp [h.1.1]
        · rfl

theorem sizePlain_eq (t : PType) (v : Val) :
    sizePlain t v = Except.map List.length (prepPlain t v) := by
  unfold sizePlain prepPlain
  split
  · cases asInt v <;> simp [sizeVarint_eq]
  · split
    · cases asInt v <;> simp [sizeVarint_eq]
    · split
      · cases packFixed t v <;> simp
      · split
        · cases v <;> simp
        · cases v <;> simp

theorem sizeScalar_eq (S : Schema) (t : PType) (w : Option PType) (v : Val) :
    sizeScalar S t w v = Except.map List.length (prepScalar S t w v) := by
  unfold sizeScalar prepScalar
  split
  · cases v with
    | ts us => simp; cases tsBytes us <;> simp
    | dur us => simp; cases durBytes us <;> simp
    | none => cases w <;> simp
    | _ => cases w <;> simp <;> (rename_i w; cases wrapperBytes S w _ <;> simp)
  · exact sizePlain_eq t v

theorem lenScalar_eq (S : Schema) (num : Nat) (t : PType) (v : Val) (se : Bool) (w : Option PType) :
    lenScalar S num t v se w = Except.map List.length (serializeScalar S num t v se w) := by
  unfold lenScalar serializeScalar
  rw [sizeScalar_eq]
  cases prepScalar S t w v <;> simp [lenFrame_eq]

theorem lenDefault_eq (S : Schema) (f : FieldD) (sel : Bool) :
    lenDefault S f sel = Except.map List.length (dumpDefault S f sel) := by
  unfold lenDefault dumpDefault
  have h0 : lenFrame f.num .bytes 0 false false = Except.map List.length (frame f.num .bytes [] false false) :=
    lenFrame_eq f.num .bytes [] false false
  cases hk : f.defKind with
  | none => rfl
  | list => simp only []; split; · rfl
            split; · exact h0
            rfl
  | dict => simp only []; split <;> rfl
  | msg c => simp only []; split; · rfl
             split; · exact lenFrame_eq f.num f.ty [] _ _
             rfl
  | int => simp only []; split; · rfl
           exact lenScalar_eq _ _ _ _ _ _
  | bool => simp only []; split; · rfl
            exact lenScalar_eq _ _ _ _ _ _
  | f32 => simp only []; split; · rfl
           exact lenScalar_eq _ _ _ _ _ _
  | f64 => simp only []; split; · rfl
           exact lenScalar_eq _ _ _ _ _ _
  | str => simp only []; split; · rfl
           exact lenScalar_eq _ _ _ _ _ _
  | byt => simp only []; split; · rfl
           exact lenScalar_eq _ _ _ _ _ _
  | ts => simp only []; split; · rfl
          exact lenScalar_eq _ _ _ _ _ _
  | dur => simp only []; split; · rfl
           exact lenScalar_eq _ _ _ _ _ _


theorem dumpVal_msg (S : Schema) (c : Nat) (sl : List Val) (ow : Bool) (unk : Bytes) (cur : List (Option Nat)) :
    dumpVal S (.msg c sl ow unk cur)
      = (dumpSlots S (fieldsOf S c) cur 0 sl).bind fun body => .ok (body ++ unk) := by
  rw [dumpVal]

theorem orTwo_eq (a : Bytes) :
    (if a.length == 0 then 2 else a.length) = (if a.isEmpty then [10, 0] else a).length := by
  cases a <;> simp

theorem items_tail (a : Bytes) (n : Nat) (r : R Bytes) (h : n = a.length) :
    ((Except.map List.length r).bind fun b => (Except.ok ((if (n == 0) = true then 2 else n) + b) : R Nat))
      = Except.map List.length (r.bind fun b => .ok ((if a.isEmpty then [10, 0] else a) ++ b)) := by
  subst h
  cases r with
  | error e => rfl
  | ok b => simp only [map_ok, bind_ok, List.length_append, orTwo_eq]

theorem lenItems_eq (S : Schema) (f : FieldD) (xs : List Val) :
    lenItems S f xs = Except.map List.length (dumpItems S f xs) := by
  induction xs with
  | nil => rw [lenItems, dumpItems]; rfl
  | cons x xs ih =>
    cases x with
    | msg c slots ow unknown cur =>
      rw [lenItems, dumpItems, ih]
      simp only [dumpVal_msg]
      cases dumpSlots S (fieldsOf S c) cur 0 slots with
      | error e => rfl
      | ok body =>
        simp only [bind_ok]
        split
        · rw [lenFrame_eq]
          cases frame f.num f.ty (body ++ unknown) true false with
          | error e => rfl
          | ok a => simp only [map_ok, bind_ok]; exact items_tail a _ _ rfl
        · rfl
    | _ =>
      rw [lenItems, dumpItems, ih, lenScalar_eq]
      · cases serializeScalar S f.num f.ty _ true f.wraps with
        | error e => rfl
        | ok a => simp only [map_ok, bind_ok]; exact items_tail a _ _ rfl
      all_goals (intro _ _ _ _ _ h; cases h)


theorem entries_tail (e : R Bytes) (rest : R Bytes) (n : R Nat) (hn : n = Except.map List.length e) :
    (n.bind fun e => (Except.map List.length rest).bind fun r => (Except.ok (e + r) : R Nat))
      = Except.map List.length (e.bind fun e => rest.bind fun r => .ok (e ++ r)) := by
  subst hn
  cases e with
  | error _ => rfl
  | ok a =>
    cases rest with
    | error _ => rfl
    | ok b => simp only [map_ok, bind_ok, List.length_append]

theorem lenEntries_eq (S : Schema) (f : FieldD) (ks vs : List Val) :
    lenEntries S f ks vs = Except.map List.length (dumpEntries S f ks vs) := by
  induction ks generalizing vs with
  | nil =>
    rw [lenEntries, dumpEntries]
    · rfl
    all_goals (intro _ _ _ _ h; cases h)
  | cons k ks ih =>
    cases vs with
    | nil =>
      rw [lenEntries, dumpEntries]
      · rfl
      all_goals (intro _ _ _ _ _ h; cases h)
    | cons v vs =>
      cases v with
      | msg c slots ow unknown cur =>
        rw [lenEntries, dumpEntries, ih]
        cases serializeScalar S 1 f.mapK k false Option.none with
        | error _ => rfl
        | ok sk =>
          simp only [bind_ok, dumpVal_msg]
          cases dumpSlots S (fieldsOf S c) cur 0 slots with
          | error _ => rfl
          | ok body =>
            simp only [bind_ok]
            split
            · cases frame 2 f.mapV (body ++ unknown) false false with
              | error _ => rfl
              | ok sv =>
                simp only [bind_ok]
                exact entries_tail _ _ _ (lenFrame_eq _ _ _ _ _)
            · rfl
      | _ =>
        rw [lenEntries, dumpEntries, ih]
        · cases serializeScalar S 1 f.mapK k false Option.none with
          | error _ => rfl
          | ok sk =>
            simp only [bind_ok]
            cases serializeScalar S 2 f.mapV _ false Option.none with
            | error _ => rfl
            | ok sv =>
              simp only [bind_ok]
              exact entries_tail _ _ _ (lenFrame_eq _ _ _ _ _)
        all_goals (intro _ _ _ _ _ h; cases h)

theorem lenSlot_eq (S : Schema) (f : FieldD) (hid sel : Bool) (v : Val) :
    lenSlot S f hid sel v = Except.map List.length (dumpSlot S f hid sel v) := by
  cases v with
  | ph => rw [lenSlot, dumpSlot]; split; · rfl
          exact lenDefault_eq _ _ _
  | none => rw [lenSlot, dumpSlot]; rfl
  | list xs =>
    rw [lenSlot, dumpSlot]
    dsimp only
    split; · rfl
    split; · rfl
    split
    · cases prepPacked S f.ty xs with
      | error _ => rfl
      | ok buf => simp only [bind_ok]; exact lenFrame_eq _ _ _ _ _
    · exact lenItems_eq _ _ _
  | dict ks vs =>
    rw [lenSlot, dumpSlot]
    dsimp only
    split; · rfl
    split; · rfl
    exact lenEntries_eq _ _ _ _
  | msg c slots ow unknown cur =>
    rw [lenSlot, dumpSlot]
    dsimp only
    split; · rfl
    split; · rfl
    simp only [dumpVal_msg]
    cases dumpSlots S (fieldsOf S c) cur 0 slots with
    | error _ => rfl
    | ok body =>
      simp only [bind_ok]
      split
      · exact lenFrame_eq _ _ _ _ _
      · rfl
  | str s =>
    cases s with
    | nil =>
      rw [lenSlot, dumpSlot]
      · dsimp only
        split; · rfl
        split; · rfl
        exact lenScalar_eq _ _ _ _ _ _
      all_goals (intros; contradiction)
    | cons a as =>
      rw [lenSlot, dumpSlot]
      · dsimp only
        split; · rfl
        split; · rfl
        exact lenScalar_eq _ _ _ _ _ _
      all_goals (intros; first | contradiction | (rename_i h; injection h with h; cases h))
  | _ =>
    rw [lenSlot, dumpSlot]
    · dsimp only
      split; · rfl
      split; · rfl
      exact lenScalar_eq _ _ _ _ _ _
    all_goals (intros; contradiction)

theorem lenSlots_eq (S : Schema) (fs : List FieldD) (cur : List (Option Nat)) (idx : Nat) (vs : List Val) :
    lenSlots S fs cur idx vs = Except.map List.length (dumpSlots S fs cur idx vs) := by
  induction vs generalizing idx with
  | nil => rw [lenSlots, dumpSlots]; rfl
  | cons v vs ih =>
    rw [lenSlots, dumpSlots]
    cases fs[idx]? with
    | none => rfl
    | some f =>
      simp only []
      rw [ih, lenSlot_eq]
      cases dumpSlot S f (hidden f idx cur) (selectedInGroup f idx cur) v with
      | error _ => rfl
      | ok a =>
        simp only [map_ok, bind_ok]
        cases dumpSlots S fs cur (idx + 1) vs with
        | error _ => rfl
        | ok b => simp only [map_ok, bind_ok, List.length_append]

theorem lenVal_eq (S : Schema) (v : Val) : lenVal S v = Except.map List.length (dumpVal S v) := by
  cases v with
  | msg c slots ow unknown cur =>
    rw [lenVal, dumpVal, lenSlots_eq]
    cases dumpSlots S (fieldsOf S c) cur 0 slots with
    | error _ => rfl
    | ok b => simp only [map_ok, bind_ok, List.length_append]
  | _ => rfl

end Bp
