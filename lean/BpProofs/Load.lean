import BpModel.All
import BpProofs.Fields
import BpProofs.Len
/-
  Helper lemmas about `Message.load` (shared by C08 C10 C17).
-/
namespace Bp
open Gen

/-- does the receiving class treat this field as unknown (no such number, or a wire type
    that does not fit the declared type)? -/
def isUnknownField (d : MsgD) (pf : PField) : Bool :=
  match findField d.fields pf.num with
  | Option.none => true
  | some idx =>
    match d.fields[idx]? with
    | Option.none => false
    | some f => !wireFits f pf.wt

theorem setAttr_unknown (S : Schema) (fs : List FieldD) (st : MState) (idx : Nat) (v : Val) :
    (setAttr S fs st idx v).unknown = st.unknown := by
  unfold setAttr
  dsimp only
  cases fs[idx]? with
  | none => rfl
  | some f => dsimp only; cases f.group <;> rfl

theorem setAttr_with_unknown (S : Schema) (fs : List FieldD) (st : MState) (idx : Nat) (v : Val) (u : Bytes) :
    setAttr S fs { st with unknown := u } idx v = { setAttr S fs st idx v with unknown := u } := by
  unfold setAttr
  dsimp only
  cases fs[idx]? with
  | none => rfl
  | some f => dsimp only; cases f.group <;> rfl

/-- an unknown field only appends its raw bytes to `_unknown_fields` -/
theorem applyField_unknown (S : Schema) (rec : Loader) (d : MsgD) (st : MState) (pf : PField)
    (h : isUnknownField d pf = true) :
    applyField S rec d st pf = .ok { st with unknown := st.unknown ++ pf.raw } := by
  unfold isUnknownField at h
  unfold applyField
  split
  · rfl
  · rename_i idx hidx
    rw [hidx] at h
    simp only at h
    split
    · rename_i hf; rw [hf] at h; simp at h
    · rename_i f hf
      rw [hf] at h
      simp only at h
      simp [h]

theorem prepCurrent_with_unknown (S : Schema) (d : MsgD) (st : MState) (idx : Nat) (f : FieldD) (u : Bytes) :
    prepCurrent S d { st with unknown := u } idx f = { prepCurrent S d st idx f with unknown := u } := by
  unfold prepCurrent
  dsimp only
  split
  · exact setAttr_with_unknown _ _ _ _ _ _
  · rfl

theorem prepCurrent_unknown (S : Schema) (d : MsgD) (st : MState) (idx : Nat) (f : FieldD) :
    (prepCurrent S d st idx f).unknown = st.unknown := by
  unfold prepCurrent
  split
  · exact setAttr_unknown _ _ _ _ _
  · rfl

theorem storeValue_unknown (S : Schema) (d : MsgD) (st1 st' : MState) (idx : Nat) (f : FieldD) (v : Val) (u : Bytes)
    (h : storeValue S d st1 idx f v = .ok st') :
    st'.unknown = st1.unknown ∧
    storeValue S d { st1 with unknown := u } idx f v = .ok { st' with unknown := u } := by
  unfold storeValue at h ⊢
  dsimp only at h ⊢
  split at h
  · rename_i hm
    simp only [hm, if_true]
    split at h
    · simp at h; subst h; exact ⟨rfl, rfl⟩
    · simp at h
  · rename_i hm
    simp only [hm, if_false]
    split at h
    · split at h <;> (simp at h; subst h; exact ⟨rfl, rfl⟩)
    · simp at h; subst h
      refine ⟨setAttr_unknown _ _ _ _ _, ?_⟩
      rw [setAttr_with_unknown]
      simp

/-- a known field never touches `_unknown_fields`, and what it does to the rest of the
    state does not depend on them -/
theorem applyField_known (S : Schema) (rec : Loader) (d : MsgD) (st st' : MState) (pf : PField)
    (hk : isUnknownField d pf = false) (h : applyField S rec d st pf = .ok st') (u : Bytes) :
    st'.unknown = st.unknown ∧
    applyField S rec d { st with unknown := u } pf = .ok { st' with unknown := u } := by
  unfold isUnknownField at hk
  unfold applyField at h ⊢
  split at h
  · rename_i hidx; rw [hidx] at hk; simp at hk
  · rename_i idx hidx
    rw [hidx] at hk
    simp only at hk
    simp only [hidx]
    split at h
    · simp at h
    · rename_i f hf
      rw [hf] at hk
      simp only at hk
      have hfit : wireFits f pf.wt = true := by simpa using hk
      simp only [hfit, Bool.not_true, Bool.false_eq_true, if_false] at h ⊢
      cases hv : decodeValue S rec f pf with
      | error e => rw [hv] at h; simp at h
      | ok value =>
        rw [hv] at h
        simp only [bind_ok] at h ⊢
        rw [prepCurrent_with_unknown]
        have := storeValue_unknown S d _ st' idx f value u h
        exact ⟨by rw [this.1, prepCurrent_unknown], this.2⟩

/-- the unknown / known split of a whole field list -/
theorem foldFields_split (S : Schema) (rec : Loader) (d : MsgD) (pfs : List PField) (st st' : MState)
    (h : foldFields S rec d st pfs = .ok st') :
    st'.unknown = st.unknown ++ joinRaw (pfs.filter (isUnknownField d))
    ∧ foldFields S rec d st (pfs.filter fun pf => !isUnknownField d pf) = .ok { st' with unknown := st.unknown } := by
  induction pfs generalizing st st' with
  | nil => rw [foldFields] at h; injection h with h; subst h; simp [foldFields, joinRaw]
  | cons pf pfs ih =>
    rw [foldFields] at h
    by_cases hu : isUnknownField d pf = true
    · rw [applyField_unknown S rec d st pf hu] at h
      simp only [bind_ok] at h
      obtain ⟨i1, i2⟩ := ih _ _ h
      simp only [List.filter_cons, hu, if_true, Bool.not_true, Bool.false_eq_true, if_false, joinRaw]
      constructor
      · rw [i1]; simp [List.append_assoc]
      · -- the known fields see the same state apart from `unknown`
        have : ∀ (pfs : List PField) (s s' : MState) (u : Bytes),
            foldFields S rec d s pfs = .ok s' → (∀ pf ∈ pfs, isUnknownField d pf = false) →
            foldFields S rec d { s with unknown := u } pfs = .ok { s' with unknown := u } := by
          intro pfs
          induction pfs with
          | nil => intro s s' u hh _; rw [foldFields] at hh ⊢; injection hh with hh; subst hh; rfl
          | cons q qs ihq =>
            intro s s' u hh hall
            rw [foldFields] at hh ⊢
            cases hq : applyField S rec d s q with
            | error e => rw [hq] at hh; simp at hh
            | ok s1 =>
              rw [hq] at hh; simp only [bind_ok] at hh
              have hk := applyField_known S rec d s s1 q (hall q (by simp)) hq u
              rw [hk.2]; simp only [bind_ok]
              exact ihq s1 s' u hh (fun x hx => hall x (by simp [hx]))
        have hall : ∀ q ∈ pfs.filter (fun pf => !isUnknownField d pf), isUnknownField d q = false := by
          intro q hq; simp at hq; simpa using hq.2
        have := this _ _ _ st.unknown i2 hall
        simpa using this
    · have hu' : isUnknownField d pf = false := by simpa using hu
      cases hq : applyField S rec d st pf with
      | error e => rw [hq] at h; simp at h
      | ok s1 =>
        rw [hq] at h; simp only [bind_ok] at h
        obtain ⟨i1, i2⟩ := ih _ _ h
        have hk := applyField_known S rec d st s1 pf hu' hq st.unknown
        simp only [List.filter_cons, hu', Bool.false_eq_true, if_false, Bool.not_false, if_true]
        constructor
        · rw [i1, hk.1]
        · rw [foldFields]
          have e : ({ st with unknown := st.unknown } : MState) = st := rfl
          rw [e] at hk
          rw [hk.2]; simp only [bind_ok]
          rw [hk.1] at i2
          have e2 : ({ s1 with unknown := st.unknown } : MState) = s1 := by
            cases s1; simp only at hk; simp [hk.1]
          rw [e2]; exact i2


/-! ### parse-level wrappers -/

theorem loadInto_succ (S : Schema) (f : Nat) (d : MsgD) (st : MState) (bs : Bytes) :
    loadInto S (f + 1) d st bs =
      (loadFields bs).bind fun pfs => foldFields S (loadInto S f) d { st with onWire := true } pfs := rfl

/-- what `parse` does, spelled out: split into fields, fold the per-field step -/
theorem parseInto_eq (S : Schema) (c : Nat) (d : MsgD) (sl : List Val) (ow : Bool) (unk : Bytes)
    (cur : List (Option Nat)) (bs : Bytes) (hd : S[c]? = some d) :
    parseInto S (.msg c sl ow unk cur) bs =
      (loadFields bs).bind fun pfs =>
        (foldFields S (loadInto S bs.length) d { slots := sl, onWire := true, unknown := unk, cur := cur } pfs).bind
          fun st => .ok (st.toVal c) := by
  unfold parseInto
  simp only [hd, loadInto_succ]
  cases loadFields bs <;> rfl

/-- if the framing fails, `parse` fails -/
theorem parseInto_fields_err (S : Schema) (m : Val) (bs : Bytes) (e : PyErr)
    (h : loadFields bs = .error e) : ∃ e', parseInto S m bs = .error e' := by
  cases m with
  | msg c sl ow unk cur =>
    unfold parseInto
    dsimp only
    cases hd : S[c]? with
    | none => exact ⟨_, rfl⟩
    | some d => dsimp only; rw [loadInto_succ, h]; exact ⟨_, rfl⟩
  | _ => exact ⟨_, rfl⟩

/-! ### truncation at the level of `load_fields` -/

theorem loadFields_trunc (bs : Bytes) (pfs : List PField) (h : loadFields bs = .ok pfs) (n : Nat)
    (hn : n ≤ bs.length) :
    (∃ j, n = (joinRaw (pfs.take j)).length ∧ loadFields (bs.take n) = .ok (pfs.take j))
    ∨ loadFields (bs.take n) = .error .eof := by
  induction hl : bs.length using Nat.strongRecOn generalizing bs pfs n with
  | _ len ih =>
    cases bs with
    | nil =>
      simp at hn; subst hn
      rw [loadFields_nil] at h; simp at h; subst h
      left; exact ⟨0, rfl, rfl⟩
    | cons b bs =>
      cases hlf : loadField (b :: bs) with
      | error e => rw [loadFields_cons_err _ e (by simp) hlf] at h; simp at h
      | ok r =>
        obtain ⟨pf, rest⟩ := r
        rw [loadFields_cons _ pf rest (by simp) hlf] at h
        have ok := loadField_ok _ _ _ hlf
        cases hr : loadFields rest with
        | error e => rw [hr] at h; simp [Except.bind] at h
        | ok pfs' =>
          rw [hr] at h
          simp [Except.bind] at h
          subst h
          have hlen : pf.raw.length + rest.length = (b :: bs).length := by
            have := congrArg List.length ok.raw_rest
            simpa [List.length_append] using this
          by_cases hz : n = 0
          · subst hz; left; exact ⟨0, rfl, rfl⟩
          by_cases hcut : n < pf.raw.length
          · right
            have hne : (b :: bs).take n ≠ [] := by
              cases n with
              | zero => exact absurd rfl hz
              | succ n => simp
            exact loadFields_cons_err _ _ hne (loadField_trunc _ _ _ _ hlf hcut)
          · -- the first field is complete: recurse on the rest
            have hpos := ok.raw_pos
            have e : (b :: bs).take n = pf.raw ++ rest.take (n - pf.raw.length) := by
              rw [← ok.raw_rest, List.take_append]
              have : pf.raw.take n = pf.raw := List.take_of_length_le (by omega)
              rw [this]
            have hloc := loadField_prefix _ _ _ hlf (rest.take (n - pf.raw.length))
            have hne : pf.raw ++ rest.take (n - pf.raw.length) ≠ [] := by
              intro hc; have := congrArg List.length hc
              simp only [List.length_append, List.length_nil] at this; omega
            rw [e, loadFields_cons _ pf _ hne hloc]
            have hlt : rest.length < len := by omega
            rcases ih rest.length hlt rest pfs' hr (n - pf.raw.length) (by omega) rfl with ⟨j, hj1, hj2⟩ | herr
            · left
              refine ⟨j + 1, ?_, ?_⟩
              · simp only [List.take_succ_cons, joinRaw, List.length_append]; omega
              · rw [hj2]; rfl
            · right; rw [herr]; rfl

end Bp
