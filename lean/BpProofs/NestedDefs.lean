import BpModel.All
import BpProofs.Eqv
import BpProofs.RtFlat
import BpProofs.FieldKinds
/-
  C01, nested messages: well-typedness of nested values and the statements of the
  per-slot steps for message-typed slots.
-/
namespace Bp
open Gen

mutual
/-- a raw slot value that is well-typed for its field: flat fields as in `flatSlotOk`;
    message-typed fields: unset, None, a well-typed message, a list of such; Timestamp /
    Duration, wrapper and map fields as commented below -/
inductive SlotOk (S : Schema) : FieldD → Val → Prop
  | flat (f : FieldD) (v : Val) : FlatField f → flatSlotOk f v = true → SlotOk S f v
  -- an unset slot of ANY field kind (also the kinds named as missing below) emits nothing
  | unsetAny (f : FieldD) : f.optional = false → SlotOk S f Val.ph
  | noneAny (f : FieldD) : f.optional = true → SlotOk S f Val.none
  | unsetSub (f : FieldD) (c : Nat) : SubField f c → f.optional = false → SlotOk S f Val.ph
  | noneSub (f : FieldD) (c : Nat) : SubField f c → f.optional = true → SlotOk S f Val.none
  | sub (f : FieldD) (c : Nat) (sl : List Val) (ow : Bool) (unk : Bytes) (cur : List (Option Nat)) :
      SubField f c → f.repeated = false → MsgOk S (.msg c sl ow unk cur) → SlotOk S f (.msg c sl ow unk cur)
  | subs (f : FieldD) (c : Nat) (xs : List Val) :
      SubField f c → f.repeated = true → MsgsOk S c xs → SlotOk S f (.list xs)
  -- Timestamp / Duration fields (datetime / timedelta values in the protobuf-valid range)
  | unsetTime (f : FieldD) (isDur : Bool) : TimeField f isDur → f.optional = false → SlotOk S f Val.ph
  | noneTime (f : FieldD) (isDur : Bool) : TimeField f isDur → f.optional = true → SlotOk S f Val.none
  | ts (f : FieldD) (us : Int) : TimeField f false → tsOk us = true → SlotOk S f (.ts us)
  | dur (f : FieldD) (us : Int) : TimeField f true → durOk us = true → SlotOk S f (.dur us)
  -- wrapper fields (`Optional[scalar]`): unset, None (not as a oneof member: a member set to None
  -- selects it without emitting anything, and the selection is lost), or a well-typed scalar
  | unsetWrap (f : FieldD) (w : PType) : WrapField f w → f.optional = false → SlotOk S f Val.ph
  | noneWrap (f : FieldD) (w : PType) : WrapField f w → f.group = Option.none → SlotOk S f Val.none
  | wrap (f : FieldD) (w : PType) (v : Val) : WrapField f w → scalarOk w v = true → SlotOk S f v
  -- REPEATED wrapper fields (`List[Optional[scalar]]`): a list of well-typed scalars of the wrapped type. No item
  -- is `None`: `None` is written exactly like the wrapped default (`tag 00`) and read back as that default, and a
  -- repeated message field of the reference implementation cannot hold a null element
  | wraps (f : FieldD) (w : PType) (xs : List Val) : WrapsField f w → (∀ x ∈ xs, scalarOk w x = true) →
      SlotOk S f (.list xs)
  -- map fields: unset, or a dict with well-typed pairwise different keys and well-typed scalar values
  -- / well-typed messages of the value class
  | unsetMapS (f : FieldD) : MapFieldS f → SlotOk S f Val.ph
  | unsetMapM (f : FieldD) (c : Nat) : MapFieldM f c → SlotOk S f Val.ph
  | mapS (f : FieldD) (ks vs : List Val) : MapFieldS f → ks.length = vs.length →
      (∀ x ∈ ks, scalarOk f.mapK x = true) → (∀ x ∈ vs, scalarOk f.mapV x = true) → KeysDistinct ks →
      SlotOk S f (.dict ks vs)
  | mapM (f : FieldD) (c : Nat) (ks vs : List Val) : MapFieldM f c → ks.length = vs.length →
      (∀ x ∈ ks, scalarOk f.mapK x = true) → MsgsOk S c vs → KeysDistinct ks →
      SlotOk S f (.dict ks vs)
  -- repeated Timestamp / Duration fields: a list of in-range datetimes / timedeltas
  | tss (f : FieldD) (xs : List Val) : TimesField f false → (∀ x ∈ xs, timeValOk false x = true) →
      SlotOk S f (.list xs)
  | durs (f : FieldD) (xs : List Val) : TimesField f true → (∀ x ∈ xs, timeValOk true x = true) →
      SlotOk S f (.list xs)
  -- maps with Timestamp (`isDur = false`) / Duration (`isDur = true`) values; keys as in `mapS`
  | mapT (f : FieldD) (isDur : Bool) (ks vs : List Val) : MapFieldT f isDur → ks.length = vs.length →
      (∀ x ∈ ks, scalarOk f.mapK x = true) → (∀ x ∈ vs, timeValOk isDur x = true) → KeysDistinct ks →
      SlotOk S f (.dict ks vs)
/-- a well-typed, reachable message instance -/
inductive MsgOk (S : Schema) : Val → Prop
  | mk (c : Nat) (d : MsgD) (sl : List Val) (ow : Bool) (unk : Bytes) (cur : List (Option Nat)) :
      S[c]? = some d → NumsDistinct d.fields → WfGroups d.fields d.nGroups →
      (∀ f ∈ d.fields, f.group.isSome = true → f.optional = false) →
      cur.length = d.nGroups →
      (∀ g i, cur.getD g Option.none = some i → ∃ f, d.fields[i]? = some f ∧ f.group = some g) →
      (∀ i f g, d.fields[i]? = some f → f.group = some g → cur.getD g Option.none ≠ some i → sl.getD i .ph = Val.ph) →
      (∀ g i, cur.getD g Option.none = some i → sl.getD i .ph ≠ Val.ph) →
      SlotsOk S d.fields sl → UnkOk d unk →
      MsgOk S (.msg c sl ow unk cur)
/-- slot list against field list, same length -/
inductive SlotsOk (S : Schema) : List FieldD → List Val → Prop
  | nil : SlotsOk S [] []
  | cons (f : FieldD) (v : Val) (fs : List FieldD) (vs : List Val) :
      SlotOk S f v → SlotsOk S fs vs → SlotsOk S (f :: fs) (v :: vs)
/-- a list of well-typed messages of class `c` -/
inductive MsgsOk (S : Schema) : Nat → List Val → Prop
  | nil (c : Nat) : MsgsOk S c []
  | cons (c : Nat) (sl : List Val) (ow : Bool) (unk : Bytes) (cur : List (Option Nat)) (xs : List Val) :
      MsgOk S (.msg c sl ow unk cur) → MsgsOk S c xs → MsgsOk S c (.msg c sl ow unk cur :: xs)
end

/-- the round-trip statement for ONE message value and ONE nested loader: what the
    induction hypothesis provides for every strictly shorter encoding -/
def RoundTrips (S : Schema) (rec : Loader) (m : Val) : Prop :=
  ∀ (c : Nat) (d : MsgD) (sl : List Val) (ow : Bool) (unk : Bytes) (cur : List (Option Nat)) (bs : Bytes),
    m = .msg c sl ow unk cur → S[c]? = some d → dumpVal S m = .ok bs →
    ∃ sl', rec d (freshState d) bs = .ok { slots := sl', onWire := true, unknown := unk, cur := cur }
      ∧ ValEqv S m (.msg c sl' true unk cur)
      ∧ dumpVal S (.msg c sl' true unk cur) = .ok bs

end Bp
