import BpModel.All
import BpProofs.Eqv
import BpProofs.RtFlat
import BpProofs.FieldKinds
/-
  C01, nested messages: well-typedness of nested values and the statements of the
  per-slot steps for message-typed slots.
-/
namespace Bp
open Gen

mutual
/-- a raw slot value that is well-typed for its field (flat fields as in `flatSlotOk`;
    message-typed fields: unset, None, a well-typed message, a list of such) -/
inductive SlotOk (S : Schema) : FieldD → Val → Prop
  | flat (f : FieldD) (v : Val) : FlatField f → flatSlotOk f v = true → SlotOk S f v
  | unsetSub (f : FieldD) (c : Nat) : SubField f c → f.optional = false → SlotOk S f Val.ph
  | noneSub (f : FieldD) (c : Nat) : SubField f c → f.optional = true → SlotOk S f Val.none
  | sub (f : FieldD) (c : Nat) (sl : List Val) (ow : Bool) (unk : Bytes) (cur : List (Option Nat)) :
      SubField f c → f.repeated = false → MsgOk S (.msg c sl ow unk cur) → SlotOk S f (.msg c sl ow unk cur)
  | subs (f : FieldD) (c : Nat) (xs : List Val) :
      SubField f c → f.repeated = true → MsgsOk S c xs → SlotOk S f (.list xs)
/-- a well-typed, reachable message instance -/
inductive MsgOk (S : Schema) : Val → Prop
  | mk (c : Nat) (d : MsgD) (sl : List Val) (ow : Bool) (unk : Bytes) (cur : List (Option Nat)) :
      S[c]? = some d → NumsDistinct d.fields → WfGroups d.fields d.nGroups →
      (∀ f ∈ d.fields, f.group.isSome = true → f.optional = false) →
      cur.length = d.nGroups →
      (∀ g i, cur.getD g Option.none = some i → ∃ f, d.fields[i]? = some f ∧ f.group = some g) →
      (∀ i f g, d.fields[i]? = some f → f.group = some g → cur.getD g Option.none ≠ some i → sl.getD i .ph = Val.ph) →
      (∀ g i, cur.getD g Option.none = some i → sl.getD i .ph ≠ Val.ph) →
      SlotsOk S d.fields sl → UnkOk d unk →
      MsgOk S (.msg c sl ow unk cur)
/-- slot list against field list, same length -/
inductive SlotsOk (S : Schema) : List FieldD → List Val → Prop
  | nil : SlotsOk S [] []
  | cons (f : FieldD) (v : Val) (fs : List FieldD) (vs : List Val) :
      SlotOk S f v → SlotsOk S fs vs → SlotsOk S (f :: fs) (v :: vs)
/-- a list of well-typed messages of class `c` -/
inductive MsgsOk (S : Schema) : Nat → List Val → Prop
  | nil (c : Nat) : MsgsOk S c []
  | cons (c : Nat) (sl : List Val) (ow : Bool) (unk : Bytes) (cur : List (Option Nat)) (xs : List Val) :
      MsgOk S (.msg c sl ow unk cur) → MsgsOk S c xs → MsgsOk S c (.msg c sl ow unk cur :: xs)
end

/-- the round-trip statement for ONE message value and ONE nested loader: what the
    induction hypothesis provides for every strictly shorter encoding -/
def RoundTrips (S : Schema) (rec : Loader) (m : Val) : Prop :=
  ∀ (c : Nat) (d : MsgD) (sl : List Val) (ow : Bool) (unk : Bytes) (cur : List (Option Nat)) (bs : Bytes),
    m = .msg c sl ow unk cur → S[c]? = some d → dumpVal S m = .ok bs →
    ∃ sl', rec d (freshState d) bs = .ok { slots := sl', onWire := true, unknown := unk, cur := cur }
      ∧ ValEqv S m (.msg c sl' true unk cur)
      ∧ dumpVal S (.msg c sl' true unk cur) = .ok bs

end Bp
