import BpProofs.OkSound
/-
  The converse of BpProofs/OkSound.lean: the checker `msgOkB` accepts EVERY value of the
  domain `MsgOk` of the round-trip theorem C01.  Together: `msgOkB S m = true ↔ MsgOk S m`,
  so `MsgOk S m` is decidable (by kernel evaluation of the checker).
-/
namespace Bp
open Gen

/-! ### field kinds -/

theorem repPlainB_complete (f : FieldD)
    (h : f.repeated = true → f.optional = false ∧ f.group = Option.none) : repPlainB f = true := by
  unfold repPlainB
  cases hr : f.repeated with
  | false => rfl
  | true => obtain ⟨h1, h2⟩ := h hr; simp [h1, h2]

theorem flatFieldB_complete (f : FieldD) (h : FlatField f) : flatFieldB f = true := by
  unfold flatFieldB
  simp [h.sc, h.nw, h.num, repPlainB_complete f h.rep]

theorem subFieldB_complete (f : FieldD) (c : Nat) (h : SubField f c) : subFieldB f c = true := by
  unfold subFieldB
  simp [h.ty, h.nw, h.kind, h.num, repPlainB_complete f h.rep]

theorem timeFieldB_complete (f : FieldD) (isDur : Bool) (h : TimeField f isDur) : timeFieldB f isDur = true := by
  unfold timeFieldB
  simp [h.ty, h.nw, h.kind, h.num, h.rep]

theorem wrapFieldB_complete (f : FieldD) (w : PType) (h : WrapField f w) : wrapFieldB f w = true := by
  unfold wrapFieldB
  obtain ⟨c, hc⟩ := h.kind
  simp [h.ty, h.wr, h.wty, h.num, h.rep, hc, isUserKind]

theorem wrapsFieldB_complete (f : FieldD) (w : PType) (h : WrapsField f w) : wrapsFieldB f w = true := by
  unfold wrapsFieldB
  obtain ⟨c, hc⟩ := h.kind
  simp [h.ty, h.wr, h.wty, h.num, h.rep, h.opt, h.grp, hc, isUserKind]

theorem mapFieldSB_complete (f : FieldD) (h : MapFieldS f) : mapFieldSB f = true := by
  unfold mapFieldSB
  simp [h.ty, mapKeyTypeB_eq, h.kty, h.vty, h.num, h.rep, h.opt, h.grp, h.nw]

theorem mapFieldMB_complete (f : FieldD) (c : Nat) (h : MapFieldM f c) : mapFieldMB f c = true := by
  unfold mapFieldMB
  simp [h.ty, mapKeyTypeB_eq, h.kty, h.vty, h.vk, h.num, h.rep, h.opt, h.grp, h.nw]

theorem timesFieldB_complete (f : FieldD) (isDur : Bool) (h : TimesField f isDur) : timesFieldB f isDur = true := by
  unfold timesFieldB
  simp [h.ty, h.nw, h.kind, h.num, h.rep, h.opt, h.grp]

theorem mapFieldTB_complete (f : FieldD) (isDur : Bool) (h : MapFieldT f isDur) : mapFieldTB f isDur = true := by
  unfold mapFieldTB
  simp [h.ty, mapKeyTypeB_eq, h.kty, h.vty, h.vk, h.num, h.rep, h.opt, h.grp, h.nw]

theorem timeValOk_all (isDur : Bool) (xs : List Val) (h : ∀ x ∈ xs, timeValOk isDur x = true) :
    xs.all (timeValOkB isDur) = true := by
  simpa [List.all_eq_true, timeValOkB_eq] using h

theorem subFieldAnyB_complete (f : FieldD) (c : Nat) (h : SubField f c) : subFieldAnyB f = true := by
  unfold subFieldAnyB
  rw [h.kind]
  exact subFieldB_complete f c h

theorem timeFieldAnyB_complete (f : FieldD) (isDur : Bool) (h : TimeField f isDur) : timeFieldAnyB f = true := by
  unfold timeFieldAnyB
  cases isDur with
  | false => simp [timeFieldB_complete f false h]
  | true => simp [timeFieldB_complete f true h]

theorem wrapFieldAnyB_complete (f : FieldD) (w : PType) (h : WrapField f w) : wrapFieldAnyB f = true := by
  unfold wrapFieldAnyB
  rw [h.wr]
  exact wrapFieldB_complete f w h

theorem mapFieldMAnyB_complete (f : FieldD) (c : Nat) (h : MapFieldM f c) : mapFieldMAnyB f = true := by
  unfold mapFieldMAnyB
  rw [h.vk]
  exact mapFieldMB_complete f c h

/-! ### dict keys, class-level conditions -/

theorem keysDistinctB_complete : ∀ (ks : List Val), KeysDistinct ks → keysDistinctB ks = true
  | [], _ => rfl
  | k :: ks, h => by
    unfold keysDistinctB
    simp only [Bool.and_eq_true, List.all_eq_true, Bool.not_eq_true']
    exact ⟨h.1, keysDistinctB_complete ks h.2⟩

theorem numsDistinct_tail (f : FieldD) (fs : List FieldD) (h : NumsDistinct (f :: fs)) : NumsDistinct fs := by
  intro i j fi fj hi hj hn
  have := h (i + 1) (j + 1) fi fj (by simpa using hi) (by simpa using hj) hn
  omega

theorem numsDistinctB_complete : ∀ (fs : List FieldD), NumsDistinct fs → numsDistinctB fs = true
  | [], _ => rfl
  | f :: fs, h => by
    unfold numsDistinctB
    simp only [Bool.and_eq_true, List.all_eq_true, bne_iff_ne, ne_eq]
    refine ⟨?_, numsDistinctB_complete fs (numsDistinct_tail f fs h)⟩
    intro g hg hn
    obtain ⟨j, hj, hgj⟩ := List.getElem_of_mem hg
    have hj' : (f :: fs)[j + 1]? = some g := by
      simp only [List.getElem?_cons_succ]
      rw [List.getElem?_eq_getElem hj, hgj]
    have := h (j + 1) 0 g f hj' (by simp) hn
    omega

theorem wfGroupsB_complete (fs : List FieldD) (n : Nat) (h : WfGroups fs n) : wfGroupsB fs n = true := by
  unfold wfGroupsB
  simp only [List.all_eq_true]
  intro f hf
  cases hg : f.group with
  | none => rfl
  | some g => simpa using h f hf g hg

theorem grpOptB_complete (fs : List FieldD)
    (h : ∀ f ∈ fs, f.group.isSome = true → f.optional = false) : grpOptB fs = true := by
  unfold grpOptB
  simp only [List.all_eq_true]
  intro f hf
  cases hg : f.group.isSome with
  | false => rfl
  | true => simp [h f hf hg]

/-! ### unknown fields -/

theorem unkOkB_complete (d : MsgD) (unk : Bytes) (h : UnkOk d unk) : unkOkB d unk = true := by
  obtain ⟨pfs, hp, rfl⟩ := h
  unfold unkOkB
  rw [loadFields_join pfs (fun pf hpf => (hp pf hpf).1)]
  simp only [List.all_eq_true, isUnknownFieldB_eq]
  exact fun pf hpf => (hp pf hpf).2

/-! ### the oneof invariant of one instance -/

theorem curOkB_complete (fs : List FieldD) (cur : List (Option Nat))
    (h : ∀ g i, cur.getD g Option.none = some i → ∃ f, fs[i]? = some f ∧ f.group = some g) :
    curOkB fs cur = true := by
  unfold curOkB
  simp only [List.all_eq_true, List.mem_range]
  intro g _
  cases hc : cur.getD g Option.none with
  | none => rfl
  | some i =>
    obtain ⟨f, hf, hg⟩ := h g i hc
    simp [hf, hg]

theorem invB_complete (fs : List FieldD) (sl : List Val) (cur : List (Option Nat))
    (h : ∀ i f g, fs[i]? = some f → f.group = some g → cur.getD g Option.none ≠ some i → sl.getD i .ph = Val.ph) :
    invB fs sl cur = true := by
  unfold invB
  simp only [List.all_eq_true, List.mem_range]
  intro i _
  cases hf : fs[i]? with
  | none => rfl
  | some f =>
    cases hg : f.group with
    | none => simp only [hg]
    | some g =>
      simp only [hg, Bool.or_eq_true, beq_iff_eq]
      by_cases hc : cur.getD g Option.none = some i
      · exact Or.inl hc
      · exact Or.inr ((isPh_iff _).2 (h i f g hf hg hc))

theorem selSetB_complete (sl : List Val) (cur : List (Option Nat))
    (h : ∀ g i, cur.getD g Option.none = some i → sl.getD i .ph ≠ Val.ph) : selSetB sl cur = true := by
  unfold selSetB
  simp only [List.all_eq_true, List.mem_range]
  intro g _
  cases hc : cur.getD g Option.none with
  | none => rfl
  | some i =>
    simp only [Bool.not_eq_true']
    cases hp : isPh (sl.getD i .ph) with
    | false => rfl
    | true => exact absurd ((isPh_iff _).1 hp) (h g i hc)

/-- inversion of `MsgOk.mk`, in terms of the checker -/
theorem msgOk_inv (S : Schema) (c : Nat) (sl : List Val) (ow : Bool) (unk : Bytes) (cur : List (Option Nat))
    (h : MsgOk S (.msg c sl ow unk cur)) :
    ∃ d, S[c]? = some d ∧ msgShapeB d sl unk cur = true ∧ SlotsOk S d.fields sl := by
  cases h with
  | mk _ d _ _ _ _ hd h1 h2 h3 h4 h5 h6 h7 hsl hunk =>
    refine ⟨d, hd, ?_, hsl⟩
    unfold msgShapeB
    simp [numsDistinctB_complete _ h1, wfGroupsB_complete _ _ h2, grpOptB_complete _ h3, h4,
      curOkB_complete _ _ h5, invB_complete _ _ _ h6, selSetB_complete _ _ h7, unkOkB_complete _ _ hunk]

theorem scalarOk_all (t : PType) (xs : List Val) (h : ∀ x ∈ xs, scalarOk t x = true) :
    xs.all (scalarOk t) = true := by
  simpa [List.all_eq_true] using h

/-- the values handled by the last alternative of `slotOkB` -/
def plainV : Val → Bool
  | .int _ | .bool _ | .f32 _ | .f64 _ | .str _ | .byt _ => true
  | _ => false

theorem flatSlotOk_plain (f : FieldD) (v : Val) (hp : plainV v = true) :
    flatSlotOk f v = (!f.repeated && scalarOk f.ty v) := by
  cases v <;> first | rfl | (simp [plainV] at hp)

theorem slotOkB_plain_complete (S : Schema) (f : FieldD) (v : Val) (hp : plainV v = true) (h : SlotOk S f v) :
    ((flatFieldB f && !f.repeated && scalarOk f.ty v)
      || (match f.wraps with
          | some w => wrapFieldB f w && scalarOk w v
          | Option.none => false)) = true := by
  cases h with
  | flat _ _ hf hv =>
    rw [flatSlotOk_plain f v hp] at hv
    simp only [Bool.and_eq_true] at hv
    simp [flatFieldB_complete f hf, hv.1, hv.2]
  | wrap _ w _ hf hv => simp [hf.wr, wrapFieldB_complete f w hf, hv]
  | _ => simp [plainV] at hp

/-! ### the checker is complete -/

mutual
theorem msgOkB_complete (S : Schema) : ∀ (m : Val), MsgOk S m → msgOkB S m = true
  | .msg c sl ow unk cur, h => by
    obtain ⟨d, hd, hs, hsl⟩ := msgOk_inv S c sl ow unk cur h
    rw [msgOkB, hd]
    simp only [Bool.and_eq_true]
    exact ⟨hs, slotsOkB_complete S d.fields sl hsl⟩
  | .ph, h | .none, h | .int _, h | .bool _, h | .f32 _, h | .f64 _, h | .str _, h | .byt _, h
  | .ts _, h | .dur _, h | .list _, h | .dict _ _, h => by cases h

theorem slotsOkB_complete (S : Schema) : ∀ (fs : List FieldD) (vs : List Val), SlotsOk S fs vs → slotsOkB S fs vs = true
  | [], [], _ => by simp [slotsOkB]
  | f :: fs, v :: vs, h => by
    rw [slotsOkB]
    simp only [Bool.and_eq_true]
    cases h with
    | cons _ _ _ _ h1 h2 => exact ⟨slotOkB_complete S f v h1, slotsOkB_complete S fs vs h2⟩
  | [], _ :: _, h => by cases h
  | _ :: _, [], h => by cases h

theorem slotOkB_complete (S : Schema) (f : FieldD) : ∀ (v : Val), SlotOk S f v → slotOkB S f v = true
  | .ph, h => by
    rw [slotOkB]
    cases h with
    | flat _ _ hf hv =>
      have ho : f.optional = false := by simpa [flatSlotOk] using hv
      simp [flatFieldB_complete f hf, ho]
    | unsetSub _ c hf ho => simp [subFieldAnyB_complete f c hf, ho]
    | unsetTime _ b hf ho => simp [timeFieldAnyB_complete f b hf, ho]
    | unsetWrap _ w hf ho => simp [wrapFieldAnyB_complete f w hf, ho]
    | wrap _ w _ hf hv => simp [scalarOk] at hv
    | unsetMapS _ hf => simp [mapFieldSB_complete f hf]
    | unsetMapM _ c hf => simp [mapFieldMAnyB_complete f c hf]
    | unsetAny _ ho => simp [ho]
  | .none, h => by
    rw [slotOkB]
    cases h with
    | flat _ _ hf hv =>
      have ho : f.optional = true := by simpa [flatSlotOk] using hv
      simp [flatFieldB_complete f hf, ho]
    | noneSub _ c hf ho => simp [subFieldAnyB_complete f c hf, ho]
    | noneTime _ b hf ho => simp [timeFieldAnyB_complete f b hf, ho]
    | noneWrap _ w hf hg => simp [wrapFieldAnyB_complete f w hf, hg]
    | noneAny _ ho => simp [ho]
    | wrap _ w _ hf hv => simp [scalarOk] at hv
  | .msg c sl ow unk cur, h => by
    rw [slotOkB]
    cases h with
    | flat _ _ hf hv => simp [flatSlotOk, scalarOk] at hv
    | wrap _ w _ hf hv => simp [scalarOk] at hv
    | sub _ _ _ _ _ _ hf hr hm =>
      obtain ⟨d, hd, hs, hsl⟩ := msgOk_inv S c sl ow unk cur hm
      simp [subFieldB_complete f c hf, hr, hd, hs, slotsOkB_complete S d.fields sl hsl]
  | .list xs, h => by
    rw [slotOkB]
    cases h with
    | flat _ _ hf hv =>
      simp only [flatSlotOk, Bool.and_eq_true] at hv
      simp [flatFieldB_complete f hf, hv.1, hv.2]
    | wrap _ w _ hf hv => simp [scalarOk] at hv
    | subs _ c _ hf hr hm =>
      simp [hf.kind, subFieldB_complete f c hf, hr, msgsOkB_complete S c xs hm]
    | tss _ _ hf hv => simp [timesFieldB_complete f false hf, timeValOk_all false xs hv]
    | durs _ _ hf hv => simp [timesFieldB_complete f true hf, timeValOk_all true xs hv]
    | wraps _ w _ hf hv =>
      have hall : xs.all (scalarOk w) = true := by simpa [List.all_eq_true] using hv
      simp [hf.wr, wrapsFieldB_complete f w hf, hall]
  | .ts us, h => by
    rw [slotOkB]
    cases h with
    | flat _ _ hf hv => simp [flatSlotOk, scalarOk] at hv
    | wrap _ w _ hf hv => simp [scalarOk] at hv
    | ts _ _ hf hv => simp [timeFieldB_complete f false hf, hv]
  | .dur us, h => by
    rw [slotOkB]
    cases h with
    | flat _ _ hf hv => simp [flatSlotOk, scalarOk] at hv
    | wrap _ w _ hf hv => simp [scalarOk] at hv
    | dur _ _ hf hv => simp [timeFieldB_complete f true hf, hv]
  | .dict ks vs, h => by
    rw [slotOkB]
    cases h with
    | flat _ _ hf hv => simp [flatSlotOk, scalarOk] at hv
    | wrap _ w _ hf hv => simp [scalarOk] at hv
    | mapS _ _ _ hf hl hk hv hkd =>
      simp [mapFieldSB_complete f hf, hl, scalarOk_all _ _ hk, scalarOk_all _ _ hv, keysDistinctB_complete ks hkd]
    | mapM _ c _ _ hf hl hk hm hkd =>
      simp [hf.vk, mapFieldMB_complete f c hf, hl, scalarOk_all _ _ hk, msgsOkB_complete S c vs hm,
        keysDistinctB_complete ks hkd]
    | mapT _ isDur _ _ hf hl hk hv hkd =>
      cases isDur with
      | false =>
        simp [mapFieldTB_complete f false hf, hl, scalarOk_all _ _ hk, timeValOk_all false vs hv,
          keysDistinctB_complete ks hkd]
      | true =>
        simp [mapFieldTB_complete f true hf, hl, scalarOk_all _ _ hk, timeValOk_all true vs hv,
          keysDistinctB_complete ks hkd]
  | .int i, h => by simp only [slotOkB]; exact slotOkB_plain_complete S f (.int i) rfl h
  | .bool b, h => by simp only [slotOkB]; exact slotOkB_plain_complete S f (.bool b) rfl h
  | .f32 b, h => by simp only [slotOkB]; exact slotOkB_plain_complete S f (.f32 b) rfl h
  | .f64 b, h => by simp only [slotOkB]; exact slotOkB_plain_complete S f (.f64 b) rfl h
  | .str s, h => by simp only [slotOkB]; exact slotOkB_plain_complete S f (.str s) rfl h
  | .byt s, h => by simp only [slotOkB]; exact slotOkB_plain_complete S f (.byt s) rfl h

theorem msgsOkB_complete (S : Schema) (c : Nat) : ∀ (xs : List Val), MsgsOk S c xs → msgsOkB S c xs = true
  | [], _ => by simp [msgsOkB]
  | .msg c' sl ow unk cur :: xs, h => by
    rw [msgsOkB]
    cases h with
    | cons _ _ _ _ _ _ hm hms =>
      obtain ⟨d, hd, hs, hsl⟩ := msgOk_inv S c sl ow unk cur hm
      simp [hd, hs, slotsOkB_complete S d.fields sl hsl, msgsOkB_complete S c xs hms]
  | .ph :: _, h | .none :: _, h | .int _ :: _, h | .bool _ :: _, h | .f32 _ :: _, h | .f64 _ :: _, h
  | .str _ :: _, h | .byt _ :: _, h | .ts _ :: _, h | .dur _ :: _, h | .list _ :: _, h | .dict _ _ :: _, h => by
    cases h
end

/-- **the checker decides the domain of the round-trip theorem** -/
theorem msgOkB_iff (S : Schema) (m : Val) : msgOkB S m = true ↔ MsgOk S m :=
  ⟨msgOkB_sound S m, msgOkB_complete S m⟩

instance (S : Schema) (m : Val) : Decidable (MsgOk S m) := decidable_of_iff _ (msgOkB_iff S m)

/-- `MsgOk` itself can now be evaluated on closed terms -/
example : MsgOk OkEx.SEx OkEx.mEx := by decide
example : ¬ MsgOk OkEx.SEx (.msg 0 [.ph, .none, .ph, .ph, .ph, .ph] false [] [some 2]) := by decide

/-- repeated wrapper fields: `M(a=[5, 0, -1], s=["", "x"], f=[-0.0, 1.5])` is in the domain, so
    `C01.roundtrip_equal` applies to it; `M(a=[None, 3])` (which does not round-trip,
    `C01.none_item_not_roundtrip`) is not -/
example : MsgOk C01.SR C01.mR := by decide
example : ¬ MsgOk C01.SR C01.mN := by decide
example : ∃ m', parse C01.SR 0 C01.bsR = .ok m' ∧ msgEq C01.SR C01.mR m' = true ∧ msgEq C01.SR m' C01.mR = true
    ∧ dumpVal C01.SR m' = .ok C01.bsR :=
  C01.roundtrip_equal C01.SR 0 _ _ _ _ (by decide) C01.bsR (by decide) (by decide)

end Bp

#print axioms Bp.msgOkB_complete
#print axioms Bp.msgOkB_iff
