import BpModel.All
import BpProofs.NestedDefs
import BpProofs.Props.C01
/-
  Soundness of the kernel-evaluable checker `msgOkB` (BpModel/Ok.lean) for the domain
  `MsgOk` of the round-trip theorem C01, and a non-trivial concrete value in that domain
  on which `Bp.C01.roundtrip_nested_partial` is instantiated.
-/
namespace Bp
open Gen

/-! ### field kinds -/

theorem repPlainB_sound (f : FieldD) (h : repPlainB f = true) :
    f.repeated = true → f.optional = false ∧ f.group = Option.none := by
  intro hr
  unfold repPlainB at h
  simpa [hr] using h

theorem flatFieldB_sound (f : FieldD) (h : flatFieldB f = true) : FlatField f := by
  unfold flatFieldB at h
  simp only [Bool.and_eq_true, Option.isNone_iff_eq_none] at h
  exact ⟨h.1.1.1, h.1.1.2, h.1.2, repPlainB_sound f h.2⟩

theorem subFieldB_sound (f : FieldD) (c : Nat) (h : subFieldB f c = true) : SubField f c := by
  unfold subFieldB at h
  simp only [Bool.and_eq_true, Option.isNone_iff_eq_none, beq_iff_eq] at h
  exact ⟨h.1.1.1.1, h.1.1.1.2, h.1.1.2, h.1.2, repPlainB_sound f h.2⟩

theorem timeFieldB_sound (f : FieldD) (isDur : Bool) (h : timeFieldB f isDur = true) : TimeField f isDur := by
  unfold timeFieldB at h
  simp only [Bool.and_eq_true, Option.isNone_iff_eq_none, beq_iff_eq, Bool.not_eq_true'] at h
  exact ⟨h.1.1.1.1, h.1.1.1.2, h.1.1.2, h.1.2, h.2⟩

theorem isUserKind_sound (k : MsgKind) (h : isUserKind k = true) : ∃ c, k = MsgKind.user c := by
  cases k with
  | user c => exact ⟨c, rfl⟩
  | timestamp => simp [isUserKind] at h
  | duration => simp [isUserKind] at h

theorem wrapFieldB_sound (f : FieldD) (w : PType) (h : wrapFieldB f w = true) : WrapField f w := by
  unfold wrapFieldB at h
  simp only [Bool.and_eq_true, beq_iff_eq, Bool.not_eq_true'] at h
  exact ⟨h.1.1.1.1.1, h.1.1.1.1.2, h.1.1.1.2, h.1.1.2, h.1.2, isUserKind_sound _ h.2⟩

theorem wrapsFieldB_sound (f : FieldD) (w : PType) (h : wrapsFieldB f w = true) : WrapsField f w := by
  unfold wrapsFieldB at h
  simp only [Bool.and_eq_true, beq_iff_eq, Bool.not_eq_true', Option.isNone_iff_eq_none] at h
  exact ⟨h.1.1.1.1.1.1.1, h.1.1.1.1.1.1.2, h.1.1.1.1.1.2, h.1.1.1.1.2, h.1.1.1.2, h.1.1.2, h.1.2,
    isUserKind_sound _ h.2⟩

theorem mapKeyTypeB_eq (t : PType) : mapKeyTypeB t = isMapKeyType t := rfl

theorem mapFieldSB_sound (f : FieldD) (h : mapFieldSB f = true) : MapFieldS f := by
  unfold mapFieldSB at h
  simp only [Bool.and_eq_true, Option.isNone_iff_eq_none, beq_iff_eq, Bool.not_eq_true', mapKeyTypeB_eq] at h
  exact ⟨h.1.1.1.1.1.1.1, h.1.1.1.1.1.1.2, h.1.1.1.1.1.2, h.1.1.1.1.2, h.1.1.1.2, h.1.1.2, h.1.2, h.2⟩

theorem mapFieldMB_sound (f : FieldD) (c : Nat) (h : mapFieldMB f c = true) : MapFieldM f c := by
  unfold mapFieldMB at h
  simp only [Bool.and_eq_true, Option.isNone_iff_eq_none, beq_iff_eq, Bool.not_eq_true', mapKeyTypeB_eq] at h
  exact ⟨h.1.1.1.1.1.1.1.1, h.1.1.1.1.1.1.1.2, h.1.1.1.1.1.1.2, h.1.1.1.1.1.2, h.1.1.1.1.2, h.1.1.1.2,
    h.1.1.2, h.1.2, h.2⟩

theorem timesFieldB_sound (f : FieldD) (isDur : Bool) (h : timesFieldB f isDur = true) : TimesField f isDur := by
  unfold timesFieldB at h
  simp only [Bool.and_eq_true, Option.isNone_iff_eq_none, beq_iff_eq, Bool.not_eq_true'] at h
  exact ⟨h.1.1.1.1.1.1, h.1.1.1.1.1.2, h.1.1.1.1.2, h.1.1.1.2, h.1.1.2, h.1.2, h.2⟩

theorem mapFieldTB_sound (f : FieldD) (isDur : Bool) (h : mapFieldTB f isDur = true) : MapFieldT f isDur := by
  unfold mapFieldTB at h
  simp only [Bool.and_eq_true, Option.isNone_iff_eq_none, beq_iff_eq, Bool.not_eq_true', mapKeyTypeB_eq] at h
  exact ⟨h.1.1.1.1.1.1.1.1, h.1.1.1.1.1.1.1.2, h.1.1.1.1.1.1.2, h.1.1.1.1.1.2, h.1.1.1.1.2, h.1.1.1.2,
    h.1.1.2, h.1.2, h.2⟩

theorem timeValOkB_eq (isDur : Bool) (v : Val) : timeValOkB isDur v = timeValOk isDur v := by
  cases v <;> rfl

theorem all_timeValOk (isDur : Bool) (xs : List Val) (h : xs.all (timeValOkB isDur) = true) :
    ∀ x ∈ xs, timeValOk isDur x = true := by
  simpa [List.all_eq_true, timeValOkB_eq] using h

theorem subFieldAnyB_sound (f : FieldD) (h : subFieldAnyB f = true) : ∃ c, SubField f c := by
  unfold subFieldAnyB at h
  split at h
  · rename_i c _; exact ⟨c, subFieldB_sound f c h⟩
  · exact absurd h (by simp)

theorem timeFieldAnyB_sound (f : FieldD) (h : timeFieldAnyB f = true) : ∃ isDur, TimeField f isDur := by
  unfold timeFieldAnyB at h
  rcases Bool.or_eq_true _ _ ▸ h with h | h
  · exact ⟨false, timeFieldB_sound f false h⟩
  · exact ⟨true, timeFieldB_sound f true h⟩

theorem wrapFieldAnyB_sound (f : FieldD) (h : wrapFieldAnyB f = true) : ∃ w, WrapField f w := by
  unfold wrapFieldAnyB at h
  split at h
  · rename_i w _; exact ⟨w, wrapFieldB_sound f w h⟩
  · exact absurd h (by simp)

theorem mapFieldMAnyB_sound (f : FieldD) (h : mapFieldMAnyB f = true) : ∃ c, MapFieldM f c := by
  unfold mapFieldMAnyB at h
  split at h
  · rename_i c _; exact ⟨c, mapFieldMB_sound f c h⟩
  · exact absurd h (by simp)

/-! ### slot values of flat fields, dict keys -/

theorem flatSlotOkB_eq (f : FieldD) (v : Val) : flatSlotOkB f v = flatSlotOk f v := by
  cases v <;> rfl

theorem keysDistinctB_sound : ∀ (ks : List Val), keysDistinctB ks = true → KeysDistinct ks
  | [], _ => trivial
  | k :: ks, h => by
    unfold keysDistinctB at h
    simp only [Bool.and_eq_true, List.all_eq_true, Bool.not_eq_true'] at h
    exact ⟨h.1, keysDistinctB_sound ks h.2⟩

/-! ### class-level conditions -/

theorem numsDistinctB_sound : ∀ (fs : List FieldD), numsDistinctB fs = true → NumsDistinct fs
  | [], _ => by intro i j fi fj hi; simp at hi
  | f :: fs, h => by
    unfold numsDistinctB at h
    simp only [Bool.and_eq_true, List.all_eq_true, bne_iff_ne, ne_eq] at h
    have ih := numsDistinctB_sound fs h.2
    intro i j fi fj hi hj hn
    cases i with
    | zero =>
      cases j with
      | zero => rfl
      | succ j =>
        simp only [List.getElem?_cons_zero, Option.some.injEq] at hi
        simp only [List.getElem?_cons_succ] at hj
        subst hi
        exact absurd hn.symm (h.1 fj (List.mem_of_getElem? hj))
    | succ i =>
      cases j with
      | zero =>
        simp only [List.getElem?_cons_zero, Option.some.injEq] at hj
        simp only [List.getElem?_cons_succ] at hi
        subst hj
        exact absurd hn (h.1 fi (List.mem_of_getElem? hi))
      | succ j =>
        simp only [List.getElem?_cons_succ] at hi hj
        rw [ih i j fi fj hi hj hn]

theorem wfGroupsB_sound (fs : List FieldD) (n : Nat) (h : wfGroupsB fs n = true) : WfGroups fs n := by
  unfold wfGroupsB at h
  simp only [List.all_eq_true] at h
  intro f hf g hg
  have := h f hf
  rw [hg] at this
  simpa using this

theorem grpOptB_sound (fs : List FieldD) (h : grpOptB fs = true) :
    ∀ f ∈ fs, f.group.isSome = true → f.optional = false := by
  unfold grpOptB at h
  simp only [List.all_eq_true] at h
  intro f hf hg
  have := h f hf
  simpa [hg] using this

/-! ### unknown fields -/

theorem isUnknownFieldB_eq (d : MsgD) (pf : PField) : isUnknownFieldB d pf = isUnknownField d pf := rfl

theorem unkOkB_sound (d : MsgD) (unk : Bytes) (h : unkOkB d unk = true) : UnkOk d unk := by
  unfold unkOkB at h
  cases hl : loadFields unk with
  | error e => rw [hl] at h; exact absurd h (by simp)
  | ok pfs =>
    rw [hl] at h
    simp only [List.all_eq_true, isUnknownFieldB_eq] at h
    exact ⟨pfs, fun pf hpf => ⟨loadFields_parsed unk pfs hl pf hpf, h pf hpf⟩, (loadFields_raw unk pfs hl).1⟩

/-! ### the oneof invariant of one instance -/

theorem isPh_iff (v : Val) : isPh v = true ↔ v = Val.ph := by
  cases v <;> simp [isPh]

theorem getD_none_of_le (cur : List (Option Nat)) (g : Nat) (h : cur.length ≤ g) :
    cur.getD g Option.none = Option.none := by
  simp [List.getD_eq_getElem?_getD, List.getElem?_eq_none h]

theorem curOkB_sound (fs : List FieldD) (cur : List (Option Nat)) (h : curOkB fs cur = true) :
    ∀ g i, cur.getD g Option.none = some i → ∃ f, fs[i]? = some f ∧ f.group = some g := by
  unfold curOkB at h
  simp only [List.all_eq_true, List.mem_range] at h
  intro g i hgi
  have hg : g < cur.length := by
    by_contra hc
    rw [getD_none_of_le cur g (by omega)] at hgi
    exact absurd hgi (by simp)
  have := h g hg
  rw [hgi] at this
  simp only at this
  cases hf : fs[i]? with
  | none => rw [hf] at this; exact absurd this (by simp)
  | some f => rw [hf] at this; exact ⟨f, rfl, by simpa using this⟩

theorem invB_sound (fs : List FieldD) (sl : List Val) (cur : List (Option Nat)) (h : invB fs sl cur = true) :
    ∀ i f g, fs[i]? = some f → f.group = some g → cur.getD g Option.none ≠ some i → sl.getD i .ph = Val.ph := by
  unfold invB at h
  simp only [List.all_eq_true, List.mem_range] at h
  intro i f g hf hg hne
  have hi : i < fs.length := by
    by_contra hc
    rw [List.getElem?_eq_none (by omega)] at hf
    exact absurd hf (by simp)
  have := h i hi
  rw [hf] at this
  simp only [hg, Bool.or_eq_true, beq_iff_eq] at this
  rcases this with e | e
  · exact absurd e hne
  · exact (isPh_iff _).1 e

theorem selSetB_sound (sl : List Val) (cur : List (Option Nat)) (h : selSetB sl cur = true) :
    ∀ g i, cur.getD g Option.none = some i → sl.getD i .ph ≠ Val.ph := by
  unfold selSetB at h
  simp only [List.all_eq_true, List.mem_range] at h
  intro g i hgi
  have hg : g < cur.length := by
    by_contra hc
    rw [getD_none_of_le cur g (by omega)] at hgi
    exact absurd hgi (by simp)
  have := h g hg
  rw [hgi] at this
  simp only [Bool.not_eq_true'] at this
  intro e
  rw [(isPh_iff _).2 e] at this
  exact absurd this (by simp)

/-- the non-recursive part of `MsgOk.mk` -/
theorem msgOk_of_shape (S : Schema) (c : Nat) (d : MsgD) (sl : List Val) (ow : Bool) (unk : Bytes)
    (cur : List (Option Nat)) (hd : S[c]? = some d) (hs : msgShapeB d sl unk cur = true)
    (hsl : SlotsOk S d.fields sl) : MsgOk S (.msg c sl ow unk cur) := by
  unfold msgShapeB at hs
  simp only [Bool.and_eq_true, beq_iff_eq] at hs
  obtain ⟨⟨⟨⟨⟨⟨⟨h1, h2⟩, h3⟩, h4⟩, h5⟩, h6⟩, h7⟩, h8⟩ := hs
  exact MsgOk.mk c d sl ow unk cur hd (numsDistinctB_sound _ h1) (wfGroupsB_sound _ _ h2)
    (grpOptB_sound _ h3) h4 (curOkB_sound _ _ h5) (invB_sound _ _ _ h6) (selSetB_sound _ _ h7)
    hsl (unkOkB_sound _ _ h8)

theorem all_scalarOk (t : PType) (xs : List Val) (h : xs.all (scalarOk t) = true) :
    ∀ x ∈ xs, scalarOk t x = true := by
  simpa [List.all_eq_true] using h

theorem flatSlotOk_of_scalar (f : FieldD) (v : Val) (hr : f.repeated = false) (hs : scalarOk f.ty v = true) :
    flatSlotOk f v = true := by
  cases v <;> first
    | (simp only [flatSlotOk, hr, hs]; rfl)
    | (simp [scalarOk] at hs)

/-- a value that is neither a sentinel nor a container: a flat singular field or a wrapper -/
theorem slotOkB_plain (S : Schema) (f : FieldD) (v : Val)
    (h : ((flatFieldB f && !f.repeated && scalarOk f.ty v)
          || (match f.wraps with
              | some w => wrapFieldB f w && scalarOk w v
              | Option.none => false)) = true) : SlotOk S f v := by
  simp only [Bool.or_eq_true] at h
  rcases h with h | h
  · simp only [Bool.and_eq_true, Bool.not_eq_true'] at h
    exact SlotOk.flat f v (flatFieldB_sound f h.1.1) (flatSlotOk_of_scalar f v h.1.2 h.2)
  · cases hw : f.wraps with
    | none => rw [hw] at h; exact absurd h (by simp)
    | some w =>
      rw [hw] at h
      simp only [Bool.and_eq_true] at h
      have h1 : wrapFieldB f w = true := h.1
      exact SlotOk.wrap f w v (wrapFieldB_sound f w h1) h.2

/-! ### the checker is sound -/

mutual
theorem msgOkB_sound (S : Schema) : ∀ (m : Val), msgOkB S m = true → MsgOk S m
  | .msg c sl ow unk cur, h => by
    rw [msgOkB] at h
    cases hd : S[c]? with
    | none => rw [hd] at h; exact absurd h (by simp)
    | some d =>
      rw [hd] at h
      simp only [Bool.and_eq_true] at h
      exact msgOk_of_shape S c d sl ow unk cur hd h.1 (slotsOkB_sound S d.fields sl h.2)
  | .ph, h | .none, h | .int _, h | .bool _, h | .f32 _, h | .f64 _, h | .str _, h | .byt _, h
  | .ts _, h | .dur _, h | .list _, h | .dict _ _, h => by simp [msgOkB] at h

theorem slotsOkB_sound (S : Schema) : ∀ (fs : List FieldD) (vs : List Val), slotsOkB S fs vs = true → SlotsOk S fs vs
  | [], [], _ => SlotsOk.nil
  | f :: fs, v :: vs, h => by
    rw [slotsOkB] at h
    simp only [Bool.and_eq_true] at h
    exact SlotsOk.cons f v fs vs (slotOkB_sound S f v h.1) (slotsOkB_sound S fs vs h.2)
  | [], _ :: _, h => by simp [slotsOkB] at h
  | _ :: _, [], h => by simp [slotsOkB] at h

theorem slotOkB_sound (S : Schema) (f : FieldD) : ∀ (v : Val), slotOkB S f v = true → SlotOk S f v
  | .ph, h => by
    rw [slotOkB] at h
    simp only [Bool.or_eq_true, Bool.and_eq_true, Bool.not_eq_true'] at h
    rcases h with (((((h | h) | h) | h) | h) | h) | h
    · exact SlotOk.flat f .ph (flatFieldB_sound f h.1) (by simp [flatSlotOk, h.2])
    · obtain ⟨c, hc⟩ := subFieldAnyB_sound f h.1; exact SlotOk.unsetSub f c hc h.2
    · obtain ⟨b, hb⟩ := timeFieldAnyB_sound f h.1; exact SlotOk.unsetTime f b hb h.2
    · obtain ⟨w, hw⟩ := wrapFieldAnyB_sound f h.1; exact SlotOk.unsetWrap f w hw h.2
    · exact SlotOk.unsetMapS f (mapFieldSB_sound f h)
    · obtain ⟨c, hc⟩ := mapFieldMAnyB_sound f h; exact SlotOk.unsetMapM f c hc
    · exact SlotOk.unsetAny f h
  | .none, h => by
    rw [slotOkB] at h
    simp only [Bool.or_eq_true, Bool.and_eq_true, Option.isNone_iff_eq_none] at h
    rcases h with (((h | h) | h) | h) | h
    · exact SlotOk.flat f .none (flatFieldB_sound f h.1) (by simp [flatSlotOk, h.2])
    · obtain ⟨c, hc⟩ := subFieldAnyB_sound f h.1; exact SlotOk.noneSub f c hc h.2
    · obtain ⟨b, hb⟩ := timeFieldAnyB_sound f h.1; exact SlotOk.noneTime f b hb h.2
    · obtain ⟨w, hw⟩ := wrapFieldAnyB_sound f h.1; exact SlotOk.noneWrap f w hw h.2
    · exact SlotOk.noneAny f h
  | .msg c sl ow unk cur, h => by
    rw [slotOkB] at h
    simp only [Bool.and_eq_true, Bool.not_eq_true'] at h
    obtain ⟨⟨hsf, hr⟩, h⟩ := h
    cases hd : S[c]? with
    | none => rw [hd] at h; exact absurd h (by simp)
    | some d =>
      rw [hd] at h
      simp only [Bool.and_eq_true] at h
      exact SlotOk.sub f c sl ow unk cur (subFieldB_sound f c hsf) hr
        (msgOk_of_shape S c d sl ow unk cur hd h.1 (slotsOkB_sound S d.fields sl h.2))
  | .list xs, h => by
    rw [slotOkB] at h
    simp only [Bool.or_eq_true] at h
    rcases h with (((h | h) | h) | h) | h
    · simp only [Bool.and_eq_true] at h
      exact SlotOk.flat f (.list xs) (flatFieldB_sound f h.1.1) (by simp only [flatSlotOk, h.1.2, h.2]; rfl)
    · cases hk : f.kind with
      | user c =>
        rw [hk] at h
        simp only [Bool.and_eq_true] at h
        have hsf : subFieldB f c = true := h.1.1
        exact SlotOk.subs f c xs (subFieldB_sound f c hsf) h.1.2 (msgsOkB_sound S c xs h.2)
      | timestamp => rw [hk] at h; exact absurd h (by simp)
      | duration => rw [hk] at h; exact absurd h (by simp)
    · simp only [Bool.and_eq_true] at h
      exact SlotOk.tss f xs (timesFieldB_sound f false h.1) (all_timeValOk false xs h.2)
    · simp only [Bool.and_eq_true] at h
      exact SlotOk.durs f xs (timesFieldB_sound f true h.1) (all_timeValOk true xs h.2)
    · cases hw : f.wraps with
      | none => rw [hw] at h; exact absurd h (by simp)
      | some w =>
        rw [hw] at h
        simp only [Bool.and_eq_true, List.all_eq_true] at h
        exact SlotOk.wraps f w xs (wrapsFieldB_sound f w h.1) h.2
  | .ts us, h => by
    rw [slotOkB] at h
    simp only [Bool.and_eq_true] at h
    exact SlotOk.ts f us (timeFieldB_sound f false h.1) h.2
  | .dur us, h => by
    rw [slotOkB] at h
    simp only [Bool.and_eq_true] at h
    exact SlotOk.dur f us (timeFieldB_sound f true h.1) h.2
  | .dict ks vs, h => by
    rw [slotOkB] at h
    simp only [Bool.or_eq_true] at h
    rcases h with ((h | h) | h) | h
    · simp only [Bool.and_eq_true, beq_iff_eq] at h
      obtain ⟨⟨⟨⟨h1, h2⟩, h3⟩, h4⟩, h5⟩ := h
      exact SlotOk.mapS f ks vs (mapFieldSB_sound f h1) h2 (all_scalarOk _ _ h3) (all_scalarOk _ _ h4)
        (keysDistinctB_sound ks h5)
    · cases hk : f.mapVKind with
      | user c =>
        rw [hk] at h
        simp only [Bool.and_eq_true, beq_iff_eq] at h
        obtain ⟨⟨⟨⟨h1, h2⟩, h3⟩, h4⟩, h5⟩ := h
        have h1' : mapFieldMB f c = true := h1
        exact SlotOk.mapM f c ks vs (mapFieldMB_sound f c h1') h2 (all_scalarOk _ _ h3)
          (msgsOkB_sound S c vs h4) (keysDistinctB_sound ks h5)
      | timestamp => rw [hk] at h; exact absurd h (by simp)
      | duration => rw [hk] at h; exact absurd h (by simp)
    · simp only [Bool.and_eq_true, beq_iff_eq] at h
      obtain ⟨⟨⟨⟨h1, h2⟩, h3⟩, h4⟩, h5⟩ := h
      exact SlotOk.mapT f false ks vs (mapFieldTB_sound f false h1) h2 (all_scalarOk _ _ h3)
        (all_timeValOk false vs h4) (keysDistinctB_sound ks h5)
    · simp only [Bool.and_eq_true, beq_iff_eq] at h
      obtain ⟨⟨⟨⟨h1, h2⟩, h3⟩, h4⟩, h5⟩ := h
      exact SlotOk.mapT f true ks vs (mapFieldTB_sound f true h1) h2 (all_scalarOk _ _ h3)
        (all_timeValOk true vs h4) (keysDistinctB_sound ks h5)
  | .int i, h => slotOkB_plain S f (.int i) (by simp only [slotOkB] at h; exact h)
  | .bool b, h => slotOkB_plain S f (.bool b) (by simp only [slotOkB] at h; exact h)
  | .f32 b, h => slotOkB_plain S f (.f32 b) (by simp only [slotOkB] at h; exact h)
  | .f64 b, h => slotOkB_plain S f (.f64 b) (by simp only [slotOkB] at h; exact h)
  | .str s, h => slotOkB_plain S f (.str s) (by simp only [slotOkB] at h; exact h)
  | .byt s, h => slotOkB_plain S f (.byt s) (by simp only [slotOkB] at h; exact h)

theorem msgsOkB_sound (S : Schema) (c : Nat) : ∀ (xs : List Val), msgsOkB S c xs = true → MsgsOk S c xs
  | [], _ => MsgsOk.nil c
  | .msg c' sl ow unk cur :: xs, h => by
    rw [msgsOkB] at h
    simp only [Bool.and_eq_true, beq_iff_eq] at h
    obtain ⟨⟨hc, h1⟩, h2⟩ := h
    subst hc
    cases hd : S[c']? with
    | none => rw [hd] at h1; exact absurd h1 (by simp)
    | some d =>
      rw [hd] at h1
      simp only [Bool.and_eq_true] at h1
      exact MsgsOk.cons c' sl ow unk cur xs
        (msgOk_of_shape S c' d sl ow unk cur hd h1.1 (slotsOkB_sound S d.fields sl h1.2))
        (msgsOkB_sound S c' xs h2)
  | .ph :: _, h | .none :: _, h | .int _ :: _, h | .bool _ :: _, h | .f32 _ :: _, h | .f64 _ :: _, h
  | .str _ :: _, h | .byt _ :: _, h | .ts _ :: _, h | .dur _ :: _, h | .list _ :: _, h | .dict _ _ :: _, h => by
    simp [msgsOkB] at h
end

/-! ### non-vacuity

  A schema with a recursive class `Node` (int32, optional string, a oneof of a bool and a
  `Node`, repeated `Node`, packed repeated sint64), the wrapper class `Int32Value`, and a class
  `Top` with a `Node`, a Timestamp, an `Optional[int]` wrapper, a `map<string, Node>`, a
  `map<int32, float>`, an optional Duration, a repeated Timestamp (holding the epoch and a
  pre-epoch datetime) and a `map<string, Duration>` (holding a zero and a negative timedelta).
  `mEx` nests three instances deep, carries
  the unknown record "field 2047, varint 5" at two levels, and uses every field kind. -/
namespace OkEx

def nodeD : MsgD :=
  { fields := [{ name := "i", num := 1, ty := .int32 },
               { name := "s", num := 2, ty := .string, optional := true },
               { name := "a", num := 3, ty := .bool, group := some 0 },
               { name := "sub", num := 4, ty := .message, kind := .user 0, group := some 0 },
               { name := "kids", num := 5, ty := .message, kind := .user 0, repeated := true },
               { name := "r", num := 6, ty := .sint64, repeated := true }],
    nGroups := 1 }

def topD : MsgD :=
  { fields := [{ name := "node", num := 1, ty := .message, kind := .user 0 },
               { name := "t", num := 2, ty := .message, kind := .timestamp },
               { name := "w", num := 3, ty := .message, kind := .user 2, wraps := some .int32 },
               { name := "m1", num := 4, ty := .map, mapK := .string, mapV := .message, mapVKind := .user 0 },
               { name := "m2", num := 5, ty := .map, mapK := .int32, mapV := .float },
               { name := "d", num := 6, ty := .message, kind := .duration, optional := true },
               { name := "tl", num := 7, ty := .message, kind := .timestamp, repeated := true },
               { name := "md", num := 8, ty := .map, mapK := .string, mapV := .message, mapVKind := .duration }] }

def SEx : Schema := [nodeD, topD, wrapperD .int32]

/-- field 2047 (unknown to `Node`), wire type varint, value 5 -/
def unkEx : Bytes := [0xf8, 0x7f, 0x05]

/-- `Node(i=5, a=True, r=[-3, 1000000])` -/
def leaf1 : Val := .msg 0 [.int 5, .none, .bool true, .ph, .ph, .list [.int (-3), .int 1000000]] false [] [some 2]
/-- `Node(s="hi", kids=[])` parsed from bytes that also held the unknown record -/
def leaf2 : Val := .msg 0 [.ph, .str [104, 105], .ph, .ph, .list [], .ph] true unkEx [Option.none]
/-- a fresh `Node()` -/
def leaf0 : Val := .msg 0 [.ph, .none, .ph, .ph, .ph, .ph] false [] [Option.none]
/-- `Node(i=-7, s="", sub=leaf1, kids=[leaf2, leaf0], r=[-1, 150])` with unknown fields -/
def mid : Val :=
  .msg 0 [.int (-7), .str [], .ph, leaf1, .list [leaf2, leaf0], .list [.int (-1), .int 150]] true unkEx [some 3]

def slEx : List Val :=
  [mid, .ts 1700000000123456, .int 42,
   .dict [.str [107], .str []] [leaf2, leaf0],
   .dict [.int 1, .int (-2)] [.f32 0x3fc00000, .f32 0],
   .dur (-1500000),
   .list [.ts 0, .ts (-1500000), .ts 1700000000123456],
   .dict [.str [122], .str [110], .str []] [.dur 0, .dur (-1500000), .dur 86400000001]]

def mEx : Val := .msg 1 slEx false [] []

/-- `bytes(mEx)`, computed with `#eval dumpVal SEx mEx` -/
def bsEx : Bytes :=
  [10, 44, 8, 249, 255, 255, 255, 255, 255, 255, 255, 255, 1, 18, 0, 34, 10, 8, 5, 24, 1, 50, 4, 5, 128, 137,
   122, 42, 7, 18, 2, 104, 105, 248, 127, 5, 42, 0, 50, 3, 1, 172, 2, 248, 127, 5, 18, 11, 8, 128, 226, 207, 170, 6, 16,
   128, 148, 239, 58, 26, 2, 8, 42, 34, 12, 10, 1, 107, 18, 7, 18, 2, 104, 105, 248, 127, 5, 34, 0, 42, 7, 8, 1, 21, 0, 0,
   192, 63, 42, 16, 8, 254, 255, 255, 255, 255, 255, 255, 255, 255, 1, 21, 0, 0, 0, 0, 50, 22, 8, 255, 255, 255, 255, 255,
   255, 255, 255, 255, 1, 16, 128, 182, 202, 145, 254, 255, 255, 255, 255, 1, 58, 0, 58, 17, 8, 254, 255, 255, 255, 255,
   255, 255, 255, 255, 1, 16, 128, 202, 181, 238, 1, 58, 11, 8, 128, 226, 207, 170, 6, 16, 128, 148, 239, 58, 66, 3, 10,
   1, 122, 66, 27, 10, 1, 110, 18, 22, 8, 255, 255, 255, 255, 255, 255, 255, 255, 255, 1, 16, 128, 182, 202, 145, 254,
   255, 255, 255, 255, 1, 66, 9, 18, 7, 8, 128, 163, 5, 16, 232, 7]

/-- `Node` does not define field 2047, and the three bytes are one well-formed record -/
example : unkOkB nodeD unkEx = true := by decide

/-- the checker accepts the value (kernel evaluation) -/
example : msgOkB SEx mEx = true := by decide

/-- ... so it is in the domain of the round-trip theorem -/
theorem mEx_ok : MsgOk SEx mEx := msgOkB_sound _ _ (by decide)

set_option maxRecDepth 8000 in
theorem mEx_dump : dumpVal SEx mEx = .ok bsEx := by decide

/-- the checker is not trivially true: the same value with the oneof selection removed, with a
    selected member left unset, with an out-of-range int32, with a duplicate dict key, or with
    "unknown" bytes that are a record of a field the class defines, is rejected -/
example : msgOkB SEx (.msg 0 [.ph, .none, .bool true, .ph, .ph, .ph] false [] [Option.none]) = false := by decide
example : msgOkB SEx (.msg 0 [.ph, .none, .ph, .ph, .ph, .ph] false [] [some 2]) = false := by decide
example : msgOkB SEx (.msg 0 [.int 2147483648, .none, .ph, .ph, .ph, .ph] false [] [Option.none]) = false := by decide
example : msgOkB SEx (.msg 1 [.ph, .ph, .ph, .ph, .dict [.int 1, .bool true] [.f32 0, .f32 0], .none, .ph, .ph] false [] []) = false := by
  decide
/-- ... and so are an out-of-range datetime in the repeated Timestamp field, a timedelta in it, a
    datetime as a Duration map value; the same shapes with in-range values of the right type pass -/
example : msgOkB SEx (.msg 1 [.ph, .ph, .ph, .ph, .ph, .none, .list [.ts 253402300800000000], .ph] false [] []) = false := by
  decide
example : msgOkB SEx (.msg 1 [.ph, .ph, .ph, .ph, .ph, .none, .list [.dur 0], .ph] false [] []) = false := by decide
example : msgOkB SEx (.msg 1 [.ph, .ph, .ph, .ph, .ph, .none, .ph, .dict [.str []] [.ts 0]] false [] []) = false := by decide
example : msgOkB SEx (.msg 1 [.ph, .ph, .ph, .ph, .ph, .none, .list [.ts 253402300799999999], .dict [.str []] [.dur 0]] false [] [])
    = true := by decide
example : msgOkB SEx (.msg 0 [.ph, .none, .ph, .ph, .ph, .ph] false [8, 5] [Option.none]) = false := by decide
example : msgOkB SEx (.msg 0 [.ph, .none, .ph, .ph, .ph, .ph] false [0xf8, 0x7f] [Option.none]) = false := by decide

set_option maxRecDepth 8000 in
theorem bsEx_short : bsEx.length < 2 ^ 64 := by
  have : bsEx.length ≤ 400 := by decide
  omega

/-- **the hypotheses of `roundtrip_nested_partial` are jointly satisfiable by a non-trivial value**:
    the theorem instantiated on `mEx` -/
example : ∃ sl', parse SEx 1 bsEx = .ok (.msg 1 sl' true [] [])
    ∧ ValEqv SEx mEx (.msg 1 sl' true [] [])
    ∧ dumpVal SEx (.msg 1 sl' true [] []) = .ok bsEx :=
  Bp.C01.roundtrip_nested_partial SEx 1 topD rfl slEx false [] [] mEx_ok bsEx mEx_dump bsEx_short


/-- what the theorem promises can also be observed by evaluation (kernel reduction: the
    elaborator's `decide` is too slow on the decoder), and the decoded value is again in the
    domain of the theorem -/
theorem mEx_reparse : (parse SEx 1 bsEx).bind (dumpVal SEx) = .ok bsEx := by decide +kernel
theorem mEx_reparse_ok : ((parse SEx 1 bsEx).bind fun m => .ok (msgOkB SEx m)) = .ok true := by decide +kernel

end OkEx

#print axioms msgOkB_sound
#print axioms slotsOkB_sound
#print axioms slotOkB_sound
#print axioms msgsOkB_sound
#print axioms unkOkB_sound
#print axioms OkEx.mEx_ok
#print axioms OkEx.mEx_dump
#print axioms OkEx.mEx_reparse
#print axioms OkEx.mEx_reparse_ok

end Bp
