import BpModel.All
import BpProofs.Load
/-
  Helper lemmas for C07 / C06 / C14: the oneof invariant and its preservation by every
  operation of the instance state machine.
-/
namespace Bp

def WfGroups (fs : List FieldD) (n : Nat) : Prop := ∀ f ∈ fs, ∀ g, f.group = some g → g < n

/-- the raw slot holds "not set": PLACEHOLDER, or None for an optional member -/
def SentinelAt (f : FieldD) (v : Val) : Prop := v = .ph ∨ (f.optional = true ∧ v = .none)

/-- **the oneof invariant**: every member of a group other than the selected one is unset -/
def Inv (fs : List FieldD) (n : Nat) (st : MState) : Prop :=
  st.cur.length = n ∧
  ∀ i f g, fs[i]? = some f → f.group = some g → st.cur.getD g Option.none ≠ some i →
    SentinelAt f (st.slots.getD i .ph)

theorem getD_setAt_ne (xs : List Val) (i j : Nat) (v : Val) (h : i ≠ j) :
    (setAt xs i v).getD j .ph = xs.getD j .ph := by
  unfold setAt
  simp [List.getD_eq_getElem?_getD, List.getElem?_set, h]

theorem resetGroup_same (g idx : Nat) (fs : List FieldD) (ss : List Val) (j k : Nat) (fk : FieldD)
    (hf : fs[k]? = some fk) (hg : fk.group = some g) (hne : j + k ≠ idx) :
    (resetGroup g idx fs ss j).getD k .ph = .ph := by
  induction fs generalizing ss j k with
  | nil => simp at hf
  | cons f fs ih =>
    cases ss with
    | nil => simp [resetGroup]
    | cons s ss =>
      cases k with
      | zero =>
        simp at hf; subst hf
        simp [resetGroup, hg]
        intro h; omega
      | succ k =>
        simp at hf
        simp only [resetGroup, List.getD_cons_succ]
        exact ih ss (j + 1) k hf (by omega)

theorem resetGroup_other (g idx : Nat) (fs : List FieldD) (ss : List Val) (j k : Nat) (fk : FieldD)
    (hf : fs[k]? = some fk) (hg : fk.group ≠ some g) :
    (resetGroup g idx fs ss j).getD k .ph = ss.getD k .ph := by
  induction fs generalizing ss j k with
  | nil => simp at hf
  | cons f fs ih =>
    cases ss with
    | nil => simp [resetGroup]
    | cons s ss =>
      cases k with
      | zero =>
        simp at hf; subst hf
        have : (f.group == some g) = false := by simpa using hg
        simp [resetGroup, this]
      | succ k =>
        simp at hf
        simp only [resetGroup, List.getD_cons_succ]
        exact ih ss (j + 1) k hf

theorem getD_set_cur (cur : List (Option Nat)) (g g' : Nat) (x : Option Nat) :
    (cur.set g x).getD g' Option.none = if g = g' ∧ g < cur.length then x else cur.getD g' Option.none := by
  simp only [List.getD_eq_getElem?_getD, List.getElem?_set]
  by_cases h : g = g'
  · subst h
    by_cases hl : g < cur.length
    · simp [hl]
    · simp [hl]
  · simp [h]

/-- `__setattr__` keeps the invariant, whatever is assigned to whichever field -/
theorem setAttr_inv (S : Schema) (fs : List FieldD) (n : Nat) (st : MState) (idx : Nat) (v : Val)
    (hw : WfGroups fs n) (h : Inv fs n st) : Inv fs n (setAttr S fs st idx v) := by
  obtain ⟨hlen, hinv⟩ := h
  unfold setAttr
  dsimp only
  cases hf : fs[idx]? with
  | none => exact ⟨hlen, hinv⟩
  | some f =>
    dsimp only
    cases hg : f.group with
    | none =>
      dsimp only
      refine ⟨hlen, ?_⟩
      intro i fi gi hfi hgi hcur
      have hne : idx ≠ i := by
        intro e; subst e; rw [hf] at hfi; injection hfi with e; subst e; rw [hg] at hgi; simp at hgi
      rw [getD_setAt_ne _ _ _ _ hne]
      exact hinv i fi gi hfi hgi hcur
    | some g =>
      dsimp only
      have hgn : g < n := hw f (List.mem_of_getElem? hf) g hg
      refine ⟨by simp [hlen], ?_⟩
      intro i fi gi hfi hgi hcur
      rw [getD_set_cur] at hcur
      by_cases e : gi = g
      · subst e
        simp [hlen, hgn] at hcur
        have hne : idx ≠ i := fun e => hcur (by rw [e])
        rw [getD_setAt_ne _ _ _ _ hne]
        left
        exact resetGroup_same gi idx fs st.slots 0 i fi hfi hgi (by omega)
      · have hne : idx ≠ i := by
          intro e'; subst e'; rw [hf] at hfi; injection hfi with e''; subst e''; rw [hg] at hgi
          injection hgi with e3; exact e e3.symm
        have : ¬ (g = gi ∧ g < st.cur.length) := fun hh => e hh.1.symm
        simp only [this, if_false] at hcur
        rw [getD_setAt_ne _ _ _ _ hne, resetGroup_other g idx fs st.slots 0 i fi hfi (by rw [hgi]; simpa using e)]
        exact hinv i fi gi hfi hgi hcur

/-- after assigning member `idx` of group `g` — any value, its default included — it is the
    selected member -/
theorem setAttr_selects (S : Schema) (fs : List FieldD) (st : MState) (idx : Nat) (v : Val) (f : FieldD) (g : Nat)
    (hf : fs[idx]? = some f) (hg : f.group = some g) (hl : g < st.cur.length) :
    (setAttr S fs st idx v).cur.getD g Option.none = some idx := by
  unfold setAttr
  simp only [hf, hg]
  rw [getD_set_cur]; simp [hl]

/-- updating the slot of a member that is currently readable (not hidden) keeps the invariant -/
theorem setSlot_inv (fs : List FieldD) (n : Nat) (st : MState) (idx : Nat) (f : FieldD) (v : Val)
    (hf : fs[idx]? = some f) (hvis : hidden f idx st.cur = false) (h : Inv fs n st) :
    Inv fs n { st with slots := setAt st.slots idx v } := by
  obtain ⟨hlen, hinv⟩ := h
  refine ⟨hlen, ?_⟩
  intro i fi gi hfi hgi hcur
  have hne : idx ≠ i := by
    intro e; subst e
    rw [hf] at hfi; injection hfi with e; subst e
    unfold hidden at hvis
    rw [hgi] at hvis
    simp at hvis
    exact hcur hvis
  simp only
  rw [getD_setAt_ne _ _ _ _ hne]
  exact hinv i fi gi hfi hgi hcur

theorem prepCurrent_inv (S : Schema) (d : MsgD) (n : Nat) (st : MState) (idx : Nat) (f : FieldD)
    (hf : d.fields[idx]? = some f) (hw : WfGroups d.fields n) (h : Inv d.fields n st) :
    Inv d.fields n (prepCurrent S d st idx f) := by
  unfold prepCurrent
  split
  · exact setAttr_inv S d.fields n st idx _ hw h
  · rename_i hh
    exact setSlot_inv d.fields n st idx f _ hf (by simpa using hh) h

/-- after `prepCurrent` the field is readable -/
theorem prepCurrent_visible (S : Schema) (d : MsgD) (n : Nat) (st : MState) (idx : Nat) (f : FieldD)
    (hf : d.fields[idx]? = some f) (hw : WfGroups d.fields n) (hlen : st.cur.length = n) :
    hidden f idx (prepCurrent S d st idx f).cur = false := by
  unfold prepCurrent
  split
  · rename_i hh
    unfold hidden at hh ⊢
    cases hg : f.group with
    | none => rfl
    | some g =>
      have hgn : g < n := hw f (List.mem_of_getElem? hf) g hg
      dsimp only
      rw [setAttr_selects S d.fields st idx _ f g hf hg (by omega)]
      simp
  · rename_i hh; simpa using hh

theorem storeValue_inv (S : Schema) (d : MsgD) (n : Nat) (st st' : MState) (idx : Nat) (f : FieldD) (v : Val)
    (hf : d.fields[idx]? = some f) (hw : WfGroups d.fields n) (hvis : hidden f idx st.cur = false)
    (h : Inv d.fields n st) (hs : storeValue S d st idx f v = .ok st') : Inv d.fields n st' := by
  unfold storeValue at hs
  dsimp only at hs
  split at hs
  · split at hs
    · injection hs with hs; subst hs
      exact setSlot_inv d.fields n st idx f _ hf hvis h
    · simp at hs
  · split at hs
    · split at hs <;> (injection hs with hs; subst hs; exact setSlot_inv d.fields n st idx f _ hf hvis h)
    · injection hs with hs; subst hs
      exact setAttr_inv S d.fields n st idx v hw h

theorem applyField_inv (S : Schema) (rec : Loader) (d : MsgD) (n : Nat) (st st' : MState) (pf : PField)
    (hw : WfGroups d.fields n) (h : Inv d.fields n st) (ha : applyField S rec d st pf = .ok st') :
    Inv d.fields n st' := by
  unfold applyField at ha
  split at ha
  · injection ha with ha; subst ha; exact h
  · rename_i idx hidx
    split at ha
    · simp at ha
    · rename_i f hf
      split at ha
      · injection ha with ha; subst ha; exact h
      · cases hv : decodeValue S rec f pf with
        | error e => rw [hv] at ha; simp at ha
        | ok value =>
          rw [hv] at ha; simp only [bind_ok] at ha
          exact storeValue_inv S d n _ st' idx f value hf hw
            (prepCurrent_visible S d n st idx f hf hw h.1)
            (prepCurrent_inv S d n st idx f hf hw h) ha

theorem foldFields_inv (S : Schema) (rec : Loader) (d : MsgD) (n : Nat) (pfs : List PField) (st st' : MState)
    (hw : WfGroups d.fields n) (h : Inv d.fields n st) (hf : foldFields S rec d st pfs = .ok st') :
    Inv d.fields n st' := by
  induction pfs generalizing st with
  | nil => rw [foldFields] at hf; injection hf with hf; subst hf; exact h
  | cons pf pfs ih =>
    rw [foldFields] at hf
    cases ha : applyField S rec d st pf with
    | error e => rw [ha] at hf; simp at hf
    | ok s1 =>
      rw [ha] at hf; simp only [bind_ok] at hf
      exact ih s1 (applyField_inv S rec d n st s1 pf hw h ha) hf

theorem loadInto_inv (S : Schema) (fuel : Nat) (d : MsgD) (n : Nat) (st st' : MState) (bs : Bytes)
    (hw : WfGroups d.fields n) (h : Inv d.fields n st) (hl : loadInto S fuel d st bs = .ok st') :
    Inv d.fields n st' := by
  cases fuel with
  | zero => simp [loadInto] at hl
  | succ f =>
    rw [loadInto_succ] at hl
    cases hp : loadFields bs with
    | error e => rw [hp] at hl; simp at hl
    | ok pfs =>
      rw [hp] at hl; simp only [bind_ok] at hl
      exact foldFields_inv S _ d n pfs { st with onWire := true } st' hw ⟨h.1, h.2⟩ hl


/-! ### construction and copies: `__post_init__` derives the selection -/

theorem isSentinel_iff (f : FieldD) (v : Val) : isSentinel f v = true ↔ SentinelAt f v := by
  unfold SentinelAt
  cases v <;> simp [isSentinel]

theorem initCur_length (fs : List FieldD) (vs : List Val) (i : Nat) (cur : List (Option Nat)) :
    (initCur fs vs i cur).length = cur.length := by
  induction fs generalizing vs i cur with
  | nil => simp [initCur]
  | cons f fs ih =>
    cases vs with
    | nil => simp [initCur]
    | cons v vs =>
      rw [initCur, ih]
      split
      · split <;> simp
      · rfl

/-- entries of groups none of whose (remaining) members is set stay as they are -/
theorem initCur_untouched (fs : List FieldD) (vs : List Val) (i : Nat) (cur : List (Option Nat)) (g : Nat)
    (h : ∀ k f, fs[k]? = some f → f.group = some g → isSentinel f (vs.getD k .ph) = true) :
    (initCur fs vs i cur).getD g Option.none = cur.getD g Option.none := by
  induction fs generalizing vs i cur with
  | nil => simp [initCur]
  | cons f fs ih =>
    cases vs with
    | nil => simp [initCur]
    | cons v vs =>
      rw [initCur, ih]
      · split
        · rename_i g' hg'
          split
          · rename_i hs
            by_cases e : g' = g
            · subst e
              have := h 0 f (by simp) hg'
              simp at this
              rw [this] at hs; simp at hs
            · rw [getD_set_cur]; simp [e]
          · rfl
        · rfl
      · intro k f' hk hg
        have := h (k + 1) f' (by simpa using hk) hg
        simpa using this

/-- the last set member of a group is the one `__post_init__` selects -/
theorem initCur_last (fs : List FieldD) (vs : List Val) (i0 : Nat) (cur : List (Option Nat)) (g k : Nat) (f : FieldD)
    (hl : g < cur.length) (hf : fs[k]? = some f) (hg : f.group = some g)
    (hset : isSentinel f (vs.getD k .ph) = false)
    (hlater : ∀ k' f', k < k' → fs[k']? = some f' → f'.group = some g → isSentinel f' (vs.getD k' .ph) = true) :
    (initCur fs vs i0 cur).getD g Option.none = some (i0 + k) := by
  induction fs generalizing vs i0 cur k with
  | nil => simp at hf
  | cons f0 fs ih =>
    cases vs with
    | nil => simp [isSentinel] at hset
    | cons v vs =>
      rw [initCur]
      cases k with
      | zero =>
        simp at hf; subst hf
        simp at hset
        simp only [hg, hset, Bool.not_false, if_true]
        rw [initCur_untouched]
        · rw [getD_set_cur]; simp [hl]
        · intro k' f' hk' hg'
          have := hlater (k' + 1) f' (by omega) (by simpa using hk') hg'
          simpa using this
      | succ k =>
        simp at hf
        have := ih vs (i0 + 1)
          (match f0.group with
            | some g => if (!isSentinel f0 v) = true then cur.set g (some i0) else cur
            | none => cur) k
          (by split <;> (try split) <;> simp [hl]) hf (by simpa using hset)
          (by intro k' f' hk' hf' hg'
              have := hlater (k' + 1) f' (by omega) (by simpa using hf') hg'
              simpa using this)
        have e : i0 + (k + 1) = i0 + 1 + k := by omega
        rw [e]; exact this

/-- at most one member of each group is set in the raw slots -/
def AtMostOne (fs : List FieldD) (vs : List Val) : Prop :=
  ∀ i j fi fj g, fs[i]? = some fi → fs[j]? = some fj → fi.group = some g → fj.group = some g →
    isSentinel fi (vs.getD i .ph) = false → isSentinel fj (vs.getD j .ph) = false → i = j

/-- a state whose selection was derived by `__post_init__` from slots with at most one set
    member per group satisfies the invariant -/
theorem postInit_inv (fs : List FieldD) (n : Nat) (vs : List Val) (ow : Bool) (unk : Bytes)
    (hw : WfGroups fs n) (h1 : AtMostOne fs vs) :
    Inv fs n { slots := vs, onWire := ow, unknown := unk,
               cur := initCur fs vs 0 (List.replicate n Option.none) } := by
  refine ⟨by simp [initCur_length], ?_⟩
  intro i f g hf hg hcur
  simp only at hcur ⊢
  rw [← isSentinel_iff]
  by_contra hns
  have hns' : isSentinel f (vs.getD i .ph) = false := by simpa using hns
  have hgn : g < n := hw f (List.mem_of_getElem? hf) g hg
  have := initCur_last fs vs 0 (List.replicate n Option.none) g i f (by simp [hgn]) hf hg hns'
    (by intro k' f' hk hf' hg'
        by_contra hc
        have hc' : isSentinel f' (vs.getD k' .ph) = false := by simpa using hc
        have := h1 i k' f f' g hf hf' hg hg' hns' hc'
        omega)
  rw [this] at hcur
  simp at hcur

/-- the invariant implies at most one set member per group -/
theorem inv_atMostOne (fs : List FieldD) (n : Nat) (st : MState) (h : Inv fs n st) : AtMostOne fs st.slots := by
  intro i j fi fj g hfi hfj hgi hgj hi hj
  by_contra hne
  have hi' : ¬ SentinelAt fi (st.slots.getD i .ph) := by rw [← isSentinel_iff, hi]; simp
  have hj' : ¬ SentinelAt fj (st.slots.getD j .ph) := by rw [← isSentinel_iff, hj]; simp
  have ci : st.cur.getD g Option.none = some i := by
    by_contra hc; exact hi' (h.2 i fi g hfi hgi hc)
  have cj : st.cur.getD g Option.none = some j := by
    by_contra hc; exact hj' (h.2 j fj g hfj hgj hc)
  rw [ci] at cj; injection cj with e; exact hne e


/-! ### copies -/

theorem deepCopy_sentinel (S : Schema) (f : FieldD) (v : Val) :
    isSentinel f (deepCopy S v) = isSentinel f v := by
  cases v <;> simp [deepCopy, isSentinel]

theorem deepCopySlots_cons (S : Schema) (f : FieldD) (fs : List FieldD) (v : Val) (vs : List Val) :
    deepCopySlots S (f :: fs) (v :: vs) =
      (match v with
       | .ph => if f.optional then Val.none else Val.ph
       | v => deepCopy S v) :: deepCopySlots S fs vs := by
  cases v <;> rw [deepCopySlots] <;> (intros; contradiction)

theorem deepCopySlots_sentinel (S : Schema) (fs : List FieldD) (sl : List Val) (i : Nat) (fi : FieldD)
    (hf : fs[i]? = some fi) :
    isSentinel fi ((deepCopySlots S fs sl).getD i .ph) = isSentinel fi (sl.getD i .ph) := by
  induction fs generalizing sl i with
  | nil => simp at hf
  | cons f fs ih =>
    cases sl with
    | nil => simp [deepCopySlots]
    | cons v vs =>
      rw [deepCopySlots_cons]
      cases i with
      | zero =>
        simp at hf; subst hf
        simp only [List.getD_cons_zero]
        cases v <;> simp [isSentinel, deepCopy]
        split <;> simp_all [isSentinel]
      | succ i =>
        simp at hf
        simp only [List.getD_cons_succ]
        exact ih vs i hf

theorem shallowSlots_sentinel (fs : List FieldD) (sl : List Val) (i : Nat) (fi : FieldD)
    (hf : fs[i]? = some fi) :
    isSentinel fi (((sl.zip fs).map fun (p : Val × FieldD) => match p.1 with
        | .ph => if p.2.optional then Val.none else Val.ph
        | v => v).getD i .ph) = isSentinel fi (sl.getD i .ph) := by
  induction fs generalizing sl i with
  | nil => simp at hf
  | cons f fs ih =>
    cases sl with
    | nil => simp
    | cons v vs =>
      cases i with
      | zero =>
        simp at hf; subst hf
        simp only [List.zip_cons_cons, List.map_cons, List.getD_cons_zero]
        cases v <;> simp [isSentinel]
        split <;> simp_all [isSentinel]
      | succ i =>
        simp at hf
        simp only [List.zip_cons_cons, List.map_cons, List.getD_cons_succ]
        exact ih vs i hf

theorem atMostOne_of_sentinel_eq (fs : List FieldD) (vs vs' : List Val)
    (he : ∀ i fi, fs[i]? = some fi → isSentinel fi (vs'.getD i .ph) = isSentinel fi (vs.getD i .ph))
    (h : AtMostOne fs vs) : AtMostOne fs vs' := by
  intro i j fi fj g hfi hfj hgi hgj hi hj
  rw [he i fi hfi] at hi
  rw [he j fj hfj] at hj
  exact h i j fi fj g hfi hfj hgi hgj hi hj

/-- the invariant only looks at WHICH slots are unset: a state with the same selection and
    slot-wise the same sentinel-ness satisfies it too -/
theorem inv_of_sentinel_eq (fs : List FieldD) (n : Nat) (vs vs' : List Val) (ow : Bool) (unk : Bytes) (cur : List (Option Nat))
    (he : ∀ i fi, fs[i]? = some fi → isSentinel fi (vs'.getD i .ph) = isSentinel fi (vs.getD i .ph))
    (h : Inv fs n { slots := vs, onWire := ow, unknown := unk, cur := cur }) :
    Inv fs n { slots := vs', onWire := ow, unknown := unk, cur := cur } := by
  refine ⟨h.1, ?_⟩
  intro i f g hf hg hcur
  have := h.2 i f g hf hg hcur
  simp only at this ⊢
  rw [← isSentinel_iff] at this ⊢
  rw [he i f hf]; exact this

theorem deepCopy_inv (S : Schema) (c : Nat) (sl : List Val) (ow : Bool) (unk : Bytes) (cur : List (Option Nat))
    (_hw : WfGroups (fieldsOf S c) (groupsOf S c))
    (h : Inv (fieldsOf S c) (groupsOf S c) { slots := sl, onWire := ow, unknown := unk, cur := cur }) :
    ∃ sl' cur', deepCopy S (.msg c sl ow unk cur) = .msg c sl' ow unk cur'
      ∧ Inv (fieldsOf S c) (groupsOf S c) { slots := sl', onWire := ow, unknown := unk, cur := cur' } := by
  refine ⟨_, _, by rw [deepCopy], ?_⟩
  exact inv_of_sentinel_eq _ _ sl _ ow unk cur (fun i fi hf => deepCopySlots_sentinel S _ sl i fi hf) h

theorem shallowCopy_inv (S : Schema) (c : Nat) (sl : List Val) (ow : Bool) (unk : Bytes) (cur : List (Option Nat))
    (_hw : WfGroups (fieldsOf S c) (groupsOf S c))
    (h : Inv (fieldsOf S c) (groupsOf S c) { slots := sl, onWire := ow, unknown := unk, cur := cur }) :
    ∃ sl' cur', shallowCopy S (.msg c sl ow unk cur) = .msg c sl' ow unk cur'
      ∧ Inv (fieldsOf S c) (groupsOf S c) { slots := sl', onWire := ow, unknown := unk, cur := cur' } := by
  refine ⟨_, _, rfl, ?_⟩
  exact inv_of_sentinel_eq _ _ sl _ ow unk cur (fun i fi hf => shallowSlots_sentinel _ sl i fi hf) h

/-! ### reads -/

theorem materializeAll_getD (S : Schema) (fs : List FieldD) (cur : List (Option Nat)) (j : Nat) (vs : List Val) (k : Nat) :
    (materializeAll S fs cur j vs).getD k .ph =
      match fs[j + k]? with
      | some f => if hidden f (j + k) cur then vs.getD k .ph
                  else if k < vs.length then materialize S f (vs.getD k .ph) else .ph
      | Option.none => vs.getD k .ph := by
  induction vs generalizing j k with
  | nil => simp [materializeAll]; split <;> (try split) <;> rfl
  | cons v vs ih =>
    cases k with
    | zero =>
      simp only [materializeAll, List.getD_cons_zero, Nat.add_zero]
      cases fs[j]? <;> simp
    | succ k =>
      simp only [materializeAll, List.getD_cons_succ]
      rw [ih (j + 1) k]
      have : j + 1 + k = j + (k + 1) := by omega
      rw [this]
      cases fs[j + (k + 1)]? <;> simp

theorem materializeAll_inv (S : Schema) (fs : List FieldD) (n : Nat) (st : MState) (h : Inv fs n st) :
    Inv fs n { st with slots := materializeAll S fs st.cur 0 st.slots } := by
  refine ⟨h.1, ?_⟩
  intro i f g hf hg hcur
  simp only at hcur ⊢
  rw [materializeAll_getD]
  simp only [Nat.zero_add, hf]
  have hh : hidden f i st.cur = true := by
    unfold hidden; rw [hg]; simpa using hcur
  simp only [hh, if_true]
  exact h.2 i f g hf hg hcur

theorem getAttr_inv (S : Schema) (fs : List FieldD) (n : Nat) (st st' : MState) (idx : Nat) (v : Val)
    (h : Inv fs n st) (hg : getAttr S fs st idx = .ok (v, st')) : Inv fs n st' := by
  unfold getAttr at hg
  split at hg
  · simp at hg
  · rename_i f hf
    split at hg
    · simp at hg
    · rename_i hh
      simp at hg
      obtain ⟨_, h2⟩ := hg
      subst h2
      exact setSlot_inv fs n st idx f _ hf (by simpa using hh) h

theorem applyKw_inv (S : Schema) (fs : List FieldD) (n : Nat) (kw : List (Nat × Val)) (st : MState)
    (hw : WfGroups fs n) (h : Inv fs n st) : Inv fs n (applyKw S fs st kw) := by
  induction kw generalizing st with
  | nil => exact h
  | cons p kw ih => obtain ⟨i, v⟩ := p; exact ih _ (setAttr_inv S fs n st i v hw h)

theorem fresh_inv (S : Schema) (c : Nat) :
    Inv (fieldsOf S c) (groupsOf S c) (freshState { fields := fieldsOf S c, nGroups := groupsOf S c }) := by
  refine ⟨by simp [freshState], ?_⟩
  intro i f g hf _ _
  simp only [freshState, List.getD_eq_getElem?_getD, List.getElem?_map, hf, Option.map_some, Option.getD_some]
  unfold SentinelAt
  by_cases ho : f.optional = true
  · simp [ho]
  · simp [ho]

end Bp
