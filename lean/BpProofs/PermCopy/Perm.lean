import BpModel.All
import BpProofs.PermCopy.Wf
import BpProofs.SpecCore
/- VERBATIM COPY of BpProofs/SpecPerm.lean in namespace `Bp.PermCopy` (only the namespace and the
   import lines differ).  Reason: `Bp.foldFields_append` / `Bp.setAt_setAt` are declared both in the
   C01 chain (Rt.lean) and in the C02 chain (SpecWf.lean / SpecState.lean), so the two chains cannot
   be imported together; the C08 evolution theorem needs both.  Delete these copies once the
   duplicate names are renamed. -/
/-
  C02 helper lemmas, part 10: reordering.  Every record belongs to a class — the field it
  targets, or the oneof group of that field, or "unknown".  A decode step only reads and
  writes the footprint of its class (frame + locality), so the footprint of a class after
  decoding a record list depends only on the sub-list of that class.
-/
namespace Bp.PermCopy
open Gen

inductive Cls
  | unknown
  | field (i : Nat)
  | group (g : Nat)
  deriving DecidableEq, Repr

/-- the class of a record for the receiving message class `d` -/
def classOf (d : MsgD) (pf : PField) : Cls :=
  match findField d.fields pf.num with
  | Option.none => .unknown
  | some idx =>
    match d.fields[idx]? with
    | Option.none => .field idx
    | some f =>
      if !wireFits f pf.wt then .unknown
      else match f.group with
        | some g => .group g
        | Option.none => .field idx

/-- what a record of field `idx` = `f` may read or write: its own slot, and — for a oneof
    member — the selection of its group and the slots of all members of the group -/
def AgreeFoot (fs : List FieldD) (f : FieldD) (idx : Nat) (a b : MState) : Prop :=
  a.slots.getD idx .ph = b.slots.getD idx .ph ∧
  ∀ g, f.group = some g →
    a.cur.getD g Option.none = b.cur.getD g Option.none ∧
    ∀ k, grp fs k = some g → a.slots.getD k .ph = b.slots.getD k .ph

def SameShape (a b : MState) : Prop := a.slots.length = b.slots.length ∧ a.cur.length = b.cur.length

/-- agreement of two states on the footprint of a class -/
def AgreeOn (d : MsgD) : Cls → MState → MState → Prop
  | .unknown, _, _ => True
  | .field i, a, b => a.slots.getD i .ph = b.slots.getD i .ph
  | .group g, a, b =>
    a.cur.getD g Option.none = b.cur.getD g Option.none ∧
    ∀ k, grp d.fields k = some g → a.slots.getD k .ph = b.slots.getD k .ph

/-- classes that partition the state: a field outside every oneof, or a oneof group -/
def Legit (d : MsgD) : Cls → Prop
  | .field i => grp d.fields i = Option.none
  | _ => True

theorem classOf_targets (d : MsgD) (pf : PField) (idx : Nat) (f : FieldD) (h : Targets d pf idx f) :
    classOf d pf = (match f.group with | some g => Cls.group g | Option.none => Cls.field idx) := by
  obtain ⟨h1, h2, h3⟩ := h
  unfold classOf
  simp only [h1, h2, h3, Bool.not_true, Bool.false_eq_true, if_false]

theorem classOf_unknown (d : MsgD) (pf : PField) (h : isUnknownField d pf = true) : classOf d pf = .unknown := by
  unfold isUnknownField at h
  unfold classOf
  cases h1 : findField d.fields pf.num with
  | none => rfl
  | some idx =>
    rw [h1] at h
    simp only at h ⊢
    cases h2 : d.fields[idx]? with
    | none => rw [h2] at h; simp at h
    | some f => rw [h2] at h; simp only at h ⊢; simp [h]

theorem agreeOn_of_foot (d : MsgD) (f : FieldD) (idx : Nat) (a b : MState) (hf : d.fields[idx]? = some f) :
    AgreeOn d (match f.group with | some g => Cls.group g | Option.none => Cls.field idx) a b
      ↔ AgreeFoot d.fields f idx a b := by
  unfold AgreeFoot
  cases hg : f.group with
  | none => simp [AgreeOn]
  | some g =>
    simp only [AgreeOn]
    constructor
    · intro ⟨h1, h2⟩
      exact ⟨h2 idx (by rw [grp_of _ _ _ hf, hg]), fun g' e => by injection e with e; subst e; exact ⟨h1, h2⟩⟩
    · intro ⟨_, h2⟩
      exact h2 g rfl

/-! ### frame: what a record does not touch -/

theorem applyField_frame (S : Schema) (rec : Loader) (d : MsgD) (a a' : MState) (pf : PField) (idx : Nat) (f : FieldD)
    (ht : Targets d pf idx f) (h : applyField S rec d a pf = .ok a') :
    (∀ k, k ≠ idx → ¬ (f.group.isSome ∧ grp d.fields k = f.group) → a'.slots.getD k .ph = a.slots.getD k .ph)
    ∧ (∀ g', f.group ≠ some g' → a'.cur.getD g' Option.none = a.cur.getD g' Option.none) := by
  have hf := ht.2.1
  rw [applyField_targets S rec d a pf idx f ht] at h
  cases hv : decodeValue S rec f pf with
  | error e => rw [hv] at h; simp at h
  | ok v =>
    rw [hv] at h; simp only [bind_ok] at h
    have hslot_attr : ∀ (st : MState) (x : Val) (k : Nat), k ≠ idx → ¬ (f.group.isSome ∧ grp d.fields k = f.group) →
        (setAttr S d.fields st idx x).slots.getD k .ph = st.slots.getD k .ph := by
      intro st x k hk hg
      rw [setAttr_slots_getD S d.fields st idx x f hf k]
      have : ¬ (f.group.isSome ∧ grp d.fields k = f.group ∧ k ≠ idx) := fun hh => hg ⟨hh.1, hh.2.1⟩
      rw [if_neg (fun hh => hk hh.1), if_neg this]
    have hslot_at : ∀ (sl : List Val) (x : Val) (k : Nat), k ≠ idx → (setAt sl idx x).getD k .ph = sl.getD k .ph := by
      intro sl x k hk; rw [setAt_getD]; simp [hk]
    have hcur_attr : ∀ (st : MState) (x : Val) (g' : Nat), f.group ≠ some g' →
        (setAttr S d.fields st idx x).cur.getD g' Option.none = st.cur.getD g' Option.none := by
      intro st x g' hg
      rw [setAttr_cur_getD S d.fields st idx x f hf g']; simp [hg]
    have p1 : (∀ k, k ≠ idx → ¬ (f.group.isSome ∧ grp d.fields k = f.group) →
          (prepCurrent S d a idx f).slots.getD k .ph = a.slots.getD k .ph)
        ∧ (∀ g', f.group ≠ some g' → (prepCurrent S d a idx f).cur.getD g' Option.none = a.cur.getD g' Option.none) := by
      rcases prepCurrent_cases S d a idx f with ⟨_, e⟩ | ⟨_, e⟩ <;> rw [e]
      · exact ⟨fun k hk hg => hslot_attr a _ k hk hg, fun g' hg => hcur_attr a _ g' hg⟩
      · exact ⟨fun k hk _ => hslot_at _ _ k hk, fun _ _ => rfl⟩
    rcases storeValue_cases S d _ a' idx f v h with ⟨_, x, e⟩ | ⟨_, xs, _, e⟩ | ⟨_, _, e⟩ <;> rw [e]
    · exact ⟨fun k hk hg => (hslot_at _ _ k hk).trans (p1.1 k hk hg), fun g' hg => p1.2 g' hg⟩
    · exact ⟨fun k hk hg => (hslot_at _ _ k hk).trans (p1.1 k hk hg), fun g' hg => p1.2 g' hg⟩
    · exact ⟨fun k hk hg => (hslot_attr _ _ k hk hg).trans (p1.1 k hk hg),
        fun g' hg => (hcur_attr _ _ g' hg).trans (p1.2 g' hg)⟩

/-- **frame**: a record of another class leaves the footprint of class `c` as it was -/
theorem applyField_other_class (S : Schema) (rec : Loader) (d : MsgD) (a a' : MState) (pf : PField) (c : Cls)
    (hl : Legit d c) (hc : classOf d pf ≠ c) (h : applyField S rec d a pf = .ok a') : AgreeOn d c a' a := by
  rcases record_cases d pf with hu | ⟨idx, f, ht⟩ | ⟨idx, h1, h2⟩
  · rw [applyField_unknown S rec d a pf hu] at h
    injection h with h; subst h
    cases c <;> simp [AgreeOn]
  · obtain ⟨fr1, fr2⟩ := applyField_frame S rec d a a' pf idx f ht h
    have hf := ht.2.1
    rw [classOf_targets d pf idx f ht] at hc
    cases c with
    | unknown => trivial
    | field i =>
      simp only [Legit] at hl
      simp only [AgreeOn]
      have hne : i ≠ idx := by
        intro e; subst e
        have : f.group = Option.none := by rw [← grp_of _ _ _ hf]; exact hl
        rw [this] at hc; exact hc rfl
      exact fr1 i hne (fun hh => by rw [hl] at hh; cases hg : f.group <;> simp [hg] at hh)
    | group g =>
      have hg : f.group ≠ some g := by
        intro e; rw [e] at hc; exact hc rfl
      simp only [AgreeOn]
      refine ⟨fr2 g hg, fun k hk => fr1 k ?_ ?_⟩
      · intro e; subst e; rw [grp_of _ _ _ hf] at hk; exact hg hk
      · intro hh; rw [hk] at hh; exact hg hh.2.symm
  · rw [applyField_badtable S rec d a pf idx h1 h2] at h; simp at h

/-! ### locality: what a record does depends only on its own footprint -/

theorem hidden_agree (fs : List FieldD) (f : FieldD) (idx : Nat) (a b : MState) (h : AgreeFoot fs f idx a b) :
    hidden f idx a.cur = hidden f idx b.cur := by
  unfold hidden
  cases hg : f.group with
  | none => rfl
  | some g => simp only; rw [(h.2 g hg).1]

theorem agree_setAt (fs : List FieldD) (f : FieldD) (idx : Nat) (a b : MState) (x : Val)
    (hs : SameShape a b) (h : AgreeFoot fs f idx a b) :
    AgreeFoot fs f idx { a with slots := setAt a.slots idx x } { b with slots := setAt b.slots idx x } := by
  refine ⟨?_, fun g hg => ⟨(h.2 g hg).1, fun k hk => ?_⟩⟩
  · show (setAt a.slots idx x).getD idx .ph = (setAt b.slots idx x).getD idx .ph
    rw [setAt_getD, setAt_getD, hs.1, h.1]
  · show (setAt a.slots idx x).getD k .ph = (setAt b.slots idx x).getD k .ph
    rw [setAt_getD, setAt_getD, hs.1, (h.2 g hg).2 k hk]

theorem agree_setAttr (S : Schema) (d : MsgD) (f : FieldD) (idx : Nat) (a b : MState) (x : Val)
    (hf : d.fields[idx]? = some f) (hs : SameShape a b) (h : AgreeFoot d.fields f idx a b) :
    AgreeFoot d.fields f idx (setAttr S d.fields a idx x) (setAttr S d.fields b idx x) := by
  refine ⟨?_, fun g hg => ⟨?_, fun k hk => ?_⟩⟩
  · rw [setAttr_slots_getD S d.fields a idx x f hf idx, setAttr_slots_getD S d.fields b idx x f hf idx, hs.1, h.1]
  · rw [setAttr_cur_getD S d.fields a idx x f hf g, setAttr_cur_getD S d.fields b idx x f hf g, hs.2, (h.2 g hg).1]
  · rw [setAttr_slots_getD S d.fields a idx x f hf k, setAttr_slots_getD S d.fields b idx x f hf k, hs.1,
      (h.2 g hg).2 k hk]

theorem shape_setAttr (S : Schema) (fs : List FieldD) (a b : MState) (idx : Nat) (x : Val) (hs : SameShape a b) :
    SameShape (setAttr S fs a idx x) (setAttr S fs b idx x) :=
  ⟨by rw [setAttr_slots_length, setAttr_slots_length]; exact hs.1,
   by rw [setAttr_cur_length, setAttr_cur_length]; exact hs.2⟩

theorem shape_setAt (a b : MState) (idx : Nat) (x : Val) (hs : SameShape a b) :
    SameShape { a with slots := setAt a.slots idx x } { b with slots := setAt b.slots idx x } :=
  ⟨by simp only [setAt_length]; exact hs.1, hs.2⟩

/-- **locality**: on two states that agree on the footprint of the record's field, the
    decode step succeeds on both or on neither, and the results agree on the footprint -/
theorem applyField_local (S : Schema) (rec : Loader) (d : MsgD) (a b a' : MState) (pf : PField) (idx : Nat) (f : FieldD)
    (ht : Targets d pf idx f) (hs : SameShape a b) (hag : AgreeFoot d.fields f idx a b)
    (h : applyField S rec d a pf = .ok a') :
    ∃ b', applyField S rec d b pf = .ok b' ∧ AgreeFoot d.fields f idx a' b' := by
  have hf := ht.2.1
  rw [applyField_targets S rec d a pf idx f ht] at h
  rw [applyField_targets S rec d b pf idx f ht]
  cases hv : decodeValue S rec f pf with
  | error e => rw [hv] at h; simp at h
  | ok v =>
    rw [hv] at h; simp only [bind_ok] at h ⊢
    -- after `current = getattr(...)`
    have hh := hidden_agree d.fields f idx a b hag
    have p : SameShape (prepCurrent S d a idx f) (prepCurrent S d b idx f)
        ∧ AgreeFoot d.fields f idx (prepCurrent S d a idx f) (prepCurrent S d b idx f) := by
      rcases prepCurrent_cases S d a idx f with ⟨h1, e1⟩ | ⟨h1, e1⟩ <;>
        rcases prepCurrent_cases S d b idx f with ⟨h2, e2⟩ | ⟨h2, e2⟩
      · rw [e1, e2]; exact ⟨shape_setAttr S _ a b idx _ hs, agree_setAttr S d f idx a b _ hf hs hag⟩
      · rw [hh, h2] at h1; simp at h1
      · rw [hh, h2] at h1; simp at h1
      · rw [e1, e2, hag.1]; exact ⟨shape_setAt a b idx _ hs, agree_setAt d.fields f idx a b _ hs hag⟩
    obtain ⟨hs1, hag1⟩ := p
    generalize prepCurrent S d a idx f = a1 at h hs1 hag1
    generalize prepCurrent S d b idx f = b1 at hs1 hag1
    -- the store step
    have hcur := hag1.1
    unfold storeValue at h ⊢
    dsimp only at h ⊢
    rw [← hcur]
    split at h
    · rename_i hm
      simp only [hm, if_true]
      split at h
      · rename_i ks vs k x hc1 hc2
        injection h with h; subst h
        exact ⟨_, rfl, agree_setAt d.fields f idx a1 b1 _ hs1 hag1⟩
      · simp at h
    · rename_i hm
      simp only [hm, if_false]
      split at h
      · rename_i xs hc
        cases v <;> (injection h with h; subst h; exact ⟨_, rfl, agree_setAt d.fields f idx a1 b1 _ hs1 hag1⟩)
      · injection h with h; subst h
        exact ⟨_, rfl, agree_setAttr S d f idx a1 b1 _ hf hs1 hag1⟩

end Bp.PermCopy
