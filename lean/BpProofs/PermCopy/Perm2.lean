import BpModel.All
import BpProofs.PermCopy.Perm
/- VERBATIM COPY of BpProofs/SpecPerm2.lean in namespace `Bp.PermCopy` (only the namespace and the
   import lines differ).  Reason: `Bp.foldFields_append` / `Bp.setAt_setAt` are declared both in the
   C01 chain (Rt.lean) and in the C02 chain (SpecWf.lean / SpecState.lean), so the two chains cannot
   be imported together; the C08 evolution theorem needs both.  Delete these copies once the
   duplicate names are renamed. -/
/-
  C02 helper lemmas, part 11: from frame + locality to order insensitivity.
-/
namespace Bp.PermCopy
open Gen

def Sim (d : MsgD) (c : Cls) (a b : MState) : Prop := SameShape a b ∧ AgreeOn d c a b

theorem sim_refl (d : MsgD) (c : Cls) (a : MState) : Sim d c a a := by
  refine ⟨⟨rfl, rfl⟩, ?_⟩
  cases c <;> simp [AgreeOn]

theorem sim_symm (d : MsgD) (c : Cls) (a b : MState) (h : Sim d c a b) : Sim d c b a := by
  obtain ⟨⟨s1, s2⟩, ag⟩ := h
  refine ⟨⟨s1.symm, s2.symm⟩, ?_⟩
  cases c with
  | unknown => trivial
  | field i => exact ag.symm
  | group g => exact ⟨ag.1.symm, fun k hk => (ag.2 k hk).symm⟩

theorem sim_trans (d : MsgD) (c : Cls) (a b e : MState) (h1 : Sim d c a b) (h2 : Sim d c b e) : Sim d c a e := by
  obtain ⟨⟨s1, s2⟩, ag⟩ := h1
  obtain ⟨⟨t1, t2⟩, ag'⟩ := h2
  refine ⟨⟨s1.trans t1, s2.trans t2⟩, ?_⟩
  cases c with
  | unknown => trivial
  | field i => exact ag.trans ag'
  | group g => exact ⟨ag.1.trans ag'.1, fun k hk => (ag.2 k hk).trans (ag'.2 k hk)⟩

theorem classOf_legit (d : MsgD) (pf : PField) : Legit d (classOf d pf) := by
  unfold classOf
  cases h1 : findField d.fields pf.num with
  | none => trivial
  | some idx =>
    simp only
    cases h2 : d.fields[idx]? with
    | none => simp [Legit, grp, h2]
    | some f =>
      simp only
      split
      · trivial
      · cases hg : f.group with
        | none => simp [Legit, grp, h2, hg]
        | some g => trivial

theorem classOf_unknown_iff (d : MsgD) (pf : PField) (h : classOf d pf = .unknown) : isUnknownField d pf = true := by
  rcases record_cases d pf with hu | ⟨idx, f, ht⟩ | ⟨idx, h1, h2⟩
  · exact hu
  · rw [classOf_targets d pf idx f ht] at h
    cases hg : f.group <;> rw [hg] at h <;> simp at h
  · unfold classOf at h; simp [h1, h2] at h

theorem applyField_shape (S : Schema) (rec : Loader) (d : MsgD) (a a' : MState) (pf : PField)
    (h : applyField S rec d a pf = .ok a') : SameShape a' a := applyField_lengths S rec d a a' pf h

/-- a record of class `c` acts alike on states that agree on the footprint of `c` -/
theorem step_same (S : Schema) (rec : Loader) (d : MsgD) (c : Cls) (a b a' : MState) (pf : PField)
    (hc : classOf d pf = c) (hs : Sim d c a b) (h : applyField S rec d a pf = .ok a') :
    ∃ b', applyField S rec d b pf = .ok b' ∧ Sim d c a' b' := by
  rcases record_cases d pf with hu | ⟨idx, f, ht⟩ | ⟨idx, h1, h2⟩
  · rw [applyField_unknown S rec d a pf hu] at h
    injection h with h; subst h
    refine ⟨_, applyField_unknown S rec d b pf hu, ⟨hs.1.1, hs.1.2⟩, ?_⟩
    rw [classOf_unknown d pf hu] at hc; subst hc; trivial
  · have hf := ht.2.1
    rw [classOf_targets d pf idx f ht] at hc
    subst hc
    have hag := (agreeOn_of_foot d f idx a b hf).mp hs.2
    obtain ⟨b', hb, hag'⟩ := applyField_local S rec d a b a' pf idx f ht hs.1 hag h
    refine ⟨b', hb, ?_, (agreeOn_of_foot d f idx a' b' hf).mpr hag'⟩
    have s1 := applyField_shape S rec d a a' pf h
    have s2 := applyField_shape S rec d b b' pf hb
    exact ⟨s1.1.trans (hs.1.1.trans s2.1.symm), s1.2.trans (hs.1.2.trans s2.2.symm)⟩
  · rw [applyField_badtable S rec d a pf idx h1 h2] at h; simp at h

/-- a record of another class does not disturb the footprint of `c` -/
theorem step_other (S : Schema) (rec : Loader) (d : MsgD) (c : Cls) (a a' : MState) (pf : PField)
    (hl : Legit d c) (hc : classOf d pf ≠ c) (h : applyField S rec d a pf = .ok a') : Sim d c a' a :=
  ⟨applyField_shape S rec d a a' pf h, applyField_other_class S rec d a a' pf c hl hc h⟩

def ofClass (d : MsgD) (c : Cls) (pf : PField) : Bool := decide (classOf d pf = c)

/-- **projection**: the footprint of class `c` after decoding `pfs` is the footprint after
    decoding only the records of class `c` -/
theorem proj_fold (S : Schema) (rec : Loader) (d : MsgD) (c : Cls) (hl : Legit d c) (pfs : List PField)
    (a b a1 : MState) (hs : Sim d c a b) (h : foldFields S rec d a pfs = .ok a1) :
    ∃ b1, foldFields S rec d b (pfs.filter (ofClass d c)) = .ok b1 ∧ Sim d c a1 b1 := by
  induction pfs generalizing a b with
  | nil => rw [foldFields] at h; injection h with h; subst h; exact ⟨b, rfl, hs⟩
  | cons pf pfs ih =>
    rw [foldFields] at h
    cases ha : applyField S rec d a pf with
    | error e => rw [ha] at h; simp at h
    | ok a2 =>
      rw [ha] at h; simp only [bind_ok] at h
      by_cases hc : classOf d pf = c
      · obtain ⟨b2, hb, hs2⟩ := step_same S rec d c a b a2 pf hc hs ha
        obtain ⟨b1, hb1, hs1⟩ := ih a2 b2 hs2 h
        refine ⟨b1, ?_, hs1⟩
        have : ofClass d c pf = true := by simp [ofClass, hc]
        simp only [List.filter_cons, this, if_true, foldFields, hb, bind_ok]
        exact hb1
      · have hs2 := sim_trans d c a2 a b (step_other S rec d c a a2 pf hl hc ha) hs
        obtain ⟨b1, hb1, hs1⟩ := ih a2 b hs2 h
        refine ⟨b1, ?_, hs1⟩
        have : ofClass d c pf = false := by simp [ofClass, hc]
        simp only [List.filter_cons, this, Bool.false_eq_true, if_false]
        exact hb1

/-- **assembly**: if for every class the records of that class decode (from a state that
    agrees with `a` on that class's footprint), then the whole list decodes from `a` -/
theorem fold_of_projs (S : Schema) (rec : Loader) (d : MsgD) (pfs : List PField) (a : MState)
    (h : ∀ c, Legit d c → ∃ b b', Sim d c a b ∧ foldFields S rec d b (pfs.filter (ofClass d c)) = .ok b') :
    ∃ a', foldFields S rec d a pfs = .ok a' := by
  induction pfs generalizing a with
  | nil => exact ⟨a, rfl⟩
  | cons pf pfs ih =>
    have hl0 := classOf_legit d pf
    obtain ⟨b, b', hs, hb⟩ := h (classOf d pf) hl0
    have ht : ofClass d (classOf d pf) pf = true := by simp [ofClass]
    simp only [List.filter_cons, ht, if_true, foldFields] at hb
    cases hb2 : applyField S rec d b pf with
    | error e => rw [hb2] at hb; simp at hb
    | ok b2 =>
      rw [hb2] at hb; simp only [bind_ok] at hb
      obtain ⟨a2, ha2, hs2⟩ := step_same S rec d _ b a b2 pf rfl (sim_symm d _ a b hs) hb2
      have : ∃ a', foldFields S rec d a2 pfs = .ok a' := by
        apply ih a2
        intro c hlc
        by_cases hc : classOf d pf = c
        · subst hc
          exact ⟨b2, b', sim_symm d _ b2 a2 hs2, hb⟩
        · obtain ⟨bc, bc', hsc, hbc⟩ := h c hlc
          have hf : ofClass d c pf = false := by simp [ofClass, hc]
          simp only [List.filter_cons, hf, Bool.false_eq_true, if_false] at hbc
          exact ⟨bc, bc', sim_trans d c a2 a bc (step_other S rec d c a a2 pf hlc hc ha2) hsc, hbc⟩
      obtain ⟨a', ha'⟩ := this
      exact ⟨a', by simp only [foldFields, ha2, bind_ok]; exact ha'⟩

theorem fold_unknown_ok (S : Schema) (rec : Loader) (d : MsgD) (pfs : List PField) (a : MState)
    (h : ∀ pf ∈ pfs, isUnknownField d pf = true) : ∃ a', foldFields S rec d a pfs = .ok a' := by
  induction pfs generalizing a with
  | nil => exact ⟨a, rfl⟩
  | cons pf pfs ih =>
    simp only [foldFields, applyField_unknown S rec d a pf (h pf (by simp)), bind_ok]
    exact ih _ (fun x hx => h x (by simp [hx]))

theorem applyField_onWire (S : Schema) (rec : Loader) (d : MsgD) (a a' : MState) (pf : PField)
    (how : a.onWire = true) (h : applyField S rec d a pf = .ok a') : a'.onWire = true := by
  rcases record_cases d pf with hu | ⟨idx, f, ht⟩ | ⟨idx, h1, h2⟩
  · rw [applyField_unknown S rec d a pf hu] at h
    injection h with h; subst h; exact how
  · have hf := ht.2.1
    rw [applyField_targets S rec d a pf idx f ht] at h
    cases hv : decodeValue S rec f pf with
    | error e => rw [hv] at h; simp at h
    | ok v =>
      rw [hv] at h; simp only [bind_ok] at h
      have p1 : (prepCurrent S d a idx f).onWire = true := by
        rcases prepCurrent_cases S d a idx f with ⟨_, e⟩ | ⟨_, e⟩ <;> rw [e]
        · exact setAttr_onWire S d.fields a idx _ f hf
        · exact how
      rcases storeValue_cases S d _ a' idx f v h with ⟨_, x, e⟩ | ⟨_, xs, _, e⟩ | ⟨_, _, e⟩ <;> rw [e]
      · exact p1
      · exact p1
      · exact setAttr_onWire S d.fields _ idx _ f hf
  · rw [applyField_badtable S rec d a pf idx h1 h2] at h; simp at h

theorem foldFields_onWire (S : Schema) (rec : Loader) (d : MsgD) (pfs : List PField) (a a' : MState)
    (how : a.onWire = true) (h : foldFields S rec d a pfs = .ok a') : a'.onWire = true := by
  induction pfs generalizing a with
  | nil => rw [foldFields] at h; injection h with h; subst h; exact how
  | cons pf pfs ih =>
    rw [foldFields] at h
    cases ha : applyField S rec d a pf with
    | error e => rw [ha] at h; simp at h
    | ok s1 =>
      rw [ha] at h; simp only [bind_ok] at h
      exact ih s1 (applyField_onWire S rec d a s1 pf how ha) h

theorem list_ext_getD {α : Type} (dflt : α) (l1 l2 : List α) (hl : l1.length = l2.length)
    (h : ∀ k, l1.getD k dflt = l2.getD k dflt) : l1 = l2 := by
  apply List.ext_getElem hl
  intro i h1 h2
  have := h i
  simp only [List.getD_eq_getElem?_getD, List.getElem?_eq_getElem h1, List.getElem?_eq_getElem h2,
    Option.getD_some] at this
  exact this

/-- **order insensitivity**: two record lists with the same sub-list of records for every
    known class (field outside a oneof / oneof group) decode to the same message -/
theorem foldFields_perm (S : Schema) (rec : Loader) (d : MsgD) (pfs pfs' : List PField) (st st1 : MState)
    (how : st.onWire = true)
    (hsame : ∀ c, Legit d c → c ≠ Cls.unknown → pfs.filter (ofClass d c) = pfs'.filter (ofClass d c))
    (h : foldFields S rec d st pfs = .ok st1) :
    ∃ st2, foldFields S rec d st pfs' = .ok st2 ∧ core st2 = core st1 := by
  -- every class projection of `pfs` decodes
  have hproj : ∀ c, Legit d c → ∃ s, foldFields S rec d st (pfs.filter (ofClass d c)) = .ok s ∧ Sim d c st1 s :=
    fun c hl => proj_fold S rec d c hl pfs st st st1 (sim_refl d c st) h
  -- hence `pfs'` decodes
  have hex : ∃ st2, foldFields S rec d st pfs' = .ok st2 := by
    apply fold_of_projs S rec d pfs' st
    intro c hl
    by_cases hu : c = Cls.unknown
    · subst hu
      obtain ⟨s, hs⟩ := fold_unknown_ok S rec d (pfs'.filter (ofClass d Cls.unknown)) st (by
        intro pf hpf
        have := (List.mem_filter.mp hpf).2
        exact classOf_unknown_iff d pf (by simpa [ofClass] using this))
      exact ⟨st, s, sim_refl d _ st, hs⟩
    · obtain ⟨s, hs, _⟩ := hproj c hl
      exact ⟨st, s, sim_refl d c st, by rw [← hsame c hl hu]; exact hs⟩
  obtain ⟨st2, h2⟩ := hex
  refine ⟨st2, h2, ?_⟩
  have hagree : ∀ c, Legit d c → c ≠ Cls.unknown → AgreeOn d c st2 st1 := by
    intro c hl hu
    obtain ⟨s, hs, hsim⟩ := hproj c hl
    obtain ⟨s', hs', hsim'⟩ := proj_fold S rec d c hl pfs' st st st2 (sim_refl d c st) h2
    rw [← hsame c hl hu, hs] at hs'
    injection hs' with hs'; subst hs'
    exact (sim_trans d c st2 s st1 hsim' (sim_symm d c st1 s hsim)).2
  have l1 := foldFields_lengths S rec d pfs st st1 h
  have l2 := foldFields_lengths S rec d pfs' st st2 h2
  rw [core_eq_iff]
  refine ⟨?_, ?_, ?_⟩
  · apply list_ext_getD Val.ph _ _ (l2.1.trans l1.1.symm)
    intro k
    cases hg : grp d.fields k with
    | none => exact hagree (.field k) hg (by simp)
    | some g => exact (hagree (.group g) trivial (by simp)).2 k hg
  · rw [foldFields_onWire S rec d pfs' st st2 how h2, foldFields_onWire S rec d pfs st st1 how h]
  · apply list_ext_getD Option.none _ _ (l2.2.trans l1.2.symm)
    intro g
    exact (hagree (.group g) trivial (by simp)).1

end Bp.PermCopy
