import BpModel.All
import BpProofs.PermCopy.Perm2
/- VERBATIM COPY of BpProofs/SpecPerm3.lean in namespace `Bp.PermCopy` (only the namespace and the
   import lines differ).  Reason: `Bp.foldFields_append` / `Bp.setAt_setAt` are declared both in the
   C01 chain (Rt.lean) and in the C02 chain (SpecWf.lean / SpecState.lean), so the two chains cannot
   be imported together; the C08 evolution theorem needs both.  Delete these copies once the
   duplicate names are renamed. -/
/-
  C02 helper lemmas, part 12: the class of a record in terms of its field number.
-/
namespace Bp.PermCopy
open Gen

theorem findField_go_sound (num : Nat) (fs : List FieldD) (i : Nat) (acc : Option Nat) (k : Nat)
    (h : findField.go num fs i acc = some k) :
    acc = some k ∨ (i ≤ k ∧ ∃ f, fs[k - i]? = some f ∧ f.num = num) := by
  induction fs generalizing i acc with
  | nil => simp only [findField.go] at h; exact Or.inl h
  | cons f fs ih =>
    simp only [findField.go] at h
    rcases ih (i + 1) _ h with h1 | ⟨h1, f', h2, h3⟩
    · by_cases hn : (f.num == num) = true
      · simp only [hn, if_true] at h1
        injection h1 with h1; subst h1
        right
        exact ⟨Nat.le_refl _, f, by simp, by simpa using hn⟩
      · simp only [hn, Bool.false_eq_true, if_false] at h1
        exact Or.inl h1
    · right
      refine ⟨by omega, f', ?_, h3⟩
      have : k - i = (k - (i + 1)) + 1 := by omega
      rw [this, List.getElem?_cons_succ]; exact h2

/-- `field_name_by_number[num]` is a field that declares `num` -/
theorem findField_sound (fs : List FieldD) (num idx : Nat) (h : findField fs num = some idx) :
    ∃ f, fs[idx]? = some f ∧ f.num = num := by
  unfold findField at h
  rcases findField_go_sound num fs 0 Option.none idx h with h1 | ⟨_, f, h2, h3⟩
  · simp at h1
  · exact ⟨f, by simpa using h2, h3⟩

/-- the records whose number is declared by a member of oneof group `g` of class `d` -/
def inGroup (d : MsgD) (g : Nat) (pf : PField) : Bool :=
  match findField d.fields pf.num with
  | some idx => grp d.fields idx == some g
  | Option.none => false

theorem ofClass_group_imp (d : MsgD) (g : Nat) (pf : PField) (h : ofClass d (.group g) pf = true) :
    inGroup d g pf = true := by
  simp only [ofClass, decide_eq_true_eq] at h
  unfold classOf at h
  unfold inGroup
  cases h1 : findField d.fields pf.num with
  | none => rw [h1] at h; simp at h
  | some idx =>
    rw [h1] at h
    simp only at h ⊢
    cases h2 : d.fields[idx]? with
    | none => rw [h2] at h; simp at h
    | some f =>
      rw [h2] at h
      simp only at h
      split at h
      · simp at h
      · cases hg : f.group with
        | none => rw [hg] at h; simp at h
        | some g' =>
          rw [hg] at h; simp only [Cls.group.injEq] at h; subst h
          simp [grp, h2, hg]

theorem ofClass_field_imp (d : MsgD) (i : Nat) (pf : PField) (h : ofClass d (.field i) pf = true) :
    ∃ f, d.fields[i]? = some f ∧ pf.num = f.num := by
  simp only [ofClass, decide_eq_true_eq] at h
  unfold classOf at h
  cases h1 : findField d.fields pf.num with
  | none => rw [h1] at h; simp at h
  | some idx =>
    obtain ⟨f, hf, hn⟩ := findField_sound d.fields pf.num idx h1
    rw [h1] at h
    simp only [hf] at h
    split at h
    · simp at h
    · cases hg : f.group with
      | some g' => rw [hg] at h; simp at h
      | none =>
        rw [hg] at h; simp only [Cls.field.injEq] at h; subst h
        exact ⟨f, hf, hn.symm⟩

theorem filter_of_imp {α : Type} (p q : α → Bool) (l : List α) (h : ∀ x, p x = true → q x = true) :
    l.filter p = (l.filter q).filter p := by
  rw [List.filter_filter]
  apply List.filter_congr
  intro x _
  cases hp : p x with
  | false => simp
  | true => simp [h x hp]

/-- a permutation that keeps the relative order of the records with the same field number
    and of the records of members of the same oneof group keeps every class's sub-list -/
theorem classes_of_numbers (d : MsgD) (pfs pfs' : List PField)
    (hnum : ∀ n, pfs.filter (fun pf => pf.num == n) = pfs'.filter (fun pf => pf.num == n))
    (hgrp : ∀ g, pfs.filter (inGroup d g) = pfs'.filter (inGroup d g)) :
    ∀ c, Legit d c → c ≠ Cls.unknown → pfs.filter (ofClass d c) = pfs'.filter (ofClass d c) := by
  intro c _ hu
  cases c with
  | unknown => exact absurd rfl hu
  | group g =>
    rw [filter_of_imp (ofClass d (.group g)) (inGroup d g) pfs (ofClass_group_imp d g),
      filter_of_imp (ofClass d (.group g)) (inGroup d g) pfs' (ofClass_group_imp d g), hgrp g]
  | field i =>
    cases hf : d.fields[i]? with
    | none =>
      have hnone : ∀ l : List PField, l.filter (ofClass d (.field i)) = [] := by
        intro l
        apply List.filter_eq_nil_iff.mpr
        intro x _ hx
        obtain ⟨f, hf', _⟩ := ofClass_field_imp d i x hx
        rw [hf] at hf'; simp at hf'
      rw [hnone, hnone]
    | some f =>
      have himp : ∀ x, ofClass d (.field i) x = true → (x.num == f.num) = true := by
        intro x hx
        obtain ⟨f', hf', hn⟩ := ofClass_field_imp d i x hx
        rw [hf] at hf'; injection hf' with hf'; subst hf'
        simpa using hn
      rw [filter_of_imp _ (fun pf => pf.num == f.num) pfs himp,
        filter_of_imp _ (fun pf => pf.num == f.num) pfs' himp, hnum f.num]

end Bp.PermCopy
