import BpModel.Plugin
/-
  Helper lemmas for C03: association-list lookups, the regenerated tables of the field
  compiler against the hand-written specification tables, `lastSeg`.
  Property statements live in Props/C03.lean.
-/
namespace Bp.Plugin
open Bp Bp.Gen.Plugin

theorem lookupN?_mem {β} {k : Nat} {v : β} : ∀ {l : List (Nat × β)}, lookupN? k l = some v → (k, v) ∈ l
  | [], h => by simp [lookupN?] at h
  | (a, b) :: r, h => by
    unfold lookupN? at h
    split at h
    · rename_i hk; cases h; subst hk; exact List.mem_cons_self
    · exact List.mem_cons_of_mem _ (lookupN?_mem h)

theorem lookup?_none {β} {k : Name} : ∀ {l : List (Name × β)}, k ∉ l.map Prod.fst → lookup? k l = none
  | [], _ => rfl
  | (a, b) :: r, h => by
    simp only [List.map_cons, List.mem_cons, not_or] at h
    unfold lookup?
    rw [if_neg (fun e => h.1 e.symm)]
    exact lookup?_none h.2

/-! ### the 17 proto3 field types: regenerated tables vs `specTypeTable` -/

def constRow (r : Nat × PType) : Bool :=
  match lookupN? r.1 descTypeName with
  | some n => decide (lookup? n typeConsts = some r.2)
  | none => false

theorem constRow_all : ∀ r ∈ specTypeTable, constRow r = true := by decide +kernel

theorem const_facts {t : Nat} {p : PType} (h : specType t = some p) :
    ∃ n, lookupN? t descTypeName = some n ∧ lookup? n typeConsts = some p := by
  have := constRow_all _ (lookupN?_mem h)
  unfold constRow at this
  split at this
  · rename_i n hn; exact ⟨n, hn, by simpa using this⟩
  · cases this

def ctorRow (r : Nat × PType) : Bool :=
  match lookupN? r.1 fieldTypeStr with
  | some c => decide (lookup? c fieldCtors = some r.2) && ctorsWithOptional.contains c && ctorsWithGroup.contains c
              && (ctorsWithWraps.contains c == decide (r.2 = .message)) && decide (r.2 ≠ .map)
  | none => false

theorem ctorRow_all : ∀ r ∈ specTypeTable, ctorRow r = true := by decide +kernel

theorem ctor_facts {t : Nat} {p : PType} (h : specType t = some p) :
    ∃ c, lookupN? t fieldTypeStr = some c ∧ lookup? c fieldCtors = some p
      ∧ ctorsWithOptional.contains c = true ∧ ctorsWithGroup.contains c = true
      ∧ ctorsWithWraps.contains c = decide (p = .message) ∧ p ≠ .map := by
  have := ctorRow_all _ (lookupN?_mem h)
  unfold ctorRow at this
  split at this
  · rename_i c hc
    simp only [Bool.and_eq_true, decide_eq_true_eq, beq_iff_eq] at this
    obtain ⟨⟨⟨⟨h1, h2⟩, h3⟩, h4⟩, h5⟩ := this
    exact ⟨c, hc, h1, h2, h3, h4, h5⟩
  · cases this

def pyRow (r : Nat × PType) : Bool :=
  if r.2 = .message ∨ r.2 = .enum then
    decide (lookupN? r.1 scalarPyType = none) && messageTypes.contains r.1 && decide (specPy r.2 = none)
  else decide ((lookupN? r.1 scalarPyType).isSome) && decide (lookupN? r.1 scalarPyType = specPy r.2)

theorem pyRow_all : ∀ r ∈ specTypeTable, pyRow r = true := by decide +kernel

theorem pyType_ref {f : FieldP} {p : PType} (h : specType f.type = some p) (hp : p = .message ∨ p = .enum) :
    pyTypeOf f = some (typeRef f.typeName) ∧ specPy p = none := by
  have := pyRow_all _ (lookupN?_mem h)
  unfold pyRow at this
  simp only [hp, if_true, Bool.and_eq_true, decide_eq_true_eq] at this
  unfold pyTypeOf
  rw [this.1.1]
  simp only [this.1.2, if_true]
  exact ⟨trivial, this.2⟩

theorem pyType_scalar {f : FieldP} {p : PType} (h : specType f.type = some p) (h1 : p ≠ .message) (h2 : p ≠ .enum) :
    ∃ n, pyTypeOf f = some (.prim n) ∧ specPy p = some n := by
  have := pyRow_all _ (lookupN?_mem h)
  unfold pyRow at this
  simp only [h1, h2, or_self, if_false, Bool.and_eq_true, decide_eq_true_eq] at this
  obtain ⟨hs, he⟩ := this
  cases hl : lookupN? f.type scalarPyType with
  | none => rw [hl] at hs; cases hs
  | some n =>
    refine ⟨n, ?_, ?_⟩
    · unfold pyTypeOf; rw [hl]
    · rw [← he, hl]

theorem typeMessage_eq : typeMessage = 11 := by decide

theorem specType_message_iff (t : Nat) : specType t = some .message ↔ t = typeMessage := by
  rw [typeMessage_eq]
  constructor
  · intro h
    have hm := lookupN?_mem h
    have : ∀ r ∈ specTypeTable, r.2 = PType.message → r.1 = 11 := by decide
    exact this _ hm rfl
  · intro h; subst h; decide

/-! ### wrapper / Timestamp / Duration names: regenerated tables vs `specWrappers` -/

def wktKeys : List Name :=
  fieldWraps.map Prod.fst ++ unwrapTable.map Prod.fst ++ specWrappers.map Prod.fst ++ [tsName, durName]

def wrapsRow (tn : Name) : Bool :=
  match wrapsOf tn with
  | none => decide (lookup? tn specWrappers = none)
  | some n => decide ((lookup? tn specWrappers).isSome) && decide (lookup? n typeConsts = lookup? tn specWrappers)

theorem wrapsRow_keys : ∀ tn ∈ wktKeys, wrapsRow tn = true := by decide +kernel

theorem not_key {tn : Name} (h : tn ∉ wktKeys) :
    lookup? tn fieldWraps = none ∧ lookup? tn unwrapTable = none ∧ lookup? tn specWrappers = none
      ∧ tn ≠ tsName ∧ tn ≠ durName := by
  unfold wktKeys at h
  simp only [List.mem_append, not_or, List.mem_cons, List.not_mem_nil, or_false] at h
  exact ⟨lookup?_none h.1.1.1, lookup?_none h.1.1.2, lookup?_none h.1.2, h.2.1, h.2.2⟩

theorem wrapsRow_all (tn : Name) : wrapsRow tn = true := by
  by_cases h : tn ∈ wktKeys
  · exact wrapsRow_keys tn h
  · obtain ⟨h1, _, h3, _, _⟩ := not_key h
    unfold wrapsRow wrapsOf
    rw [h1, h3]; rfl

def elemRow (tn : Name) : Bool := decide (some (elemOf (typeRef tn)) = specElemRef tn)

theorem elemRow_keys : ∀ tn ∈ wktKeys, elemRow tn = true := by decide +kernel

theorem elem_ref (tn : Name) : some (elemOf (typeRef tn)) = specElemRef tn := by
  by_cases h : tn ∈ wktKeys
  · simpa [elemRow] using elemRow_keys tn h
  · obtain ⟨_, h2, h3, h4, h5⟩ := not_key h
    unfold typeRef specElemRef
    rw [h2, h3]; simp [h4, h5, elemOf]

def mapValRow (tn : Name) : Bool :=
  (lookup? tn specWrappers).isSome || decide (elemOf (typeRef tn) = specElemMapValue tn)

theorem mapValRow_keys : ∀ tn ∈ wktKeys, mapValRow tn = true := by decide +kernel

theorem elem_mapValue (tn : Name) (hw : lookup? tn specWrappers = none) :
    elemOf (typeRef tn) = specElemMapValue tn := by
  by_cases h : tn ∈ wktKeys
  · have := mapValRow_keys tn h
    unfold mapValRow at this
    rw [hw] at this
    simpa using this
  · obtain ⟨_, h2, _, h4, h5⟩ := not_key h
    unfold typeRef specElemMapValue
    rw [h2]; simp [h4, h5, elemOf]

/-- a non-message type never has a wrapper / Timestamp / Duration name (validity), so its
    reference is a plain class reference -/
theorem typeRef_plain {tn : Name} (hw : lookup? tn specWrappers = none) (ht : tn ≠ tsName) (hd : tn ≠ durName) :
    typeRef tn = .ref tn := by
  have h1 := elem_ref tn
  unfold specElemRef at h1
  rw [hw] at h1
  simp only [ht, hd, if_false, Option.some.injEq] at h1
  cases h : typeRef tn <;> rw [h] at h1 <;> simp [elemOf] at h1
  rw [h1]

end Bp.Plugin
