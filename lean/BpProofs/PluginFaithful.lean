import BpProofs.PluginField
/-
  Helper lemmas for C03, part 3: the two halves of field faithfulness.
-/
namespace Bp.Plugin
open Bp Bp.Gen.Plugin

theorem specPy_scalar {t : PType} {n : Name} (h : specPy t = some n) : t ≠ .message ∧ t ≠ .enum := by
  constructor <;> (intro e; subst e; simp [specPy] at h)

/-- element of a map value: code and schema agree unless the value is a wrapper message -/
theorem value_elem {v : FieldP} {tv : PType} (hvt : specType v.type = some tv)
    (hn : tv = .message ∨ (lookup? v.typeName specWrappers = none ∧ v.typeName ≠ tsName ∧ v.typeName ≠ durName))
    (hw : tv = .message → lookup? v.typeName specWrappers = none) :
    ∃ pv, pyTypeOf v = some pv ∧ specElem v true = some (elemOf pv) := by
  by_cases hm : tv = .message
  · subst hm
    refine ⟨typeRef v.typeName, (pyType_ref hvt (Or.inl rfl)).1, ?_⟩
    unfold specElem; rw [hvt]
    simp only [if_true]
    rw [elem_mapValue _ (hw rfl)]
  · have hn' := hn.resolve_left hm
    by_cases he : tv = .enum
    · subst he
      refine ⟨typeRef v.typeName, (pyType_ref hvt (Or.inr rfl)).1, ?_⟩
      unfold specElem; rw [hvt]
      rw [typeRef_plain hn'.1 hn'.2.1 hn'.2.2]; rfl
    · obtain ⟨n, h1, h2⟩ := pyType_scalar hvt hm he
      refine ⟨.prim n, h1, ?_⟩
      unfold specElem; rw [hvt]
      cases tv <;> simp_all [elemOf]

/-- element of a plain field -/
theorem field_elem {f : FieldP} {t : PType} (hft : specType f.type = some t)
    (hn : t = .message ∨ (lookup? f.typeName specWrappers = none ∧ f.typeName ≠ tsName ∧ f.typeName ≠ durName)) :
    ∃ py, pyTypeOf f = some py ∧ specElem f false = some (elemOf py) := by
  by_cases hm : t = .message
  · subst hm
    refine ⟨typeRef f.typeName, (pyType_ref hft (Or.inl rfl)).1, ?_⟩
    unfold specElem; rw [hft]
    simp only [Bool.false_eq_true, if_false]
    exact (elem_ref _).symm
  · have hn' := hn.resolve_left hm
    by_cases he : t = .enum
    · subst he
      refine ⟨typeRef f.typeName, (pyType_ref hft (Or.inr rfl)).1, ?_⟩
      unfold specElem; rw [hft]
      rw [typeRef_plain hn'.1 hn'.2.1 hn'.2.2]; rfl
    · obtain ⟨n, h1, h2⟩ := pyType_scalar hft hm he
      refine ⟨.prim n, h1, ?_⟩
      unfold specElem; rw [hft]
      cases t <;> simp_all [elemOf]

theorem mapCtor : lookup? "map".toList fieldCtors = some PType.map
    ∧ ctorsWithGroup.contains "map".toList = true := by decide +kernel

/-- map half: a field that code and schema both classify as the map with entry `e` -/
theorem map_faithful (nm : Naming) {full : Name} {m e : MsgP} {f : FieldP}
    (hg : getMapEntry f m = some e) (hs : specMapEntry full m f = some e)
    (he : validEntry e = true)
    (hw : ∀ v ∈ e.fields, ¬ (v.number = 2 ∧ specType v.type = some .message ∧ (lookup? v.typeName specWrappers).isSome = true)) :
    ∃ c s, compileField nm m f = some c ∧ c.pyName = nm.fld f.name ∧ specOf full m f = some s
      ∧ (readBack c).map observe = some s := by
  obtain ⟨k, v, tk, tv, pk, hkv, hk1, hv2, hkt, hvt, hpk, hvn⟩ := validEntry_facts he
  obtain ⟨nk, hnk, hck⟩ := const_facts hkt
  obtain ⟨nv, hnv, hcv⟩ := const_facts hvt
  obtain ⟨hkm, hke⟩ := specPy_scalar hpk
  obtain ⟨n, hpyk, hn⟩ := pyType_scalar hkt hkm hke
  have hnpk : n = pk := by rw [hpk] at hn; exact (Option.some.inj hn).symm
  subst hnpk
  have hwv : tv = .message → lookup? v.typeName specWrappers = none := by
    intro htv
    have := hw v (by rw [hkv]; simp)
    rw [htv] at hvt
    cases hl : lookup? v.typeName specWrappers with
    | none => rfl
    | some x => exact absurd ⟨hv2, hvt, by rw [hl]; rfl⟩ this
  obtain ⟨pv, hpv, hev⟩ := value_elem hvt hvn hwv
  have hf1 : fieldNo 1 e = some k := by unfold fieldNo; rw [hkv]; simp [List.find?, hk1]
  have hf2 : fieldNo 2 e = some v := by unfold fieldNo; rw [hkv]; simp [List.find?, hk1, hv2]
  refine ⟨{ pyName := nm.fld f.name, ctor := "map".toList, number := f.number, mapTypes := some (nk, nv),
             ann := .dict (.prim n) pv },
          { number := f.number, ty := .map, card := .map tk tv, group := none, wraps := none,
            elem := elemOf pv, keyPy := some n }, ?_, ?_, ?_, ?_⟩
  · unfold compileField
    rw [hg]
    simp only [hkv, hpyk, hpv, hnk, hnv]
  · rfl
  · unfold specOf
    rw [hs]
    simp only [hf1, hf2, hkt, hvt, hpk, hev]
  · unfold readBack
    simp only [mapCtor.1, mapCtor.2, hck, hcv, Option.isSome_none, Bool.false_and, Bool.false_eq_true, if_false,
      if_true, Option.map_some, wrapsBack]
    simp [observe]

end Bp.Plugin

namespace Bp.Plugin
open Bp Bp.Gen.Plugin

structure ValidFieldFacts (m : MsgP) (f : FieldP) : Prop where
  ty : ∃ t, specType f.type = some t
  names : specType f.type = some .message
            ∨ (lookup? f.typeName specWrappers = none ∧ f.typeName ≠ tsName ∧ f.typeName ≠ durName)
  oneof : ∀ i, f.oneofIndex = some i → i < m.oneofs.length
  opt : f.proto3Optional = true → f.label ≠ .repeated

theorem validField_facts {full : Name} {m : MsgP} {f : FieldP} (h : validField full m f = true) :
    ValidFieldFacts m f := by
  unfold validField at h
  simp only [Bool.and_eq_true, Bool.or_eq_true, beq_iff_eq, bne_iff_ne, ne_eq, Option.isNone_iff_eq_none,
    Bool.not_eq_true', validType] at h
  obtain ⟨⟨⟨⟨h1, h2⟩, h3⟩, h4⟩, _⟩ := h
  refine ⟨?_, ?_, ?_, ?_⟩
  · cases hs : specType f.type with
    | none => rw [hs] at h1; cases h1
    | some t => exact ⟨t, rfl⟩
  · rcases h2 with h2 | h2
    · exact Or.inl h2
    · exact Or.inr ⟨h2.1.1, h2.1.2, h2.2⟩
  · intro i hi; rw [hi] at h3; simpa using h3
  · intro hp; rcases h4 with h4 | h4
    · rw [hp] at h4; cases h4
    · exact h4

/-- the oneof group: code (`is_oneof` + `oneof_decl[i].name`) and schema agree -/
theorem group_agree {m : MsgP} {f : FieldP} (ho : ∀ i, f.oneofIndex = some i → i < m.oneofs.length) :
    ∃ g, groupOf m f = some g
      ∧ specGroup m f = some g := by
  unfold groupOf isOneof specGroup
  cases hi : f.oneofIndex with
  | none => exact ⟨none, by simp, rfl⟩
  | some i =>
    have hlt := ho i hi
    cases hp : f.proto3Optional with
    | true => exact ⟨none, by simp, by simp⟩
    | false =>
      refine ⟨some m.oneofs[i], ?_, ?_⟩ <;> simp [List.getElem?_eq_getElem hlt]

/-- `wraps=`: code (table of the nine wrapper names, D24 fix) and schema agree -/
theorem wraps_agree {f : FieldP} {t : PType} {c : Name}
    (hwr : ctorsWithWraps.contains c = decide (t = .message))
    (hn : t = .message ∨ lookup? f.typeName specWrappers = none) :
    ((wrapsOf f.typeName).isSome && !ctorsWithWraps.contains c) = false
    ∧ wrapsBack (wrapsOf f.typeName)
      = some (if t = .message then lookup? f.typeName specWrappers else none) := by
  have hrow := wrapsRow_all f.typeName
  unfold wrapsRow at hrow
  unfold wrapsBack
  cases hw : wrapsOf f.typeName with
  | none =>
    rw [hw] at hrow
    simp only [decide_eq_true_eq] at hrow
    simp [hrow]
  | some n =>
    rw [hw] at hrow
    simp only [Bool.and_eq_true, decide_eq_true_eq] at hrow
    have htm : t = .message := by
      rcases hn with h | h
      · exact h
      · rw [h] at hrow; exact absurd hrow.1 (by simp)
    subst htm
    rw [hwr]
    cases hl : lookup? f.typeName specWrappers with
    | none => rw [hl] at hrow; exact absurd hrow.1 (by simp)
    | some p => rw [hl] at hrow; simp [hrow.2]

/-- plain / oneof half -/
theorem plain_faithful (nm : Naming) {full : Name} {m : MsgP} {f : FieldP}
    (hg : getMapEntry f m = none) (hs : specMapEntry full m f = none) (hvf : validField full m f = true) :
    ∃ c s, compileField nm m f = some c ∧ c.pyName = nm.fld f.name ∧ specOf full m f = some s
      ∧ (readBack c).map observe = some s := by
  have V := validField_facts hvf
  obtain ⟨t, hft⟩ := V.ty
  obtain ⟨c, hc, hcp, hopt, hgrp, hwr, hnm⟩ := ctor_facts hft
  have hn : t = .message ∨ (lookup? f.typeName specWrappers = none ∧ f.typeName ≠ tsName ∧ f.typeName ≠ durName) := by
    rcases V.names with h | h
    · left; rw [hft] at h; exact Option.some.inj h
    · right; exact h
  obtain ⟨py, hpy, hel⟩ := field_elem hft hn
  obtain ⟨g, hg1, hg2⟩ := group_agree V.oneof
  obtain ⟨hw1, hw2⟩ := wraps_agree (f := f) hwr (hn.imp id (·.1))
  refine ⟨{ pyName := nm.fld f.name, ctor := c, number := f.number, wraps := wrapsOf f.typeName,
             optional := f.proto3Optional, group := g, ann := annOf f py },
          { number := f.number, ty := t,
            card := if f.label = .repeated then .repeated else if f.proto3Optional then .optional else .singular,
            group := g, wraps := if t = .message then lookup? f.typeName specWrappers else none,
            elem := elemOf py, keyPy := none }, ?_, rfl, ?_, ?_⟩
  · unfold compileField
    rw [hg]
    simp only [hc, hpy, hg1]
  · unfold specOf
    rw [hs]
    simp only [hft, hel, hg2]
  · unfold readBack
    simp only [hcp, hw1, hopt, hgrp, hw2, Bool.not_true, Bool.and_false, Bool.false_eq_true, if_false, hnm,
      Option.map_some]
    unfold observe annOf
    by_cases hl : f.label = .repeated
    · simp [hl]
    · cases hp : f.proto3Optional <;> simp [hl]

end Bp.Plugin
