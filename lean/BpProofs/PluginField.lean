import BpProofs.Plugin
/-
  Helper lemmas for C03, part 2: the map-entry classification of the code agrees with the
  schema's, and the two halves (map / plain-or-oneof) of field faithfulness.
-/
namespace Bp.Plugin
open Bp Bp.Gen.Plugin

theorem takeWhile_stop {α} (q : α → Bool) (a : List α) (x : α) (b : List α)
    (ha : ∀ y ∈ a, q y = true) (hx : q x = false) : (a ++ x :: b).takeWhile q = a := by
  induction a with
  | nil => simp [hx]
  | cons y r ih =>
    simp only [List.cons_append, List.takeWhile, ha y List.mem_cons_self]
    rw [ih (fun z hz => ha z (List.mem_cons_of_mem _ hz))]

theorem lastSeg_append (p n : Name) (h : '.' ∉ n) : lastSeg (p ++ '.' :: n) = n := by
  unfold lastSeg
  have : (p ++ '.' :: n).reverse = n.reverse ++ '.' :: p.reverse := by simp
  rw [this, takeWhile_stop _ _ _ _ _ (by simp), List.reverse_reverse]
  intro y hy
  have : y ≠ '.' := fun e => h (by simpa [e] using hy)
  simp [this]

theorem find?_congr' {α} {p q : α → Bool} : ∀ {l : List α}, (∀ x ∈ l, p x = q x) → l.find? p = l.find? q
  | [], _ => rfl
  | a :: r, h => by
    simp only [List.find?, h a List.mem_cons_self]
    rw [find?_congr' (fun x hx => h x (List.mem_cons_of_mem _ hx))]

theorem find?_some_mem {α} {p : α → Bool} {a : α} : ∀ {l : List α}, l.find? p = some a → a ∈ l ∧ p a = true
  | [], h => by simp at h
  | b :: r, h => by
    simp only [List.find?] at h
    split at h
    · cases h; exact ⟨List.mem_cons_self, by assumption⟩
    · have := find?_some_mem h; exact ⟨List.mem_cons_of_mem _ this.1, this.2⟩

structure ValidMsgFacts (full : Name) (m : MsgP) : Prop where
  nodup : (m.nested.map MsgP.name).Nodup
  nodot : ∀ n ∈ m.nested, '.' ∉ n.name
  entry : ∀ n ∈ m.nested, n.mapEntry = true → validEntry n = true
  field : ∀ f ∈ m.fields, validField full m f = true

theorem validMsg_facts {full : Name} {m : MsgP} (h : validMsg full m = true) : ValidMsgFacts full m := by
  unfold validMsg at h
  simp only [Bool.and_eq_true, decide_eq_true_eq, List.all_eq_true, Bool.or_eq_true, Bool.not_eq_true'] at h
  obtain ⟨⟨h1, h2⟩, h3⟩ := h
  refine ⟨h1, ?_, ?_, h3⟩
  · intro n hn hdot
    have := (h2 n hn).1
    simp [hdot] at this
  · intro n hn hme
    rcases (h2 n hn).2 with h | h
    · rw [hme] at h; cases h
    · exact h

/-- under protoc validity and the residual guard, the code's classification of a field as a
    map (exact simple-name match, D08 fix) is the schema's (the entry type is nested in the
    field's own message) -/
theorem getMapEntry_eq_spec {full : Name} {m : MsgP} {f : FieldP}
    (hv : validMsg full m = true) (hl : mapRefsLocal full m = true) (hf : f ∈ m.fields) :
    getMapEntry f m = specMapEntry full m f := by
  have V := validMsg_facts hv
  unfold getMapEntry specMapEntry
  by_cases ht : f.type = typeMessage
  · have hs : specType f.type = some .message := (specType_message_iff _).2 ht
    have hcongr : m.nested.find? (fun n => n.mapEntry && decide (n.name = lastSeg f.typeName))
        = m.nested.find? (fun n => n.mapEntry && decide (f.typeName = full ++ '.' :: n.name)) := by
      apply find?_congr'
      intro n hn
      cases hme : n.mapEntry with
      | false => rfl
      | true =>
        simp only [Bool.true_and]
        by_cases h1 : n.name = lastSeg f.typeName
        · unfold mapRefsLocal at hl
          simp only [List.all_eq_true, Bool.or_eq_true, Bool.not_eq_true', Bool.and_eq_false_iff,
            decide_eq_true_eq, decide_eq_false_iff_not] at hl
          have := hl f hf n hn
          have h2 : f.typeName = full ++ '.' :: n.name := by
            rcases this with ((h | h) | h) | h
            · rw [hme] at h; cases h
            · exact absurd ht h
            · exact absurd h1 h
            · exact h
          rw [decide_eq_true h1, decide_eq_true h2]
        · have : ¬ f.typeName = full ++ '.' :: n.name := by
            intro e; apply h1; rw [e, lastSeg_append _ _ (V.nodot n hn)]
          rw [decide_eq_false h1, decide_eq_false this]
    rw [if_pos hs]
    simp only [ht, true_and]
    rw [hcongr]
    by_cases hlab : f.label = .repeated
    · simp [hlab]
    · simp only [hlab, if_false]
      have hvf := V.field f hf
      unfold validField specMapEntry at hvf
      simp only [hs, if_true] at hvf
      cases hfind : m.nested.find? (fun n => n.mapEntry && decide (f.typeName = full ++ '.' :: n.name)) with
      | none => rfl
      | some e =>
        rw [hfind] at hvf
        simp only [Bool.and_eq_true, beq_iff_eq] at hvf
        exact absurd hvf.2 hlab
  · have hs : specType f.type ≠ some .message := fun h => ht ((specType_message_iff _).1 h)
    simp [ht, hs]

theorem validEntry_facts {e : MsgP} (h : validEntry e = true) :
    ∃ k v tk tv pk, e.fields = [k, v] ∧ k.number = 1 ∧ v.number = 2
      ∧ specType k.type = some tk ∧ specType v.type = some tv ∧ specPy tk = some pk
      ∧ (tv = .message ∨ (lookup? v.typeName specWrappers = none ∧ v.typeName ≠ tsName ∧ v.typeName ≠ durName)) := by
  unfold validEntry at h
  split at h
  · rename_i k v hkv
    simp only [Bool.and_eq_true, decide_eq_true_eq, validType, Bool.or_eq_true, beq_iff_eq, bne_iff_ne, ne_eq,
      Option.isNone_iff_eq_none] at h
    obtain ⟨⟨⟨⟨⟨h1, h2⟩, h3⟩, h4⟩, h5⟩, h6⟩ := h
    cases hk : specType k.type with
    | none => rw [hk] at h3; cases h3
    | some tk =>
      cases hv : specType v.type with
      | none => rw [hv] at h4; cases h4
      | some tv =>
        rw [hk] at h5
        simp only [Option.any_some] at h5
        cases hp : specPy tk with
        | none => rw [hp] at h5; cases h5
        | some pk =>
          refine ⟨k, v, tk, tv, pk, hkv, h1, h2, hk, hv, hp, ?_⟩
          rw [hv] at h6
          rcases h6 with h6 | h6
          · left; simpa using h6
          · right; exact ⟨h6.1.1, h6.1.2, h6.2⟩
  · cases h

end Bp.Plugin
