import BpProofs.PluginFaithful
import BpProofs.PluginTraverse
import BpProofs.Props.C03
import BpModel.PluginSchema
/-
  Lemmas for the plugin → runtime-schema link (statements: Props/C03Plugin.lean,
  Props/C17Plugin.lean, Props/C18Plugin.lean).
-/
namespace Bp.Plugin
open Bp Bp.Gen.Plugin

/-- what `observe` loses is not there to lose: a map / list field is not `optional`, a map's hint
    is not a list -/
def coherent (mt : Meta) : Bool :=
  (!(mt.mapTypes.isSome || hintIsList mt.hint) || !mt.optional) && (!mt.mapTypes.isSome || !hintIsList mt.hint)

/-- the runtime's reading of a coherent metadata record is the SPEC-side reading of what
    `observe` shows of it -/
theorem meta_eq_spec (env : Env) (gs : List Name) (n : Name) (mt : Meta) (h : coherent mt = true) :
    metaFieldD env gs n mt = specFieldD env gs n (observe mt) := by
  obtain ⟨num, pt, mts, g, w, opt, hint⟩ := mt
  cases mts with
  | some kv =>
    obtain ⟨k, v⟩ := kv
    cases hint <;> cases opt <;> simp [coherent, hintIsList] at h <;>
      simp [metaFieldD, specFieldD, observe, hintElem, hintIsList] <;> rfl
  | none =>
    cases hint <;> cases opt <;> simp [coherent, hintIsList] at h <;>
      simp [metaFieldD, specFieldD, observe, hintElem, hintIsList] <;> rfl

theorem readBack_proj {c : CField} {mt : Meta} (h : readBack c = some mt) :
    mt.optional = c.optional ∧ mt.hint = c.ann ∧ mt.group = c.group ∧ mt.number = c.number
      ∧ mt.mapTypes.isSome = c.mapTypes.isSome := by
  unfold readBack at h
  repeat' (split at h)
  all_goals (first | (cases h; done) | (cases hw : wrapsBack c.wraps <;> simp only [hw] at h <;> cases h <;> simp_all))

/-- the two shapes of a generated line -/
theorem compileField_shape {nm : Naming} {m : MsgP} {f : FieldP} {c : CField}
    (h : compileField nm m f = some c) :
    (c.mapTypes.isSome = true ∧ c.optional = false ∧ hintIsList c.ann = false)
    ∨ (c.mapTypes = none ∧ c.optional = f.proto3Optional ∧ ∃ py, c.ann = annOf f py) := by
  unfold compileField at h
  split at h
  · split at h
    · split at h
      · cases h; left; exact ⟨rfl, rfl, rfl⟩
      · cases h
    · cases h
  · split at h
    · cases h; right; exact ⟨rfl, rfl, _, rfl⟩
    · cases h

theorem hintIsList_annOf (f : FieldP) (py : PyT) : hintIsList (annOf f py) = decide (f.label = .repeated) := by
  unfold annOf
  by_cases hl : f.label = .repeated
  · simp [hl, hintIsList]
  · cases hp : f.proto3Optional <;> simp [hl, hintIsList]

/-- every line the plugin writes for a field on which `optional` and `repeated` exclude each other
    reads back coherently -/
theorem compileField_coherent {nm : Naming} {m : MsgP} {f : FieldP} {c : CField} {mt : Meta}
    (hc : compileField nm m f = some c) (hr : readBack c = some mt)
    (ho : f.proto3Optional = true → f.label ≠ .repeated) : coherent mt = true := by
  obtain ⟨h1, h2, _, _, h5⟩ := readBack_proj hr
  unfold coherent
  rw [h1, h2, h5]
  rcases compileField_shape hc with ⟨a, b, d⟩ | ⟨a, b, py, d⟩
  · simp [a, b, d]
  · rw [a, b, d, hintIsList_annOf]
    cases hp : f.proto3Optional
    · simp
    · have := ho hp; simp [this]

/-- **one field.**  For a field of a protoc-valid message outside the excluded regions: the
    `FieldD` the runtime derives from the generated line is the `FieldD` the schema demands -/
theorem field_schema_faithful (nm : Naming) (env : Env) (gs : List Name) (full : Name) (m : MsgP) (f : FieldP)
    (hv : validMsg full m = true) (hl : mapRefsLocal full m = true) (hw : noWrapperMapValue m = true)
    (hf : f ∈ m.fields) :
    ∃ c s, compileField nm m f = some c ∧ specOf full m f = some s ∧ c.group = s.group
      ∧ cfieldD env gs c = specFieldD env gs (nm.fld f.name) s := by
  obtain ⟨c, s, hc, hn, hs, ho⟩ := Bp.C03.field_faithful_partial nm full m f hv hl hw hf
  cases hr : readBack c with
  | none => rw [hr] at ho; cases ho
  | some mt =>
    rw [hr] at ho
    have hob : observe mt = s := Option.some.inj ho
    refine ⟨c, s, hc, hs, ?_, ?_⟩
    · rw [← hob, ← (readBack_proj hr).2.2.1]; rfl
    · have V := validField_facts ((validMsg_facts hv).field f hf)
      have hco := compileField_coherent hc hr V.opt
      unfold cfieldD
      rw [hr, hn, ← hob]
      exact meta_eq_spec env gs _ mt hco

theorem mapMOpt_congr {α β γ} (f : α → Option γ) (g : β → Option γ) :
    ∀ (as : List α) (bs : List β), as.length = bs.length → (∀ p ∈ as.zip bs, f p.1 = g p.2) →
      mapMOpt f as = mapMOpt g bs
  | [], [], _, _ => rfl
  | [], _ :: _, h, _ => by simp at h
  | _ :: _, [], h, _ => by simp at h
  | a :: as, b :: bs, h, hz => by
    have h0 := hz (a, b) (by simp)
    have := mapMOpt_congr f g as bs (by simpa using h) (fun p hp => hz p (by simp [hp]))
    simp only [mapMOpt]
    rw [h0, this]

/-- **one class.**  The `MsgD` the runtime derives from the class generated for a valid message
    is the `MsgD` the schema demands for that message -/
theorem class_schema_faithful (nm : Naming) (env : Env) (full : Name) (m : MsgP)
    (hv : validMsg full m = true) (hl : mapRefsLocal full m = true) (hw : noWrapperMapValue m = true) :
    ∃ cs, compileFields nm m m.fields = some cs ∧ classD env cs = specMsgD nm env full m := by
  have hsome := Bp.C03.message_compiles_partial nm full m hv hl hw
  cases hcs : compileFields nm m m.fields with
  | none => rw [hcs] at hsome; cases hsome
  | some cs =>
    refine ⟨cs, rfl, ?_⟩
    obtain ⟨_, hlen, hz⟩ := compileFields_map nm m m.fields cs hcs
    -- the group names agree
    have hgrp : ∀ (fs : List FieldP) (cs : List CField), cs.length = fs.length →
        (∀ p ∈ fs.zip cs, compileField nm m p.1 = some p.2) → (∀ f ∈ fs, f ∈ m.fields) →
        cs.map (·.group) = fs.map (fun f => (specOf full m f).bind (·.group)) := by
      intro fs
      induction fs with
      | nil => intro cs hl' _ _; cases cs <;> simp_all
      | cons f r ih =>
        intro cs hl' hz hm
        cases cs with
        | nil => simp at hl'
        | cons c cr =>
          obtain ⟨c', s, hc', hs, hg, _⟩ :=
            field_schema_faithful nm env [] full m f hv hl hw (hm f List.mem_cons_self)
          have hcc : c' = c := by
            have := hz (f, c) (by simp)
            rw [hc'] at this; exact Option.some.inj this
          subst hcc
          have hsg : (specOf full m f).bind (·.group) = s.group := by rw [hs]; rfl
          have := ih cr (by simpa using hl') (fun p hp => hz p (by simp [hp]))
            (fun g hg => hm g (List.mem_cons_of_mem _ hg))
          simp [hg, hsg, this]
    have hg := hgrp m.fields cs hlen hz (fun f hf => hf)
    unfold classD specMsgD specGroupNames
    rw [hg]
    dsimp only
    congr 1
    apply (mapMOpt_congr _ _ m.fields cs hlen.symm ?_).symm
    intro p hp
    have hpm : p.1 ∈ m.fields := (List.of_mem_zip hp).1
    obtain ⟨c', s, hc', hs, _, hd⟩ := field_schema_faithful nm env
      (groupNames (m.fields.map fun f => (specOf full m f).bind (·.group))) full m p.1 hv hl hw hpm
    have hcc : c' = p.2 := by
      have := hz p hp
      rw [hc'] at this; exact Option.some.inj this
    subst hcc
    rw [hs, hd]; rfl

end Bp.Plugin
