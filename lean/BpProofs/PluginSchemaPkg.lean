import BpProofs.PluginSchemaWf
/-
  Package level: the message classes `compilePackage` emits are, in order, the classes compiled
  from the (non-map-entry) messages of the files at every depth; hence `toSchema` of the
  package is the schema the descriptors demand, and it is well formed.
-/
namespace Bp.Plugin
open Bp

def itemMsgs : List Item → List MsgP
  | [] => []
  | .enum _ _ :: r => itemMsgs r
  | .msg _ m :: r => if m.mapEntry then itemMsgs r else m :: itemMsgs r

theorem itemMsgs_append : ∀ (a b : List Item), itemMsgs (a ++ b) = itemMsgs a ++ itemMsgs b
  | [], _ => rfl
  | .enum _ _ :: r, b => by simp [itemMsgs, itemMsgs_append r b]
  | .msg _ m :: r, b => by
    simp only [List.cons_append, itemMsgs, itemMsgs_append r b]
    split <;> rfl

theorem itemMsgs_travEnums (pre : Name) : ∀ es : List EnumP, itemMsgs (travEnums pre es) = []
  | [] => rfl
  | e :: r => by simp [travEnums, itemMsgs, itemMsgs_travEnums pre r]

mutual
theorem travMsgs_msgs (pre full : Name) : ∀ ms : List MsgP,
    itemMsgs (travMsgs pre ms) = (liveMsgs (fullMsgsL full ms)).map (·.2)
  | [] => rfl
  | m :: ms => by
    simp only [travMsgs, fullMsgsL, itemMsgs_append, liveMsgs, List.filter_append, List.map_append]
    have h1 := travMsg_msgs pre full m
    have h2 := travMsgs_msgs pre full ms
    simp only [liveMsgs] at h1 h2
    rw [h1, h2]
theorem travMsg_msgs (pre full : Name) : ∀ m : MsgP,
    itemMsgs (travMsg pre m) = (liveMsgs (fullMsgs1 full m)).map (·.2)
  | .mk n fs ns es os me => by
    have h2 := travMsgs_msgs (pre ++ '_' :: n) (full ++ '.' :: n) ns
    simp only [liveMsgs] at h2
    simp only [travMsg, fullMsgs1, itemMsgs, itemMsgs_append, itemMsgs_travEnums, List.nil_append, h2, liveMsgs,
      List.filter_cons, MsgP.mapEntry]
    cases me <;> simp
end

theorem mapMOpt_append {α β} (f : α → Option β) : ∀ (a b : List α) (x y : List β),
    mapMOpt f a = some x → mapMOpt f b = some y → mapMOpt f (a ++ b) = some (x ++ y)
  | [], b, x, y, ha, hb => by simp [mapMOpt] at ha; subst ha; simpa using hb
  | a0 :: a, b, x, y, ha, hb => by
    simp only [mapMOpt] at ha
    cases h0 : f a0 with
    | none => simp [h0] at ha
    | some b0 =>
      cases hr : mapMOpt f a with
      | none => simp [h0, hr] at ha
      | some bs =>
        simp only [h0, hr, Option.some.injEq] at ha
        subst ha
        have := mapMOpt_append f a b bs y hr hb
        simp [mapMOpt, h0, this]

theorem msgClasses_append : ∀ (a b : List Class), msgClasses (a ++ b) = msgClasses a ++ msgClasses b
  | [], _ => rfl
  | .message _ _ :: r, b => by simp [msgClasses, msgClasses_append r b]
  | .enum _ _ :: r, b => by simp [msgClasses, msgClasses_append r b]

/-- the message classes of `readItems` are the compiled non-map-entry message items, in order -/
theorem readItems_msgs (nm : Naming) : ∀ (items : List Item) (cs : List Class), readItems nm items = some cs →
    mapMOpt (fun m => compileFields nm m m.fields) (itemMsgs items) = some ((msgClasses cs).map (·.2))
  | [], cs, h => by simp [readItems] at h; subst h; rfl
  | it :: r, cs, h => by
    unfold readItems at h
    cases hr : readItems nm r with
    | none =>
      rw [hr] at h
      cases hx : readItem nm it with
      | none => simp [hx] at h
      | some oc => cases oc <;> simp [hx] at h
    | some cs' =>
      have ih := readItems_msgs nm r cs' hr
      rw [hr] at h
      cases it with
      | enum flat e =>
        simp only [readItem, Option.some.injEq] at h
        subst h
        simpa [itemMsgs, msgClasses, compileEnum] using ih
      | msg flat m =>
        unfold readItem at h
        by_cases hme : m.mapEntry = true
        · simp only [hme, if_true, Option.some.injEq] at h
          subst h
          simpa [itemMsgs, hme] using ih
        · simp only [hme, Bool.false_eq_true, if_false] at h
          cases hc : compileFields nm m m.fields with
          | none => simp [hc] at h
          | some fs =>
            simp only [hc, Option.map_some, Option.some.injEq] at h
            subst h
            simp [itemMsgs, hme, msgClasses, mapMOpt, hc, ih]

theorem compileFile_msgs (nm : Naming) (fl : FileP) (cs : List Class) (h : compileFile nm fl = some cs) :
    mapMOpt (fun m => compileFields nm m m.fields) ((fileMsgs fl).map (·.2)) = some ((msgClasses cs).map (·.2)) := by
  have := readItems_msgs nm _ cs h
  rw [traverse, itemMsgs_append, itemMsgs_travEnums, List.nil_append,
    travMsgs_msgs [] (pkgPrefix fl.package) fl.messages] at this
  exact this

theorem compilePackage_msgs (nm : Naming) : ∀ (files : List FileP) (cs : List Class),
    compilePackage nm files = some cs →
    mapMOpt (fun m => compileFields nm m m.fields) ((packageMsgs files).map (·.2)) = some ((msgClasses cs).map (·.2))
  | [], cs, h => by simp [compilePackage] at h; subst h; rfl
  | fl :: r, cs, h => by
    unfold compilePackage at h
    cases ha : compileFile nm fl with
    | none => simp [ha] at h
    | some a =>
      cases hb : compilePackage nm r with
      | none => simp [ha, hb] at h
      | some b =>
        simp only [ha, hb, Option.some.injEq] at h
        subst h
        have h1 := compileFile_msgs nm fl a ha
        have h2 := compilePackage_msgs nm r b hb
        simp only [packageMsgs, List.flatMap_cons, List.map_append, msgClasses_append]
        exact mapMOpt_append _ _ _ _ _ h1 h2

/-- class by class: the runtime's reading of the classes compiled from in-domain messages is the
    schema's reading of those messages -/
theorem classes_eq_spec (nm : Naming) (env : Env) : ∀ (L : List (Name × MsgP)) (C : List (Name × List CField)),
    mapMOpt (fun m => compileFields nm m m.fields) (L.map (·.2)) = some (C.map (·.2)) →
    (∀ p ∈ L, inDomain p.1 p.2 = true) →
    mapMOpt (fun p => classD env p.2) C = mapMOpt (fun p => specMsgD nm env p.1 p.2) L
  | [], [], _, _ => rfl
  | [], _ :: _, h, _ => by simp [mapMOpt] at h
  | p :: L, C, h, hv => by
    simp only [List.map_cons, mapMOpt] at h
    cases h0 : compileFields nm p.2 p.2.fields with
    | none => simp [h0] at h
    | some fs =>
      cases hr : mapMOpt (fun m => compileFields nm m m.fields) (L.map (·.2)) with
      | none => simp [h0, hr] at h
      | some rest =>
        simp only [h0, hr, Option.some.injEq] at h
        cases C with
        | nil => simp at h
        | cons c C' =>
          simp only [List.map_cons, List.cons.injEq] at h
          obtain ⟨hfs, hrest⟩ := h
          have hd := hv p List.mem_cons_self
          simp only [inDomain, Bool.and_eq_true] at hd
          obtain ⟨cs', hc', hcd⟩ := class_schema_faithful nm env p.1 p.2 hd.1.1 hd.1.2 hd.2
          rw [h0] at hc'; cases hc'
          have ih := classes_eq_spec nm env L C' (by rw [hr, hrest]) (fun q hq => hv q (List.mem_cons_of_mem _ hq))
          simp only [mapMOpt]
          rw [← hfs, hcd, ih]

theorem validPackage_mem {files : List FileP} (h : validPackage files = true) :
    ∀ p ∈ packageMsgs files, inDomain p.1 p.2 = true := by
  unfold validPackage at h
  simpa [List.all_eq_true] using h

/-- **the schema of a package.**  For every list of files all of whose messages are in the domain:
    the runtime schema of the classes the plugin emits is the schema the descriptors demand -/
theorem toSchema_eq_spec (nm : Naming) (pkg : Name) (files : List FileP) (cs : List Class)
    (hv : validPackage files = true) (hc : compilePackage nm files = some cs) :
    toSchema nm pkg cs = specSchema nm (envOf nm pkg cs) files :=
  classes_eq_spec nm _ _ _ (compilePackage_msgs nm files cs hc) (validPackage_mem hv)

theorem idxOf_lt {g : Name} : ∀ {l : List Name} {i : Nat}, idxOf g l = some i → i < l.length
  | [], _, h => by simp [idxOf] at h
  | a :: r, i, h => by
    unfold idxOf at h
    split at h
    · cases h; simp
    · cases hr : idxOf g r with
      | none => simp [hr] at h
      | some j =>
        simp only [hr, Option.map_some, Option.some.injEq] at h
        subst h
        have := idxOf_lt hr
        simp only [List.length_cons]; omega

theorem envOf_below (nm : Naming) (pkg : Name) (cs : List Class) :
    EnvBelow (envOf nm pkg cs) (msgClasses cs).length := by
  intro tn i h
  simp only [envOf] at h
  cases hf : flatOfTypeName pkg tn with
  | none => simp [hf] at h
  | some fl =>
    simp only [hf, Option.bind_some] at h
    have := idxOf_lt h
    simpa using this

theorem mapMOpt_length {α β} (f : α → Option β) : ∀ (l : List α) (r : List β), mapMOpt f l = some r → r.length = l.length
  | [], r, h => by simp [mapMOpt] at h; subst h; rfl
  | a :: l, r, h => by
    simp only [mapMOpt] at h
    cases h0 : f a with
    | none => simp [h0] at h
    | some b =>
      cases hr : mapMOpt f l with
      | none => simp [h0, hr] at h
      | some bs =>
        simp only [h0, hr, Option.some.injEq] at h
        subst h
        simp [mapMOpt_length f l bs hr]

theorem mapMOpt_mem {α β} (f : α → Option β) : ∀ (l : List α) (r : List β), mapMOpt f l = some r →
    ∀ d ∈ r, ∃ a ∈ l, f a = some d
  | [], r, h => by simp [mapMOpt] at h; subst h; simp
  | a :: l, r, h => by
    simp only [mapMOpt] at h
    cases h0 : f a with
    | none => simp [h0] at h
    | some b =>
      cases hr : mapMOpt f l with
      | none => simp [h0, hr] at h
      | some bs =>
        simp only [h0, hr, Option.some.injEq] at h
        subst h
        intro d hd
        rcases List.mem_cons.1 hd with rfl | hd
        · exact ⟨a, List.mem_cons_self, h0⟩
        · obtain ⟨x, hx, hfx⟩ := mapMOpt_mem f l bs hr d hd
          exact ⟨x, List.mem_cons_of_mem _ hx, hfx⟩

theorem specMsgD_wf {nm : Naming} {env : Env} {n : Nat} (he : EnvBelow env n) {full : Name} {m : MsgP} {d : MsgD}
    (h : specMsgD nm env full m = some d) : wfMsgDB n d = true := by
  unfold specMsgD at h
  dsimp only at h
  cases hm : mapMOpt (fun f => (specOf full m f).bind (specFieldD env (specGroupNames full m) (nm.fld f.name))) m.fields with
  | none => simp [hm] at h
  | some fs =>
    simp only [hm, Option.map_some, Option.some.injEq] at h
    subst h
    unfold wfMsgDB
    simp only [List.all_eq_true]
    intro fd hfd
    obtain ⟨f, _, hf⟩ := mapMOpt_mem _ _ _ hm fd hfd
    cases hs : specOf full m f with
    | none => simp [hs] at hf
    | some s =>
      simp only [hs, Option.bind_some] at hf
      exact specFieldD_wf he (specOf_wf hs) hf

/-- **well-formedness.**  The runtime schema of the classes generated from in-domain files
    satisfies the schema-only side condition of the C17 theorems -/
theorem toSchema_wf (nm : Naming) (pkg : Name) (files : List FileP) (cs : List Class) (S : Schema)
    (hv : validPackage files = true) (hc : compilePackage nm files = some cs)
    (hS : toSchema nm pkg cs = some S) : wfSchemaTB S = true := by
  have hlen : S.length = (msgClasses cs).length := mapMOpt_length _ _ _ hS
  rw [toSchema_eq_spec nm pkg files cs hv hc] at hS
  unfold wfSchemaTB
  simp only [List.all_eq_true]
  intro d hd
  obtain ⟨p, _, hp⟩ := mapMOpt_mem _ _ _ hS d hd
  rw [hlen]
  exact specMsgD_wf (envOf_below nm pkg cs) hp

end Bp.Plugin
