import BpProofs.PluginSchemaWf
/-
  Package level: the message classes `compilePackage` emits are, in order, the classes compiled
  from the (non-map-entry) messages of the files at every depth; hence `toSchema` of the
  package is the schema the descriptors demand, and it is well formed.
-/
namespace Bp.Plugin
open Bp

def itemMsgs : List Item → List MsgP
  | [] => []
  | .enum _ _ :: r => itemMsgs r
  | .msg _ m :: r => if m.mapEntry then itemMsgs r else m :: itemMsgs r

theorem itemMsgs_append : ∀ (a b : List Item), itemMsgs (a ++ b) = itemMsgs a ++ itemMsgs b
  | [], _ => rfl
  | .enum _ _ :: r, b => by simp [itemMsgs, itemMsgs_append r b]
  | .msg _ m :: r, b => by
    simp only [List.cons_append, itemMsgs, itemMsgs_append r b]
    split <;> rfl

theorem itemMsgs_travEnums (pre : Name) : ∀ es : List EnumP, itemMsgs (travEnums pre es) = []
  | [] => rfl
  | e :: r => by simp [travEnums, itemMsgs, itemMsgs_travEnums pre r]

mutual
theorem travMsgs_msgs (pre full : Name) : ∀ ms : List MsgP,
    itemMsgs (travMsgs pre ms) = (liveMsgs (fullMsgsL full ms)).map (·.2)
  | [] => rfl
  | m :: ms => by
    simp only [travMsgs, fullMsgsL, itemMsgs_append, liveMsgs, List.filter_append, List.map_append]
    have h1 := travMsg_msgs pre full m
    have h2 := travMsgs_msgs pre full ms
    simp only [liveMsgs] at h1 h2
    rw [h1, h2]
theorem travMsg_msgs (pre full : Name) : ∀ m : MsgP,
    itemMsgs (travMsg pre m) = (liveMsgs (fullMsgs1 full m)).map (·.2)
  | .mk n fs ns es os me => by
    have h2 := travMsgs_msgs (pre ++ '_' :: n) (full ++ '.' :: n) ns
    simp only [liveMsgs] at h2
    simp only [travMsg, fullMsgs1, itemMsgs, itemMsgs_append, itemMsgs_travEnums, List.nil_append, h2, liveMsgs,
      List.filter_cons, MsgP.mapEntry]
    cases me <;> simp
end

theorem mapMOpt_append {α β} (f : α → Option β) : ∀ (a b : List α) (x y : List β),
    mapMOpt f a = some x → mapMOpt f b = some y → mapMOpt f (a ++ b) = some (x ++ y)
  | [], b, x, y, ha, hb => by simp [mapMOpt] at ha; subst ha; simpa using hb
  | a0 :: a, b, x, y, ha, hb => by
    simp only [mapMOpt] at ha
    cases h0 : f a0 with
    | none => simp [h0] at ha
    | some b0 =>
      cases hr : mapMOpt f a with
      | none => simp [h0, hr] at ha
      | some bs =>
        simp only [h0, hr, Option.some.injEq] at ha
        subst ha
        have := mapMOpt_append f a b bs y hr hb
        simp [mapMOpt, h0, this]

theorem msgClasses_append : ∀ (a b : List Class), msgClasses (a ++ b) = msgClasses a ++ msgClasses b
  | [], _ => rfl
  | .message _ _ :: r, b => by simp [msgClasses, msgClasses_append r b]
  | .enum _ _ :: r, b => by simp [msgClasses, msgClasses_append r b]

/-- the message classes of `readItems` are the compiled non-map-entry message items, in order -/
theorem readItems_msgs (nm : Naming) : ∀ (items : List Item) (cs : List Class), readItems nm items = some cs →
    mapMOpt (fun m => compileFields nm m m.fields) (itemMsgs items) = some ((msgClasses cs).map (·.2))
  | [], cs, h => by simp [readItems] at h; subst h; rfl
  | it :: r, cs, h => by
    unfold readItems at h
    cases hr : readItems nm r with
    | none =>
      rw [hr] at h
      cases hx : readItem nm it with
      | none => simp [hx] at h
      | some oc => cases oc <;> simp [hx] at h
    | some cs' =>
      have ih := readItems_msgs nm r cs' hr
      rw [hr] at h
      cases it with
      | enum flat e =>
        simp only [readItem, Option.some.injEq] at h
        subst h
        simpa [itemMsgs, msgClasses, compileEnum] using ih
      | msg flat m =>
        unfold readItem at h
        by_cases hme : m.mapEntry = true
        · simp only [hme, if_true, Option.some.injEq] at h
          subst h
          simpa [itemMsgs, hme] using ih
        · simp only [hme, Bool.false_eq_true, if_false] at h
          cases hc : compileFields nm m m.fields with
          | none => simp [hc] at h
          | some fs =>
            simp only [hc, Option.map_some, Option.some.injEq] at h
            subst h
            simp [itemMsgs, hme, msgClasses, mapMOpt, hc, ih]

theorem compileFile_msgs (nm : Naming) (fl : FileP) (cs : List Class) (h : compileFile nm fl = some cs) :
    mapMOpt (fun m => compileFields nm m m.fields) ((fileMsgs fl).map (·.2)) = some ((msgClasses cs).map (·.2)) := by
  have := readItems_msgs nm _ cs h
  rw [traverse, itemMsgs_append, itemMsgs_travEnums, List.nil_append,
    travMsgs_msgs [] (pkgPrefix fl.package) fl.messages] at this
  exact this

theorem compilePackage_msgs (nm : Naming) : ∀ (files : List FileP) (cs : List Class),
    compilePackage nm files = some cs →
    mapMOpt (fun m => compileFields nm m m.fields) ((packageMsgs files).map (·.2)) = some ((msgClasses cs).map (·.2))
  | [], cs, h => by simp [compilePackage] at h; subst h; rfl
  | fl :: r, cs, h => by
    unfold compilePackage at h
    cases ha : compileFile nm fl with
    | none => simp [ha] at h
    | some a =>
      cases hb : compilePackage nm r with
      | none => simp [ha, hb] at h
      | some b =>
        simp only [ha, hb, Option.some.injEq] at h
        subst h
        have h1 := compileFile_msgs nm fl a ha
        have h2 := compilePackage_msgs nm r b hb
        simp only [packageMsgs, List.flatMap_cons, List.map_append, msgClasses_append]
        exact mapMOpt_append _ _ _ _ _ h1 h2

end Bp.Plugin
