import BpProofs.PluginSchemaPkg
/-
  The pydantic variant (`PydanticOneOfFieldCompiler`): what `optional=True` + `Optional[...]` on a
  oneof member change in the runtime schema.  Statements: Props/C18Plugin.lean.
-/
namespace Bp.Plugin
open Bp Bp.Gen.Plugin

/-- the metadata + hint the pydantic variant's line evaluates to -/
def pydMeta (mt : Meta) : Meta :=
  if mt.group.isSome then
    { mt with optional := true, hint := match mt.hint with | .plain t => .optional t | a => a }
  else mt

theorem metaFieldD_pydantic (env : Env) (gs : List Name) (n : Name) (mt : Meta) :
    metaFieldD env gs n (pydMeta mt) = (metaFieldD env gs n mt).map markOptionalMember := by
  obtain ⟨num, pt, mts, g, w, opt, hint⟩ := mt
  cases g with
  | none =>
    simp only [pydMeta, Option.isSome_none, Bool.false_eq_true, if_false]
    unfold metaFieldD
    simp only [groupIdx]
    split
    · simp_all [markOptionalMember]
    · rfl
  | some g =>
    cases hi : idxOf g gs with
    | none => simp [pydMeta, metaFieldD, groupIdx, hi]
    | some i =>
      cases hint <;> simp only [pydMeta, Option.isSome_some, if_true] <;> unfold metaFieldD <;>
        simp only [groupIdx, hi, Option.map_some, hintElem, hintIsList] <;> split <;>
        simp_all [markOptionalMember] <;> (intro hh; simp_all)

/-- evaluating the pydantic variant's line: the same metadata, `optional=True` and the
    `Optional[...]` hint added for a oneof member — provided the constructor accepts `optional=` -/
theorem readBack_pydantic (c : CField) (h : c.group.isSome = true → ctorsWithOptional.contains c.ctor = true) :
    readBack (pydanticField c) = (readBack c).map pydMeta := by
  cases hg : c.group with
  | none =>
    have : pydanticField c = c := by simp [pydanticField, hg]
    rw [this]
    cases hr : readBack c with
    | none => rfl
    | some mt =>
      have := (readBack_proj hr).2.2.1
      simp [pydMeta, this, hg]
  | some g =>
    have hc := h (by rw [hg]; rfl)
    unfold pydanticField readBack
    simp only [hg, Option.isSome_some, if_true, hc, Bool.not_true, Bool.and_false, Bool.false_eq_true, if_false]
    cases lookup? c.ctor fieldCtors with
    | none => rfl
    | some pt =>
      simp only []
      split
      · rfl
      · split
        · rfl
        · cases hw : wrapsBack c.wraps <;> cases hm : c.mapTypes <;> simp only [] <;> (repeat' split) <;>
            first | rfl | (simp_all [pydMeta]; done)

theorem optional_ok_table : ∀ p ∈ fieldTypeStr,
    ((lookupN? p.1 scalarPyType).isSome || messageTypes.contains p.1) = true → ctorsWithOptional.contains p.2 = true := by
  decide

/-- every line the plugin writes for a oneof member uses a constructor that accepts `optional=` -/
theorem compileField_optional_ok {nm : Naming} {m : MsgP} {f : FieldP} {c : CField}
    (h : compileField nm m f = some c) : c.group.isSome = true → ctorsWithOptional.contains c.ctor = true := by
  unfold compileField at h
  split at h
  · split at h
    · split at h
      · cases h; intro hg; cases hg
      · cases h
    · cases h
  · split at h
    · rename_i ctor py g hct hpy hgr
      cases h
      intro _
      refine optional_ok_table (f.type, ctor) (lookupN?_mem hct) ?_
      unfold pyTypeOf at hpy
      cases hs : lookupN? f.type scalarPyType with
      | some n => rfl
      | none =>
        simp only [hs] at hpy
        split at hpy
        · rename_i hm
          simp only [Option.isSome_none, Bool.false_or]; exact hm
        · cases hpy
    · cases h

/-- **one field, pydantic variant**: the `FieldD` the runtime derives from the line the pydantic
    variant writes is the standard one with `optional` set on oneof members — nothing else changes -/
theorem cfieldD_pydantic {nm : Naming} {m : MsgP} {f : FieldP} {c : CField} (env : Env) (gs : List Name)
    (h : compileField nm m f = some c) :
    cfieldD env gs (pydanticField c) = (cfieldD env gs c).map markOptionalMember := by
  have hn : (pydanticField c).pyName = c.pyName := by unfold pydanticField; split <;> rfl
  unfold cfieldD
  rw [readBack_pydantic c (compileField_optional_ok h), hn]
  cases readBack c with
  | none => rfl
  | some mt => exact metaFieldD_pydantic env gs c.pyName mt

/-- the constructor of a oneof member accepts `optional=` -/
def OkOpt (c : CField) : Prop := c.group.isSome = true → ctorsWithOptional.contains c.ctor = true

theorem cfieldD_pydantic' (env : Env) (gs : List Name) (c : CField) (h : OkOpt c) :
    cfieldD env gs (pydanticField c) = (cfieldD env gs c).map markOptionalMember := by
  have hn : (pydanticField c).pyName = c.pyName := by unfold pydanticField; split <;> rfl
  unfold cfieldD
  rw [readBack_pydantic c h, hn]
  cases readBack c with
  | none => rfl
  | some mt => exact metaFieldD_pydantic env gs c.pyName mt

theorem pydanticField_group (c : CField) : (pydanticField c).group = c.group := by
  unfold pydanticField; split <;> rfl

/-- the class description the pydantic variant yields: oneof members marked optional -/
def markMsg (d : MsgD) : MsgD := { d with fields := d.fields.map markOptionalMember }

theorem mapMOpt_pyd (env : Env) (gs : List Name) : ∀ (cs : List CField), (∀ c ∈ cs, OkOpt c) →
    mapMOpt (cfieldD env gs) (cs.map pydanticField) = (mapMOpt (cfieldD env gs) cs).map (List.map markOptionalMember)
  | [], _ => rfl
  | c :: r, h => by
    have ih := mapMOpt_pyd env gs r (fun x hx => h x (List.mem_cons_of_mem _ hx))
    simp only [List.map_cons, mapMOpt, ih, cfieldD_pydantic' env gs c (h c List.mem_cons_self)]
    cases cfieldD env gs c <;> cases mapMOpt (cfieldD env gs) r <;> rfl

theorem classD_pydantic (env : Env) (cs : List CField) (h : ∀ c ∈ cs, OkOpt c) :
    classD env (cs.map pydanticField) = (classD env cs).map markMsg := by
  unfold classD
  have hg : (cs.map pydanticField).map (·.group) = cs.map (·.group) := by
    simp [List.map_map, Function.comp_def, pydanticField_group]
  rw [hg]
  dsimp only
  rw [mapMOpt_pyd env _ cs h]
  cases mapMOpt (cfieldD env (groupNames (cs.map (·.group)))) cs <;> rfl

theorem msgClasses_pyd : ∀ cs : List Class,
    msgClasses (cs.map pydanticClass) = (msgClasses cs).map fun p => (p.1, p.2.map pydanticField)
  | [] => rfl
  | .message _ _ :: r => by simp [pydanticClass, msgClasses, msgClasses_pyd r]
  | .enum _ _ :: r => by simp [pydanticClass, msgClasses, msgClasses_pyd r]

theorem enumClasses_pyd : ∀ cs : List Class, enumClasses (cs.map pydanticClass) = enumClasses cs
  | [] => rfl
  | .message _ _ :: r => by simp [pydanticClass, enumClasses, enumClasses_pyd r]
  | .enum _ _ :: r => by simp [pydanticClass, enumClasses, enumClasses_pyd r]

theorem envOf_pyd (nm : Naming) (pkg : Name) (cs : List Class) :
    envOf nm pkg (cs.map pydanticClass) = envOf nm pkg cs := by
  unfold envOf
  rw [msgClasses_pyd, enumClasses_pyd]
  simp [List.map_map, Function.comp_def]

theorem mapMOpt_classes_pyd (env : Env) : ∀ (l : List (Name × List CField)), (∀ p ∈ l, ∀ c ∈ p.2, OkOpt c) →
    mapMOpt (fun p => classD env p.2) (l.map fun p => (p.1, p.2.map pydanticField))
      = (mapMOpt (fun p => classD env p.2) l).map (List.map markMsg)
  | [], _ => rfl
  | p :: r, h => by
    have ih := mapMOpt_classes_pyd env r (fun x hx => h x (List.mem_cons_of_mem _ hx))
    simp only [List.map_cons, mapMOpt, ih, classD_pydantic env p.2 (h p List.mem_cons_self)]
    cases classD env p.2 <;> cases mapMOpt (fun p => classD env p.2) r <;> rfl

/-- **the package, pydantic variant** -/
theorem toSchema_pydantic (nm : Naming) (pkg : Name) (cs : List Class)
    (h : ∀ p ∈ msgClasses cs, ∀ c ∈ p.2, OkOpt c) :
    toSchema nm pkg (cs.map pydanticClass) = (toSchema nm pkg cs).map (List.map markMsg) := by
  unfold toSchema
  rw [envOf_pyd, msgClasses_pyd]
  exact mapMOpt_classes_pyd _ _ h

theorem compileFields_okOpt (nm : Naming) (m : MsgP) (cs : List CField)
    (h : compileFields nm m m.fields = some cs) : ∀ c ∈ cs, OkOpt c := by
  obtain ⟨_, hlen, hz⟩ := compileFields_map nm m m.fields cs h
  intro c hc
  obtain ⟨i, hi, rfl⟩ := List.mem_iff_getElem.1 hc
  have hi' : i < m.fields.length := hlen ▸ hi
  have : (m.fields[i], cs[i]) ∈ m.fields.zip cs := by
    rw [List.mem_iff_getElem]
    exact ⟨i, by simp [hi, hi'], by simp⟩
  exact compileField_optional_ok (hz _ this)

theorem compilePackage_okOpt (nm : Naming) (files : List FileP) (cs : List Class)
    (h : compilePackage nm files = some cs) : ∀ p ∈ msgClasses cs, ∀ c ∈ p.2, OkOpt c := by
  intro p hp
  have hm := compilePackage_msgs nm files cs h
  obtain ⟨m, _, hmc⟩ := mapMOpt_mem _ _ _ hm p.2 (List.mem_map.2 ⟨p, hp, rfl⟩)
  exact compileFields_okOpt nm m p.2 hmc

end Bp.Plugin
