import BpProofs.PluginSchemaPkg
/-
  The pydantic variant (`PydanticOneOfFieldCompiler`): what `optional=True` + `Optional[...]` on a
  oneof member change in the runtime schema.  Statements: Props/C18Plugin.lean.
-/
namespace Bp.Plugin
open Bp Bp.Gen.Plugin

/-- the metadata + hint the pydantic variant's line evaluates to -/
def pydMeta (mt : Meta) : Meta :=
  if mt.group.isSome then
    { mt with optional := true, hint := match mt.hint with | .plain t => .optional t | a => a }
  else mt

theorem metaFieldD_pydantic (env : Env) (gs : List Name) (n : Name) (mt : Meta) :
    metaFieldD env gs n (pydMeta mt) = (metaFieldD env gs n mt).map markOptionalMember := by
  obtain ⟨num, pt, mts, g, w, opt, hint⟩ := mt
  cases g with
  | none =>
    simp only [pydMeta, Option.isSome_none, Bool.false_eq_true, if_false]
    unfold metaFieldD
    simp only [groupIdx]
    split
    · simp_all [markOptionalMember]
    · rfl
  | some g =>
    cases hi : idxOf g gs with
    | none => simp [pydMeta, metaFieldD, groupIdx, hi]
    | some i =>
      cases hint <;> simp only [pydMeta, Option.isSome_some, if_true] <;> unfold metaFieldD <;>
        simp only [groupIdx, hi, Option.map_some, hintElem, hintIsList] <;> split <;>
        simp_all [markOptionalMember] <;> (intro hh; simp_all)

/-- evaluating the pydantic variant's line: the same metadata, `optional=True` and the
    `Optional[...]` hint added for a oneof member — provided the constructor accepts `optional=` -/
theorem readBack_pydantic (c : CField) (h : c.group.isSome = true → ctorsWithOptional.contains c.ctor = true) :
    readBack (pydanticField c) = (readBack c).map pydMeta := by
  cases hg : c.group with
  | none =>
    have : pydanticField c = c := by simp [pydanticField, hg]
    rw [this]
    cases hr : readBack c with
    | none => rfl
    | some mt =>
      have := (readBack_proj hr).2.2.1
      simp [pydMeta, this, hg]
  | some g =>
    have hc := h (by rw [hg]; rfl)
    unfold pydanticField readBack
    simp only [hg, Option.isSome_some, if_true, hc, Bool.not_true, Bool.and_false, Bool.false_eq_true, if_false]
    cases lookup? c.ctor fieldCtors with
    | none => rfl
    | some pt =>
      simp only []
      split
      · rfl
      · split
        · rfl
        · cases hw : wrapsBack c.wraps <;> cases hm : c.mapTypes <;> simp only [] <;> (repeat' split) <;>
            first | rfl | (simp_all [pydMeta]; done)

theorem optional_ok_table : ∀ p ∈ fieldTypeStr,
    ((lookupN? p.1 scalarPyType).isSome || messageTypes.contains p.1) = true → ctorsWithOptional.contains p.2 = true := by
  decide

/-- every line the plugin writes for a oneof member uses a constructor that accepts `optional=` -/
theorem compileField_optional_ok {nm : Naming} {m : MsgP} {f : FieldP} {c : CField}
    (h : compileField nm m f = some c) : c.group.isSome = true → ctorsWithOptional.contains c.ctor = true := by
  unfold compileField at h
  split at h
  · split at h
    · split at h
      · cases h; intro hg; cases hg
      · cases h
    · cases h
  · split at h
    · rename_i ctor py g hct hpy hgr
      cases h
      intro _
      refine optional_ok_table (f.type, ctor) (lookupN?_mem hct) ?_
      unfold pyTypeOf at hpy
      cases hs : lookupN? f.type scalarPyType with
      | some n => rfl
      | none =>
        simp only [hs] at hpy
        split at hpy
        · rename_i hm
          simp only [Option.isSome_none, Bool.false_or]; exact hm
        · cases hpy
    · cases h

/-- **one field, pydantic variant**: the `FieldD` the runtime derives from the line the pydantic
    variant writes is the standard one with `optional` set on oneof members — nothing else changes -/
theorem cfieldD_pydantic {nm : Naming} {m : MsgP} {f : FieldP} {c : CField} (env : Env) (gs : List Name)
    (h : compileField nm m f = some c) :
    cfieldD env gs (pydanticField c) = (cfieldD env gs c).map markOptionalMember := by
  have hn : (pydanticField c).pyName = c.pyName := by unfold pydanticField; split <;> rfl
  unfold cfieldD
  rw [readBack_pydantic c (compileField_optional_ok h), hn]
  cases readBack c with
  | none => rfl
  | some mt => exact metaFieldD_pydantic env gs c.pyName mt

end Bp.Plugin
