import BpProofs.PluginSchema
import BpProofs.Typed
/-
  The schema the runtime derives from the plugin's output is well formed (`wfSchemaTB`):
  lemmas for Props/C17Plugin.lean.
-/
namespace Bp.Plugin
open Bp Bp.Gen.Plugin

theorem lookup?_mem {β} {k : Name} {v : β} : ∀ {l : List (Name × β)}, lookup? k l = some v → (k, v) ∈ l
  | [], h => by simp [lookup?] at h
  | (a, b) :: r, h => by
    unfold lookup? at h
    split at h
    · rename_i hk; cases h; subst hk; exact List.mem_cons_self
    · exact List.mem_cons_of_mem _ (lookup?_mem h)

theorem specType_ne_map {t : Nat} {ty : PType} (h : specType t = some ty) : ty ≠ .map := by
  have hm := lookupN?_mem h
  have : ∀ p ∈ specTypeTable, p.2 ≠ PType.map := by decide
  exact this _ hm

theorem specWrappers_scalar {tn : Name} {w : PType} (h : lookup? tn specWrappers = some w) :
    isScalarTy w = true := by
  have hm := lookup?_mem h
  have : ∀ p ∈ specWrappers, isScalarTy p.2 = true := by decide
  exact this _ hm

theorem specPy_isScalar {t : PType} {n : Name} (h : specPy t = some n) : isScalarTy t = true := by
  cases t <;> simp [specPy] at h <;> rfl

/-- what `specOf` guarantees of a field specification -/
def specWfB (s : FieldSpec) : Bool :=
  (match s.wraps with | some w => isScalarTy w | none => true)
  && (match s.card with
      | .map k v => s.ty == .map && isScalarTy k && v != .map
      | _ => s.ty != .map)

theorem specOf_wf {full : Name} {m : MsgP} {f : FieldP} {s : FieldSpec} (h : specOf full m f = some s) :
    specWfB s = true := by
  unfold specOf at h
  split at h
  · split at h
    · split at h
      · split at h
        · cases h
          simp only [specWfB, beq_self_eq_true, Bool.true_and, Bool.and_eq_true, bne_iff_ne, ne_eq]
          exact ⟨specPy_isScalar (by assumption), specType_ne_map (by assumption)⟩
        · cases h
      · cases h
    · cases h
  · split at h
    · split at h
      · cases h
        have h2 : ∀ {t : PType}, specType f.type = some t → t ≠ .map := fun h => specType_ne_map h
        have h3 : ∀ t : PType, (match (if t = PType.message then lookup? f.typeName specWrappers else none) with
                   | some w => isScalarTy w | none => true) = true := by
          intro t
          split
          · rename_i w hw
            split at hw
            · exact specWrappers_scalar hw
            · cases hw
          · rfl
        unfold specWfB
        simp only [h3, Bool.true_and]
        have := h2 (by assumption)
        by_cases hl : f.label = .repeated
        · simp [hl, this]
        · cases hp : f.proto3Optional <;> simp [hl, this]
      · cases h
    · cases h

/-- every type name the environment resolves lies below `n` -/
def EnvBelow (env : Env) (n : Nat) : Prop := ∀ tn i, env.msg tn = some i → i < n

theorem kindOfElem_below {env : Env} {n : Nat} (he : EnvBelow env n) {e : Elem} {k : MsgKind}
    (h : kindOfElem env e = some k) : match k with | .user c => c < n | _ => True := by
  cases e <;> simp [kindOfElem] at h
  · subst h; trivial
  · subst h; trivial
  · obtain ⟨i, hi, rfl⟩ := h; exact he _ _ hi

/-- the `FieldD` demanded for a well-formed specification is a well-formed runtime field -/
theorem specFieldD_wf {env : Env} {n : Nat} (he : EnvBelow env n) {gs : List Name} {name : Name}
    {s : FieldSpec} {d : FieldD} (hs : specWfB s = true) (h : specFieldD env gs name s = some d) :
    wfFieldB n d = true := by
  unfold specFieldD at h
  cases hcard : s.card
  case map tk tv =>
    simp only [hcard] at h
    split at h
    · rename_i g k vk er hg hk hvk her
      cases h
      unfold specWfB at hs
      rw [hcard] at hs
      simp only [Bool.and_eq_true, beq_iff_eq, bne_iff_ne, ne_eq] at hs
      obtain ⟨_, ⟨hm, hk1⟩, hv1⟩ := hs
      unfold wfFieldB
      by_cases hvm : tv = .message
      · simp only [hm, hvm, and_self, if_true] at hvk
        have := kindOfElem_below he hvk
        cases vk <;> simp_all
      · simp [hm, hk1, hv1, hvm]
    · cases h
  all_goals
    simp only [hcard, reduceCtorEq, and_false, or_false, if_false] at h
    split at h
    · rename_i g k vk er hg hk hvk her
      cases h
      unfold specWfB at hs
      rw [hcard] at hs
      simp only [Bool.and_eq_true, bne_iff_ne, ne_eq] at hs
      obtain ⟨hw, hnm⟩ := hs
      unfold wfFieldB
      by_cases hty : s.ty = .message
      · cases hwr : s.wraps with
        | none =>
          simp only [hty, hwr, and_self, if_true] at hk
          have := kindOfElem_below he hk
          cases k <;> simp_all
        | some w =>
          simp only [hty, hwr, reduceCtorEq, and_false, if_false] at hk
          cases hk
          rw [hwr] at hw
          simp_all
      · simp [hty, hnm]
    · cases h

end Bp.Plugin
