import BpModel.Plugin
/-
  Helper lemmas for C03, part 4: `traverse` (string prefixes) against `allTypes` (nesting paths),
  `readItems` / `compileFields` as maps.
-/
namespace Bp.Plugin
open Bp

theorem flatName_snoc (path : List Name) (n : Name) : flatName (path ++ [n]) = flatName path ++ '_' :: n := by
  induction path with
  | nil => simp [flatName]
  | cons a r ih => simp [flatName, ih]

/-- what an item contributes to the class list: its flattened name and kind (map entries: nothing) -/
def itemKey : Item → Option (Name × TypeKind)
  | .enum flat _ => some (flat, .enum)
  | .msg flat m => if m.mapEntry then none else some (flat, .message)

def typeKey (t : List Name × TypeKind) : Name × TypeKind := (flatName t.1, t.2)

theorem travEnums_key (path : List Name) (es : List EnumP) :
    (travEnums (flatName path) es).filterMap itemKey = es.map fun e => typeKey (path ++ [e.name], TypeKind.enum) := by
  induction es with
  | nil => rfl
  | cons e r ih => simp [travEnums, itemKey, typeKey, flatName_snoc, ih]

mutual
theorem travMsgs_key (path : List Name) : ∀ ms : List MsgP,
    (travMsgs (flatName path) ms).filterMap itemKey = (msgsTypes path ms).map typeKey
  | [] => rfl
  | m :: ms => by
    simp only [travMsgs, msgsTypes, List.filterMap_append, List.map_append]
    rw [travMsg_key path m, travMsgs_key path ms]
theorem travMsg_key (path : List Name) : ∀ m : MsgP,
    (travMsg (flatName path) m).filterMap itemKey = (msgTypes path m).map typeKey
  | .mk n fs ns es os me => by
    have h1 := travEnums_key (path ++ [n]) es
    have h2 := travMsgs_key (path ++ [n]) ns
    rw [flatName_snoc] at h1 h2
    simp only [travMsg, msgTypes, List.filterMap_cons, List.filterMap_append, List.map_append, h1, h2]
    cases me <;> simp [itemKey, MsgP.mapEntry, typeKey, flatName_snoc, List.map_map]
end

theorem traverse_key (fl : FileP) :
    (traverse fl).filterMap itemKey = (allTypes fl).map typeKey := by
  unfold traverse allTypes
  have h1 := travEnums_key [] fl.enums
  have h2 := travMsgs_key [] fl.messages
  simp only [flatName] at h1 h2
  simp only [List.filterMap_append, List.map_append, h1, h2, List.map_map]
  rfl

def Class.kind : Class → TypeKind
  | .message _ _ => .message
  | .enum _ _ => .enum

theorem readItems_keys (nm : Naming) : ∀ (items : List Item) (cs : List Class), readItems nm items = some cs →
    cs.map (fun c => (c.pyName, c.kind)) = (items.filterMap itemKey).map fun k => (nm.cls k.1, k.2)
  | [], cs, h => by simp [readItems] at h; subst h; rfl
  | it :: r, cs, h => by
    unfold readItems at h
    cases hr : readItems nm r with
    | none =>
      rw [hr] at h
      cases hx : readItem nm it with
      | none => simp [hx] at h
      | some oc => cases oc <;> simp [hx] at h
    | some cs' =>
      have ih := readItems_keys nm r cs' hr
      rw [hr] at h
      cases it with
      | enum flat e =>
        simp only [readItem, Option.some.injEq] at h
        subst h
        rw [List.map_cons, ih]
        simp [itemKey, compileEnum, Class.pyName, Class.kind]
      | msg flat m =>
        unfold readItem at h
        by_cases hme : m.mapEntry = true
        · simp only [hme, if_true, Option.some.injEq] at h
          subst h
          simp [itemKey, hme, ih]
        · simp only [hme, Bool.false_eq_true, if_false] at h
          cases hc : compileFields nm m m.fields with
          | none => simp [hc] at h
          | some fs =>
            simp only [hc, Option.map_some, Option.some.injEq] at h
            subst h
            rw [List.map_cons, ih]
            simp [itemKey, hme, Class.pyName, Class.kind]

theorem compileFields_map (nm : Naming) (m : MsgP) : ∀ (fs : List FieldP) (cs : List CField),
    compileFields nm m fs = some cs → cs = fs.filterMap (compileField nm m) ∧ cs.length = fs.length
      ∧ ∀ p ∈ fs.zip cs, compileField nm m p.1 = some p.2
  | [], cs, h => by simp [compileFields] at h; subst h; exact ⟨rfl, rfl, by simp⟩
  | f :: r, cs, h => by
    unfold compileFields at h
    cases hf : compileField nm m f with
    | none => simp [hf] at h
    | some c =>
      cases hr : compileFields nm m r with
      | none => simp [hf, hr] at h
      | some cs' =>
        simp only [hf, hr, Option.some.injEq] at h
        subst h
        obtain ⟨h1, h2, h3⟩ := compileFields_map nm m r cs' hr
        refine ⟨?_, by simp [h2], ?_⟩
        · simp [hf, ← h1]
        · intro p hp
          simp only [List.zip_cons_cons, List.mem_cons] at hp
          rcases hp with hp | hp
          · subst hp; exact hf
          · exact h3 p hp

theorem compileFields_some (nm : Naming) (m : MsgP) : ∀ (fs : List FieldP),
    (∀ f ∈ fs, (compileField nm m f).isSome = true) → (compileFields nm m fs).isSome = true
  | [], _ => rfl
  | f :: r, h => by
    unfold compileFields
    have h1 := h f List.mem_cons_self
    have h2 := compileFields_some nm m r (fun g hg => h g (List.mem_cons_of_mem _ hg))
    cases hf : compileField nm m f with
    | none => rw [hf] at h1; cases h1
    | some c =>
      cases hr : compileFields nm m r with
      | none => rw [hr] at h2; cases h2
      | some cs => rfl

end Bp.Plugin
