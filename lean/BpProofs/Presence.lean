import BpModel.All
import BpProofs.Len
/-
  Helper lemmas for C06 / C14: what a slot contributes to the encoding.
-/
namespace Bp
open Gen

/-- all slots from index `idx` on contribute nothing -/
theorem dumpSlots_nil_of (S : Schema) (fs : List FieldD) (cur : List (Option Nat)) (idx : Nat) (vs : List Val)
    (h : ∀ k v f, vs[k]? = some v → fs[idx + k]? = some f →
      dumpSlot S f (hidden f (idx + k) cur) (selectedInGroup f (idx + k) cur) v = .ok []) :
    dumpSlots S fs cur idx vs = .ok [] := by
  induction vs generalizing idx with
  | nil => rw [dumpSlots]
  | cons v vs ih =>
    rw [dumpSlots]
    cases hf : fs[idx]? with
    | none => rfl
    | some f =>
      simp only []
      have h0 := h 0 v f (by simp) (by simpa using hf)
      simp only [Nat.add_zero] at h0
      rw [h0]
      simp only [bind_ok]
      rw [ih (idx + 1) (by
        intro k v' f' hv hf'
        have := h (k + 1) v' f' (by simpa using hv) (by rw [← hf']; congr 1; omega)
        have e : idx + (k + 1) = idx + 1 + k := by omega
        rw [e] at this; exact this)]
      rfl

theorem hidden_none_cur (f : FieldD) (i n : Nat) (g : Nat) (hg : f.group = some g) :
    hidden f i (List.replicate n Option.none) = true := by
  unfold hidden
  rw [hg]
  simp [List.getD_eq_getElem?_getD]
  cases h : (List.replicate n (Option.none : Option Nat))[g]? with
  | none => simp
  | some x =>
    have := List.mem_of_getElem? h
    simp at this
    simp [this.2]

theorem selected_none_cur (f : FieldD) (i n : Nat) :
    selectedInGroup f i (List.replicate n Option.none) = false := by
  unfold selectedInGroup
  cases hg : f.group with
  | none => rfl
  | some g =>
    simp [List.getD_eq_getElem?_getD]
    cases h : (List.replicate n (Option.none : Option Nat))[g]? with
    | none => simp
    | some x =>
      have := List.mem_of_getElem? h
      simp at this
      simp [this.2]

/-- a PLACEHOLDER / None slot of a message without selection contributes nothing -/
theorem dumpSlot_fresh (S : Schema) (f : FieldD) (i n : Nat) :
    dumpSlot S f (hidden f i (List.replicate n Option.none)) (selectedInGroup f i (List.replicate n Option.none))
      (if f.optional then Val.none else Val.ph) = .ok [] := by
  rw [selected_none_cur]
  by_cases ho : f.optional = true
  · rw [if_pos ho, dumpSlot]
  · rw [if_neg ho, dumpSlot]
    split
    · rfl
    · rename_i hh
      cases hg : f.group with
      | some g => rw [hidden_none_cur f i n g hg] at hh; simp at hh
      | none =>
        unfold dumpDefault
        simp only [hg, ho, Option.isSome_none, Bool.or_self, Bool.false_eq_true]
        cases f.defKind <;> simp

/-- **a freshly constructed message encodes to zero bytes** -/
theorem dump_fresh (S : Schema) (c : Nat) : dumpVal S (fresh S c) = .ok [] := by
  unfold fresh
  rw [dumpVal_msg]
  rw [dumpSlots_nil_of]
  · rfl
  · intro k v f hv hf
    simp only [Nat.zero_add] at hf ⊢
    rw [List.getElem?_map, hf] at hv
    simp at hv
    rw [← hv]
    exact dumpSlot_fresh S f k _


def isPlainVal : Val → Bool
  | .ph | .none | .list _ | .dict _ _ | .msg _ _ _ _ _ => false
  | _ => true

/-- unconditional unfolding of `dumpSlot` on a scalar / string / bytes / datetime / timedelta value -/
theorem dumpSlot_plain (S : Schema) (f : FieldD) (hid sel : Bool) (v : Val) (h : isPlainVal v = true) :
    dumpSlot S f hid sel v =
      if hid then .ok []
      else if eqDefault S f.defKind v && !((f.group.isSome || f.optional) || sel) then .ok []
      else serializeScalar S f.num f.ty v ((match v with | .str [] => sel | _ => false) || (f.group.isSome || f.optional)) f.wraps := by
  cases v with
  | str s =>
    cases s with
    | nil => rw [dumpSlot]; all_goals (intros; contradiction)
    | cons a as =>
      rw [dumpSlot]
      all_goals (intros; first | contradiction | (rename_i hh; injection hh with hh; cases hh))
  | ph => simp [isPlainVal] at h
  | none => simp [isPlainVal] at h
  | list xs => simp [isPlainVal] at h
  | dict ks vs => simp [isPlainVal] at h
  | msg c sl ow unk cur => simp [isPlainVal] at h
  | _ => rw [dumpSlot]; all_goals (intros; contradiction)

theorem dumpEntries_nil (S : Schema) (f : FieldD) : dumpEntries S f [] [] = .ok [] := by
  rw [dumpEntries]; all_goals (intros; contradiction)

theorem slotsEqFresh_nil (S : Schema) : slotsEqFresh S [] [] = true := by
  rw [slotsEqFresh]; all_goals (intros; contradiction)

/-- optional fields are singular non-map fields (what protoc guarantees for proto3 optional) -/
def WfOptional (fs : List FieldD) : Prop := ∀ f ∈ fs, f.optional = true → f.repeated = false ∧ f.ty ≠ .map

def WfSchemaOpt (S : Schema) : Prop := ∀ c, WfOptional (fieldsOf S c)

theorem slotsEqFresh_fresh (S : Schema) (fs : List FieldD) (hw : WfOptional fs) :
    slotsEqFresh S fs (fs.map fun f => if f.optional then Val.none else Val.ph) = true := by
  induction fs with
  | nil => exact slotsEqFresh_nil S
  | cons f fs ih =>
    have hw' : WfOptional fs := fun x hx => hw x (by simp [hx])
    rw [List.map_cons]
    by_cases ho : f.optional = true
    · rw [if_pos ho, slotsEqFresh, ih hw']
      · have := hw f (by simp) ho
        have : f.defKind = .none := by
          unfold FieldD.defKind; simp [ho, this.1, this.2]
        simp [this, eqDefault]
      all_goals (intros; contradiction)
    · rw [if_neg ho, slotsEqFresh, ih hw']; rfl

theorem eqDefault_fresh (S : Schema) (c : Nat) (hw : WfSchemaOpt S) : eqDefault S (.msg c) (fresh S c) = true := by
  unfold fresh
  rw [eqDefault]
  simp [slotsEqFresh_fresh S _ (hw c)]

theorem dumpSlots_fresh (S : Schema) (c : Nat) :
    dumpSlots S (fieldsOf S c) (List.replicate (groupsOf S c) Option.none) 0
      ((fieldsOf S c).map fun f => if f.optional then Val.none else Val.ph) = .ok [] := by
  have := dump_fresh S c
  unfold fresh at this
  rw [dumpVal_msg] at this
  cases h : dumpSlots S (fieldsOf S c) (List.replicate (groupsOf S c) Option.none) 0
      ((fieldsOf S c).map fun f => if f.optional then Val.none else Val.ph) with
  | error e => rw [h] at this; simp at this
  | ok b => rw [h] at this; simp at this; rw [this]

/-- **lazily materialising a default is invisible to the encoder**: a PLACEHOLDER slot and
    the default value `getattr` would store in it encode the same -/
theorem dumpSlot_default (S : Schema) (hwS : WfSchemaOpt S) (f : FieldD) (sel : Bool) :
    dumpSlot S f false sel (defaultOf S f) = dumpDefault S f sel := by
  unfold defaultOf dumpDefault
  cases hk : f.defKind with
  | none => simp only [defaultOfKind]; rw [dumpSlot]
  | list =>
    simp only [defaultOfKind]
    rw [dumpSlot]
    simp only [Bool.false_eq_true, if_false, hk]
    have : eqDefault S .list (.list []) = true := by rw [eqDefault]; rfl
    rw [this]
    by_cases hs : (f.group.isSome || f.optional || sel) = true
    · simp only [hs, Bool.not_true, Bool.and_false, Bool.false_eq_true, if_false]
      split
      · rw [prepPacked]; rfl
      · rw [dumpItems]
    · have hs' : (f.group.isSome || f.optional || sel) = false := by simpa using hs
      simp [hs']
  | dict =>
    simp only [defaultOfKind]
    rw [dumpSlot]
    simp only [Bool.false_eq_true, if_false, hk]
    have : eqDefault S .dict (.dict [] []) = true := by rw [eqDefault]; rfl
    rw [this]
    by_cases hs : (f.group.isSome || f.optional || sel) = true
    · simp only [hs, Bool.not_true, Bool.and_false, Bool.false_eq_true, if_false]
      exact dumpEntries_nil S f
    · have hs' : (f.group.isSome || f.optional || sel) = false := by simpa using hs
      simp [hs']
  | msg c =>
    simp only [defaultOfKind]
    unfold fresh
    rw [dumpSlot]
    simp only [Bool.false_eq_true, if_false, hk]
    have := eqDefault_fresh S c hwS
    unfold fresh at this
    rw [this, dumpSlots_fresh]
    -- a `message` field whose default is a message has no `wraps`
    have hw : f.wraps = Option.none := by
      unfold FieldD.defKind at hk
      split at hk
      · simp at hk
      · split at hk
        · simp at hk
        · split at hk
          · simp at hk
          · rename_i h3
            simp at h3
            cases hwr : f.wraps <;> simp_all
    by_cases hs : (f.group.isSome || f.optional || sel) = true
    · have hs' : (f.group.isSome || f.optional || false || sel) = true := by simpa using hs
      simp only [hs', hs, Bool.not_true, Bool.and_false, Bool.false_eq_true, if_false, bind_ok, hw,
        Option.isNone_none, Option.isSome_none, Bool.and_true, List.append_nil, Bool.false_or]
    · have hs' : (f.group.isSome || f.optional || false || sel) = false := by simpa using hs
      have hs2 : (f.group.isSome || f.optional || sel) = false := by simpa using hs
      simp [hs', hs2]
  | int => simp only [defaultOfKind]; rw [dumpSlot_plain _ _ _ _ _ rfl]; simp [hk, eqDefault]
  | bool => simp only [defaultOfKind]; rw [dumpSlot_plain _ _ _ _ _ rfl]; simp [hk, eqDefault]
  | f32 => simp only [defaultOfKind]; rw [dumpSlot_plain _ _ _ _ _ rfl]; simp [hk, eqDefault, f32IsZero]
  | f64 => simp only [defaultOfKind]; rw [dumpSlot_plain _ _ _ _ _ rfl]; simp [hk, eqDefault, f64IsZero]
  | str => simp only [defaultOfKind]; rw [dumpSlot_plain _ _ _ _ _ rfl]; simp [hk, eqDefault]
  | byt => simp only [defaultOfKind]; rw [dumpSlot_plain _ _ _ _ _ rfl]; simp [hk, eqDefault]
  | ts => simp only [defaultOfKind]; rw [dumpSlot_plain _ _ _ _ _ rfl]; simp [hk, eqDefault]
  | dur => simp only [defaultOfKind]; rw [dumpSlot_plain _ _ _ _ _ rfl]; simp [hk, eqDefault]

end Bp
