import BpModel.All
namespace Bp.C01
theorem placeholder : True := trivial
end Bp.C01
