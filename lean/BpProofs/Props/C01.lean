import BpModel.All
import BpProofs.RtFlat
import BpProofs.RtMain
import BpProofs.Encodable
import BpProofs.Props.C06
import BpProofs.EqSound
/-
  C01 — binary round trip: parse(bytes(m)) reproduces m for every message value.

  FULL STATEMENT (the target; kept visible):
    for every well-formed schema S, class c and well-typed reachable value m of c,
      dumpVal S m = .ok bs  →  ∃ m', parse S c bs = .ok m' ∧ m' ≈ m (same values up to
      unset-vs-default, same oneof selection, same None-ness, same nested presence)
      ∧ dumpVal S m' = .ok bs.

  PROVED HERE:
    * record level, every scalar kind (RtScalar / RtPacked): one record of a scalar field
      decodes to the value it was made from; a packed payload decodes to exactly its list;
      packed chunks concatenate;
    * message level (`roundtrip_flat_partial`): the full statement for ALL schemas and ALL
      values of the flat fragment — any number of fields of the 16 scalar types, each
      singular, proto3-optional, a oneof member (any number of groups) or repeated (packed
      or not), plus arbitrary unknown fields — by induction over the slot list with the
      decoder-state invariant `GI`;
    * the assembly lemma `roundtrip_of_steps` is generic: ANY field kind for which "decoding
      the bytes of the slot restores the slot" (`SlotStep`) is shown joins the theorem.
    * every field kind (`roundtrip_nested_partial`): the full statement for ALL schemas and ALL
      well-typed values `MsgOk` (BpProofs/NestedDefs.lean) whose fields are
        - flat (as above),
        - message-typed: singular, proto3-optional, oneof member or repeated sub-messages of
          any class of the schema, to any depth, including recursive classes,
        - Timestamp / Duration (singular, optional, oneof member or REPEATED; datetime /
          timedelta in the protobuf-valid range; BpProofs/RtTimes.lean for the repeated
          ones: each item is its own record `tag, length, Timestamp`, written with
          `serialize_empty=True`, so the epoch is `tag 00` and the `or b"\n\x00"`
          fallback of the encoder is never reached),
        - wrappers (`Optional[scalar]`, singular or oneof member; REPEATED, `List[Optional[scalar]]`
          with no `None` item, BpProofs/RtWraps.lean: each item is its own record `tag, length,
          bytes(Wrapper(value=item))`, an item equal to the wrapped default is `tag 00`; the items
          come back in order, `-0.0` as `+0.0`),
        - maps with integer / bool / string keys and scalar, message or Timestamp / Duration
          values (for the latter the epoch / the zero duration writes no value record and is
          read back as the default of the entry's value field, which is that same value),
      by strong induction on the nesting fuel of the decoder (= the length of the input; the
      payload of a nested record is strictly shorter than the record). The decoded value is
      related to the original by `ValEqv` (BpProofs/Eqv.lean): same class, oneof selection
      and unknown fields at every level, `serialized_on_wire` set, and slot-wise an
      equivalent value or, where the slot emitted no byte, the unset default. `ValEqv`
      identifies exactly three things Python's `==` identifies too: `-0.0` with `+0.0`
      inside a wrapper (the wrapper class has implicit presence), and a map VALUE message
      that encodes to nothing with the fresh instance of its class.
    * that Python's `==` CONTAINS `ValEqv` is now a theorem, not a remark: `msgEq`
      (BpModel/Eq.lean) is a kernel-evaluable model of `Message.__eq__` — same class, then field
      by field over the raw slots, PLACEHOLDER on both sides skipped, PLACEHOLDER on one side
      replaced by `_get_field_default`, then `!=` / `_equal_or_both_nan` (numeric tower on IEEE
      bit patterns with `-0.0 == 0.0` and the both-NaN rule, lists item-wise, dicts as unordered
      maps, nested messages recursively; unknown fields, `_serialized_on_wire` and the oneof
      selection are not compared) — run against the real `==` by the driver command `EQ`, and
      `valEqv_msgEq` (BpProofs/EqSound.lean) proves `MsgOk S m → ValEqv S m m' →
      msgEq S m m' = true ∧ msgEq S m' m = true` with NO hypothesis on `m'` (per constructor:
      `refl` needs the both-NaN rule and, for dicts, pairwise different self-equal keys;
      `consFresh` / `emptyMsg` need "a well-typed slot that emits no byte equals the slot of a
      fresh instance": `slot_default`, by induction through unmarked sub-messages). No
      counterexample: the containment holds on all of `MsgOk`. Hence `roundtrip_equal` /
      `roundtrip_equal_total` below — C01 as the property states it: decoding the encoding of
      `m` yields a message EQUAL to `m` (`m == m'` and `m' == m`) that encodes to the same bytes.
    * encodability (`encodable`, BpProofs/Encodable.lean): EVERY `MsgOk` value can be encoded —
      `dumpVal` returns `.ok`, unconditionally (no side condition, no counterexample: no
      branch of the encoder fails on a well-typed slot, whatever `hid` / `sel`; an unset slot
      of any field whatsoever is fine because `dumpDefault` is total). By structural
      recursion on the value, with companions for `dumpSlots`, `dumpSlot`, `dumpItems`,
      `dumpEntries`. Hence `roundtrip_total_partial`: the round trip with NO encoding
      hypothesis — the only premise left besides `MsgOk` is that the encoding is shorter than
      2^64 bytes (a length the decoder's 64-bit length prefixes can express).
  MISSING: nothing the plugin generates for proto3 — every field kind × cardinality is inside `MsgOk`.
  OUTSIDE THE DOMAIN, by construction (`none_item_not_roundtrip` below): a `None` ITEM in the list of a
    repeated wrapper field. The type hint `List[Optional[int]]` admits it, but `dump` writes it exactly like
    the wrapped default (`tag 00`) and `load` hands back that default (`[None, 3]` comes back `[0, 3]`, unequal
    under `==`); the wire format has no null element, and the reference implementation rejects `None` in a
    repeated message field. `SlotOk.wraps` therefore requires every item to be a well-typed scalar.
-/
namespace Bp.C01
open Bp Gen

/-- **record level**: a scalar record decodes to the value it was made from, consuming
    exactly its own bytes, whatever follows -/
theorem scalar_record (S : Schema) (rec : Loader) (f : FieldD) (v : Val) (se : Bool)
    (out rest : Bytes) (hnum : numOk f.num = true) (hty : isScalarType f.ty = true)
    (hv : scalarOk f.ty v = true) (hlen : out.length < 2 ^ 64)
    (h : serializeScalar S f.num f.ty v se Option.none = .ok out) (hne : out ≠ []) :
    ∃ pf, loadField (out ++ rest) = .ok (pf, rest) ∧ pf.num = f.num ∧ pf.raw = out
      ∧ wireFits f pf.wt = true ∧ decodeValue S rec f pf = .ok v :=
  scalar_record_roundtrip S rec f v se out rest hnum hty hv hlen h hne

/-- every well-typed scalar value can be encoded -/
theorem scalar_encodable (S : Schema) (num : Nat) (t : PType) (v : Val) (se : Bool)
    (hty : isScalarType t = true) (hv : scalarOk t v = true) :
    ∃ out, serializeScalar S num t v se Option.none = .ok out := serializeScalar_ok S num t v se hty hv

/-- **packed lists**: the payload decodes to exactly the list it was made from -/
theorem packed_list (S : Schema) (t : PType) (xs : List Val) (buf : Bytes)
    (ht : isPacked t = true) (hx : ∀ x ∈ xs, scalarOk t x = true) (h : prepPacked S t xs = .ok buf) :
    decodePacked t buf = .ok xs := packed_roundtrip S t xs buf ht hx h

/-- a selected, set, well-typed scalar member always emits at least its tag -/
theorem selected_emits (S : Schema) (f : FieldD) (v : Val) (b : Bytes) (_hff : FlatField f)
    (hg : f.group.isSome = true) (hv : scalarOk f.ty v = true)
    (h : dumpSlot S f false true v = .ok b) : b ≠ [] := by
  obtain ⟨hpl, _⟩ := scalarOk_plain f.ty v hv
  obtain ⟨wt, rest, _, e⟩ := C06.explicit_emitted S f true v b hpl (Or.inr (Or.inl ⟨hg, rfl⟩)) h
  intro hc; rw [hc] at e
  have := encNat_ne_nil (f.num * 8 + wt)
  cases hh : encNat (f.num * 8 + wt) with
  | nil => exact this hh
  | cons a as => rw [hh] at e; simp at e

/-- **message level, flat fragment** — see the header for what "flat" covers.
    Hypotheses, all decidable: distinct in-range field numbers; oneof group indices in
    range and members not `optional`; the oneof invariant of C07 (unselected members are
    unset, the selection points into its group, a selected member holds a value); every
    slot well-typed for its field (`flatSlotOk`: in-range ints, float32 patterns a Python
    float can hold, valid UTF-8); unknown fields are raw records the class does not know;
    the encoding is shorter than 2^64 bytes. -/
theorem roundtrip_flat_partial (S : Schema) (c : Nat) (d : MsgD) (hd : S[c]? = some d)
    (sl : List Val) (ow : Bool) (unk : Bytes) (cur : List (Option Nat))
    (hdist : NumsDistinct d.fields) (hflat : ∀ f ∈ d.fields, FlatField f)
    (hlen : sl.length = d.fields.length) (hcurlen : cur.length = d.nGroups)
    (hwfg : WfGroups d.fields d.nGroups)
    (hgrpopt : ∀ f ∈ d.fields, f.group.isSome = true → f.optional = false)
    (hcurok : ∀ g i, cur.getD g Option.none = some i → ∃ f, d.fields[i]? = some f ∧ f.group = some g)
    (hinv : ∀ i f g, d.fields[i]? = some f → f.group = some g → cur.getD g Option.none ≠ some i → sl.getD i .ph = Val.ph)
    (hselset : ∀ g i, cur.getD g Option.none = some i → sl.getD i .ph ≠ Val.ph)
    (hty : ∀ (i : Nat) (f : FieldD) (v : Val), d.fields[i]? = some f → sl[i]? = some v → flatSlotOk f v = true)
    (hunk : UnkOk d unk)
    (bs : Bytes) (hdump : dumpVal S (.msg c sl ow unk cur) = .ok bs) (hbl : bs.length < 2 ^ 64) :
    ∃ sl', parse S c bs = .ok (.msg c sl' true unk cur)
      ∧ sl'.length = sl.length
      ∧ (∀ j f, d.fields[j]? = some f →
          sl'.getD j .ph = sl.getD j .ph
          ∨ (sl'.getD j .ph = freshVal f
              ∧ dumpSlot S f (hidden f j cur) (selectedInGroup f j cur) (sl.getD j .ph) = .ok []))
      ∧ dumpVal S (.msg c sl' true unk cur) = .ok bs := by
  -- facts about hidden / selected for members and non-members
  have hsel_grp : ∀ i f, d.fields[i]? = some f → selectedInGroup f i cur = true →
      ∃ g, f.group = some g ∧ cur.getD g Option.none = some i := by
    intro i f _ hs
    unfold selectedInGroup at hs
    cases hg : f.group with
    | none => rw [hg] at hs; simp at hs
    | some g => rw [hg] at hs; exact ⟨g, rfl, by simpa using hs⟩
  have hshape : MsgShape S d sl cur := by
    refine ⟨hlen, hcurlen, hwfg, hcurok, hgrpopt, hinv, ?_⟩
    intro i f b hf hs hb
    obtain ⟨g, hg, hcg⟩ := hsel_grp i f hf hs
    have hh : hidden f i cur = false := by unfold hidden; rw [hg]; simp only; rw [hcg]; simp
    rw [hh] at hb
    have hil : i < sl.length := by
      rw [hlen]; by_contra hc; rw [List.getElem?_eq_none (by omega)] at hf; simp at hf
    have hvi : sl[i]? = some (sl.getD i .ph) := by
      rw [List.getD_eq_getElem?_getD, List.getElem?_eq_getElem hil]; rfl
    have hok := hty i f _ hf hvi
    have hne := hselset g i hcg
    have hgo := hgrpopt f (List.mem_of_getElem? hf) (by simp [hg])
    have hff := hflat f (List.mem_of_getElem? hf)
    -- the value of a selected member is a well-typed scalar
    have hsc : scalarOk f.ty (sl.getD i .ph) = true := by
      cases hv : sl.getD i .ph with
      | ph => exact absurd hv hne
      | none => rw [hv] at hok; simp [flatSlotOk, hgo] at hok
      | list xs =>
        rw [hv] at hok; simp [flatSlotOk] at hok
        have := (hff.rep hok.1).2; rw [hg] at this; simp at this
      | _ => rw [hv] at hok; simp [flatSlotOk] at hok; first | exact hok.2 | (simp [scalarOk] at hok)
    exact selected_emits S f _ b hff (by simp [hg]) hsc hb
  apply roundtrip_of_steps S c d hd sl ow unk cur (fun _ v v' => v' = v) hshape hunk bs hdump hbl
  intro k f v hf hv
  have hR : ∀ (f : FieldD) (v : Val), (fun (_ : FieldD) (v v' : Val) => v' = v) f v v := fun _ _ => rfl
  have hff := hflat f (List.mem_of_getElem? hf)
  have hok := hty k f v hf hv
  have hvD : sl.getD k .ph = v := by simp [List.getD_eq_getElem?_getD, hv]
  cases v with
  | ph =>
    -- an unset slot emits nothing
    intro st b hb _ _ _ _ _
    have hbe : b = [] := by
      rw [dumpSlot] at hb
      by_cases hh : hidden f k cur = true
      · rw [if_pos hh] at hb; injection hb with hb; exact hb.symm
      · rw [if_neg hh] at hb
        have hh' : hidden f k cur = false := by simpa using hh
        cases hg : f.group with
        | some g =>
          have := selected_of_not_hidden f k g cur hg hh'
          exact absurd hvD (hselset g k this)
        | none =>
          have hs : selectedInGroup f k cur = false := by unfold selectedInGroup; rw [hg]
          have ho : f.optional = false := by simpa [flatSlotOk] using hok
          rw [hs] at hb
          unfold dumpDefault at hb
          simp only [hg, ho, Option.isSome_none, Bool.or_self, Bool.false_eq_true] at hb
          cases hk : f.defKind <;> rw [hk] at hb <;> simp at hb <;> first | exact hb.symm | exact hb
    exact ⟨[], .ph, fun _ h => by simp at h, by simp [joinRaw, hbe], fun h => absurd hbe h, by rw [if_pos hbe]; rfl⟩
  | none =>
    intro st b hb _ _ _ _ _
    rw [dumpSlot] at hb; injection hb with hb
    exact ⟨[], .none, fun _ h => by simp at h, by simp [joinRaw, ← hb], fun h => absurd hb.symm h, by rw [if_pos hb.symm]; rfl⟩
  | list xs =>
    simp [flatSlotOk] at hok
    obtain ⟨_, hg⟩ := hff.rep hok.1
    have hh : hidden f k cur = false := by unfold hidden; rw [hg]
    have hs : selectedInGroup f k cur = false := by unfold selectedInGroup; rw [hg]
    rw [hh]
    exact slotStep_repeated S _ d k f _ xs hdist hf hff hok.1 (fun x hx => hok.2 x hx) hs _ hR
  | int i => simp [flatSlotOk] at hok; exact slotStep_scalar S _ d k f _ _ _ hdist hf hff hok.1 hok.2 _ hR
  | bool b => simp [flatSlotOk] at hok; exact slotStep_scalar S _ d k f _ _ _ hdist hf hff hok.1 hok.2 _ hR
  | f32 b => simp [flatSlotOk] at hok; exact slotStep_scalar S _ d k f _ _ _ hdist hf hff hok.1 hok.2 _ hR
  | f64 b => simp [flatSlotOk] at hok; exact slotStep_scalar S _ d k f _ _ _ hdist hf hff hok.1 hok.2 _ hR
  | str s => simp [flatSlotOk] at hok; exact slotStep_scalar S _ d k f _ _ _ hdist hf hff hok.1 hok.2 _ hR
  | byt s => simp [flatSlotOk] at hok; exact slotStep_scalar S _ d k f _ _ _ hdist hf hff hok.1 hok.2 _ hR
  | ts us => simp [flatSlotOk, scalarOk] at hok
  | dur us => simp [flatSlotOk, scalarOk] at hok
  | dict ks vs => simp [flatSlotOk, scalarOk] at hok
  | msg c' sl' ow' unk' cur' => simp [flatSlotOk, scalarOk] at hok

/-- **message level, every field kind** — `MsgOk` (BpProofs/NestedDefs.lean) is the
    well-typedness of a reachable message value: at every nesting level distinct in-range
    field numbers, the oneof invariant of C07, every slot well-typed for its field (`SlotOk`:
    flat as in `roundtrip_flat_partial`; unset / None / a well-typed message / a list of
    well-typed messages for a message-typed field; an in-range datetime / timedelta; a
    wrapped scalar; a list of wrapped scalars without `None` items; a list of in-range datetimes / timedeltas; a dict with pairwise different
    well-typed keys and well-typed scalar, message or datetime / timedelta values), unknown fields that are raw records the class does not know. -/
theorem roundtrip_nested_partial (S : Schema) (c : Nat) (d : MsgD) (hd : S[c]? = some d)
    (sl : List Val) (ow : Bool) (unk : Bytes) (cur : List (Option Nat))
    (hm : MsgOk S (.msg c sl ow unk cur))
    (bs : Bytes) (hdump : dumpVal S (.msg c sl ow unk cur) = .ok bs) (hbl : bs.length < 2 ^ 64) :
    ∃ sl', parse S c bs = .ok (.msg c sl' true unk cur)
      ∧ ValEqv S (.msg c sl ow unk cur) (.msg c sl' true unk cur)
      ∧ dumpVal S (.msg c sl' true unk cur) = .ok bs := by
  obtain ⟨sl', h1, h2, h3⟩ := nested_fuel S (bs.length + 1) c d sl ow unk cur bs hm hd hdump hbl (by omega)
  refine ⟨sl', ?_, h2, h3⟩
  have hfo : fieldsOf S c = d.fields := by simp [fieldsOf, hd]
  have hgo : groupsOf S c = d.nGroups := by simp [groupsOf, hd]
  unfold parse fresh parseInto
  simp only [hd, hfo, hgo]
  have e : ({ slots := d.fields.map fun f => if f.optional then Val.none else Val.ph, onWire := false,
              unknown := [], cur := List.replicate d.nGroups Option.none } : MState) = freshState d := rfl
  rw [e, h1]
  rfl

/-- **every well-typed message value can be encoded**: `bytes(m)` raises nothing on the
    domain `MsgOk` of the round-trip theorem (BpProofs/Encodable.lean) -/
theorem encodable (S : Schema) (m : Val) (h : MsgOk S m) : ∃ bs, dumpVal S m = .ok bs :=
  msgOk_encodable S m h

/-- … so the round trip needs no encoding hypothesis beyond the 2^64-byte length bound:
    the encoding exists, and if it is shorter than 2^64 bytes it parses back to an
    equivalent value with the same encoding -/
theorem roundtrip_total_partial (S : Schema) (c : Nat) (d : MsgD) (hd : S[c]? = some d)
    (sl : List Val) (ow : Bool) (unk : Bytes) (cur : List (Option Nat)) (hm : MsgOk S (.msg c sl ow unk cur)) :
    ∃ bs, dumpVal S (.msg c sl ow unk cur) = .ok bs ∧
      (bs.length < 2 ^ 64 → ∃ sl', parse S c bs = .ok (.msg c sl' true unk cur)
        ∧ ValEqv S (.msg c sl ow unk cur) (.msg c sl' true unk cur) ∧ dumpVal S (.msg c sl' true unk cur) = .ok bs) := by
  obtain ⟨bs, hbs⟩ := encodable S _ hm
  exact ⟨bs, hbs, fun hbl => roundtrip_nested_partial S c d hd sl ow unk cur hm bs hbs hbl⟩

/-! non-vacuity: a class with an int32, an optional string, a two-member oneof and a packed
    repeated sint64; the value below meets every hypothesis (evaluated by `decide`) -/
def SX : Schema := [{ fields := [{ name := "i", num := 1, ty := .int32 },
                                  { name := "s", num := 2, ty := .string, optional := true },
                                  { name := "a", num := 3, ty := .bool, group := some 0 },
                                  { name := "b", num := 4, ty := .bytes, group := some 0 },
                                  { name := "r", num := 5, ty := .sint64, repeated := true }], nGroups := 1 }]
def mX : Val := .msg 0 [.int (-7), .str [], .ph, .byt [], .list [.int (-1), .int 150]] true [] [some 3]
example : dumpVal SX mX = .ok [8, 249, 255, 255, 255, 255, 255, 255, 255, 255, 1, 18, 0, 34, 0, 42, 3, 1, 172, 2] := by decide
example : (parse SX 0 [8, 249, 255, 255, 255, 255, 255, 255, 255, 255, 1, 18, 0, 34, 0, 42, 3, 1, 172, 2]).bind (dumpVal SX)
    = .ok [8, 249, 255, 255, 255, 255, 255, 255, 255, 255, 1, 18, 0, 34, 0, 42, 3, 1, 172, 2] := by decide

/-- **C01 with Python's `==`**: for every well-typed message value `m` of class `c` whose
    encoding `bs` is shorter than 2^64 bytes, `Cls().parse(bs)` succeeds with a message `m'` such
    that `m == m'` and `m' == m` (`msgEq`, BpModel/Eq.lean: `Message.__eq__`) and `bytes(m') = bs` -/
theorem roundtrip_equal (S : Schema) (c : Nat) (sl : List Val) (ow : Bool) (unk : Bytes) (cur : List (Option Nat))
    (hm : MsgOk S (.msg c sl ow unk cur))
    (bs : Bytes) (hdump : dumpVal S (.msg c sl ow unk cur) = .ok bs) (hbl : bs.length < 2 ^ 64) :
    ∃ m', parse S c bs = .ok m' ∧ msgEq S (.msg c sl ow unk cur) m' = true ∧ msgEq S m' (.msg c sl ow unk cur) = true
      ∧ dumpVal S m' = .ok bs := by
  obtain ⟨d, hd, _⟩ := EqS.msgOk_slotsT S c sl ow unk cur hm
  obtain ⟨sl', h1, h2, h3⟩ := roundtrip_nested_partial S c d hd sl ow unk cur hm bs hdump hbl
  obtain ⟨e1, e2⟩ := valEqv_msgEq S _ _ hm h2
  exact ⟨_, h1, e1, e2, h3⟩

/-- … without an encoding hypothesis: the encoding exists (`encodable`), and if it is shorter than
    2^64 bytes it parses back to a message equal to `m` under `==`, with the same encoding -/
theorem roundtrip_equal_total (S : Schema) (c : Nat) (sl : List Val) (ow : Bool) (unk : Bytes) (cur : List (Option Nat))
    (hm : MsgOk S (.msg c sl ow unk cur)) :
    ∃ bs, dumpVal S (.msg c sl ow unk cur) = .ok bs ∧
      (bs.length < 2 ^ 64 → ∃ m', parse S c bs = .ok m' ∧ msgEq S (.msg c sl ow unk cur) m' = true
        ∧ msgEq S m' (.msg c sl ow unk cur) = true ∧ dumpVal S m' = .ok bs) := by
  obtain ⟨bs, hbs⟩ := encodable S _ hm
  exact ⟨bs, hbs, fun hbl => roundtrip_equal S c sl ow unk cur hm bs hbs hbl⟩

/-! non-vacuity of the equality statement (the instance of `roundtrip_equal` on `Bp.OkEx.mEx` needs
    `msgOkB_sound`, BpProofs/OkSound.lean, which imports this file: it cannot be stated here).
    `SQ`: `Sub {int32 x}`, `Top {float f; double d; Sub s; map<int32, Sub> m; FloatValue w;
    map<string, float> mf; Timestamp t; optional string o}`. `mQ` is accepted by the checker of the
    theorem's domain, and its decoded copy differs from it in every way `ValEqv` allows — `f = -0.0`,
    `s = Sub(x=0)` (unmarked) and `t = epoch` emit no byte and come back unset (`consFresh`); the
    wrapped `-0.0` comes back `+0.0` (`negZero32`); the map value `Sub(x=0)` comes back as a fresh
    `Sub()` (`emptyMsg`); `d` is a NaN (unequal to itself under plain `==`) — and still `mQ == m'`
    and `m' == mQ`.  `msgEq` is not trivially true (last three examples). -/
def subQ : MsgD := { fields := [{ name := "x", num := 1, ty := .int32 }] }
def topQ : MsgD :=
  { fields := [{ name := "f", num := 1, ty := .float },
               { name := "d", num := 2, ty := .double },
               { name := "s", num := 3, ty := .message, kind := .user 0 },
               { name := "m", num := 4, ty := .map, mapK := .int32, mapV := .message, mapVKind := .user 0 },
               { name := "w", num := 5, ty := .message, kind := .user 2, wraps := some .float },
               { name := "mf", num := 6, ty := .map, mapK := .string, mapV := .float },
               { name := "t", num := 7, ty := .message, kind := .timestamp },
               { name := "o", num := 8, ty := .string, optional := true }] }
def SQ : Schema := [subQ, topQ, wrapperD .float]
def mQ : Val := .msg 1
  [.f32 0x80000000, .f64 0x7ff8000000000001, .msg 0 [.int 0] false [] [],
   .dict [.int 1, .int 2] [.msg 0 [.int 0] false [] [], .msg 0 [.int 7] false [] []],
   .f32 0x80000000, .dict [.str [97]] [.f32 0x80000000], .ts 0, .none] false [] []
def bsQ : Bytes :=
  [17, 1, 0, 0, 0, 0, 0, 248, 127, 34, 2, 8, 1, 34, 6, 8, 2, 18, 2, 8, 7, 42, 0, 50, 8, 10, 1, 97, 21, 0, 0, 0, 128]
/-- what `parse SQ 1 bsQ` returns -/
def mQ' : Val := .msg 1
  [.ph, .f64 0x7ff8000000000001, .ph,
   .dict [.int 1, .int 2] [.msg 0 [.ph] false [] [], .msg 0 [.int 7] true [] []],
   .f32 0, .dict [.str [97]] [.f32 0x80000000], .ph, .none] true [] []
example : msgOkB SQ mQ = true := by decide
example : dumpVal SQ mQ = .ok bsQ := by decide
example : parse SQ 1 bsQ = .ok mQ' := by rfl
example : msgEq SQ mQ mQ' = true ∧ msgEq SQ mQ' mQ = true := by decide
example : msgEq SQ mQ mQ = true := by decide
example : msgEq SX mX mX = true := by decide
example : ((parse SX 0 [8, 249, 255, 255, 255, 255, 255, 255, 255, 255, 1, 18, 0, 34, 0, 42, 3, 1, 172, 2]).bind fun m' =>
    .ok (msgEq SX mX m' && msgEq SX m' mX)) = .ok true := by decide +kernel
-- a different float, a different map value, a value of another class: unequal
example : msgEq SQ mQ (.msg 1 [.f32 0x3f800000, .f64 0x7ff8000000000001, .ph, .ph, .ph, .ph, .ph, .none] true [] []) = false := by
  decide
example : msgEq SQ mQ' (.msg 1 [.ph, .f64 0x7ff8000000000001, .ph,
    .dict [.int 1, .int 2] [.msg 0 [.ph] false [] [], .msg 0 [.int 8] true [] []],
    .f32 0, .dict [.str [97]] [.f32 0x80000000], .ph, .none] true [] []) = false := by decide
example : msgEq SQ (fresh SQ 0) (fresh SQ 2) = false := by decide

/-! non-vacuity for REPEATED wrapper fields. `SR`: `repeated Int32Value a = 1; repeated StringValue s = 2;
    repeated FloatValue f = 3`. `mR = M(a=[5, 0, -1], s=["", "x"], f=[-0.0, 1.5])` is accepted by the checker of
    the theorem's domain; the items equal to the wrapped default are the records `0a 00` / `12 00` / `1a 00`, the
    list comes back item by item, `-0.0` as `+0.0`, and `mR == m'` both ways. (Bytes as the real code writes them.) -/
def SR : Schema := [{ fields := [{ name := "a", num := 1, ty := .message, wraps := some .int32, repeated := true },
                                  { name := "s", num := 2, ty := .message, wraps := some .string, repeated := true },
                                  { name := "f", num := 3, ty := .message, wraps := some .float, repeated := true }] }]
def mR : Val := .msg 0 [.list [.int 5, .int 0, .int (-1)], .list [.str [], .str [120]],
                        .list [.f32 0x80000000, .f32 0x3fc00000]] false [] []
def bsR : Bytes :=
  [10, 2, 8, 5, 10, 0, 10, 11, 8, 255, 255, 255, 255, 255, 255, 255, 255, 255, 1, 18, 0, 18, 3, 10, 1, 120,
   26, 0, 26, 5, 13, 0, 0, 192, 63]
/-- what `parse SR 0 bsR` returns -/
def mR' : Val := .msg 0 [.list [.int 5, .int 0, .int (-1)], .list [.str [], .str [120]],
                         .list [.f32 0, .f32 0x3fc00000]] true [] []
example : msgOkB SR mR = true := by decide
example : dumpVal SR mR = .ok bsR := by decide
example : parse SR 0 bsR = .ok mR' := by rfl
example : dumpVal SR mR' = .ok bsR := by decide
example : msgEq SR mR mR' = true ∧ msgEq SR mR' mR = true := by decide

/-- `M(a=[None, 3])`: a `None` item in a repeated wrapper field -/
def mN : Val := .msg 0 [.list [.none, .int 3], .ph, .ph] false [] []
/-- what it decodes to: `M(a=[0, 3])` -/
def mN' : Val := .msg 0 [.list [.int 0, .int 3], .ph, .ph] true [] []

/-- **a `None` item of a repeated wrapper field does NOT round-trip** (which is why the domain excludes it:
    `msgOkB` rejects the value): it is written as the record `0a 00`, exactly like `Int32Value(0)`, and read
    back as `0`; `M(a=[None, 3]) != M(a=[0, 3])` in both orders. Replayed on the real code (harness/props/c01.py,
    stage `none_items`). -/
theorem none_item_not_roundtrip :
    msgOkB SR mN = false ∧ dumpVal SR mN = .ok [10, 0, 10, 2, 8, 3] ∧ parse SR 0 [10, 0, 10, 2, 8, 3] = .ok mN'
      ∧ msgEq SR mN mN' = false ∧ msgEq SR mN' mN = false ∧ dumpVal SR mN' = .ok [10, 0, 10, 2, 8, 3] :=
  ⟨by decide, by decide, rfl, by decide, by decide, by decide⟩

end Bp.C01

#print axioms Bp.C01.none_item_not_roundtrip
#print axioms Bp.C01.encodable
#print axioms Bp.C01.roundtrip_total_partial
#print axioms Bp.C01.roundtrip_equal
#print axioms Bp.C01.roundtrip_equal_total
