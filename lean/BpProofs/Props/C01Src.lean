import BpProofs.SrcTieMsgLoad
import BpProofs.SrcTieMsgGuard
import BpProofs.Props.C09SrcMsg
import BpProofs.Props.C01
/-
  C01, tied to the SOURCE: the round trip `Cls.FromString(bytes(m))` / `Cls().parse(bytes(m))` stated
  of the translated whole methods (harness/extract_srcmsg.py → BpProofs/Gen/SrcMsg.lean):
  `Src.value_bytes` = `Message.__bytes__` as written (with `dump`, the field loop, the loop body and
  the recursion into nested messages), `Src.value_from_string` = `Message.FromString` as written (with
  `parse`, `load`, `load_fields`, the record loop, the loop body and the recursion into nested classes).

  Guards: those of the model theorem (`MsgOk S m`, the encoding shorter than 2^64 bytes) and those of
  the ties: `WfSchemaOpt S`, `msgDynOk S m` (decidable; implied by `MsgOk`, `msgDynOk_of_ok`),
  `depthOf m < depth`, the encoding consists of bytes (`WfBytes`: the model's bytes are `List Nat`) and
  fuel for the `while` loops of the codec primitives.
-/
namespace Bp.C01
open Bp Bp.Py Bp.SrcTieMsg

/-- **`Cls.FromString(data)` as written is the model's `parse`** (the function the C01 / C02 / C08 /
    C17 theorems about the decoder are stated of) -/
theorem src_from_string (fuel : Nat) (S : Schema) (c : Nat) (bs : Bytes) (hw : WfBytes bs) (hf : bs.length + 12 ≤ fuel) :
    Src.value_from_string fuel S bs.length c bs = Py.ofR (parse S c bs) :=
  value_from_string_eq fuel S c bs hw hf

/-- **`m.parse(data)` as written is the model's `parseInto`**, for every receiver -/
theorem src_parse (fuel : Nat) (S : Schema) (m : Val) (bs : Bytes) (hw : WfBytes bs) (hf : bs.length + 12 ≤ fuel) :
    Src.value_parse fuel S bs.length m bs = Py.ofR (parseInto S m bs) :=
  value_parse_eq fuel S m bs hw hf

/-- **the round trip, of the SOURCE FUNCTIONS ONLY**: for every well-typed message value `m` of class
    `c` (`MsgOk`, the domain of `roundtrip_equal`; it implies the guard of the tie), if `bytes(m)` as
    written returned `bs`, then `Cls.FromString(bs)` as written returns a message `m'` with `m == m'`
    and `m' == m` (`Message.__eq__`), and `bytes(m')` as written returns `bs` again (for every nesting
    budget above the depth of `m'`) -/
theorem src_roundtrip (S : Schema) (hS : WfSchemaOpt S) (hST : WfSchemaT S) (fuel depth : Nat)
    (c : Nat) (sl : List Val) (ow : Bool) (unk : Bytes) (cur : List (Option Nat))
    (hm : MsgOk S (.msg c sl ow unk cur)) (hd : depthOf (.msg c sl ow unk cur) < depth)
    (bs : Bytes) (hbytes : Src.value_bytes fuel S depth (.msg c sl ow unk cur) = .ok bs)
    (hw : WfBytes bs) (hbl : bs.length < 2 ^ 64) (hf : bs.length + 12 ≤ fuel) :
    ∃ m', Src.value_from_string fuel S bs.length c bs = .ok m'
      ∧ msgEq S (.msg c sl ow unk cur) m' = true ∧ msgEq S m' (.msg c sl ow unk cur) = true
      ∧ ∀ depth', depthOf m' < depth' → Src.value_bytes fuel S depth' m' = .ok bs := by
  have hg := msgDynOk_of_ok S _ hm
  have hb := C09.src_bytes S hS fuel depth _ hg hd
  rw [hbytes] at hb
  have hdump : dumpVal S (.msg c sl ow unk cur) = .ok bs := by
    cases h : dumpVal S (.msg c sl ow unk cur) with
    | error e => rw [h] at hb; cases hb
    | ok b => rw [h] at hb; injection hb with hb; rw [hb]
  obtain ⟨m', h1, h2, h3, h4⟩ := roundtrip_equal S c sl ow unk cur hm bs hdump hbl
  refine ⟨m', by rw [src_from_string fuel S c bs hw hf, h1]; rfl, h2, h3, fun depth' hd' => ?_⟩
  have hg' := msgDynOk_of_typed false S hST m' (parse_msgTyped S hST c bs m' h1)
  rw [C09.src_bytes S hS fuel depth' m' hg' hd', h4]; rfl

/-- the guard of the whole-method ties holds on the domain of the round-trip theorems, and of
    everything `parse` returns -/
theorem src_guard_of_ok (S : Schema) (m : Val) (h : MsgOk S m) : msgDynOk S m = true := msgDynOk_of_ok S m h
theorem src_guard_of_parse (S : Schema) (hST : WfSchemaT S) (c : Nat) (bs : Bytes) (m : Val) (h : parse S c bs = .ok m) :
    msgDynOk S m = true := msgDynOk_of_typed false S hST m (parse_msgTyped S hST c bs m h)

/-- **pickling as written is parse ∘ bytes**: `__reduce__` hands `FromString` the bytes `bytes(self)`;
    unpickling calls `FromString` on them — the model's pickle step (`stepOp … .pickle`, C14) -/
theorem src_pickle (S : Schema) (hS : WfSchemaOpt S) (fuel k : Nat)
    (c : Nat) (sl : List Val) (ow : Bool) (unk : Bytes) (cur : List (Option Nat))
    (hg : msgDynOk S (.msg c sl ow unk cur) = true) (hd : depthOf (.msg c sl ow unk cur) ≤ k)
    (hw : ∀ bs, dumpVal S (.msg c sl ow unk cur) = .ok bs → WfBytes bs ∧ bs.length + 12 ≤ fuel) :
    ((Src.value_reduce fuel S k (.msg c sl ow unk cur)).bind fun bs => Src.value_from_string fuel S bs.length c bs)
      = Py.ofR (stepOp S (.msg c sl ow unk cur) .pickle) := by
  rw [(C09.src_aliases fuel S k _).2.2, C09.src_bytes S hS fuel (k + 1) _ hg (by omega)]
  unfold stepOp
  simp only [stateOf]
  cases hb : dumpVal S (.msg c sl ow unk cur) with
  | error e => rfl
  | ok bs =>
    obtain ⟨h1, h2⟩ := hw bs hb
    simp only [SrcTieDump.ofR_ok, SrcTieDump.res_bind_ok, bind_ok, src_from_string fuel S c bs h1 h2]

end Bp.C01
