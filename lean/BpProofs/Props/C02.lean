import BpModel.All
import BpModel.Spec
import BpProofs.SpecCore
/-
  C02 — wire interoperability with the reference protobuf implementation.

  The reference (`google.protobuf`) cannot be brought into Lean: it is the oracle of the
  differential part of the check.  What is proved here is that the MODEL OF THE DECODER
  (`loadFields` + `foldFields`/`applyField`, i.e. `Message.load`) is insensitive to exactly
  the re-encodings the property lists, for all schemas, all record lists / byte strings and
  every loader of nested payloads (`rec`), by induction over record lists — no bounds.

  "The decoded message" is `core st`: field values, oneof selection, presence — the state
  without the raw bytes retained for unknown fields.
-/
namespace Bp.C02
open Bp Gen

/-- **interleaved unknown fields** — "… and interleaved unknown fields": two record lists
    whose known records (numbers the class declares, with a fitting wire type) are the
    same sequence decode to the same message; unknown records may be added, dropped or
    moved to any position, of any of the four wire types.  Failure is preserved too. -/
theorem load_unknown_interleave (S : Schema) (rec : Loader) (d : MsgD) (st : MState) (pfs pfs' : List PField)
    (h : (pfs.filter fun pf => !isUnknownField d pf) = (pfs'.filter fun pf => !isUnknownField d pf)) :
    (foldFields S rec d st pfs).map core = (foldFields S rec d st pfs').map core := by
  rw [foldFields_core_filter, foldFields_core_filter S rec d pfs', h]

end Bp.C02
